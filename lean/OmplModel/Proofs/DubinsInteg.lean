import OmplModel.Proofs.DubinsReal
import OmplModel.Proofs.DubinsAF
import Mathlib.Analysis.SpecialFunctions.Trigonometric.Deriv
import Mathlib.Analysis.SpecialFunctions.Trigonometric.Bounds
import Mathlib.Tactic.Linarith
import Mathlib.Tactic.Ring
/-!
[EX] lemmas over ℝ about the interpolation part of the Dubins model (C14):

* `truncate` keeps exactly `seg` of length, letter for letter a prefix of the word, and is
  idempotent/monotone (`truncate_truncate`): the curve up to `t` is a prefix of the whole curve;
* every segment step is the unit-speed vehicle model: `x' = ±cos θ`, `y' = ±sin θ`, `θ' = κ ∈ {1,-1,0}`;
* chord ≤ arc for each segment, hence (planar triangle inequality) the end point of a driven word is
  no farther from the start than the word is long.
-/
namespace OmplModel.Dubins
open OmplModel DubinsR
attribute [-instance] Num.instOfNat

/-! ## truncation -/

theorem truncate_nil (seg : ℝ) : truncate ([] : List (Seg × ℝ)) seg = [] := rfl

theorem truncate_cons_pos (s : Seg) (l : ℝ) (rest : List (Seg × ℝ)) (seg : ℝ) (h : 0 < seg) :
    truncate ((s, l) :: rest) seg = (s, min seg l) :: truncate rest (seg - min seg l) := by
  have h' : @LT.lt ℝ instNumRealD.toLT (@OfNat.ofNat ℝ 0 (Num.instOfNat 0)) seg := by
    rw [ofNat_zero]; exact h
  simp only [truncate, if_pos h', min_eq]

theorem truncate_of_nonpos (segs : List (Seg × ℝ)) (seg : ℝ) (h : seg ≤ 0) : truncate segs seg = [] := by
  cases segs with
  | nil => rfl
  | cons hd tl =>
    obtain ⟨s, l⟩ := hd
    have h' : ¬ @LT.lt ℝ instNumRealD.toLT (@OfNat.ofNat ℝ 0 (Num.instOfNat 0)) seg := by
      rw [ofNat_zero]; exact not_lt.mpr h
    simp only [truncate, if_neg h']

theorem sum_snd_nonneg (segs : List (Seg × ℝ)) (hnn : ∀ x ∈ segs, 0 ≤ x.2) :
    0 ≤ (segs.map Prod.snd).sum := by
  induction segs with
  | nil => simp
  | cons hd tl ih =>
    simp only [List.map_cons, List.sum_cons]
    have := hnn hd List.mem_cons_self
    have := ih (fun x hx => hnn x (List.mem_cons_of_mem _ hx))
    linarith

/-- the truncated word is exactly `seg` long -/
theorem truncate_total (segs : List (Seg × ℝ)) (seg : ℝ) (hnn : ∀ x ∈ segs, 0 ≤ x.2)
    (h0 : 0 ≤ seg) (h1 : seg ≤ (segs.map Prod.snd).sum) :
    ((truncate segs seg).map Prod.snd).sum = seg := by
  induction segs generalizing seg with
  | nil =>
    simp only [List.map_nil, List.sum_nil] at h1
    simp only [truncate_nil, List.map_nil, List.sum_nil]; linarith
  | cons hd tl ih =>
    obtain ⟨s, l⟩ := hd
    have hl : 0 ≤ l := hnn (s, l) List.mem_cons_self
    have htl : ∀ x ∈ tl, 0 ≤ x.2 := fun x hx => hnn x (List.mem_cons_of_mem _ hx)
    have hsum := sum_snd_nonneg tl htl
    simp only [List.map_cons, List.sum_cons] at h1
    rcases lt_or_eq_of_le h0 with hpos | hz
    · rw [truncate_cons_pos s l tl seg hpos]
      simp only [List.map_cons, List.sum_cons]
      have hm : min seg l ≤ seg := min_le_left _ _
      have h1' : seg - min seg l ≤ (tl.map Prod.snd).sum := by
        rcases le_total seg l with h | h
        · rw [min_eq_left h]; linarith
        · rw [min_eq_right h]; linarith
      rw [ih (seg - min seg l) htl (by linarith) h1']; ring
    · subst hz
      rw [truncate_of_nonpos _ _ le_rfl]; simp

/-- letter for letter the truncated word is a prefix of the original, every kept length is
non-negative and at most the original one -/
theorem truncate_bounded (segs : List (Seg × ℝ)) (seg : ℝ) (hnn : ∀ x ∈ segs, 0 ≤ x.2) :
    List.Forall₂ (fun a b : Seg × ℝ => a.1 = b.1 ∧ 0 ≤ a.2 ∧ a.2 ≤ b.2)
      (truncate segs seg) (segs.take (truncate segs seg).length) := by
  induction segs generalizing seg with
  | nil => simp [truncate_nil]
  | cons hd tl ih =>
    obtain ⟨s, l⟩ := hd
    have hl : 0 ≤ l := hnn (s, l) List.mem_cons_self
    have htl : ∀ x ∈ tl, 0 ≤ x.2 := fun x hx => hnn x (List.mem_cons_of_mem _ hx)
    rcases lt_or_ge 0 seg with hpos | hz
    · rw [truncate_cons_pos s l tl seg hpos]
      simp only [List.length_cons, List.take_succ_cons]
      refine List.Forall₂.cons ⟨rfl, le_min hpos.le hl, min_le_right _ _⟩ (ih _ htl)
    · rw [truncate_of_nonpos _ _ hz]; simp

theorem truncate_nonneg (segs : List (Seg × ℝ)) (seg : ℝ) (hnn : ∀ x ∈ segs, 0 ≤ x.2) :
    ∀ x ∈ truncate segs seg, 0 ≤ x.2 := by
  induction segs generalizing seg with
  | nil => intro x hx; simp [truncate_nil] at hx
  | cons hd tl ih =>
    obtain ⟨s, l⟩ := hd
    have hl : 0 ≤ l := hnn (s, l) List.mem_cons_self
    have htl : ∀ x ∈ tl, 0 ≤ x.2 := fun x hx => hnn x (List.mem_cons_of_mem _ hx)
    rcases lt_or_ge 0 seg with hpos | hz
    · rw [truncate_cons_pos s l tl seg hpos]
      intro x hx
      rcases List.mem_cons.mp hx with rfl | hx
      · exact le_min hpos.le hl
      · exact ih _ htl x hx
    · rw [truncate_of_nonpos _ _ hz]; intro x hx; cases hx

/-- truncating a truncated word: the shorter budget wins (the curve up to an earlier point is a
prefix of the curve up to a later point). -/
theorem truncate_truncate (segs : List (Seg × ℝ)) (seg seg' : ℝ) (h : seg' ≤ seg) :
    truncate (truncate segs seg) seg' = truncate segs seg' := by
  induction segs generalizing seg seg' with
  | nil => simp [truncate_nil]
  | cons hd tl ih =>
    obtain ⟨s, l⟩ := hd
    rcases lt_or_ge 0 seg' with hpos | hz
    · have hpos2 : 0 < seg := lt_of_lt_of_le hpos h
      rw [truncate_cons_pos s l tl seg hpos2, truncate_cons_pos _ _ _ seg' hpos,
        truncate_cons_pos s l tl seg' hpos]
      have hmin : min seg' (min seg l) = min seg' l := by
        rw [← min_assoc, min_eq_left h]
      rw [hmin]
      have hle : seg' - min seg' l ≤ seg - min seg l := by
        rcases le_total seg' l with h1 | h1
        · rw [min_eq_left h1]
          have := min_le_left seg l; linarith
        · rw [min_eq_right h1, min_eq_right (le_trans h1 h)]; linarith
      rw [ih _ _ hle]
    · rw [truncate_of_nonpos _ _ hz, truncate_of_nonpos _ _ hz]

/-! ## words and their lengths -/

theorem segList_sum (P : Path ℝ) : (P.segList.map Prod.snd).sum = P.len := by
  obtain ⟨w, t, p, q, rev⟩ := P
  cases w <;> cases rev <;> simp [Path.segList, Word.segs, Path.len] <;> ring

theorem segList_nonneg (P : Path ℝ) (ht : 0 ≤ P.t) (hp : 0 ≤ P.p) (hq : 0 ≤ P.q) :
    ∀ x ∈ P.segList, 0 ≤ x.2 := by
  obtain ⟨w, t, p, q, rev⟩ := P
  intro x hx
  cases w <;> cases rev <;> simp [Path.segList, Word.segs] at hx <;>
    rcases hx with rfl | rfl | rfl <;> assumption

/-! ## vehicle model: one segment -/

/-- signed curvature of a letter when driven forward -/
def kappa : Seg → ℝ
  | .L => 1
  | .R => -1
  | .S => 0

theorem stepFwd_zero (s : Seg) (P : Pose ℝ) : stepFwd s 0 P = P := by
  obtain ⟨x, y, th⟩ := P
  cases s
  · show Pose.mk (x + Real.sin (th + 0) - Real.sin th) (y - Real.cos (th + 0) + Real.cos th) (th + 0) = _
    simp
  · show Pose.mk (x + 0 * Real.cos th) (y + 0 * Real.sin th) th = _
    simp
  · show Pose.mk (x - Real.sin (th - 0) + Real.sin th) (y + Real.cos (th - 0) - Real.cos th) (th - 0) = _
    simp

theorem stepRev_zero (s : Seg) (P : Pose ℝ) : stepRev s 0 P = P := by
  obtain ⟨x, y, th⟩ := P
  cases s
  · show Pose.mk (x + Real.sin (th - 0) - Real.sin th) (y - Real.cos (th - 0) + Real.cos th) (th - 0) = _
    simp
  · show Pose.mk (x - 0 * Real.cos th) (y - 0 * Real.sin th) th = _
    simp
  · show Pose.mk (x - Real.sin (th + 0) + Real.sin th) (y + Real.cos (th + 0) - Real.cos th) (th + 0) = _
    simp

private theorem hd_add (φ v : ℝ) : HasDerivAt (fun v : ℝ => φ + v) 1 v := by
  simpa using (hasDerivAt_id v).const_add φ
private theorem hd_sub (φ v : ℝ) : HasDerivAt (fun v : ℝ => φ - v) (-1) v := by
  simpa using (hasDerivAt_id v).const_sub φ

/-- forward driving: heading changes at rate `kappa s` -/
theorem integrate_segment_fwd_th (s : Seg) (P : Pose ℝ) (v : ℝ) :
    HasDerivAt (fun v => (stepFwd s v P).th) (kappa s) v := by
  cases s
  · exact hd_add P.th v
  · exact hasDerivAt_const v P.th
  · exact hd_sub P.th v

/-- forward driving: `x' = cos θ` -/
theorem integrate_segment_fwd_x (s : Seg) (P : Pose ℝ) (v : ℝ) :
    HasDerivAt (fun v => (stepFwd s v P).x) (Real.cos (stepFwd s v P).th) v := by
  cases s
  · show HasDerivAt (fun v => P.x + Real.sin (P.th + v) - Real.sin P.th) (Real.cos (P.th + v)) v
    have h := (((hd_add P.th v).sin).const_add P.x).sub_const (Real.sin P.th)
    exact h.congr_deriv (by ring)
  · show HasDerivAt (fun v => P.x + v * Real.cos P.th) (Real.cos P.th) v
    have h := ((hasDerivAt_id v).mul_const (Real.cos P.th)).const_add P.x
    exact h.congr_deriv (by ring)
  · show HasDerivAt (fun v => P.x - Real.sin (P.th - v) + Real.sin P.th) (Real.cos (P.th - v)) v
    have h := (((hd_sub P.th v).sin).const_sub P.x).add_const (Real.sin P.th)
    exact h.congr_deriv (by ring)

/-- forward driving: `y' = sin θ` -/
theorem integrate_segment_fwd_y (s : Seg) (P : Pose ℝ) (v : ℝ) :
    HasDerivAt (fun v => (stepFwd s v P).y) (Real.sin (stepFwd s v P).th) v := by
  cases s
  · show HasDerivAt (fun v => P.y - Real.cos (P.th + v) + Real.cos P.th) (Real.sin (P.th + v)) v
    have h := (((hd_add P.th v).cos).const_sub P.y).add_const (Real.cos P.th)
    exact h.congr_deriv (by ring)
  · show HasDerivAt (fun v => P.y + v * Real.sin P.th) (Real.sin P.th) v
    have h := ((hasDerivAt_id v).mul_const (Real.sin P.th)).const_add P.y
    exact h.congr_deriv (by ring)
  · show HasDerivAt (fun v => P.y + Real.cos (P.th - v) - Real.cos P.th) (Real.sin (P.th - v)) v
    have h := (((hd_sub P.th v).cos).const_add P.y).sub_const (Real.cos P.th)
    exact h.congr_deriv (by ring)

/-- driving the word backwards: heading changes at rate `-kappa s` -/
theorem integrate_segment_rev_th (s : Seg) (P : Pose ℝ) (v : ℝ) :
    HasDerivAt (fun v => (stepRev s v P).th) (-kappa s) v := by
  cases s
  · exact hd_sub P.th v
  · show HasDerivAt (fun _ => P.th) (-0) v
    rw [neg_zero]; exact hasDerivAt_const v P.th
  · show HasDerivAt (fun v => P.th + v) (- -1) v
    rw [neg_neg]; exact hd_add P.th v

/-- backwards: `x' = -cos θ` -/
theorem integrate_segment_rev_x (s : Seg) (P : Pose ℝ) (v : ℝ) :
    HasDerivAt (fun v => (stepRev s v P).x) (-Real.cos (stepRev s v P).th) v := by
  cases s
  · show HasDerivAt (fun v => P.x + Real.sin (P.th - v) - Real.sin P.th) (-Real.cos (P.th - v)) v
    have h := (((hd_sub P.th v).sin).const_add P.x).sub_const (Real.sin P.th)
    exact h.congr_deriv (by ring)
  · show HasDerivAt (fun v => P.x - v * Real.cos P.th) (-Real.cos P.th) v
    have h := ((hasDerivAt_id v).mul_const (Real.cos P.th)).const_sub P.x
    exact h.congr_deriv (by ring)
  · show HasDerivAt (fun v => P.x - Real.sin (P.th + v) + Real.sin P.th) (-Real.cos (P.th + v)) v
    have h := (((hd_add P.th v).sin).const_sub P.x).add_const (Real.sin P.th)
    exact h.congr_deriv (by ring)

/-- backwards: `y' = -sin θ` -/
theorem integrate_segment_rev_y (s : Seg) (P : Pose ℝ) (v : ℝ) :
    HasDerivAt (fun v => (stepRev s v P).y) (-Real.sin (stepRev s v P).th) v := by
  cases s
  · show HasDerivAt (fun v => P.y - Real.cos (P.th - v) + Real.cos P.th) (-Real.sin (P.th - v)) v
    have h := (((hd_sub P.th v).cos).const_sub P.y).add_const (Real.cos P.th)
    exact h.congr_deriv (by ring)
  · show HasDerivAt (fun v => P.y - v * Real.sin P.th) (-Real.sin P.th) v
    have h := ((hasDerivAt_id v).mul_const (Real.sin P.th)).const_sub P.y
    exact h.congr_deriv (by ring)
  · show HasDerivAt (fun v => P.y + Real.cos (P.th + v) - Real.cos P.th) (-Real.sin (P.th + v)) v
    have h := (((hd_add P.th v).cos).const_add P.y).sub_const (Real.cos P.th)
    exact h.congr_deriv (by ring)

/-- concatenation: driving `u` then `v` of the same letter is driving `u + v` -/
theorem stepFwd_add (s : Seg) (u v : ℝ) (P : Pose ℝ) :
    stepFwd s (u + v) P = stepFwd s v (stepFwd s u P) := by
  obtain ⟨x, y, th⟩ := P
  cases s
  · show Pose.mk (x + Real.sin (th + (u + v)) - Real.sin th) (y - Real.cos (th + (u + v)) + Real.cos th) (th + (u + v)) =
      Pose.mk (x + Real.sin (th + u) - Real.sin th + Real.sin (th + u + v) - Real.sin (th + u))
        (y - Real.cos (th + u) + Real.cos th - Real.cos (th + u + v) + Real.cos (th + u)) (th + u + v)
    rw [← add_assoc]; congr 1 <;> ring
  · show Pose.mk (x + (u + v) * Real.cos th) (y + (u + v) * Real.sin th) th =
      Pose.mk (x + u * Real.cos th + v * Real.cos th) (y + u * Real.sin th + v * Real.sin th) th
    congr 1 <;> ring
  · show Pose.mk (x - Real.sin (th - (u + v)) + Real.sin th) (y + Real.cos (th - (u + v)) - Real.cos th) (th - (u + v)) =
      Pose.mk (x - Real.sin (th - u) + Real.sin th - Real.sin (th - u - v) + Real.sin (th - u))
        (y + Real.cos (th - u) - Real.cos th + Real.cos (th - u - v) - Real.cos (th - u)) (th - u - v)
    rw [← sub_sub]; congr 1 <;> ring

/-! ## chord ≤ arc -/

private theorem chord_arc (a b : ℝ) :
    (Real.sin a - Real.sin b) ^ 2 + (Real.cos a - Real.cos b) ^ 2 ≤ (a - b) ^ 2 := by
  have h := Real.cos_sub a b
  have hb := @Real.one_sub_sq_div_two_le_cos (a - b)
  nlinarith [Real.sin_sq_add_cos_sq a, Real.sin_sq_add_cos_sq b]

/-- one forward segment moves the position by at most its length -/
theorem stepFwd_chord_sq (s : Seg) (v : ℝ) (P : Pose ℝ) :
    ((stepFwd s v P).x - P.x) ^ 2 + ((stepFwd s v P).y - P.y) ^ 2 ≤ v ^ 2 := by
  cases s
  · show (P.x + Real.sin (P.th + v) - Real.sin P.th - P.x) ^ 2 +
      (P.y - Real.cos (P.th + v) + Real.cos P.th - P.y) ^ 2 ≤ v ^ 2
    have h := chord_arc (P.th + v) P.th
    have e : P.th + v - P.th = v := by ring
    rw [e] at h
    nlinarith [h]
  · show (P.x + v * Real.cos P.th - P.x) ^ 2 + (P.y + v * Real.sin P.th - P.y) ^ 2 ≤ v ^ 2
    nlinarith [Real.sin_sq_add_cos_sq P.th]
  · show (P.x - Real.sin (P.th - v) + Real.sin P.th - P.x) ^ 2 +
      (P.y + Real.cos (P.th - v) - Real.cos P.th - P.y) ^ 2 ≤ v ^ 2
    have h := chord_arc (P.th - v) P.th
    have e : P.th - v - P.th = -v := by ring
    rw [e] at h
    nlinarith [h]

/-- one reversed segment moves the position by at most its length -/
theorem stepRev_chord_sq (s : Seg) (v : ℝ) (P : Pose ℝ) :
    ((stepRev s v P).x - P.x) ^ 2 + ((stepRev s v P).y - P.y) ^ 2 ≤ v ^ 2 := by
  cases s
  · show (P.x + Real.sin (P.th - v) - Real.sin P.th - P.x) ^ 2 +
      (P.y - Real.cos (P.th - v) + Real.cos P.th - P.y) ^ 2 ≤ v ^ 2
    have h := chord_arc (P.th - v) P.th
    have e : P.th - v - P.th = -v := by ring
    rw [e] at h
    nlinarith [h]
  · show (P.x - v * Real.cos P.th - P.x) ^ 2 + (P.y - v * Real.sin P.th - P.y) ^ 2 ≤ v ^ 2
    nlinarith [Real.sin_sq_add_cos_sq P.th]
  · show (P.x - Real.sin (P.th + v) + Real.sin P.th - P.x) ^ 2 +
      (P.y + Real.cos (P.th + v) - Real.cos P.th - P.y) ^ 2 ≤ v ^ 2
    have h := chord_arc (P.th + v) P.th
    have e : P.th + v - P.th = v := by ring
    rw [e] at h
    nlinarith [h]

/-- planar triangle inequality for `√(a² + b²)` -/
theorem sqrt_triangle (a b c d : ℝ) :
    Real.sqrt ((a + c) ^ 2 + (b + d) ^ 2) ≤ Real.sqrt (a ^ 2 + b ^ 2) + Real.sqrt (c ^ 2 + d ^ 2) := by
  have hab : 0 ≤ a ^ 2 + b ^ 2 := by positivity
  have hcd : 0 ≤ c ^ 2 + d ^ 2 := by positivity
  have h1 : a * c + b * d ≤ Real.sqrt ((a ^ 2 + b ^ 2) * (c ^ 2 + d ^ 2)) :=
    le_trans (le_abs_self _) (Real.abs_le_sqrt (by nlinarith [sq_nonneg (a * d - b * c)]))
  rw [Real.sqrt_mul hab] at h1
  rw [Real.sqrt_le_iff]
  refine ⟨add_nonneg (Real.sqrt_nonneg _) (Real.sqrt_nonneg _), ?_⟩
  nlinarith [Real.sq_sqrt hab, Real.sq_sqrt hcd, h1]

theorem sqrt_chord_le (dx dy v : ℝ) (hv : 0 ≤ v) (h : dx ^ 2 + dy ^ 2 ≤ v ^ 2) :
    Real.sqrt (dx ^ 2 + dy ^ 2) ≤ v := by
  rw [Real.sqrt_le_iff]; exact ⟨hv, h⟩

/-- a step function that moves the position by at most the driven length -/
def ChordBounded (step : Seg → ℝ → Pose ℝ → Pose ℝ) : Prop :=
  ∀ s v P, ((step s v P).x - P.x) ^ 2 + ((step s v P).y - P.y) ^ 2 ≤ v ^ 2

theorem chordBounded_fwd : ChordBounded stepFwd := stepFwd_chord_sq
theorem chordBounded_rev : ChordBounded stepRev := stepRev_chord_sq

/-- the end point of a driven word is no farther from the start than the word is long -/
theorem length_ge_chord_of (step : Seg → ℝ → Pose ℝ → Pose ℝ) (hs : ChordBounded step)
    (segs : List (Seg × ℝ)) (hnn : ∀ x ∈ segs, 0 ≤ x.2) (P : Pose ℝ) :
    Real.sqrt (((integFull step segs P).x - P.x) ^ 2 + ((integFull step segs P).y - P.y) ^ 2) ≤
      (segs.map Prod.snd).sum := by
  induction segs generalizing P with
  | nil => simp [integFull]
  | cons hd tl ih =>
    obtain ⟨s, l⟩ := hd
    have hl : 0 ≤ l := hnn (s, l) List.mem_cons_self
    have htl : ∀ x ∈ tl, 0 ≤ x.2 := fun x hx => hnn x (List.mem_cons_of_mem _ hx)
    simp only [integFull, List.map_cons, List.sum_cons]
    have h1 := ih htl (step s l P)
    have h2 := sqrt_chord_le _ _ l hl (hs s l P)
    have h3 := sqrt_triangle ((step s l P).x - P.x) ((step s l P).y - P.y)
      ((integFull step tl (step s l P)).x - (step s l P).x)
      ((integFull step tl (step s l P)).y - (step s l P).y)
    have e1 : (step s l P).x - P.x + ((integFull step tl (step s l P)).x - (step s l P).x) =
        (integFull step tl (step s l P)).x - P.x := by ring
    have e2 : (step s l P).y - P.y + ((integFull step tl (step s l P)).y - (step s l P).y) =
        (integFull step tl (step s l P)).y - P.y := by ring
    rw [e1, e2] at h3
    linarith

theorem length_ge_chord_fwd (segs : List (Seg × ℝ)) (hnn : ∀ x ∈ segs, 0 ≤ x.2) (P : Pose ℝ) :
    Real.sqrt (((integFull stepFwd segs P).x - P.x) ^ 2 + ((integFull stepFwd segs P).y - P.y) ^ 2) ≤
      (segs.map Prod.snd).sum := length_ge_chord_of stepFwd chordBounded_fwd segs hnn P

theorem length_ge_chord_rev (segs : List (Seg × ℝ)) (hnn : ∀ x ∈ segs, 0 ≤ x.2) (P : Pose ℝ) :
    Real.sqrt (((integFull stepRev segs P).x - P.x) ^ 2 + ((integFull stepRev segs P).y - P.y) ^ 2) ≤
      (segs.map Prod.snd).sum := length_ge_chord_of stepRev chordBounded_rev segs hnn P

/-- a word with non-negative lengths that, driven from `(0,0,α)`, ends at `(d,0)` is at least `d` long -/
theorem reaches_len_ge (P : Path ℝ) (ht : 0 ≤ P.t) (hp : 0 ≤ P.p) (hq : 0 ≤ P.q) (d α : ℝ) (hd : 0 ≤ d)
    (step : Seg → ℝ → Pose ℝ → Pose ℝ) (hs : ChordBounded step)
    (hx : (integFull step P.segList ⟨0, 0, α⟩).x = d) (hy : (integFull step P.segList ⟨0, 0, α⟩).y = 0) :
    d ≤ P.len := by
  have h := length_ge_chord_of step hs P.segList (segList_nonneg P ht hp hq) ⟨0, 0, α⟩
  rw [segList_sum, hx, hy] at h
  simp only [sub_zero] at h
  have : Real.sqrt (d ^ 2 + 0 ^ 2) = d := by
    rw [zero_pow two_ne_zero, add_zero, Real.sqrt_sq hd]
  rw [this] at h; exact h

end OmplModel.Dubins
