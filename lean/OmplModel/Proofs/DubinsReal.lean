import OmplModel.Model.Dubins
import Mathlib.Analysis.SpecialFunctions.Trigonometric.Inverse
import Mathlib.Analysis.SpecialFunctions.Complex.Arg
import Mathlib.Analysis.SpecialFunctions.Sqrt
/-!
`Num ℝ` / `DNum ℝ` for the Dubins model (C14): the instantiation of `OmplModel.Dubins` at the real
numbers, where the [EX] theorems are proved.  What this leaves unverified is exactly IEEE rounding
of the `Float` run (and the float32 narrowing of `sqrtf`/`atan2f`/`fsub`, which over ℝ are the
exact operations).  The `@[simp]` lemmas of namespace `DubinsR` turn the class operations into the
ordinary real ones.

This file deliberately does not import `Proofs/SpaceDistReal.lean` (another engine's instance).
-/
namespace OmplModel.Dubins
open OmplModel

noncomputable instance instNumRealD : Num ℝ where
  ofNat n := (n : ℝ)
  ofDec m e := (m : ℝ) / (10 : ℝ) ^ e
  pi := Real.pi
  abs x := |x|
  sqrt := Real.sqrt
  sin := Real.sin
  cos := Real.cos
  acos := Real.arccos
  atan2 y x := Complex.arg ⟨x, y⟩
  floor x := (⌊x⌋ : ℝ)
  ceil x := (⌈x⌉ : ℝ)
  fmod x y := x - y * ((if 0 ≤ x / y then ⌊x / y⌋ else ⌈x / y⌉ : ℤ) : ℝ)
  decLt _ _ := Classical.propDecidable _
  decLe _ _ := Classical.propDecidable _
  toInt x := if 0 ≤ x then ⌊x⌋ else ⌈x⌉
  ofInt i := (i : ℝ)

noncomputable instance instDNumReal : DNum ℝ where
  toNum := instNumRealD
  sqrtf := Real.sqrt
  atan2f y x := Complex.arg ⟨x, y⟩
  fsub a b := a - b

/- From here on numerals on ℝ must be Mathlib's, not `Num.instOfNat` (which would otherwise win instance
resolution for `(2 : ℝ)` now that `Num ℝ` exists).  The erasure is local to this file; every proof file
about `DNum ℝ` repeats it.  Numerals coming out of the *model* still carry `Num.instOfNat`; the
`ofNat_*` simp lemmas below turn them into ordinary numerals. -/
attribute [-instance] Num.instOfNat

-- the arithmetic and order reaching ℝ through the class are the usual ones, definitionally
example (a b : ℝ) : (@HAdd.hAdd ℝ ℝ ℝ (@instHAdd ℝ instNumRealD.toAdd) a b) = a + b := rfl
example (a b : ℝ) : (@HSub.hSub ℝ ℝ ℝ (@instHSub ℝ instNumRealD.toSub) a b) = a - b := rfl
example (a b : ℝ) : (@HMul.hMul ℝ ℝ ℝ (@instHMul ℝ instNumRealD.toMul) a b) = a * b := rfl
example (a b : ℝ) : (@HDiv.hDiv ℝ ℝ ℝ (@instHDiv ℝ instNumRealD.toDiv) a b) = a / b := rfl
example (a : ℝ) : (@Neg.neg ℝ instNumRealD.toNeg a) = -a := rfl
example (a b : ℝ) : (@LT.lt ℝ instNumRealD.toLT a b) = (a < b) := rfl
example (a b : ℝ) : (@LE.le ℝ instNumRealD.toLE a b) = (a ≤ b) := rfl
example (a b : ℝ) : (@HAdd.hAdd ℝ ℝ ℝ (@instHAdd ℝ instDNumReal.toNum.toAdd) a b) = a + b := rfl

namespace DubinsR
@[simp] theorem ofNat_eq (n : Nat) : (Num.ofNat n : ℝ) = (n : ℝ) := rfl
/-- not `@[simp]`: up to instance unfolding the left side also matches Mathlib's own numerals `(n : ℝ)`,
so together with `Nat.cast_ofNat` it would loop; the numerals the model uses have their own lemmas. -/
theorem ofNat_lit (n : Nat) : (@OfNat.ofNat ℝ n (Num.instOfNat n) : ℝ) = (n : ℝ) := rfl
@[simp] theorem ofNat_zero : (@OfNat.ofNat ℝ 0 (Num.instOfNat 0) : ℝ) = 0 := by
  show ((0 : ℕ) : ℝ) = 0; exact Nat.cast_zero
@[simp] theorem ofNat_one : (@OfNat.ofNat ℝ 1 (Num.instOfNat 1) : ℝ) = 1 := by
  show ((1 : ℕ) : ℝ) = 1; exact Nat.cast_one
@[simp] theorem ofNat_two : (@OfNat.ofNat ℝ 2 (Num.instOfNat 2) : ℝ) = 2 := by
  show ((2 : ℕ) : ℝ) = 2; exact Nat.cast_ofNat
@[simp] theorem ofNat_three : (@OfNat.ofNat ℝ 3 (Num.instOfNat 3) : ℝ) = 3 := by
  show ((3 : ℕ) : ℝ) = 3; exact Nat.cast_ofNat
@[simp] theorem ofNat_four : (@OfNat.ofNat ℝ 4 (Num.instOfNat 4) : ℝ) = 4 := by
  show ((4 : ℕ) : ℝ) = 4; exact Nat.cast_ofNat
@[simp] theorem ofNat_six : (@OfNat.ofNat ℝ 6 (Num.instOfNat 6) : ℝ) = 6 := by
  show ((6 : ℕ) : ℝ) = 6; exact Nat.cast_ofNat
@[simp] theorem ofDec_eq (m e : Nat) : (Num.ofDec m e : ℝ) = (m : ℝ) / (10 : ℝ) ^ e := rfl
@[simp] theorem pi_eq : (Num.pi : ℝ) = Real.pi := rfl
@[simp] theorem abs_eq (x : ℝ) : Num.abs x = |x| := rfl
@[simp] theorem sqrt_eq (x : ℝ) : Num.sqrt x = Real.sqrt x := rfl
@[simp] theorem sin_eq (x : ℝ) : Num.sin x = Real.sin x := rfl
@[simp] theorem cos_eq (x : ℝ) : Num.cos x = Real.cos x := rfl
@[simp] theorem acos_eq (x : ℝ) : Num.acos x = Real.arccos x := rfl
@[simp] theorem atan2_eq (y x : ℝ) : Num.atan2 y x = Complex.arg ⟨x, y⟩ := rfl
@[simp] theorem floor_eq (x : ℝ) : Num.floor x = (⌊x⌋ : ℝ) := rfl
@[simp] theorem ceil_eq (x : ℝ) : Num.ceil x = (⌈x⌉ : ℝ) := rfl
@[simp] theorem ofInt_eq (i : Int) : (Num.ofInt i : ℝ) = (i : ℝ) := rfl
@[simp] theorem sqrtf_eq (x : ℝ) : DNum.sqrtf x = Real.sqrt x := rfl
@[simp] theorem atan2f_eq (y x : ℝ) : DNum.atan2f y x = Complex.arg ⟨x, y⟩ := rfl
@[simp] theorem fsub_eq (a b : ℝ) : DNum.fsub a b = a - b := rfl
theorem lt_iff (a b : ℝ) : @LT.lt ℝ instNumRealD.toLT a b ↔ a < b := Iff.rfl
theorem le_iff (a b : ℝ) : @LE.le ℝ instNumRealD.toLE a b ↔ a ≤ b := Iff.rfl

@[simp] theorem max_eq (a b : ℝ) : Num.max a b = max a b := by
  unfold Num.max
  by_cases h : a < b
  · rw [if_pos h, max_eq_right h.le]
  · rw [if_neg h, max_eq_left (not_lt.mp h)]

@[simp] theorem min_eq (a b : ℝ) : Num.min a b = min a b := by
  unfold Num.min
  by_cases h : b < a
  · rw [if_pos h, min_eq_right h.le]
  · rw [if_neg h, min_eq_left (not_lt.mp h)]

@[simp] theorem twopi_eq : (twopi : ℝ) = 2 * Real.pi := by
  unfold twopi; rw [ofNat_two, pi_eq]
@[simp] theorem halfpi_eq : (halfpi : ℝ) = Real.pi / 2 := by
  unfold halfpi; rw [ofNat_two, pi_eq]
@[simp] theorem half_eq : (half : ℝ) = 1 / 2 := by
  unfold half; rw [ofDec_eq]; norm_num
@[simp] theorem dzero_eq : (dzero : ℝ) = -(1 / 10 ^ 7) := by
  unfold dzero; rw [ofDec_eq]; norm_num
@[simp] theorem eps_eq : (eps : ℝ) = 1 / 10 ^ 6 := by
  unfold eps; rw [ofDec_eq]; norm_num
@[simp] theorem ofDec_125_3 : (Num.ofDec 125 3 : ℝ) = 1 / 8 := by
  rw [ofDec_eq]; norm_num

theorem twopi_pos : (0 : ℝ) < 2 * Real.pi := by
  have := Real.pi_pos; linarith
end DubinsR
end OmplModel.Dubins
