import OmplModel.Proofs.SpaceBoundsSubspace
/-!
C08 helper lemmas, part 5: shipped samplers that no space allocates (deterministic samplers over Halton sequences,
PrecomputedStateSampler on R^n) and RNG::halfNormalReal / halfNormalInt.
-/
namespace OmplModel.SpaceBounds
open OmplModel
attribute [-instance] Num.instOfNat

/-! ### Halton -/
/-- loop invariant `0 ≤ r`, `0 < f`, `r + f ≤ 1`: the result is in `[0, 1)` -/
theorem haltonLoop_mem (b : Nat) (hb : 2 ≤ b) : ∀ (fuel i : Nat) (f r : ℝ), 0 ≤ r → 0 < f → r + f ≤ 1 →
    0 ≤ haltonLoop b fuel i f r ∧ haltonLoop b fuel i f r < 1
  | 0, _, f, r, h0, hf, hs => by simp only [haltonLoop]; exact ⟨h0, by linarith⟩
  | fuel + 1, i, f, r, h0, hf, hs => by
    simp only [haltonLoop]
    split_ifs with hi
    · exact ⟨h0, by linarith⟩
    · have hbpos : (0 : ℝ) < (b : ℝ) := by exact_mod_cast (by omega : 0 < b)
      have hf' : 0 < f / (Num.ofNat b : ℝ) := by simpa [Num.ofNat] using div_pos hf hbpos
      have hd : ((i % b : Nat) : ℝ) ≤ (b : ℝ) - 1 := by
        have : i % b ≤ b - 1 := Nat.le_sub_one_of_lt (Nat.mod_lt _ (by omega))
        have h2 : ((i % b : Nat) : ℝ) ≤ ((b - 1 : Nat) : ℝ) := by exact_mod_cast this
        rw [Nat.cast_sub (by omega)] at h2
        simpa using h2
      have hd0 : (0 : ℝ) ≤ ((i % b : Nat) : ℝ) := Nat.cast_nonneg _
      have hfb : f / (b : ℝ) * (b : ℝ) = f := div_mul_cancel₀ f (ne_of_gt hbpos)
      apply haltonLoop_mem b hb fuel
      · simp only [Num.ofNat]; have := mul_nonneg (le_of_lt (div_pos hf hbpos)) hd0; linarith
      · exact hf'
      · simp only [Num.ofNat]
        have hq := div_pos hf hbpos
        nlinarith

theorem halton1D_mem (b i : Nat) (hb : 2 ≤ b) : 0 ≤ (halton1D b i : ℝ) ∧ (halton1D b i : ℝ) < 1 := by
  unfold halton1D
  exact haltonLoop_mem b hb 33 i _ _ (by simp [Num.ofNat]) (by simp [Num.ofNat]) (by simp [Num.ofNat])

/-! ### deterministic samplers -/
theorem detSO2_sat {s : ℝ} (h0 : 0 ≤ s) (h1 : s < 1) : so2Sat (detSO2 s) = true := by
  rw [so2Sat_iff]
  unfold detSO2
  simp only [pi_val, Num.ofNat, Nat.cast_ofNat]
  have hp := Real.pi_pos
  constructor <;> nlinarith

/-- each sequence value in `[0, 1]` -/
def unitList : List ℝ → Prop
  | x :: xs => (0 ≤ x ∧ x ≤ 1) ∧ unitList xs
  | [] => True

theorem detRv_sat : ∀ (lo hi xs : List ℝ), rvOk lo hi → unitList xs → rvSat lo hi (detRv lo hi xs) = true
  | [], _, _, _, _ => by simp [rvSat]
  | _ :: _, [], _, _, _ => by simp [rvSat]
  | _ :: _, _ :: _, [], _, _ => by simp [detRv, rvSat]
  | l :: lo, h :: hi, x :: xs, hok, hu => by
    simp only [detRv, rvSat, Bool.and_eq_true]
    refine ⟨rvSat1_of_mem ?_ ?_, detRv_sat lo hi xs hok.2 hu.2⟩
    · nlinarith [hok.1, hu.1.1, hu.1.2]
    · nlinarith [hok.1, hu.1.1, hu.1.2]

/-! ### halfNormal -/
theorem halfNormalReal_mem {rmin rmax : ℝ} (h : rmin ≤ rmax) (focus g : ℝ) :
    rmin ≤ halfNormalReal rmin rmax focus g ∧ halfNormalReal rmin rmax focus g ≤ rmax := by
  unfold halfNormalReal
  simp only [Num.ofNat, Nat.cast_zero]
  split_ifs <;> constructor <;> linarith

theorem halfNormalInt_mem {rmin rmax : Int} (h : rmin ≤ rmax) (focus g : ℝ) :
    rmin ≤ halfNormalInt rmin rmax focus g ∧ halfNormalInt rmin rmax focus g ≤ rmax := by
  unfold halfNormalInt
  simp only [toInt_floor]
  have hc0 : (rmin : ℝ) ≤ (rmax : ℝ) := by exact_mod_cast h
  have hc : (rmin : ℝ) ≤ (rmax : ℝ) + 1 := by linarith
  have hm := (halfNormalReal_mem (rmin := (rmin : ℝ)) (rmax := (rmax : ℝ) + 1) hc focus g).1
  have hlo : rmin ≤ ⌊halfNormalReal (Num.ofInt rmin) (Num.ofInt rmax + Num.ofNat 1) focus g⌋ := by
    apply Int.le_floor.mpr
    simpa [Num.ofInt, Num.ofNat] using hm
  by_cases hlt : (Num.ofInt rmax : ℝ) < Num.floor (halfNormalReal (Num.ofInt rmin) (Num.ofInt rmax + Num.ofNat 1) focus g)
  · rw [if_pos hlt]; omega
  · rw [if_neg hlt]
    have : ¬ rmax < ⌊halfNormalReal (Num.ofInt rmin) (Num.ofInt rmax + Num.ofNat 1) focus g⌋ := fun hh =>
      hlt ((Int.cast_lt (R := ℝ) (m := rmax)
        (n := ⌊halfNormalReal (Num.ofInt rmin) (Num.ofInt rmax + Num.ofNat 1) focus g⌋)).mpr hh)
    omega

/-! ### PrecomputedStateSampler on R^n -/
/-- strictly inside the box (no slack) -/
def rvIn : List ℝ → List ℝ → List ℝ → Prop
  | l :: lo, h :: hi, x :: xs => (l ≤ x ∧ x ≤ h) ∧ rvIn lo hi xs
  | _, _, _ => True

theorem rvIn_sat : ∀ (lo hi xs : List ℝ), rvIn lo hi xs → rvSat lo hi xs = true
  | [], _, _, _ => by simp [rvSat]
  | _ :: _, [], _, _ => by simp [rvSat]
  | _ :: _, _ :: _, [], _ => by simp [rvSat]
  | l :: lo, h :: hi, x :: xs, hin => by
    simp only [rvSat, Bool.and_eq_true]
    exact ⟨rvSat1_of_mem hin.1.1 hin.1.2, rvIn_sat lo hi xs hin.2⟩

/-- the box is convex: interpolation with `t ∈ [0, 1]` stays inside -/
theorem rvInterp_in {t : ℝ} (h0 : 0 ≤ t) (h1 : t ≤ 1) : ∀ (lo hi a b : List ℝ), rvIn lo hi a → rvIn lo hi b →
    rvIn lo hi (rvInterp t a b)
  | [], _, _, _, _, _ => by simp [rvIn]
  | _ :: _, [], _, _, _, _ => by simp [rvIn]
  | _ :: _, _ :: _, [], _, _, _ => by simp [rvInterp, rvIn]
  | _ :: _, _ :: _, _ :: _, [], _, _ => by simp [rvInterp, rvIn]
  | l :: lo, h :: hi, a :: as, b :: bs, ha, hb => by
    simp only [rvInterp, rvIn]
    refine ⟨⟨?_, ?_⟩, rvInterp_in h0 h1 lo hi as bs ha.2 hb.2⟩
    · nlinarith [ha.1.1, hb.1.1]
    · nlinarith [ha.1.2, hb.1.2]

theorem preNearRv_in (lo hi near s : List ℝ) (hn : rvIn lo hi near) (hs : rvIn lo hi s) {d : ℝ} (hd : 0 ≤ d) :
    rvIn lo hi (preNearRv near s d) := by
  unfold preNearRv
  simp only [Num.sqrt]
  split_ifs with h
  · have hpos : 0 < Real.sqrt (rvDistSq near s (Num.ofNat 0)) := lt_of_le_of_lt hd h
    exact rvInterp_in (div_nonneg hd hpos.le) ((div_le_one hpos).mpr h.le) lo hi near s hn hs
  · exact hs

/-- the fixed `sampleGaussian` uses the magnitude of the draw: always a non-negative distance -/
theorem preGaussRv_in (lo hi mean s : List ℝ) (hm : rvIn lo hi mean) (hs : rvIn lo hi s) (sd g : ℝ) :
    rvIn lo hi (preGaussRv mean s sd g) := by
  unfold preGaussRv
  exact preNearRv_in lo hi mean s hm hs (abs_nonneg _)

end OmplModel.SpaceBounds
