import OmplModel.Proofs.DubinsClass
import OmplModel.Proofs.DubinsSym
import OmplModel.Proofs.DubinsReal
import Mathlib.Analysis.SpecialFunctions.Trigonometric.Basic
import Mathlib.Tactic.Linarith
/-!
ℝ instances of the order hypotheses of `Proofs/DubinsClass.lean`, the quadrant of each boundary angle, and
symmetry of the symmetrised Dubins distance over ℝ.
-/
namespace OmplModel.Dubins
open OmplModel

attribute [-instance] Num.instOfNat

theorem three_halfpi_eq : ((@OfNat.ofNat ℝ 3 (Num.instOfNat 3)) * (halfpi : ℝ)) = 3 * (Real.pi / 2) := by
  rw [DubinsR.ofNat_three, DubinsR.halfpi_eq]

/-- the order hypotheses of the quadrant theorems hold over ℝ -/
theorem angleOrder_real : AngleOrder ℝ where
  total := fun _ _ h => not_le.mp h
  le_not_lt := fun _ _ h => not_lt.mpr h
  lt_of_lt_of_le := fun _ _ _ h1 h2 => lt_of_lt_of_le h1 h2
  h_le_p := by
    show (halfpi : ℝ) ≤ Real.pi
    rw [DubinsR.halfpi_eq]; linarith [Real.pi_pos]
  p_le_q := by
    show Real.pi ≤ (@OfNat.ofNat ℝ 3 (Num.instOfNat 3)) * (halfpi : ℝ)
    rw [three_halfpi_eq]; linarith [Real.pi_pos]

theorem quadrant_real (a : ℝ) :
    quadrant a = if 0 ≤ a ∧ a ≤ Real.pi / 2 then 1
      else if Real.pi / 2 < a ∧ a ≤ Real.pi then 2
      else if Real.pi < a ∧ a ≤ 3 * (Real.pi / 2) then 3
      else if 3 * (Real.pi / 2) < a ∧ a ≤ 2 * Real.pi then 4 else 0 := by
  unfold quadrant
  simp only [DubinsR.ofNat_zero, DubinsR.halfpi_eq, DubinsR.pi_eq, DubinsR.twopi_eq, three_halfpi_eq]

/-- the boundary angles belong to the lower quadrant (upper bounds are closed, lower bounds strict), `0` to
the first and `2π` to the fourth -/
theorem quadrant_boundaries :
    quadrant (0 : ℝ) = 1 ∧ quadrant (Real.pi / 2) = 1 ∧ quadrant Real.pi = 2 ∧
    quadrant (3 * (Real.pi / 2)) = 3 ∧ quadrant (2 * Real.pi) = 4 := by
  have hp := Real.pi_pos
  refine ⟨?_, ?_, ?_, ?_, ?_⟩ <;> rw [quadrant_real]
  · rw [if_pos ⟨le_refl _, by linarith⟩]
  · rw [if_pos ⟨by linarith, le_refl _⟩]
  · rw [if_neg (by intro h; linarith [h.2]), if_pos ⟨by linarith, le_refl _⟩]
  · rw [if_neg (by intro h; linarith [h.2]), if_neg (by intro h; linarith [h.2]),
      if_pos ⟨by linarith, le_refl _⟩]
  · rw [if_neg (by intro h; linarith [h.2]), if_neg (by intro h; linarith [h.2]),
      if_neg (by intro h; linarith [h.2]), if_pos ⟨by linarith, le_refl _⟩]

/-- just above a boundary the next quadrant starts -/
theorem quadrant_above_halfpi (e : ℝ) (h0 : 0 < e) (h1 : e ≤ Real.pi / 2) : quadrant (Real.pi / 2 + e) = 2 := by
  rw [quadrant_real, if_neg (by intro h; linarith [h.2]), if_pos ⟨by linarith, by linarith⟩]

/-- **the symmetrised distance is symmetric** over ℝ -/
theorem distance_sym_symm (rho : ℝ) (s1 s2 : Pose ℝ) :
    distance rho true s1 s2 = distance rho true s2 s1 := by
  unfold distance
  cases h1 : (dubinsStates rho s1 s2).len <;> cases h2 : (dubinsStates rho s2 s1).len <;> simp only [if_true]
  rw [DubinsR.min_eq, DubinsR.min_eq, min_comm]

end OmplModel.Dubins
