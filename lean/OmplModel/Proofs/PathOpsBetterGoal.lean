/-
Proofs about the whole-routine model of `PathSimplifier::findBetterGoal`
(`OmplModel.Model.PathOpsWhole`: `bgWalk`, `bgAttempt`, `bgInner`, `bgOuter`, `findBetterGoal`).
Core Lean only.  Everything is for EVERY `E : BgEnv σ α γ`: every objective, every number operations,
every draw stream `E.u`, every goal stream `E.goalAt`, every path.

The one law used — and only where the statement says so — is
  `hlaw : ∀ a b, E.N.lt a b = true → E.N.le b a = false`        (`a < b → ¬ (b <= a)`, true of IEEE doubles)
It makes the loop `while (start != begin && *start >= t) start -= 1` stop at `end - 1`: every entry in
front of `lower_bound(dists, t)` is `< t`.  Without it a number type could walk `start` further down,
and then the routine's `candidateCost` (built from `costs[startIndex]`) would not be the cost of the
spliced path (which keeps `states[0 .. endIndex)`).

Main theorems
* `findBetterGoal_false_unchanged`   return value false ⇒ path unchanged
* `findBetterGoal_true_attempt`      a success is exactly one accepted `bgAttempt` on the input path
* `findBetterGoal_never_worse`       (hlaw) new path's cost is BETTER than the input path's cost, by the
                                     objective's own `isCostBetterThan`, for the fold `path.cost(obj)` uses
* `findBetterGoal_keeps_first`       start state kept (no law)
* `findBetterGoal_last_is_goal`      ends in a sampled goal that is pair-valid with the start (no law)
* `findBetterGoal_only_validated`    (hlaw) every motion is an input motion, a prefix of an input motion
                                     cut at an interpolated state, or the `checkMotion`-validated one
* `findBetterGoal_length`            `2 ≤ |out| ≤ |path| + 1`
* `findBetterGoal_indices_partial`, `findBetterGoal_none_monotone`   what `none` (out-of-range) needs

Layout: cost fold (`pathCost_append_*`, `cumCosts_getElem?`, `cumCosts_back`); `lowerBoundG`/`bgWalk`;
`bgSplice` success ⇒ in range + shape; `bgAttempt_success_raw` (the ONLY lemmas that unfold `bgAttempt`
are `bgAttempt_success_raw` and `bgAttempt_none_cases`; they read off the match structure, the test and
the splice and keep `t`, `tSeg` and the snap conditions opaque); `bgAttempt_success`; loops; main theorems.
-/
import OmplModel.Model.PathOpsWhole
import OmplModel.Proofs.PathOpsSplice2

namespace OmplModel.PathOps

variable {σ α γ : Type}

/-! ## the cost fold: `path.cost(obj)` and the `costs` table -/

theorem pathCost_go_append (O : Obj σ γ) (l m : List σ) : ∀ (acc : γ) (prev z : σ),
    (prev :: l).getLast? = some z →
    Obj.pathCost.go O acc prev (l ++ m) = Obj.pathCost.go O (Obj.pathCost.go O acc prev l) z m := by
  induction l with
  | nil =>
    intro acc prev z hz
    simp only [List.getLast?_singleton, Option.some.injEq] at hz
    subst hz
    rfl
  | cons b r ih =>
    intro acc prev z hz
    rw [List.getLast?_cons_cons] at hz
    exact ih _ b z hz

/-- the fold over `l ++ m` continues the fold over `l` from the last state of `l` -/
theorem pathCost_append (O : Obj σ γ) (l m : List σ) (z : σ) (hz : l.getLast? = some z) :
    O.pathCost (l ++ m) = Obj.pathCost.go O (O.pathCost l) z m := by
  cases l with
  | nil => simp at hz
  | cons a r => exact pathCost_go_append O r m _ a z hz

/-- appending one state adds one motion cost on the right of the fold -/
theorem pathCost_append_one (O : Obj σ γ) (l : List σ) (z x : σ) (hz : l.getLast? = some z) :
    O.pathCost (l ++ [x]) = O.combine (O.pathCost l) (O.motion z x) := by
  rw [pathCost_append O l [x] z hz]
  rfl

theorem pathCost_append_two (O : Obj σ γ) (l : List σ) (z x y : σ) (hz : l.getLast? = some z) :
    O.pathCost (l ++ [x, y]) =
      O.combine (O.combine (O.pathCost l) (O.motion z x)) (O.motion x y) := by
  rw [pathCost_append O l [x, y] z hz]
  rfl

theorem cumCosts_go_length (O : Obj σ γ) (l : List σ) : ∀ (acc : γ) (prev : σ),
    (Obj.cumCosts.go O acc prev l).length = l.length + 1 := by
  induction l with
  | nil => intro acc prev; rfl
  | cons b r ih => intro acc prev; simp only [Obj.cumCosts.go, List.length_cons, ih]

theorem cumCosts_go_getElem? (O : Obj σ γ) (l : List σ) : ∀ (acc : γ) (prev : σ) (i : Nat),
    i ≤ l.length →
    (Obj.cumCosts.go O acc prev l)[i]? = some (Obj.pathCost.go O acc prev (l.take i)) := by
  induction l with
  | nil =>
    intro acc prev i hi
    have : i = 0 := by simpa using hi
    subst this
    rfl
  | cons b r ih =>
    intro acc prev i hi
    cases i with
    | zero => rfl
    | succ j =>
      simp only [Obj.cumCosts.go, List.getElem?_cons_succ, List.take_succ_cons, Obj.pathCost.go]
      exact ih _ b j (by simpa using hi)

theorem objCumCosts_length (O : Obj σ γ) (st : List σ) : (O.cumCosts st).length = st.length := by
  cases st with
  | nil => rfl
  | cons a r => exact cumCosts_go_length O r _ a

/-- `costs[i]` is the cost of the prefix that ends in state `i` -/
theorem cumCosts_getElem? (O : Obj σ γ) (st : List σ) (i : Nat) (hi : i < st.length) :
    (O.cumCosts st)[i]? = some (O.pathCost (st.take (i + 1))) := by
  cases st with
  | nil => simp at hi
  | cons a r => exact cumCosts_go_getElem? O r _ a i (by simpa [Nat.lt_succ_iff] using hi)

theorem cumCosts_getElem?_some (O : Obj σ γ) (st : List σ) (i : Nat) (c : γ)
    (h : (O.cumCosts st)[i]? = some c) : i < st.length ∧ c = O.pathCost (st.take (i + 1)) := by
  have hi : i < st.length := by
    rw [← objCumCosts_length O st]
    exact (List.getElem?_eq_some_iff.mp h).1
  rw [cumCosts_getElem? O st i hi, Option.some.injEq] at h
  exact ⟨hi, h.symm⟩

/-- `costs.back()` is the cost of the whole path -/
theorem cumCosts_back (O : Obj σ γ) (st : List σ) (c : γ)
    (h : (O.cumCosts st)[(O.cumCosts st).length - 1]? = some c) : c = O.pathCost st := by
  obtain ⟨hi, hc⟩ := cumCosts_getElem?_some O st _ c h
  rw [objCumCosts_length] at hc hi
  rw [hc, show st.length - 1 + 1 = st.length by omega, List.take_length]

theorem cumDistsG_go_length (N : NumOps α) (dist : σ → σ → α) (l : List σ) : ∀ (acc : α) (prev : σ),
    (cumDistsG.go N dist acc prev l).length = l.length + 1 := by
  induction l with
  | nil => intro acc prev; rfl
  | cons b r ih => intro acc prev; simp only [cumDistsG.go, List.length_cons, ih]

theorem cumDistsG_length (N : NumOps α) (dist : σ → σ → α) (st : List σ) :
    (cumDistsG N dist st).length = st.length := by
  cases st with
  | nil => rfl
  | cons a r => exact cumDistsG_go_length N dist r _ a

/-! ## `lower_bound` and the walk-down loop -/

/-- every entry in front of the lower bound is `<`-below `x` -/
theorem lowerBoundG_before (N : NumOps α) (l : List α) (x : α) :
    ∀ i, i < lowerBoundG N l x → ∃ d, l[i]? = some d ∧ N.lt d x = true := by
  unfold lowerBoundG
  induction l with
  | nil => intro i hi; simp at hi
  | cons a r ih =>
    intro i hi
    rw [List.takeWhile_cons] at hi
    split at hi
    · rename_i ha
      cases i with
      | zero => exact ⟨a, rfl, ha⟩
      | succ j =>
        rw [List.getElem?_cons_succ]
        exact ih j (by simpa using hi)
    · simp at hi

theorem lowerBoundG_le (N : NumOps α) (l : List α) (x : α) : lowerBoundG N l x ≤ l.length := by
  unfold lowerBoundG
  exact (List.takeWhile_sublist _).length_le

/-- the lower bound is the end iterator iff every entry is `<`-below `x` -/
theorem lowerBoundG_eq_length (N : NumOps α) (l : List α) (x : α)
    (h : lowerBoundG N l x = l.length) : ∀ d ∈ l, N.lt d x = true := by
  intro d hd
  obtain ⟨i, hi, rfl⟩ := List.getElem_of_mem hd
  obtain ⟨d', hd', hlt⟩ := lowerBoundG_before N l x i (by omega)
  rw [List.getElem?_eq_getElem hi, Option.some.injEq] at hd'
  rwa [hd']

/-- the walk only goes down -/
theorem bgWalk_le (N : NumOps α) (ds : Array α) (t : α) : ∀ (e s : Nat),
    bgWalk N ds t e = some s → s ≤ e := by
  intro e
  induction e with
  | zero => intro s h; simp only [bgWalk, Option.some.injEq] at h; omega
  | succ e ih =>
    intro s h
    simp only [bgWalk] at h
    split at h
    · split at h
      · exact Nat.le_succ_of_le (ih s h)
      · simp only [Option.some.injEq] at h; omega
    · cases h

/-- the walk reads `ds[e], ds[e-1], …` only: it stays in range when it starts in range -/
theorem bgWalk_isSome (N : NumOps α) (ds : Array α) (t : α) : ∀ (e : Nat), e < ds.size →
    ∃ s, bgWalk N ds t e = some s := by
  intro e
  induction e with
  | zero => intro _; exact ⟨0, rfl⟩
  | succ e ih =>
    intro he
    simp only [bgWalk]
    rw [Array.getElem?_eq_getElem he]
    simp only []
    split
    · exact ih (by omega)
    · exact ⟨_, rfl⟩

/-- started at the end iterator the model's walk dereferences `end()` -/
theorem bgWalk_none_of_size (N : NumOps α) (ds : Array α) (t : α) (e : Nat) (he : ds.size ≤ e)
    (h0 : 0 < e) : bgWalk N ds t e = none := by
  cases e with
  | zero => omega
  | succ e =>
    simp only [bgWalk]
    rw [Array.getElem?_eq_none (by omega)]

/-- `start = end` or `start = end - 1`, PROVIDED `d < t → ¬ (t <= d)` (true of IEEE doubles): every entry
in front of a lower bound is `<`-below `t`, so the walk stops after at most one step -/
theorem bgWalk_lowerBound (N : NumOps α) (hlaw : ∀ a b, N.lt a b = true → N.le b a = false)
    (l : List α) (t : α) (s : Nat)
    (h : bgWalk N l.toArray t (lowerBoundG N l t) = some s) :
    s = lowerBoundG N l t ∨ s + 1 = lowerBoundG N l t := by
  have hb := lowerBoundG_before N l t
  generalize lowerBoundG N l t = e at h hb
  cases e with
  | zero => simp only [bgWalk, Option.some.injEq] at h; exact Or.inl h.symm
  | succ e =>
    simp only [bgWalk] at h
    split at h
    · split at h
      · right
        cases e with
        | zero => simp only [bgWalk, Option.some.injEq] at h; omega
        | succ e' =>
          obtain ⟨d, hd, hlt⟩ := hb (e' + 1) (by omega)
          simp only [bgWalk, List.getElem?_toArray, hd, hlaw _ _ hlt] at h
          simp only [Bool.false_eq_true, if_false, Option.some.injEq] at h
          omega
      · simp only [Option.some.injEq] at h; exact Or.inl h.symm
    · cases h

/-! ## `bgSplice`: success implies the indices were in range, and the shape of the result -/

theorem setChk_some_lt (l : List σ) (k : Nat) (x : σ) (out : List σ) (h : setChk l k x = some out) :
    k < l.length ∧ out = l.set k x := by
  unfold setChk at h
  split at h
  · rename_i hk; simp only [Option.some.injEq] at h; exact ⟨hk, h.symm⟩
  · cases h

/-- snapped case: `copyState(states[startIndex + 1], tempGoal)` succeeded, so `startIndex` is not the
last vertex -/
theorem bgSplice_snap_some (st : List σ) (s : Nat) (state goal : σ) (out : List σ)
    (h : bgSplice st s s state goal = some out) : s + 1 < st.length := by
  rw [bgSplice, if_pos rfl] at h
  cases h1 : setChk st s state with
  | none => rw [h1] at h; cases h
  | some st1 =>
    rw [h1, Option.bind_some] at h
    obtain ⟨_, rfl⟩ := setChk_some_lt _ _ _ _ h1
    cases h2 : setChk (st.set s state) (s + 1) goal with
    | none => rw [h2] at h; cases h
    | some st2 =>
      obtain ⟨hlt, _⟩ := setChk_some_lt _ _ _ _ h2
      simpa using hlt

/-- unsnapped case: `copyState(states[endIndex], state)` succeeded -/
theorem bgSplice_seg_some (st : List σ) (s e : Nat) (state goal : σ) (out : List σ) (hne : s ≠ e)
    (h : bgSplice st s e state goal = some out) : e < st.length := by
  rw [bgSplice, if_neg hne] at h
  cases h1 : setChk st e state with
  | none => rw [h1] at h; cases h
  | some st1 => exact (setChk_some_lt _ _ _ _ h1).1

/-- unsnapped case for ANY `startIndex ≠ endIndex` (the block does not read `startIndex`): the result is
`states[0 .. endIndex)`, `state`, `goal` -/
theorem bgSplice_seg_any (st : List σ) (s e : Nat) (state goal : σ) (hne : s ≠ e)
    (he : e < st.length) : bgSplice st s e state goal = some (st.take e ++ [state, goal]) := by
  by_cases h2 : e + 1 = st.length
  · rw [bgSplice, if_neg hne, setChk_st st e state he, Option.bind_some,
      if_pos (by rw [length_nf _ _ _ _ (by omega)]; simp; omega)]
    have : st.drop (e + 1) = [] := List.drop_eq_nil_of_le (by omega)
    rw [this]
    simp
  · rw [bgSplice, if_neg hne, setChk_st st e state he, Option.bind_some,
      if_neg (by rw [length_nf _ _ _ _ (by omega)]; simp; omega),
      setChk_nf st [state] e (e + 1) (e + 1) goal rfl (by omega) (by omega),
      Option.bind_some,
      eraseChk_nf_end st _ e (e + 1 + 1) (e + 2) 2 rfl (by simp) (by omega) (by omega)]
    simp

/-- the shape of every successful splice, in one formula: `states[0 .. endIndex)`, `state`, `goal` -/
theorem bgSplice_some_shape (st : List σ) (s e : Nat) (state goal : σ) (out : List σ)
    (h : bgSplice st s e state goal = some out) :
    e < st.length ∧ (s = e → s + 1 < st.length) ∧ out = st.take e ++ [state, goal] := by
  by_cases hse : s = e
  · subst hse
    have hs := bgSplice_snap_some st s state goal out h
    rw [bgSplice_snap st s state goal hs, Option.some.injEq] at h
    exact ⟨by omega, fun _ => hs, h.symm⟩
  · have he := bgSplice_seg_some st s e state goal out hse h
    rw [bgSplice_seg_any st s e state goal hse he, Option.some.injEq] at h
    exact ⟨he, fun h' => absurd h' hse, h.symm⟩

/-! ## one sampling attempt

`bgAttempt_success_raw` is the only place that looks inside `bgAttempt`; it reads off the STRUCTURE
(the `costs` table, `candidate`, the test, the splice) and keeps `t`, `tSeg`, the snap tests opaque. -/

theorem bgAttempt_success_raw {E : BgEnv σ α γ} {st : List σ} {goal : σ} {uk : α} {out : List σ}
    (h : bgAttempt E st goal uk = some (some out)) :
    ∃ (t : α) (startI s e : Nat) (c0 cback : γ) (sS sE : σ) (tSeg : α),
      bgWalk E.N (cumDistsG E.N E.dist st).toArray t
        (lowerBoundG E.N (cumDistsG E.N E.dist st) t) = some startI ∧
      ((s = startI ∧ e = startI) ∨
        (s = lowerBoundG E.N (cumDistsG E.N E.dist st) t ∧
          e = lowerBoundG E.N (cumDistsG E.N E.dist st) t) ∨
        (s = startI ∧ e = lowerBoundG E.N (cumDistsG E.N E.dist st) t)) ∧
      (E.O.cumCosts st).toArray[(E.O.cumCosts st).toArray.size - 1]? = some cback ∧
      (E.O.cumCosts st).toArray[s]? = some c0 ∧ st[s]? = some sS ∧ st[e]? = some sE ∧
      (E.O.better (E.O.combine
          (if s = e then c0
            else E.O.combine c0 (E.O.motion sS (if s = e then sS else E.interp sS sE tSeg)))
          (E.O.motion (if s = e then sS else E.interp sS sE tSeg) goal)) cback = true ∧
        E.cm (if s = e then sS else E.interp sS sE tSeg) goal = true) ∧
      bgSplice st s e (if s = e then sS else E.interp sS sE tSeg) goal = some out := by
  unfold bgAttempt at h
  extract_lets at h
  split at h
  · rename_i back cback hback hcback
    extract_lets at h
    split at h
    · rename_i startI dEnd hwalk hdEnd
      split at h
      · cases h
      · rename_i dStart hdStart
        extract_lets at h
        split at h
        · rename_i c0 sS sE hc0 hsS hsE
          extract_lets at h
          split at h
          · rename_i htest
            split at h
            · rename_i st' hsp
              simp only [Option.some.injEq] at h
              subst h
              simp only [Bool.and_eq_true] at htest
              refine ⟨_, _, _, _, _, _, _, _, _, hwalk, ?_, hcback, hc0, hsS, hsE, htest, hsp⟩
              -- the two snap tests: `endIndex = startIndex` afterwards, or both untouched
              simp +zetaDelta only []
              repeat' split
              all_goals first
                | exact Or.inl ⟨rfl, rfl⟩
                | exact Or.inr (Or.inl ⟨rfl, rfl⟩)
                | exact Or.inr (Or.inr ⟨rfl, rfl⟩)
            · cases h
          · cases h
        · cases h
    · cases h
  · cases h

/-- **what an accepted attempt is.**  There are indices `s ≤ e` (`startIndex`, `endIndex`) in range and
a state `state` with: `state = states[s]` if `s = e` (snapped; then `s` is not the last vertex), else
`state = interpolate(states[s], states[e], tSeg)`; the new path is `states[0 .. e) ++ [state, goal]`;
`checkMotion(state, goal)` answered true; and `candidateCost` — computed from `costs[s]`, which is the
fold over `states[0 .. s]` — is better than `costs.back()`, which is the fold over the whole path.
The last component is the only one that needs an order law: if `d < t → ¬ (t <= d)`, then `e ≤ s + 1`. -/
theorem bgAttempt_success {E : BgEnv σ α γ} {st : List σ} {goal : σ} {uk : α} {out : List σ}
    (h : bgAttempt E st goal uk = some (some out)) :
    ∃ (s e : Nat) (state : σ) (hs : s < st.length) (he : e < st.length),
      s ≤ e ∧
      (s = e → state = st[s] ∧ s + 1 < st.length) ∧
      (s ≠ e → ∃ tSeg, state = E.interp st[s] st[e] tSeg) ∧
      out = st.take e ++ [state, goal] ∧
      E.cm state goal = true ∧
      E.O.better (E.O.combine
          (if s = e then E.O.pathCost (st.take (s + 1))
            else E.O.combine (E.O.pathCost (st.take (s + 1))) (E.O.motion st[s] state))
          (E.O.motion state goal)) (E.O.pathCost st) = true ∧
      ((∀ a b, E.N.lt a b = true → E.N.le b a = false) → e = s ∨ e = s + 1) := by
  obtain ⟨t, startI, s, e, c0, cback, sS, sE, tSeg, hwalk, hidx, hcback, hc0, hsS, hsE,
    ⟨hbetter, hcm⟩, hsp⟩ := bgAttempt_success_raw h
  rw [List.getElem?_toArray, List.size_toArray] at hcback
  rw [List.getElem?_toArray] at hc0
  have hcb := cumCosts_back E.O st cback hcback
  obtain ⟨hs, hc0'⟩ := cumCosts_getElem?_some E.O st s c0 hc0
  obtain ⟨he, hsnap, hout⟩ := bgSplice_some_shape st s e _ goal out hsp
  obtain ⟨_, hsS'⟩ := List.getElem?_eq_some_iff.mp hsS
  obtain ⟨_, hsE'⟩ := List.getElem?_eq_some_iff.mp hsE
  subst hcb hc0' hsS' hsE'
  have hle := bgWalk_le _ _ _ _ _ hwalk
  refine ⟨s, e, _, hs, he, ?_, ?_, ?_, hout, hcm, hbetter, ?_⟩
  · rcases hidx with ⟨h1, h2⟩ | ⟨h1, h2⟩ | ⟨h1, h2⟩ <;> omega
  · intro hse
    exact ⟨if_pos hse, hsnap hse⟩
  · intro hse
    exact ⟨tSeg, if_neg hse⟩
  · intro hlaw
    rcases bgWalk_lowerBound E.N hlaw _ t startI hwalk with h3 | h3 <;>
      rcases hidx with ⟨h1, h2⟩ | ⟨h1, h2⟩ | ⟨h1, h2⟩ <;> omega

/-! ### consequences for one accepted attempt -/

/-- the accepted path costs exactly `candidateCost`, hence is better than the input path -/
theorem bgAttempt_never_worse {E : BgEnv σ α γ} {st : List σ} {goal : σ} {uk : α} {out : List σ}
    (hlaw : ∀ a b, E.N.lt a b = true → E.N.le b a = false)
    (h : bgAttempt E st goal uk = some (some out)) :
    E.O.better (E.O.pathCost out) (E.O.pathCost st) = true := by
  obtain ⟨s, e, state, hs, he, hle, hsnap, hseg, hout, hcm, hbetter, hidx⟩ := bgAttempt_success h
  subst hout
  by_cases hse : s = e
  · subst hse
    obtain ⟨hstate, _⟩ := hsnap rfl
    subst hstate
    rw [if_pos rfl] at hbetter
    have : st.take s ++ [st[s], goal] = st.take (s + 1) ++ [goal] := by
      rw [List.take_succ_eq_append_getElem hs, List.append_assoc]; rfl
    rw [this, pathCost_append_one E.O _ st[s] goal (getLast?_take_succ st s hs)]
    exact hbetter
  · have he' : e = s + 1 := by rcases hidx hlaw with h1 | h1 <;> omega
    subst he'
    rw [if_neg hse] at hbetter
    rw [pathCost_append_two E.O _ st[s] state goal (getLast?_take_succ st s hs)]
    exact hbetter

theorem bgAttempt_keeps_first {E : BgEnv σ α γ} {st : List σ} {goal : σ} {uk : α} {out : List σ}
    (h : bgAttempt E st goal uk = some (some out)) : out.head? = st.head? := by
  obtain ⟨s, e, state, hs, he, hle, hsnap, hseg, hout, hcm, hbetter, hidx⟩ := bgAttempt_success h
  subst hout
  cases e with
  | zero =>
    have hs0 : s = 0 := by omega
    subst hs0
    obtain ⟨hstate, _⟩ := hsnap rfl
    subst hstate
    cases st with
    | nil => simp at hs
    | cons a r => simp
  | succ e' =>
    cases st with
    | nil => simp at hs
    | cons a r => simp

theorem bgAttempt_last_is_goal {E : BgEnv σ α γ} {st : List σ} {goal : σ} {uk : α} {out : List σ}
    (h : bgAttempt E st goal uk = some (some out)) : out.getLast? = some goal := by
  obtain ⟨s, e, state, hs, he, hle, hsnap, hseg, hout, hcm, hbetter, hidx⟩ := bgAttempt_success h
  subst hout
  simp

theorem bgAttempt_length {E : BgEnv σ α γ} {st : List σ} {goal : σ} {uk : α} {out : List σ}
    (h : bgAttempt E st goal uk = some (some out)) : 2 ≤ out.length ∧ out.length ≤ st.length + 1 := by
  obtain ⟨s, e, state, hs, he, hle, hsnap, hseg, hout, hcm, hbetter, hidx⟩ := bgAttempt_success h
  subst hout
  simp only [List.length_append, List.length_take, List.length_cons, List.length_nil]
  omega

theorem bgAttempt_only_validated {E : BgEnv σ α γ} {st : List σ} {goal : σ} {uk : α} {out : List σ}
    (hlaw : ∀ a b, E.N.lt a b = true → E.N.le b a = false)
    (h : bgAttempt E st goal uk = some (some out)) :
    ∀ p ∈ adj out, p ∈ adj st ∨ (∃ a b t, (a, b) ∈ adj st ∧ p = (a, E.interp a b t)) ∨
      (p.2 = goal ∧ E.cm p.1 p.2 = true) := by
  obtain ⟨s, e, state, hs, he, hle, hsnap, hseg, hout, hcm, hbetter, hidx⟩ := bgAttempt_success h
  subst hout
  intro p hp
  rcases mem_adj_append _ _ p hp with h1 | h1 | ⟨x, y, hx, hy, rfl⟩
  · exact Or.inl (adj_take_subset st _ p h1)
  · simp only [adj, List.mem_cons, List.not_mem_nil, or_false] at h1
    subst h1
    exact Or.inr (Or.inr ⟨rfl, hcm⟩)
  · simp only [List.head?_cons, Option.some.injEq] at hy
    subst hy
    by_cases hse : s = e
    · subst hse
      obtain ⟨hstate, _⟩ := hsnap rfl
      subst hstate
      left
      have h2 : (x, st[s]) ∈ adj (st.take s ++ [st[s]]) := mem_adj_seam _ _ x st[s] hx rfl
      rw [← List.take_succ_eq_append_getElem hs] at h2
      exact adj_take_subset st _ _ h2
    · have he' : e = s + 1 := by rcases hidx hlaw with h1 | h1 <;> omega
      subst he'
      obtain ⟨tSeg, hstate⟩ := hseg hse
      rw [getLast?_take_succ st s hs, Option.some.injEq] at hx
      subst hx hstate
      right; left
      refine ⟨st[s], st[s + 1], tSeg, ?_, rfl⟩
      have h2 := mem_adj_seam (st.take (s + 1)) (st.drop (s + 1)) st[s] st[s + 1]
        (getLast?_take_succ st s hs) (head?_drop_lt st (s + 1) he)
      rwa [List.take_append_drop] at h2

/-! ## the two loops -/

theorem bgInner_success (E : BgEnv σ α γ) (st : List σ) (goal : σ) : ∀ (todo k k' : Nat) (out : List σ),
    bgInner E st goal todo k = some (some out, k') →
    ∃ j, k ≤ j ∧ j < k' ∧ bgAttempt E st goal (E.u j) = some (some out) := by
  intro todo
  induction todo with
  | zero => intro k k' out h; simp [bgInner] at h
  | succ todo ih =>
    intro k k' out h
    simp only [bgInner] at h
    split at h
    · cases h
    · rename_i st' hatt
      simp only [Option.some.injEq, Prod.mk.injEq] at h
      obtain ⟨h1, h2⟩ := h
      subst h1 h2
      exact ⟨k, Nat.le_refl _, Nat.lt_succ_self _, hatt⟩
    · obtain ⟨j, hj1, hj2, hj⟩ := ih _ _ _ h
      exact ⟨j, by omega, hj2, hj⟩

theorem bgInner_none (E : BgEnv σ α γ) (st : List σ) (goal : σ) : ∀ (todo k : Nat),
    bgInner E st goal todo k = none → ∃ j, bgAttempt E st goal (E.u j) = none := by
  intro todo
  induction todo with
  | zero => intro k h; simp [bgInner] at h
  | succ todo ih =>
    intro k h
    simp only [bgInner] at h
    split at h
    · rename_i hatt; exact ⟨k, hatt⟩
    · cases h
    · exact ih _ h

theorem bgOuter_true (E : BgEnv σ α γ) (st : List σ) (first : σ) : ∀ (todo g k : Nat) (out : List σ),
    bgOuter E st first todo g k = some (out, true) →
    ∃ g' j, E.pairValid first (E.goalAt g') = true ∧
      bgAttempt E st (E.goalAt g') (E.u j) = some (some out) := by
  intro todo
  induction todo with
  | zero => intro g k out h; simp [bgOuter] at h
  | succ todo ih =>
    intro g k out h
    simp only [bgOuter] at h
    split at h
    · exact ih _ _ _ h
    · rename_i hpv
      split at h
      · cases h
      · rename_i st' k' hin
        simp only [Option.some.injEq, Prod.mk.injEq, and_true] at h
        subst h
        obtain ⟨j, _, _, hj⟩ := bgInner_success E st _ _ _ _ _ hin
        exact ⟨g, j, by simpa using hpv, hj⟩
      · exact ih _ _ _ h

theorem bgOuter_false (E : BgEnv σ α γ) (st : List σ) (first : σ) : ∀ (todo g k : Nat) (out : List σ),
    bgOuter E st first todo g k = some (out, false) → out = st := by
  intro todo
  induction todo with
  | zero => intro g k out h; simp only [bgOuter, Option.some.injEq, Prod.mk.injEq, and_true] at h; exact h.symm
  | succ todo ih =>
    intro g k out h
    simp only [bgOuter] at h
    split at h
    · exact ih _ _ _ h
    · split at h
      · cases h
      · simp at h
      · exact ih _ _ _ h

theorem bgOuter_none (E : BgEnv σ α γ) (st : List σ) (first : σ) : ∀ (todo g k : Nat),
    bgOuter E st first todo g k = none →
    ∃ g' j, E.pairValid first (E.goalAt g') = true ∧ bgAttempt E st (E.goalAt g') (E.u j) = none := by
  intro todo
  induction todo with
  | zero => intro g k h; simp [bgOuter] at h
  | succ todo ih =>
    intro g k h
    simp only [bgOuter] at h
    split at h
    · exact ih _ _ h
    · rename_i hpv
      split at h
      · rename_i hin
        obtain ⟨j, hj⟩ := bgInner_none E st _ _ _ hin
        exact ⟨g, j, by simpa using hpv, hj⟩
      · cases h
      · exact ih _ _ h

/-! ## `findBetterGoal` -/

/-- a `true` return is one accepted attempt on the INPUT path, for a sampled goal that passed
`isStartGoalPairValid(path.getState(0), goal)` -/
theorem findBetterGoal_true_attempt {E : BgEnv σ α γ} {path out : List σ}
    (h : findBetterGoal E path = some (out, true)) :
    ∃ g k, bgAttempt E path (E.goalAt g) (E.u k) = some (some out) ∧
      ∃ first, path.head? = some first ∧ E.pairValid first (E.goalAt g) = true := by
  cases path with
  | nil => simp [findBetterGoal] at h
  | cons a r =>
    cases r with
    | nil => simp [findBetterGoal] at h
    | cons b r' =>
      simp only [findBetterGoal] at h
      split at h
      · simp at h
      · obtain ⟨g, j, hpv, hj⟩ := bgOuter_true E _ a _ _ _ _ h
        exact ⟨g, j, hj, a, rfl, hpv⟩

/-- return value false ⇒ path unchanged -/
theorem findBetterGoal_false_unchanged {E : BgEnv σ α γ} {path out : List σ}
    (h : findBetterGoal E path = some (out, false)) : out = path := by
  cases path with
  | nil => simpa [findBetterGoal] using h.symm
  | cons a r =>
    cases r with
    | nil => simp only [findBetterGoal, Option.some.injEq, Prod.mk.injEq, and_true] at h; exact h.symm
    | cons b r' =>
      simp only [findBetterGoal] at h
      split at h
      · simp only [Option.some.injEq, Prod.mk.injEq, and_true] at h; exact h.symm
      · exact bgOuter_false E _ a _ _ _ _ h

/-- **bettergoal_never_worse_own_objective.**  The routine compares COMPLETE candidate paths: if it
returns true, the cost of the new path (the left fold of `combineCosts` over its motion costs — the
fold `path.cost(obj)` and the routine's own `costs` table use) is BETTER, by the objective's own
`isCostBetterThan`, than the cost of the path it was given.  Every objective, every number operations;
the only law used is `hlaw : a < b → ¬ (b <= a)` on the distance type (true of IEEE doubles), which
makes the walk-down loop stop at `end - 1`. -/
theorem findBetterGoal_never_worse {E : BgEnv σ α γ} {path out : List σ}
    (hlaw : ∀ a b, E.N.lt a b = true → E.N.le b a = false)
    (h : findBetterGoal E path = some (out, true)) :
    E.O.better (E.O.pathCost out) (E.O.pathCost path) = true := by
  obtain ⟨g, k, hatt, _⟩ := findBetterGoal_true_attempt h
  exact bgAttempt_never_worse hlaw hatt

/-- the start state is kept, whatever is returned (no law needed) -/
theorem findBetterGoal_keeps_first {E : BgEnv σ α γ} {path out : List σ} {r : Bool}
    (h : findBetterGoal E path = some (out, r)) : out.head? = path.head? := by
  cases r with
  | false => rw [findBetterGoal_false_unchanged h]
  | true =>
    obtain ⟨g, k, hatt, _⟩ := findBetterGoal_true_attempt h
    exact bgAttempt_keeps_first hatt

/-- the last state of a successful result is a sampled goal state, one that passed
`isStartGoalPairValid` with the (kept) start state (no law needed) -/
theorem findBetterGoal_last_is_goal {E : BgEnv σ α γ} {path out : List σ}
    (h : findBetterGoal E path = some (out, true)) :
    ∃ g, out.getLast? = some (E.goalAt g) ∧
      ∃ first, out.head? = some first ∧ E.pairValid first (E.goalAt g) = true := by
  obtain ⟨g, k, hatt, first, hfirst, hpv⟩ := findBetterGoal_true_attempt h
  exact ⟨g, bgAttempt_last_is_goal hatt, first, by rw [bgAttempt_keeps_first hatt, hfirst], hpv⟩

/-- only validated motions: every motion of the result is an input motion, the prefix
`(states[startIndex], state)` of an input motion `(a, b)` cut at the interpolated
`state = interpolate(a, b, t)`, or the pair `(state, goal)` for which `checkMotion` answered true.
Needs `hlaw` (otherwise `startIndex` could be more than one vertex in front of `endIndex`). -/
theorem findBetterGoal_only_validated {E : BgEnv σ α γ} {path out : List σ}
    (hlaw : ∀ a b, E.N.lt a b = true → E.N.le b a = false)
    (h : findBetterGoal E path = some (out, true)) :
    ∀ p ∈ adj out, p ∈ adj path ∨ (∃ a b t, (a, b) ∈ adj path ∧ p = (a, E.interp a b t)) ∨
      E.cm p.1 p.2 = true := by
  obtain ⟨g, k, hatt, _⟩ := findBetterGoal_true_attempt h
  intro p hp
  rcases bgAttempt_only_validated hlaw hatt p hp with h1 | h1 | ⟨_, h1⟩
  · exact Or.inl h1
  · exact Or.inr (Or.inl h1)
  · exact Or.inr (Or.inr h1)

/-- the result of a success has at least two states and at most one more than the input -/
theorem findBetterGoal_length {E : BgEnv σ α γ} {path out : List σ}
    (h : findBetterGoal E path = some (out, true)) :
    2 ≤ out.length ∧ out.length ≤ path.length + 1 := by
  obtain ⟨g, k, hatt, _⟩ := findBetterGoal_true_attempt h
  exact bgAttempt_length hatt

/-! ## what `none` (an out-of-range access) can come from -/

/-- the test passed but the splice failed: the point was snapped to the LAST vertex, and the objective
rates "path plus one more motion" better than the path -/
theorem bgAttempt_none_splice (O : Obj σ γ) (cm : σ → σ → Bool) (interp : σ → σ → α → σ)
    (st : List σ) (goal : σ) (s e s0 e0 : Nat) (c0 cback : γ) (sS sE : σ) (tSeg : α)
    (hle : s0 ≤ e0) (he0 : e0 < st.length)
    (hidx : (s = s0 ∧ e = s0) ∨ (s = e0 ∧ e = e0) ∨ (s = s0 ∧ e = e0))
    (hcback : (O.cumCosts st).toArray[(O.cumCosts st).toArray.size - 1]? = some cback)
    (hc0 : (O.cumCosts st).toArray[s]? = some c0) (hsS : st[s]? = some sS)
    (htest : (O.better (O.combine
          (if s = e then c0
            else O.combine c0 (O.motion sS (if s = e then sS else interp sS sE tSeg)))
          (O.motion (if s = e then sS else interp sS sE tSeg) goal)) cback &&
        cm (if s = e then sS else interp sS sE tSeg) goal) = true)
    (hsp : bgSplice st s e (if s = e then sS else interp sS sE tSeg) goal = none) :
    ∃ last, st.getLast? = some last ∧
      O.better (O.combine (O.pathCost st) (O.motion last goal)) (O.pathCost st) = true ∧
      cm last goal = true := by
  have he : e < st.length := by rcases hidx with ⟨h1, h2⟩ | ⟨h1, h2⟩ | ⟨h1, h2⟩ <;> omega
  by_cases hse : s = e
  · subst hse
    rw [List.getElem?_toArray, List.size_toArray] at hcback
    rw [List.getElem?_toArray] at hc0
    have hcb := cumCosts_back O st cback hcback
    obtain ⟨hs, hc0'⟩ := cumCosts_getElem?_some O st s c0 hc0
    obtain ⟨_, hsS'⟩ := List.getElem?_eq_some_iff.mp hsS
    have hlast : s + 1 = st.length := by
      by_cases h1 : s + 1 < st.length
      · rw [bgSplice_snap st s _ goal h1] at hsp; cases hsp
      · omega
    rw [hlast, List.take_length] at hc0'
    subst hcb hc0' hsS'
    simp only [if_true, Bool.and_eq_true] at htest
    refine ⟨st[s], ?_, htest.1, htest.2⟩
    rw [List.getLast?_eq_getElem?, ← hlast, Nat.add_sub_cancel, List.getElem?_eq_getElem hs]
  · rw [bgSplice_seg_any st s e _ goal hse he] at hsp
    cases hsp

/-- the three indexed reads after the snap tests are in range -/
theorem bgAttempt_none_index (O : Obj σ γ) (st : List σ) (s e s0 e0 : Nat) (hle : s0 ≤ e0)
    (he0 : e0 < st.length) (hidx : (s = s0 ∧ e = s0) ∨ (s = e0 ∧ e = e0) ∨ (s = s0 ∧ e = e0))
    (hno : ∀ (c0 : γ) (sS sE : σ), (O.cumCosts st).toArray[s]? = some c0 → st[s]? = some sS →
      st[e]? = some sE → False) : False := by
  have hs : s < st.length := by rcases hidx with ⟨h1, h2⟩ | ⟨h1, h2⟩ | ⟨h1, h2⟩ <;> omega
  have he : e < st.length := by rcases hidx with ⟨h1, h2⟩ | ⟨h1, h2⟩ | ⟨h1, h2⟩ <;> omega
  exact hno _ _ _ (by rw [List.getElem?_toArray]; exact cumCosts_getElem? O st s hs)
    (List.getElem?_eq_getElem hs) (List.getElem?_eq_getElem he)

/-- `bgWalk` / `*end` fail only when the lower bound is the end iterator -/
theorem bgAttempt_none_walk (N : NumOps α) (l : List α) (t : α) (e : Nat)
    (he : e = lowerBoundG N l t)
    (hno : ∀ (s : Nat) (d : α), bgWalk N l.toArray t e = some s → l.toArray[e]? = some d → False) :
    lowerBoundG N l t = l.length := by
  have h1 := lowerBoundG_le N l t
  by_cases h2 : e < l.length
  · exfalso
    obtain ⟨s, hs⟩ := bgWalk_isSome N l.toArray t e (by simpa using h2)
    exact hno s _ hs (Array.getElem?_eq_getElem (by simpa using h2))
  · omega

theorem bgAttempt_none_cases {E : BgEnv σ α γ} {st : List σ} {goal : σ} {uk : α} (hne : st ≠ [])
    (h : bgAttempt E st goal uk = none) :
    (∃ t, lowerBoundG E.N (cumDistsG E.N E.dist st) t = st.length) ∨
    (∃ last, st.getLast? = some last ∧
      E.O.better (E.O.combine (E.O.pathCost st) (E.O.motion last goal)) (E.O.pathCost st) = true ∧
      E.cm last goal = true) := by
  have hlen : 0 < st.length := List.length_pos_iff.mpr hne
  have hds : (cumDistsG E.N E.dist st).toArray.size = st.length := by
    rw [List.size_toArray, cumDistsG_length]
  have hcs : (E.O.cumCosts st).toArray.size = st.length := by
    rw [List.size_toArray, objCumCosts_length]
  unfold bgAttempt at h
  extract_lets at h
  split at h
  · rename_i back cback hback hcback
    extract_lets at h
    split at h
    · rename_i startI dEnd hwalk hdEnd
      have hle := bgWalk_le _ _ _ _ _ hwalk
      have he : _ < st.length := Nat.lt_of_lt_of_eq (Array.getElem?_eq_some_iff.mp hdEnd).1 hds
      split at h
      · rename_i hdStart
        have h1 : st.length ≤ startI :=
          Nat.le_trans (Nat.le_of_eq hds.symm) (Array.getElem?_eq_none_iff.mp hdStart)
        omega
      · rename_i dStart hdStart
        extract_lets at h
        split at h
        · rename_i c0 sS sE hc0 hsS hsE
          extract_lets at h
          split at h
          · rename_i htest
            split at h
            · cases h
            · rename_i hsp
              right
              refine bgAttempt_none_splice E.O E.cm E.interp st goal _ _ _ _ _ _ _ _ _ hle he ?_
                hcback hc0 hsS htest hsp
              simp +zetaDelta only []
              repeat' split
              all_goals first
                | exact Or.inl ⟨rfl, rfl⟩
                | exact Or.inr (Or.inl ⟨rfl, rfl⟩)
                | exact Or.inr (Or.inr ⟨rfl, rfl⟩)
          · cases h
        · rename_i hno
          exfalso
          refine bgAttempt_none_index E.O st _ _ _ _ hle he ?_ hno
          simp +zetaDelta only []
          repeat' split
          all_goals first
            | exact Or.inl ⟨rfl, rfl⟩
            | exact Or.inr (Or.inl ⟨rfl, rfl⟩)
            | exact Or.inr (Or.inr ⟨rfl, rfl⟩)
    · rename_i hno
      left
      have := bgAttempt_none_walk _ _ _ _ rfl hno
      rw [cumDistsG_length] at this
      exact ⟨_, this⟩
  · rename_i hno
    exfalso
    exact hno _ _
      (Array.getElem?_eq_getElem (Nat.sub_lt (Nat.lt_of_lt_of_eq hlen hds.symm) Nat.one_pos))
      (Array.getElem?_eq_getElem (Nat.sub_lt (Nat.lt_of_lt_of_eq hlen hcs.symm) Nat.one_pos))

/-- in terms of the entries: the sampled `t` is `<`-above EVERY entry of `dists` (in particular above
`dists.back()`, the upper end of the range it was drawn from) -/
theorem bgAttempt_none_cases' {E : BgEnv σ α γ} {st : List σ} {goal : σ} {uk : α} (hne : st ≠ [])
    (h : bgAttempt E st goal uk = none) :
    (∃ t, ∀ d ∈ cumDistsG E.N E.dist st, E.N.lt d t = true) ∨
    (∃ last, st.getLast? = some last ∧
      E.O.better (E.O.combine (E.O.pathCost st) (E.O.motion last goal)) (E.O.pathCost st) = true ∧
      E.cm last goal = true) := by
  rcases bgAttempt_none_cases hne h with ⟨t, ht⟩ | h2
  · left
    rw [← cumDistsG_length E.N E.dist st] at ht
    exact ⟨t, lowerBoundG_eq_length _ _ _ ht⟩
  · exact Or.inr h2

/-- **partial index safety** (`none` = the C++ would read or write a vector out of range).  No law is
needed for this direction.  If the model of `findBetterGoal` returns `none`, then for some sampled
goal `g` (compatible with the start) and some draw, EITHER

* the sampled `t` was `<`-above every entry of `dists` (`end == dists.end()`; the C++ then evaluates
  `*start >= t` and `(*end) - t` on the end iterator) — excluded exactly when `uniformReal(lo, back)`
  never returns a value `> back`, a fact about double rounding that no law on `NumOps` provides; OR
* the point was snapped to the LAST vertex and the objective judged
  `combineCosts(cost(path), motionCost(last, goal))` BETTER than `cost(path)` — then the block writes
  `states[size]` (`bgSplice_snap_last_none`).  Impossible for an objective whose `combineCosts(c, x)`
  is never better than `c` (`findBetterGoal_none_monotone`).

Every other indexed access (`dists[start]`, `costs[startIndex]`, `states[startIndex]`,
`states[endIndex]`, the unsnapped splice) is proved in range. -/
theorem findBetterGoal_indices_partial {E : BgEnv σ α γ} {path : List σ}
    (h : findBetterGoal E path = none) :
    ∃ g, (∃ first, path.head? = some first ∧ E.pairValid first (E.goalAt g) = true) ∧
      ((∃ t, ∀ d ∈ cumDistsG E.N E.dist path, E.N.lt d t = true) ∨
       (∃ last, path.getLast? = some last ∧
          E.O.better (E.O.combine (E.O.pathCost path) (E.O.motion last (E.goalAt g)))
            (E.O.pathCost path) = true ∧
          E.cm last (E.goalAt g) = true)) := by
  cases path with
  | nil => simp [findBetterGoal] at h
  | cons a r =>
    cases r with
    | nil => simp [findBetterGoal] at h
    | cons b r' =>
      simp only [findBetterGoal] at h
      split at h
      · cases h
      · obtain ⟨g, j, hpv, hj⟩ := bgOuter_none E _ a _ _ _ h
        exact ⟨g, ⟨a, rfl, hpv⟩, bgAttempt_none_cases' (by simp) hj⟩

/-- for an objective whose `combineCosts(c, x)` is never better than `c` (path length with
`x ≥ 0` or NaN; min-clearance) the only possible out-of-range access is `end == dists.end()` -/
theorem findBetterGoal_none_monotone {E : BgEnv σ α γ} {path : List σ}
    (hmono : ∀ c x, E.O.better (E.O.combine c x) c = false)
    (h : findBetterGoal E path = none) :
    ∃ t, ∀ d ∈ cumDistsG E.N E.dist path, E.N.lt d t = true := by
  obtain ⟨g, _, h1 | ⟨last, _, h2, _⟩⟩ := findBetterGoal_indices_partial h
  · exact h1
  · rw [hmono] at h2; cases h2

/-! ## non-vacuity: the theorems' hypotheses are met on concrete runs

Points on a line, fixed point numbers with one decimal digit (`10` is `1.0`), path-length objective,
`rangeRatio = 0.5`, every draw `u = 0.5`, so `t = 22` on the path `[0, 10, 30]`. -/

def bgDemoN : NumOps Nat :=
  { add := (· + ·), sub := (· - ·), mul := fun a b => a * b / 10, div := fun a b => a * 10 / b,
    lt := fun a b => decide (a < b), le := fun a b => decide (a ≤ b),
    zero := 0, two := 20, negOne := 0, eps := 0 }

def bgDemoDist (a b : Nat) : Nat := if a ≤ b then b - a else a - b

def bgDemo (goal snap : Nat) (better : Nat → Nat → Bool) : BgEnv Nat Nat Nat :=
  { N := bgDemoN
    O := { identity := 0, combine := (· + ·), motion := bgDemoDist, better := better }
    cm := fun _ _ => true, dist := bgDemoDist
    interp := fun a b t => a + (b - a) * t / 10
    goalAt := fun _ => goal, pairValid := fun _ _ => true, u := fun _ => 5
    maxGoals := 1, samplingAttempts := 1, rangeRatio := 5, snap := snap }

/-- the demo numbers satisfy `hlaw` -/
example (goal snap : Nat) (better : Nat → Nat → Bool) :
    ∀ a b, (bgDemo goal snap better).N.lt a b = true → (bgDemo goal snap better).N.le b a = false := by
  intro a b h
  simp only [bgDemo, bgDemoN, decide_eq_true_eq, decide_eq_false_iff_not] at h ⊢
  omega

/-- `t = 22` inside the segment `(10, 30)`: interpolated state `22`, then the goal `25` (cost 25 < 30) -/
example : findBetterGoal (bgDemo 25 0 fun a b => decide (a < b)) [0, 10, 30] =
    some ([0, 10, 22, 25], true) := by decide
/-- threshold `0.5 * 30`: snapped to vertex 1 -/
example : findBetterGoal (bgDemo 25 5 fun a b => decide (a < b)) [0, 10, 30] =
    some ([0, 10, 25], true) := by decide
/-- a goal that is not better -/
example : findBetterGoal (bgDemo 95 0 fun a b => decide (a < b)) [0, 10, 30] =
    some ([0, 10, 30], false) := by decide
/-- the second alternative of `findBetterGoal_indices_partial` is real: threshold `0.3 * 30` snaps `t = 22`
to the LAST vertex, and an objective that prefers LARGER sums accepts `30 + 5`: `states[size]` is written -/
example : findBetterGoal (bgDemo 25 3 fun a b => decide (a > b)) [0, 10, 30] = none := by decide

end OmplModel.PathOps
