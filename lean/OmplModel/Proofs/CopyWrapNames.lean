import OmplModel.Proofs.CopyCommon
/-! The names overload of `copyStateData` on top-level wrappers (model side of F105's repair): substate addressing goes
through the wrapped state. -/
namespace OmplModel.Copy

theorem substateLocs_unwrap : ∀ sp : Sp, substateLocs sp = substateLocs sp.unwrap
  | .wrapper _ s => by rw [substateLocs, Sp.unwrap]; exact substateLocs_unwrap s
  | .real _ _ => rfl
  | .so2 _ => rfl
  | .so3 _ => rfl
  | .time _ => rfl
  | .discrete _ => rfl
  | .compound _ _ => rfl

theorem unwrap_not_wrapper : ∀ sp : Sp, ∀ nm s, sp.unwrap ≠ .wrapper nm s
  | .wrapper _ s', nm, s => by rw [Sp.unwrap]; exact unwrap_not_wrapper s' nm s
  | .real _ _, _, _ => by simp [Sp.unwrap]
  | .so2 _, _, _ => by simp [Sp.unwrap]
  | .so3 _, _, _ => by simp [Sp.unwrap]
  | .time _, _, _ => by simp [Sp.unwrap]
  | .discrete _, _, _ => by simp [Sp.unwrap]
  | .compound _ _, _, _ => by simp [Sp.unwrap]

theorem fits_unwrapAs : ∀ (sp : Sp) (st : St), fits sp st = true → fits sp.unwrap (St.unwrapAs sp st) = true
  | .wrapper _ s, st, h => by
      cases st with
      | wrap x => simp only [fits] at h; simpa [Sp.unwrap, St.unwrapAs] using fits_unwrapAs s x h
      | _ => simp [fits] at h
  | .real _ _, st, h => by simpa [Sp.unwrap, St.unwrapAs] using h
  | .so2 _, st, h => by simpa [Sp.unwrap, St.unwrapAs] using h
  | .so3 _, st, h => by simpa [Sp.unwrap, St.unwrapAs] using h
  | .time _, st, h => by simpa [Sp.unwrap, St.unwrapAs] using h
  | .discrete _, st, h => by simpa [Sp.unwrap, St.unwrapAs] using h
  | .compound _ _, st, h => by simpa [Sp.unwrap, St.unwrapAs] using h

theorem fits_rewrapAs : ∀ (sp : Sp) (x : St), fits sp.unwrap x = true → fits sp (St.rewrapAs sp x) = true
  | .wrapper _ s, x, h => by
      simp only [St.rewrapAs, fits]; exact fits_rewrapAs s x (by simpa [Sp.unwrap] using h)
  | .real _ _, x, h => by simpa [Sp.unwrap, St.rewrapAs] using h
  | .so2 _, x, h => by simpa [Sp.unwrap, St.rewrapAs] using h
  | .so3 _, x, h => by simpa [Sp.unwrap, St.rewrapAs] using h
  | .time _, x, h => by simpa [Sp.unwrap, St.rewrapAs] using h
  | .discrete _, x, h => by simpa [Sp.unwrap, St.rewrapAs] using h
  | .compound _ _, x, h => by simpa [Sp.unwrap, St.rewrapAs] using h

theorem unwrapAs_rewrapAs : ∀ (sp : Sp) (x : St), St.unwrapAs sp (St.rewrapAs sp x) = x
  | .wrapper _ s, x => by simp only [St.rewrapAs, St.unwrapAs]; exact unwrapAs_rewrapAs s x
  | .real _ _, x => by simp [St.unwrapAs, St.rewrapAs]
  | .so2 _, x => by simp [St.unwrapAs, St.rewrapAs]
  | .so3 _, x => by simp [St.unwrapAs, St.rewrapAs]
  | .time _, x => by simp [St.unwrapAs, St.rewrapAs]
  | .discrete _, x => by simp [St.unwrapAs, St.rewrapAs]
  | .compound _ _, x => by simp [St.unwrapAs, St.rewrapAs]

theorem rewrapAs_unwrapAs : ∀ (sp : Sp) (st : St), fits sp st = true → St.rewrapAs sp (St.unwrapAs sp st) = st
  | .wrapper _ s, st, h => by
      cases st with
      | wrap x =>
        simp only [fits] at h
        simp only [St.unwrapAs, St.rewrapAs, rewrapAs_unwrapAs s x h]
      | _ => simp [fits] at h
  | .real _ _, st, _ => by simp [St.unwrapAs, St.rewrapAs]
  | .so2 _, st, _ => by simp [St.unwrapAs, St.rewrapAs]
  | .so3 _, st, _ => by simp [St.unwrapAs, St.rewrapAs]
  | .time _, st, _ => by simp [St.unwrapAs, St.rewrapAs]
  | .discrete _, st, _ => by simp [St.unwrapAs, St.rewrapAs]
  | .compound _ _, st, _ => by simp [St.unwrapAs, St.rewrapAs]

/-- the wrapper-level statement: with `getSubstateAtLocation` unwrapping (F105 repaired), the names overload on spaces
with any number of top-level wrappers transfers exactly the named substates **of the wrapped states**; the result is
again a state of the (wrapped) destination space and the wrappers are untouched -/
theorem csdNamesW_state {D S : Sp} {d s : St} (ctx : CopyCtx D.unwrap S.unwrap (St.unwrapAs S s))
    (hd : fits D d = true) (names : List Nat) (hnn : NonNested D.unwrap S.unwrap names) :
    fits D (csdNamesW D d S s names).1 = true ∧
    (∀ n ∈ names, ∀ dc sc, findSub (substateLocs D) n = some dc → findSub (substateLocs S) n = some sc →
      (St.unwrapAs D (csdNamesW D d S s names).1).sub dc = (St.unwrapAs S s).sub sc) ∧
    (∀ q, (∀ n ∈ names, nameFound D.unwrap S.unwrap n = true → ∀ dc, findSub (substateLocs D) n = some dc → Incomp dc q) →
      (St.unwrapAs D (csdNamesW D d S s names).1).sub q = (St.unwrapAs D d).sub q) ∧
    (csdNamesW D d S s names).2 = (csdNames D.unwrap (St.unwrapAs D d) S.unwrap (St.unwrapAs S s) names).2 := by
  obtain ⟨h1, h2, h3⟩ := csdNames_state ctx (fits_unwrapAs D d hd) names hnn
  refine ⟨?_, ?_, ?_, rfl⟩
  · exact fits_rewrapAs D _ h1
  · intro n hn dc sc hdc hsc
    simp only [csdNamesW, unwrapAs_rewrapAs]
    exact h2 n hn dc sc (by rw [← substateLocs_unwrap]; exact hdc) (by rw [← substateLocs_unwrap]; exact hsc)
  · intro q hq
    simp only [csdNamesW, unwrapAs_rewrapAs]
    exact h3 q (fun n hn hf dc hdc => hq n hn hf dc (by rw [substateLocs_unwrap]; exact hdc))

/-- on spaces without a top-level wrapper `csdNamesW` is `csdNames` -/
theorem csdNamesW_eq {D S : Sp} (hD : ∀ nm s, D ≠ .wrapper nm s) (hS : ∀ nm s, S ≠ .wrapper nm s) (d s : St)
    (names : List Nat) : csdNamesW D d S s names = csdNames D d S s names := by
  have uD : D.unwrap = D := by cases D <;> simp [Sp.unwrap] at hD ⊢
  have uS : S.unwrap = S := by cases S <;> simp [Sp.unwrap] at hS ⊢
  have ud : St.unwrapAs D d = d := by cases D <;> simp [St.unwrapAs] at hD ⊢
  have us : St.unwrapAs S s = s := by cases S <;> simp [St.unwrapAs] at hS ⊢
  have rD : ∀ x, St.rewrapAs D x = x := by intro x; cases D <;> simp [St.rewrapAs] at hD ⊢
  simp [csdNamesW, uD, uS, ud, us, rD]

end OmplModel.Copy
