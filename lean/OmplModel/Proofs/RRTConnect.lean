import OmplModel.Model.RRTConnect
import OmplModel.Proofs.PlannerReport
import OmplModel.Proofs.RRT
/-!
Invariant proofs for the RRTConnect model.  Arithmetic-free: every statement holds for every `Cfg`.
-/
namespace OmplModel.RRTConnect
open OmplModel.PlannerReport
open OmplModel.RRT (Chain chain_snoc chain_of_infix chain_mono chain_getElem)

variable {S D : Type}

def ValidStart (cfg : Cfg S D) (starts : Array S) (s : S) : Prop :=
  ∃ k, ∃ h : k < starts.size, starts[k] = s ∧ cfg.bounds s = true ∧ cfg.valid s = true

/-- `s` is one of the goal's own samples, within `maxSampleCount()`, and passed the input filter -/
def ValidGoal (cfg : Cfg S D) (s : S) : Prop :=
  ∃ k, k < cfg.maxGoalSamples ∧ cfg.goalSample k = s ∧ cfg.bounds s = true ∧ cfg.valid s = true

/-- the motion from `x` to `y` (in path direction) is justified: `checkMotion(x, y)` returned true, or (only
with intermediate states) the two are consecutive `getMotionStates` points of a motion `(a, b)` for which
`checkMotion(a, b)` returned true. -/
def Edge (cfg : Cfg S D) (x y : S) : Prop :=
  cfg.checkMotion x y = true ∨
    (cfg.addIntermediate = true ∧ ∃ a b, cfg.checkMotion a b = true ∧
      ∃ l1 l2, a :: motionStates cfg a b = l1 ++ x :: y :: l2)

/-- (parent, child) relation of a tree: the start tree grows along motions, the goal tree against them -/
def TreeEdge (cfg : Cfg S D) (side : Bool) (p c : S) : Prop :=
  if side then Edge cfg p c else Edge cfg c p

def TreeInv (Root : S → Prop) (E : S → S → Prop) (tree : Array (Node S)) : Prop :=
  ∀ (i : Nat) (nd : Node S), tree[i]? = some nd →
    match nd.parent with
    | none => Root nd.state ∧ nd.root = nd.state
    | some p => p < i ∧ ∃ np, tree[p]? = some np ∧ E np.state nd.state ∧ nd.root = np.root

theorem chain_reverse (R : S → S → Prop) (l : List S) (h : Chain R l) :
    Chain (fun x y => R y x) l.reverse := by
  induction l with
  | nil => trivial
  | cons a r ih =>
    cases r with
    | nil => trivial
    | cons b r' =>
      have ih' := ih h.2
      simp only [List.reverse_cons] at ih' ⊢
      apply chain_snoc _ _ _ ih'
      intro z hz
      simp at hz
      subst hz
      exact h.1

theorem chain_append (R : S → S → Prop) (l1 l2 : List S) (h1 : Chain R l1) (h2 : Chain R l2)
    (hj : ∀ a b, l1.getLast? = some a → l2.head? = some b → R a b) : Chain R (l1 ++ l2) := by
  induction l1 with
  | nil => simpa using h2
  | cons a r ih =>
    cases r with
    | nil =>
      cases l2 with
      | nil => trivial
      | cons b r2 => exact ⟨hj a b (by simp) (by simp), h2⟩
    | cons b r' =>
      refine ⟨h1.1, ?_⟩
      apply ih h1.2
      intro x y hx hy
      exact hj x y (by simpa [List.getLast?_cons_cons] using hx) hy

theorem motionStates_eq (cfg : Cfg S D) (a b : S) :
    motionStates cfg a b = (motionStates cfg a b).dropLast ++ [b] := by
  unfold motionStates
  simp only
  split <;> simp

theorem getLast?_cons_snoc (a0 b : S) (m : List S) : (a0 :: (m ++ [b])).getLast? = some b := by
  induction m generalizing a0 with
  | nil => rfl
  | cons x r ih =>
    have := ih x
    simpa [List.getLast?_cons_cons] using this

theorem motionStates_getLast (cfg : Cfg S D) (a0 a b : S) :
    (a0 :: motionStates cfg a b).getLast? = some b := by
  unfold motionStates
  simp only
  split
  · rfl
  · exact getLast?_cons_snoc _ _ _

theorem addChain_spec (Root : S → Prop) (E : S → S → Prop) (root : S) (l : List S) :
    ∀ (tree : Array (Node S)) (p : Nat) (np : Node S), tree[p]? = some np → np.root = root →
      TreeInv Root E tree → Chain E (np.state :: l) →
      TreeInv Root E (addChain tree p root l).1 ∧
        (∀ (i : Nat) (nd : Node S), tree[i]? = some nd → (addChain tree p root l).1[i]? = some nd) ∧
        ∃ nl, (addChain tree p root l).1[(addChain tree p root l).2]? = some nl ∧
          some nl.state = (np.state :: l).getLast? ∧ nl.root = root := by
  induction l with
  | nil =>
    intro tree p np hp hr hinv _
    exact ⟨hinv, fun _ _ h => h, np, hp, by simp, hr⟩
  | cons s r ih =>
    intro tree p np hp hr hinv hch
    obtain ⟨hlink, hch'⟩ := hch
    have hpl : p < tree.size := (Array.getElem?_eq_some_iff.1 hp).1
    have hkeep : ∀ (i : Nat) (nd : Node S), tree[i]? = some nd → (tree.push ⟨s, some p, root⟩)[i]? = some nd := by
      intro i nd h
      have hi : i < tree.size := (Array.getElem?_eq_some_iff.1 h).1
      rw [Array.getElem?_push, if_neg (by omega)]
      exact h
    have hnew : (tree.push ⟨s, some p, root⟩)[tree.size]? = some ⟨s, some p, root⟩ := by
      rw [Array.getElem?_push]; simp
    have hinv' : TreeInv Root E (tree.push ⟨s, some p, root⟩) := by
      intro i nd h
      rw [Array.getElem?_push] at h
      split at h
      · next hi =>
        simp only [Option.some.injEq] at h
        subst h
        subst hi
        exact ⟨hpl, np, hkeep p np hp, hlink, hr.symm⟩
      · have := hinv i nd h
        split
        · next hpar => simpa [hpar] using this
        · next q hpar =>
          simp only [hpar] at this
          obtain ⟨h1, nq, h2, h3, h4⟩ := this
          exact ⟨h1, nq, hkeep q nq h2, h3, h4⟩
    obtain ⟨i1, i2, nl, i3, i4, i5⟩ := ih (tree.push ⟨s, some p, root⟩) tree.size ⟨s, some p, root⟩ hnew rfl hinv' hch'
    refine ⟨i1, fun i nd h => i2 i nd (hkeep i nd h), nl, i3, ?_, i5⟩
    rw [i4]
    simp [List.getLast?_cons_cons]

theorem push_root_inv (Root : S → Prop) (E : S → S → Prop) (tree : Array (Node S)) (s : S)
    (hinv : TreeInv Root E tree) (hs : Root s) :
    TreeInv Root E (tree.push ⟨s, none, s⟩) ∧
      ∀ (i : Nat) (nd : Node S), tree[i]? = some nd → (tree.push ⟨s, none, s⟩)[i]? = some nd := by
  have hkeep : ∀ (i : Nat) (nd : Node S), tree[i]? = some nd → (tree.push ⟨s, none, s⟩)[i]? = some nd := by
    intro i nd h
    have hi : i < tree.size := (Array.getElem?_eq_some_iff.1 h).1
    rw [Array.getElem?_push, if_neg (by omega)]
    exact h
  refine ⟨?_, hkeep⟩
  intro i nd h
  rw [Array.getElem?_push] at h
  split at h
  · simp only [Option.some.injEq] at h
    subst h
    exact ⟨hs, rfl⟩
  · have := hinv i nd h
    split
    · next hpar => simpa [hpar] using this
    · next q hpar =>
      simp only [hpar] at this
      obtain ⟨h1, nq, h2, h3, h4⟩ := this
      exact ⟨h1, nq, hkeep q nq h2, h3, h4⟩

/-- what `growTree` does to a tree that satisfies the invariant of its side -/
theorem grow_spec (cfg : Cfg S D) (Root : S → Prop) (side : Bool) (tree : Array (Node S)) (rstate xstate : S)
    (xm : Nat) (hinv : TreeInv Root (TreeEdge cfg side) tree) :
    TreeInv Root (TreeEdge cfg side) (growTree cfg tree side rstate xstate xm).tree ∧
      (∀ (i : Nat) (nd : Node S), tree[i]? = some nd →
        (growTree cfg tree side rstate xstate xm).tree[i]? = some nd) ∧
      ((growTree cfg tree side rstate xstate xm).gs ≠ .trapped →
        ∃ nl, (growTree cfg tree side rstate xstate xm).tree[(growTree cfg tree side rstate xstate xm).xmotion]? = some nl ∧
          nl.state = (if (growTree cfg tree side rstate xstate xm).gs = .reached then rstate
                      else (growTree cfg tree side rstate xstate xm).xstate)) := by
  cases side with
  | true =>
    unfold growTree
    simp only [if_true]
    split
    · exact ⟨hinv, fun _ _ h => h, fun h => absurd rfl h⟩
    · next nm hnm =>
      generalize htr : cfg.lt cfg.maxDistance (cfg.dist nm.state rstate) = trunc
      generalize hx : cfg.interp nm.state rstate (cfg.div cfg.maxDistance (cfg.dist nm.state rstate)) = x
      split
      · exact ⟨hinv, fun _ _ h => h, fun h => absurd rfl h⟩
      · generalize hds : (if trunc = true then x else rstate) = dstate
        split
        · exact ⟨hinv, fun _ _ h => h, fun h => absurd rfl h⟩
        · next hvm =>
          simp only [Bool.not_eq_true, Bool.not_eq_false'] at hvm
          generalize hl : (if cfg.addIntermediate = true then motionStates cfg nm.state dstate else [dstate]) = l
          have hch : Chain (TreeEdge cfg true) (nm.state :: l) ∧ (nm.state :: l).getLast? = some dstate := by
            subst hl
            split
            · next hi =>
              constructor
              · have : Chain (Edge cfg) (nm.state :: motionStates cfg nm.state dstate) := by
                  apply chain_of_infix
                  intro l1 a b l2 heq
                  exact Or.inr ⟨hi, nm.state, dstate, hvm, l1, l2, heq⟩
                exact chain_mono _ _ (fun a b h => by simp only [TreeEdge, if_true]; exact h) _ this
              · exact motionStates_getLast cfg _ _ _
            · exact ⟨⟨by simp only [TreeEdge, if_true]; exact Or.inl hvm, trivial⟩, by simp⟩
          obtain ⟨a1, a2, nl, a3, a4, _⟩ := addChain_spec Root (TreeEdge cfg true) nm.root l tree _ nm hnm rfl hinv hch.1
          refine ⟨a1, a2, fun _ => ⟨nl, a3, ?_⟩⟩
          rw [hch.2] at a4
          simp only [Option.some.injEq] at a4
          rw [a4, ← hds]
          cases trunc <;> simp
  | false =>
    unfold growTree
    simp only [Bool.false_eq_true, if_false]
    split
    · exact ⟨hinv, fun _ _ h => h, fun h => absurd rfl h⟩
    · next nm hnm =>
      generalize htr : cfg.lt cfg.maxDistance (cfg.dist nm.state rstate) = trunc
      generalize hx : cfg.interp nm.state rstate (cfg.div cfg.maxDistance (cfg.dist nm.state rstate)) = x
      split
      · exact ⟨hinv, fun _ _ h => h, fun h => absurd rfl h⟩
      · generalize hds : (if trunc = true then x else rstate) = dstate
        split
        · exact ⟨hinv, fun _ _ h => h, fun h => absurd rfl h⟩
        · next hvm =>
          simp only [Bool.not_eq_true, Bool.not_eq_false', Bool.and_eq_true] at hvm
          generalize hl : (if cfg.addIntermediate = true then
              (dstate :: (motionStates cfg dstate nm.state).dropLast).reverse else [dstate]) = l
          have hch : Chain (TreeEdge cfg false) (nm.state :: l) ∧ (nm.state :: l).getLast? = some dstate := by
            subst hl
            split
            · next hi =>
              have hrev : nm.state :: (dstate :: (motionStates cfg dstate nm.state).dropLast).reverse =
                  (dstate :: motionStates cfg dstate nm.state).reverse := by
                conv => rhs; rw [motionStates_eq]
                simp
              rw [hrev]
              constructor
              · have : Chain (Edge cfg) (dstate :: motionStates cfg dstate nm.state) := by
                  apply chain_of_infix
                  intro l1 a b l2 heq
                  exact Or.inr ⟨hi, dstate, nm.state, hvm.2, l1, l2, heq⟩
                exact chain_mono _ _ (fun a b h => by simp only [TreeEdge, Bool.false_eq_true, if_false]; exact h) _ (chain_reverse _ _ this)
              · simp
            · exact ⟨⟨by simp only [TreeEdge, Bool.false_eq_true, if_false]; exact Or.inl hvm.2, trivial⟩, by simp⟩
          obtain ⟨a1, a2, nl, a3, a4, _⟩ := addChain_spec Root (TreeEdge cfg false) nm.root l tree _ nm hnm rfl hinv hch.1
          refine ⟨a1, a2, fun _ => ⟨nl, a3, ?_⟩⟩
          rw [hch.2] at a4
          simp only [Option.some.injEq] at a4
          rw [a4, ← hds]
          cases trunc <;> simp

/-- the connect loop keeps the invariant; when it ends REACHED the last motion added carries `rstate` -/
theorem connect_spec (cfg : Cfg S D) (Root : S → Prop) (side : Bool) (rstate : S) (fuel : Nat) :
    ∀ (r0 : GrowResult S) (tree0 : Array (Node S)), TreeInv Root (TreeEdge cfg side) r0.tree →
      (∀ (i : Nat) (nd : Node S), tree0[i]? = some nd → r0.tree[i]? = some nd) →
      (r0.gs ≠ .trapped → ∃ nl, r0.tree[r0.xmotion]? = some nl ∧
        nl.state = (if r0.gs = .reached then rstate else r0.xstate)) →
      TreeInv Root (TreeEdge cfg side) (connectLoop cfg side rstate fuel r0).tree ∧
        (∀ (i : Nat) (nd : Node S), tree0[i]? = some nd → (connectLoop cfg side rstate fuel r0).tree[i]? = some nd) ∧
        ((connectLoop cfg side rstate fuel r0).gs = .reached →
          ∃ nl, (connectLoop cfg side rstate fuel r0).tree[(connectLoop cfg side rstate fuel r0).xmotion]? = some nl ∧
            nl.state = rstate) := by
  induction fuel with
  | zero =>
    intro r0 tree0 h1 h2 h3
    refine ⟨h1, h2, fun hr => ?_⟩
    simp only [connectLoop] at hr ⊢
    obtain ⟨nl, a, b⟩ := h3 (by rw [hr]; simp)
    exact ⟨nl, a, by simpa [hr] using b⟩
  | succ f ih =>
    intro r0 tree0 h1 h2 h3
    simp only [connectLoop]
    split
    · obtain ⟨g1, g2, g3⟩ := grow_spec cfg Root side r0.tree rstate r0.xstate r0.xmotion h1
      exact ih _ tree0 g1 (fun i nd h => g2 i nd (h2 i nd h)) g3
    · refine ⟨h1, h2, fun hr => ?_⟩
      obtain ⟨nl, a, b⟩ := h3 (by rw [hr]; simp)
      exact ⟨nl, a, by simpa [hr] using b⟩

/-- walking the parents from a tree node: a chain of tree edges from the node's root to the node -/
theorem pathTo_spec (Root : S → Prop) (E : S → S → Prop) (tree : Array (Node S)) (hinv : TreeInv Root E tree) :
    ∀ (fuel i : Nat) (nd : Node S) (acc : List S), tree[i]? = some nd → i < fuel →
      ∃ l : List S, pathTo tree fuel i acc = l ++ acc ∧ l.head? = some nd.root ∧ Root nd.root ∧
        Chain E l ∧ l.getLast? = some nd.state := by
  intro fuel
  induction fuel with
  | zero => intro i nd acc _ hf; omega
  | succ f ih =>
    intro i nd acc hnd hf
    simp only [pathTo, hnd]
    have hi := hinv i nd hnd
    split
    · next hpar =>
      simp only [hpar] at hi
      exact ⟨[nd.state], rfl, by simp [hi.2], by rw [hi.2]; exact hi.1, trivial, rfl⟩
    · next p hpar =>
      simp only [hpar] at hi
      obtain ⟨hp, np, hnp, hlink, hroot⟩ := hi
      obtain ⟨l, h1, h2, h3, h4, h5⟩ := ih p np (nd.state :: acc) hnp (by omega)
      refine ⟨l ++ [nd.state], by simp [h1], ?_, by rw [hroot]; exact h3, ?_, by simp⟩
      · rw [hroot]
        cases l with
        | nil => simp at h2
        | cons a r => simpa using h2
      · apply chain_snoc _ _ _ h4
        intro z hz
        rw [h5] at hz
        simp only [Option.some.injEq] at hz
        subst hz
        exact hlink

/-- a truthful exact report of RRTConnect -/
structure RealExact (cfg : Cfg S D) (starts : Array S) (path : List S) : Prop where
  /-- first state: a valid in-bounds start; last state: one of the goal's own samples that passed the input filter;
  the pair was accepted by `isStartGoalPairValid` -/
  ends : ∃ s0 g, path.head? = some s0 ∧ path.getLast? = some g ∧ ValidStart cfg starts s0 ∧ ValidGoal cfg g ∧
    cfg.pairValid s0 g = true
  /-- consecutive states are justified motions, in path direction -/
  edges : Chain (Edge cfg) path

theorem pathUp_spec (cfg : Cfg S D) (tG : Array (Node S)) (hG : TreeInv (ValidGoal cfg) (TreeEdge cfg false) tG)
    (i : Nat) (nd : Node S) (h : tG[i]? = some nd) :
    (pathUp tG i).head? = some nd.state ∧ (pathUp tG i).getLast? = some nd.root ∧ ValidGoal cfg nd.root ∧
      Chain (Edge cfg) (pathUp tG i) := by
  obtain ⟨l, h1, h2, h3, h4, h5⟩ := pathTo_spec (ValidGoal cfg) (TreeEdge cfg false) tG hG (i + 1) i nd [] h (by omega)
  simp only [List.append_nil] at h1
  unfold pathUp
  rw [h1]
  refine ⟨by simpa using h5, by simpa using h2, h3, ?_⟩
  exact chain_mono _ _ (fun a b hab => by simpa [TreeEdge] using hab) _ (chain_reverse _ _ h4)

theorem pathDown_spec (cfg : Cfg S D) (starts : Array S) (tS : Array (Node S))
    (hS : TreeInv (ValidStart cfg starts) (TreeEdge cfg true) tS) (i : Nat) (nd : Node S) (h : tS[i]? = some nd) :
    (pathTo tS (i + 1) i []).head? = some nd.root ∧ (pathTo tS (i + 1) i []).getLast? = some nd.state ∧
      ValidStart cfg starts nd.root ∧ Chain (Edge cfg) (pathTo tS (i + 1) i []) := by
  obtain ⟨l, h1, h2, h3, h4, h5⟩ := pathTo_spec (ValidStart cfg starts) (TreeEdge cfg true) tS hS (i + 1) i nd [] h (by omega)
  simp only [List.append_nil] at h1
  rw [h1]
  exact ⟨h2, h5, h3, chain_mono _ _ (fun a b hab => by simpa [TreeEdge] using hab) _ h4⟩

theorem head?_append_of_head? (l1 l2 : List S) (a : S) (h : l1.head? = some a) : (l1 ++ l2).head? = some a := by
  cases l1 with
  | nil => simp at h
  | cons x r => simpa using h

theorem getLast?_append_of_getLast? (l1 l2 : List S) (a : S) (h : l2.getLast? = some a) :
    (l1 ++ l2).getLast? = some a := by
  cases l2 with
  | nil => simp at h
  | cons x r =>
    rw [List.getLast?_append]
    simp [h]

/-- the path assembled at the connection point is real -/
theorem exact_path (cfg : Cfg S D) (starts : Array S) (tS tG : Array (Node S))
    (hS : TreeInv (ValidStart cfg starts) (TreeEdge cfg true) tS)
    (hG : TreeInv (ValidGoal cfg) (TreeEdge cfg false) tG)
    (smi gmi : Nat) (sm gm : Node S) (hsm : tS[smi]? = some sm) (hgm : tG[gmi]? = some gm)
    (heq : sm.state = gm.state) (hpair : cfg.pairValid sm.root gm.root = true) :
    RealExact cfg starts (connectPath tS tG smi gmi) := by
  unfold connectPath
  rw [hsm]
  simp only
  have hsmi := hS smi sm hsm
  obtain ⟨u1, u2, u3, u4⟩ := pathUp_spec cfg tG hG gmi gm hgm
  split
  · next sp hpar =>
    simp only [hpar] at hsmi
    obtain ⟨_, np, hnp, hedge, hroot⟩ := hsmi
    obtain ⟨d1, d2, d3, d4⟩ := pathDown_spec cfg starts tS hS sp np hnp
    refine ⟨⟨sm.root, gm.root, ?_, getLast?_append_of_getLast? _ _ _ u2, by rw [hroot]; exact d3, u3, hpair⟩, ?_⟩
    · rw [hroot]; exact head?_append_of_head? _ _ _ d1
    · apply chain_append _ _ _ d4 u4
      intro a b ha hb
      rw [d2] at ha; rw [u1] at hb
      simp only [Option.some.injEq] at ha hb
      subst ha; subst hb
      rw [← heq]
      simpa [TreeEdge] using hedge
  · next hpar =>
    simp only [hpar] at hsmi
    obtain ⟨hvs, hroot⟩ := hsmi
    have hp1 : pathTo tS (smi + 1) smi [] = [sm.state] := by simp [pathTo, hsm, hpar]
    rw [hp1, hgm]
    simp only
    have hgmi := hG gmi gm hgm
    split
    · next gp hgpar =>
      simp only [hgpar] at hgmi
      obtain ⟨_, ngp, hngp, hedge, hgroot⟩ := hgmi
      obtain ⟨v1, v2, v3, v4⟩ := pathUp_spec cfg tG hG gp ngp hngp
      refine ⟨⟨sm.state, gm.root, by simp, ?_, hvs, u3, by rw [← hroot]; exact hpair⟩, ?_⟩
      · rw [hgroot]; exact getLast?_append_of_getLast? _ _ _ v2
      · apply chain_append _ _ _ (by trivial) v4
        intro a b ha hb
        rw [v1] at hb
        simp only [List.getLast?_singleton, Option.some.injEq] at ha hb
        subst ha; subst hb
        rw [heq]
        simpa [TreeEdge] using hedge
    · next hgpar =>
      simp only [hgpar] at hgmi
      obtain ⟨hvg, hgroot⟩ := hgmi
      refine ⟨⟨sm.state, sm.state, by simp, by simp, hvs, by rw [heq]; exact hvg, ?_⟩, by trivial⟩
      rw [hroot, hgroot, ← heq] at hpair
      exact hpair

theorem connectLoop_not_advanced (cfg : Cfg S D) (side : Bool) (rstate : S) (fuel : Nat) (r : GrowResult S)
    (h : r.gs ≠ .advanced) : connectLoop cfg side rstate fuel r = r := by
  cases fuel with
  | zero => rfl
  | succ f => simp [connectLoop, h]

structure StInv (cfg : Cfg S D) (starts : Array S) (st : St S D) : Prop where
  tS : TreeInv (ValidStart cfg starts) (TreeEdge cfg true) st.tStart
  tG : TreeInv (ValidGoal cfg) (TreeEdge cfg false) st.tGoal
  approx : ∀ i, st.approxsol = some i → ∃ nd, st.tStart[i]? = some nd ∧ st.approxdif = cfg.goalDist nd.state
  exact : ∀ path, st.exact = some path → RealExact cfg starts path
  status : st.status = .timeout ∨ st.status = .invalidGoal

theorem sampleGoals_inv (cfg : Cfg S D) (starts : Array S) (st : St S D) (h : StInv cfg starts st) :
    StInv cfg starts (sampleGoals cfg st) := by
  unfold sampleGoals
  split
  · generalize hr : (if st.tGoal.size = 0 then
        goalOuter cfg.bounds cfg.valid cfg.goalSample cfg.maxGoalSamples (st.ptc + 1) st.pis.sampledGoalsCount (ptcScript st.ptc)
      else goalOuter cfg.bounds cfg.valid cfg.goalSample cfg.maxGoalSamples 1 st.pis.sampledGoalsCount []) = r
    have hspec : ∀ x, r.1 = some x → ValidGoal cfg x.2 := by
      intro x hx
      subst hr
      split at hx
      · obtain ⟨_, _, h3⟩ := goalOuter_spec cfg.bounds cfg.valid cfg.goalSample cfg.maxGoalSamples (st.ptc + 1)
          st.pis.sampledGoalsCount (ptcScript st.ptc)
        obtain ⟨a, b, c, _, _, g⟩ := h3 x hx
        exact ⟨x.1, g, a.symm, b, c⟩
      · obtain ⟨_, _, h3⟩ := goalOuter_spec cfg.bounds cfg.valid cfg.goalSample cfg.maxGoalSamples 1
          st.pis.sampledGoalsCount []
        obtain ⟨a, b, c, _, _, g⟩ := h3 x hx
        exact ⟨x.1, g, a.symm, b, c⟩
    have hG : TreeInv (ValidGoal cfg) (TreeEdge cfg false) (addGoalRoot st.tGoal r.1) := by
      unfold addGoalRoot
      split
      · next x hx => exact (push_root_inv _ _ _ _ h.tG (hspec x hx)).1
      · exact h.tG
    simp only
    generalize addGoalRoot st.tGoal r.1 = tG' at hG ⊢
    split
    · exact ⟨h.tS, hG, h.approx, h.exact, Or.inr rfl⟩
    · exact ⟨h.tS, hG, h.approx, h.exact, h.status⟩
  · exact h

theorem rootsValid_spec (cfg : Cfg S D) (tS tG : Array (Node S)) (i j : Nat) (sm gm : Node S)
    (hs : tS[i]? = some sm) (hg : tG[j]? = some gm) (h : rootsValid cfg tS tG i j = true) :
    cfg.pairValid sm.root gm.root = true := by
  unfold rootsValid at h
  rw [hs, hg] at h
  exact h

theorem extend_inv (cfg : Cfg S D) (starts : Array S) (st : St S D) (side : Bool) (u : S)
    (h : StInv cfg starts st) : StInv cfg starts (extend cfg st side u) := by
  cases side with
  | true =>
    unfold extend
    simp only [if_true, Bool.not_true]
    obtain ⟨g1, g2, g3⟩ := grow_spec cfg (ValidStart cfg starts) true st.tStart u u 0 h.tS
    generalize growTree cfg st.tStart true u u 0 = g at g1 g2 g3
    have happ : ∀ i, st.approxsol = some i → ∃ nd, g.tree[i]? = some nd ∧ st.approxdif = cfg.goalDist nd.state := by
      intro i hi
      obtain ⟨nd, a, b⟩ := h.approx i hi
      exact ⟨nd, g2 i nd a, b⟩
    split
    · exact ⟨g1, h.tG, happ, h.exact, h.status⟩
    · next hnt =>
      obtain ⟨nlg, hg1, hg2⟩ := g3 hnt
      generalize hrs : (if g.gs = Grow.reached then u else g.xstate) = rstate at hg2
      obtain ⟨c1, c2, c3⟩ := grow_spec cfg (ValidGoal cfg) false st.tGoal rstate g.xstate g.xmotion h.tG
      generalize hc0 : growTree cfg st.tGoal false rstate g.xstate g.xmotion = c0 at c1 c2 c3
      obtain ⟨k1, k2, k3⟩ := connect_spec cfg (ValidGoal cfg) false rstate cfg.connectFuel c0 st.tGoal c1 c2 c3
      have hnadv : c0.gs = Grow.trapped → connectLoop cfg false rstate cfg.connectFuel c0 = c0 := by
        intro ht
        exact connectLoop_not_advanced cfg false rstate _ c0 (by rw [ht]; simp)
      generalize hc : connectLoop cfg false rstate cfg.connectFuel c0 = c at k1 k2 k3 hnadv
      by_cases hc0t : c0.gs = Grow.trapped
      · have hct : c.gs = Grow.trapped := by rw [hnadv hc0t]; exact hc0t
        have hd : decide (c.gs = Grow.reached) = false := by simp [hct]
        simp only [if_pos hc0t, if_true, hd, Bool.false_and, Bool.false_eq_true, if_false]
        split
        · exact ⟨g1, k1, happ, h.exact, h.status⟩
        · next xm hxm =>
          split
          · refine ⟨g1, k1, ?_, h.exact, h.status⟩
            intro i hi
            simp only [Option.some.injEq] at hi
            subst hi
            exact ⟨xm, hxm, rfl⟩
          · exact ⟨g1, k1, happ, h.exact, h.status⟩
      · simp only [if_neg hc0t, Bool.false_eq_true, if_false]
        split
        · next hreach =>
          simp only [Bool.and_eq_true, decide_eq_true_eq] at hreach
          obtain ⟨hr1, hr2⟩ := hreach
          obtain ⟨nlc, hk1, hk2⟩ := k3 hr1
          have hpair := rootsValid_spec cfg g.tree c.tree g.xmotion c.xmotion nlg nlc hg1 hk1 hr2
          refine ⟨g1, k1, happ, ?_, h.status⟩
          intro path hp
          simp only [Option.some.injEq] at hp
          subst hp
          exact exact_path cfg starts g.tree c.tree g1 k1 g.xmotion c.xmotion nlg nlc hg1 hk1 (by rw [hg2, hk2]) hpair
        · exact ⟨g1, k1, happ, h.exact, h.status⟩
  | false =>
    unfold extend
    simp only [Bool.false_eq_true, if_false, Bool.not_false]
    obtain ⟨g1, g2, g3⟩ := grow_spec cfg (ValidGoal cfg) false st.tGoal u u 0 h.tG
    generalize growTree cfg st.tGoal false u u 0 = g at g1 g2 g3
    split
    · exact ⟨h.tS, g1, h.approx, h.exact, h.status⟩
    · next hnt =>
      obtain ⟨nlg, hg1, hg2⟩ := g3 hnt
      generalize hrs : (if g.gs = Grow.reached then u else g.xstate) = rstate at hg2
      obtain ⟨c1, c2, c3⟩ := grow_spec cfg (ValidStart cfg starts) true st.tStart rstate g.xstate g.xmotion h.tS
      generalize hc0 : growTree cfg st.tStart true rstate g.xstate g.xmotion = c0 at c1 c2 c3
      obtain ⟨k1, k2, k3⟩ := connect_spec cfg (ValidStart cfg starts) true rstate cfg.connectFuel c0 st.tStart c1 c2 c3
      have hnadv : c0.gs = Grow.trapped → connectLoop cfg true rstate cfg.connectFuel c0 = c0 := by
        intro ht
        exact connectLoop_not_advanced cfg true rstate _ c0 (by rw [ht]; simp)
      generalize hc : connectLoop cfg true rstate cfg.connectFuel c0 = c at k1 k2 k3 hnadv
      have happ : ∀ i, st.approxsol = some i → ∃ nd, c.tree[i]? = some nd ∧ st.approxdif = cfg.goalDist nd.state := by
        intro i hi
        obtain ⟨nd, a, b⟩ := h.approx i hi
        exact ⟨nd, k2 i nd a, b⟩
      by_cases hc0t : c0.gs = Grow.trapped
      · have hct : c.gs = Grow.trapped := by rw [hnadv hc0t]; exact hc0t
        have hd : decide (c.gs = Grow.reached) = false := by simp [hct]
        simp only [if_pos hc0t, hd, Bool.false_and, Bool.false_eq_true, if_false]
        exact ⟨k1, g1, happ, h.exact, h.status⟩
      · simp only [if_neg hc0t, if_true]
        split
        · next hreach =>
          simp only [Bool.and_eq_true, decide_eq_true_eq] at hreach
          obtain ⟨hr1, hr2⟩ := hreach
          obtain ⟨nlc, hk1, hk2⟩ := k3 hr1
          have hpair := rootsValid_spec cfg c.tree g.tree c.xmotion g.xmotion nlc nlg hk1 hg1 hr2
          refine ⟨k1, g1, happ, ?_, h.status⟩
          intro path hp
          simp only [Option.some.injEq] at hp
          subst hp
          exact exact_path cfg starts c.tree g.tree k1 g1 c.xmotion g.xmotion nlc nlg hk1 hg1 (by rw [hg2, hk2]) hpair
        · split
          · exact ⟨k1, g1, happ, h.exact, h.status⟩
          · next xm hxm =>
            split
            · refine ⟨k1, g1, ?_, h.exact, h.status⟩
              intro i hi
              simp only [Option.some.injEq] at hi
              subst hi
              exact ⟨xm, hxm, rfl⟩
            · exact ⟨k1, g1, happ, h.exact, h.status⟩

theorem pre_inv (cfg : Cfg S D) (starts : Array S) (st st0 : St S D) (side : Bool)
    (h : StInv cfg starts st) (hp : pre cfg st = some (st0, side)) : StInv cfg starts st0 := by
  unfold pre at hp
  split at hp
  · simp at hp
  · simp only [Option.some.injEq, Prod.mk.injEq] at hp
    obtain ⟨rfl, _⟩ := hp
    apply sampleGoals_inv
    exact ⟨h.tS, h.tG, h.approx, h.exact, h.status⟩

theorem loop_inv (cfg : Cfg S D) (starts : Array S) (script : List S) :
    ∀ st : St S D, StInv cfg starts st → StInv cfg starts (loop cfg st script).1 := by
  induction script with
  | nil =>
    intro st h
    simp only [loop]
    split
    · exact h
    · next st0 side hp => exact pre_inv cfg starts st st0 side h hp
  | cons u rest ih =>
    intro st h
    simp only [loop]
    split
    · exact h
    · next st0 side hp =>
      have h0 := pre_inv cfg starts st st0 side h hp
      split
      · exact h0
      · split
        · exact extend_inv cfg starts st0 side u h0
        · exact ih _ (extend_inv cfg starts st0 side u h0)

theorem initTree_inv (cfg : Cfg S D) (starts : Array S) :
    TreeInv (ValidStart cfg starts) (TreeEdge cfg true) (initTree cfg starts).1 := by
  have hspec := (drainStarts_spec cfg.bounds cfg.valid starts (starts.size + 1) {}).1
  intro i nd h
  simp only [initTree, List.getElem?_toArray, List.getElem?_map, Option.map_eq_some_iff] at h
  obtain ⟨x, hx, rfl⟩ := h
  obtain ⟨hi, h1, h2, h3, _⟩ := hspec x (List.mem_of_getElem? hx)
  exact ⟨⟨x.1, hi, h1, h2, h3⟩, rfl⟩

theorem empty_inv (Root : S → Prop) (E : S → S → Prop) : TreeInv Root E (#[] : Array (Node S)) := by
  intro i nd h
  simp at h

/-- the state `RRTConnect::solve` ends its loop in satisfies the invariant -/
theorem solve_loop_inv (cfg : Cfg S D) (starts : Array S) (ptc : Nat) (startTree : Bool) (script : List S) :
    StInv cfg starts
      (loop cfg ⟨(initTree cfg starts).1, #[], startTree, (initTree cfg starts).2, ptc, none, cfg.inf, none, .timeout,
        false, false⟩ script).1 :=
  loop_inv cfg starts script _
    ⟨initTree_inv cfg starts, empty_inv _ _, fun i h => by simp at h, fun p h => by simp at h, Or.inl rfl⟩

theorem edge_strict (cfg : Cfg S D) (hni : cfg.addIntermediate = false) (x y : S) (h : Edge cfg x y) :
    cfg.checkMotion x y = true := by
  rcases h with h | ⟨h, _⟩
  · exact h
  · rw [hni] at h; exact absurd h (by simp)

end OmplModel.RRTConnect
