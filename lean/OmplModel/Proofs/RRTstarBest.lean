import OmplModel.Proofs.RRTstarInv
/-! `bestCost_` is the best goal motion's current cost in every reachable state (C04, round 5). -/
namespace OmplModel.RRTstar
open OmplModel.Soln (IsSWO)

variable {σ α δ : Type}

/-- the two further laws the incumbent bookkeeping needs: extending two costs by the same cost never
reverses "not better", and costs that do not beat each other are equal (a linear order). -/
structure Laws2 (o : Obj σ α) : Prop where
  base : Laws o
  mono : ∀ a a' c, o.better a a' = false → o.better (o.combine a c) (o.combine a' c) = false
  total : ∀ a b, o.better a b = false → o.better b a = false → a = b

/-- no motion of `ms` has a strictly better cost than the same motion in `ms'`. -/
def NotWorse (o : Obj σ α) (ms ms' : Ms σ α) : Prop :=
  ∀ (i : Nat) (m m' : Motion σ α), ms[i]? = some m → ms'[i]? = some m' → o.better m.cost m'.cost = false

def EqCost (ms ms' : Ms σ α) : Prop :=
  ∀ (i : Nat) (m m' : Motion σ α), ms[i]? = some m → ms'[i]? = some m' → m'.cost = m.cost

theorem NotWorse.refl {o : Obj σ α} (h : IsSWO o.better) (ms : Ms σ α) : NotWorse o ms ms := by
  intro i m m' hm hm'; rw [hm] at hm'; cases hm'; exact h.irrefl _

theorem EqCost.notWorse {o : Obj σ α} (h : IsSWO o.better) {ms ms' : Ms σ α} (he : EqCost ms ms') : NotWorse o ms ms' := by
  intro i m m' hm hm'; rw [he i m m' hm hm']; exact h.irrefl _

/-- costs only improve under an accepted rewiring. -/
theorem applyRewire_notWorse {o : Obj σ α} (L : Laws2 o) (s : St σ α δ) (x new : Nat) (xm nm : Motion σ α) (inc : α)
    (hT : TreeInv o s.motions) (hx : s.motions[x]? = some xm) (hn : s.motions[new]? = some nm)
    (hinc : inc = o.motionCost nm.state xm.state) (hb : o.better (o.combine nm.cost inc) xm.cost = true) :
    NotWorse o s.motions (applyRewire o s new x inc (o.combine nm.cost inc)).motions := by
  obtain ⟨hT4, _, _, hsh⟩ := applyRewire_treeInv L.base s x new xm nm inc hT hx hn hinc hb
  generalize (applyRewire o s new x inc (o.combine nm.cost inc)).motions = res at hT4 hsh ⊢
  obtain ⟨depth, F, hC, hR, hI⟩ := hT
  obtain ⟨depth4, F4, hC4, hR4, hI4⟩ := hT4
  have key : ∀ (n i : Nat) (m m4 : Motion σ α), depth4 i ≤ n → s.motions[i]? = some m → res[i]? = some m4 →
      o.better m.cost m4.cost = false := by
    intro n
    induction n with
    | zero =>
      intro i m m4 hd hm hm4
      obtain ⟨m4', hm4', hpar, hince⟩ := hsh i m hm
      rw [hm4] at hm4'; cases hm4'
      by_cases hxi : x = i
      · rw [if_pos hxi] at hpar
        have := F4.step_depth i new ⟨m4, hm4, hpar⟩
        omega
      · rw [if_neg hxi] at hpar
        cases hp : m.parent with
        | none =>
          rw [hR i m hm hp, hR4 i m4 hm4 (hpar.trans hp)]
          exact L.base.swo.irrefl _
        | some p =>
          have := F4.step_depth i p ⟨m4, hm4, hpar.trans hp⟩
          omega
    | succ n ih =>
      intro i m m4 hd hm hm4
      obtain ⟨m4', hm4', hpar, hince⟩ := hsh i m hm
      rw [hm4] at hm4'; cases hm4'
      by_cases hxi : x = i
      · subst hxi
        rw [if_pos rfl] at hpar hince
        rw [hx] at hm; cases hm
        obtain ⟨pm4, hpm4, hc4⟩ := hC4 x m4 new hm4 hpar
        have hd4 := F4.step_depth x new ⟨m4, hm4, hpar⟩
        have ih1 := ih new nm pm4 (by omega) hn hpm4
        have h1 := L.mono _ _ inc ih1
        have h2 := L.base.swo.asymm _ _ hb
        rw [hc4, hince]
        exact L.base.swo.incomp_trans h2 h1
      · rw [if_neg hxi] at hpar hince
        cases hp : m.parent with
        | none =>
          rw [hR i m hm hp, hR4 i m4 hm4 (hpar.trans hp)]
          exact L.base.swo.irrefl _
        | some p =>
          obtain ⟨pm, hpm, hc⟩ := hC i m p hm hp
          obtain ⟨pm4, hpm4, hc4⟩ := hC4 i m4 p hm4 (hpar.trans hp)
          have hd4 := F4.step_depth i p ⟨m4, hm4, hpar.trans hp⟩
          have ih1 := ih p pm pm4 (by omega) hpm hpm4
          rw [hc, hc4, hince]
          exact L.mono _ _ _ ih1
  intro i m m4 hm hm4
  exact key (depth4 i) i m m4 (le_refl _) hm hm4

/-- the second half of the rewiring loop's invariant: relative to the array right after the insertion, costs are
not worse, and unchanged as long as `checkForSolution` was not raised. -/
def RewInv2 (o : Obj σ α) (ms0 : Ms σ α) (acc : St σ α δ × Bool) : Prop :=
  NotWorse o ms0 acc.1.motions ∧ (acc.2 = false → EqCost ms0 acc.1.motions)

theorem rewireStep_inv2 {o : Obj σ α} (L : Laws2 o) (sp : Space σ δ) (valid : List (Nat × Int)) (i new ni : Nat) (ms0 : Ms σ α)
    (acc : St σ α δ × Bool) (mot nb : Motion σ α) (inc : α) (hJ : RewInv o ms0 acc.1) (hK : RewInv2 o ms0 acc)
    (hn : acc.1.motions[new]? = some mot) (hx : acc.1.motions[ni]? = some nb) (hinc : inc = o.motionCost mot.state nb.state)
    (hb : o.better (o.combine mot.cost inc) nb.cost = true) :
    RewInv2 o ms0 (match rewireCheck sp valid i acc.1 mot nb with
      | (true, s1) => (applyRewire o s1 new ni inc (o.combine mot.cost inc), true)
      | (false, s1) => (s1, acc.2)) := by
  have hc := rewireCheck_motions sp valid i acc.1 mot nb
  rcases h : rewireCheck sp valid i acc.1 mot nb with ⟨b, s1⟩
  rw [h] at hc
  simp only [] at hc
  cases b
  · exact ⟨by simp only []; rw [hc.1]; exact hK.1, by simp only []; rw [hc.1]; exact hK.2⟩
  · refine ⟨?_, fun h => by cases h⟩
    simp only []
    have hT1 : TreeInv o s1.motions := by rw [hc.1]; exact hJ.1
    have hnw := applyRewire_notWorse L s1 ni new nb mot inc hT1 (by rw [hc.1]; exact hx) (by rw [hc.1]; exact hn) hinc hb
    intro j m0 m4 hm0 hm4
    have hlt : j < acc.1.motions.size := by rw [hJ.2.1.1]; exact lt_of_get hm0
    obtain ⟨m, hm⟩ := get_of_lt hlt
    exact L.base.swo.incomp_trans (hK.1 j m0 m hm0 hm) (hnw j m m4 (by rw [hc.1]; exact hm) hm4)

theorem rewireOne_inv2 {o : Obj σ α} (L : Laws2 o) (sp : Space σ δ) (new : Nat) (valid : List (Nat × Int)) (incs : List α)
    (ms0 : Ms σ α) (dstate : σ) (acc : St σ α δ × Bool) (p : Nat × Nat) (hJ : RewInv o ms0 acc.1) (hK : RewInv2 o ms0 acc)
    (hnew : ∃ m0, ms0[new]? = some m0 ∧ m0.state = dstate)
    (hincs : ∀ nb0 : Motion σ α, ms0[p.2]? = some nb0 → incs.getD p.1 o.identity = o.motionCost nb0.state dstate) :
    RewInv2 o ms0 (rewireOne o sp new valid incs acc p) := by
  unfold rewireOne
  split
  · rename_i mot nb hmot hnb
    split
    · exact hK
    · split
      · rename_i hb
        refine rewireStep_inv2 L sp valid p.1 new p.2 ms0 acc mot nb _ hJ hK hmot hnb ?_ hb
        unfold rewireInc
        split
        · rename_i hsym
          obtain ⟨m0, hm0, hst0⟩ := hnew
          obtain ⟨m', hm', hs'⟩ := hJ.2.1.2 new m0 hm0
          rw [hmot] at hm'; cases hm'
          have hlt : p.2 < ms0.size := by rw [← hJ.2.1.1]; exact lt_of_get hnb
          obtain ⟨nb0, hnb0⟩ := get_of_lt hlt
          obtain ⟨nb', hnb', hsn⟩ := hJ.2.1.2 p.2 nb0 hnb0
          rw [hnb] at hnb'; cases hnb'
          rw [hincs nb0 hnb0, ← hsn, ← hst0, ← hs']
          exact L.base.sym hsym _ _
        · rfl
      · exact hK
  · exact hK

theorem foldl_rewireOne_inv2 {o : Obj σ α} (L : Laws2 o) (sp : Space σ δ) (new : Nat) (valid : List (Nat × Int)) (incs : List α)
    (ms0 : Ms σ α) (dstate : σ) (hnew : ∃ m0, ms0[new]? = some m0 ∧ m0.state = dstate) :
    ∀ (l : List (Nat × Nat)) (acc : St σ α δ × Bool), RewInv o ms0 acc.1 → RewInv2 o ms0 acc →
      (∀ p ∈ l, ∀ nb0 : Motion σ α, ms0[p.2]? = some nb0 → incs.getD p.1 o.identity = o.motionCost nb0.state dstate) →
      RewInv2 o ms0 (l.foldl (rewireOne o sp new valid incs) acc) := by
  intro l
  induction l with
  | nil => intro acc _ h _; exact h
  | cons p rest ih =>
    intro acc hJ hK hincs
    simp only [List.foldl_cons]
    exact ih _ (rewireOne_inv L.base sp new valid incs ms0 dstate acc p hJ hnew (hincs p (by simp)))
      (rewireOne_inv2 L sp new valid incs ms0 dstate acc p hJ hK hnew (hincs p (by simp)))
      (fun p' hp' => hincs p' (by simp [hp']))

/-! ### `goalMotions_` is only touched by the goal test -/

theorem checkMotion_goals (s : St σ α δ) (a b : σ) : (s.checkMotion a b).2.goalMotions = s.goalMotions := by
  unfold St.checkMotion
  cases s.answers <;> rfl

theorem chooseParent_goals (sp : Space σ δ) (ms : Ms σ α) (nmotion : Nat) (x : σ)
    (cands : List (Nat × Nat)) (s : St σ α δ) (valid : List (Nat × Int)) :
    (chooseParent sp ms nmotion x cands s valid).2.2.goalMotions = s.goalMotions := by
  induction cands generalizing s valid with
  | nil => rfl
  | cons c rest ih =>
    obtain ⟨i, mi⟩ := c
    unfold chooseParent
    split
    · rfl
    · split
      · exact ih _ _
      · split
        · simp only []
          split
          · exact checkMotion_goals _ _ _
          · exact (ih _ _).trans (checkMotion_goals _ _ _)
        · exact ih _ _

theorem rewireCheck_goals (sp : Space σ δ) (valid : List (Nat × Int)) (i : Nat) (s : St σ α δ) (mot nb : Motion σ α) :
    (rewireCheck sp valid i s mot nb).2.goalMotions = s.goalMotions := by
  unfold rewireCheck
  split
  · split
    · exact checkMotion_goals _ _ _
    · rfl
  · rfl

theorem rewireOne_goals (o : Obj σ α) (sp : Space σ δ) (new : Nat) (valid : List (Nat × Int)) (incs : List α)
    (acc : St σ α δ × Bool) (p : Nat × Nat) : (rewireOne o sp new valid incs acc p).1.goalMotions = acc.1.goalMotions := by
  unfold rewireOne
  split
  · rename_i mot nb _ _
    split
    · rfl
    · split
      · have hc := rewireCheck_goals sp valid p.1 acc.1 mot nb
        rcases h : rewireCheck sp valid p.1 acc.1 mot nb with ⟨b, s1⟩
        rw [h] at hc
        cases b
        · exact hc
        · exact hc
      · rfl
  · rfl

theorem foldl_rewireOne_goals (o : Obj σ α) (sp : Space σ δ) (new : Nat) (valid : List (Nat × Int)) (incs : List α)
    (l : List (Nat × Nat)) (acc : St σ α δ × Bool) :
    (l.foldl (rewireOne o sp new valid incs) acc).1.goalMotions = acc.1.goalMotions := by
  induction l generalizing acc with
  | nil => rfl
  | cons p rest ih =>
    simp only [List.foldl_cons]
    exact (ih _).trans (rewireOne_goals o sp new valid incs acc p)

theorem drawSample_goals (sp : Space σ δ) (s : St σ α δ) : (drawSample sp s).2.goalMotions = s.goalMotions := by
  unfold drawSample
  split
  · split
    · rfl
    · simp only []
      split
      · rfl
      · split <;> rfl
  · split <;> rfl

/-! ### what `grow` does to the old motions -/

theorem grow_facts {o : Obj σ α} (L : Laws2 o) (sp : Space σ δ) (s : St σ α δ) (nmotion : Nat) (nm : Motion σ α) (dstate : σ)
    (hT : StInv o s) (hnm : s.motions[nmotion]? = some nm)
    (hcl : sp.delayCC = false → sp.classicOld = true → (growInsert o sp s nmotion nm dstate).st.staleInc = false) :
    NotWorse o s.motions (grow o sp s nmotion nm dstate).1.motions ∧
    ((grow o sp s nmotion nm dstate).2.2 = false → EqCost s.motions (grow o sp s nmotion nm dstate).1.motions) ∧
    (grow o sp s nmotion nm dstate).1.motions.size = s.motions.size + 1 ∧
    (grow o sp s nmotion nm dstate).2.1 = s.motions.size ∧
    (grow o sp s nmotion nm dstate).1.goalMotions = s.goalMotions := by
  obtain ⟨⟨s1, par, pm, cost, inc, t, hst, hnew, hm1, hf1, hg1, hpm, hinc, hcost⟩, hlt, hincs0⟩ :=
    growInsert_ok (o := o) sp s nmotion nm dstate hnm hcl
  have hT1 : StInv o s1 := ⟨by rw [hm1]; exact hT.1, by rw [hf1]; exact hT.2⟩
  have hpl : par < s1.motions.size := by rw [hm1]; exact lt_of_get hpm
  have hins := insertMotion_inv (o := o) s1 dstate par pm cost inc t hT1 (by rw [hm1]; exact hpm) hinc hcost
  -- the old entries of the array right after the insertion
  have hold : ∀ (i : Nat) (m : Motion σ α), s.motions[i]? = some m →
      ∃ m', (insertMotion s1 dstate par cost inc t).motions[i]? = some m' ∧ m'.cost = m.cost := by
    intro i m hm
    have hne : i ≠ s1.motions.size := by rw [hm1]; have := lt_of_get hm; omega
    refine ⟨if par = i then { m with children := m.children ++ [s1.motions.size] } else m, ?_, by split <;> rfl⟩
    show ((s1.motions.push _).modify par _)[i]? = _
    rw [insert_get s1.motions _ par hpl, if_neg hne, hm1, hm]
    rfl
  have hsz0 : (insertMotion s1 dstate par cost inc t).motions.size = s.motions.size + 1 := by
    show ((s1.motions.push _).modify par _).size = _
    simp [hm1]
  have hg0 : (insertMotion s1 dstate par cost inc t).goalMotions = s.goalMotions := hg1
  unfold grow
  simp only []
  generalize growInsert o sp s nmotion nm dstate = g at hst hnew hlt hincs0
  rw [hst, hnew]
  generalize insertMotion s1 dstate par cost inc t = st0 at hins hold hsz0 hg0 ⊢
  have hJ0 : RewInv o st0.motions st0 := ⟨hins.1.1, SameStates.refl _, hins.1.2⟩
  have hK0 : RewInv2 o st0.motions (st0, false) :=
    ⟨NotWorse.refl L.base.swo _, fun _ i m m' hm hm' => by rw [hm] at hm'; cases hm'; rfl⟩
  have hincs : ∀ p ∈ g.nbhP, ∀ nb0 : Motion σ α, st0.motions[p.2]? = some nb0 →
      g.incs.getD p.1 o.identity = o.motionCost nb0.state dstate := by
    intro p hp nb0 hnb0
    have hp2 : p.2 < s.motions.size := hlt p hp
    obtain ⟨m, hm⟩ := get_of_lt hp2
    obtain ⟨m', hm', hs'⟩ := hins.2.2 p.2 m (by rw [hm1]; exact hm)
    rw [hnb0] at hm'; cases hm'
    rw [hincs0 p hp m hm, hs']
  have hfold := foldl_rewireOne_inv L.base sp s1.motions.size g.valid g.incs st0.motions dstate
    hins.2.1 g.nbhP (st0, false) hJ0 hincs
  have hfold2 := foldl_rewireOne_inv2 L sp s1.motions.size g.valid g.incs st0.motions dstate
    hins.2.1 g.nbhP (st0, false) hJ0 hK0 hincs
  have hgl := foldl_rewireOne_goals o sp s1.motions.size g.valid g.incs g.nbhP (st0, false)
  generalize List.foldl (rewireOne o sp s1.motions.size g.valid g.incs) (st0, false) g.nbhP = r at hfold hfold2 hgl ⊢
  refine ⟨?_, ?_, by rw [hfold.2.1.1, hsz0], by rw [hm1], hgl.trans hg0⟩
  · intro i m m' hm hm'
    obtain ⟨m0, hm0, hc0⟩ := hold i m hm
    have := hfold2.1 i m0 m' hm0 hm'
    rw [hc0] at this
    exact this
  · intro hfl i m m' hm hm'
    obtain ⟨m0, hm0, hc0⟩ := hold i m hm
    rw [hfold2.2 hfl i m0 m' hm0 hm', hc0]

/-! ### `updateBest` re-synchronises the incumbent -/

/-- `bestCost_` is the best goal motion's current cost (the infinite cost when there is none). -/
def Sync (o : Obj σ α) (s : St σ α δ) : Prop :=
  match s.bestGoal with
  | none => s.bestCost = o.infinite
  | some g => ∃ gm : Motion σ α, s.motions[g]? = some gm ∧ gm.cost = s.bestCost

/-- loop invariant: synchronised already, or the best goal motion is still ahead in the list and its current cost is
not worse than `bestCost_`. -/
def Pending (o : Obj σ α) (s : St σ α δ) (rest : List Nat) : Prop :=
  match s.bestGoal with
  | none => s.bestCost = o.infinite
  | some g => ∃ gm : Motion σ α, s.motions[g]? = some gm ∧
      (gm.cost = s.bestCost ∨ (g ∈ rest ∧ o.better s.bestCost gm.cost = false))

theorem updateBest_loop_sync {o : Obj σ α} (L : Laws2 o) : ∀ (rest : List Nat) (s : St σ α δ),
    Pending o s rest → Sync o (updateBest.loop o s rest) := by
  intro rest
  induction rest with
  | nil =>
    intro s hP
    unfold updateBest.loop
    unfold Pending at hP
    unfold Sync
    cases hb : s.bestGoal with
    | none => rw [hb] at hP; exact hP
    | some g =>
      rw [hb] at hP
      obtain ⟨gm, hgm, h | h⟩ := hP
      · exact ⟨gm, hgm, h⟩
      · simp at h
  | cons h t ih =>
    intro s hP
    unfold updateBest.loop
    split
    · rename_i hm hhm
      split
      · -- update to h: synchronised exactly
        simp only []
        have hP' : Pending o ({ s with bestGoal := some h, bestCost := hm.cost } : St σ α δ) t :=
          ⟨hm, hhm, Or.inl rfl⟩
        split
        · exact ⟨hm, hhm, rfl⟩
        · exact ih _ hP'
      · rename_i hnb
        apply ih
        unfold Pending at hP ⊢
        cases hb : s.bestGoal with
        | none => rw [hb] at hP; exact hP
        | some g =>
          rw [hb] at hP
          obtain ⟨gm, hgm, hc | ⟨hmem, hnw⟩⟩ := hP
          · exact ⟨gm, hgm, Or.inl hc⟩
          · rcases List.mem_cons.mp hmem with rfl | hmem'
            · rw [hhm] at hgm
              have hgm' : hm = gm := Option.some.inj hgm
              have : o.better gm.cost s.bestCost = false := by
                cases hq : o.better gm.cost s.bestCost with
                | false => rfl
                | true => rw [← hgm'] at hq; exact absurd hq hnb
              exact ⟨hm, hhm, Or.inl (by rw [hgm']; exact L.total _ _ this hnw)⟩
            · exact ⟨gm, hgm, Or.inr ⟨hmem', hnw⟩⟩
    · rename_i hnone
      apply ih
      unfold Pending at hP ⊢
      cases hb : s.bestGoal with
      | none => rw [hb] at hP; exact hP
      | some g =>
        rw [hb] at hP
        obtain ⟨gm, hgm, hc | ⟨hmem, hnw⟩⟩ := hP
        · exact ⟨gm, hgm, Or.inl hc⟩
        · rcases List.mem_cons.mp hmem with rfl | hmem'
          · rw [hnone] at hgm; cases hgm
          · exact ⟨gm, hgm, Or.inr ⟨hmem', hnw⟩⟩

theorem updateBest_loop_mem (o : Obj σ α) : ∀ (rest : List Nat) (s : St σ α δ),
    (updateBest.loop o s rest).bestGoal = s.bestGoal ∨ ∃ g ∈ rest, (updateBest.loop o s rest).bestGoal = some g := by
  intro rest
  induction rest with
  | nil => intro s; left; unfold updateBest.loop; rfl
  | cons h t ih =>
    intro s
    unfold updateBest.loop
    split
    · rename_i hm _
      split
      · simp only []
        split
        · exact Or.inr ⟨h, by simp, rfl⟩
        · rcases ih { s with bestGoal := some h, bestCost := hm.cost } with h1 | ⟨g, hg, h1⟩
          · exact Or.inr ⟨h, by simp, h1⟩
          · exact Or.inr ⟨g, by simp [hg], h1⟩
      · rcases ih s with h1 | ⟨g, hg, h1⟩
        · exact Or.inl h1
        · exact Or.inr ⟨g, by simp [hg], h1⟩
    · rcases ih s with h1 | ⟨g, hg, h1⟩
      · exact Or.inl h1
      · exact Or.inr ⟨g, by simp [hg], h1⟩

theorem updateBest_loop_goals (o : Obj σ α) : ∀ (rest : List Nat) (s : St σ α δ),
    (updateBest.loop o s rest).goalMotions = s.goalMotions := by
  intro rest
  induction rest with
  | nil => intro s; unfold updateBest.loop; rfl
  | cons h t ih =>
    intro s
    unfold updateBest.loop
    split
    · split
      · simp only []
        split
        · rfl
        · exact ih _
      · exact ih _
    · exact ih _

/-- the incumbent invariant of a planner state. -/
def BInv (o : Obj σ α) (s : St σ α δ) : Prop :=
  Sync o s ∧ ∀ g : Nat, s.bestGoal = some g → g ∈ s.goalMotions

/-- before `updateBest`: the best goal motion (if any) is in the list and its current cost is not worse than `bestCost_`. -/
def PreSync (o : Obj σ α) (s : St σ α δ) : Prop :=
  match s.bestGoal with
  | none => s.bestCost = o.infinite
  | some g => g ∈ s.goalMotions ∧ ∃ gm : Motion σ α, s.motions[g]? = some gm ∧ o.better s.bestCost gm.cost = false

theorem updateBest_binv {o : Obj σ α} (L : Laws2 o) (s : St σ α δ) (hP : PreSync o s) : BInv o (updateBest o s) := by
  unfold updateBest
  split
  · rename_i g rest hb hg
    split
    · rename_i gm hgm
      exact ⟨⟨gm, hgm, rfl⟩, fun g' h => by simp at h; subst h; rw [hg]; simp⟩
    · refine ⟨?_, fun g' h => by rw [hb] at h; cases h⟩
      unfold Sync; unfold PreSync at hP
      rw [hb] at hP ⊢
      exact hP
  · have hPend : Pending o s s.goalMotions := by
      unfold Pending; unfold PreSync at hP
      cases hb : s.bestGoal with
      | none => rw [hb] at hP; exact hP
      | some g =>
        rw [hb] at hP
        obtain ⟨hmem, gm, hgm, hnw⟩ := hP
        exact ⟨gm, hgm, Or.inr ⟨hmem, hnw⟩⟩
    refine ⟨updateBest_loop_sync L _ s hPend, ?_⟩
    intro g hg
    rw [updateBest_loop_goals]
    rcases updateBest_loop_mem o s.goalMotions s with h1 | ⟨g', hg', h1⟩
    · rw [h1] at hg
      unfold PreSync at hP
      rw [hg] at hP
      exact hP.1
    · rw [h1] at hg; cases hg; exact hg'

/-! ### every loop pass keeps the incumbent synchronised -/

theorem BInv.of_same {o : Obj σ α} {s s' : St σ α δ} (hm : s'.motions = s.motions) (hb : SameBest s s')
    (hg : s'.goalMotions = s.goalMotions) (h : BInv o s) : BInv o s' := by
  obtain ⟨hs, hmem⟩ := h
  refine ⟨?_, fun g hg' => by rw [hg]; exact hmem g (hb.2 ▸ hg')⟩
  unfold Sync at hs ⊢
  rw [hb.2, hb.1, hm]
  exact hs

/-- the state `r1` after `grow`, seen from the state `s` before it. -/
structure Grew (o : Obj σ α) (s r1 : St σ α δ) (chk : Bool) : Prop where
  nw : NotWorse o s.motions r1.motions
  eq : chk = false → EqCost s.motions r1.motions
  size : r1.motions.size = s.motions.size + 1
  goals : r1.goalMotions = s.goalMotions
  best : SameBest s r1

theorem Grew.preSync {o : Obj σ α} {s r1 : St σ α δ} {chk : Bool} (G : Grew o s r1 chk) (h : BInv o s)
    (sg : St σ α δ) (hbest : SameBest r1 sg) (hgoals : ∀ g ∈ r1.goalMotions, g ∈ sg.goalMotions)
    (hcost : ∀ (i : Nat) (m : Motion σ α), r1.motions[i]? = some m → ∃ m', sg.motions[i]? = some m' ∧ m'.cost = m.cost) :
    PreSync o sg := by
  obtain ⟨hs, hmem⟩ := h
  unfold PreSync
  unfold Sync at hs
  rw [hbest.2, G.best.2, hbest.1, G.best.1]
  cases hb : s.bestGoal with
  | none => rw [hb] at hs; exact hs
  | some g =>
    rw [hb] at hs
    obtain ⟨gm, hgm, hc⟩ := hs
    have hlt : g < r1.motions.size := by rw [G.size]; have := lt_of_get hgm; omega
    obtain ⟨gm1, hgm1⟩ := get_of_lt hlt
    obtain ⟨gm', hgm', hc'⟩ := hcost g gm1 hgm1
    refine ⟨hgoals g (by rw [G.goals]; exact hmem g hb), gm', hgm', ?_⟩
    rw [hc', ← hc]
    exact G.nw g gm gm1 hgm hgm1

theorem finishIter_binv {o : Obj σ α} (L : Laws2 o) (sp : Space σ δ) (s r1 : St σ α δ) (new : Nat) (chk : Bool) (dstate : σ)
    (G : Grew o s r1 chk) (h : BInv o s) : BInv o (finishIter o sp r1 new chk dstate) := by
  unfold finishIter
  have happrox : ∀ s' : St σ α δ, BInv o s' → BInv o (approxStep sp s' new dstate) := by
    intro s' h'
    unfold approxStep
    split
    · exact BInv.of_same rfl ⟨rfl, rfl⟩ rfl h'
    · exact h'
  apply happrox
  unfold goalStep
  split
  · -- a new goal motion: checkForSolution
    unfold bestStep
    simp only [if_true]
    apply updateBest_binv L
    refine G.preSync h _ ⟨rfl, rfl⟩ (fun g hg => by simp [hg]) ?_
    intro i m hm
    show ∃ m', (r1.motions.modify new _)[i]? = some m' ∧ m'.cost = m.cost
    rw [Array.getElem?_modify]
    by_cases hni : new = i
    · exact ⟨{ m with inGoal := true }, by simp [hni, hm], rfl⟩
    · exact ⟨m, by simp [hni, hm], rfl⟩
  · unfold bestStep
    simp only []
    split
    · apply updateBest_binv L
      exact G.preSync h r1 ⟨rfl, rfl⟩ (fun g hg => hg) (fun i m hm => ⟨m, hm, rfl⟩)
    · -- nothing was rewired and no goal was reached: the old motions kept their costs
      rename_i hchk
      have hchk' : chk = false := by cases chk <;> simp_all
      obtain ⟨hs, hmem⟩ := h
      refine ⟨?_, fun g hg => by rw [G.goals]; exact hmem g (G.best.2 ▸ hg)⟩
      unfold Sync at hs ⊢
      rw [G.best.2, G.best.1]
      cases hb : s.bestGoal with
      | none => rw [hb] at hs; exact hs
      | some g =>
        rw [hb] at hs
        obtain ⟨gm, hgm, hc⟩ := hs
        have hlt : g < r1.motions.size := by rw [G.size]; have := lt_of_get hgm; omega
        obtain ⟨gm1, hgm1⟩ := get_of_lt hlt
        exact ⟨gm1, hgm1, by rw [G.eq hchk' g gm gm1 hgm hgm1]; exact hc⟩

theorem iterate_binv {o : Obj σ α} (L : Laws2 o) (sp : Space σ δ) (s : St σ α δ) (hT : StInv o s) (h : BInv o s)
    (hcl : sp.delayCC = false → sp.classicOld = true → (iterate o sp s).staleInc = false) :
    BInv o (iterate o sp s) := by
  unfold iterate at hcl ⊢
  have h0m : ({ s with iterations := s.iterations + 1, queries := [] } : St σ α δ).motions = s.motions := rfl
  have d1 := drawSample_motions sp ({ s with iterations := s.iterations + 1, queries := [] } : St σ α δ)
  have d2 := drawSample_sameBest sp ({ s with iterations := s.iterations + 1, queries := [] } : St σ α δ)
  have d3 := drawSample_goals sp ({ s with iterations := s.iterations + 1, queries := [] } : St σ α δ)
  simp only [] at hcl ⊢
  split
  · rename_i s1 hd
    rw [hd] at d1 d2 d3
    exact BInv.of_same d1.1 d2 d3 h
  · rename_i rstate s1 hd
    rw [hd] at d1 d2 d3 hcl
    simp only [] at hcl
    have h1 : BInv o s1 := BInv.of_same d1.1 d2 d3 h
    have hT1 : StInv o s1 := ⟨by rw [d1.1]; exact hT.1, by rw [d1.2]; exact hT.2⟩
    split
    · exact h1
    · rename_i nmotion hn
      rw [hn] at hcl
      simp only [] at hcl
      split
      · exact h1
      · rename_i nm hnm
        rw [hnm] at hcl
        simp only [] at hcl
        have c1 := checkMotion_motions s1 nm.state (steerTo sp nm rstate)
        have c2 := checkMotion_sameBest s1 nm.state (steerTo sp nm rstate)
        have c3 := checkMotion_goals s1 nm.state (steerTo sp nm rstate)
        split
        · rename_i s2 hc
          rw [hc] at c1 c2 c3
          exact BInv.of_same c1.1 c2 c3 h1
        · rename_i s2 hc
          rw [hc] at c1 c2 c3 hcl
          simp only [] at hcl
          have h2 : BInv o s2 := BInv.of_same c1.1 c2 c3 h1
          have hT2 : StInv o s2 := ⟨by rw [c1.1]; exact hT1.1, by rw [c1.2]; exact hT1.2⟩
          have hf := grow_facts L sp s2 nmotion nm (steerTo sp nm rstate) hT2 (by rw [c1.1]; exact hnm)
            (fun hd ho => by rw [← grow_finish_stale]; exact hcl hd ho)
          exact finishIter_binv L sp s2 _ _ _ _
            ⟨hf.1, hf.2.1, hf.2.2.1, hf.2.2.2.2, grow_sameBest o sp s2 nmotion nm (steerTo sp nm rstate)⟩ h2

theorem init_binv (o : Obj σ α) (sp : Space σ δ) : BInv o (St.init o sp : St σ α δ) :=
  ⟨rfl, fun g h => by simp [St.init] at h⟩

theorem applyOp_binv {o : Obj σ α} (L : Laws2 o) (sp : Space σ δ) (s : St σ α δ) (op : Op σ δ) (hT : StInv o s) (h : BInv o s)
    (hcl : sp.delayCC = false → sp.classicOld = true → (applyOp o sp s op).staleInc = false) :
    BInv o (applyOp o sp s op) := by
  cases op with
  | start x =>
    obtain ⟨hs, hmem⟩ := h
    refine ⟨?_, hmem⟩
    unfold Sync at hs ⊢
    show match s.bestGoal with
      | none => s.bestCost = o.infinite
      | some g => ∃ gm : Motion σ α, (s.motions.push _)[g]? = some gm ∧ gm.cost = s.bestCost
    cases hb : s.bestGoal with
    | none => rw [hb] at hs; exact hs
    | some g =>
      rw [hb] at hs
      obtain ⟨gm, hgm, hc⟩ := hs
      refine ⟨gm, ?_, hc⟩
      rw [Array.getElem?_push, if_neg (by have := lt_of_get hgm; omega)]
      exact hgm
  | feed us xs as => exact BInv.of_same rfl ⟨rfl, rfl⟩ rfl h
  | beginSolve => exact BInv.of_same rfl ⟨rfl, rfl⟩ rfl h
  | iter => exact iterate_binv L sp s hT h hcl

theorem run_binv {o : Obj σ α} (L : Laws2 o) (sp : Space σ δ) (s : St σ α δ) (ops : List (Op σ δ)) (hT : StInv o s) (h : BInv o s)
    (hc : Clean o sp s ops) : BInv o (run o sp s ops) := by
  induction ops generalizing s with
  | nil => exact h
  | cons op rest ih => exact ih _ (applyOp_inv L.base sp s op hT hc.head) (applyOp_binv L sp s op hT h hc.head) hc.tail

end OmplModel.RRTstar
