import OmplModel.Model.Rng
/-!
Helper lemmas for C20 (core Lean only; no arithmetic law of `Float` is used anywhere).

* `uidRaw_le`            — the accepted value of libstdc++'s upscaling loop is within the requested range
* `seeds_congr`          — the local seeds handed out depend on `sGen_` only (not on `firstSeed_`)
* `Sim` / `step_sim`     — two `RNG` objects that differ only in a *stale* `_M_saved` are indistinguishable
-/
namespace OmplModel.Rng

/-! ### seed generator -/

theorem uidRaw_le (fuel : Nat) (g : Swc) (v : Nat) (g' : Swc)
    (h : uidRaw fuel 999999999 g = some (v, g')) : v ≤ 999999999 := by
  induction fuel generalizing g with
  | zero => simp [uidRaw] at h
  | succ n ih =>
    unfold uidRaw at h
    have h1 : ¬ (swcMax > 999999999) := by decide
    have h2 : swcMax < 999999999 := by decide
    simp only [h1, h2, if_false, if_true] at h
    split at h
    · simp at h
    · rename_i hi g1 _
      split at h
      · exact ih _ h
      · rename_i hc
        simp only [Option.some.injEq, Prod.mk.injEq] at h
        omega

theorem drawSeed_range (g : Swc) (v : Nat) (g' : Swc) (h : drawSeed g = some (v, g')) :
    1 ≤ v ∧ v ≤ 1000000000 := by
  unfold drawSeed at h
  have e : seedHi - seedLo = 999999999 := by decide
  rw [e] at h
  split at h
  · simp at h
  · rename_i r g1 hr
    have := uidRaw_le _ _ _ _ hr
    simp only [Option.some.injEq, Prod.mk.injEq, seedLo] at h
    omega

theorem nextSeed_sGen_congr (g₁ g₂ : SeedGen) (h : g₁.sGen = g₂.sGen) :
    g₁.nextSeed.1 = g₂.nextSeed.1 ∧ g₁.nextSeed.2.sGen = g₂.nextSeed.2.sGen := by
  unfold SeedGen.nextSeed
  rw [h]
  split <;> simp

theorem seeds_congr (n : Nat) (g₁ g₂ : SeedGen) (h : g₁.sGen = g₂.sGen) :
    SeedGen.seeds n g₁ = SeedGen.seeds n g₂ := by
  induction n generalizing g₁ g₂ with
  | zero => rfl
  | succ n ih =>
    have := nextSeed_sGen_congr g₁ g₂ h
    simp only [SeedGen.seeds]
    rw [this.1, ih _ _ this.2]

theorem nextSeed_started (g : SeedGen) : g.nextSeed.2.someSeedsGenerated = true := by
  unfold SeedGen.nextSeed
  split <;> rfl

theorem nextSeed_firstSeed (g : SeedGen) : g.nextSeed.2.firstSeed = g.firstSeed := by
  unfold SeedGen.nextSeed
  split <;> rfl

/-! ### one `RNG` object: the stale saved value is never read -/

/-- equal in everything the code can observe: `_M_saved` is compared only while `_M_saved_available`. -/
def Sim (a b : Rng) : Prop :=
  a.localSeed = b.localSeed ∧ a.gen = b.gen ∧ a.savedAvail = b.savedAvail ∧
    (a.savedAvail = true → a.saved = b.saved)

theorem Sim.refl (a : Rng) : Sim a a := ⟨rfl, rfl, rfl, fun _ => rfl⟩

theorem normal_sim {a b : Rng} (h : Sim a b) :
    a.normal.1 = b.normal.1 ∧ Sim a.normal.2 b.normal.2 := by
  obtain ⟨h1, h2, h3, h4⟩ := h
  unfold Rng.normal
  cases hs : a.savedAvail with
  | true =>
    have hb : b.savedAvail = true := by rw [← h3, hs]
    have := h4 hs
    simp only [hb, if_true, this]
    exact ⟨trivial, h1, h2, rfl, fun h => by simp at h⟩
  | false =>
    have hb : b.savedAvail = false := by rw [← h3, hs]
    simp only [hb, Bool.false_eq_true, if_false, ← h2]
    split
    · exact ⟨rfl, h1, h2, by simp [hs, hb], by simp [hs]⟩
    · exact ⟨rfl, h1, rfl, rfl, fun _ => rfl⟩

theorem gaussian_sim {a b : Rng} (h : Sim a b) (m s : Float) :
    (a.gaussian m s).1 = (b.gaussian m s).1 ∧ Sim (a.gaussian m s).2 (b.gaussian m s).2 := by
  have := normal_sim h
  unfold Rng.gaussian
  exact ⟨by simp only [this.1], this.2⟩

theorem halfNormalReal_sim {a b : Rng} (h : Sim a b) (x y f : Float) :
    (a.halfNormalReal x y f).1 = (b.halfNormalReal x y f).1 ∧
      Sim (a.halfNormalReal x y f).2 (b.halfNormalReal x y f).2 := by
  have := gaussian_sim h (y - x) ((y - x) / f)
  unfold Rng.halfNormalReal
  exact ⟨by simp only [this.1], this.2⟩

theorem halfNormalInt_sim {a b : Rng} (h : Sim a b) (x y : Int) (f : Float) :
    (a.halfNormalInt x y f).1 = (b.halfNormalInt x y f).1 ∧
      Sim (a.halfNormalInt x y f).2 (b.halfNormalInt x y f).2 := by
  have := halfNormalReal_sim h (Float.ofInt x) (Float.ofInt y + 1.0) f
  unfold Rng.halfNormalInt
  exact ⟨by simp only [this.1], this.2⟩

/-- operations that only touch `generator_` -/
theorem genOnly_sim {a b : Rng} (h : Sim a b) (g : MT) :
    Sim { a with gen := g } { b with gen := g } :=
  ⟨h.1, rfl, h.2.2.1, h.2.2.2⟩

theorem step_sim {a b : Rng} (h : Sim a b) (op : Op) :
    (a.step op).1 = (b.step op).1 ∧ Sim (a.step op).2 (b.step op).2 := by
  have hg : a.gen = b.gen := h.2.1
  cases op with
  | uniform01 =>
    simp only [Rng.step, Rng.uniform01, hg]; exact ⟨trivial, genOnly_sim h _⟩
  | uniformReal lo hi =>
    simp only [Rng.step, Rng.uniformReal, hg]; exact ⟨trivial, genOnly_sim h _⟩
  | uniformInt lo hi =>
    simp only [Rng.step, Rng.uniformInt, Rng.uniformReal, hg]; exact ⟨rfl, genOnly_sim h _⟩
  | uniformBool =>
    simp only [Rng.step, Rng.uniformBool, hg]; exact ⟨trivial, genOnly_sim h _⟩
  | gaussian01 =>
    have := normal_sim h
    simp only [Rng.step]; exact ⟨by rw [this.1], this.2⟩
  | gaussian m s =>
    have := gaussian_sim h m s
    simp only [Rng.step]; exact ⟨by rw [this.1], this.2⟩
  | halfNormalReal x y f =>
    have := halfNormalReal_sim h x y f
    simp only [Rng.step]; exact ⟨by rw [this.1], this.2⟩
  | halfNormalInt x y f =>
    have := halfNormalInt_sim h x y f
    simp only [Rng.step]; exact ⟨by rw [this.1], this.2⟩
  | quaternion =>
    simp only [Rng.step, Rng.quaternion, hg]; exact ⟨trivial, genOnly_sim h _⟩
  | eulerRPY =>
    simp only [Rng.step, Rng.eulerRPY, hg]; exact ⟨trivial, genOnly_sim h _⟩
  | getLocalSeed =>
    simp only [Rng.step, h.1]; exact ⟨trivial, h⟩
  | setLocalSeed s =>
    simp only [Rng.step, Rng.setLocalSeed]
    exact ⟨trivial, rfl, rfl, rfl, fun h => by simp at h⟩

theorem run_sim {a b : Rng} (h : Sim a b) (ops : List Op) : a.run ops = b.run ops := by
  induction ops generalizing a b with
  | nil => rfl
  | cons op ops ih =>
    have := step_sim h op
    simp only [Rng.run]
    rw [this.1, ih this.2]

/-- after `setLocalSeed s` an `RNG` is indistinguishable from a freshly constructed `RNG(s)` — this is exactly
where `normalDist_.reset()` is needed: without it `savedAvail` could still be `true`. -/
theorem setLocalSeed_sim_create (r : Rng) (s : UInt64) : Sim (r.setLocalSeed s) (Rng.create s) :=
  ⟨rfl, rfl, rfl, fun h => by simp [Rng.setLocalSeed] at h⟩

theorem run_append (r : Rng) (xs ys : List Op) :
    r.run (xs ++ ys) = r.run xs ++ (r.after xs).run ys := by
  induction xs generalizing r with
  | nil => rfl
  | cons x xs ih => simp only [List.cons_append, Rng.run, Rng.after, ih]

theorem run_length (r : Rng) (xs : List Op) : (r.run xs).length = xs.length := by
  induction xs generalizing r with
  | nil => rfl
  | cons x xs ih => simp only [Rng.run, List.length_cons, ih]

end OmplModel.Rng

namespace OmplModel.Rng

/-! ### generators created in order -/

/-- `n` default-constructed `RNG()` objects, in order -/
def World.createN : Nat → World → World
  | 0, w => w
  | n + 1, w => World.createN n w.newRng.2

theorem newRng_congr (w₁ w₂ : World) (hs : w₁.sg.sGen = w₂.sg.sGen) (hr : w₁.rngs = w₂.rngs) :
    w₁.newRng.1 = w₂.newRng.1 ∧ w₁.newRng.2.sg.sGen = w₂.newRng.2.sg.sGen ∧
      w₁.newRng.2.rngs = w₂.newRng.2.rngs := by
  have h := nextSeed_sGen_congr w₁.sg w₂.sg hs
  simp only [World.newRng]
  rw [h.1]
  cases h2 : w₂.sg.nextSeed.1 with
  | none => exact ⟨rfl, h.2, hr⟩
  | some s => exact ⟨rfl, h.2, by simp only [hr]⟩

theorem createN_congr (n : Nat) (w₁ w₂ : World) (hs : w₁.sg.sGen = w₂.sg.sGen) (hr : w₁.rngs = w₂.rngs) :
    (World.createN n w₁).rngs = (World.createN n w₂).rngs := by
  induction n generalizing w₁ w₂ with
  | zero => exact hr
  | succ n ih =>
    have h := newRng_congr w₁ w₂ hs hr
    exact ih _ _ h.2.1 h.2.2

/-- the `i`-th seed does not depend on how many more are drawn afterwards -/
theorem seeds_getElem?_stable (n i : Nat) (g : SeedGen) (hi : i < n) :
    (SeedGen.seeds n g)[i]? = (SeedGen.seeds (i + 1) g)[i]? := by
  induction n generalizing i g with
  | zero => omega
  | succ n ih =>
    cases i with
    | zero => simp [SeedGen.seeds]
    | succ i =>
      simp only [SeedGen.seeds, List.getElem?_cons_succ]
      exact ih i _ (by omega)

end OmplModel.Rng

namespace OmplModel.Rng

/-! ### `ranlux24_base` stays within 24 bits -/


/-- well-formedness of a `ranlux24_base` state: 24-bit words, carry bit -/
def Swc.WF (g : Swc) : Prop := (∀ i, g.x.getD i 0 < swcWord) ∧ g.carry ≤ 1

theorem getD_push_lt (a : Array Nat) (v b : Nat) (ha : ∀ i, a.getD i 0 < b) (hv : v < b) :
    ∀ i, (a.push v).getD i 0 < b := by
  intro i
  have := ha i
  simp only [Array.getD_eq_getD_getElem?, Array.getElem?_push] at *
  split
  · simpa using hv
  · exact this

theorem swcFill_lt (n l : Nat) (acc : Array Nat) (h : ∀ i, acc.getD i 0 < swcWord) :
    ∀ i, (swcFill n l acc).getD i 0 < swcWord := by
  induction n generalizing l acc with
  | zero => exact h
  | succ n ih =>
    simp only [swcFill]
    apply ih
    apply getD_push_lt _ _ _ h
    exact Nat.mod_lt _ (by decide)

theorem ite01 (p : Prop) [Decidable p] : (if p then 1 else 0) ≤ 1 := by split <;> omega

theorem Swc.seed_WF (v : UInt64) : (Swc.seed v).WF := by
  refine ⟨?_, ?_⟩
  · simp only [Swc.seed]
    apply swcFill_lt
    intro i; simp [swcWord]
  · simp only [Swc.seed]
    exact ite01 _

theorem swcStep_lt (a b c : Nat) (ha : a < swcWord) (hb : b < swcWord) (hc : c ≤ 1) :
    (if a ≥ b + c then (a - b - c, 0) else (swcWord - b - c + a, 1)).1 < swcWord ∧
      (if a ≥ b + c then (a - b - c, 0) else (swcWord - b - c + a, 1)).2 ≤ 1 := by
  simp only [swcWord] at *
  split <;> simp <;> omega

theorem Swc.next_WF (g : Swc) (h : g.WF) : g.next.1 < swcWord ∧ g.next.2.WF := by
  obtain ⟨hx, hc⟩ := h
  have key := swcStep_lt _ _ _ (hx (if g.p < 10 then g.p + 24 - 10 else g.p - 10)) (hx g.p) hc
  simp only [Swc.next]
  refine ⟨key.1, ?_, key.2⟩
  intro i
  have := hx i
  simp only [Array.getD_eq_getD_getElem?, Array.getElem?_setIfInBounds] at *
  split
  · split
    · simpa using key.1
    · simp [swcWord]
  · exact this

end OmplModel.Rng
