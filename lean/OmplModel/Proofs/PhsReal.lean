import OmplModel.Model.Phs
import Mathlib.Analysis.SpecialFunctions.Trigonometric.Inverse
import Mathlib.Analysis.SpecialFunctions.Complex.Arg
import Mathlib.Analysis.SpecialFunctions.Sqrt
/-!
`Num ℝ` for the informed-sampling model (C15): the instantiation of `OmplModel.Phs` at the real
numbers, where the [EX] theorems are proved.  What this leaves unverified is exactly IEEE rounding
of the `Float` run.  The `@[simp]` lemmas of namespace `PhsR` turn the class operations into the
ordinary real ones.  (Own instance on purpose: no other engine's proof file is imported.)
-/
namespace OmplModel.Phs
open OmplModel

noncomputable instance instNumRealP : Num ℝ where
  ofNat n := (n : ℝ)
  ofDec m e := (m : ℝ) / (10 : ℝ) ^ e
  pi := Real.pi
  abs x := |x|
  sqrt := Real.sqrt
  sin := Real.sin
  cos := Real.cos
  acos := Real.arccos
  atan2 y x := Complex.arg ⟨x, y⟩
  floor x := (⌊x⌋ : ℝ)
  ceil x := (⌈x⌉ : ℝ)
  fmod x y := x - y * ((if 0 ≤ x / y then ⌊x / y⌋ else ⌈x / y⌉ : ℤ) : ℝ)
  decLt _ _ := Classical.propDecidable _
  decLe _ _ := Classical.propDecidable _
  toInt x := if 0 ≤ x then ⌊x⌋ else ⌈x⌉
  ofInt i := (i : ℝ)

/- From here on numerals on ℝ must be Mathlib's, not `Num.instOfNat`.  The erasure is local to this
file; every proof file about `Num ℝ` repeats it.  Numerals coming out of the *model* still carry
`Num.instOfNat` / `Num.ofNat`; the simp lemmas below turn them into ordinary numerals. -/
attribute [-instance] Num.instOfNat

example (a b : ℝ) : (@HAdd.hAdd ℝ ℝ ℝ (@instHAdd ℝ instNumRealP.toAdd) a b) = a + b := rfl
example (a b : ℝ) : (@HSub.hSub ℝ ℝ ℝ (@instHSub ℝ instNumRealP.toSub) a b) = a - b := rfl
example (a b : ℝ) : (@HMul.hMul ℝ ℝ ℝ (@instHMul ℝ instNumRealP.toMul) a b) = a * b := rfl
example (a b : ℝ) : (@HDiv.hDiv ℝ ℝ ℝ (@instHDiv ℝ instNumRealP.toDiv) a b) = a / b := rfl
example (a b : ℝ) : (@LT.lt ℝ instNumRealP.toLT a b) = (a < b) := rfl
example (a b : ℝ) : (@LE.le ℝ instNumRealP.toLE a b) = (a ≤ b) := rfl

namespace PhsR
@[simp] theorem ofNat_eq (n : Nat) : (Num.ofNat n : ℝ) = (n : ℝ) := rfl
@[simp] theorem ofNat_lit (n : Nat) : (@OfNat.ofNat ℝ n (Num.instOfNat n) : ℝ) = (n : ℝ) := rfl
@[simp] theorem ofDec_eq (m e : Nat) : (Num.ofDec m e : ℝ) = (m : ℝ) / (10 : ℝ) ^ e := rfl
@[simp] theorem pi_eq : (Num.pi : ℝ) = Real.pi := rfl
@[simp] theorem sqrt_eq (x : ℝ) : Num.sqrt x = Real.sqrt x := rfl
theorem lt_iff (a b : ℝ) : @LT.lt ℝ instNumRealP.toLT a b ↔ a < b := Iff.rfl
theorem le_iff (a b : ℝ) : @LE.le ℝ instNumRealP.toLE a b ↔ a ≤ b := Iff.rfl

@[simp] theorem max_eq (a b : ℝ) : Num.max a b = max a b := by
  unfold Num.max
  by_cases h : a < b
  · rw [if_pos h, max_eq_right h.le]
  · rw [if_neg h, max_eq_left (not_lt.mp h)]

@[simp] theorem min_eq (a b : ℝ) : Num.min a b = min a b := by
  unfold Num.min
  by_cases h : b < a
  · rw [if_pos h, min_eq_right h.le]
  · rw [if_neg h, min_eq_left (not_lt.mp h)]

@[simp] theorem half_eq : (half : ℝ) = 1 / 2 := by
  unfold half; rw [ofDec_eq]; norm_num
end PhsR
end OmplModel.Phs
