import OmplModel.Model.AtlasPdf
import OmplModel.Proofs.ESTPdf
/-! The chart PDF of the atlas stays aligned with the chart list (arithmetic-free). -/
namespace OmplModel.AtlasPdf
open OmplModel.Pdf
open OmplModel.EST (PInv getWeight_update getWeight_add add_next_size update_data pinv_update)

variable {α : Type} [WOps α]

/-- `n` charts: element `i` of the PDF is chart `i` (handle `i`, at position `i`) and carries `ws[i]` -/
structure Aligned (q : Pdf α) (ws : List α) : Prop where
  inv : PInv q ws.length
  pos : ∀ i, i < ws.length → q.data[i]? = some i
  weight : ∀ i, q.getWeight i = ws[i]?

theorem aligned_refreshAt (p : Pdf α) (ws : List α) (idx : Nat) (b : α) (h : Aligned p ws) :
    Aligned (refreshAt p idx b) (ws.set idx b) := by
  unfold refreshAt
  by_cases hi : idx < ws.length
  · rw [h.pos idx hi]
    simp only
    have hsome : (p.getWeight idx).isSome = true := by rw [h.weight idx]; simp [hi]
    refine ⟨by simpa using pinv_update p ws.length idx b h.inv, ?_, ?_⟩
    · intro i hi2
      rw [update_data]; exact h.pos i (by simpa using hi2)
    · intro i
      rw [getWeight_update p h.inv.shape h.inv.idx idx b hsome i, List.getElem?_set]
      by_cases e : i = idx
      · subst e; simp [hi]
      · have : ¬ idx = i := fun x => e x.symm
        simp [e, this, h.weight i]
  · have hnone : p.data[idx]? = none := by
      apply Array.getElem?_eq_none
      rw [h.inv.size]; omega
    rw [hnone]
    simp only
    have : ws.set idx b = ws := List.set_eq_of_length_le (by omega)
    rw [this]; exact h

theorem aligned_refreshAll : ∀ (l : List (Nat × α)) (p : Pdf α) (ws : List α), Aligned p ws →
    Aligned (refreshAll p l) (l.foldl (fun w ib => w.set ib.1 ib.2) ws)
  | [], _, _, h => h
  | ib :: rest, p, ws, h => by
    simp only [refreshAll, List.foldl_cons]
    exact aligned_refreshAll rest _ _ (aligned_refreshAt p ws ib.1 ib.2 h)

theorem aligned_add (p : Pdf α) (ws : List α) (b : α) (hb : WOps.lt b (WOps.zero : α) = false) (h : Aligned p ws) :
    Aligned (p.add b) (ws ++ [b]) := by
  have hns := add_next_size p b hb
  have hdata : (p.add b).data = p.data.push p.next := by unfold Pdf.add; simp [hb]
  refine ⟨⟨shapeInv_add _ _ h.inv.shape, idxSync_add _ _ h.inv.idx, by rw [hns.1, h.inv.next]; simp,
    by rw [hns.2, h.inv.size]; simp⟩, ?_, ?_⟩
  · intro i hi
    rw [hdata, Array.getElem?_push, h.inv.size, h.inv.next]
    simp only [List.length_append, List.length_cons, List.length_nil] at hi
    by_cases e : i = ws.length
    · simp [e]
    · rw [if_neg e]; exact h.pos i (by omega)
  · intro i
    rw [getWeight_add p h.inv.shape h.inv.idx b hb i, h.inv.next, List.getElem?_append]
    by_cases e : i = ws.length
    · simp [e]
    · rw [if_neg e, h.weight i]
      by_cases hl : i < ws.length
      · simp [hl]
      · have : ws.length < i := by omega
        simp [hl]
        omega

theorem aligned_newChart (p : Pdf α) (ws : List α) (c : NewChart α)
    (hb : WOps.lt c.bias (WOps.zero : α) = false) (h : Aligned p ws) :
    Aligned (newChart p c) (specStep ws c) :=
  aligned_add _ _ c.bias hb (aligned_refreshAll c.refresh p ws h)

theorem aligned_run : ∀ (cs : List (NewChart α)) (p : Pdf α) (ws : List α),
    (∀ c ∈ cs, WOps.lt c.bias (WOps.zero : α) = false) → Aligned p ws → Aligned (run p cs) (specRun ws cs)
  | [], _, _, _, h => h
  | c :: rest, p, ws, hb, h => by
    simp only [run, specRun, List.foldl_cons]
    exact aligned_run rest _ _ (fun c' hc' => hb c' (List.mem_cons_of_mem _ hc'))
      (aligned_newChart p ws c (hb c List.mem_cons_self) h)

theorem aligned_empty : Aligned (Pdf.empty : Pdf α) [] :=
  ⟨⟨shapeInv_empty, idxSync_empty, rfl, rfl⟩, fun i hi => by simp at hi, fun i => by simp [Pdf.getWeight, Pdf.empty]⟩

end OmplModel.AtlasPdf
