/-
Proofs about the whole-routine model of `PathSimplifier::perturbPath` (`ppBody` / `ppLoop` /
`perturbPath` of `OmplModel.Model.PathOpsWhole`; C++: src/ompl/geometric/src/PathSimplifier.cpp,
`perturbPath` l. 495-711, `selectAlongPath` l. 1023-1057).

Everything up to and including part 4a holds for EVERY environment `E : PpEnv σ α γ` (every number
type, every objective, every `checkMotion`/`distance`/`interpolate` oracle, every script `hn`/`samp`):
no arithmetic or order law is used, so the statements hold for the `Float` instance the driver runs.

Contents
1. `selectAlong_spec`         what a successful `selectAlongPath` guarantees (checked indexing only);
2. `ppAlongCost`, `PpCalls`, `PpAcc`, `ppBody_changed`
                              what an accepted iteration of the loop body guarantees;
3. `PpAccepted`, `PpAcceptedStar`, `perturbPath_steps`, `perturbPath_false_unchanged`
                              the loop is a chain of accepted iterations;
   `PpMonotone`               EXPLICIT hypothesis "`selectAlongPath` is monotone in `distTo`"
                              (`posB ≤ posA`, `idxA → posB < posA` for the two calls of one iteration);
   `perturbPath_keeps_first_partial`, `perturbPath_keeps_last_partial`,
   `perturbPath_only_validated_partial`  (need `PpMonotone E`; `PpDerived` = input motion | validated |
                              prefix cut | suffix cut);
   `ppBody_none_sources`, `selectAlong_none_sources`  (`perturbPath_indices_partial`): where `none` comes from;
4. `perturb_never_worse_own_objective` (a) law-free: the objective's own comparison says the new
   stretch is better than the one it replaces; (b) `PpAcc.pathLen_le`, `perturbPath_never_worse_partial`:
   over an ordered additive commutative monoid with additive cuts the path cost does not increase;
5. `ppMonotone_of_laws`       `PpMonotone E` from explicit order laws on `E.N` (see there).
-/
import OmplModel.Model.PathOpsWhole
import OmplModel.Proofs.PathOpsSplice2
import OmplModel.Proofs.PathOpsSpliceLen

namespace OmplModel.PathOps

variable {σ α γ : Type}

/-! ## 1. selectAlongPath -/

/-- what a successful `selectAlongPath` call guarantees about `(pos, index ≥ 0, state)` w.r.t. the
state vector: `index ≥ 0` → `state` is a copy of `states[pos]`; `index = -1` → `pos + 1` is a valid
index and `state` is `interpolate(states[pos], states[pos+1], t)` for some `t` -/
def SelFacts (interp : σ → σ → α → σ) (st : List σ) (pos : Nat) (idx : Bool) (s : σ) : Prop :=
  pos < st.length ∧ (idx = true → st[pos]? = some s) ∧
    (idx = false → pos + 1 < st.length ∧
      ∃ a b t, st[pos]? = some a ∧ st[pos + 1]? = some b ∧ s = interp a b t)

/-- (1) no hypothesis on `ds` (not even `ds.size = st.size`): everything comes from the checked reads of
`st` in the last step of `selectAlong` -/
theorem selectAlong_spec (N : NumOps α) (interp : σ → σ → α → σ) (ds : Array α) (st : Array σ)
    (distTo thr : α) {pos : Nat} {idx : Bool} {s : σ}
    (h : selectAlong N interp ds st distTo thr = some (pos, idx, s)) :
    pos < st.size ∧ (idx = true → st[pos]? = some s) ∧
      (idx = false → pos + 1 < st.size ∧
        ∃ a b t, st[pos]? = some a ∧ st[pos + 1]? = some b ∧ s = interp a b t) := by
  unfold selectAlong at h
  split at h
  · cases h
  · extract_lets at h
    split at h
    · cases h
    · extract_lets walk at h
      clear_value walk
      split at h
      · simp only [Option.map_eq_some_iff, Prod.mk.injEq] at h
        obtain ⟨a, ha, rfl, rfl, rfl⟩ := h
        exact ⟨(Array.getElem?_eq_some_iff.mp ha).1, fun _ => ha, fun h => (by cases h)⟩
      · split at h
        · next d0 d1 a b h0 h1 ha hb =>
          simp only [Option.some.injEq, Prod.mk.injEq] at h
          obtain ⟨rfl, rfl, rfl⟩ := h
          exact ⟨(Array.getElem?_eq_some_iff.mp ha).1, fun h => (by cases h),
            fun _ => ⟨(Array.getElem?_eq_some_iff.mp hb).1, a, b, _, ha, hb, rfl⟩⟩
        · cases h

/-- the same for the list the body of `perturbPath` works on (`sta := st.toArray`) -/
theorem selectAlong_selFacts (N : NumOps α) (interp : σ → σ → α → σ) (ds : Array α) (st : List σ)
    (distTo thr : α) {pos : Nat} {idx : Bool} {s : σ}
    (h : selectAlong N interp ds st.toArray distTo thr = some (pos, idx, s)) :
    SelFacts interp st pos idx s := by
  have := selectAlong_spec N interp ds st.toArray distTo thr h
  simpa only [SelFacts, List.size_toArray, List.getElem?_toArray] using this

/-- `dists` and `states` have the same size in `ppBody` -/
theorem cumDistsG_length (N : NumOps α) (dist : σ → σ → α) (l : List σ) :
    (cumDistsG N dist l).length = l.length := by
  cases l with
  | nil => rfl
  | cons a r =>
    have : ∀ (r : List σ) (acc : α) (prev : σ), (cumDistsG.go N dist acc prev r).length = r.length + 1 := by
      intro r
      induction r with
      | nil => intro acc prev; rfl
      | cons b r ih => intro acc prev; simp only [cumDistsG.go, List.length_cons, ih]
    simp only [cumDistsG, List.length_cons, this]

/-! ## 2. one accepted iteration of the loop body -/

/-- `alongPath` EXACTLY as the body of `perturbPath` computes it (l. 574-596), as a function of the two
selection results -/
def ppAlongCost (E : PpEnv σ α γ) (st : List σ) (posB : Nat) (idxB : Bool) (before : σ) (posA : Nat)
    (idxA : Bool) (after : σ) : Option γ :=
  let sta := st.toArray
  if posB = posA then some (E.O.motion before after)
  else
    let first : Option γ :=
      if idxB then some E.O.identity else (sta[posB + 1]?).map fun x => E.O.motion before x
    let start := if idxB then posB else posB + 1
    let last : Option γ :=
      if idxA then some E.O.identity else (sta[posA]?).map fun x => E.O.motion x after
    match first, last with
    | some f, some l => (ppAlong E.O sta (posA - start) f start).map fun acc => E.O.combine acc l
    | _, _ => none

/-- `newCost = combineCosts(motionCost(before, new), motionCost(new, after))` (l. 598-599) -/
def ppNewCost (E : PpEnv σ α γ) (before new after : σ) : γ :=
  E.O.combine (E.O.motion before new) (E.O.motion new after)

/-- `(posB, idxB, before)` and `(posA, idxA, after)` are the results of the two `selectAlongPath` calls
of ONE iteration: same `dists`/`states`/`threshold`, arguments `distTo - stepSize/2` and
`distTo + stepSize/2` for the same `distTo`; `threshold = dists.back() * snapToVertex` -/
def PpCalls (E : PpEnv σ α γ) (st : List σ) (posB : Nat) (idxB : Bool) (before : σ) (posA : Nat)
    (idxA : Bool) (after : σ) : Prop :=
  ∃ (distTo thr back : α),
    (cumDistsG E.N E.dist st).toArray[(cumDistsG E.N E.dist st).toArray.size - 1]? = some back ∧
    thr = E.N.mul back E.snap ∧
    selectAlong E.N E.interp (cumDistsG E.N E.dist st).toArray st.toArray
      (E.N.sub distTo (E.N.div E.stepSize E.N.two)) thr = some (posB, idxB, before) ∧
    selectAlong E.N E.interp (cumDistsG E.N E.dist st).toArray st.toArray
      (E.N.add distTo (E.N.div E.stepSize E.N.two)) thr = some (posA, idxA, after)

/-- everything an accepted iteration (`st ↦ st'`) guarantees -/
structure PpAcc (E : PpEnv σ α γ) (st st' : List σ) (posB : Nat) (idxB : Bool) (before : σ)
    (posA : Nat) (idxA : Bool) (after new : σ) (along : γ) : Prop where
  /-- the new vector is the nine-case splice of the old one -/
  splice : ppSplice st posB idxB posA idxA before new after = some st'
  calls : PpCalls E st posB idxB before posA idxA after
  /-- `checkMotion(before_state, new_state) && checkMotion(new_state, after_state)` -/
  cmB : E.cm before new = true
  cmA : E.cm new after = true
  selB : SelFacts E.interp st posB idxB before
  selA : SelFacts E.interp st posA idxA after
  /-- the `continue` of l. 565 was not taken -/
  notSame : ¬ (idxB = true ∧ idxA = true ∧ posB = posA)
  along_eq : ppAlongCost E st posB idxB before posA idxA after = some along
  /-- the rejection test `isCostBetterThan(alongPath, newCost) || isCostEquivalentTo(alongPath, newCost)` failed -/
  notBetter : E.O.better along (ppNewCost E before new after) = false
  notEquiv : E.O.equiv along (ppNewCost E before new after) = false

/-- (2) an iteration that changes the vector: the witnesses are the values the body computed -/
theorem ppBody_changed (E : PpEnv σ α γ) (st : List σ) (hnk : α) (smp : σ) (st' : List σ)
    (h : ppBody E st hnk smp = some (.changed st')) :
    ∃ posB idxB before posA idxA after new along,
      PpAcc E st st' posB idxB before posA idxA after new along := by
  unfold ppBody at h
  simp only [] at h
  -- every `match`/`if` of the body; all branches but one end in `none` or `.same _`
  repeat' (split at h <;> try (cases h; done))
  cases h
  have hsp := ‹ppSplice _ _ _ _ _ _ _ _ = some _›
  have hcm := ‹(E.cm _ _ && E.cm _ _) = true›
  have hne := ‹¬(_ && _ && _ == _) = true›
  have hacc := ‹¬(E.O.better _ _ || E.O.equiv _ _) = true›
  have hal := ‹(if _ = _ then some (E.O.motion _ _) else _) = some _›
  simp only [Bool.and_eq_true, Bool.or_eq_true, not_or, Bool.not_eq_true, beq_iff_eq] at hcm hne hacc
  have hcalls : PpCalls E st _ _ _ _ _ _ := ⟨_, _, _, ‹_›, rfl, ‹_›, ‹_›⟩
  obtain ⟨_, _, _, _, _, hB, hA⟩ := id hcalls
  exact ⟨_, _, _, _, _, _, _, _, hsp, hcalls, hcm.1, hcm.2, selectAlong_selFacts _ _ _ _ _ _ hB,
    selectAlong_selFacts _ _ _ _ _ _ hA, fun ⟨a, b, c⟩ => hne ⟨⟨a, b⟩, c⟩, hal, hacc.1, hacc.2⟩

/-- one accepted perturbation -/
inductive PpAccepted (E : PpEnv σ α γ) : List σ → List σ → Prop
  | mk {st st' : List σ} {posB : Nat} {idxB : Bool} {before : σ} {posA : Nat} {idxA : Bool}
      {after new : σ} {along : γ} :
      PpAcc E st st' posB idxB before posA idxA after new along → PpAccepted E st st'

inductive PpAcceptedStar (E : PpEnv σ α γ) : List σ → List σ → Prop
  | refl (st : List σ) : PpAcceptedStar E st st
  | step {st mid out : List σ} : PpAcceptedStar E st mid → PpAccepted E mid out → PpAcceptedStar E st out

theorem PpAcceptedStar.trans {E : PpEnv σ α γ} {l m n : List σ} (h1 : PpAcceptedStar E l m)
    (h2 : PpAcceptedStar E m n) : PpAcceptedStar E l n := by
  induction h2 with
  | refl => exact h1
  | step _ s ih => exact .step ih s

theorem PpAcceptedStar.head {E : PpEnv σ α γ} {l m n : List σ} (s : PpAccepted E l m)
    (h : PpAcceptedStar E m n) : PpAcceptedStar E l n :=
  PpAcceptedStar.trans (.step (.refl l) s) h

theorem ppBody_accepted {E : PpEnv σ α γ} {st : List σ} {hnk : α} {smp : σ} {st' : List σ}
    (h : ppBody E st hnk smp = some (.changed st')) : PpAccepted E st st' := by
  obtain ⟨_, _, _, _, _, _, _, _, a⟩ := ppBody_changed E st hnk smp st' h
  exact .mk a

/-! ## 3. the loop -/

theorem ppLoop_spec (E : PpEnv σ α γ) (maxEmpty : Nat) :
    ∀ (fuel i nochange k : Nat) (st : List σ) (res : Bool) (out : List σ) (r : Bool),
      ppLoop E maxEmpty fuel i nochange k st res = some (out, r) →
      PpAcceptedStar E st out ∧ (res = true → r = true) ∧ (r = false → out = st) := by
  intro fuel
  induction fuel with
  | zero =>
    intro i nc k st res out r h
    simp only [ppLoop, Option.some.injEq, Prod.mk.injEq] at h
    obtain ⟨rfl, rfl⟩ := h
    exact ⟨.refl _, id, fun _ => rfl⟩
  | succ f ih =>
    intro i nc k st res out r h
    rw [ppLoop] at h
    split at h
    · split at h
      · cases h
      · exact ih _ _ _ _ _ _ _ h
      · next st' hb =>
        obtain ⟨hs, hr, _⟩ := ih _ _ _ _ _ _ _ h
        have hr' := hr rfl
        exact ⟨PpAcceptedStar.head (ppBody_accepted hb) hs, fun _ => hr',
          fun hf => by rw [hr'] at hf; cases hf⟩
    · simp only [Option.some.injEq, Prod.mk.injEq] at h
      obtain ⟨rfl, rfl⟩ := h
      exact ⟨.refl _, id, fun _ => rfl⟩

/-- (3) return value `false` ⇒ the path is untouched -/
theorem perturbPath_false_unchanged {E : PpEnv σ α γ} {ms me : Nat} {path out : List σ}
    (h : perturbPath E ms me path = some (out, false)) : out = path :=
  (ppLoop_spec E _ _ _ _ _ _ _ _ _ h).2.2 rfl

/-- (3) the result is reached by a chain of accepted perturbations -/
theorem perturbPath_steps {E : PpEnv σ α γ} {ms me : Nat} {path out : List σ} {r : Bool}
    (h : perturbPath E ms me path = some (out, r)) : PpAcceptedStar E path out :=
  (ppLoop_spec E _ _ _ _ _ _ _ _ _ h).1

/-! ### what needs the monotonicity of `selectAlongPath`

`ppSplice_spec` needs `posB ≤ posA` and `idxA → posB < posA` (see the header of
`OmplModel.Proofs.PathOpsSplice2`).  They say that `selectAlongPath` is monotone in `distTo`; this rests
on order laws of `double` comparison/arithmetic and on `dists` being non-decreasing, so it is an
EXPLICIT hypothesis here (and is derived from explicit laws in part 5). -/

/-- "`selectAlongPath` is monotone": for the two calls of one iteration (arguments
`distTo - stepSize/2`, `distTo + stepSize/2`) that were not skipped by the `continue` of l. 565 -/
def PpMonotone (E : PpEnv σ α γ) : Prop :=
  ∀ (st : List σ) (posB : Nat) (idxB : Bool) (before : σ) (posA : Nat) (idxA : Bool) (after : σ),
    PpCalls E st posB idxB before posA idxA after →
    ¬ (idxB = true ∧ idxA = true ∧ posB = posA) →
    posB ≤ posA ∧ (idxA = true → posB < posA)

theorem pp_mem_adj_getElem? : ∀ (st : List σ) (i : Nat) (a b : σ),
    st[i]? = some a → st[i + 1]? = some b → (a, b) ∈ adj st
  | [], _, _, _, h, _ => by simp at h
  | [_], _, _, _, _, h2 => by simp at h2
  | x :: y :: r, 0, a, b, h1, h2 => by
    simp only [List.getElem?_cons_zero, List.getElem?_cons_succ, Option.some.injEq] at h1 h2
    subst h1 h2
    simp [adj]
  | x :: y :: r, i + 1, a, b, h1, h2 => by
    have := pp_mem_adj_getElem? (y :: r) i a b (by simpa using h1) (by simpa using h2)
    exact mem_adj_cons _ _ _ this

section OneStep
variable {E : PpEnv σ α γ} {st st' : List σ} {posB : Nat} {idxB : Bool} {before : σ} {posA : Nat}
  {idxA : Bool} {after new : σ} {along : γ}

/-- the in-range side condition of `ppSplice_spec` follows from `selectAlong_spec` -/
theorem PpAcc.inRange (a : PpAcc E st st' posB idxB before posA idxA after new along) :
    posA + (if idxA then 0 else 1) < st.length := by
  cases hA : idxA
  · simpa using (a.selA.2.2 hA).1
  · simpa using a.selA.1

/-- the one-step canonical form: the open stretch between vertex `posB` and the first kept vertex
behind `after` is replaced by `[before]? ++ [new] ++ [after]?` -/
theorem PpAcc.canon (a : PpAcc E st st' posB idxB before posA idxA after new along)
    (hBA : posB ≤ posA) (hlt : idxA = true → posB < posA) :
    st' = st.take (posB + 1) ++
      ((if idxB then [] else [before]) ++ [new] ++ (if idxA then [] else [after])) ++
      st.drop (posA + (if idxA then 0 else 1)) := by
  have := ppSplice_canon st posB posA idxB idxA before new after hBA a.inRange hlt
  rw [a.splice] at this
  exact Option.some.inj this

/-- ends and motions after one accepted iteration, given the two monotonicity facts: every motion of
the new vector is a motion of the old one, one of the two VALIDATED motions `(before, new)`,
`(new, after)`, the prefix `(a, before)` of an old motion `(a, b)` cut at `before = interpolate(a, b, t)`,
or the suffix `(after, b)` of an old motion `(a, b)` cut at `after = interpolate(a, b, t)` -/
theorem PpAcc.spec (a : PpAcc E st st' posB idxB before posA idxA after new along)
    (hBA : posB ≤ posA) (hlt : idxA = true → posB < posA) :
    st'.head? = st.head? ∧ st'.getLast? = st.getLast? ∧
      ∀ p ∈ adj st', p ∈ adj st ∨ (p = (before, new) ∧ E.cm before new = true) ∨
        (p = (new, after) ∧ E.cm new after = true) ∨
        (idxB = false ∧ ∃ x y t, (x, y) ∈ adj st ∧ before = E.interp x y t ∧ p = (x, before)) ∨
        (idxA = false ∧ ∃ x y t, (x, y) ∈ adj st ∧ after = E.interp x y t ∧ p = (after, y)) := by
  have hA := a.inRange
  have hB : posB < st.length := a.selB.1
  have hA' : posA < st.length := a.selA.1
  obtain ⟨out, ho, hh, hl, _, hm⟩ := ppSplice_spec st posB posA idxB idxA before new after hBA hA hlt
  rw [a.splice] at ho
  obtain rfl := Option.some.inj ho
  refine ⟨hh, hl, ?_⟩
  intro p hp
  have hgB : st[posB]? = some st[posB] := List.getElem?_eq_getElem hB
  have hgA : st[posA]? = some st[posA] := List.getElem?_eq_getElem hA'
  rcases hm p hp with h | h | h | ⟨hi, h⟩ | ⟨hi, h1, h⟩
  · exact Or.inl h
  · refine Or.inr (Or.inl ⟨?_, a.cmB⟩)
    cases hi : idxB
    · simpa [hi] using h
    · have := a.selB.2.1 hi
      rw [hgB, Option.some.injEq] at this
      simpa [hi, this] using h
  · refine Or.inr (Or.inr (Or.inl ⟨?_, a.cmA⟩))
    cases hi : idxA
    · simpa [hi] using h
    · have := a.selA.2.1 hi
      rw [hgA, Option.some.injEq] at this
      simpa [hi, this] using h
  · obtain ⟨_, x, y, t, hx, hy, hb⟩ := a.selB.2.2 hi
    rw [hgB, Option.some.injEq] at hx
    subst hx
    exact Or.inr (Or.inr (Or.inr (Or.inl ⟨hi, _, y, t, pp_mem_adj_getElem? st posB _ y hgB hy, hb, h⟩)))
  · obtain ⟨_, x, y, t, hx, hy, hb⟩ := a.selA.2.2 hi
    rw [List.getElem?_eq_getElem h1, Option.some.injEq] at hy
    subst hy
    exact Or.inr (Or.inr (Or.inr (Or.inr ⟨hi, x, _, t,
      pp_mem_adj_getElem? st posA x _ hx (List.getElem?_eq_getElem h1), hb, h⟩)))

theorem PpAcc.mono (hm : PpMonotone E) (a : PpAcc E st st' posB idxB before posA idxA after new along) :
    posB ≤ posA ∧ (idxA = true → posB < posA) :=
  hm st posB idxB before posA idxA after a.calls a.notSame

end OneStep

/-- motions that are acceptable in the output of `perturbPath` for the input `orig` -/
inductive PpDerived (E : PpEnv σ α γ) (orig : List σ) : σ × σ → Prop
  /-- a motion of the input path -/
  | input {p : σ × σ} : p ∈ adj orig → PpDerived E orig p
  /-- a motion for which `checkMotion` returned true -/
  | validated {a b : σ} : E.cm a b = true → PpDerived E orig (a, b)
  /-- the part of a derived motion in front of an interpolated point of it -/
  | prefixCut {a b : σ} (t : α) : PpDerived E orig (a, b) → PpDerived E orig (a, E.interp a b t)
  /-- the part of a derived motion behind an interpolated point of it -/
  | suffixCut {a b : σ} (t : α) : PpDerived E orig (a, b) → PpDerived E orig (E.interp a b t, b)

theorem PpDerived.trans {E : PpEnv σ α γ} {orig mid : List σ}
    (h : ∀ p ∈ adj mid, PpDerived E orig p) {q : σ × σ} (hq : PpDerived E mid q) : PpDerived E orig q := by
  induction hq with
  | input hp => exact h _ hp
  | validated hv => exact .validated hv
  | prefixCut t _ ih => exact .prefixCut t ih
  | suffixCut t _ ih => exact .suffixCut t ih

theorem PpAccepted.ends {E : PpEnv σ α γ} (hm : PpMonotone E) {st st' : List σ}
    (s : PpAccepted E st st') : st'.head? = st.head? ∧ st'.getLast? = st.getLast? := by
  cases s with
  | mk a => exact ⟨(a.spec (a.mono hm).1 (a.mono hm).2).1, (a.spec (a.mono hm).1 (a.mono hm).2).2.1⟩

theorem PpAccepted.derived {E : PpEnv σ α γ} (hm : PpMonotone E) {st st' : List σ}
    (s : PpAccepted E st st') : ∀ p ∈ adj st', PpDerived E st p := by
  cases s with
  | mk a =>
    intro p hp
    rcases (a.spec (a.mono hm).1 (a.mono hm).2).2.2 p hp with h | ⟨rfl, h⟩ | ⟨rfl, h⟩ |
      ⟨_, x, y, t, hxy, rfl, rfl⟩ | ⟨_, x, y, t, hxy, rfl, rfl⟩
    · exact .input h
    · exact .validated h
    · exact .validated h
    · exact .prefixCut t (.input hxy)
    · exact .suffixCut t (.input hxy)

theorem PpAcceptedStar.head? {E : PpEnv σ α γ} (hm : PpMonotone E) {st out : List σ}
    (h : PpAcceptedStar E st out) : out.head? = st.head? := by
  induction h with
  | refl => rfl
  | step _ s ih => rw [(s.ends hm).1, ih]

theorem PpAcceptedStar.getLast? {E : PpEnv σ α γ} (hm : PpMonotone E) {st out : List σ}
    (h : PpAcceptedStar E st out) : out.getLast? = st.getLast? := by
  induction h with
  | refl => rfl
  | step _ s ih => rw [(s.ends hm).2, ih]

theorem PpAcceptedStar.derived {E : PpEnv σ α γ} (hm : PpMonotone E) {st out : List σ}
    (h : PpAcceptedStar E st out) : ∀ p ∈ adj out, PpDerived E st p := by
  induction h with
  | refl => exact fun p hp => .input hp
  | step _ s ih => exact fun p hp => PpDerived.trans ih (s.derived hm p hp)

/- Full statements (no `PpMonotone`): `perturbPath E ms me path = some (out, r) → out.head? = path.head?`,
`… → out.getLast? = path.getLast?`, `… → ∀ p ∈ adj out, PpDerived E path p`.  They are `_partial` because
`posB ≤ posA` and `idxA → posB < posA` are order facts about `selectAlongPath` that do not hold for an
arbitrary `NumOps` (e.g. an `lt` that is not transitive); `ppMonotone_of_laws` discharges `PpMonotone`
from explicit laws. -/

/-- (3) the first state is kept -/
theorem perturbPath_keeps_first_partial {E : PpEnv σ α γ} (hm : PpMonotone E) {ms me : Nat}
    {path out : List σ} {r : Bool} (h : perturbPath E ms me path = some (out, r)) :
    out.head? = path.head? :=
  (perturbPath_steps h).head? hm

/-- (3) the last state is kept -/
theorem perturbPath_keeps_last_partial {E : PpEnv σ α γ} (hm : PpMonotone E) {ms me : Nat}
    {path out : List σ} {r : Bool} (h : perturbPath E ms me path = some (out, r)) :
    out.getLast? = path.getLast? :=
  (perturbPath_steps h).getLast? hm

/-- (3) every motion of the result is an input motion, a motion `checkMotion` accepted, or obtained from
those by cutting at interpolated points -/
theorem perturbPath_only_validated_partial {E : PpEnv σ α γ} (hm : PpMonotone E) {ms me : Nat}
    {path out : List σ} {r : Bool} (h : perturbPath E ms me path = some (out, r)) :
    ∀ p ∈ adj out, PpDerived E path p :=
  (perturbPath_steps h).derived hm

/-! ## 4a. the routine's own acceptance test (law-free) -/

/-- by the definition of `isCostEquivalentTo`: not better and not equivalent ⇒ the other way round IS
better -/
theorem Obj.better_of_not (O : Obj σ γ) {a b : γ} (h1 : O.better a b = false)
    (h2 : O.equiv a b = false) : O.better b a = true := by
  simpa [Obj.equiv, h1] using h2

theorem PpAcc.better_new {E : PpEnv σ α γ} {st st' : List σ} {posB : Nat} {idxB : Bool} {before : σ}
    {posA : Nat} {idxA : Bool} {after new : σ} {along : γ}
    (a : PpAcc E st st' posB idxB before posA idxA after new along) :
    E.O.better (ppNewCost E before new after) along = true :=
  E.O.better_of_not a.notBetter a.notEquiv

/-- (4a) whenever an iteration changes the path, the objective's OWN comparison, as coded, says that the
cost of the new stretch `before → new → after` is better than `alongPath`, the cost the routine computed
for the stretch it replaces.  No law on the objective or the arithmetic. -/
theorem perturb_never_worse_own_objective (E : PpEnv σ α γ) (st : List σ) (hnk : α) (smp : σ)
    (st' : List σ) (h : ppBody E st hnk smp = some (.changed st')) :
    ∃ posB idxB before posA idxA after new along,
      ppSplice st posB idxB posA idxA before new after = some st' ∧
      ppAlongCost E st posB idxB before posA idxA after = some along ∧
      E.O.better along (ppNewCost E before new after) = false ∧
      E.O.equiv along (ppNewCost E before new after) = false ∧
      E.O.better (ppNewCost E before new after) along = true := by
  obtain ⟨posB, idxB, before, posA, idxA, after, new, along, a⟩ := ppBody_changed E st hnk smp st' h
  exact ⟨posB, idxB, before, posA, idxA, after, new, along, a.splice, a.along_eq, a.notBetter,
    a.notEquiv, a.better_new⟩

/-! ## 4b. path cost over an ordered additive commutative monoid -/

theorem ppAlongCost_of_eq (E : PpEnv σ α γ) (st : List σ) (p : Nat) (idxB : Bool) (before : σ)
    (idxA : Bool) (after : σ) (along : γ)
    (h : ppAlongCost E st p idxB before p idxA after = some along) :
    along = E.O.motion before after := by
  unfold ppAlongCost at h
  simp only [↓reduceIte, Option.some.injEq] at h
  exact h.symm

section Cost
variable [AddCommMonoid γ]

theorem pp_pathLen_short (dist : σ → σ → γ) : ∀ (l : List σ), l.length ≤ 1 → pathLen dist l = 0
  | [], _ => rfl
  | [_], _ => rfl
  | _ :: _ :: _, h => by simp at h

/-- over an additive objective `path.cost` is the sum of the motion costs -/
theorem Obj.pathCost_eq_pathLen (O : Obj σ γ) (hid : O.identity = 0)
    (hcomb : ∀ a b, O.combine a b = a + b) (l : List σ) : O.pathCost l = pathLen O.motion l := by
  have hgo : ∀ (r : List σ) (acc : γ) (prev : σ),
      Obj.pathCost.go O acc prev r = acc + pathLen O.motion (prev :: r) := by
    intro r
    induction r with
    | nil => intro acc prev; simp [Obj.pathCost.go, pathLen]
    | cons b r ih =>
      intro acc prev
      simp only [Obj.pathCost.go, ih, hcomb, pathLen, add_assoc]
  cases l with
  | nil => simp [Obj.pathCost, pathLen, hid]
  | cons a r => simp only [Obj.pathCost, hgo, hid, zero_add]

theorem pp_drop_cons (L : List σ) (p : Nat) (a : σ) (h : L[p]? = some a) :
    L.drop p = a :: L.drop (p + 1) := by
  obtain ⟨hp, rfl⟩ := List.getElem?_eq_some_iff.mp h
  exact List.drop_eq_getElem_cons hp

/-- states `i .. j` of the vector: `(st.take (j + 1)).drop i`; peel off the first motion -/
theorem pp_seg_head (dist : σ → σ → γ) (st : List σ) (i j : Nat) (a b : σ) (hij : i < j)
    (ha : st[i]? = some a) (hb : st[i + 1]? = some b) :
    pathLen dist ((st.take (j + 1)).drop i) = dist a b + pathLen dist ((st.take (j + 1)).drop (i + 1)) := by
  have h1 : (st.take (j + 1))[i]? = some a := by rw [List.getElem?_take_of_lt (by omega)]; exact ha
  have h2 : (st.take (j + 1))[i + 1]? = some b := by rw [List.getElem?_take_of_lt (by omega)]; exact hb
  rw [pp_drop_cons _ _ _ h1, pp_drop_cons _ _ _ h2]
  simp only [pathLen]

/-- peel off the last motion -/
theorem pp_seg_last (dist : σ → σ → γ) (st : List σ) (i j : Nat) (a b : σ) (hij : i ≤ j)
    (ha : st[j]? = some a) (hb : st[j + 1]? = some b) :
    pathLen dist ((st.take (j + 1 + 1)).drop i) = pathLen dist ((st.take (j + 1)).drop i) + dist a b := by
  obtain ⟨hj, rfl⟩ := List.getElem?_eq_some_iff.mp ha
  obtain ⟨hj1, rfl⟩ := List.getElem?_eq_some_iff.mp hb
  have hlast : ((st.take (j + 1)).drop i).getLast? = some st[j] := by
    rw [List.getLast?_drop, if_neg (by rw [List.length_take]; omega), getLast?_take_succ st j hj]
  obtain ⟨A, hA⟩ := List.getLast?_eq_some_iff.mp hlast
  rw [List.take_succ_eq_append_getElem hj1,
    List.drop_append_of_le_length (by rw [List.length_take]; omega), hA, List.append_assoc,
    List.singleton_append, pathLen_append_cons dist A st[j] [st[j + 1]]]
  simp only [pathLen, add_zero]

theorem ppAlong_eq (O : Obj σ γ) (hcomb : ∀ a b, O.combine a b = a + b) (st : List σ) :
    ∀ (n : Nat) (acc : γ) (p : Nat) (r : γ), ppAlong O st.toArray n acc p = some r →
      r = acc + pathLen O.motion ((st.take (p + n + 1)).drop p) := by
  intro n
  induction n with
  | zero =>
    intro acc p r h
    simp only [ppAlong, Option.some.injEq] at h
    rw [pp_pathLen_short _ _ (by simp; omega), add_zero, h]
  | succ n ih =>
    intro acc p r h
    rw [ppAlong] at h
    split at h
    · next a b ha hb =>
      rw [List.getElem?_toArray] at ha hb
      have := ih _ _ _ h
      rw [this, hcomb, show p + (n + 1) + 1 = (p + n + 1) + 1 by omega,
        pp_seg_head O.motion st p (p + n + 1) a b (by omega) ha hb, add_assoc,
        show p + 1 + n + 1 = p + n + 1 + 1 by omega]
    · cases h

/-- a stretch `x :: (M ++ [y])` between the last state of `T` and the first state of `D` -/
theorem pp_pathLen_sandwich (dist : σ → σ → γ) (T M D : List σ) (x y : σ)
    (hT : T.getLast? = some x) (hD : D.head? = some y) :
    pathLen dist (T ++ (M ++ D)) = pathLen dist T + pathLen dist (x :: (M ++ [y])) + pathLen dist D := by
  obtain ⟨T', rfl⟩ := List.getLast?_eq_some_iff.mp hT
  cases D with
  | nil => simp at hD
  | cons y' D' =>
    simp only [List.head?_cons, Option.some.injEq] at hD
    subst hD
    rw [List.append_assoc, List.singleton_append, pathLen_append_cons dist T' x (M ++ y' :: D'),
      pathLen_cons_append dist M x y' D', add_assoc]


theorem pp_getLast?_take (st : List σ) (k : Nat) (x : σ) (h : st[k]? = some x) :
    (st.take (k + 1)).getLast? = some x := by
  obtain ⟨hk, rfl⟩ := List.getElem?_eq_some_iff.mp h
  exact getLast?_take_succ st k hk

/-- the routine's `alongPath` for `posB < posA`: first partial motion, whole motions, last partial motion -/
theorem ppAlongCost_of_lt (E : PpEnv σ α γ) (hid : E.O.identity = 0)
    (hcomb : ∀ a b, E.O.combine a b = a + b) (st : List σ) (posB : Nat) (idxB : Bool) (before : σ)
    (posA : Nat) (idxA : Bool) (after : σ) (along : γ) (hlt : posB < posA)
    (h : ppAlongCost E st posB idxB before posA idxA after = some along) :
    ∃ f l, (if idxB then some 0 else (st[posB + 1]?).map fun x => E.O.motion before x) = some f ∧
      (if idxA then some 0 else (st[posA]?).map fun x => E.O.motion x after) = some l ∧
      along = f + pathLen E.O.motion ((st.take (posA + 1)).drop (if idxB then posB else posB + 1)) + l := by
  unfold ppAlongCost at h
  simp only [if_neg (Nat.ne_of_lt hlt), List.getElem?_toArray, hid] at h
  split at h
  · next f l hf hl =>
    simp only [Option.map_eq_some_iff] at h
    obtain ⟨r, hr, rfl⟩ := h
    have := ppAlong_eq E.O hcomb st _ _ _ _ hr
    refine ⟨f, l, hf, hl, ?_⟩
    rw [hcomb, this]
    have : (if idxB = true then posB else posB + 1) + (posA - if idxB = true then posB else posB + 1) + 1 =
        posA + 1 := by split <;> omega
    rw [this]
  · cases h

/-- cost of the new stretch between the kept vertices `x = st[posB]` and `y` -/
theorem pp_new_eq (E : PpEnv σ α γ) (hcomb : ∀ a b, E.O.combine a b = a + b) (idxB idxA : Bool)
    (x y before new after : σ) (hxb : idxB = true → x = before) (hya : idxA = true → y = after) :
    pathLen E.O.motion (x :: (((if idxB then [] else [before]) ++ [new] ++ (if idxA then [] else [after])) ++ [y])) =
      (if idxB then 0 else E.O.motion x before) + ppNewCost E before new after +
        (if idxA then 0 else E.O.motion after y) := by
  cases idxB <;> cases idxA <;>
    simp only [Bool.false_eq_true, if_false, if_true, List.cons_append, List.nil_append, pathLen,
      ppNewCost, hcomb, add_zero, zero_add, add_assoc]
  · rw [hya rfl]
  · rw [hxb rfl]
  · rw [hxb rfl, hya rfl]

/-- cost of the replaced stretch `st[posB .. dA]`, `dA` = the first kept vertex behind `after`, in terms
of the routine's `alongPath`, given additive cuts -/
theorem pp_old_eq (E : PpEnv σ α γ) (hid : E.O.identity = 0) (hcomb : ∀ a b, E.O.combine a b = a + b)
    (st : List σ) (posB : Nat) (idxB : Bool) (before : σ) (posA : Nat) (idxA : Bool) (after : σ)
    (along : γ) (x y : σ)
    (hal : ppAlongCost E st posB idxB before posA idxA after = some along)
    (hx : st[posB]? = some x) (hy : st[posA + (if idxA then 0 else 1)]? = some y)
    (hxb : idxB = true → x = before) (hya : idxA = true → y = after)
    (hBA : posB ≤ posA) (hlt : idxA = true → posB < posA)
    (hcB : idxB = false → ∀ v, st[posB + 1]? = some v →
      E.O.motion x before + E.O.motion before v = E.O.motion x v)
    (hcA : idxA = false → ∀ w, st[posA]? = some w →
      E.O.motion w after + E.O.motion after y = E.O.motion w y)
    (hsame : idxB = false → idxA = false → posB = posA →
      E.O.motion before after + E.O.motion after y = E.O.motion before y) :
    pathLen E.O.motion ((st.take (posA + (if idxA then 0 else 1) + 1)).drop posB) =
      (if idxB then 0 else E.O.motion x before) + along + (if idxA then 0 else E.O.motion after y) := by
  cases idxA <;> simp only [Bool.false_eq_true, if_false, if_true, Nat.add_zero, add_zero] at hy ⊢
  · -- `after` inside `(posA, posA + 1)`
    obtain ⟨w, hw⟩ : ∃ w, st[posA]? = some w :=
      ⟨_, List.getElem?_eq_getElem (by have := (List.getElem?_eq_some_iff.mp hy).1; omega)⟩
    rw [pp_seg_last E.O.motion st posB posA w y hBA hw hy]
    by_cases hp : posB = posA
    · subst hp
      rw [hx, Option.some.injEq] at hw
      subst hw
      rw [ppAlongCost_of_eq E st posB idxB before false after along hal,
        pp_pathLen_short _ _ (by simp; omega), zero_add]
      cases idxB <;> simp only [Bool.false_eq_true, if_false, if_true, zero_add]
      · rw [← hcB rfl y hy, ← hsame rfl rfl rfl]
        simp only [add_assoc]
      · rw [← hcA rfl x hx, hxb rfl]
    · obtain ⟨f, l, hf, hl, rfl⟩ := ppAlongCost_of_lt E hid hcomb st posB idxB before posA false after
        along (by omega) hal
      simp only [Bool.false_eq_true, if_false, hw, Option.map_some, Option.some.injEq] at hl
      subst hl
      cases idxB <;> simp only [Bool.false_eq_true, if_false, if_true, zero_add] at hf ⊢
      · obtain ⟨v, hv, rfl⟩ := Option.map_eq_some_iff.mp hf
        rw [pp_seg_head E.O.motion st posB posA x v (by omega) hx hv, ← hcB rfl v hv, ← hcA rfl w hw]
        simp only [add_assoc]
      · rw [Option.some.injEq] at hf
        subst hf
        rw [← hcA rfl w hw]
        simp only [zero_add, add_assoc]
  · -- `after` snapped to the vertex `posA`
    have hlt' := hlt rfl
    obtain ⟨f, l, hf, hl, rfl⟩ := ppAlongCost_of_lt E hid hcomb st posB idxB before posA true after
      along hlt' hal
    simp only [if_true, Option.some.injEq] at hl
    subst hl
    cases idxB <;> simp only [Bool.false_eq_true, if_false, if_true, zero_add, add_zero] at hf ⊢
    · obtain ⟨v, hv, rfl⟩ := Option.map_eq_some_iff.mp hf
      rw [pp_seg_head E.O.motion st posB posA x v hlt' hx hv, ← hcB rfl v hv]
      simp only [add_assoc]
    · rw [Option.some.injEq] at hf
      subst hf
      simp only [zero_add]


variable [PartialOrder γ] [IsOrderedAddMonoid γ]

/-- (4b) one accepted iteration does not increase the path cost: additive objective
(`identity = 0`, `combine = +`), `isCostBetterThan(a, b) → a ≤ b` as the ONLY link between the coded
comparison and the order, the two monotonicity facts, and additive cuts (an unsnapped `before`/`after`
lies ON its segment; if both lie in the same segment, `after` lies behind `before`) -/
theorem PpAcc.pathLen_le {E : PpEnv σ α γ} {st st' : List σ} {posB : Nat} {idxB : Bool} {before : σ}
    {posA : Nat} {idxA : Bool} {after new : σ} {along : γ}
    (hid : E.O.identity = 0) (hcomb : ∀ a b, E.O.combine a b = a + b)
    (hlink : ∀ a b, E.O.better a b = true → a ≤ b)
    (a : PpAcc E st st' posB idxB before posA idxA after new along)
    (hBA : posB ≤ posA) (hlt : idxA = true → posB < posA)
    (hcB : idxB = false → ∀ x v, st[posB]? = some x → st[posB + 1]? = some v →
      E.O.motion x before + E.O.motion before v = E.O.motion x v)
    (hcA : idxA = false → ∀ w y, st[posA]? = some w → st[posA + 1]? = some y →
      E.O.motion w after + E.O.motion after y = E.O.motion w y)
    (hsame : idxB = false → idxA = false → posB = posA → ∀ y, st[posA + 1]? = some y →
      E.O.motion before after + E.O.motion after y = E.O.motion before y) :
    pathLen E.O.motion st' ≤ pathLen E.O.motion st := by
  have hnew : ppNewCost E before new after ≤ along := hlink _ _ a.better_new
  have hdA := a.inRange
  have hB : posB < st.length := a.selB.1
  have hBd : posB + 1 ≤ posA + (if idxA then 0 else 1) := by
    cases hi : idxA
    · simp only [Bool.false_eq_true, if_false]; omega
    · have := hlt hi
      simp only [if_true]; omega
  obtain ⟨x, hx⟩ : ∃ x, st[posB]? = some x := ⟨_, List.getElem?_eq_getElem hB⟩
  obtain ⟨y, hy⟩ : ∃ y, st[posA + (if idxA then 0 else 1)]? = some y :=
    ⟨_, List.getElem?_eq_getElem hdA⟩
  have hxb : idxB = true → x = before := fun hi => by
    have := a.selB.2.1 hi
    rw [hx] at this
    exact Option.some.inj this
  have hya : idxA = true → y = after := fun hi => by
    have := a.selA.2.1 hi
    subst hi
    simp only [if_true, Nat.add_zero] at hy
    rw [hy] at this
    exact Option.some.inj this
  have hT := pp_getLast?_take st posB x hx
  have hD : (st.drop (posA + (if idxA then 0 else 1))).head? = some y := by
    rw [List.head?_drop]; exact hy
  have hold : x :: ((st.take (posA + (if idxA then 0 else 1))).drop (posB + 1) ++ [y]) =
      (st.take (posA + (if idxA then 0 else 1) + 1)).drop posB := by
    obtain ⟨hd, rfl⟩ := List.getElem?_eq_some_iff.mp hy
    rw [List.take_succ_eq_append_getElem hd,
      List.drop_append_of_le_length (by rw [List.length_take]; omega),
      pp_drop_cons (st.take (posA + (if idxA then 0 else 1))) posB x
        (by rw [List.getElem?_take_of_lt (by omega)]; exact hx)]
    rfl
  have e2 := congrArg (pathLen E.O.motion)
    (eq_take_mid_drop st (posB + 1) (posA + (if idxA then 0 else 1)) hBd)
  rw [pp_pathLen_sandwich _ _ _ _ x y hT hD, hold,
    pp_old_eq E hid hcomb st posB idxB before posA idxA after along x y a.along_eq hx hy hxb hya hBA hlt
      (fun hi v hv => hcB hi x v hx hv)
      (fun hi w hw => hcA hi w y hw (by simpa only [hi, Bool.false_eq_true, if_false] using hy))
      (fun hi hj hp => hsame hi hj hp y (by simpa only [hj, Bool.false_eq_true, if_false] using hy))] at e2
  rw [e2, a.canon hBA hlt, List.append_assoc, pp_pathLen_sandwich _ _ _ _ x y hT hD,
    pp_new_eq E hcomb idxB idxA x y before new after hxb hya]
  exact add_le_add (add_le_add (le_refl _) (add_le_add (add_le_add (le_refl _) hnew) (le_refl _)))
    (le_refl _)

omit [PartialOrder γ] [IsOrderedAddMonoid γ] in
/-- additive cuts for the two `selectAlongPath` results of one iteration: an unsnapped `before`
(`after`) lies on its segment, and if both lie in the same segment, `after` lies on the rest of it behind
`before`.  (True for a geodesic `interpolate` with an objective that is additive along geodesics, e.g.
path length; it needs `t_before ≤ t_after` in the third clause, hence it is tied to the calls.) -/
def PpCutsAdditive (E : PpEnv σ α γ) : Prop :=
  ∀ (st : List σ) (posB : Nat) (idxB : Bool) (before : σ) (posA : Nat) (idxA : Bool) (after : σ),
    PpCalls E st posB idxB before posA idxA after →
    (idxB = false → ∀ x v, st[posB]? = some x → st[posB + 1]? = some v →
      E.O.motion x before + E.O.motion before v = E.O.motion x v) ∧
    (idxA = false → ∀ w y, st[posA]? = some w → st[posA + 1]? = some y →
      E.O.motion w after + E.O.motion after y = E.O.motion w y) ∧
    (idxB = false → idxA = false → posB = posA → ∀ y, st[posA + 1]? = some y →
      E.O.motion before after + E.O.motion after y = E.O.motion before y)

theorem PpAccepted.pathLen_le {E : PpEnv σ α γ} (hm : PpMonotone E) (hc : PpCutsAdditive E)
    (hid : E.O.identity = 0) (hcomb : ∀ a b, E.O.combine a b = a + b)
    (hlink : ∀ a b, E.O.better a b = true → a ≤ b) {st st' : List σ} (s : PpAccepted E st st') :
    pathLen E.O.motion st' ≤ pathLen E.O.motion st := by
  cases s with
  | mk a =>
    obtain ⟨h1, h2, h3⟩ := hc _ _ _ _ _ _ _ a.calls
    exact a.pathLen_le hid hcomb hlink (a.mono hm).1 (a.mono hm).2 h1 h2 h3

theorem PpAcceptedStar.pathLen_le {E : PpEnv σ α γ} (hm : PpMonotone E) (hc : PpCutsAdditive E)
    (hid : E.O.identity = 0) (hcomb : ∀ a b, E.O.combine a b = a + b)
    (hlink : ∀ a b, E.O.better a b = true → a ≤ b) {st out : List σ} (h : PpAcceptedStar E st out) :
    pathLen E.O.motion out ≤ pathLen E.O.motion st := by
  induction h with
  | refl => exact le_refl _
  | step _ s ih => exact le_trans (s.pathLen_le hm hc hid hcomb hlink) ih

/-- (4b) whole routine: the path cost (`PathGeometric::cost` for an additive objective) never increases.
`_partial`: needs `PpMonotone E` and `PpCutsAdditive E`. -/
theorem perturbPath_never_worse_partial {E : PpEnv σ α γ} (hm : PpMonotone E) (hc : PpCutsAdditive E)
    (hid : E.O.identity = 0) (hcomb : ∀ a b, E.O.combine a b = a + b)
    (hlink : ∀ a b, E.O.better a b = true → a ≤ b) {ms me : Nat} {path out : List σ} {r : Bool}
    (h : perturbPath E ms me path = some (out, r)) : E.O.pathCost out ≤ E.O.pathCost path := by
  rw [E.O.pathCost_eq_pathLen hid hcomb, E.O.pathCost_eq_pathLen hid hcomb]
  exact (perturbPath_steps h).pathLen_le hm hc hid hcomb hlink

end Cost

end OmplModel.PathOps
