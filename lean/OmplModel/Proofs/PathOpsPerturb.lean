/-
Proofs about the whole-routine model of `PathSimplifier::perturbPath` (`ppBody` / `ppLoop` /
`perturbPath` of `OmplModel.Model.PathOpsWhole`; C++: src/ompl/geometric/src/PathSimplifier.cpp,
`perturbPath` l. 495-711, `selectAlongPath` l. 1023-1057).

Every theorem is for EVERY environment `E : PpEnv σ α γ` (every number type, every objective, every
`checkMotion`/`distance`/`interpolate` oracle, every script `hn`/`samp`), every step bound and path.
Parts 1, 2, `perturbPath_steps`/`_false_unchanged`, the `none` analysis (`…_indices_partial`) and 4a use
NO arithmetic or order law, so they hold for the `Float` instance the driver runs.  Whatever needs more
has it as an explicit, named hypothesis (`PpMonotone E`, `PpCutsAdditive E`, `NumOrderLaws E.N`, the
additive-objective hypotheses of 4b) and is called `…_partial` / `…_of_laws`.

Contents
1. `selectAlong_spec`         what a successful `selectAlongPath` guarantees (checked indexing only);
2. `ppAlongCost`, `PpCalls`, `PpAcc`, `ppBody_changed`
                              what an accepted iteration of the loop body guarantees;
3. `PpAccepted`, `PpAcceptedStar`, `perturbPath_steps`, `perturbPath_false_unchanged`
                              the loop is a chain of accepted iterations;
   `PpMonotone`               EXPLICIT hypothesis "`selectAlongPath` is monotone in `distTo`"
                              (`posB ≤ posA`, `idxA → posB < posA` for the two calls of one iteration);
   `perturbPath_keeps_first_partial`, `perturbPath_keeps_last_partial`,
   `perturbPath_only_validated_partial`  (need `PpMonotone E`; `PpDerived` = input motion | validated |
                              prefix cut | suffix cut);
   `perturbPath_indices_partial`, `perturbPath_indices_mono`, `ppBody_none_sources`, `ppAlongCost_isSome`,
   `selectAlong_none_sources`  where `none` (= an out-of-range access in the C++) can come from;
4. `perturb_never_worse_own_objective` (a) law-free: the objective's own comparison says the new
   stretch is better than the one it replaces; (b) `PpAcc.pathLen_le`, `perturbPath_never_worse_partial`:
   over an ordered additive commutative monoid with additive cuts the path cost does not increase;
5. `NumOrderLaws`, `selectAlong_mono`, `ppMonotone_of_laws`, `perturbPath_spec_of_laws`
                              `PpMonotone E` from explicit order laws on `E.N` (see there).
-/
import OmplModel.Model.PathOpsWhole
import OmplModel.Proofs.PathOpsSplice2
import OmplModel.Proofs.PathOpsSpliceLen
import Mathlib.Algebra.Order.Monoid.Defs

namespace OmplModel.PathOps

variable {σ α γ : Type}

/-! ## 1. selectAlongPath -/

/-- what a successful `selectAlongPath` call guarantees about `(pos, index ≥ 0, state)` w.r.t. the
state vector: `index ≥ 0` → `state` is a copy of `states[pos]`; `index = -1` → `pos + 1` is a valid
index and `state` is `interpolate(states[pos], states[pos+1], t)` for some `t` -/
def SelFacts (interp : σ → σ → α → σ) (st : List σ) (pos : Nat) (idx : Bool) (s : σ) : Prop :=
  pos < st.length ∧ (idx = true → st[pos]? = some s) ∧
    (idx = false → pos + 1 < st.length ∧
      ∃ a b t, st[pos]? = some a ∧ st[pos + 1]? = some b ∧ s = interp a b t)

/-- (1) no hypothesis on `ds` (not even `ds.size = st.size`): everything comes from the checked reads of
`st` in the last step of `selectAlong` -/
theorem selectAlong_spec (N : NumOps α) (interp : σ → σ → α → σ) (ds : Array α) (st : Array σ)
    (distTo thr : α) {pos : Nat} {idx : Bool} {s : σ}
    (h : selectAlong N interp ds st distTo thr = some (pos, idx, s)) :
    pos < st.size ∧ (idx = true → st[pos]? = some s) ∧
      (idx = false → pos + 1 < st.size ∧
        ∃ a b t, st[pos]? = some a ∧ st[pos + 1]? = some b ∧ s = interp a b t) := by
  unfold selectAlong at h
  split at h
  · cases h
  · extract_lets at h
    split at h
    · cases h
    · extract_lets walk at h
      clear_value walk
      split at h
      · simp only [Option.map_eq_some_iff, Prod.mk.injEq] at h
        obtain ⟨a, ha, rfl, rfl, rfl⟩ := h
        exact ⟨(Array.getElem?_eq_some_iff.mp ha).1, fun _ => ha, fun h => (by cases h)⟩
      · split at h
        · next d0 d1 a b h0 h1 ha hb =>
          simp only [Option.some.injEq, Prod.mk.injEq] at h
          obtain ⟨rfl, rfl, rfl⟩ := h
          exact ⟨(Array.getElem?_eq_some_iff.mp ha).1, fun h => (by cases h),
            fun _ => ⟨(Array.getElem?_eq_some_iff.mp hb).1, a, b, _, ha, hb, rfl⟩⟩
        · cases h

/-- the same for the list the body of `perturbPath` works on (`sta := st.toArray`) -/
theorem selectAlong_selFacts (N : NumOps α) (interp : σ → σ → α → σ) (ds : Array α) (st : List σ)
    (distTo thr : α) {pos : Nat} {idx : Bool} {s : σ}
    (h : selectAlong N interp ds st.toArray distTo thr = some (pos, idx, s)) :
    SelFacts interp st pos idx s := by
  have := selectAlong_spec N interp ds st.toArray distTo thr h
  simpa only [SelFacts, List.size_toArray, List.getElem?_toArray] using this

/-- `dists` and `states` have the same size in `ppBody` -/
theorem pp_cumDistsG_length (N : NumOps α) (dist : σ → σ → α) (l : List σ) :
    (cumDistsG N dist l).length = l.length := by
  cases l with
  | nil => rfl
  | cons a r =>
    have : ∀ (r : List σ) (acc : α) (prev : σ), (cumDistsG.go N dist acc prev r).length = r.length + 1 := by
      intro r
      induction r with
      | nil => intro acc prev; rfl
      | cons b r ih => intro acc prev; simp only [cumDistsG.go, List.length_cons, ih]
    simp only [cumDistsG, List.length_cons, this]

/-! ## 2. one accepted iteration of the loop body -/

/-- `alongPath` EXACTLY as the body of `perturbPath` computes it (l. 574-596), as a function of the two
selection results -/
def ppAlongCost (E : PpEnv σ α γ) (st : List σ) (posB : Nat) (idxB : Bool) (before : σ) (posA : Nat)
    (idxA : Bool) (after : σ) : Option γ :=
  let sta := st.toArray
  if posB = posA then some (E.O.motion before after)
  else
    let first : Option γ :=
      if idxB then some E.O.identity else (sta[posB + 1]?).map fun x => E.O.motion before x
    let start := if idxB then posB else posB + 1
    let last : Option γ :=
      if idxA then some E.O.identity else (sta[posA]?).map fun x => E.O.motion x after
    match first, last with
    | some f, some l => (ppAlong E.O sta (posA - start) f start).map fun acc => E.O.combine acc l
    | _, _ => none

/-- `newCost = combineCosts(motionCost(before, new), motionCost(new, after))` (l. 598-599) -/
def ppNewCost (E : PpEnv σ α γ) (before new after : σ) : γ :=
  E.O.combine (E.O.motion before new) (E.O.motion new after)

/-- `(posB, idxB, before)` and `(posA, idxA, after)` are the results of the two `selectAlongPath` calls
of ONE iteration: same `dists`/`states`/`threshold`, arguments `distTo - stepSize/2` and
`distTo + stepSize/2` for the same `distTo`; `threshold = dists.back() * snapToVertex` -/
def PpCalls (E : PpEnv σ α γ) (st : List σ) (posB : Nat) (idxB : Bool) (before : σ) (posA : Nat)
    (idxA : Bool) (after : σ) : Prop :=
  ∃ (distTo thr back : α),
    (cumDistsG E.N E.dist st).toArray[(cumDistsG E.N E.dist st).toArray.size - 1]? = some back ∧
    thr = E.N.mul back E.snap ∧
    selectAlong E.N E.interp (cumDistsG E.N E.dist st).toArray st.toArray
      (E.N.sub distTo (E.N.div E.stepSize E.N.two)) thr = some (posB, idxB, before) ∧
    selectAlong E.N E.interp (cumDistsG E.N E.dist st).toArray st.toArray
      (E.N.add distTo (E.N.div E.stepSize E.N.two)) thr = some (posA, idxA, after)

/-- everything an accepted iteration (`st ↦ st'`) guarantees -/
structure PpAcc (E : PpEnv σ α γ) (st st' : List σ) (posB : Nat) (idxB : Bool) (before : σ)
    (posA : Nat) (idxA : Bool) (after new : σ) (along : γ) : Prop where
  /-- the new vector is the nine-case splice of the old one -/
  splice : ppSplice st posB idxB posA idxA before new after = some st'
  calls : PpCalls E st posB idxB before posA idxA after
  /-- `checkMotion(before_state, new_state) && checkMotion(new_state, after_state)` -/
  cmB : E.cm before new = true
  cmA : E.cm new after = true
  selB : SelFacts E.interp st posB idxB before
  selA : SelFacts E.interp st posA idxA after
  /-- the `continue` of l. 565 was not taken -/
  notSame : ¬ (idxB = true ∧ idxA = true ∧ posB = posA)
  along_eq : ppAlongCost E st posB idxB before posA idxA after = some along
  /-- the rejection test `isCostBetterThan(alongPath, newCost) || isCostEquivalentTo(alongPath, newCost)` failed -/
  notBetter : E.O.better along (ppNewCost E before new after) = false
  notEquiv : E.O.equiv along (ppNewCost E before new after) = false

/-- (2) an iteration that changes the vector: the witnesses are the values the body computed -/
theorem ppBody_changed (E : PpEnv σ α γ) (st : List σ) (hnk : α) (smp : σ) (st' : List σ)
    (h : ppBody E st hnk smp = some (.changed st')) :
    ∃ posB idxB before posA idxA after new along,
      PpAcc E st st' posB idxB before posA idxA after new along := by
  unfold ppBody at h
  simp only [] at h
  -- every `match`/`if` of the body; all branches but one end in `none` or `.same _`
  repeat' (split at h <;> try (cases h; done))
  cases h
  have hsp := ‹ppSplice _ _ _ _ _ _ _ _ = some _›
  have hcm := ‹(E.cm _ _ && E.cm _ _) = true›
  have hne := ‹¬(_ && _ && _ == _) = true›
  have hacc := ‹¬(E.O.better _ _ || E.O.equiv _ _) = true›
  have hal := ‹(if _ = _ then some (E.O.motion _ _) else _) = some _›
  simp only [Bool.and_eq_true, Bool.or_eq_true, not_or, Bool.not_eq_true, beq_iff_eq] at hcm hne hacc
  have hcalls : PpCalls E st _ _ _ _ _ _ := ⟨_, _, _, ‹_›, rfl, ‹_›, ‹_›⟩
  obtain ⟨_, _, _, _, _, hB, hA⟩ := id hcalls
  exact ⟨_, _, _, _, _, _, _, _, hsp, hcalls, hcm.1, hcm.2, selectAlong_selFacts _ _ _ _ _ _ hB,
    selectAlong_selFacts _ _ _ _ _ _ hA, fun ⟨a, b, c⟩ => hne ⟨⟨a, b⟩, c⟩, hal, hacc.1, hacc.2⟩

/-- one accepted perturbation -/
inductive PpAccepted (E : PpEnv σ α γ) : List σ → List σ → Prop
  | mk {st st' : List σ} {posB : Nat} {idxB : Bool} {before : σ} {posA : Nat} {idxA : Bool}
      {after new : σ} {along : γ} :
      PpAcc E st st' posB idxB before posA idxA after new along → PpAccepted E st st'

inductive PpAcceptedStar (E : PpEnv σ α γ) : List σ → List σ → Prop
  | refl (st : List σ) : PpAcceptedStar E st st
  | step {st mid out : List σ} : PpAcceptedStar E st mid → PpAccepted E mid out → PpAcceptedStar E st out

theorem PpAcceptedStar.trans {E : PpEnv σ α γ} {l m n : List σ} (h1 : PpAcceptedStar E l m)
    (h2 : PpAcceptedStar E m n) : PpAcceptedStar E l n := by
  induction h2 with
  | refl => exact h1
  | step _ s ih => exact .step ih s

theorem PpAcceptedStar.head {E : PpEnv σ α γ} {l m n : List σ} (s : PpAccepted E l m)
    (h : PpAcceptedStar E m n) : PpAcceptedStar E l n :=
  PpAcceptedStar.trans (.step (.refl l) s) h

theorem ppBody_accepted {E : PpEnv σ α γ} {st : List σ} {hnk : α} {smp : σ} {st' : List σ}
    (h : ppBody E st hnk smp = some (.changed st')) : PpAccepted E st st' := by
  obtain ⟨_, _, _, _, _, _, _, _, a⟩ := ppBody_changed E st hnk smp st' h
  exact .mk a

/-! ## 3. the loop -/

theorem ppLoop_spec (E : PpEnv σ α γ) (maxEmpty : Nat) :
    ∀ (fuel i nochange k : Nat) (st : List σ) (res : Bool) (out : List σ) (r : Bool),
      ppLoop E maxEmpty fuel i nochange k st res = some (out, r) →
      PpAcceptedStar E st out ∧ (res = true → r = true) ∧ (r = false → out = st) := by
  intro fuel
  induction fuel with
  | zero =>
    intro i nc k st res out r h
    simp only [ppLoop, Option.some.injEq, Prod.mk.injEq] at h
    obtain ⟨rfl, rfl⟩ := h
    exact ⟨.refl _, id, fun _ => rfl⟩
  | succ f ih =>
    intro i nc k st res out r h
    rw [ppLoop] at h
    split at h
    · split at h
      · cases h
      · exact ih _ _ _ _ _ _ _ h
      · next st' hb =>
        obtain ⟨hs, hr, _⟩ := ih _ _ _ _ _ _ _ h
        have hr' := hr rfl
        exact ⟨PpAcceptedStar.head (ppBody_accepted hb) hs, fun _ => hr',
          fun hf => by rw [hr'] at hf; cases hf⟩
    · simp only [Option.some.injEq, Prod.mk.injEq] at h
      obtain ⟨rfl, rfl⟩ := h
      exact ⟨.refl _, id, fun _ => rfl⟩

/-- (3) return value `false` ⇒ the path is untouched -/
theorem perturbPath_false_unchanged {E : PpEnv σ α γ} {ms me : Nat} {path out : List σ}
    (h : perturbPath E ms me path = some (out, false)) : out = path :=
  (ppLoop_spec E _ _ _ _ _ _ _ _ _ h).2.2 rfl

/-- (3) the result is reached by a chain of accepted perturbations -/
theorem perturbPath_steps {E : PpEnv σ α γ} {ms me : Nat} {path out : List σ} {r : Bool}
    (h : perturbPath E ms me path = some (out, r)) : PpAcceptedStar E path out :=
  (ppLoop_spec E _ _ _ _ _ _ _ _ _ h).1

/-! ### what needs the monotonicity of `selectAlongPath`

`ppSplice_spec` needs `posB ≤ posA` and `idxA → posB < posA` (see the header of
`OmplModel.Proofs.PathOpsSplice2`).  They say that `selectAlongPath` is monotone in `distTo`; this rests
on order laws of `double` comparison/arithmetic, so it is an EXPLICIT hypothesis here.  Part 5 derives it
from explicit laws (total preorder, monotone subtraction, `stepSize/2`-shift ordered, `dists.back() ≥ 0`;
that `dists` is non-decreasing turns out not to be needed). -/

/-- "`selectAlongPath` is monotone": for the two calls of one iteration (arguments
`distTo - stepSize/2`, `distTo + stepSize/2`) that were not skipped by the `continue` of l. 565 -/
def PpMonotone (E : PpEnv σ α γ) : Prop :=
  ∀ (st : List σ) (posB : Nat) (idxB : Bool) (before : σ) (posA : Nat) (idxA : Bool) (after : σ),
    PpCalls E st posB idxB before posA idxA after →
    ¬ (idxB = true ∧ idxA = true ∧ posB = posA) →
    posB ≤ posA ∧ (idxA = true → posB < posA)

theorem pp_mem_adj_getElem? : ∀ (st : List σ) (i : Nat) (a b : σ),
    st[i]? = some a → st[i + 1]? = some b → (a, b) ∈ adj st
  | [], _, _, _, h, _ => by simp at h
  | [_], _, _, _, _, h2 => by simp at h2
  | x :: y :: r, 0, a, b, h1, h2 => by
    simp only [List.getElem?_cons_zero, List.getElem?_cons_succ, Option.some.injEq] at h1 h2
    subst h1 h2
    simp [adj]
  | x :: y :: r, i + 1, a, b, h1, h2 => by
    have := pp_mem_adj_getElem? (y :: r) i a b (by simpa using h1) (by simpa using h2)
    exact mem_adj_cons _ _ _ this

section OneStep
variable {E : PpEnv σ α γ} {st st' : List σ} {posB : Nat} {idxB : Bool} {before : σ} {posA : Nat}
  {idxA : Bool} {after new : σ} {along : γ}

/-- the in-range side condition of `ppSplice_spec` follows from `selectAlong_spec` -/
theorem PpAcc.inRange (a : PpAcc E st st' posB idxB before posA idxA after new along) :
    posA + (if idxA then 0 else 1) < st.length := by
  cases hA : idxA
  · simpa using (a.selA.2.2 hA).1
  · simpa using a.selA.1

/-- the one-step canonical form: the open stretch between vertex `posB` and the first kept vertex
behind `after` is replaced by `[before]? ++ [new] ++ [after]?` -/
theorem PpAcc.canon (a : PpAcc E st st' posB idxB before posA idxA after new along)
    (hBA : posB ≤ posA) (hlt : idxA = true → posB < posA) :
    st' = st.take (posB + 1) ++
      ((if idxB then [] else [before]) ++ [new] ++ (if idxA then [] else [after])) ++
      st.drop (posA + (if idxA then 0 else 1)) := by
  have := ppSplice_canon st posB posA idxB idxA before new after hBA a.inRange hlt
  rw [a.splice] at this
  exact Option.some.inj this

/-- ends and motions after one accepted iteration, given the two monotonicity facts: every motion of
the new vector is a motion of the old one, one of the two VALIDATED motions `(before, new)`,
`(new, after)`, the prefix `(a, before)` of an old motion `(a, b)` cut at `before = interpolate(a, b, t)`,
or the suffix `(after, b)` of an old motion `(a, b)` cut at `after = interpolate(a, b, t)` -/
theorem PpAcc.spec (a : PpAcc E st st' posB idxB before posA idxA after new along)
    (hBA : posB ≤ posA) (hlt : idxA = true → posB < posA) :
    st'.head? = st.head? ∧ st'.getLast? = st.getLast? ∧
      ∀ p ∈ adj st', p ∈ adj st ∨ (p = (before, new) ∧ E.cm before new = true) ∨
        (p = (new, after) ∧ E.cm new after = true) ∨
        (idxB = false ∧ ∃ x y t, (x, y) ∈ adj st ∧ before = E.interp x y t ∧ p = (x, before)) ∨
        (idxA = false ∧ ∃ x y t, (x, y) ∈ adj st ∧ after = E.interp x y t ∧ p = (after, y)) := by
  have hA := a.inRange
  have hB : posB < st.length := a.selB.1
  have hA' : posA < st.length := a.selA.1
  obtain ⟨out, ho, hh, hl, _, hm⟩ := ppSplice_spec st posB posA idxB idxA before new after hBA hA hlt
  rw [a.splice] at ho
  obtain rfl := Option.some.inj ho
  refine ⟨hh, hl, ?_⟩
  intro p hp
  have hgB : st[posB]? = some st[posB] := List.getElem?_eq_getElem hB
  have hgA : st[posA]? = some st[posA] := List.getElem?_eq_getElem hA'
  rcases hm p hp with h | h | h | ⟨hi, h⟩ | ⟨hi, h1, h⟩
  · exact Or.inl h
  · refine Or.inr (Or.inl ⟨?_, a.cmB⟩)
    cases hi : idxB
    · simpa [hi] using h
    · have := a.selB.2.1 hi
      rw [hgB, Option.some.injEq] at this
      simpa [hi, this] using h
  · refine Or.inr (Or.inr (Or.inl ⟨?_, a.cmA⟩))
    cases hi : idxA
    · simpa [hi] using h
    · have := a.selA.2.1 hi
      rw [hgA, Option.some.injEq] at this
      simpa [hi, this] using h
  · obtain ⟨_, x, y, t, hx, hy, hb⟩ := a.selB.2.2 hi
    rw [hgB, Option.some.injEq] at hx
    subst hx
    exact Or.inr (Or.inr (Or.inr (Or.inl ⟨hi, _, y, t, pp_mem_adj_getElem? st posB _ y hgB hy, hb, h⟩)))
  · obtain ⟨_, x, y, t, hx, hy, hb⟩ := a.selA.2.2 hi
    rw [List.getElem?_eq_getElem h1, Option.some.injEq] at hy
    subst hy
    exact Or.inr (Or.inr (Or.inr (Or.inr ⟨hi, x, _, t,
      pp_mem_adj_getElem? st posA x _ hx (List.getElem?_eq_getElem h1), hb, h⟩)))

theorem PpAcc.mono (hm : PpMonotone E) (a : PpAcc E st st' posB idxB before posA idxA after new along) :
    posB ≤ posA ∧ (idxA = true → posB < posA) :=
  hm st posB idxB before posA idxA after a.calls a.notSame

end OneStep

/-- motions that are acceptable in the output of `perturbPath` for the input `orig` -/
inductive PpDerived (E : PpEnv σ α γ) (orig : List σ) : σ × σ → Prop
  /-- a motion of the input path -/
  | input {p : σ × σ} : p ∈ adj orig → PpDerived E orig p
  /-- a motion for which `checkMotion` returned true -/
  | validated {a b : σ} : E.cm a b = true → PpDerived E orig (a, b)
  /-- the part of a derived motion in front of an interpolated point of it -/
  | prefixCut {a b : σ} (t : α) : PpDerived E orig (a, b) → PpDerived E orig (a, E.interp a b t)
  /-- the part of a derived motion behind an interpolated point of it -/
  | suffixCut {a b : σ} (t : α) : PpDerived E orig (a, b) → PpDerived E orig (E.interp a b t, b)

theorem PpDerived.trans {E : PpEnv σ α γ} {orig mid : List σ}
    (h : ∀ p ∈ adj mid, PpDerived E orig p) {q : σ × σ} (hq : PpDerived E mid q) : PpDerived E orig q := by
  induction hq with
  | input hp => exact h _ hp
  | validated hv => exact .validated hv
  | prefixCut t _ ih => exact .prefixCut t ih
  | suffixCut t _ ih => exact .suffixCut t ih

theorem PpAccepted.ends {E : PpEnv σ α γ} (hm : PpMonotone E) {st st' : List σ}
    (s : PpAccepted E st st') : st'.head? = st.head? ∧ st'.getLast? = st.getLast? := by
  cases s with
  | mk a => exact ⟨(a.spec (a.mono hm).1 (a.mono hm).2).1, (a.spec (a.mono hm).1 (a.mono hm).2).2.1⟩

theorem PpAccepted.derived {E : PpEnv σ α γ} (hm : PpMonotone E) {st st' : List σ}
    (s : PpAccepted E st st') : ∀ p ∈ adj st', PpDerived E st p := by
  cases s with
  | mk a =>
    intro p hp
    rcases (a.spec (a.mono hm).1 (a.mono hm).2).2.2 p hp with h | ⟨rfl, h⟩ | ⟨rfl, h⟩ |
      ⟨_, x, y, t, hxy, rfl, rfl⟩ | ⟨_, x, y, t, hxy, rfl, rfl⟩
    · exact .input h
    · exact .validated h
    · exact .validated h
    · exact .prefixCut t (.input hxy)
    · exact .suffixCut t (.input hxy)

theorem PpAcceptedStar.head? {E : PpEnv σ α γ} (hm : PpMonotone E) {st out : List σ}
    (h : PpAcceptedStar E st out) : out.head? = st.head? := by
  induction h with
  | refl => rfl
  | step _ s ih => rw [(s.ends hm).1, ih]

theorem PpAcceptedStar.getLast? {E : PpEnv σ α γ} (hm : PpMonotone E) {st out : List σ}
    (h : PpAcceptedStar E st out) : out.getLast? = st.getLast? := by
  induction h with
  | refl => rfl
  | step _ s ih => rw [(s.ends hm).2, ih]

theorem PpAcceptedStar.derived {E : PpEnv σ α γ} (hm : PpMonotone E) {st out : List σ}
    (h : PpAcceptedStar E st out) : ∀ p ∈ adj out, PpDerived E st p := by
  induction h with
  | refl => exact fun p hp => .input hp
  | step _ s ih => exact fun p hp => PpDerived.trans ih (s.derived hm p hp)

/- Full statements (no `PpMonotone`): `perturbPath E ms me path = some (out, r) → out.head? = path.head?`,
`… → out.getLast? = path.getLast?`, `… → ∀ p ∈ adj out, PpDerived E path p`.  They are `_partial` because
`posB ≤ posA` and `idxA → posB < posA` are order facts about `selectAlongPath` that do not hold for an
arbitrary `NumOps` (e.g. an `lt` that is not transitive); `ppMonotone_of_laws` discharges `PpMonotone`
from explicit laws. -/

/-- (3) the first state is kept -/
theorem perturbPath_keeps_first_partial {E : PpEnv σ α γ} (hm : PpMonotone E) {ms me : Nat}
    {path out : List σ} {r : Bool} (h : perturbPath E ms me path = some (out, r)) :
    out.head? = path.head? :=
  (perturbPath_steps h).head? hm

/-- (3) the last state is kept -/
theorem perturbPath_keeps_last_partial {E : PpEnv σ α γ} (hm : PpMonotone E) {ms me : Nat}
    {path out : List σ} {r : Bool} (h : perturbPath E ms me path = some (out, r)) :
    out.getLast? = path.getLast? :=
  (perturbPath_steps h).getLast? hm

/-- (3) every motion of the result is an input motion, a motion `checkMotion` accepted, or obtained from
those by cutting at interpolated points -/
theorem perturbPath_only_validated_partial {E : PpEnv σ α γ} (hm : PpMonotone E) {ms me : Nat}
    {path out : List σ} {r : Bool} (h : perturbPath E ms me path = some (out, r)) :
    ∀ p ∈ adj out, PpDerived E path p :=
  (perturbPath_steps h).derived hm

/-! ## 4a. the routine's own acceptance test (law-free) -/

/-- by the definition of `isCostEquivalentTo`: not better and not equivalent ⇒ the other way round IS
better -/
theorem Obj.better_of_not (O : Obj σ γ) {a b : γ} (h1 : O.better a b = false)
    (h2 : O.equiv a b = false) : O.better b a = true := by
  simpa [Obj.equiv, h1] using h2

theorem PpAcc.better_new {E : PpEnv σ α γ} {st st' : List σ} {posB : Nat} {idxB : Bool} {before : σ}
    {posA : Nat} {idxA : Bool} {after new : σ} {along : γ}
    (a : PpAcc E st st' posB idxB before posA idxA after new along) :
    E.O.better (ppNewCost E before new after) along = true :=
  E.O.better_of_not a.notBetter a.notEquiv

/-- (4a) whenever an iteration changes the path, the objective's OWN comparison, as coded, says that the
cost of the new stretch `before → new → after` is better than `alongPath`, the cost the routine computed
for the stretch it replaces.  No law on the objective or the arithmetic. -/
theorem perturb_never_worse_own_objective (E : PpEnv σ α γ) (st : List σ) (hnk : α) (smp : σ)
    (st' : List σ) (h : ppBody E st hnk smp = some (.changed st')) :
    ∃ posB idxB before posA idxA after new along,
      ppSplice st posB idxB posA idxA before new after = some st' ∧
      ppAlongCost E st posB idxB before posA idxA after = some along ∧
      E.O.better along (ppNewCost E before new after) = false ∧
      E.O.equiv along (ppNewCost E before new after) = false ∧
      E.O.better (ppNewCost E before new after) along = true := by
  obtain ⟨posB, idxB, before, posA, idxA, after, new, along, a⟩ := ppBody_changed E st hnk smp st' h
  exact ⟨posB, idxB, before, posA, idxA, after, new, along, a.splice, a.along_eq, a.notBetter,
    a.notEquiv, a.better_new⟩

/-! ## 4b. path cost over an ordered additive commutative monoid -/

theorem ppAlongCost_of_eq (E : PpEnv σ α γ) (st : List σ) (p : Nat) (idxB : Bool) (before : σ)
    (idxA : Bool) (after : σ) (along : γ)
    (h : ppAlongCost E st p idxB before p idxA after = some along) :
    along = E.O.motion before after := by
  unfold ppAlongCost at h
  simp only [↓reduceIte, Option.some.injEq] at h
  exact h.symm

section Cost
variable [AddCommMonoid γ]

theorem pp_pathLen_short (dist : σ → σ → γ) : ∀ (l : List σ), l.length ≤ 1 → pathLen dist l = 0
  | [], _ => rfl
  | [_], _ => rfl
  | _ :: _ :: _, h => by simp at h

/-- over an additive objective `path.cost` is the sum of the motion costs -/
theorem Obj.pathCost_eq_pathLen (O : Obj σ γ) (hid : O.identity = 0)
    (hcomb : ∀ a b, O.combine a b = a + b) (l : List σ) : O.pathCost l = pathLen O.motion l := by
  have hgo : ∀ (r : List σ) (acc : γ) (prev : σ),
      Obj.pathCost.go O acc prev r = acc + pathLen O.motion (prev :: r) := by
    intro r
    induction r with
    | nil => intro acc prev; simp [Obj.pathCost.go, pathLen]
    | cons b r ih =>
      intro acc prev
      simp only [Obj.pathCost.go, ih, hcomb, pathLen, add_assoc]
  cases l with
  | nil => simp [Obj.pathCost, pathLen, hid]
  | cons a r => simp only [Obj.pathCost, hgo, hid, zero_add]

theorem pp_drop_cons (L : List σ) (p : Nat) (a : σ) (h : L[p]? = some a) :
    L.drop p = a :: L.drop (p + 1) := by
  obtain ⟨hp, rfl⟩ := List.getElem?_eq_some_iff.mp h
  exact List.drop_eq_getElem_cons hp

/-- states `i .. j` of the vector: `(st.take (j + 1)).drop i`; peel off the first motion -/
theorem pp_seg_head (dist : σ → σ → γ) (st : List σ) (i j : Nat) (a b : σ) (hij : i < j)
    (ha : st[i]? = some a) (hb : st[i + 1]? = some b) :
    pathLen dist ((st.take (j + 1)).drop i) = dist a b + pathLen dist ((st.take (j + 1)).drop (i + 1)) := by
  have h1 : (st.take (j + 1))[i]? = some a := by rw [List.getElem?_take_of_lt (by omega)]; exact ha
  have h2 : (st.take (j + 1))[i + 1]? = some b := by rw [List.getElem?_take_of_lt (by omega)]; exact hb
  rw [pp_drop_cons _ _ _ h1, pp_drop_cons _ _ _ h2]
  simp only [pathLen]

/-- peel off the last motion -/
theorem pp_seg_last (dist : σ → σ → γ) (st : List σ) (i j : Nat) (a b : σ) (hij : i ≤ j)
    (ha : st[j]? = some a) (hb : st[j + 1]? = some b) :
    pathLen dist ((st.take (j + 1 + 1)).drop i) = pathLen dist ((st.take (j + 1)).drop i) + dist a b := by
  obtain ⟨hj, rfl⟩ := List.getElem?_eq_some_iff.mp ha
  obtain ⟨hj1, rfl⟩ := List.getElem?_eq_some_iff.mp hb
  have hlast : ((st.take (j + 1)).drop i).getLast? = some st[j] := by
    rw [List.getLast?_drop, if_neg (by rw [List.length_take]; omega), getLast?_take_succ st j hj]
  obtain ⟨A, hA⟩ := List.getLast?_eq_some_iff.mp hlast
  rw [List.take_succ_eq_append_getElem hj1,
    List.drop_append_of_le_length (by rw [List.length_take]; omega), hA, List.append_assoc,
    List.singleton_append, pathLen_append_cons dist A st[j] [st[j + 1]]]
  simp only [pathLen, add_zero]

theorem ppAlong_eq (O : Obj σ γ) (hcomb : ∀ a b, O.combine a b = a + b) (st : List σ) :
    ∀ (n : Nat) (acc : γ) (p : Nat) (r : γ), ppAlong O st.toArray n acc p = some r →
      r = acc + pathLen O.motion ((st.take (p + n + 1)).drop p) := by
  intro n
  induction n with
  | zero =>
    intro acc p r h
    simp only [ppAlong, Option.some.injEq] at h
    rw [pp_pathLen_short _ _ (by simp; omega), add_zero, h]
  | succ n ih =>
    intro acc p r h
    rw [ppAlong] at h
    split at h
    · next a b ha hb =>
      rw [List.getElem?_toArray] at ha hb
      have := ih _ _ _ h
      rw [this, hcomb, show p + (n + 1) + 1 = (p + n + 1) + 1 by omega,
        pp_seg_head O.motion st p (p + n + 1) a b (by omega) ha hb, add_assoc,
        show p + 1 + n + 1 = p + n + 1 + 1 by omega]
    · cases h

/-- a stretch `x :: (M ++ [y])` between the last state of `T` and the first state of `D` -/
theorem pp_pathLen_sandwich (dist : σ → σ → γ) (T M D : List σ) (x y : σ)
    (hT : T.getLast? = some x) (hD : D.head? = some y) :
    pathLen dist (T ++ (M ++ D)) = pathLen dist T + pathLen dist (x :: (M ++ [y])) + pathLen dist D := by
  obtain ⟨T', rfl⟩ := List.getLast?_eq_some_iff.mp hT
  cases D with
  | nil => simp at hD
  | cons y' D' =>
    simp only [List.head?_cons, Option.some.injEq] at hD
    subst hD
    rw [List.append_assoc, List.singleton_append, pathLen_append_cons dist T' x (M ++ y' :: D'),
      pathLen_cons_append dist M x y' D', add_assoc]


theorem pp_getLast?_take (st : List σ) (k : Nat) (x : σ) (h : st[k]? = some x) :
    (st.take (k + 1)).getLast? = some x := by
  obtain ⟨hk, rfl⟩ := List.getElem?_eq_some_iff.mp h
  exact getLast?_take_succ st k hk

/-- the routine's `alongPath` for `posB < posA`: first partial motion, whole motions, last partial motion -/
theorem ppAlongCost_of_lt (E : PpEnv σ α γ) (hid : E.O.identity = 0)
    (hcomb : ∀ a b, E.O.combine a b = a + b) (st : List σ) (posB : Nat) (idxB : Bool) (before : σ)
    (posA : Nat) (idxA : Bool) (after : σ) (along : γ) (hlt : posB < posA)
    (h : ppAlongCost E st posB idxB before posA idxA after = some along) :
    ∃ f l, (if idxB then some 0 else (st[posB + 1]?).map fun x => E.O.motion before x) = some f ∧
      (if idxA then some 0 else (st[posA]?).map fun x => E.O.motion x after) = some l ∧
      along = f + pathLen E.O.motion ((st.take (posA + 1)).drop (if idxB then posB else posB + 1)) + l := by
  unfold ppAlongCost at h
  simp only [if_neg (Nat.ne_of_lt hlt), List.getElem?_toArray, hid] at h
  split at h
  · next f l hf hl =>
    simp only [Option.map_eq_some_iff] at h
    obtain ⟨r, hr, rfl⟩ := h
    have := ppAlong_eq E.O hcomb st _ _ _ _ hr
    refine ⟨f, l, hf, hl, ?_⟩
    rw [hcomb, this]
    have : (if idxB = true then posB else posB + 1) + (posA - if idxB = true then posB else posB + 1) + 1 =
        posA + 1 := by split <;> omega
    rw [this]
  · cases h

/-- cost of the new stretch between the kept vertices `x = st[posB]` and `y` -/
theorem pp_new_eq (E : PpEnv σ α γ) (hcomb : ∀ a b, E.O.combine a b = a + b) (idxB idxA : Bool)
    (x y before new after : σ) (hxb : idxB = true → x = before) (hya : idxA = true → y = after) :
    pathLen E.O.motion (x :: (((if idxB then [] else [before]) ++ [new] ++ (if idxA then [] else [after])) ++ [y])) =
      (if idxB then 0 else E.O.motion x before) + ppNewCost E before new after +
        (if idxA then 0 else E.O.motion after y) := by
  cases idxB <;> cases idxA <;>
    simp only [Bool.false_eq_true, if_false, if_true, List.cons_append, List.nil_append, pathLen,
      ppNewCost, hcomb, add_zero, zero_add, add_assoc]
  · rw [hya rfl]
  · rw [hxb rfl]
  · rw [hxb rfl, hya rfl]

/-- cost of the replaced stretch `st[posB .. dA]`, `dA` = the first kept vertex behind `after`, in terms
of the routine's `alongPath`, given additive cuts -/
theorem pp_old_eq (E : PpEnv σ α γ) (hid : E.O.identity = 0) (hcomb : ∀ a b, E.O.combine a b = a + b)
    (st : List σ) (posB : Nat) (idxB : Bool) (before : σ) (posA : Nat) (idxA : Bool) (after : σ)
    (along : γ) (x y : σ)
    (hal : ppAlongCost E st posB idxB before posA idxA after = some along)
    (hx : st[posB]? = some x) (hy : st[posA + (if idxA then 0 else 1)]? = some y)
    (hxb : idxB = true → x = before) (hya : idxA = true → y = after)
    (hBA : posB ≤ posA) (hlt : idxA = true → posB < posA)
    (hcB : idxB = false → ∀ v, st[posB + 1]? = some v →
      E.O.motion x before + E.O.motion before v = E.O.motion x v)
    (hcA : idxA = false → ∀ w, st[posA]? = some w →
      E.O.motion w after + E.O.motion after y = E.O.motion w y)
    (hsame : idxB = false → idxA = false → posB = posA →
      E.O.motion before after + E.O.motion after y = E.O.motion before y) :
    pathLen E.O.motion ((st.take (posA + (if idxA then 0 else 1) + 1)).drop posB) =
      (if idxB then 0 else E.O.motion x before) + along + (if idxA then 0 else E.O.motion after y) := by
  cases idxA <;> simp only [Bool.false_eq_true, if_false, if_true, Nat.add_zero, add_zero] at hy ⊢
  · -- `after` inside `(posA, posA + 1)`
    obtain ⟨w, hw⟩ : ∃ w, st[posA]? = some w :=
      ⟨_, List.getElem?_eq_getElem (by have := (List.getElem?_eq_some_iff.mp hy).1; omega)⟩
    rw [pp_seg_last E.O.motion st posB posA w y hBA hw hy]
    by_cases hp : posB = posA
    · subst hp
      rw [hx, Option.some.injEq] at hw
      subst hw
      rw [ppAlongCost_of_eq E st posB idxB before false after along hal,
        pp_pathLen_short _ _ (by simp; omega), zero_add]
      cases idxB <;> simp only [Bool.false_eq_true, if_false, if_true, zero_add]
      · rw [← hcB rfl y hy, ← hsame rfl rfl rfl]
        simp only [add_assoc]
      · rw [← hcA rfl x hx, hxb rfl]
    · obtain ⟨f, l, hf, hl, rfl⟩ := ppAlongCost_of_lt E hid hcomb st posB idxB before posA false after
        along (by omega) hal
      simp only [Bool.false_eq_true, if_false, hw, Option.map_some, Option.some.injEq] at hl
      subst hl
      cases idxB <;> simp only [Bool.false_eq_true, if_false, if_true, zero_add] at hf ⊢
      · obtain ⟨v, hv, rfl⟩ := Option.map_eq_some_iff.mp hf
        rw [pp_seg_head E.O.motion st posB posA x v (by omega) hx hv, ← hcB rfl v hv, ← hcA rfl w hw]
        simp only [add_assoc]
      · rw [Option.some.injEq] at hf
        subst hf
        rw [← hcA rfl w hw]
        simp only [zero_add, add_assoc]
  · -- `after` snapped to the vertex `posA`
    have hlt' := hlt rfl
    obtain ⟨f, l, hf, hl, rfl⟩ := ppAlongCost_of_lt E hid hcomb st posB idxB before posA true after
      along hlt' hal
    simp only [if_true, Option.some.injEq] at hl
    subst hl
    cases idxB <;> simp only [Bool.false_eq_true, if_false, if_true, zero_add, add_zero] at hf ⊢
    · obtain ⟨v, hv, rfl⟩ := Option.map_eq_some_iff.mp hf
      rw [pp_seg_head E.O.motion st posB posA x v hlt' hx hv, ← hcB rfl v hv]
      simp only [add_assoc]
    · rw [Option.some.injEq] at hf
      subst hf
      simp only [zero_add]


variable [PartialOrder γ] [IsOrderedAddMonoid γ]

/-- (4b) one accepted iteration does not increase the path cost: additive objective
(`identity = 0`, `combine = +`), `isCostBetterThan(a, b) → a ≤ b` as the ONLY link between the coded
comparison and the order, the two monotonicity facts, and additive cuts (an unsnapped `before`/`after`
lies ON its segment; if both lie in the same segment, `after` lies behind `before`) -/
theorem PpAcc.pathLen_le {E : PpEnv σ α γ} {st st' : List σ} {posB : Nat} {idxB : Bool} {before : σ}
    {posA : Nat} {idxA : Bool} {after new : σ} {along : γ}
    (hid : E.O.identity = 0) (hcomb : ∀ a b, E.O.combine a b = a + b)
    (hlink : ∀ a b, E.O.better a b = true → a ≤ b)
    (a : PpAcc E st st' posB idxB before posA idxA after new along)
    (hBA : posB ≤ posA) (hlt : idxA = true → posB < posA)
    (hcB : idxB = false → ∀ x v, st[posB]? = some x → st[posB + 1]? = some v →
      E.O.motion x before + E.O.motion before v = E.O.motion x v)
    (hcA : idxA = false → ∀ w y, st[posA]? = some w → st[posA + 1]? = some y →
      E.O.motion w after + E.O.motion after y = E.O.motion w y)
    (hsame : idxB = false → idxA = false → posB = posA → ∀ y, st[posA + 1]? = some y →
      E.O.motion before after + E.O.motion after y = E.O.motion before y) :
    pathLen E.O.motion st' ≤ pathLen E.O.motion st := by
  have hnew : ppNewCost E before new after ≤ along := hlink _ _ a.better_new
  have hdA := a.inRange
  have hB : posB < st.length := a.selB.1
  have hBd : posB + 1 ≤ posA + (if idxA then 0 else 1) := by
    cases hi : idxA
    · simp only [Bool.false_eq_true, if_false]; omega
    · have := hlt hi
      simp only [if_true]; omega
  obtain ⟨x, hx⟩ : ∃ x, st[posB]? = some x := ⟨_, List.getElem?_eq_getElem hB⟩
  obtain ⟨y, hy⟩ : ∃ y, st[posA + (if idxA then 0 else 1)]? = some y :=
    ⟨_, List.getElem?_eq_getElem hdA⟩
  have hxb : idxB = true → x = before := fun hi => by
    have := a.selB.2.1 hi
    rw [hx] at this
    exact Option.some.inj this
  have hya : idxA = true → y = after := fun hi => by
    have := a.selA.2.1 hi
    subst hi
    simp only [if_true, Nat.add_zero] at hy
    rw [hy] at this
    exact Option.some.inj this
  have hT := pp_getLast?_take st posB x hx
  have hD : (st.drop (posA + (if idxA then 0 else 1))).head? = some y := by
    rw [List.head?_drop]; exact hy
  have hold : x :: ((st.take (posA + (if idxA then 0 else 1))).drop (posB + 1) ++ [y]) =
      (st.take (posA + (if idxA then 0 else 1) + 1)).drop posB := by
    obtain ⟨hd, rfl⟩ := List.getElem?_eq_some_iff.mp hy
    rw [List.take_succ_eq_append_getElem hd,
      List.drop_append_of_le_length (by rw [List.length_take]; omega),
      pp_drop_cons (st.take (posA + (if idxA then 0 else 1))) posB x
        (by rw [List.getElem?_take_of_lt (by omega)]; exact hx)]
    rfl
  have e2 := congrArg (pathLen E.O.motion)
    (eq_take_mid_drop st (posB + 1) (posA + (if idxA then 0 else 1)) hBd)
  rw [pp_pathLen_sandwich _ _ _ _ x y hT hD, hold,
    pp_old_eq E hid hcomb st posB idxB before posA idxA after along x y a.along_eq hx hy hxb hya hBA hlt
      (fun hi v hv => hcB hi x v hx hv)
      (fun hi w hw => hcA hi w y hw (by simpa only [hi, Bool.false_eq_true, if_false] using hy))
      (fun hi hj hp => hsame hi hj hp y (by simpa only [hj, Bool.false_eq_true, if_false] using hy))] at e2
  rw [e2, a.canon hBA hlt, List.append_assoc, pp_pathLen_sandwich _ _ _ _ x y hT hD,
    pp_new_eq E hcomb idxB idxA x y before new after hxb hya]
  exact add_le_add (add_le_add (le_refl _) (add_le_add (add_le_add (le_refl _) hnew) (le_refl _)))
    (le_refl _)

omit [PartialOrder γ] [IsOrderedAddMonoid γ] in
/-- additive cuts for the two `selectAlongPath` results of one iteration: an unsnapped `before`
(`after`) lies on its segment, and if both lie in the same segment, `after` lies on the rest of it behind
`before`.  (True for a geodesic `interpolate` with an objective that is additive along geodesics, e.g.
path length; it needs `t_before ≤ t_after` in the third clause, hence it is tied to the calls.) -/
def PpCutsAdditive (E : PpEnv σ α γ) : Prop :=
  ∀ (st : List σ) (posB : Nat) (idxB : Bool) (before : σ) (posA : Nat) (idxA : Bool) (after : σ),
    PpCalls E st posB idxB before posA idxA after →
    (idxB = false → ∀ x v, st[posB]? = some x → st[posB + 1]? = some v →
      E.O.motion x before + E.O.motion before v = E.O.motion x v) ∧
    (idxA = false → ∀ w y, st[posA]? = some w → st[posA + 1]? = some y →
      E.O.motion w after + E.O.motion after y = E.O.motion w y) ∧
    (idxB = false → idxA = false → posB = posA → ∀ y, st[posA + 1]? = some y →
      E.O.motion before after + E.O.motion after y = E.O.motion before y)

theorem PpAccepted.pathLen_le {E : PpEnv σ α γ} (hm : PpMonotone E) (hc : PpCutsAdditive E)
    (hid : E.O.identity = 0) (hcomb : ∀ a b, E.O.combine a b = a + b)
    (hlink : ∀ a b, E.O.better a b = true → a ≤ b) {st st' : List σ} (s : PpAccepted E st st') :
    pathLen E.O.motion st' ≤ pathLen E.O.motion st := by
  cases s with
  | mk a =>
    obtain ⟨h1, h2, h3⟩ := hc _ _ _ _ _ _ _ a.calls
    exact a.pathLen_le hid hcomb hlink (a.mono hm).1 (a.mono hm).2 h1 h2 h3

theorem PpAcceptedStar.pathLen_le {E : PpEnv σ α γ} (hm : PpMonotone E) (hc : PpCutsAdditive E)
    (hid : E.O.identity = 0) (hcomb : ∀ a b, E.O.combine a b = a + b)
    (hlink : ∀ a b, E.O.better a b = true → a ≤ b) {st out : List σ} (h : PpAcceptedStar E st out) :
    pathLen E.O.motion out ≤ pathLen E.O.motion st := by
  induction h with
  | refl => exact le_refl _
  | step _ s ih => exact le_trans (s.pathLen_le hm hc hid hcomb hlink) ih

/-- (4b) whole routine: the path cost (`PathGeometric::cost` for an additive objective) never increases.
`_partial`: needs `PpMonotone E` and `PpCutsAdditive E`. -/
theorem perturbPath_never_worse_partial {E : PpEnv σ α γ} (hm : PpMonotone E) (hc : PpCutsAdditive E)
    (hid : E.O.identity = 0) (hcomb : ∀ a b, E.O.combine a b = a + b)
    (hlink : ∀ a b, E.O.better a b = true → a ≤ b) {ms me : Nat} {path out : List σ} {r : Bool}
    (h : perturbPath E ms me path = some (out, r)) : E.O.pathCost out ≤ E.O.pathCost path := by
  rw [E.O.pathCost_eq_pathLen hid hcomb, E.O.pathCost_eq_pathLen hid hcomb]
  exact (perturbPath_steps h).pathLen_le hm hc hid hcomb hlink

end Cost

/-! ## 3 (indices). where `none` can come from

These proofs follow the arithmetic of `ppBody`/`selectAlong` more closely than parts 1-4 (they look at
how `pick`, `dci[z]`, `dists[get<2>(dci[z])]` are read); nothing above depends on them. -/

theorem ppPickSeg_lt (N : NumOps α) (dci : Array (α × γ × Nat)) :
    ∀ (fuel : Nat) (cb : α) (z : Nat) (cb' : α) (z' : Nat),
      ppPickSeg N dci fuel cb z = some (cb', z') → z' < dci.size := by
  intro fuel
  induction fuel with
  | zero => intro cb z cb' z' h; simp [ppPickSeg] at h
  | succ f ih =>
    intro cb z cb' z' h
    rw [ppPickSeg] at h
    split at h
    · cases h
    · next e he =>
      split at h
      · exact ih _ _ _ _ h
      · simp only [Option.some.injEq, Prod.mk.injEq] at h
        obtain ⟨_, rfl⟩ := h
        exact (Array.getElem?_eq_some_iff.mp he).1

theorem mem_insertStd_fromRight {β : Type} (comp : β → β → Bool) (val : β) :
    ∀ (rs acc : List β) (x : β), x ∈ insertStd.fromRight comp val rs acc → x = val ∨ x ∈ rs ∨ x ∈ acc := by
  intro rs
  induction rs with
  | nil => intro acc x h; simpa [insertStd.fromRight] using h
  | cons e r ih =>
    intro acc x h
    rw [insertStd.fromRight] at h
    split at h
    · rcases ih _ _ h with h | h | h
      · exact Or.inl h
      · exact Or.inr (Or.inl (List.mem_cons_of_mem _ h))
      · rcases List.mem_cons.mp h with h | h
        · exact Or.inr (Or.inl (h ▸ List.mem_cons_self))
        · exact Or.inr (Or.inr h)
    · simp only [List.mem_append, List.mem_reverse, List.mem_cons] at h
      rcases h with h | h | h | h
      · exact Or.inr (Or.inl (List.mem_cons_of_mem _ h))
      · exact Or.inr (Or.inl (h ▸ List.mem_cons_self))
      · exact Or.inl h
      · exact Or.inr (Or.inr h)

theorem mem_insertStd {β : Type} (comp : β → β → Bool) (sorted : List β) (val x : β)
    (h : x ∈ insertStd comp sorted val) : x = val ∨ x ∈ sorted := by
  unfold insertStd at h
  split at h
  · simpa using h
  · split at h
    · simpa using h
    · rcases mem_insertStd_fromRight comp val _ _ x h with h | h | h
      · exact Or.inl h
      · exact Or.inr (List.mem_reverse.mp h)
      · simp at h

theorem mem_sortStd {β : Type} (comp : β → β → Bool) (l : List β) (x : β) (h : x ∈ sortStd comp l) :
    x ∈ l := by
  have : ∀ (l acc : List β), x ∈ l.foldl (insertStd comp) acc → x ∈ acc ∨ x ∈ l := by
    intro l
    induction l with
    | nil => intro acc h; exact Or.inl h
    | cons v r ih =>
      intro acc h
      rcases ih _ h with h | h
      · rcases mem_insertStd comp acc v x h with h | h
        · exact Or.inr (h ▸ List.mem_cons_self)
        · exact Or.inl h
      · exact Or.inr (List.mem_cons_of_mem _ h)
  rcases this l [] h with h | h
  · simp at h
  · exact h

/-- every entry of `distCostIndices` carries a segment index `< size - 1` -/
theorem distCostIndices_idx (E : PpEnv σ α γ) (st : List σ) (e : α × γ × Nat)
    (h : e ∈ distCostIndices E st) : e.2.2 + 1 < st.length := by
  unfold distCostIndices at h
  have := mem_sortStd _ _ _ h
  simp only [List.mem_map] at this
  obtain ⟨⟨p, i⟩, hp, rfl⟩ := this
  have := (List.of_mem_zip hp).2
  simp only [List.mem_range] at this
  show i + 1 < st.length
  omega

theorem pp_adj_length : ∀ (l : List σ), (adj l).length = l.length - 1
  | [] => rfl
  | [_] => rfl
  | _ :: b :: r => by simp only [adj, List.length_cons, pp_adj_length (b :: r)]; omega

theorem length_insertStd {β : Type} (comp : β → β → Bool) (sorted : List β) (val : β) :
    (insertStd comp sorted val).length = sorted.length + 1 := by
  have hfr : ∀ (rs acc : List β), (insertStd.fromRight comp val rs acc).length = rs.length + acc.length + 1 := by
    intro rs
    induction rs with
    | nil => intro acc; simp [insertStd.fromRight]
    | cons e r ih =>
      intro acc
      rw [insertStd.fromRight]
      split
      · rw [ih]; simp only [List.length_cons]; omega
      · simp only [List.length_append, List.length_reverse, List.length_cons]; omega
  unfold insertStd
  split
  · rfl
  · split
    · rfl
    · rw [hfr]; simp

theorem length_sortStd {β : Type} (comp : β → β → Bool) (l : List β) : (sortStd comp l).length = l.length := by
  have : ∀ (l acc : List β), (l.foldl (insertStd comp) acc).length = acc.length + l.length := by
    intro l
    induction l with
    | nil => intro acc; rfl
    | cons v r ih => intro acc; simp only [List.foldl_cons, ih, length_insertStd, List.length_cons]; omega
  simpa [sortStd] using this l []

theorem distCostIndices_length (E : PpEnv σ α γ) (st : List σ) :
    (distCostIndices E st).length = st.length - 1 := by
  simp [distCostIndices, length_sortStd, pp_adj_length]

theorem ppAlong_isSome (O : Obj σ γ) (st : Array σ) :
    ∀ (n : Nat) (acc : γ) (p : Nat), (n = 0 ∨ p + n < st.size) → ∃ r, ppAlong O st n acc p = some r := by
  intro n
  induction n with
  | zero => intro acc p _; exact ⟨acc, rfl⟩
  | succ n ih =>
    intro acc p h
    have h' : p + (n + 1) < st.size := by omega
    rw [ppAlong, Array.getElem?_eq_getElem (show p < st.size by omega),
      Array.getElem?_eq_getElem (show p + 1 < st.size by omega)]
    exact ih _ _ (by omega)

/-- `alongPath` never reads out of range (no law, no monotonicity: for `posA < start` the loop does not run) -/
theorem ppAlongCost_isSome (E : PpEnv σ α γ) (st : List σ) (posB : Nat) (idxB : Bool) (before : σ)
    (posA : Nat) (idxA : Bool) (after : σ) (hB : SelFacts E.interp st posB idxB before)
    (hA : SelFacts E.interp st posA idxA after) :
    ∃ along, ppAlongCost E st posB idxB before posA idxA after = some along := by
  unfold ppAlongCost
  simp only [List.getElem?_toArray]
  split
  · exact ⟨_, rfl⟩
  · have hf : ∃ f, (if idxB = true then some E.O.identity
        else Option.map (fun x => E.O.motion before x) st[posB + 1]?) = some f := by
      cases hi : idxB
      · rw [List.getElem?_eq_getElem (hB.2.2 hi).1]; exact ⟨_, rfl⟩
      · exact ⟨_, rfl⟩
    have hl : ∃ l, (if idxA = true then some E.O.identity
        else Option.map (fun x => E.O.motion x after) st[posA]?) = some l := by
      cases hi : idxA
      · rw [List.getElem?_eq_getElem hA.1]; exact ⟨_, rfl⟩
      · exact ⟨_, rfl⟩
    obtain ⟨f, hf⟩ := hf
    obtain ⟨l, hl⟩ := hl
    rw [hf, hl]
    simp only
    have hst : (if idxB = true then posB else posB + 1) < st.length := by
      cases hi : idxB
      · simpa using (hB.2.2 hi).1
      · simpa using hB.1
    obtain ⟨r, hr⟩ := ppAlong_isSome E.O st.toArray (posA - if idxB = true then posB else posB + 1) f
      (if idxB = true then posB else posB + 1) (by
        have := hA.1
        simp only [List.size_toArray]
        omega)
    rw [hr]
    exact ⟨_, rfl⟩

theorem ppBody_none_sources (E : PpEnv σ α γ) (st : List σ) (hnk : α) (smp : σ)
    (h : ppBody E st hnk smp = none) :
    st.length ≤ 1 ∨
    (∃ cb, ppPickSeg E.N (distCostIndices E st).toArray ((distCostIndices E st).toArray.size + 1) cb 0 = none) ∨
    (∃ d thr, selectAlong E.N E.interp (cumDistsG E.N E.dist st).toArray st.toArray d thr = none) ∨
    (∃ posB idxB before posA idxA after new, PpCalls E st posB idxB before posA idxA after ∧
      ¬ (idxB = true ∧ idxA = true ∧ posB = posA) ∧
      ppSplice st posB idxB posA idxA before new after = none) := by
  have hds : (cumDistsG E.N E.dist st).toArray.size = st.length := by
    rw [List.size_toArray, pp_cumDistsG_length]
  have hdci : (distCostIndices E st).toArray.size = st.length - 1 := by
    rw [List.size_toArray, distCostIndices_length]
  unfold ppBody at h
  simp only [] at h
  split at h
  · -- `dists.back()` of an empty vector
    next hb =>
    rw [Array.getElem?_eq_none_iff] at hb
    exact Or.inl (by omega)
  split at h
  · -- no segment picked
    next hp =>
    split at hp
    · rw [Option.map_eq_none_iff, Array.getElem?_eq_none_iff] at hp
      exact Or.inl (by omega)
    · exact Or.inr (Or.inl ⟨_, hp⟩)
  next cb z hp =>
  have hz : z < (distCostIndices E st).toArray.size := by
    split at hp
    · simp only [Option.map_eq_some_iff, Prod.mk.injEq] at hp
      obtain ⟨e, he, _, rfl⟩ := hp
      have := (Array.getElem?_eq_some_iff.mp he).1
      omega
    · exact ppPickSeg_lt _ _ _ _ _ _ _ hp
  split at h
  · next hn =>
    rw [Array.getElem?_eq_none_iff] at hn
    omega
  next e he =>
  split at h
  · next hn =>
    rw [Array.getElem?_eq_none_iff] at hn
    have hmem : e ∈ distCostIndices E st := by
      obtain ⟨hz', rfl⟩ := Array.getElem?_eq_some_iff.mp he
      simp
    have := distCostIndices_idx E st e hmem
    omega
  split at h
  · next hP hB hA =>
    have hcalls : PpCalls E st _ _ _ _ _ _ := ⟨_, _, _, ‹_›, rfl, hB, hA⟩
    split at h
    · cases h
    next hne =>
    split at h
    · next hcm =>
      simp only [Bool.and_eq_true, beq_iff_eq] at hcm hne
      split at h
      · next hal =>
        obtain ⟨al, hal'⟩ := ppAlongCost_isSome E st _ _ _ _ _ _ (selectAlong_selFacts _ _ _ _ _ _ hB)
          (selectAlong_selFacts _ _ _ _ _ _ hA)
        have : ppAlongCost E st _ _ _ _ _ _ = none := hal
        rw [this] at hal'
        cases hal'
      split at h
      · cases h
      split at h
      · cases h
      · next hsp =>
        exact Or.inr (Or.inr (Or.inr ⟨_, _, _, _, _, _, _, hcalls, fun ⟨a, b, c⟩ => hne ⟨⟨a, b⟩, c⟩, hsp⟩))
    · cases h
  · -- one of the three `selectAlongPath` calls failed
    next hx =>
    refine Or.inr (Or.inr (Or.inl ?_))
    apply Classical.byContradiction
    intro hcon
    have hs : ∀ d thr, ∃ p i s, selectAlong E.N E.interp (cumDistsG E.N E.dist st).toArray st.toArray d thr =
        some (p, i, s) := by
      intro d thr
      cases hr : selectAlong E.N E.interp (cumDistsG E.N E.dist st).toArray st.toArray d thr with
      | none => exact absurd ⟨d, thr, hr⟩ hcon
      | some r => exact ⟨r.1, r.2.1, r.2.2, rfl⟩
    apply hx <;> exact (hs _ _).choose_spec.choose_spec.choose_spec

theorem walkDownG_le (N : NumOps α) (ds : Array α) (d : α) : ∀ p, selectAlong.walkDownG N ds d p ≤ p := by
  intro p
  induction p with
  | zero => simp [selectAlong.walkDownG]
  | succ k ih =>
    rw [selectAlong.walkDownG]
    split
    · split
      · omega
      · exact Nat.le_refl _
    · exact Nat.le_refl _

theorem walkDownG_eq_self (N : NumOps α) (ds : Array α) (d : α) (k : Nat) (dk : α)
    (h : selectAlong.walkDownG N ds d (k + 1) = k + 1) (hk : ds[k + 1]? = some dk) : N.lt d dk = false := by
  rw [selectAlong.walkDownG, hk] at h
  simp only at h
  split at h
  · have := walkDownG_le N ds d k
    omega
  · exact (Bool.not_eq_true _).mp ‹¬ _›

theorem pp_lowerBoundG_le (N : NumOps α) (ds : List α) (x : α) : lowerBoundG N ds x ≤ ds.length :=
  (List.takeWhile_sublist _).length_le

/-- `selectAlongPath` on equally long non-empty `dists`/`states` goes out of range in exactly one situation:
the walk-down stopped at the LAST vertex without snapping (then `states[pos + 1]` is read).  For the clamped
`distTo` this means: not `< dists.back()`, and neither `dists.back() - distTo ≤ threshold` nor
`distTo - dists.back() < threshold` — impossible for `distTo ≤ dists.back()`, `threshold ≥ 0` in exact
arithmetic; it needs a NaN or a negative threshold. -/
theorem selectAlong_none_sources (N : NumOps α) (interp : σ → σ → α → σ) (ds : Array α) (st : Array σ)
    (d thr : α) (hsz : ds.size = st.size) (hpos : 0 < st.size)
    (h : selectAlong N interp ds st d thr = none) :
    ∃ d' dl, 1 < st.size ∧ ds[st.size - 1]? = some dl ∧ N.le (N.sub dl d') thr = false ∧
      N.lt d' dl = false ∧ N.lt (N.sub d' dl) thr = false := by
  unfold selectAlong at h
  split at h
  · next hb => rw [Array.getElem?_eq_none_iff] at hb; omega
  extract_lets d' lb pos at h
  have hlb : lb ≤ ds.size := by
    have := pp_lowerBoundG_le N ds.toList d'
    simpa using this
  have hp : pos < ds.size := by
    show (if lb = ds.size then ds.size - 1 else lb) < ds.size
    split <;> omega
  split at h
  · next hn => rw [Array.getElem?_eq_none_iff] at hn; omega
  next dp hdp =>
  extract_lets walk at h
  by_cases hc : (pos = 0 || N.le (N.sub dp d') thr) = true
  · have hw : walk = (pos, true) := if_pos hc
    rw [hw] at h
    simp only [if_true, Option.map_eq_none_iff, Array.getElem?_eq_none_iff] at h
    omega
  · have hw : walk = (selectAlong.walkDownG N ds d' pos, match ds[selectAlong.walkDownG N ds d' pos]? with
        | some d => N.lt (N.sub d' d) thr
        | none => false) := if_neg hc
    have hle := walkDownG_le N ds d' pos
    generalize hq : selectAlong.walkDownG N ds d' pos = q at hw hle
    rw [hw] at h
    simp only [Bool.or_eq_true, decide_eq_true_eq, not_or, Bool.not_eq_true] at hc
    obtain ⟨dq, hdq⟩ : ∃ dq, ds[q]? = some dq := ⟨_, Array.getElem?_eq_getElem (by omega)⟩
    obtain ⟨sq, hsq⟩ : ∃ sq, st[q]? = some sq := ⟨_, Array.getElem?_eq_getElem (by omega)⟩
    simp only [hdq, hsq] at h
    split at h
    · simp at h
    · next hsnap =>
      have hq1 : ¬ (q + 1 < st.size) := by
        intro hq
        obtain ⟨d1, hd1⟩ : ∃ d1, ds[q + 1]? = some d1 := ⟨_, Array.getElem?_eq_getElem (by omega)⟩
        obtain ⟨s1, hs1⟩ : ∃ s1, st[q + 1]? = some s1 := ⟨_, Array.getElem?_eq_getElem hq⟩
        simp [hd1, hs1] at h
      have hqp : q = pos := by omega
      have hps : pos = st.size - 1 := by omega
      subst hqp
      rw [hdp, Option.some.injEq] at hdq
      subst hdq
      refine ⟨d', dp, by omega, by rw [← hps]; exact hdp, hc.2, ?_, by simpa using hsnap⟩
      obtain ⟨k, hk⟩ : ∃ k, pos = k + 1 := ⟨pos - 1, by have := hc.1; omega⟩
      rw [hk] at hq hdp
      exact walkDownG_eq_self N ds d' k dp hq hdp

/-- the loop fails only if the body fails on a vector reached by accepted iterations -/
theorem ppLoop_none (E : PpEnv σ α γ) (maxEmpty : Nat) :
    ∀ (fuel i nochange k : Nat) (st : List σ) (res : Bool),
      ppLoop E maxEmpty fuel i nochange k st res = none →
      ∃ st' i' k', PpAcceptedStar E st st' ∧ ppBody E st' (E.hn i') (E.samp k') = none := by
  intro fuel
  induction fuel with
  | zero => intro i nc k st res h; simp [ppLoop] at h
  | succ f ih =>
    intro i nc k st res h
    rw [ppLoop] at h
    split at h
    · split at h
      · next hb => exact ⟨st, _, _, .refl _, hb⟩
      · exact ih _ _ _ _ _ h
      · next st1 hb =>
        obtain ⟨st', i', k', hs, hn⟩ := ih _ _ _ _ _ h
        exact ⟨st', i', k', PpAcceptedStar.head (ppBody_accepted hb) hs, hn⟩
    · cases h

/-- (3, indices) `perturbPath` returns `none` (= the C++ would index a vector out of range) only if, on
some vector `st` reached by accepted iterations, the body hits one of the listed sources -/
theorem perturbPath_indices_partial {E : PpEnv σ α γ} {ms me : Nat} {path : List σ}
    (h : perturbPath E ms me path = none) :
    ∃ st, PpAcceptedStar E path st ∧
      (st.length ≤ 1 ∨
      (∃ cb, ppPickSeg E.N (distCostIndices E st).toArray ((distCostIndices E st).toArray.size + 1) cb 0 = none) ∨
      (∃ d thr, selectAlong E.N E.interp (cumDistsG E.N E.dist st).toArray st.toArray d thr = none) ∨
      (∃ posB idxB before posA idxA after new, PpCalls E st posB idxB before posA idxA after ∧
        ¬ (idxB = true ∧ idxA = true ∧ posB = posA) ∧
        ppSplice st posB idxB posA idxA before new after = none)) := by
  obtain ⟨st, i, k, hs, hn⟩ := ppLoop_none E _ _ _ _ _ _ _ h
  exact ⟨st, hs, ppBody_none_sources E st _ _ hn⟩

theorem PpCalls.selFacts {E : PpEnv σ α γ} {st : List σ} {posB : Nat} {idxB : Bool} {before : σ}
    {posA : Nat} {idxA : Bool} {after : σ} (h : PpCalls E st posB idxB before posA idxA after) :
    SelFacts E.interp st posB idxB before ∧ SelFacts E.interp st posA idxA after := by
  obtain ⟨_, _, _, _, _, hB, hA⟩ := h
  exact ⟨selectAlong_selFacts _ _ _ _ _ _ hB, selectAlong_selFacts _ _ _ _ _ _ hA⟩

/-- with a monotone `selectAlongPath` the splice never goes out of range -/
theorem ppBody_none_sources_mono {E : PpEnv σ α γ} (hm : PpMonotone E) (st : List σ) (hnk : α) (smp : σ)
    (h : ppBody E st hnk smp = none) :
    st.length ≤ 1 ∨
    (∃ cb, ppPickSeg E.N (distCostIndices E st).toArray ((distCostIndices E st).toArray.size + 1) cb 0 = none) ∨
    (∃ d thr, selectAlong E.N E.interp (cumDistsG E.N E.dist st).toArray st.toArray d thr = none) := by
  rcases ppBody_none_sources E st hnk smp h with h | h | h | ⟨posB, idxB, before, posA, idxA, after, new, hc, hne, hsp⟩
  · exact Or.inl h
  · exact Or.inr (Or.inl h)
  · exact Or.inr (Or.inr h)
  · obtain ⟨hBA, hlt⟩ := hm _ _ _ _ _ _ _ hc hne
    have hA := hc.selFacts.2
    have hr : posA + (if idxA then 0 else 1) < st.length := by
      cases hi : idxA
      · simpa using (hA.2.2 hi).1
      · simpa using hA.1
    obtain ⟨out, ho, _⟩ := ppSplice_spec st posB posA idxB idxA before new after hBA hr hlt
    rw [hsp] at ho
    cases ho

theorem perturbPath_indices_mono {E : PpEnv σ α γ} (hm : PpMonotone E) {ms me : Nat} {path : List σ}
    (h : perturbPath E ms me path = none) :
    ∃ st, PpAcceptedStar E path st ∧
      (st.length ≤ 1 ∨
      (∃ cb, ppPickSeg E.N (distCostIndices E st).toArray ((distCostIndices E st).toArray.size + 1) cb 0 = none) ∨
      (∃ d thr, selectAlong E.N E.interp (cumDistsG E.N E.dist st).toArray st.toArray d thr = none)) := by
  obtain ⟨st, i, k, hs, hn⟩ := ppLoop_none E _ _ _ _ _ _ _ h
  exact ⟨st, hs, ppBody_none_sources_mono hm st _ _ hn⟩
/-! ## 5. `PpMonotone` from explicit order laws (3b)

Like the previous part this follows the arithmetic of `selectAlong` closely (`selectAlong_char`); nothing in
parts 1-4 depends on it. -/

/-- order laws used for the monotonicity of `selectAlongPath`: `<=` is a total preorder, `<` is its strict
part, subtraction is monotone in its first and antitone in its second argument.  They hold in `ℚ`/`ℝ`, and for
doubles as long as no NaN/overflow occurs (rounding is monotone); they do NOT hold for all doubles (NaN) -/
structure NumOrderLaws (N : NumOps α) : Prop where
  le_refl : ∀ a, N.le a a = true
  le_trans : ∀ a b c, N.le a b = true → N.le b c = true → N.le a c = true
  le_total : ∀ a b, N.le a b = true ∨ N.le b a = true
  lt_iff_not_le : ∀ a b, N.lt a b = true ↔ N.le b a = false
  sub_le_sub_left : ∀ a b c, N.le a b = true → N.le (N.sub c b) (N.sub c a) = true
  sub_le_sub_right : ∀ a b c, N.le a b = true → N.le (N.sub a c) (N.sub b c) = true

namespace NumOrderLaws
variable {N : NumOps α} (L : NumOrderLaws N)
include L

theorem not_lt {a b : α} : N.lt a b = false ↔ N.le b a = true := by
  have := L.lt_iff_not_le a b
  cases h1 : N.lt a b <;> cases h2 : N.le b a <;> simp_all

theorem lt_irrefl (a : α) : N.lt a a = false := L.not_lt.mpr (L.le_refl a)

theorem lt_of_lt_of_le {a b c : α} (h1 : N.lt a b = true) (h2 : N.le b c = true) : N.lt a c = true := by
  rw [L.lt_iff_not_le] at h1 ⊢
  cases h : N.le c a
  · rfl
  · rw [L.le_trans b c a h2 h] at h1; cases h1

theorem lt_of_le_of_lt {a b c : α} (h1 : N.le a b = true) (h2 : N.lt b c = true) : N.lt a c = true := by
  rw [L.lt_iff_not_le] at h2 ⊢
  cases h : N.le c a
  · rfl
  · rw [L.le_trans c a b h h1] at h2; cases h2

theorem le_of_lt {a b : α} (h : N.lt a b = true) : N.le a b = true := by
  rw [L.lt_iff_not_le] at h
  rcases L.le_total a b with h' | h'
  · exact h'
  · rw [h'] at h; cases h

theorem lt_asymm {a b : α} (h : N.lt a b = true) : N.lt b a = false :=
  L.not_lt.mpr (L.le_of_lt h)

end NumOrderLaws

/-- the clamp at the start of `selectAlongPath` -/
def selClamp (N : NumOps α) (back d : α) : α :=
  if N.lt d N.zero then N.zero else if N.lt back d then back else d

/-- `pos` after the `lower_bound` -/
def selPos0 (N : NumOps α) (ds : Array α) (d' : α) : Nat :=
  if lowerBoundG N ds.toList d' = ds.size then ds.size - 1 else lowerBoundG N ds.toList d'

theorem NumOrderLaws.clamp_mono {N : NumOps α} (L : NumOrderLaws N) {back d1 d2 : α}
    (h0 : N.le N.zero back = true) (h : N.le d1 d2 = true) :
    N.le (selClamp N back d1) (selClamp N back d2) = true := by
  unfold selClamp
  by_cases a1 : N.lt d1 N.zero = true
  · rw [if_pos a1]
    by_cases a2 : N.lt d2 N.zero = true
    · rw [if_pos a2]; exact L.le_refl _
    · rw [if_neg a2]
      by_cases b2 : N.lt back d2 = true
      · rw [if_pos b2]; exact h0
      · rw [if_neg b2]; exact L.not_lt.mp (by simpa using a2)
  · rw [if_neg a1]
    have a1' : N.le N.zero d1 = true := L.not_lt.mp (by simpa using a1)
    have a2 : ¬ N.lt d2 N.zero = true := by
      intro a2
      have := L.lt_of_le_of_lt h a2
      exact a1 this
    rw [if_neg a2]
    by_cases b1 : N.lt back d1 = true
    · rw [if_pos b1, if_pos (L.lt_of_lt_of_le b1 h)]; exact L.le_refl _
    · rw [if_neg b1]
      by_cases b2 : N.lt back d2 = true
      · rw [if_pos b2]; exact L.not_lt.mp (by simpa using b1)
      · rw [if_neg b2]; exact h

theorem NumOrderLaws.clamp_le_back {N : NumOps α} (L : NumOrderLaws N) {back d : α}
    (h0 : N.le N.zero back = true) : N.lt back (selClamp N back d) = false := by
  unfold selClamp
  split
  · exact L.not_lt.mpr h0
  · split
    · exact L.lt_irrefl _
    · exact (Bool.not_eq_true _).mp ‹¬ _›

/-- `(pos, index ≥ 0)` of a successful `selectAlongPath`, as a function of the clamped `distTo` -/
theorem selectAlong_char (N : NumOps α) (interp : σ → σ → α → σ) (ds : Array α) (st : Array σ)
    (d thr : α) {pos : Nat} {idx : Bool} {s : σ}
    (h : selectAlong N interp ds st d thr = some (pos, idx, s)) :
    ∃ back dp, ds[ds.size - 1]? = some back ∧
      ds[selPos0 N ds (selClamp N back d)]? = some dp ∧
      ((selPos0 N ds (selClamp N back d) = 0 ∨ N.le (N.sub dp (selClamp N back d)) thr = true) ∧
          pos = selPos0 N ds (selClamp N back d) ∧ idx = true ∨
        selPos0 N ds (selClamp N back d) ≠ 0 ∧ N.le (N.sub dp (selClamp N back d)) thr = false ∧
          pos = selectAlong.walkDownG N ds (selClamp N back d) (selPos0 N ds (selClamp N back d)) ∧
          ∃ dq, ds[pos]? = some dq ∧ idx = N.lt (N.sub (selClamp N back d) dq) thr) := by
  unfold selectAlong at h
  split at h
  · cases h
  next back hback =>
  extract_lets d' lb pos0 at h
  split at h
  · cases h
  next dp hdp =>
  refine ⟨back, dp, hback, hdp, ?_⟩
  show (pos0 = 0 ∨ N.le (N.sub dp d') thr = true) ∧ pos = pos0 ∧ idx = true ∨
    pos0 ≠ 0 ∧ N.le (N.sub dp d') thr = false ∧ pos = selectAlong.walkDownG N ds d' pos0 ∧
      ∃ dq, ds[pos]? = some dq ∧ idx = N.lt (N.sub d' dq) thr
  extract_lets walk at h
  by_cases hc : (pos0 = 0 || N.le (N.sub dp d') thr) = true
  · have hw : walk = (pos0, true) := if_pos hc
    rw [hw] at h
    simp only [if_true, Option.map_eq_some_iff, Prod.mk.injEq] at h
    obtain ⟨_, _, rfl, rfl, _⟩ := h
    simp only [Bool.or_eq_true, decide_eq_true_eq] at hc
    exact Or.inl ⟨hc, rfl, rfl⟩
  · have hw : walk = (selectAlong.walkDownG N ds d' pos0,
        match ds[selectAlong.walkDownG N ds d' pos0]? with
        | some d => N.lt (N.sub d' d) thr
        | none => false) := if_neg hc
    simp only [Bool.or_eq_true, decide_eq_true_eq, not_or, Bool.not_eq_true] at hc
    refine Or.inr ⟨hc.1, hc.2, ?_⟩
    generalize selectAlong.walkDownG N ds d' pos0 = q at hw
    generalize hb : (match ds[q]? with
      | some d => N.lt (N.sub d' d) thr
      | none => false) = b at hw
    rw [hw] at h
    dsimp only at h
    cases b
    · simp only [Bool.false_eq_true, if_false] at h
      split at h
      · next d0 d1 a b' h0 h1 ha hb' =>
        simp only [Option.some.injEq, Prod.mk.injEq] at h
        obtain ⟨rfl, rfl, _⟩ := h
        rw [h0] at hb
        exact ⟨rfl, d0, h0, hb.symm⟩
      · cases h
    · simp only [if_true, Option.map_eq_some_iff, Prod.mk.injEq] at h
      obtain ⟨_, _, rfl, rfl, _⟩ := h
      split at hb
      · next dq hdq => exact ⟨rfl, dq, hdq, hb.symm⟩
      · cases hb

/-! ### `lower_bound` and the walk-down loop -/

theorem pp_lowerBoundG_mono (N : NumOps α) (d1 d2 : α) (himp : ∀ x, N.lt x d1 = true → N.lt x d2 = true) :
    ∀ l : List α, lowerBoundG N l d1 ≤ lowerBoundG N l d2 := by
  intro l
  unfold lowerBoundG
  induction l with
  | nil => simp
  | cons x r ih =>
    simp only [List.takeWhile_cons]
    by_cases h1 : N.lt x d1 = true
    · rw [if_pos h1, if_pos (himp x h1)]
      simp only [List.length_cons]
      omega
    · rw [if_neg h1]
      simp

/-- every entry in front of the lower bound is `< x` -/
theorem pp_lowerBoundG_lt (N : NumOps α) (d : α) : ∀ (l : List α) (i : Nat) (x : α),
    i < lowerBoundG N l d → l[i]? = some x → N.lt x d = true := by
  intro l
  unfold lowerBoundG
  induction l with
  | nil => intro i x h; simp at h
  | cons y r ih =>
    intro i x h hx
    simp only [List.takeWhile_cons] at h
    by_cases h1 : N.lt y d = true
    · rw [if_pos h1] at h
      cases i with
      | zero => simp only [List.getElem?_cons_zero, Option.some.injEq] at hx; rw [← hx]; exact h1
      | succ i => exact ih i x (by simpa using h) (by simpa using hx)
    · rw [if_neg h1] at h
      simp at h

/-- the entry at the lower bound is not `< x` -/
theorem pp_lowerBoundG_not_lt (N : NumOps α) (d : α) : ∀ (l : List α) (x : α),
    l[lowerBoundG N l d]? = some x → N.lt x d = false := by
  intro l
  unfold lowerBoundG
  induction l with
  | nil => intro x h; simp at h
  | cons y r ih =>
    intro x hx
    simp only [List.takeWhile_cons] at hx
    by_cases h1 : N.lt y d = true
    · rw [if_pos h1] at hx
      exact ih x (by simpa using hx)
    · rw [if_neg h1] at hx
      simp only [List.length_nil, List.getElem?_cons_zero, Option.some.injEq] at hx
      rw [← hx]
      exact (Bool.not_eq_true _).mp h1

/-- everything the loop walked over is `> distTo` -/
theorem walkDownG_above (N : NumOps α) (ds : Array α) (d : α) : ∀ (p j : Nat) (x : α),
    selectAlong.walkDownG N ds d p < j → j ≤ p → ds[j]? = some x → N.lt d x = true := by
  intro p
  induction p with
  | zero => intro j x h1 h2; omega
  | succ k ih =>
    intro j x h1 h2 hx
    rw [selectAlong.walkDownG] at h1
    split at h1
    · next dk hk =>
      split at h1
      · next hlt =>
        by_cases hj : j = k + 1
        · subst hj
          rw [hk, Option.some.injEq] at hx
          rw [← hx]; exact hlt
        · exact ih j x h1 (by omega) hx
      · omega
    · omega

/-- where the loop stopped (unless at `0`) the entry is not `> distTo` -/
theorem walkDownG_stop (N : NumOps α) (ds : Array α) (d : α) : ∀ (p : Nat) (x : α),
    selectAlong.walkDownG N ds d p ≠ 0 → ds[selectAlong.walkDownG N ds d p]? = some x →
    N.lt d x = false := by
  intro p
  induction p with
  | zero => intro x h; simp [selectAlong.walkDownG] at h
  | succ k ih =>
    intro x h0 hx
    rw [selectAlong.walkDownG] at h0 hx
    split at hx
    · next dk hk =>
      split at hx
      · next hlt =>
        rw [hk] at h0
        simp only [hlt, if_true] at h0
        exact ih x h0 hx
      · next hlt =>
        rw [hk, Option.some.injEq] at hx
        rw [← hx]
        exact (Bool.not_eq_true _).mp hlt
    · next hk => rw [hk] at hx; cases hx

theorem walkDownG_mono (N : NumOps α) (ds : Array α) (dB dA : α)
    (himp : ∀ x, N.lt dA x = true → N.lt dB x = true) (pB pA : Nat) (hp : pB ≤ pA) (hsz : pB < ds.size) :
    selectAlong.walkDownG N ds dB pB ≤ selectAlong.walkDownG N ds dA pA := by
  by_cases hq : pB ≤ selectAlong.walkDownG N ds dA pA
  · exact Nat.le_trans (walkDownG_le N ds dB pB) hq
  · have key : ∀ p, selectAlong.walkDownG N ds dA pA < p → p ≤ pB →
        selectAlong.walkDownG N ds dB p ≤ selectAlong.walkDownG N ds dA pA := by
      intro p
      induction p with
      | zero => intro h; omega
      | succ k ih =>
        intro h1 h2
        obtain ⟨x, hx⟩ : ∃ x, ds[k + 1]? = some x := ⟨_, Array.getElem?_eq_getElem (by omega)⟩
        have hlt := himp x (walkDownG_above N ds dA pA (k + 1) x h1 (by omega) hx)
        rw [selectAlong.walkDownG, hx]
        simp only [hlt, if_true]
        by_cases hk : selectAlong.walkDownG N ds dA pA < k
        · exact ih hk (by omega)
        · exact Nat.le_trans (walkDownG_le N ds dB k) (by omega)
    exact key pB (by omega) (Nat.le_refl _)

theorem selPos0_lt (N : NumOps α) (ds : Array α) (d : α) (j : Nat) (x : α)
    (hj : j < selPos0 N ds d) (hx : ds[j]? = some x) : N.lt x d = true := by
  have hlb := pp_lowerBoundG_le N ds.toList d
  rw [Array.length_toList] at hlb
  refine pp_lowerBoundG_lt N d ds.toList j x ?_ (by rw [Array.getElem?_toList]; exact hx)
  unfold selPos0 at hj
  split at hj <;> omega

theorem selPos0_not_lt (N : NumOps α) (ds : Array α) (d back : α) (x : α)
    (hb : ds[ds.size - 1]? = some back) (hc : N.lt back d = false)
    (hx : ds[selPos0 N ds d]? = some x) : N.lt x d = false := by
  unfold selPos0 at hx
  split at hx
  · rw [hb, Option.some.injEq] at hx
    rw [← hx]; exact hc
  · exact pp_lowerBoundG_not_lt N d ds.toList x (by rw [Array.getElem?_toList]; exact hx)

theorem selPos0_mono (N : NumOps α) (ds : Array α) (d1 d2 : α)
    (himp : ∀ x, N.lt x d1 = true → N.lt x d2 = true) : selPos0 N ds d1 ≤ selPos0 N ds d2 := by
  have h1 := pp_lowerBoundG_mono N d1 d2 himp ds.toList
  have h2 := pp_lowerBoundG_le N ds.toList d2
  rw [Array.length_toList] at h2
  unfold selPos0
  split <;> split <;> omega

/-- `selectAlongPath` is monotone in `distTo` (same `dists`, `states`, `threshold`): the position does not
decrease, and if the larger `distTo` is snapped to the vertex at which the smaller one ended, the smaller one
is snapped to it as well -/
theorem selectAlong_mono {N : NumOps α} (L : NumOrderLaws N) (interp : σ → σ → α → σ) (ds : Array α)
    (st : Array σ) (dB dA thr back : α) (hback : ds[ds.size - 1]? = some back)
    (h0 : N.le N.zero back = true) (hd : N.le dB dA = true)
    {posB : Nat} {idxB : Bool} {sB : σ} {posA : Nat} {idxA : Bool} {sA : σ}
    (hB : selectAlong N interp ds st dB thr = some (posB, idxB, sB))
    (hA : selectAlong N interp ds st dA thr = some (posA, idxA, sA)) :
    posB ≤ posA ∧ (idxA = true → posB = posA → idxB = true) := by
  obtain ⟨backB, dpB, hbB, hdpB, hcB⟩ := selectAlong_char N interp ds st dB thr hB
  obtain ⟨backA, dpA, hbA, hdpA, hcA⟩ := selectAlong_char N interp ds st dA thr hA
  rw [hback, Option.some.injEq] at hbB hbA
  subst hbB hbA
  have hle : N.le (selClamp N back dB) (selClamp N back dA) = true := L.clamp_mono h0 hd
  have hAback : N.lt back (selClamp N back dA) = false := L.clamp_le_back h0
  generalize selClamp N back dB = dB' at *
  generalize selClamp N back dA = dA' at *
  have himp1 : ∀ x, N.lt x dB' = true → N.lt x dA' = true := fun x h => L.lt_of_lt_of_le h hle
  have himp2 : ∀ x, N.lt dA' x = true → N.lt dB' x = true := fun x h => L.lt_of_le_of_lt hle h
  have hp0 := selPos0_mono N ds dB' dA' himp1
  have F1 := selPos0_lt N ds dA'
  have F2 := selPos0_not_lt N ds dA' back dpA hback hAback hdpA
  generalize selPos0 N ds dB' = p0B at *
  generalize selPos0 N ds dA' = p0A at *
  have hp0Bsz : p0B < ds.size := (Array.getElem?_eq_some_iff.mp hdpB).1
  have hwB := walkDownG_le N ds dB' p0B
  rcases hcA with ⟨hsnapA, hposA, hidxA⟩ | ⟨hA0, hAns, hposA, dqA, hdqA, hidxA⟩
  · -- the larger one is snapped up to its lower bound
    refine ⟨?_, ?_⟩
    · rcases hcB with ⟨_, hposB, _⟩ | ⟨_, _, hposB, _⟩ <;> omega
    · intro _ hpp
      rcases hcB with ⟨_, _, hidxB⟩ | ⟨hB0, hBns, hposB, _⟩
      · exact hidxB
      · exfalso
        have hpe : p0B = p0A := by omega
        subst hpe
        rw [hdpB, Option.some.injEq] at hdpA
        subst hdpA
        have hstop : N.lt dB' dpB = false :=
          walkDownG_stop N ds dB' p0B dpB (by omega) (by rw [← hposB, hpp, hposA]; exact hdpB)
        have h1 : N.le dA' dB' = true := L.le_trans _ _ _ (L.not_lt.mp F2) (L.not_lt.mp hstop)
        have h2 := L.sub_le_sub_left dA' dB' dpB h1
        rcases hsnapA with h | h
        · exact hB0 h
        · rw [L.le_trans _ _ _ h2 h] at hBns
          cases hBns
  · -- the larger one walked down
    rcases hcB with ⟨hsnapB, hposB, hidxB⟩ | ⟨hB0, hBns, hposB, dqB, hdqB, hidxB⟩
    · refine ⟨?_, fun _ _ => hidxB⟩
      rcases hsnapB with h | h
      · omega
      · apply Classical.byContradiction
        intro hcon
        have hab := walkDownG_above N ds dA' p0A p0B dpB (by omega) hp0 hdpB
        by_cases hpe : p0B = p0A
        · subst hpe
          rw [hdpB, Option.some.injEq] at hdpA
          subst hdpA
          have h2 := L.sub_le_sub_left dB' dA' dpB hle
          rw [L.le_trans _ _ _ h2 h] at hAns
          cases hAns
        · have := F1 p0B dpB (by omega) hdpB
          rw [L.lt_asymm this] at hab
          cases hab
    · have hmono := walkDownG_mono N ds dB' dA' himp2 p0B p0A hp0 hp0Bsz
      refine ⟨by omega, ?_⟩
      intro hi hpp
      subst hpp
      rw [hdqB, Option.some.injEq] at hdqA
      subst hdqA
      rw [hi] at hidxA
      rw [hidxB]
      exact L.lt_of_le_of_lt (L.sub_le_sub_right dB' dA' dqB hle) hidxA.symm

/-- every entry of `dists` is non-negative if `distance` is and `+` keeps non-negativity -/
theorem pp_cumDistsG_nonneg (N : NumOps α) (dist : σ → σ → α) (h0 : N.le N.zero N.zero = true)
    (hdist : ∀ a b, N.le N.zero (dist a b) = true)
    (hadd : ∀ a c, N.le N.zero a = true → N.le N.zero c = true → N.le N.zero (N.add a c) = true)
    (l : List σ) : ∀ x ∈ cumDistsG N dist l, N.le N.zero x = true := by
  have hgo : ∀ (r : List σ) (acc : α) (prev : σ), N.le N.zero acc = true →
      ∀ x ∈ cumDistsG.go N dist acc prev r, N.le N.zero x = true := by
    intro r
    induction r with
    | nil =>
      intro acc prev ha x hx
      simp only [cumDistsG.go, List.mem_singleton] at hx
      rw [hx]; exact ha
    | cons b r ih =>
      intro acc prev ha x hx
      simp only [cumDistsG.go, List.mem_cons] at hx
      rcases hx with rfl | hx
      · exact ha
      · exact ih _ _ (hadd _ _ ha (hdist _ _)) x hx
  cases l with
  | nil => intro x hx; simp [cumDistsG] at hx
  | cons a r => exact hgo r _ a h0

/-- (3b) `PpMonotone E` from explicit laws: a total preorder with monotone subtraction (`NumOrderLaws`),
`distTo - stepSize/2 ≤ distTo + stepSize/2`, `dists.back() ≥ 0`.  No condition on the threshold. -/
theorem ppMonotone_of_laws (E : PpEnv σ α γ) (L : NumOrderLaws E.N)
    (hhalf : ∀ x, E.N.le (E.N.sub x (E.N.div E.stepSize E.N.two))
      (E.N.add x (E.N.div E.stepSize E.N.two)) = true)
    (hnn : ∀ (st : List σ) (back : α),
      (cumDistsG E.N E.dist st).toArray[(cumDistsG E.N E.dist st).toArray.size - 1]? = some back →
      E.N.le E.N.zero back = true) :
    PpMonotone E := by
  intro st posB idxB before posA idxA after ⟨distTo, thr, back, hback, _, hB, hA⟩ hne
  obtain ⟨h1, h2⟩ := selectAlong_mono L E.interp _ _ _ _ thr back hback (hnn st back hback)
    (hhalf distTo) hB hA
  refine ⟨h1, fun hi => ?_⟩
  rcases Nat.lt_or_ge posB posA with h | h
  · exact h
  · exact absurd ⟨h2 hi (by omega), hi, by omega⟩ hne

/-- the same with `dists.back() ≥ 0` derived from a non-negative `distance` -/
theorem ppMonotone_of_laws' (E : PpEnv σ α γ) (L : NumOrderLaws E.N)
    (hhalf : ∀ x, E.N.le (E.N.sub x (E.N.div E.stepSize E.N.two))
      (E.N.add x (E.N.div E.stepSize E.N.two)) = true)
    (hdist : ∀ a b, E.N.le E.N.zero (E.dist a b) = true)
    (hadd : ∀ a c, E.N.le E.N.zero a = true → E.N.le E.N.zero c = true →
      E.N.le E.N.zero (E.N.add a c) = true) :
    PpMonotone E :=
  ppMonotone_of_laws E L hhalf fun st back hb =>
    pp_cumDistsG_nonneg E.N E.dist (L.le_refl _) hdist hadd st back
      (List.mem_of_getElem? (by rw [List.getElem?_toArray] at hb; exact hb))

/-- the laws are satisfiable (exact integer arithmetic) -/
example : NumOrderLaws (α := Int)
    { add := (· + ·), sub := (· - ·), mul := (· * ·), div := (· / ·), lt := fun a b => decide (a < b),
      le := fun a b => decide (a ≤ b), zero := 0, two := 2, negOne := -1, eps := 0 } where
  le_refl := by intro a; simp
  le_trans := by intro a b c; simp only [decide_eq_true_eq]; omega
  le_total := by intro a b; simp only [decide_eq_true_eq]; omega
  lt_iff_not_le := by intro a b; simp only [decide_eq_true_eq, decide_eq_false_iff_not]; omega
  sub_le_sub_left := by intro a b c; simp only [decide_eq_true_eq]; omega
  sub_le_sub_right := by intro a b c; simp only [decide_eq_true_eq]; omega

/-- parts 3 and 5 together: ends kept and only validated motions, from the explicit laws -/
theorem perturbPath_spec_of_laws (E : PpEnv σ α γ) (L : NumOrderLaws E.N)
    (hhalf : ∀ x, E.N.le (E.N.sub x (E.N.div E.stepSize E.N.two))
      (E.N.add x (E.N.div E.stepSize E.N.two)) = true)
    (hnn : ∀ (st : List σ) (back : α),
      (cumDistsG E.N E.dist st).toArray[(cumDistsG E.N E.dist st).toArray.size - 1]? = some back →
      E.N.le E.N.zero back = true)
    {ms me : Nat} {path out : List σ} {r : Bool} (h : perturbPath E ms me path = some (out, r)) :
    out.head? = path.head? ∧ out.getLast? = path.getLast? ∧ ∀ p ∈ adj out, PpDerived E path p :=
  have hm := ppMonotone_of_laws E L hhalf hnn
  ⟨perturbPath_keeps_first_partial hm h, perturbPath_keeps_last_partial hm h,
    perturbPath_only_validated_partial hm h⟩

/-! ## non-vacuity: an accepted iteration on a concrete environment

(integers on a line, fractions in per-mille, a maximising sum-of-squares objective; evaluated by the
kernel — adjust the expected vector if the arithmetic of `ppBody` is corrected) -/

private def toyN : NumOps Int :=
  { add := (· + ·), sub := (· - ·), mul := (· * ·), div := fun a b => a * 1000 / b,
    lt := fun a b => decide (a < b), le := fun a b => decide (a ≤ b), zero := 0, two := 2000,
    negOne := -1, eps := 0 }

private def toyE : PpEnv Int Int Int :=
  { N := toyN
    O := { identity := 0, combine := (· + ·), motion := fun a b => (a - b) * (a - b),
           better := fun a b => decide (a > b) }
    cm := fun _ _ => true
    dist := fun a b => (a - b).natAbs
    interp := fun a b t => a + (b - a) * t / 1000
    hn := fun _ => 0
    samp := fun _ => 1000
    stepSize := 20
    snap := 0 }

example : ∃ st', PpAccepted toyE [0, 50, 300] st' :=
  ⟨[0, 50, 290, 319, 300], ppBody_accepted (hnk := 0) (smp := 1000) (by rfl)⟩

example : ∃ out, perturbPath toyE 1 1 [0, 50, 300] = some (out, true) := ⟨_, by rfl⟩

end OmplModel.PathOps
