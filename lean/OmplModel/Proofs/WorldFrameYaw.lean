import OmplModel.Proofs.RSReal
import Mathlib.Tactic.Linarith
import Mathlib.Tactic.Ring
/-!
The SO(2) wrap `so2Enforce` of the Dubins / Reeds–Shepp `interpolate` over ℝ (C14, round 4): it picks
the representative of its argument modulo 2π in `[-π, π)`, so it is 2π-periodic and the identity on
`[-π, π)`.  (Instance: `Proofs/DubinsReal.lean`; this is not the C08 engine's instance.)
-/
namespace OmplModel.Dubins
open OmplModel DubinsR
attribute [-instance] Num.instOfNat

theorem so2Enforce_eq (x : ℝ) :
    so2Enforce x =
      (if Num.fmod x (2 * Real.pi) < -Real.pi then Num.fmod x (2 * Real.pi) + 2 * Real.pi
       else if Real.pi ≤ Num.fmod x (2 * Real.pi) then Num.fmod x (2 * Real.pi) - 2 * Real.pi
       else Num.fmod x (2 * Real.pi)) := by
  unfold so2Enforce
  simp only [ofNat_two, pi_eq]

/-- C `fmod(x, 2π)` lies strictly between `-2π` and `2π` -/
theorem fmod_twopi_bounds (x : ℝ) :
    -(2 * Real.pi) < Num.fmod x (2 * Real.pi) ∧ Num.fmod x (2 * Real.pi) < 2 * Real.pi := by
  have hy := twopi_pos
  rw [RS.RSR.fmod_eq]
  have hx : x = x / (2 * Real.pi) * (2 * Real.pi) := (div_mul_cancel₀ x hy.ne').symm
  generalize x / (2 * Real.pi) = q at hx
  generalize 2 * Real.pi = p at hx hy ⊢
  subst hx
  split
  · have h1 := Int.floor_le q
    have h2 := Int.lt_floor_add_one q
    constructor <;> nlinarith [mul_nonneg hy.le (sub_nonneg.mpr h1), mul_pos hy (sub_pos.mpr h2)]
  · have h1 := Int.le_ceil q
    have h2 := Int.ceil_lt_add_one q
    constructor <;> nlinarith [mul_nonneg hy.le (sub_nonneg.mpr h1), mul_pos hy (sub_pos.mpr h2)]

/-- the wrapped yaw is in `[-π, π)` -/
theorem so2Enforce_mem (x : ℝ) : -Real.pi ≤ so2Enforce x ∧ so2Enforce x < Real.pi := by
  rw [so2Enforce_eq]
  obtain ⟨h1, h2⟩ := fmod_twopi_bounds x
  generalize Num.fmod x (2 * Real.pi) = v at h1 h2 ⊢
  have hpi := Real.pi_pos
  split_ifs with a b
  · constructor <;> linarith
  · constructor <;> linarith
  · exact ⟨not_lt.mp a, not_le.mp b⟩

/-- the wrap changes the yaw by an exact multiple of 2π -/
theorem so2Enforce_exact (x : ℝ) : ∃ k : ℤ, so2Enforce x = x + k * (2 * Real.pi) := by
  rw [so2Enforce_eq]
  obtain ⟨k, hk⟩ := RS.RSR.fmod_exact x (2 * Real.pi)
  rw [hk]
  split_ifs
  · exact ⟨k + 1, by push_cast; ring⟩
  · exact ⟨k - 1, by push_cast; ring⟩
  · exact ⟨k, rfl⟩

/-- two angles in `[-π, π)` that agree modulo 2π are equal -/
theorem yaw_unique (a b : ℝ) (k : ℤ) (ha1 : -Real.pi ≤ a) (ha2 : a < Real.pi) (hb1 : -Real.pi ≤ b)
    (hb2 : b < Real.pi) (h : a = b + k * (2 * Real.pi)) : a = b := by
  have hy := twopi_pos
  have hk1 : (k : ℝ) * (2 * Real.pi) < 1 * (2 * Real.pi) := by linarith
  have hk2 : (-1 : ℝ) * (2 * Real.pi) < (k : ℝ) * (2 * Real.pi) := by linarith
  have hk1' : (k : ℝ) < 1 := lt_of_mul_lt_mul_right hk1 hy.le
  have hk2' : (-1 : ℝ) < (k : ℝ) := lt_of_mul_lt_mul_right hk2 hy.le
  have h1 : k < 1 := by exact_mod_cast hk1'
  have h2 : -1 < k := by exact_mod_cast hk2'
  have h0 : k = 0 := by omega
  rw [h0] at h
  simpa using h

/-- the wrap is 2π-periodic -/
theorem so2Enforce_add_int (x : ℝ) (k : ℤ) : so2Enforce (x + k * (2 * Real.pi)) = so2Enforce x := by
  obtain ⟨k1, h1⟩ := so2Enforce_exact (x + k * (2 * Real.pi))
  obtain ⟨k2, h2⟩ := so2Enforce_exact x
  obtain ⟨a1, a2⟩ := so2Enforce_mem (x + k * (2 * Real.pi))
  obtain ⟨b1, b2⟩ := so2Enforce_mem x
  refine yaw_unique _ _ (k1 + k - k2) a1 a2 b1 b2 ?_
  rw [h1, h2]; push_cast; ring

/-- the wrap is the identity on `[-π, π)` -/
theorem so2Enforce_of_mem (x : ℝ) (h1 : -Real.pi ≤ x) (h2 : x < Real.pi) : so2Enforce x = x := by
  obtain ⟨k, hk⟩ := so2Enforce_exact x
  obtain ⟨a1, a2⟩ := so2Enforce_mem x
  exact yaw_unique _ _ k a1 a2 h1 h2 hk

end OmplModel.Dubins
