import OmplModel.Model.Heap
import OmplModel.Model.HeapPos
/-
The WHOLE class `ompl::BinaryHeap` as coded (BinaryHeap.h), in one executable state:

* `arr`  – `vector_` (elements = handle + data);
* `pos`  – every element's `Element::position` field (a table handle ↦ position; entries of dead handles are stale,
           exactly like the field of a deleted element would be);
* `next` – number of `Element`s created so far (handles are numbered by creation);
* `log`  – the callbacks fired so far (`eventAfterInsert_` / `eventBeforeRemove_`), in firing order.

`percolateUpF` / `percolateDownF` are the code's loops literally: the moved element is saved in `tmp`, a hole travels,
every store `vector_[i] = e` is followed by the store `e->position = i`, the trailing `child == n` block handles a
lone left child and `tmp` is written once at the end and only if the hole moved.  Every public member function is
written on top of them in the code's statement order: `insert` (position = old size; percolateUp; callback),
`insert(vector)` (position = `i + n` with `n` the size BEFORE the loop; callback per element), `buildFrom` (clear;
`newElement(list[i], i)`; `build`; NO callback), `rebuild`, `update` (through `element->position`), `remove` (callback
FIRST, then `removePos(element->position)`), `pop` (`removePos(0)`, NO callback), `clear` (NO callback), `sort`
(works on fresh elements, `vector_` restored from the backup).

`Proofs/HeapFull.lean` shows that this state machine and the handle-search, swap-based model of `Model/Heap.lean`
(which all order theorems are about) compute the same arrays for every contract-respecting operation sequence over the
FULL operation alphabet, that every position equals its index after every operation, and what the log contains.
`drv_heap` runs BOTH in lock-step with the real template and prints positions and callbacks from this model.
Core Lean only.
-/
namespace OmplModel.Heap
variable {κ : Type}

/-- a callback the heap fired: `eventAfterInsert_(element)` / `eventBeforeRemove_(element)` -/
inductive Ev where
  | ins (h : Nat)
  | rem (h : Nat)
deriving Repr, DecidableEq

structure FHeap (κ : Type) where
  arr : Array (Elem κ) := #[]
  pos : Array Nat := #[]
  next : Nat := 0
  log : Array Ev := #[]

/-- the `while (child > 0 && lt_(tmp->data, vector_[parent]->data))` loop of `percolateUp`:
`vector_[child] = vector_[parent]; vector_[child]->position = child; child = parent`.  Returns array, positions, hole. -/
def upLoopF (lt : κ → κ → Bool) (a : Array (Elem κ)) (pos : Array Nat) (tmp : Elem κ) (child : Nat) :
    Array (Elem κ) × Array Nat × Nat :=
  if h : 0 < child ∧ child < a.size then
    if lt tmp.key (a[(child - 1) / 2]'(by omega)).key then
      upLoopF lt (a.set child (a[(child - 1) / 2]'(by omega)) h.2)
        (pos.setIfInBounds (a[(child - 1) / 2]'(by omega)).h child) tmp ((child - 1) / 2)
    else (a, pos, child)
  else (a, pos, child)
termination_by child
decreasing_by omega

/-- `percolateUp(pos)` as coded, with the position stores -/
def percolateUpF (lt : κ → κ → Bool) (a : Array (Elem κ)) (pos : Array Nat) (p : Nat) : Array (Elem κ) × Array Nat :=
  if h : p < a.size then
    let r := upLoopF lt a pos a[p] p
    if r.2.2 ≠ p then (r.1.setIfInBounds r.2.2 a[p], r.2.1.setIfInBounds a[p].h r.2.2) else (r.1, r.2.1)
  else (a, pos)

/-- the `while (child < n)` loop of `percolateDown` (`child = (parent + 1) << 1` is the RIGHT child):
`if (lt(left, right)) --child; if (lt(child, tmp)) { vector_[parent] = vector_[child]; vector_[parent]->position = parent; } else break;` -/
def downLoopF (lt : κ → κ → Bool) (a : Array (Elem κ)) (pos : Array Nat) (tmp : Elem κ) (parent : Nat) :
    Array (Elem κ) × Array Nat × Nat :=
  if h : 2 * parent + 2 < a.size then
    if lt (a[2 * parent + 1]'(by omega)).key a[2 * parent + 2].key then
      if lt (a[2 * parent + 1]'(by omega)).key tmp.key then
        downLoopF lt (a.set parent (a[2 * parent + 1]'(by omega)) (by omega))
          (pos.setIfInBounds (a[2 * parent + 1]'(by omega)).h parent) tmp (2 * parent + 1)
      else (a, pos, parent)
    else
      if lt a[2 * parent + 2].key tmp.key then
        downLoopF lt (a.set parent a[2 * parent + 2] (by omega)) (pos.setIfInBounds a[2 * parent + 2].h parent) tmp (2 * parent + 2)
      else (a, pos, parent)
  else (a, pos, parent)
termination_by a.size - parent
decreasing_by all_goals (simp only [Array.size_set]; omega)

/-- after the loop: `if (child == n) { --child; if (lt(vector_[child], tmp)) { vector_[parent] = vector_[child];
vector_[parent]->position = parent; parent = child; } }  if (parent != pos) { vector_[parent] = tmp; tmp->position = parent; }` -/
def downFinishF (lt : κ → κ → Bool) (tmp : Elem κ) (p : Nat) (r : Array (Elem κ) × Array Nat × Nat) :
    Array (Elem κ) × Array Nat :=
  let r2 : Array (Elem κ) × Array Nat × Nat :=
    if h2 : 2 * r.2.2 + 2 = r.1.size then
      if lt (r.1[2 * r.2.2 + 1]'(by omega)).key tmp.key then
        (r.1.setIfInBounds r.2.2 (r.1[2 * r.2.2 + 1]'(by omega)),
         r.2.1.setIfInBounds (r.1[2 * r.2.2 + 1]'(by omega)).h r.2.2, 2 * r.2.2 + 1)
      else r
    else r
  if r2.2.2 ≠ p then (r2.1.setIfInBounds r2.2.2 tmp, r2.2.1.setIfInBounds tmp.h r2.2.2) else (r2.1, r2.2.1)

/-- `percolateDown(pos)` as coded, with the position stores -/
def percolateDownF (lt : κ → κ → Bool) (a : Array (Elem κ)) (pos : Array Nat) (p : Nat) : Array (Elem κ) × Array Nat :=
  if h : p < a.size then downFinishF lt a[p] p (downLoopF lt a pos a[p] p) else (a, pos)

/-- `removePos(pos)`: `vector_[pos] = vector_.back(); vector_[pos]->position = pos; pop_back(); percolateUp(pos);
percolateDown(pos)` when `pos` is not the last slot, else `pop_back()` -/
def removePosF (lt : κ → κ → Bool) (a : Array (Elem κ)) (pos : Array Nat) (p : Nat) : Array (Elem κ) × Array Nat :=
  if h : p + 1 < a.size then
    let last := a[a.size - 1]'(by omega)
    let u := percolateUpF lt (a.set p last (by omega)).pop (pos.setIfInBounds last.h p) p
    percolateDownF lt u.1 u.2 p
  else (a.pop, pos)

/-- `build()`: `for (int i = size/2 - 1; i >= 0; --i) percolateDown(i)`; `buildLoopF k` does `k-1, …, 0` -/
def buildLoopF (lt : κ → κ → Bool) (a : Array (Elem κ)) (pos : Array Nat) : Nat → Array (Elem κ) × Array Nat
  | 0 => (a, pos)
  | k + 1 => let r := percolateDownF lt a pos k; buildLoopF lt r.1 r.2 k

def buildF (lt : κ → κ → Bool) (a : Array (Elem κ)) (pos : Array Nat) : Array (Elem κ) × Array Nat :=
  buildLoopF lt a pos (a.size / 2)

/-- room for the position field of handle `n - 1` (a `new Element()`) -/
def ensure (pos : Array Nat) (n : Nat) : Array Nat :=
  if pos.size < n then pos ++ Array.replicate (n - pos.size) 0 else pos

/-- `e = newElement(data, p); vector_.push_back(e)` for the fresh handle `nx` -/
def pushNew (a : Array (Elem κ)) (pos : Array Nat) (nx : Nat) (k : κ) (p : Nat) : Array (Elem κ) × Array Nat :=
  (a.push ⟨nx, k⟩, (ensure pos (nx + 1)).setIfInBounds nx p)

/-- `insert(data)` -/
def FHeap.insert (lt : κ → κ → Bool) (s : FHeap κ) (k : κ) : FHeap κ :=
  let p := s.arr.size
  let n := pushNew s.arr s.pos s.next k p
  let r := percolateUpF lt n.1 n.2 p
  { arr := r.1, pos := r.2, next := s.next + 1, log := s.log.push (.ins s.next) }

/-- the loop of `insert(const std::vector<_T>&)`: `pos = i + n` with `n` the size before the loop -/
def insertVecLoop (lt : κ → κ → Bool) (n : Nat) : Nat → List κ → FHeap κ → FHeap κ
  | _, [], s => s
  | i, k :: ks, s =>
    let p := i + n
    let e := pushNew s.arr s.pos s.next k p
    let r := percolateUpF lt e.1 e.2 p
    insertVecLoop lt n (i + 1) ks { arr := r.1, pos := r.2, next := s.next + 1, log := s.log.push (.ins s.next) }

def FHeap.insertVec (lt : κ → κ → Bool) (s : FHeap κ) (ks : List κ) : FHeap κ :=
  insertVecLoop lt s.arr.size 0 ks s

/-- `for (i = 0; i < m; ++i) vector_.push_back(newElement(list[i], i))` (on a cleared `vector_`) -/
def freshLoop : Nat → List κ → Array (Elem κ) → Array Nat → Nat → Array (Elem κ) × Array Nat
  | _, [], a, pos, _ => (a, pos)
  | i, k :: ks, a, pos, nx =>
    let e := pushNew a pos nx k i
    freshLoop (i + 1) ks e.1 e.2 (nx + 1)

/-- `buildFrom(list)`: `clear(); …push_back(newElement(list[i], i))…; build()` — no callback -/
def FHeap.buildFrom (lt : κ → κ → Bool) (s : FHeap κ) (ks : List κ) : FHeap κ :=
  let f := freshLoop 0 ks #[] s.pos s.next
  let r := buildF lt f.1 f.2
  { s with arr := r.1, pos := r.2, next := s.next + ks.length }

/-- `remove(element)`: callback first, then `removePos(element->position)` -/
def FHeap.remove (lt : κ → κ → Bool) (s : FHeap κ) (h : Nat) : FHeap κ :=
  let r := removePosF lt s.arr s.pos (s.pos.getD h 0)
  { s with arr := r.1, pos := r.2, log := s.log.push (.rem h) }

/-- `pop()`: `removePos(0)`; fires no callback -/
def FHeap.pop (lt : κ → κ → Bool) (s : FHeap κ) : FHeap κ :=
  if s.arr.size = 0 then s else
    let r := removePosF lt s.arr s.pos 0
    { s with arr := r.1, pos := r.2 }

/-- the user writes `element->data = k` and calls `update(element)`: `percolateUp(position); percolateDown(position)` -/
def FHeap.setKey (lt : κ → κ → Bool) (s : FHeap κ) (h : Nat) (k : κ) : FHeap κ :=
  let p := s.pos.getD h 0
  if hp : p < s.arr.size then
    let u := percolateUpF lt (s.arr.set p ⟨h, k⟩ hp) s.pos p
    let d := percolateDownF lt u.1 u.2 p
    { s with arr := d.1, pos := d.2 }
  else s

/-- the user writes several `element->data` through their handles (no `update`) … -/
def pokeAllF (pos : Array Nat) (a : Array (Elem κ)) : List (Nat × κ) → Array (Elem κ)
  | [] => a
  | (h, k) :: rest => pokeAllF pos (a.setIfInBounds (pos.getD h 0) ⟨h, k⟩) rest

/-- … and calls `rebuild()` -/
def FHeap.pokeRebuild (lt : κ → κ → Bool) (s : FHeap κ) (chg : List (Nat × κ)) : FHeap κ :=
  let r := buildF lt (pokeAllF s.pos s.arr chg) s.pos
  { s with arr := r.1, pos := r.2 }

/-- `clear()`: every element deleted, no callback -/
def FHeap.clear (s : FHeap κ) : FHeap κ := { s with arr := #[] }

/-- the pop loop of `sort`: `list.push_back(vector_[0]->data); removePos(0)` -/
def drainF (lt : κ → κ → Bool) : Nat → Array (Elem κ) → Array Nat → List (Elem κ)
  | 0, _, _ => []
  | n + 1, a, pos =>
    if h : 0 < a.size then
      let r := removePosF lt a pos 0
      a[0] :: drainF lt n r.1 r.2
    else []

/-- `sort(list)`: `backup = vector_; vector_.clear(); …newElement(list[i], i)…; build(); n × (push_back(top), removePos(0));
vector_ = backup`.  The temporary elements are separate objects (own position fields): a separate table. -/
def FHeap.sort (lt : κ → κ → Bool) (_s : FHeap κ) (ks : List κ) : List κ :=
  let f := freshLoop 0 ks #[] #[] 0
  let b := buildF lt f.1 f.2
  (drainF lt ks.length b.1 b.2).map (·.key)

def FHeap.step (lt : κ → κ → Bool) (s : FHeap κ) : Op κ → FHeap κ
  | .insert k => s.insert lt k
  | .insertMany ks => s.insertVec lt ks
  | .remove h => s.remove lt h
  | .setKey h k => s.setKey lt h k
  | .pop => s.pop lt
  | .pokeRebuild chg => s.pokeRebuild lt chg
  | .buildFrom ks => s.buildFrom lt ks
  | .sort _ => s
  | .clear => s.clear

def FHeap.run (lt : κ → κ → Bool) (s : FHeap κ) (ops : List (Op κ)) : FHeap κ := ops.foldl (FHeap.step lt) s

/-- the callbacks an operation must fire, read off the abstract state before it: one `ins` per element created by
`insert` / `insert(vector)` (in creation order), one `rem` for `remove(handle)`; nothing for pop / buildFrom / rebuild /
update / sort / clear -/
def evOf (next : Nat) : Op κ → List Ev
  | .insert _ => [.ins next]
  | .insertMany ks => (List.range' next ks.length).map .ins
  | .remove h => [.rem h]
  | _ => []

/-- every element's position field, in array order (what the driver prints next to the dump) -/
def FHeap.positions (s : FHeap κ) : List Nat := s.arr.toList.map (fun e => s.pos.getD e.h 0)

end OmplModel.Heap
