import OmplModel.Model.SpaceInterp
import OmplModel.Model.Dubins
import OmplModel.Model.ReedsShepp
/-!
C07, car-like spaces: the CACHED interpolate overloads

  DubinsStateSpace::interpolate(from, to, t, bool &firstTime, DubinsPath &path, state)
  ReedsSheppStateSpace::interpolate(from, to, t, bool &firstTime, ReedsSheppPath &path, state)

(the two bodies are the same text up to the planner call) as a state machine over the `(firstTime, path)` pair
the CALLER owns, and the 4-argument `interpolate(from, to, t, state)` = one call on a fresh pair whose path is
the default-constructed one.  Core Lean only; the planners and the path integration are C14's models
(`Model/Dubins.lean`, `Model/ReedsShepp.lean`, imported read-only).

Mirrored branch order (`cachedCall`):
    if (firstTime) { if (t >= 1) { copy to; return; }  if (t <= 0) { copy from; return; }
                     path = plan(from, to); firstTime = false; }
    interpolate(from, path, t, state);
An end-point call on a cold cache returns WITHOUT touching `firstTime` / `path`; the flag is cleared only together
with the assignment of the path.  `cachedCallS6` is the (wrong) variant that consumes the flag first — the seeded
change C07-s6 — kept as the witness that the history theorem is not vacuous.

Abstractions: the parameter test is a classifier `cls : α → Where` (`clsNum` = the coded `t >= 1.` / `t <= 0.`), so that
the theorems hold for every number type incl. `Float`; a planner that returns no path (`Res.nopath` / `unclassified`
of C14's model: a C++ assertion / DBL_MAX path) makes the call `none`.
-/
namespace OmplModel.SpaceInterp.Car
open OmplModel

/-- where the parameter lies, in the order the code tests it: `t >= 1.`, then `t <= 0.` -/
inductive Where where
  | atTo | atFrom | inner
deriving DecidableEq, Repr

def clsNum {α : Type} [Num α] (t : α) : Where :=
  if 1 ≤ t then .atTo else if t ≤ 0 then .atFrom else .inner

/-- the `(firstTime, path)` pair the caller of the cached overload owns -/
structure Cache (P : Type) where
  firstTime : Bool
  path : P

/-- what the two car-like spaces plug into the shared text: `plan` = `dubins(from, to)` (+ the symmetric choice) /
`reedsShepp(from, to)`; `along` = `interpolate(from, path, t, state[, rho])` -/
structure Car (S P α : Type) where
  plan : S → S → Option P
  along : S → P → α → S

variable {S P α : Type}

/-- `interpolate(from, to, t, firstTime, path, state)` as coded: (state written, the caller's pair afterwards) -/
def cachedCall (cls : α → Where) (c : Car S P α) (k : Cache P) (frm to : S) (t : α) : Option (S × Cache P) :=
  if k.firstTime then
    match cls t with
    | .atTo => some (to, k)
    | .atFrom => some (frm, k)
    | .inner =>
      match c.plan frm to with
      | some p => some (c.along frm p t, ⟨false, p⟩)
      | none => none
  else some (c.along frm k.path t, k)

/-- the seeded change C07-s6: the flag is consumed before the end-point shortcuts -/
def cachedCallS6 (cls : α → Where) (c : Car S P α) (k : Cache P) (frm to : S) (t : α) : Option (S × Cache P) :=
  let k' : Cache P := ⟨false, k.path⟩
  match cls t with
  | .atTo => some (to, k')
  | .atFrom => some (frm, k')
  | .inner =>
    if k.firstTime then
      match c.plan frm to with
      | some p => some (c.along frm p t, ⟨false, p⟩)
      | none => none
    else some (c.along frm k.path t, k')

/-- the 4-argument `interpolate(from, to, t, state)`: `bool firstTime = true; Path path;` (default-constructed `g`) and one call -/
def direct (cls : α → Where) (c : Car S P α) (g : P) (frm to : S) (t : α) : Option S :=
  (cachedCall cls c ⟨true, g⟩ frm to t).map (·.1)

/-- a sequence of calls with the same end points on the same pair: the states written, and the pair afterwards -/
def runLeg (call : Cache P → S → S → α → Option (S × Cache P)) (k : Cache P) (frm to : S) : List α → Option (List S × Cache P)
  | [] => some ([], k)
  | t :: ts =>
    match call k frm to t with
    | none => none
    | some (s, k') =>
      match runLeg call k' frm to ts with
      | none => none
      | some (out, k'') => some (s :: out, k'')

/-- what every caller does when the end points change: `firstTime = true`; the path object keeps the old word -/
def reset (k : Cache P) : Cache P := ⟨true, k.path⟩

/-- several legs (end points, parameters) on ONE pair, `reset` before each -/
def walk (call : Cache P → S → S → α → Option (S × Cache P)) (k : Cache P) : List (S × S × List α) → Option (List (List S) × Cache P)
  | [] => some ([], k)
  | (frm, to, ts) :: legs =>
    match runLeg call (reset k) frm to ts with
    | none => none
    | some (out, k') =>
      match walk call k' legs with
      | none => none
      | some (outs, k'') => some (out :: outs, k'')

/-- the invariant the code maintains for the current end points: the flag is still set, or the stored path is the planned one -/
def Inv (c : Car S P α) (k : Cache P) (frm to : S) : Prop :=
  k.firstTime = true ∨ c.plan frm to = some k.path

/-! ### the two instances -/
section
open OmplModel.Dubins

/-- Dubins: `path = dubins(from, to)`, the symmetric variant takes the reversed `dubins(to, from)` when shorter (`choosePath`) -/
def dubinsCar {α : Type} [DNum α] (rho : α) (sym : Bool) : Car (Pose α) (Path α) α where
  plan := fun a b => match choosePath rho sym a b with
    | .path p => some p
    | _ => none
  along := fun a p t => interpPath rho a p t

/-- Reeds-Shepp: `path = reedsShepp(from, to)` -/
def rsCar {α : Type} [OmplModel.RS.RSNum α] (rho : α) : Car (Pose α) (OmplModel.RS.RSPath α) α where
  plan := fun a b => OmplModel.RS.reedsSheppStates rho a b
  along := fun a p t => OmplModel.RS.rsInterpPath rho a p t

/-- a default-constructed `DubinsPath` (word LSL, lengths 0, DBL_MAX, 0): never read by the code while `firstTime` holds -/
def dubinsDefault {α : Type} [DNum α] : Path α := ⟨.LSL, 0, 0, 0, false⟩

/-! ### wrappers and compounds that contain car-like leaves

`Space` (Model/Space.lean, shared) has no car-like constructor, so the recursion of `CompoundStateSpace::interpolate` /
`WrapperStateSpace::interpolate` is repeated over `XSpace`: the same `nil / cons w head tail / wrap` skeleton whose leaves are
either a car-free `Space` (interpolated by `interpolateTree`, the model of the rest of this engine) or a Dubins / Reeds-Shepp
space (interpolated by `direct`: the component's 4-argument virtual `interpolate` is what the compound calls).  States are the
shared `St`: a car-like state is the SE(2) compound `[rv [x, y], so2 yaw]` its C++ state type is. -/

inductive XSpace (α : Type) where
  | base (s : Space α)
  | dubins (rho : α) (sym : Bool) (lo hi : List α)
  | rs (rho : α) (lo hi : List α)
  | xnil
  | xcons (w : α) (head tail : XSpace α)
  | wrap (s : XSpace α)
deriving Inhabited

def poseOf {α : Type} : St α → Option (Pose α)
  | .ccons (.rv [x, y]) (.ccons (.so2 th) .cnil) => some ⟨x, y, th⟩
  | _ => none

def stOf {α : Type} (p : Pose α) : St α := .ccons (.rv [p.x, p.y]) (.ccons (.so2 p.th) .cnil)

/-- the SE(2) compound a car-like space is (bounds of the position part; weights 1 and 0.5 as `SE2StateSpace` sets them) -/
def se2Space {α : Type} [Num α] (lo hi : List α) : Space α := .ccons 1 (.rv lo hi) (.ccons (Num.ofDec 5 1) .so2 .cnil)

/-- `StateSpace::interpolate(from, to, t, state)` through wrappers and compounds down to the leaves; `none` = a planner without a path -/
def xinterp {α : Type} [OmplModel.RS.RSNum α] : XSpace α → St α → St α → α → Option (St α)
  | .base s, a, b, t => some (interpolateTree s a b t)
  | .dubins rho sym _ _, a, b, t =>
    match poseOf a, poseOf b with
    | some pa, some pb => (direct clsNum (dubinsCar rho sym) dubinsDefault pa pb t).map stOf
    | _, _ => none
  | .rs rho _ _, a, b, t =>
    match poseOf a, poseOf b with
    | some pa, some pb => (direct clsNum (rsCar rho) ⟨0, 0, 0, 0, 0, 0⟩ pa pb t).map stOf
    | _, _ => none
  | .xnil, .cnil, .cnil, _ => some .cnil
  | .xcons _ h tl, .ccons ah at', .ccons bh bt, t =>
    match xinterp h ah bh t, xinterp tl at' bt t with
    | some rh, some rt => some (.ccons rh rt)
    | _, _ => none
  | .wrap s, a, b, t => xinterp s a b t
  | _, _, _, _ => none

/-- `satisfiesBounds` through the same recursion -/
def xinBounds {α : Type} [Num α] : XSpace α → St α → Bool
  | .base s, a => inBounds s a
  | .dubins _ _ lo hi, a => inBounds (se2Space lo hi) a
  | .rs _ lo hi, a => inBounds (se2Space lo hi) a
  | .xnil, .cnil => true
  | .xcons _ h tl, .ccons ah at' => xinBounds h ah && xinBounds tl at'
  | .wrap s, a => xinBounds s a
  | _, _ => false

/-- a car-free `Space` seen through the `XSpace` skeleton (compounds and wrappers opened, everything else a `base` leaf) -/
def embed {α : Type} : Space α → XSpace α
  | .cnil => .xnil
  | .ccons w h t => .xcons w (embed h) (embed t)
  | .wrap s => .wrap (embed s)
  | s => .base s

end
end OmplModel.SpaceInterp.Car
