import OmplModel.Model.Heap
/-
`percolateUp` / `percolateDown` of BinaryHeap.h written exactly as coded: the element being moved is
saved in `tmp`, a *hole* travels up/down while the other elements are shifted into it, and `tmp` is
written once at the end (only if the hole moved).  `Proofs/HeapHole.lean` shows that these produce
the same array as the swap-based `siftUp` / `siftDown` of `Model/Heap.lean`, which the invariant
proofs are about.  Core Lean only.
-/
namespace OmplModel.Heap
variable {κ : Type}

/-- the `while (child > 0 && lt_(tmp->data, vector_[parent]->data))` loop: returns the array with the
parents shifted down and the final position of the hole -/
def upHoleLoop (lt : κ → κ → Bool) (a : Array (Elem κ)) (tmp : Elem κ) (child : Nat) : Array (Elem κ) × Nat :=
  if h : 0 < child ∧ child < a.size then
    if lt tmp.key (a[(child - 1) / 2]'(by omega)).key then
      upHoleLoop lt (a.set child (a[(child - 1) / 2]'(by omega)) h.2) tmp ((child - 1) / 2)
    else (a, child)
  else (a, child)
termination_by child
decreasing_by omega

/-- `percolateUp(pos)` as coded -/
def percolateUp (lt : κ → κ → Bool) (a : Array (Elem κ)) (pos : Nat) : Array (Elem κ) :=
  if h : pos < a.size then
    let r := upHoleLoop lt a a[pos] pos
    if r.2 ≠ pos then r.1.setIfInBounds r.2 a[pos] else r.1
  else a

/-- the `while (child < n)` loop of `percolateDown` (`child` is the RIGHT child index `(pos+1)<<1`):
returns the array with children shifted up, the hole (`parent`) and the last `child` index -/
def downHoleLoop (lt : κ → κ → Bool) (a : Array (Elem κ)) (tmp : Elem κ) (parent : Nat) : Array (Elem κ) × Nat :=
  if h : 2 * parent + 2 < a.size then
    if lt (a[2 * parent + 1]'(by omega)).key a[2 * parent + 2].key then
      if lt (a[2 * parent + 1]'(by omega)).key tmp.key then
        downHoleLoop lt (a.set parent (a[2 * parent + 1]'(by omega)) (by omega)) tmp (2 * parent + 1)
      else (a, parent)
    else
      if lt a[2 * parent + 2].key tmp.key then
        downHoleLoop lt (a.set parent a[2 * parent + 2] (by omega)) tmp (2 * parent + 2)
      else (a, parent)
  else (a, parent)
termination_by a.size - parent
decreasing_by all_goals (simp only [Array.size_set]; omega)

/-- the code after the loop: the trailing `if (child == n)` block for a lone left child (after the
loop `child = 2*parent+2 ≥ n`; `child == n` means a lone left child at `n-1`) and the final
`if (parent != pos) vector_[parent] = tmp` -/
def downFinish (lt : κ → κ → Bool) (tmp : Elem κ) (pos : Nat) (r : Array (Elem κ) × Nat) : Array (Elem κ) :=
  let r2 : Array (Elem κ) × Nat :=
    if h2 : 2 * r.2 + 2 = r.1.size then
      if lt (r.1[2 * r.2 + 1]'(by omega)).key tmp.key then
        (r.1.setIfInBounds r.2 (r.1[2 * r.2 + 1]'(by omega)), 2 * r.2 + 1)
      else r
    else r
  if r2.2 ≠ pos then r2.1.setIfInBounds r2.2 tmp else r2.1

/-- `percolateDown(pos)` as coded -/
def percolateDown (lt : κ → κ → Bool) (a : Array (Elem κ)) (pos : Nat) : Array (Elem κ) :=
  if h : pos < a.size then downFinish lt a[pos] pos (downHoleLoop lt a a[pos] pos) else a

end OmplModel.Heap
