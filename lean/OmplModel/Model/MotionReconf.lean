import OmplModel.Model.Motion
/-!
Round 10 of C05: what a motion check may depend on.

1. **The configuration and its history.**  `Config` is the part of `SpaceInformation` / `StateSpace` / the installed
   `MotionValidator` that `checkMotion` reads: which `StateValidityChecker` object is installed
   (`SpaceInformation::stateValidityChecker_`), `longestValidSegmentFraction_` as last set (`pending`) and the value
   the last `StateSpace::setup()` turned into `longestValidSegment_` (`effective`; the setter alone changes nothing a
   motion check reads), the segment-count factors (`setValidSegmentCountFactor`: read directly by
   `validSegmentCount`), the validator object and its two counters.  `Config.step` mirrors the setters
   (`SpaceInformation.h`: `setStateValidityChecker`, `setStateValidityCheckingResolution`, `setMotionValidator`,
   `SpaceInformation::setup` → `StateSpace::setup`, `MotionValidator::resetMotionCounter`) and the check itself.
   `LatchedConfig` is the same machine for a validator that remembers the checker it saw at its first call (the
   defect class of seeded change C05-s6); `Props/C05.lean` proves that it violates the property.

2. **Calls interleaved at query points.**  `MotionValidator::checkMotion` is `const` and documented thread safe; the
   validity checker is user code and may itself check motions (or another thread may).  `World` is the state shared by
   all calls on one validator: the two counters, and — only for a validator that keeps ONE scratch state as a member
   instead of allocating one per call (the defect class of seeded change C05-s7) — the point last interpolated into
   it.  `checkLinearW` / `checkBisectW` are `checkLinear` / `checkBisect` written against an `ask` that threads the
   world, so that something else can happen inside every validity question; `askOuter` is the question of the outer
   call (interpolate into the scratch, let the checker run its hook, THEN look at the state it was handed),
   `nestedCall` a complete nested check of another motion.  Core Lean only.
-/
namespace OmplModel.Motion

/-! ### 1. configuration histories -/

structure Config (ρ φ : Type) where
  /-- identity of the installed `StateValidityChecker` object -/
  checker : Nat
  /-- `longestValidSegmentFraction_` as last set -/
  pending : ρ
  /-- what the last `setup()` turned into `longestValidSegment_` -/
  effective : ρ
  /-- the segment-count factors (read directly by `validSegmentCount`) -/
  factor : φ
  val : Validator
  cv : Nat
  ci : Nat

inductive Op (ρ φ δ : Type) where
  /-- `setStateValidityChecker(svc)` (either overload) -/
  | setChecker (c : Nat)
  /-- `setStateValidityCheckingResolution(r)` = `StateSpace::setLongestValidSegmentFraction(r)` -/
  | setResolution (r : ρ)
  /-- `setValidSegmentCountFactor` -/
  | setFactor (f : φ)
  /-- `SpaceInformation::setup()` -/
  | setup
  /-- `setMotionValidator(mv)`; `runsSetup`: installed by `setup()` (the space's default validator after
  `setMotionValidator(nullptr)`) -/
  | setValidator (v : Validator) (runsSetup : Bool)
  /-- `resetMotionCounter()` -/
  | resetCounters
  /-- `checkMotion(s1, s2, lastValid)` (`threeArg`) or `checkMotion(s1, s2)` on the pair `d` -/
  | check (threeArg : Bool) (d : δ)

/-- the world outside the configuration: the segment count of a pair under given factors and resolution, whether the
space finds a path for it (Dubins3D), and what each checker OBJECT answers about the pair's subdivision points. -/
structure Env (ρ φ δ : Type) where
  seg : φ → ρ → δ → Nat
  pathOk : δ → Bool
  valid : Nat → δ → Nat → Bool

/-- the check under a given validator, checker, factors and effective resolution. -/
def checkWith {ρ φ δ : Type} (E : Env ρ φ δ) (val : Validator) (checker : Nat) (factor : φ) (eff : ρ)
    (threeArg : Bool) (d : δ) : Result :=
  if threeArg then checkMotion3 val (E.pathOk d) (E.seg factor eff d) (E.valid checker d)
  else checkMotion2 val (E.pathOk d) (E.seg factor eff d) (E.valid checker d)

/-- a check made NOW: it reads the installed checker, the effective resolution and the current factors. -/
def Config.checkNow {ρ φ δ : Type} (E : Env ρ φ δ) (c : Config ρ φ) (threeArg : Bool) (d : δ) : Result :=
  checkWith E c.val c.checker c.factor c.effective threeArg d

def Config.step {ρ φ δ : Type} (E : Env ρ φ δ) (c : Config ρ φ) : Op ρ φ δ → Config ρ φ × Option Result
  | .setChecker k => ({ c with checker := k }, none)
  | .setResolution r => ({ c with pending := r }, none)
  | .setFactor f => ({ c with factor := f }, none)
  | .setup => ({ c with effective := c.pending }, none)
  | .setValidator v s =>
    ({ c with val := v, cv := 0, ci := 0, effective := if s then c.pending else c.effective }, none)
  | .resetCounters => ({ c with cv := 0, ci := 0 }, none)
  | .check three d =>
    ({ c with cv := c.cv + (c.checkNow E three d).dValid, ci := c.ci + (c.checkNow E three d).dInvalid },
      some (c.checkNow E three d))

/-- the configuration after a history (most recent operation FIRST). -/
def Config.after {ρ φ δ : Type} (E : Env ρ φ δ) (c0 : Config ρ φ) : List (Op ρ φ δ) → Config ρ φ
  | [] => c0
  | op :: earlier => ((Config.after E c0 earlier).step E op).1

/-! the declarative reading of a history (most recent first): "last write wins" -/

def lastChecker {ρ φ δ : Type} (c0 : Nat) : List (Op ρ φ δ) → Nat
  | [] => c0
  | .setChecker k :: _ => k
  | _ :: h => lastChecker c0 h

def lastResolution {ρ φ δ : Type} (r0 : ρ) : List (Op ρ φ δ) → ρ
  | [] => r0
  | .setResolution r :: _ => r
  | _ :: h => lastResolution r0 h

/-- the resolution in force: the one that was pending when `setup()` last ran. -/
def effectiveResolution {ρ φ δ : Type} (p0 e0 : ρ) : List (Op ρ φ δ) → ρ
  | [] => e0
  | .setup :: h => lastResolution p0 h
  | .setValidator _ true :: h => lastResolution p0 h
  | _ :: h => effectiveResolution p0 e0 h

def lastFactor {ρ φ δ : Type} (f0 : φ) : List (Op ρ φ δ) → φ
  | [] => f0
  | .setFactor f :: _ => f
  | _ :: h => lastFactor f0 h

def lastValidator {ρ φ δ : Type} (v0 : Validator) : List (Op ρ φ δ) → Validator
  | [] => v0
  | .setValidator v _ :: _ => v
  | _ :: h => lastValidator v0 h

/-- a history with every motion check removed. -/
def dropChecks {ρ φ δ : Type} : List (Op ρ φ δ) → List (Op ρ φ δ)
  | [] => []
  | .check _ _ :: h => dropChecks h
  | op :: h => op :: dropChecks h

/-- the checks made since the validator was installed / its counters were reset (most recent first), each paired
with nothing else: the counters are the numbers of `true` and `false` verdicts among them. -/
def countedChecks {ρ φ δ : Type} : List (Op ρ φ δ) → List (Op ρ φ δ)
  | [] => []
  | .setValidator _ _ :: _ => []
  | .resetCounters :: _ => []
  | .check t d :: h => .check t d :: countedChecks h
  | _ :: h => countedChecks h

/-- C05-s6's defect class: a validator that keeps the checker it saw at its FIRST call (`latched`). -/
structure LatchedConfig (ρ φ : Type) where
  cfg : Config ρ φ
  latched : Option Nat

def LatchedConfig.step {ρ φ δ : Type} (E : Env ρ φ δ) (c : LatchedConfig ρ φ) :
    Op ρ φ δ → LatchedConfig ρ φ × Option Result
  | .check three d =>
    let k := c.latched.getD c.cfg.checker
    let r := checkWith E c.cfg.val k c.cfg.factor c.cfg.effective three d
    (⟨{ c.cfg with cv := c.cfg.cv + r.dValid, ci := c.cfg.ci + r.dInvalid }, some k⟩, some r)
  | .setValidator v s => (⟨(c.cfg.step E (.setValidator v s)).1, none⟩, none)
  | op => (⟨(c.cfg.step E op).1, c.latched⟩, none)

/-! ### 2. calls interleaved at query points -/

/-- the state shared by all `checkMotion` calls on one validator. -/
structure World where
  cv : Nat
  ci : Nat
  /-- only read by a validator with ONE scratch state (a member): the point last interpolated into it,
  `(motion, subdivision index)` -/
  scratch : Nat × Nat
  /-- validity questions the outer call has asked so far -/
  asked : Nat
  /-- result of the nested call, once it has run -/
  nested : Option Result
deriving Repr, DecidableEq

def World.bump (w : World) (dv di : Nat) : World := { w with cv := w.cv + dv, ci := w.ci + di }

/-- a validity question that may change the world (the checker is user code). -/
abbrev Ask := Nat → World → Bool × World

/-- `linScan` against an `Ask`. -/
def linScanW (ask : Ask) (j : Nat) : Nat → World → (List Nat × Option Nat) × World
  | 0, w => (([], none), w)
  | k + 1, w =>
    if (ask j w).1 then
      (((j :: (linScanW ask (j + 1) k (ask j w).2).1.1), (linScanW ask (j + 1) k (ask j w).2).1.2),
        (linScanW ask (j + 1) k (ask j w).2).2)
    else (([j], some j), (ask j w).2)

/-- `checkLinear` against an `Ask` (the counter is bumped when the call returns). -/
def checkLinearW (ask : Ask) (n : Nat) (w : World) : Result × World :=
  let r := if 1 < n then linScanW ask 1 (n - 1) w else (([], none), w)
  match r.1.2 with
  | some j => (⟨false, some j, r.1.1, 0, 1⟩, r.2.bump 0 1)
  | none =>
    if (ask n r.2).1 then (⟨true, none, r.1.1 ++ [n], 1, 0⟩, (ask n r.2).2.bump 1 0)
    else (⟨false, some n, r.1.1 ++ [n], 0, 1⟩, (ask n r.2).2.bump 0 1)

/-- `bisectLoop` against an `Ask`. -/
def bisectLoopW (ask : Ask) (q : List (Nat × Nat)) (w : World) : (Bool × List Nat) × World :=
  match q with
  | [] => ((true, []), w)
  | (lo, hi) :: rest =>
    if (ask ((lo + hi) / 2) w).1 then
      (((bisectLoopW ask (rest ++ push lo hi ((lo + hi) / 2)) (ask ((lo + hi) / 2) w).2).1.1,
          (lo + hi) / 2 :: (bisectLoopW ask (rest ++ push lo hi ((lo + hi) / 2)) (ask ((lo + hi) / 2) w).2).1.2),
        (bisectLoopW ask (rest ++ push lo hi ((lo + hi) / 2)) (ask ((lo + hi) / 2) w).2).2)
    else ((false, [(lo + hi) / 2]), (ask ((lo + hi) / 2) w).2)
termination_by qMeasure q
decreasing_by
  all_goals
    have := qMeasure_push_lt lo hi
    simp only [qMeasure, qMeasure_append]
    omega

/-- `checkBisect` (every `return false` counts) against an `Ask`. -/
def checkBisectW (ask : Ask) (n : Nat) (w : World) : Result × World :=
  if !(ask n w).1 then (⟨false, none, [n], 0, 1⟩, (ask n w).2.bump 0 1)
  else
    let r := if 2 ≤ n then bisectLoopW ask [(1, n - 1)] (ask n w).2 else ((true, []), (ask n w).2)
    if r.1.1 then (⟨true, none, n :: r.1.2, 1, 0⟩, r.2.bump 1 0)
    else (⟨false, none, n :: r.1.2, 0, 1⟩, r.2.bump 0 1)

/-- either form. -/
def checkW (threeArg : Bool) (ask : Ask) (n : Nat) (w : World) : Result × World :=
  if threeArg then checkLinearW ask n w else checkBisectW ask n w

/-- one validity question of the call checking motion `mid` (`n` segments) under the predicate `v` on
`(motion, index)` points.  An interior point `j ≠ n` is first interpolated into the call's scratch state — the shared
one if the validator has a single member (`shared`), the call's own otherwise; the end state `j = n` is `s2` itself.
Then the checker runs (`hook`: whatever it does before it looks), and only then reads the state it was handed. -/
def askVia (shared : Bool) (mid n : Nat) (v : Nat × Nat → Bool) (hook : World → World) : Ask :=
  fun j w =>
    let viaShared := shared && j != n
    let w1 := if viaShared then { w with scratch := (mid, j) } else w
    let w2 := hook w1
    (v (if viaShared then w2.scratch else (mid, j)), w2)

/-- a complete nested check of motion `1` (`n'` segments): its own questions have no hook. -/
def nestedCall (shared threeArg : Bool) (n' : Nat) (v : Nat × Nat → Bool) (w : World) : Result × World :=
  checkW threeArg (askVia shared 1 n' v id) n' w

/-- what the scripted checker does at a question of the outer call: count it, and at the `k`-th run the nested call
and remember its result. -/
def hookAt (shared : Bool) (k : Nat) (nestedThree : Bool) (n' : Nat) (v : Nat × Nat → Bool) (w : World) : World :=
  let w1 := { w with asked := w.asked + 1 }
  if w1.asked = k then
    { (nestedCall shared nestedThree n' v w1).2 with nested := some (nestedCall shared nestedThree n' v w1).1 }
  else w1

/-- the outer call of motion `0` (`n` segments) during whose `k`-th validity question the checker runs a complete
check of motion `1`. -/
def outerCall (shared outerThree : Bool) (n : Nat) (k : Nat) (nestedThree : Bool) (n' : Nat)
    (v : Nat × Nat → Bool) (w : World) : Result × World :=
  checkW outerThree (askVia shared 0 n v (hookAt shared k nestedThree n' v)) n w

/-! ### the constrained validator against an `Ask` (the traversal's questions may be interleaved with other calls too) -/

/-- `traverse` against an `Ask`. -/
def traverseW (ask : Ask) (m : Nat) (geom : Bool) (w : World) : (Bool × List Nat × Nat) × World :=
  match (linScanW ask 1 m w).1.2 with
  | some j => ((false, (linScanW ask 1 m w).1.1, j - 1), (linScanW ask 1 m w).2)
  | none => ((geom, (linScanW ask 1 m w).1.1, m), (linScanW ask 1 m w).2)

/-- `traverseG` against an `Ask`. -/
def traverseGW (ask : Ask) (mode : TMode) (m : Nat) (geom : Bool) (w : World) :
    (Bool × List Nat × Nat × Bool) × World :=
  let go (q : List Nat) (w : World) : (Bool × List Nat × Nat × Bool) × World :=
    (((traverseW ask m geom w).1.1, q ++ (traverseW ask m geom w).1.2.1, (traverseW ask m geom w).1.2.2, false),
      (traverseW ask m geom w).2)
  match mode with
  | .proj => go [] w
  | .atlas => if !(ask 0 w).1 then ((false, [0], 0, true), (ask 0 w).2) else go [0] (ask 0 w).2
  | .tb =>
    if m == 0 && geom then go [] w
    else if !(ask 0 w).1 then ((false, [0], 0, false), (ask 0 w).2) else go [0] (ask 0 w).2

/-- `constrained2G` against an `Ask`. -/
def constrained2GW (ask : Ask) (mode : TMode) (sat : Bool) (m : Nat) (geom : Bool) (w : World) : CResult × World :=
  if !(ask (m + 1) w).1 then (⟨false, none, false, [m + 1], 0, 1⟩, (ask (m + 1) w).2.bump 0 1)
  else if !sat then (⟨false, none, false, [m + 1], 0, 1⟩, (ask (m + 1) w).2.bump 0 1)
  else if (traverseGW ask mode m geom (ask (m + 1) w).2).1.1 then
    (⟨true, none, false, (m + 1) :: (traverseGW ask mode m geom (ask (m + 1) w).2).1.2.1, 1, 0⟩,
      (traverseGW ask mode m geom (ask (m + 1) w).2).2.bump 1 0)
  else (⟨false, none, false, (m + 1) :: (traverseGW ask mode m geom (ask (m + 1) w).2).1.2.1, 0, 1⟩,
      (traverseGW ask mode m geom (ask (m + 1) w).2).2.bump 0 1)

/-- `constrained3G` against an `Ask`. -/
def constrained3GW (ask : Ask) (mode : TMode) (hasFirst sat : Bool) (m : Nat) (geom : Bool) (w : World) :
    CResult × World :=
  let t := traverseGW ask mode m geom w
  if t.1.2.2.2 then (⟨false, if hasFirst then some 0 else none, true, t.1.2.1, 0, 1⟩, t.2.bump 0 1)
  else if t.1.1 && sat then
    if (ask (m + 1) t.2).1 then (⟨true, none, false, t.1.2.1 ++ [m + 1], 1, 0⟩, (ask (m + 1) t.2).2.bump 1 0)
    else (⟨false, if hasFirst then some t.1.2.2.1 else none, true, t.1.2.1 ++ [m + 1], 0, 1⟩,
      (ask (m + 1) t.2).2.bump 0 1)
  else (⟨false, if hasFirst then some t.1.2.2.1 else none, true, t.1.2.1, 0, 1⟩, t.2.bump 0 1)

end OmplModel.Motion
