import OmplModel.Model.Interleave
/-
C19 round 10b — AnytimePathShortening's solution bookkeeping (`addPath`, `solve`) in the interleaving model.  Core only.

`addPath(path, planner)` (AnytimePathShortening.cpp:119): under `lock_` — if the path's cost is better than `bestCost_`,
`bestCost_ := cost` and the path goes into the problem definition; otherwise it still goes in when it comes from a
sub-planner (`planner != this`), and is dropped when it comes from APS's own shortcut/hybridize loop.  One guarded step.
`clear()` leaves `bestCost_ = NaN`; `solve()` spawns the sub-planner threads FIRST and only then executes
`bestCost_ = opt->infiniteCost()` (line 161, no lock) — so that initialisation is a step of the main thread that the
scheduler may place after reports of the workers.  `isCostBetterThan(c, NaN)` is false (`<` on doubles).

Costs are naturals; `Best` = NaN | +infinity | a value.
-/
namespace OmplModel.Interleave

inductive Best where
  | nan
  | inf
  | val (b : Nat)
deriving DecidableEq, Repr

inductive AStep where
  | init                              -- `bestCost_ = opt->infiniteCost()` in solve()
  | report (self : Bool) (c : Nat)    -- addPath: `self` = called by APS's own loop (`planner == this`)
deriving DecidableEq, Repr

structure AStore where
  best : Best
  stored : List Nat      -- costs of the paths handed to `pdef_->addSolutionPath`, in order

/-- after `clear()` -/
def AStore.cleared : AStore := ⟨.nan, []⟩

def Best.better (c : Nat) : Best → Bool
  | .nan => false
  | .inf => true
  | .val b => decide (c < b)

def AStep.apply : AStep → AStore → AStore
  | .init, s => { s with best := .inf }
  | .report self c, s =>
    if s.best.better c then { best := .val c, stored := s.stored ++ [c] }
    else if self then s else { s with stored := s.stored ++ [c] }

def AStep.isReport : AStep → Prop
  | .report _ _ => True
  | .init => False

/-- `bestCost_` is the cost of a stored path and no stored path is cheaper -/
def ABestIsMin (s : AStore) : Prop :=
  s.best ≠ .nan ∧ (∀ c ∈ s.stored, ∃ b, s.best = .val b ∧ b ≤ c) ∧ (∀ b, s.best = .val b → b ∈ s.stored)

end OmplModel.Interleave
