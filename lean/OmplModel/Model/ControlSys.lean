/-
The three executable systems of the C02 harness (harness/control.cpp, `SysPropagator`, `EnvValidity`,
`PosGoal`), written once more over `Num` with the same operation order, so that at `Float` every
result is bit-identical to the C++ side:

* `point` — first-order point: state (x, y), control (vx, vy), Euler step.
* `uni`   — unicycle on SE(2): state (x, y, yaw), control (v, ω); the heading is wrapped by
            `SO2StateSpace::enforceBounds` after every step (bounded heading).
* `dint`  — double integrator: state (x, y, vx, vy), control (ax, ay) with asymmetric bounds.
* `car`   — kinematic car (wheel base 1) on SE(2), control (v, steering angle), one explicit Euler step per call.
* `dpoint` — first-order point with a DISCRETE control space (`DiscreteControlSpace`): the control is one integer
            (carried as `(value, 0)`), `((value % 8) + 8) % 8` selects one of eight headings with dyadic speeds — a total
            function of the control value.

Also the state-space pieces the planner model needs: `satisfiesBounds` (RealVector with the
`numeric_limits<double>::epsilon()` slack; SO(2) `[-π, π)`), box obstacles over (x, y) (closed boxes,
harness/common/planning.h `Env::collides`), the space distances (RealVector L2; SE(2) = 1·L2 + 0.5·SO(2))
and the position goal.  Core Lean only.
-/
import OmplModel.Model.Num
namespace OmplModel.ControlSys
open OmplModel

inductive Kind where
  | point | uni | dint | car | dpoint
deriving Repr, DecidableEq

structure Cfg (α : Type) where
  kind : Kind
  lo : Array α
  hi : Array α
  clo : Array α
  chi : Array α
  dt : α
  minSteps : Nat
  maxSteps : Nat

variable {α : Type} [Num α]

def Kind.nb : Kind → Nat
  | .point => 2
  | .uni => 2
  | .dint => 4
  | .car => 2
  | .dpoint => 2

def Kind.nreals : Kind → Nat
  | .point => 2
  | .uni => 3
  | .dint => 4
  | .car => 3
  | .dpoint => 2

@[inline] def g (a : Array α) (i : Nat) : α := a.getD i (Num.ofNat 0)

/-- `SO2StateSpace::enforceBounds`: `v = fmod(value, 2.0*pi); if (v < -pi) v += 2.0*pi; else if (v >= pi) v -= 2.0*pi;` -/
def wrapSO2 (x : α) : α :=
  let twoPi : α := Num.ofNat 2 * Num.pi
  let v := Num.fmod x twoPi
  if v < -(Num.pi : α) then v + twoPi
  else if (Num.pi : α) ≤ v then v - twoPi
  else v

/-- the eight headings of `dpoint` (`DPX` / `DPY` in harness/control.cpp) -/
def dpHeading (v : Int) : α × α :=
  let z : α := Num.ofNat 0
  let o : α := Num.ofNat 1
  let q : α := Num.ofDec 75 2
  match v % 8 with
  | 0 => (o, z)
  | 1 => (z, o)
  | 2 => (-o, z)
  | 3 => (z, -o)
  | 4 => (q, q)
  | 5 => (-q, q)
  | 6 => (-q, -q)
  | _ => (q, -q)

/-- one propagator call with duration `dt` (negative for backward propagation) -/
def step (k : Kind) (dt : α) (s u : Array α) : Array α :=
  match k with
  | .point => #[g s 0 + g u 0 * dt, g s 1 + g u 1 * dt]
  | .dpoint =>
    let h : α × α := dpHeading (Num.toInt (g u 0))
    #[g s 0 + h.1 * dt, g s 1 + h.2 * dt]
  | .uni =>
    #[g s 0 + g u 0 * Num.cos (g s 2) * dt, g s 1 + g u 0 * Num.sin (g s 2) * dt,
      wrapSO2 (g s 2 + g u 1 * dt)]
  | .dint => #[g s 0 + g s 2 * dt, g s 1 + g s 3 * dt, g s 2 + g u 0 * dt, g s 3 + g u 1 * dt]
  | .car =>
    #[g s 0 + g u 0 * Num.cos (g s 2) * dt, g s 1 + g u 0 * Num.sin (g s 2) * dt,
      wrapSO2 (g s 2 + g u 0 * (Num.sin (g u 1) / Num.cos (g u 1)) * dt)]

/-- `RealVectorStateSpace::satisfiesBounds` on the first `n` reals -/
def rvInBounds (eps : α) (lo hi s : Array α) : Nat → Bool
  | 0 => true
  | n + 1 => rvInBounds eps lo hi s n && !(decide (g hi n < g s n - eps) || decide (g s n + eps < g lo n))

def satisfiesBounds (c : Cfg α) (eps : α) (s : Array α) : Bool :=
  rvInBounds eps c.lo c.hi s c.kind.nb &&
    (match c.kind with
     | .uni | .car => decide (g s 2 < (Num.pi : α)) && decide (-(Num.pi : α) ≤ g s 2)
     | _ => true)

/-- `Env::collides` with pdim = 2: inside a closed box -/
def collides (boxes : List (Array α × Array α)) (s : Array α) : Bool :=
  boxes.any fun b =>
    !(decide (g s 0 < g b.1 0) || decide (g b.2 0 < g s 0)) && !(decide (g s 1 < g b.1 1) || decide (g b.2 1 < g s 1))

def valid (c : Cfg α) (eps : α) (boxes : List (Array α × Array α)) (s : Array α) : Bool :=
  satisfiesBounds c eps s && !collides boxes s

/-- `RealVectorStateSpace::distance` over reals `off … off+n-1`: `dist = 0.0; dist += diff*diff; sqrt(dist)` -/
def sqSum (a b : Array α) : Nat → α
  | 0 => Num.ofNat 0
  | n + 1 => sqSum a b n + (g a n - g b n) * (g a n - g b n)

def rvDist (a b : Array α) (n : Nat) : α := Num.sqrt (sqSum a b n)

/-- `SO2StateSpace::distance` -/
def so2Dist (x y : α) : α :=
  let d := Num.abs (x - y)
  if (Num.pi : α) < d then Num.ofNat 2 * Num.pi - d else d

/-- `si->distance`; SE(2) is the compound with weights 1.0 and 0.5: `dist = 0.0; dist += w_i * d_i` -/
def dist (k : Kind) (a b : Array α) : α :=
  match k with
  | .point | .dpoint => rvDist a b 2
  | .dint => rvDist a b 4
  | .uni | .car => Num.ofNat 0 + Num.ofNat 1 * rvDist a b 2 + Num.ofDec 5 1 * so2Dist (g a 2) (g b 2)

/-- `PosGoal::distanceGoal` and `GoalRegion::isSatisfied` (`d2g < threshold_`, strict) -/
def goalDist (goal s : Array α) : α :=
  let dx := g s 0 - g goal 0
  let dy := g s 1 - g goal 1
  Num.sqrt (dx * dx + dy * dy)

/-- the three goal kinds of the harness: `pos` (sampleable region, L2 position distance), `pred` (a plain `ob::Goal`
predicate: `Goal::isSatisfied(st, &d)` sets `d = numeric_limits<double>::max()`), `l1` (`GoalRegion` with `|dx| + |dy|`) -/
inductive GoalKind where
  | pos | pred | l1
deriving Repr, DecidableEq

def goalTest (k : GoalKind) (dblMax : α) (goal : Array α) (thr : α) (s : Array α) : Bool × α :=
  match k with
  | .pos =>
    let d := goalDist goal s
    (decide (d < thr), d)
  | .pred => (decide (goalDist goal s < thr), dblMax)
  | .l1 =>
    let d := Num.abs (g s 0 - g goal 0) + Num.abs (g s 1 - g goal 1)
    (decide (d < thr), d)

/-- control within the control-space bounds -/
def ctlInBounds (c : Cfg α) (u : Array α) : Bool :=
  decide (g c.clo 0 ≤ g u 0) && decide (g u 0 ≤ g c.chi 0) && decide (g c.clo 1 ≤ g u 1) && decide (g u 1 ≤ g c.chi 1)

end OmplModel.ControlSys
