import OmplModel.Model.SpaceDistX
import OmplModel.Model.ReedsShepp
import OmplModel.Model.Owen
import OmplModel.Model.Vana
import OmplModel.Model.VanaOwen
/-
C06 model, part 3: the car-like spaces (Dubins, Reeds-Shepp, Owen, Vana, VanaOwen).  Their `distance` is the one of
C14's models (`Model/Dubins.lean`, `ReedsShepp.lean`, `Owen.lean`, `Vana.lean`, `VanaOwen.lean`, imported, not edited);
this file only says what `StateSpace::distance` / `getMaximumExtent` / `equalStates` / `satisfiesBounds` are in terms of
them, as coded:

  * all five are `CompoundStateSpace`s `[ (1, R^n), (0.5, SO2) ]` (n = 2, 3, 4) that inherit `getMaximumExtent`,
    `equalStates`, `satisfiesBounds` (`layout`);
  * Dubins: `rho_ * dubins(s1, s2).length()` (or `rho_ * min(both directions)` when symmetric); Reeds-Shepp:
    `rho_ * reedsShepp(s1, s2).length()`;
  * Owen / Vana / VanaOwen: `if (auto path = getPath(s1, s2)) return path->length(); return getMaximumExtent();`
    - Vana: `getPath` is recomputed entirely (doubling search + local optimisation, tolerance 1e-8, last-arc test as
      since 824d60bd4);
    - Owen: the root of boost's bracketing search (turn radius of a high-altitude path / initial turn angle of a
      medium-altitude one) is a RECORDED answer (`rec = [root]`; `[]` = the real code found no path); category, number
      of turns, acceptance test, Dubins word and `length()` (with `std::abs(phi_)`, 47eee3052) are recomputed;
    - VanaOwen: `getPath` is not modelled; `rec = [verticalRadius_, t, p, q of pathSZ_]` is recorded and only
      `length() = verticalRadius_ * pathSZ_.length()` is recomputed.
Core Lean only.
-/
namespace OmplModel.SpaceDist
open OmplModel OmplModel.Dubins

inductive CarSpace (α : Type) where
  | dubins (rho : α) (sym : Bool) (lo hi : List α)
  | reedsshepp (rho : α) (lo hi : List α)
  | owen (rho maxPitch tanp : α) (lo hi : List α)
  | vana (rho maxPitch : α) (lo hi : List α)
  | vanaowen (rho maxPitch : α) (lo hi : List α)

variable {α : Type}

def halfW [Num α] : α := Num.ofDec 5 1

/-- the compound the space is built as (its bounds, `equalStates`, `satisfiesBounds`, `getMaximumExtent`) -/
def CarSpace.layout [Num α] : CarSpace α → Space α
  | .dubins _ _ lo hi => .ccons (Num.ofNat 1) (.rv lo hi) (.ccons halfW .so2 .cnil)
  | .reedsshepp _ lo hi => .ccons (Num.ofNat 1) (.rv lo hi) (.ccons halfW .so2 .cnil)
  | .owen _ _ _ lo hi => .ccons (Num.ofNat 1) (.rv lo hi) (.ccons halfW .so2 .cnil)
  | .vana _ p lo hi => .ccons (Num.ofNat 1) (.rv (lo ++ [-p]) (hi ++ [p])) (.ccons halfW .so2 .cnil)
  | .vanaowen _ p lo hi => .ccons (Num.ofNat 1) (.rv (lo ++ [-p]) (hi ++ [p])) (.ccons halfW .so2 .cnil)

def carExtent [Num α] (c : CarSpace α) : α := maxExtent c.layout

/-- `distance`; `rec` = the recorded answers (Owen, VanaOwen); `none` = the model has no value (a default-constructed
Dubins path, an ill-shaped state or recorded list) -/
def carDist [RS.RSNum α] (c : CarSpace α) (a b : St α) (rec : List α) : Option α :=
  match c, a, b with
  | .dubins rho sym _ _, .ccons (.rv [x1, y1]) (.ccons (.so2 t1) .cnil), .ccons (.rv [x2, y2]) (.ccons (.so2 t2) .cnil) =>
    Dubins.distance rho sym ⟨x1, y1, t1⟩ ⟨x2, y2, t2⟩
  | .reedsshepp rho _ _, .ccons (.rv [x1, y1]) (.ccons (.so2 t1) .cnil), .ccons (.rv [x2, y2]) (.ccons (.so2 t2) .cnil) =>
    RS.rsDistance rho ⟨x1, y1, t1⟩ ⟨x2, y2, t2⟩
  | .vana rho p _ _, .ccons (.rv [x1, y1, z1, p1]) (.ccons (.so2 t1) .cnil),
      .ccons (.rv [x2, y2, z2, p2]) (.ccons (.so2 t2) .cnil) =>
    match Vana.getPath true rho (-p) p (Num.ofDec 1 8) ⟨x1, y1, z1, p1, t1⟩ ⟨x2, y2, z2, p2, t2⟩ with
    | some path => some path.len
    | none => some (carExtent c)
  | .owen rho _ tanp _ _, .ccons (.rv [x1, y1, z1]) (.ccons (.so2 t1) .cnil),
      .ccons (.rv [x2, y2, z2]) (.ccons (.so2 t2) .cnil) =>
    match rec with
    | [] => some (carExtent c)                       -- the real code found no path
    | [root] =>
      match Owen.getPathWith rho tanp root ⟨x1, y1, z1, t1⟩ ⟨x2, y2, z2, t2⟩ with
      | some path => some path.lenAbs
      | none => some (carExtent c)
    | _ => none
  | .vanaowen .., _, _ =>
    match rec with
    | [] => some (carExtent c)
    | [rv, t, p, q] => some (rv * (t + p + q))
    | _ => none
  | _, _, _ => none

/-- `isMetricSpace()`, `hasSymmetricDistance()` (= `hasSymmetricInterpolate()`) -/
def carClaims : CarSpace α → Bool × Bool
  | .dubins _ sym _ _ => (false, sym)
  | .reedsshepp .. => (true, true)        -- inherits the SE(2) compound's claims
  | _ => (false, false)

end OmplModel.SpaceDist
