/-
Executable model of `ompl::control::RRT::solve` (src/ompl/control/planners/rrt/src/RRT.cpp), both
`addIntermediateStates_` modes, with `NearestNeighborsLinear` and `SimpleDirectedControlSampler`.

Core Lean only.  The planner is an oracle machine (DESIGN 1.4): everything it learns about the world
comes through `P.step` (one propagation step), `P.valid`, `P.dist`, `P.goal`; everything random
comes from the script of `Draw`s — per loop iteration the outcome of the goal-bias test, the state
the sampler returned, and the `numControlSamples` (control, step count) draws consumed by
`sampleTo`.  The termination condition is evaluated once per iteration at the loop head, so
"interrupted after `N` iterations" is the script truncated to `N` draws; a theorem for every script
is a theorem for every interruption point.

Tree: an array of motions in insertion order (the order `NearestNeighborsLinear::list` returns);
`parent` is an index.  Abstractions: pointers → indices; `approxdif = +inf` is `P.inf`; the
recycled buffers `rmotion/rstate/rctrl` are values.
-/
import OmplModel.Model.Control
namespace OmplModel.CRRT
open OmplModel.Control

structure Problem (S U δ : Type) where
  /-- one propagation step of length `+stepSize` with the user's propagator -/
  step : S → U → S
  valid : S → Bool
  /-- `si_->distance` -/
  dist : S → S → δ
  /-- `<` on `double` -/
  lt : δ → δ → Bool
  inf : δ
  /-- `goal->isSatisfied(st, &dist)` -/
  goal : S → Bool × δ
  /-- what `goal_s->sampleGoal` writes -/
  goalSample : S
  /-- `siC_->nullControl` (stored in root motions, never reported) -/
  nullControl : U
  minSteps : Nat
  intermediate : Bool

structure Draw (S U : Type) where
  /-- outcome of `goal_s && rng_.uniform01() < goalBias_ && goal_s->canSample()` -/
  useGoal : Bool
  /-- what `sampler_->sampleUniform` returned (unused when `useGoal`) -/
  sample : S
  /-- the (control, step count) draws of `sampleTo`, first draw first -/
  ctl : List (U × Nat)

structure Motion (S U : Type) where
  state : S
  control : U
  steps : Nat
  parent : Option Nat

structure LoopSt (S U δ : Type) where
  tree : Array (Motion S U)
  solution : Option Nat
  approxsol : Option Nat
  approxdif : δ

variable {S U δ : Type}

/-- `NearestNeighborsLinear::nearest`: `if (pos == sz || dmin > distance) { pos = i; dmin = distance; }` -/
def nearestGo (dist : S → S → δ) (lt : δ → δ → Bool) (q : S) :
    List (Motion S U) → Nat → Option (Nat × δ) → Option (Nat × δ)
  | [], _, best => best
  | m :: ms, i, best =>
    let d := dist m.state q
    match best with
    | none => nearestGo dist lt q ms (i + 1) (some (i, d))
    | some (p, dmin) =>
      if lt d dmin then nearestGo dist lt q ms (i + 1) (some (i, d))
      else nearestGo dist lt q ms (i + 1) (some (p, dmin))

def nearest (P : Problem S U δ) (tree : Array (Motion S U)) (q : S) : Option Nat :=
  (nearestGo P.dist P.lt q tree.toList 0 none).map (·.1)

/-- `nn_->add(motion); solved = goal->isSatisfied(motion->state, &dist); …` — returns the new loop
state and whether the goal was hit (`break`). -/
def addMotion (P : Problem S U δ) (st : LoopSt S U δ) (m : Motion S U) : LoopSt S U δ × Bool :=
  let idx := st.tree.size
  let tree := st.tree.push m
  let g := P.goal m.state
  if g.1 then ({ tree := tree, solution := some idx, approxsol := st.approxsol, approxdif := g.2 }, true)
  else if P.lt g.2 st.approxdif then
    ({ tree := tree, solution := st.solution, approxsol := some idx, approxdif := g.2 }, false)
  else ({ st with tree := tree }, false)

/-- the `for (; p < pstates.size(); ++p)` loop of the intermediate-states mode: one 1-step motion
per propagated state, each the child of the previous one; stops at the first goal hit (the
remaining states are freed). -/
def addChain (P : Problem S U δ) (u : U) : LoopSt S U δ → Nat → List S → LoopSt S U δ × Bool
  | st, _, [] => (st, false)
  | st, last, p :: ps =>
    let idx := st.tree.size
    let r := addMotion P st { state := p, control := u, steps := 1, parent := some last }
    if r.2 then r else addChain P u r.1 idx ps

/-- one iteration of `while (ptc == false)`; the flag is `break`. -/
def iter (P : Problem S U δ) (st : LoopSt S U δ) (d : Draw S U) : LoopSt S U δ × Bool :=
  let rstate := if d.useGoal then P.goalSample else d.sample
  match nearest P st.tree rstate with
  | none => (st, false)     -- `nearest` throws on an empty structure; the tree is never empty here
  | some n =>
    match st.tree[n]? with
    | none => (st, false)
    | some nm =>
      match sampleTo P.step P.valid P.dist P.lt nm.state rstate d.ctl with
      | none => (st, false)   -- numControlSamples_ ≥ 1
      | some (rctrl, cd0, reached) =>
        if P.intermediate then
          let r := pwvVec P.step P.valid nm.state rctrl cd0 [] true
          if P.minSteps ≤ r.1 then addChain P rctrl st n (someStates r.2)
          else (st, false)
        else
          if P.minSteps ≤ cd0 then
            addMotion P st { state := reached, control := rctrl, steps := cd0, parent := some n }
          else (st, false)

def run (P : Problem S U δ) : LoopSt S U δ → List (Draw S U) → LoopSt S U δ
  | st, [] => st
  | st, d :: ds =>
    let r := iter P st d
    if r.2 then r.1 else run P r.1 ds

/-- `while (solution != nullptr) { mpath.push_back(solution); solution = solution->parent; }`:
indices from the solution motion back to its root (fuel = tree size; parents have smaller indices). -/
def chain (tree : Array (Motion S U)) : Nat → Nat → List Nat
  | 0, _ => []
  | fuel + 1, i =>
    match tree[i]? with
    | none => []
    | some m =>
      match m.parent with
      | none => [i]
      | some p => i :: chain tree fuel p

/-- `for (i = mpath.size()-1; i >= 0; --i) if (mpath[i]->parent) path->append(state, control,
steps*stepSize) else path->append(state)` over the motions root-first. -/
def pathOf (tree : Array (Motion S U)) : List Nat → Path S U
  | [] => { states := [], controls := [], steps := [] }
  | i :: rest =>
    let p := pathOf tree rest
    match tree[i]? with
    | none => p
    | some m =>
      match m.parent with
      | none => { p with states := m.state :: p.states }
      | some _ => { states := m.state :: p.states, controls := m.control :: p.controls,
                    steps := m.steps :: p.steps }

inductive Status where
  | invalidStart | timeout | approximate | exact
deriving Repr, DecidableEq

structure Result (S U δ : Type) where
  status : Status
  /-- `approxdif` handed to `addSolutionPath` (meaningful when a path is reported) -/
  dif : δ
  path : Option (Path S U)
  tree : Array (Motion S U)

/-- root motions: `pis_.nextStart()` yields the valid start states in order. -/
def roots (P : Problem S U δ) (starts : List S) : Array (Motion S U) :=
  ((starts.filter P.valid).map
    (fun s => ({ state := s, control := P.nullControl, steps := 0, parent := none } : Motion S U))).toArray

/-- the reported path: states root-first.  `pathOf` conses in list order, so the chain
(solution … root) is reversed first. -/
def reported (tree : Array (Motion S U)) (sol : Nat) : Path S U :=
  pathOf tree (chain tree tree.size sol).reverse

/-- `control::RRT::solve` on a fresh planner. -/
def solve (P : Problem S U δ) (starts : List S) (draws : List (Draw S U)) : Result S U δ :=
  let tree0 := roots P starts
  if tree0.size = 0 then { status := .invalidStart, dif := P.inf, path := none, tree := tree0 }
  else
    let st := run P { tree := tree0, solution := none, approxsol := none, approxdif := P.inf } draws
    match st.solution with
    | some i => { status := .exact, dif := st.approxdif, path := some (reported st.tree i), tree := st.tree }
    | none =>
      match st.approxsol with
      | some i => { status := .approximate, dif := st.approxdif, path := some (reported st.tree i), tree := st.tree }
      | none => { status := .timeout, dif := st.approxdif, path := none, tree := st.tree }

end OmplModel.CRRT
