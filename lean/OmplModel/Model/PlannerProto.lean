/-
Protocol machine of a planner object under the calls
`solve k | clear | clearQuery | setProblemDefinition pd | getPlannerData` (plus the problem-definition side
changes `addStartState`, `setStartAndGoalStates`, `clearSolutionPaths`, and the destructor), acting on
(planner core, `PlannerInputStates` counters, problem-definition solution list) with an explicit allocation
log: every `allocState`/`freeState` the planner performs is an event.

Core Lean only (no Mathlib): linked into the native driver `drv_plannerproto`.

The search CORE is a parameter (`CoreSpec`; instances: the geometric RRT-like tree core and the control-RRT core
with intermediate states); the protocol layer mirrors what the tree planners share
(src/ompl/base/src/Planner.cpp and the prologue/epilogue of geometric::RRT::solve, RRT.cpp:97-230):

* `checkValidity()` (no problem definition: exception, nothing changes);
* `while (st = pis_.nextStart())` — every *new* valid start becomes a root motion; invalid ones are skipped;
  `addedStartStates_` ends at the number of start states;
* `nn_->size() == 0` ⇒ `INVALID_START` (before `rmotion`/`xstate` are allocated);
* `rmotion->state` and `xstate` are allocated before the loop and freed after it;
* `while (!ptc)`: the condition is evaluated BEFORE each iteration, so `k = 0` returns at once; a satisfied goal
  `break`s without another evaluation;
* `solution`/`approxsol`/`approxdif` selection, `lastGoalMotion_`, path assembly (one `cloneState` per path state,
  owned by the path afterwards), `addSolutionPath(path, approximate, approxdif)`, status `{solved, approximate}`;
* `clear()` = `Planner::clear` (`pis_.clear(); pis_.update()`) + `freeMemory()` + `lastGoalMotion_ = nullptr`;
  `clearQuery()` = `clear()` (Planner.cpp:124; RRT does not override it);
* `setProblemDefinition(pd)` = `pdef_ = pd; pis_.update()` and NOTHING else: `pis_.use` resets the counters when the
  problem definition object differs, the tree is kept (RRT does not override it; Planner.h: "it may also be
  necessary to call clear()").

Abstractions (checked by the lock-step run, not assumed silently):
* one loop iteration is an oracle answer `Draw` (nearest motion, motion valid?, new state, goal satisfied?, goal
  distance) taken from the real run; sampling, nearest-neighbour search, interpolation and collision checking are
  not modelled;
* motions are tree indices; `freeMemory` frees in insertion order (the real order is `nn_->list()` order; the
  check compares the freed *set* per op);
* `PlannerInputStates::tempState_` is not modelled (RRT never calls `nextGoal`); `std::sort` of the solution list is
  modelled by a stable insertion (same result up to the order of `operator<`-equivalent solutions);
* allocations of the motion validator's scratch state are transient (`alloc`,`free` back to back) and dropped on
  the harness side.
-/
namespace OmplModel.PlannerProto

/-- `si_->allocState()` / `si_->freeState()` of the state with serial number `id`. -/
inductive Ev where
  | alloc (id : Nat)
  | free (id : Nat)
deriving DecidableEq, Repr

inductive Status where
  /-- `checkValidity()` threw: no problem definition -/
  | noPdef
  | invalidStart
  | timeout
  | approximate
  | exact
  /-- model only: the list of oracle answers ran out before the termination condition fired -/
  | starved
deriving DecidableEq, Repr

/-- what the model needs from the number type of distances (no law is assumed anywhere) -/
structure Params (σ δ : Type) where
  ltD : δ → δ → Bool
  inf : δ
  zero : δ
  pathLen : List σ → δ

/-- `PlannerSolution` (no optimization objective: `opt_` null, `optimized_` false) -/
structure Sol (σ δ : Type) where
  path : List σ
  approx : Bool
  diff : δ
  len : δ

/-- `PlannerSolution::operator<` (ProblemDefinition.cpp:155) for solutions without objective -/
def Sol.lt {σ δ : Type} (ltD : δ → δ → Bool) (a b : Sol σ δ) : Bool :=
  if !a.approx && b.approx then true
  else if a.approx && !b.approx then false
  else if a.approx && b.approx then ltD a.diff b.diff
  else ltD a.len b.len

/-- `solutions_.push_back(s); std::sort(...)` on an already sorted vector -/
def insertSol {σ δ : Type} (ltD : δ → δ → Bool) (x : Sol σ δ) : List (Sol σ δ) → List (Sol σ δ)
  | [] => [x]
  | y :: r => if Sol.lt ltD x y then x :: y :: r else y :: insertSol ltD x r

structure Pdef (σ δ : Type) where
  /-- identity of the object (`pdef_ != pdef` compares pointers) -/
  id : Nat
  /-- start states with the answer of `satisfiesBounds && isValid` -/
  starts : List (σ × Bool)
  sols : List (Sol σ δ) := []

def Pdef.hasSolution {σ δ : Type} (p : Pdef σ δ) : Bool := !p.sols.isEmpty
def Pdef.hasApproximateSolution {σ δ : Type} (p : Pdef σ δ) : Bool :=
  match p.sols with
  | [] => false
  | s :: _ => s.approx
def Pdef.hasExactSolution {σ δ : Type} (p : Pdef σ δ) : Bool := p.hasSolution && !p.hasApproximateSolution

/-- `PlannerInputStates` -/
structure Pis where
  added : Nat := 0
  sampledGoals : Nat := 0
  pdef : Option Nat := none
deriving DecidableEq, Repr

/-- `PlannerInputStates::use` -/
def Pis.use (p : Pis) (pd : Option Nat) : Pis :=
  match pd with
  | some i => if p.pdef = some i then p else { added := 0, sampledGoals := 0, pdef := some i }
  | none => p

/-- `Planner::clear`: `pis_.clear(); pis_.update();` -/
def Pis.plannerClear (pd : Option Nat) : Pis := ({} : Pis).use pd

/-- what one loop body did: the new core, the next fresh allocation id, the allocState/freeState events in order,
and for every motion it added (in order) its index, whether it satisfies the goal and its goal distance.  A core
stops adding motions at the first one that satisfies the goal. -/
structure IterOut (δ C : Type) where
  core : C
  next : Nat
  evs : List Ev
  res : List (Nat × Bool × δ)

/-- The search core as a parameter.  `iterate c i d` is one loop body with oracle answer `d`, allocating from the
fresh id `i` on. -/
structure CoreSpec (σ δ D C : Type) where
  init : C
  size : C → Nat
  /-- allocation ids of the states the core's motions own -/
  owned : C → List Nat
  /-- `new Motion(si_); copyState(motion->state, st); nn_->add(motion)` for a start state -/
  addRoot : C → Nat → σ → C
  iterate : C → Nat → D → IterOut δ C
  /-- states from the root to motion `i` -/
  pathTo : C → Nat → List σ
  /-- the epilogue frees `xstate` before `rmotion->state` (geometric::RRT) or after it (control::RRT) -/
  xFirst : Bool

/-- the planner object together with its problem definition and the allocation bookkeeping -/
structure M (σ δ C : Type) where
  core : C
  /-- `lastGoalMotion_` -/
  lastGoal : Option Nat := none
  pis : Pis := {}
  pdef : Option (Pdef σ δ) := none
  /-- next fresh allocation id -/
  next : Nat := 0
  /-- every allocState/freeState so far, oldest first -/
  log : List Ev := []
  /-- ids of the states cloned into solution paths (owned by the paths from then on) -/
  handed : List Nat := []

/-- locals of `solve` -/
structure Search (δ : Type) where
  solution : Option Nat := none
  approxsol : Option Nat := none
  approxdif : δ

structure LoopOut (δ C : Type) where
  core : C
  s : Search δ
  next : Nat
  evs : List Ev
  /-- evaluations of the termination condition -/
  evals : Nat
  starved : Bool

variable {σ δ D C : Type}

/-- `while (st = pis_.nextStart())` over the not yet consumed start states -/
def consumeStarts (cs : CoreSpec σ δ D C) : List (σ × Bool) → C → Nat → C × Nat × List Ev
  | [], c, n => (c, n, [])
  | (s, true) :: r, c, n =>
    let (c', n', e) := consumeStarts cs r (cs.addRoot c n s) (n + 1)
    (c', n', Ev.alloc n :: e)
  | (_, false) :: r, c, n => consumeStarts cs r c n

/-- the `solution` / `approxsol` / `approxdif` bookkeeping over the motions one loop body added; `true` = goal
reached (`break`). -/
def applyRes (ltD : δ → δ → Bool) : Search δ → List (Nat × Bool × δ) → Search δ × Bool
  | s, [] => (s, false)
  | s, (idx, sat, dist) :: r =>
    if sat then ({ s with solution := some idx, approxdif := dist }, true)
    else applyRes ltD (if ltD dist s.approxdif then { s with approxsol := some idx, approxdif := dist } else s) r

/-- `while (!ptc) { … }` with the condition false for the first `k` evaluations. -/
def loop (cs : CoreSpec σ δ D C) (ltD : δ → δ → Bool) :
    Nat → List D → C → Search δ → Nat → LoopOut δ C
  | 0, _, c, s, n => ⟨c, s, n, [], 1, false⟩
  | _ + 1, [], c, s, n => ⟨c, s, n, [], 0, true⟩
  | k + 1, d :: ds, c, s, n =>
    let o := cs.iterate c n d
    let a := applyRes ltD s o.res
    if a.2 then
      ⟨o.core, a.1, o.next, o.evs, 1, false⟩
    else
      let r := loop cs ltD k ds o.core a.1 o.next
      { r with evs := o.evs ++ r.evs, evals := r.evals + 1 }

/-- ids `n, n+1, …, n+len-1` -/
def freshIds (n len : Nat) : List Nat := (List.range len).map (n + ·)

structure SolveRes (σ δ C : Type) where
  m : M σ δ C
  status : Status
  /-- solutions added to the problem definition by this call -/
  added : List (Sol σ δ)
  evs : List Ev
  evals : Nat

/-- `if (solution == nullptr) { solution = approxsol; approximate = true; }` -/
def pick (s : Search δ) : Option Nat × Bool :=
  match s.solution with
  | some i => (some i, false)
  | none => (s.approxsol, true)

/-- `si_->freeState(xstate); si_->freeState(rmotion->state);` (geometric::RRT) or the other way round (control::RRT) -/
def freeTemps (xFirst : Bool) (xstate rmotion : Nat) : List Ev :=
  if xFirst then [Ev.free xstate, Ev.free rmotion] else [Ev.free rmotion, Ev.free xstate]

/-- the epilogue of `solve`: path assembly, `addSolutionPath`, freeing `xstate` and `rmotion->state`, status.
`m1` is the planner after the prologue, `e12` the events so far, `r` the outcome of the loop. -/
def finish (cs : CoreSpec σ δ D C) (P : Params σ δ) (m1 : M σ δ C) (pd : Pdef σ δ) (e12 : List Ev)
    (rmotion xstate : Nat) (r : LoopOut δ C) : SolveRes σ δ C :=
  let e4 := freeTemps cs.xFirst xstate rmotion
  match pick r.s with
  | (some i, approximate) =>
    let path := cs.pathTo r.core i
    let ids := freshIds r.next path.length
    let s : Sol σ δ := ⟨path, approximate, if approximate then r.s.approxdif else P.zero, P.pathLen path⟩
    let evs := e12 ++ r.evs ++ ids.map Ev.alloc ++ e4
    ⟨{ m1 with core := r.core, lastGoal := some i,
               pdef := some { pd with sols := insertSol P.ltD s pd.sols },
               next := r.next + path.length, log := m1.log ++ (r.evs ++ ids.map Ev.alloc ++ e4),
               handed := m1.handed ++ ids },
     if r.starved then .starved else if approximate then .approximate else .exact, [s], evs, r.evals⟩
  | (none, _) =>
    ⟨{ m1 with core := r.core, next := r.next, log := m1.log ++ (r.evs ++ e4) },
     if r.starved then .starved else .timeout, [], e12 ++ r.evs ++ e4, r.evals⟩

/-- the prologue of `solve`: new valid start states become root motions; `addedStartStates_` ends at the count -/
def prologue (cs : CoreSpec σ δ D C) (m : M σ δ C) (pd : Pdef σ δ) : M σ δ C × List Ev :=
  let r := consumeStarts cs (pd.starts.drop m.pis.added) m.core m.next
  ({ m with core := r.1, pis := { m.pis with added := max m.pis.added pd.starts.length }, next := r.2.1,
            log := m.log ++ r.2.2 }, r.2.2)

/-- `Planner::solve(ptc)` of the tree-planner family (geometric::RRT). -/
def solve (cs : CoreSpec σ δ D C) (P : Params σ δ) (m : M σ δ C) (k : Nat) (draws : List D) : SolveRes σ δ C :=
  match m.pdef with
  | none => ⟨m, .noPdef, [], [], 0⟩
  | some pd =>
    let pr := prologue cs m pd
    let m1 := pr.1
    if cs.size m1.core = 0 then
      ⟨m1, .invalidStart, [], pr.2, 0⟩
    else
      let rmotion := m1.next
      let xstate := m1.next + 1
      let e2 := [Ev.alloc rmotion, Ev.alloc xstate]
      let r := loop cs P.ltD k draws m1.core ⟨none, none, P.inf⟩ (m1.next + 2)
      finish cs P { m1 with log := m1.log ++ e2 } pd (pr.2 ++ e2) rmotion xstate r

/-- `freeMemory()`: every motion's state -/
def freeAll (cs : CoreSpec σ δ D C) (c : C) : List Ev := (cs.owned c).map Ev.free

/-- `RRT::clear()` -/
def clear (cs : CoreSpec σ δ D C) (m : M σ δ C) : M σ δ C :=
  { m with core := cs.init, lastGoal := none, pis := Pis.plannerClear (m.pdef.map (·.id)),
           log := m.log ++ freeAll cs m.core }

/-- `Planner::setProblemDefinition`: `pdef_ = pdef; pis_.update();` — the tree and `lastGoalMotion_` stay.
Giving the id of the current problem definition again means passing the same object. -/
def setProblemDefinition (m : M σ δ C) (id : Nat) (starts : List (σ × Bool)) : M σ δ C :=
  match m.pdef with
  | some pd =>
    if pd.id = id then m
    else { m with pdef := some { id := id, starts := starts }, pis := m.pis.use (some id) }
  | none => { m with pdef := some { id := id, starts := starts }, pis := m.pis.use (some id) }

/-- operations (the alphabet of "every finite history") -/
inductive Op (σ D : Type) where
  | solve (k : Nat) (draws : List D)
  | clear
  | clearQuery
  | setProblemDefinition (id : Nat) (starts : List (σ × Bool))
  | getPlannerData
  /-- `pdef->addStartState(s)` between calls (the one change of a problem definition a resumed solve accounts for) -/
  | addStart (s : σ) (valid : Bool)
  /-- same problem definition object: `setStartAndGoalStates(…)` + `clearSolutionPaths()` -/
  | setStartGoal (starts : List (σ × Bool))
  | clearSolutionPaths
  /-- `~RRT()`: `freeMemory()` -/
  | destroy

def step (cs : CoreSpec σ δ D C) (P : Params σ δ) (m : M σ δ C) : Op σ D → M σ δ C
  | .solve k ds => (solve cs P m k ds).m
  | .clear => clear cs m
  | .clearQuery => clear cs m
  | .setProblemDefinition id starts => setProblemDefinition m id starts
  | .getPlannerData => m
  | .addStart s v => { m with pdef := m.pdef.map (fun pd => { pd with starts := pd.starts ++ [(s, v)] }) }
  | .setStartGoal starts => { m with pdef := m.pdef.map (fun pd => { pd with starts := starts, sols := [] }) }
  | .clearSolutionPaths => { m with pdef := m.pdef.map (fun pd => { pd with sols := [] }) }
  | .destroy => { m with core := cs.init, lastGoal := none, log := m.log ++ freeAll cs m.core }

def M.init (cs : CoreSpec σ δ D C) : M σ δ C := { core := cs.init }

def run (cs : CoreSpec σ δ D C) (P : Params σ δ) (m : M σ δ C) (ops : List (Op σ D)) : M σ δ C :=
  ops.foldl (step cs P) m

/-- what `getPlannerData` reads: number of motions, whether a goal vertex is reported, and whether
`lastGoalMotion_` points outside the tree (a dangling pointer in the C++ code). -/
def plannerData (cs : CoreSpec σ δ D C) (m : M σ δ C) : Nat × Bool × Bool :=
  (cs.size m.core, m.lastGoal.isSome,
   match m.lastGoal with
   | some i => decide (cs.size m.core ≤ i)
   | none => false)

/-! ## The RRT-like tree core -/

structure Motion (σ : Type) where
  state : σ
  parent : Option Nat
  /-- allocation id of `state` -/
  sid : Nat

abbrev Tree (σ : Type) := Array (Motion σ)

/-- oracle answer of one iteration of `geometric::RRT::solve` -/
structure Draw (σ δ : Type) where
  /-- index of `nn_->nearest(rmotion)` -/
  near : Nat
  /-- `si_->checkMotion(nmotion->state, dstate)` -/
  valid : Bool
  /-- `dstate` -/
  st : σ
  /-- `goal->isSatisfied(nmotion->state, &dist)` -/
  sat : Bool
  dist : δ

/-- `while (solution != nullptr) { mpath.push_back(solution); solution = solution->parent; }`, reversed -/
def walk (t : Tree σ) (i : Nat) (acc : List σ) : List σ :=
  if h : i < t.size then
    match t[i].parent with
    | none => t[i].state :: acc
    | some p => if p < i then walk t p (t[i].state :: acc) else t[i].state :: acc
  else acc
termination_by i

def rrtCore : CoreSpec σ δ (Draw σ δ) (Tree σ) where
  init := #[]
  size := Array.size
  owned t := t.toList.map (·.sid)
  addRoot t i s := t.push ⟨s, none, i⟩
  iterate t i d :=
    if d.valid && decide (d.near < t.size) then
      ⟨t.push ⟨d.st, some d.near, i⟩, i + 1, [Ev.alloc i], [(t.size, d.sat, d.dist)]⟩
    else ⟨t, i, [], []⟩
  pathTo t i := walk t i []
  xFirst := true

/-! ## The control-RRT core with intermediate states (control/planners/rrt/src/RRT.cpp:141-190)

`siC_->propagateWhileValid(nmotion->state, rctrl, cd, pstates, true)` allocates one state per propagation step (a
step found invalid is allocated and freed at once); if the number of valid steps reaches `getMinControlDuration()`
every propagated state is ADOPTED by a new motion (`motion->state = pstates[p]`, no copy), chained to the previous
one, until one satisfies the goal; the states after that one are freed (`while (++p < pstates.size())
freeState(pstates[p])`); if the propagation is too short all of them are freed.  Controls are not modelled. -/

structure CDraw (σ δ : Type) where
  /-- index of `nn_->nearest(rmotion)` -/
  near : Nat
  /-- the valid propagated states, each with `goal->isSatisfied(state, &dist)` (ignored after the first satisfied one) -/
  ps : List (σ × Bool × δ)
  /-- one more step was propagated, found invalid and freed -/
  tail : Bool
  /-- `cd >= siC_->getMinControlDuration()` -/
  ok : Bool

/-- the `for (; p < pstates.size(); ++p)` loop: adopt until the goal is satisfied; returns the tree, the reported
motions and the ids of the states that were not adopted. -/
def adopt : Tree σ → Nat → List (Nat × σ × Bool × δ) → Tree σ × List (Nat × Bool × δ) × List Nat
  | t, _, [] => (t, [], [])
  | t, parent, (id, st, sat, dist) :: r =>
    let t' := t.push ⟨st, some parent, id⟩
    if sat then (t', [(t.size, sat, dist)], r.map (·.1))
    else
      let o := adopt t' t.size r
      (o.1, (t.size, sat, dist) :: o.2.1, o.2.2)

def crrtCore : CoreSpec σ δ (CDraw σ δ) (Tree σ) where
  init := #[]
  size := Array.size
  owned t := t.toList.map (·.sid)
  addRoot t i s := t.push ⟨s, none, i⟩
  iterate t i d :=
    if decide (d.near < t.size) then
      let ids := freshIds i d.ps.length
      let tailEvs := if d.tail then [Ev.alloc (i + d.ps.length), Ev.free (i + d.ps.length)] else []
      let next := i + d.ps.length + (if d.tail then 1 else 0)
      if d.ok then
        let o := adopt t d.near (ids.zip d.ps)
        ⟨o.1, next, ids.map Ev.alloc ++ tailEvs ++ o.2.2.map Ev.free, o.2.1⟩
      else
        ⟨t, next, ids.map Ev.alloc ++ tailEvs ++ ids.map Ev.free, []⟩
    else ⟨t, i, [], []⟩
  pathTo t i := walk t i []
  xFirst := false

end OmplModel.PlannerProto
