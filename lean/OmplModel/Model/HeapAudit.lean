import OmplModel.Model.Heap
/-
Audit of a *dumped* `BinaryHeap` array (engine "heapusers" of C11).

The heap's users (GridB's internal_/external_ heaps, the BIT*/AIT*/EIT* queues) change keys in place
and are obliged to call `update(handle)` (or `rebuild()`) afterwards.  The harness dumps the
underlying `vector_` of each user's heap after every operation; this file is the model-side judge of
such a dump.  Core Lean only (linked into `drv_heapaudit`).

* `heapOrdered lt a`   — every non-root element is not less than its parent: the invariant
                         `HeapInv` (= `InvFrom _ _ 0`) of `Proofs/Heap.lean` in decidable form.
* `posConsistent a pos`— every element's position field equals its slot (`PosSync` of
                         `Model/HeapPos.lean` in decidable form).
* `topIsMin lt a`      — the property's first clause, evaluated directly on the contents.
* `popAll lt a`        — the property's second clause: the model's own pop loop (`drain`, i.e.
                         `top(); pop()` until empty, `removePos 0` as coded) run on the dumped array.
* `sortedB lt l`       — no adjacent inversion in a pop sequence.

A dump crosses the protocol as a vector of *ranks* (the position of each element in the order induced
by the heap's own comparator, ties sharing a rank) so that the model compares `Nat`s with `<`;
`Proofs/HeapAudit.lean` (`*_map`) shows that every function here commutes with such a key abstraction.
-/
namespace OmplModel.Heap
variable {κ : Type}

/-- the heap edge into slot `c` holds: `¬ lt a[c] a[parent c]` (vacuous for the root / out of range) -/
def edgeOk (lt : κ → κ → Bool) (a : Array (Elem κ)) (c : Nat) : Bool :=
  if h : 0 < c ∧ c < a.size then !(lt a[c].key (a[(c - 1) / 2]'(by omega)).key) else true

/-- the Bool audit: all heap edges hold -/
def heapOrdered (lt : κ → κ → Bool) (a : Array (Elem κ)) : Bool :=
  (List.range a.size).all (edgeOk lt a)

/-- slots whose edge to the parent is violated (for diagnostics) -/
def badEdges (lt : κ → κ → Bool) (a : Array (Elem κ)) : List Nat :=
  (List.range a.size).filter (fun c => !(edgeOk lt a c))

/-- `Element::position` of the element in slot `i` is `i` (positions indexed by handle) -/
def posConsistent (a : Array (Elem κ)) (pos : Array Nat) : Bool :=
  (List.range a.size).all (fun i =>
    if h : i < a.size then decide (a[i].h < pos.size) && (pos.getD a[i].h 0 == i) else true)

/-- the top is a minimum of the current contents -/
def topIsMin (lt : κ → κ → Bool) (a : Array (Elem κ)) : Bool :=
  if h : 0 < a.size then a.toList.all (fun e => !(lt e.key a[0].key)) else true

/-- pop until empty, recording each top -/
def popAll (lt : κ → κ → Bool) (a : Array (Elem κ)) : List (Elem κ) := drain lt a.size a

/-- no adjacent inversion -/
def sortedB (lt : κ → κ → Bool) : List (Elem κ) → Bool
  | [] => true
  | [_] => true
  | x :: y :: rest => !(lt y.key x.key) && sortedB lt (y :: rest)

/-- in-place key change through the handle *without* `update(handle)` (what a negligent user does) -/
def Heap.poke (s : Heap κ) (h : Nat) (k : κ) : Heap κ := { s with arr := pokeAll s.arr [(h, k)] }

/-- `update(handle)` alone: re-sift the element where it stands (`percolateUp; percolateDown`) -/
def Heap.update (lt : κ → κ → Bool) (s : Heap κ) (h : Nat) : Heap κ :=
  match findIdx s.arr h with
  | some p => { s with arr := siftDown lt (siftUp lt s.arr p) p }
  | none => s

/-- key abstraction: replace every key by its image under `f` (the harness sends ranks: `f` = rank of the key in the
order induced by the heap's comparator) -/
def mapKey {κ' : Type} (f : κ → κ') (a : Array (Elem κ)) : Array (Elem κ') := a.map (fun e => ⟨e.h, f e.key⟩)

end OmplModel.Heap
