import OmplModel.Model.Constrained
/-
Model of `AtlasChart`'s polytope bookkeeping, *as coded* (src/ompl/base/spaces/constraint/src/AtlasChart.cpp):

  * `Halfspace::Halfspace(owner, neighbor)`, `setU`, `contains`, `distanceToPoint`, `checkNear`,
    `expandToInclude`
  * `AtlasChart::inPolytope`, `borderCheck`, `addBoundary`, `generateHalfspace`
  * the pure selection logic of `AtlasStateSpace::owningChart` and of `AtlasChart::owningNeighbor`

Core Lean only.  The number type is abstract (`ChartArith α`: the `Arith` record plus `sqrt`, unary minus
and the four literals the code uses), and so is the vector type of chart coordinates (`VecOps α V`:
`dot` and scalar multiplication — Eigen's `v.dot(u)`, `u.squaredNorm() = u.dot(u)`, `c * u`).  The
driver instantiates `α := Float`, `V := Array Float` with Eigen's reduction order for `dot`; the proofs
instantiate `α :=` a linearly ordered field, `V := Fin k → α`.
The projection maps stay oracles: wherever the code calls `psiInverse` / `psi` the model takes the
result as an argument (`w`, `v'`).  `toPolygon`, `circleIntersect`, `intersect`, `estimateIsFrontier`
(visualisation / statistics) are not modelled.
-/
namespace OmplModel.Constrained

structure ChartArith (α : Type) extends Arith α where
  sqrt : α → α
  neg : α → α
  /-- `1.05` -/
  c105 : α
  /-- `0.5` -/
  half : α
  /-- `1.0 / 20` -/
  twentieth : α
  /-- `2` -/
  two : α

structure VecOps (α V : Type) where
  dot : V → V → α
  smul : α → V → V

/-- `AtlasChart::Halfspace`.  `owner` is the owning chart, `compl` the index (in the atlas' table of
halfspaces) of the complementary halfspace set by `setComplement`. -/
structure Halfspace (α V : Type) where
  owner : Nat
  u : V
  usq : α
  rhs : α
  compl : Nat

variable {α V : Type}

/-- `setU(u)`: `u_ = u; usqnorm_ = u_.squaredNorm(); rhs_ = usqnorm_ / 2;` -/
def Halfspace.setU (A : ChartArith α) (Vo : VecOps α V) (h : Halfspace α V) (u : V) : Halfspace α V :=
  { h with u := u, usq := Vo.dot u u, rhs := A.div (Vo.dot u u) A.two }

/-- `Halfspace(owner, neighbor)`: `w = owner->psiInverse(neighbor->getOrigin())` (oracle input);
`setU(1.05 * w)`. -/
def Halfspace.create (A : ChartArith α) (Vo : VecOps α V) (owner : Nat) (w : V) (compl : Nat) : Halfspace α V :=
  Halfspace.setU A Vo ⟨owner, w, A.zero, A.zero, compl⟩ (Vo.smul A.c105 w)

/-- `contains(v)`: `v.dot(u_) <= rhs_` -/
def Halfspace.contains (A : ChartArith α) (Vo : VecOps α V) (h : Halfspace α V) (v : V) : Bool :=
  A.le (Vo.dot v h.u) h.rhs

/-- `distanceToPoint(v)`: `(0.5 - v.dot(u_)) / usqnorm_` — as coded (the comment in the source says
"a scalar factor of u_", which would be `0.5 - v.dot(u_) / usqnorm_`). -/
def Halfspace.distanceToPoint (A : ChartArith α) (Vo : VecOps α V) (h : Halfspace α V) (v : V) : α :=
  A.div (A.sub A.half (Vo.dot v h.u)) h.usq

/-- the test of `checkNear(v)`: `distanceToPoint(v) < 1.0 / 20` -/
def Halfspace.near (A : ChartArith α) (Vo : VecOps α V) (h : Halfspace α V) (v : V) : Bool :=
  A.lt (h.distanceToPoint A Vo v) A.twentieth

/-- `expandToInclude(x)` with `v' = owner_->psiInverse(x)` as oracle input:
`t = -distanceToPoint(v'); if (t > 0) setU((1 + 2 * t) * u_);` -/
def Halfspace.expandToInclude (A : ChartArith α) (Vo : VecOps α V) (h : Halfspace α V) (v' : V) : Halfspace α V :=
  if A.lt A.zero (A.neg (h.distanceToPoint A Vo v')) then
    h.setU A Vo (Vo.smul (A.add A.one (A.mul A.two (A.neg (h.distanceToPoint A Vo v')))) h.u)
  else h

/-- the halfspace with the *intended* distance `0.5 - v.dot(u_) / usqnorm_` (not the code) -/
def Halfspace.expandToIncludeIntended (A : ChartArith α) (Vo : VecOps α V) (h : Halfspace α V) (v' : V) :
    Halfspace α V :=
  if A.lt A.zero (A.neg (A.sub A.half (A.div (Vo.dot v' h.u) h.usq))) then
    h.setU A Vo (Vo.smul (A.add A.one (A.mul A.two (A.neg (A.sub A.half (A.div (Vo.dot v' h.u) h.usq))))) h.u)
  else h

/-- `for (Halfspace *h : polytope_) if (!h->contains(u)) return false; return true;` -/
def allContain (A : ChartArith α) (Vo : VecOps α V) : List (Halfspace α V) → V → Bool
  | [], _ => true
  | h :: hs, u => if h.contains A Vo u = false then false else allContain A Vo hs u

/-- `AtlasChart::inPolytope(u)` (no ignored halfspaces): `if (u.norm() > radius_) return false;` then
every halfspace must contain `u`. -/
def inPolytopeL (A : ChartArith α) (Vo : VecOps α V) (radius : α) (hs : List (Halfspace α V)) (u : V) : Bool :=
  if A.lt radius (A.sqrt (Vo.dot u u)) then false else allContain A Vo hs u

/-! ### `AtlasChart::psi` — tolerance and iteration limit are read at **call time**

```
const double tolerance = constraint_->getTolerance();  const double squaredTolerance = tolerance * tolerance;
out = x0 = phi(u);  b = [ f(out) ; 0 ];
while ((norm = b.squaredNorm()) > squaredTolerance && iter++ < constraint_->getMaxIterations())
{ jacobian; out -= A.partialPivLu().solve(b); b = [ f(out) ; bigPhi^T (out - x0) ]; }
return norm < squaredTolerance;
```
The chart stores neither number: `tolSq` and `maxIter` are *arguments of the call* (what the shared
`Constraint` object says at that moment), not fields of the chart.  `getMaxIterations()` is re-read in
every round of the loop; the model takes one value per call (the harness never changes it inside a
call).  The stacked residual `b`, the Newton/LU step and `phi` are oracles; `Resid.nsq b` is
`b.squaredNorm()` and `headNsq b` the squared norm of its constraint part `f(out)`. -/

structure PsiOracle (σ S U B : Type) where
  /-- `phi(u)` -/
  phi : σ → U → S × σ
  /-- the stacked vector `b` for the current iterate (constraint part and tangential part) -/
  resid : σ → S → B × σ
  /-- Jacobian + `partialPivLu().solve(b)` + subtraction -/
  step : σ → S → B → S × σ

/-- the `while` loop of `psi`; the first argument is `maxIterations − iter`, read for *this* call -/
def psiLoop {σ S U B D : Type} (A : Arith D) (nsq : B → D) (O : PsiOracle σ S U B) (tolSq : D) :
    Nat → σ → S → B → Bool × S × σ
  | 0, s, x, b => (A.lt (nsq b) tolSq, x, s)
  | k + 1, s, x, b =>
    if A.lt tolSq (nsq b) then
      psiLoop A nsq O tolSq k (O.resid (O.step s x b).2 (O.step s x b).1).2 (O.step s x b).1
        (O.resid (O.step s x b).2 (O.step s x b).1).1
    else (A.lt (nsq b) tolSq, x, s)

/-- `AtlasChart::psi(u, out)` with the tolerance (squared) and iteration limit in force at the call -/
def psiChart {σ S U B D : Type} (A : Arith D) (nsq : B → D) (O : PsiOracle σ S U B) (tolSq : D) (maxIter : Nat)
    (s : σ) (u : U) : Bool × S × σ :=
  psiLoop A nsq O tolSq maxIter (O.resid (O.phi s u).2 (O.phi s u).1).2 (O.phi s u).1
    (O.resid (O.phi s u).2 (O.phi s u).1).1

/-- a chart that *caches* the parameters at construction (the seeded change C16-s4; not the code):
whatever is passed at call time is ignored -/
def psiChartCached {σ S U B D : Type} (A : Arith D) (nsq : B → D) (O : PsiOracle σ S U B)
    (cachedTolSq : D) (cachedMaxIter : Nat) (_tolSq : D) (_maxIter : Nat) (s : σ) (u : U) : Bool × S × σ :=
  psiChart A nsq O cachedTolSq cachedMaxIter s u

/-! ### the atlas' table of charts and halfspaces -/

structure ChartM (α : Type) where
  id : Nat
  radius : α
  /-- `polytope_`: indices into the table of halfspaces, in `addBoundary` order -/
  polytope : List Nat

structure AtlasM (α V : Type) where
  charts : List (ChartM α) := []
  hs : Array (Halfspace α V) := #[]

def AtlasM.chart? (M : AtlasM α V) (c : Nat) : Option (ChartM α) := M.charts.find? (·.id == c)

/-- the halfspaces of chart `c`, in order (`none`: unknown chart or dangling index) -/
def AtlasM.polytope? (M : AtlasM α V) (c : Nat) : Option (List (Halfspace α V)) :=
  (M.chart? c).bind (fun ch => ch.polytope.mapM (fun i => M.hs[i]?))

def AtlasM.newChart (M : AtlasM α V) (c : Nat) (radius : α) : AtlasM α V :=
  { M with charts := M.charts ++ [⟨c, radius, []⟩] }

/-- `addBoundary(h)`: `polytope_.push_back(h)` -/
def AtlasM.addBoundary (M : AtlasM α V) (c : Nat) (i : Nat) : AtlasM α V :=
  { M with charts := M.charts.map (fun ch => if ch.id == c then { ch with polytope := ch.polytope ++ [i] } else ch) }

/-- `AtlasChart::generateHalfspace(c1, c2)`: `l1 = new Halfspace(c1, c2); l2 = new Halfspace(c2, c1);
l1->setComplement(l2); l2->setComplement(l1); c1->addBoundary(l1); c2->addBoundary(l2);`
`w12 = c1->psiInverse(c2->getOrigin())`, `w21 = c2->psiInverse(c1->getOrigin())` are oracle inputs. -/
def AtlasM.generateHalfspace (A : ChartArith α) (Vo : VecOps α V) (M : AtlasM α V) (c1 c2 : Nat) (w12 w21 : V) :
    AtlasM α V :=
  let i1 := M.hs.size
  let i2 := M.hs.size + 1
  let M' : AtlasM α V :=
    { M with hs := (M.hs.push (Halfspace.create A Vo c1 w12 i2)).push (Halfspace.create A Vo c2 w21 i1) }
  (M'.addBoundary c1 i1).addBoundary c2 i2

/-- `AtlasChart::inPolytope(u)` on the table -/
def AtlasM.inPolytope (A : ChartArith α) (Vo : VecOps α V) (M : AtlasM α V) (c : Nat) (u : V) : Option Bool :=
  match M.chart? c, M.polytope? c with
  | some ch, some hs => some (inPolytopeL A Vo ch.radius hs u)
  | _, _ => none

/-- `AtlasChart::borderCheck(v)`: `for (Halfspace *h : polytope_) h->checkNear(v);` with
`checkNear`: `if (distanceToPoint(v) < 1.0/20) { owner_->psi(v, x); complement_->expandToInclude(x); }`.
`vps` are the oracle answers `complement_->owner_->psiInverse(psi(v))`, one per halfspace. -/
def borderLoop (A : ChartArith α) (Vo : VecOps α V) (v : V) :
    Array (Halfspace α V) → List Nat → List V → Array (Halfspace α V)
  | hs, i :: is, v' :: vs =>
    match hs[i]? with
    | none => borderLoop A Vo v hs is vs
    | some h =>
      if h.near A Vo v then
        match hs[h.compl]? with
        | some c => borderLoop A Vo v (hs.setIfInBounds h.compl (c.expandToInclude A Vo v')) is vs
        | none => borderLoop A Vo v hs is vs
      else borderLoop A Vo v hs is vs
  | hs, _, _ => hs

def AtlasM.borderCheck (A : ChartArith α) (Vo : VecOps α V) (M : AtlasM α V) (c : Nat) (v : V) (vps : List V) :
    AtlasM α V :=
  match M.chart? c with
  | some ch => { M with hs := borderLoop A Vo v M.hs ch.polytope vps }
  | none => M

/-! ### which chart owns a point -/

/-- the loop of `AtlasStateSpace::owningChart` over the charts returned by `chartNN_.nearestR`, in
that order; each candidate comes with `owner->inPolytope(u_t)` and `far = distance(state, phi(u_t))`
(oracle inputs): `if (inPolytope && far < epsilon_ && far < best) { best = far; chart = owner; }`,
`best` starting at `epsilon_`.  Ties keep the earlier chart. -/
def owningLoop (A : Arith α) (epsilon : α) : List (Nat × Bool × α) → α → Option Nat → Option Nat
  | [], _, c => c
  | (id, inP, far) :: rest, best, c =>
    if inP && A.lt far epsilon && A.lt far best then owningLoop A epsilon rest far (some id)
    else owningLoop A epsilon rest best c

def owningChartSelect (A : Arith α) (epsilon : α) (cands : List (Nat × Bool × α)) : Option Nat :=
  owningLoop A epsilon cands epsilon none

/-- `AtlasStateSpace::getChart(state, force, &created)`: the chart cached in the state unless it is null or `force`; then
`owningChart(state)`; if that finds none, `newChart(state)` (which may return null at a singularity) and `*created = true`
— also when `newChart` failed; `created` is never reset.  Returns the chart and whether `*created` was written. -/
def getChartSelect (cached : Option Nat) (force : Bool) (own fresh : Option Nat) : Option Nat × Bool :=
  if cached.isNone || force then
    match own with
    | some c => (some c, false)
    | none => (fresh, true)
  else (cached, false)

/-- `AtlasChart::owningNeighbor(x)` (not called anywhere in the library): the first neighbour `c`, in
polytope order, with `withinTolerance && c->inPolytope(proju)` — where, as coded,
`const bool withinTolerance = (projx - x).norm();` is the *conversion of the norm to bool*, i.e.
"the projection error is non-zero", not a comparison with a tolerance.  Each candidate comes with
that Boolean and the `inPolytope` answer. -/
def owningNeighborSelect : List (Nat × Bool × Bool) → Option Nat
  | [] => none
  | (id, normNonZero, inP) :: rest => if normNonZero && inP then some id else owningNeighborSelect rest

end OmplModel.Constrained
