/-
Model of the path post-processing routines of
  src/ompl/geometric/src/PathSimplifier.cpp   (reduceVertices, collapseCloseVertices, ropeShortcutPath,
                                               the splice of partialShortcutPath)
  src/ompl/geometric/src/PathGeometric.cpp    (subdivide, interpolate(), interpolate(count))
  src/ompl/base/src/SpaceInformation.cpp      (getMotionStates(.., endpoints = false, alloc = true))

Core Lean only (no Mathlib): linked into the native driver `drv_pathops`.

Conventions
* a path is a `List σ` over an abstract state type `σ`; `checkMotion` (`cm`), `distance`, `interpolate`,
  the optimisation objective and every floating-point rounding step (`floor(0.5 + count*rangeRatio)`,
  `floor(dist/delta)`, `floor(0.5 + count*seg/remaining)`, `validSegmentCount`) are PARAMETERS;
* random choices are INPUTS: `draw : Nat → Nat` is the stream of raw draws, `pick lo hi raw` is
  `rng_.uniformInt(lo, hi)` (the harness substitutes exactly this for the simplifier's private `rng_`);
* indexing is CHECKED: a routine returns `none` as soon as the C++ code would index a vector outside
  `[0, size)` or call `erase(first, last)` with `first > last` or `last > size` (undefined behaviour).
  The model follows the tree AFTER the fixes 695c3e72c (F9), f9a435dd6 (F55), 3ab8608d2 (F56).  The
  code before them is kept as the `…Old` definitions (`fixed = false` of the `…G` functions): for F9
  (`ropeShortcutPath` read `states[j]` after `states.erase(i+1 .. j)`) the out-of-range read is an
  explicit flag `oob` plus the value the real `std::vector<State*>` yields there (the slot beyond
  `end()` still holds the old `states[j]`), so that the old model, too, runs in lock-step with old code.
* `for (i = 0; i < maxSteps && nochange < maxEmptySteps; ++i, ++nochange)`: the body's `nochange = 0`
  is followed by the loop's `++nochange`, so a successful step continues with `nochange = 1`.
-/
namespace OmplModel.PathOps

variable {σ : Type}

/-! ## vector primitives -/

/-- `v.erase(v.begin() + a, v.begin() + b)` -/
def eraseRange (l : List σ) (a b : Nat) : List σ := l.take a ++ l.drop b

/-- checked `erase`: the iterator range must satisfy `a ≤ b ≤ size` -/
def eraseChk (l : List σ) (a b : Nat) : Option (List σ) :=
  if a ≤ b ∧ b ≤ l.length then some (eraseRange l a b) else none

/-- `v.insert(v.begin() + k, x)` (requires `k ≤ size`) -/
def insertAt (l : List σ) (k : Nat) (x : σ) : List σ := l.take k ++ x :: l.drop k

def insertChk (l : List σ) (k : Nat) (x : σ) : Option (List σ) :=
  if k ≤ l.length then some (insertAt l k x) else none

/-- `copyState(v[k], x)` (requires `k < size`) -/
def setChk (l : List σ) (k : Nat) (x : σ) : Option (List σ) :=
  if k < l.length then some (l.set k x) else none

/-- adjacent pairs (the motions) of a path -/
def adj : List σ → List (σ × σ)
  | a :: b :: r => (a, b) :: adj (b :: r)
  | _ => []

/-! ## reduceVertices -/

/-- `rng_.uniformInt(lo, hi)` on the raw draw `raw` (for `lo ≤ hi`) -/
def pick (lo hi raw : Nat) : Nat := lo + raw % (hi - lo + 1)

/-- the `abs(p1 - p2) < 2` handling followed by `if (p1 > p2) swap`.  `none` = `continue`. -/
def rvRepair (maxN p1 p2 : Nat) : Option (Nat × Nat) :=
  if p1 + 2 ≤ p2 then some (p1, p2)
  else if p2 + 2 ≤ p1 then some (p2, p1)
  else if p1 + 1 < maxN then some (p1, p1 + 2)
  else if 1 < p1 then some (p1 - 2, p1)
  else none

/-- the `for` loop of `reduceVertices`; `fuel = maxSteps - i`. `rangeOf count` is
`1 + (int)floor(0.5 + count * rangeRatio)`; iteration `i` consumes draws `2i` and `2i+1`. -/
def rvLoop (cm : σ → σ → Bool) (rangeOf : Nat → Nat) (draw : Nat → Nat) (maxEmpty : Nat) :
    (fuel i nochange : Nat) → List σ → Bool → Option (List σ × Bool)
  | 0, _, _, st, res => some (st, res)
  | fuel + 1, i, nochange, st, res =>
    if nochange < maxEmpty then
      let maxN := st.length - 1
      let range := rangeOf st.length
      let p1 := pick 0 maxN (draw (2 * i))
      let p2 := pick (p1 - range) (min maxN (p1 + range)) (draw (2 * i + 1))
      match rvRepair maxN p1 p2 with
      | none => rvLoop cm rangeOf draw maxEmpty fuel (i + 1) (nochange + 1) st res
      | some (a, b) =>
        match st[a]?, st[b]? with
        | some sa, some sb =>
          if cm sa sb then
            match eraseChk st (a + 1) b with
            | some st' => rvLoop cm rangeOf draw maxEmpty fuel (i + 1) 1 st' true
            | none => none
          else rvLoop cm rangeOf draw maxEmpty fuel (i + 1) (nochange + 1) st res
        | _, _ => none
    else some (st, res)

/-- `PathSimplifier::reduceVertices(path, maxSteps, maxEmptySteps, rangeRatio)`; result = (path, return value) -/
def reduceVertices (cm : σ → σ → Bool) (rangeOf : Nat → Nat) (draw : Nat → Nat)
    (maxSteps maxEmpty : Nat) (path : List σ) : Option (List σ × Bool) :=
  if path.length < 3 then some (path, false)
  else
    let maxSteps := if maxSteps = 0 then path.length else maxSteps
    let maxEmpty := if maxEmpty = 0 then path.length else maxEmpty
    match path.head?, path.getLast? with
    | some f, some l =>
      if cm f l then some ([f, l], true)
      else rvLoop cm rangeOf draw maxEmpty maxSteps 0 0 path false
    | _, _ => none

/-! ## collapseCloseVertices -/

/-- the index pairs of `for i < n; for j = i + 2; j < n`, in loop order -/
def farPairs (n : Nat) : List (Nat × Nat) :=
  (List.range n).flatMap fun i => (List.range' (i + 2) (n - (i + 2))).map fun j => (i, j)

/-- `minDist = inf; if (d < minDist) { minDist = d; p1 = i; p2 = j; }` over the pairs in order -/
def closest {α : Type} (lt : α → α → Bool) (inf : α) (d : Nat × Nat → α) (ps : List (Nat × Nat)) :
    Option (Nat × Nat) × α :=
  ps.foldl (fun acc p => if lt (d p) acc.2 then (some p, d p) else acc) (none, inf)

/-- the `for` loop of `collapseCloseVertices`; `blocked` are the pairs whose stored distance was set
to infinity after a failed `checkMotion` (the C++ map is keyed by state pointers: `σ` carries the
identity, see the driver). -/
def ccLoop {α : Type} [BEq σ] (cm : σ → σ → Bool) (dist : σ → σ → α) (lt : α → α → Bool) (inf : α)
    (maxEmpty : Nat) : (fuel nochange : Nat) → List σ → List (σ × σ) → Bool → Option (List σ × Bool)
  | 0, _, st, _, res => some (st, res)
  | fuel + 1, nochange, st, blocked, res =>
    if nochange < maxEmpty then
      let d : Nat × Nat → α := fun p =>
        match st[p.1]?, st[p.2]? with
        | some a, some b => if blocked.contains (a, b) then inf else dist a b
        | _, _ => inf
      match (closest lt inf d (farPairs st.length)).1 with
      | none => some (st, res)
      | some (p1, p2) =>
        match st[p1]?, st[p2]? with
        | some a, some b =>
          if cm a b then
            match eraseChk st (p1 + 1) p2 with
            | some st' => ccLoop cm dist lt inf maxEmpty fuel 1 st' blocked true
            | none => none
          else ccLoop cm dist lt inf maxEmpty fuel (nochange + 1) st ((a, b) :: blocked) res
        | _, _ => none
    else some (st, res)

/-- `PathSimplifier::collapseCloseVertices(path, maxSteps, maxEmptySteps)` -/
def collapseCloseVertices {α : Type} [BEq σ] (cm : σ → σ → Bool) (dist : σ → σ → α) (lt : α → α → Bool)
    (inf : α) (maxSteps maxEmpty : Nat) (path : List σ) : Option (List σ × Bool) :=
  if path.length < 3 then some (path, false)
  else
    let maxSteps := if maxSteps = 0 then path.length else maxSteps
    let maxEmpty := if maxEmpty = 0 then path.length else maxEmpty
    ccLoop cm dist lt inf maxEmpty maxSteps 0 path [] false

/-! ## ropeShortcutPath -/

/-- what `ropeShortcutPath` needs from the space, the objective and `double` arithmetic -/
structure RopeEnv (σ γ : Type) where
  cm : σ → σ → Bool
  /-- `dist > delta ? floor(dist / delta) : 0` for `dist = distance(a, b)` -/
  nInter : σ → σ → Nat
  /-- `interpolate(a, b, t * (k + 1))` with `t = 1.0 / (n + 1)` -/
  interpK : σ → σ → (n k : Nat) → σ
  identity : γ
  combine : γ → γ → γ
  motion : σ → σ → γ
  subtract : γ → γ → γ
  better : γ → γ → Bool
  /-- `Cost(equivalenceTolerance * delta)` -/
  eqCost : γ
  /-- how the shortcut `i → j` is priced for the acceptance test: `motionCost(states[i], states[j])` in the tree; the
  repair proposed for F173 (notes/C17-fix-F173.diff) prices it by the pieces it will be densified into -/
  chord : σ → σ → γ := motion

/-- the `n` states inserted between `a` and `b` -/
def inters {γ : Type} (E : RopeEnv σ γ) (a b : σ) (n : Nat) : List σ :=
  (List.range n).map (E.interpK a b n)

/-- first loop: every segment longer than `delta` gets `floor(dist/delta)` intermediate states.
(The C++ loop inserts in place and skips over what it inserted; segment by segment this is the
same list.) -/
def ropeDensify {γ : Type} (E : RopeEnv σ γ) : List σ → List σ
  | a :: b :: r => a :: (inters E a b (E.nInter a b) ++ ropeDensify E (b :: r))
  | l => l

/-- `costs[i]`: cumulative cost up to and including state `i`, `costs[0] = identity`.  (The C++
code keeps `costs[0..i]` after a shortcut and recomputes the rest with the same formula.) -/
def cumCostsFrom {γ : Type} (E : RopeEnv σ γ) (acc : γ) : List σ → List γ
  | a :: b :: r => acc :: cumCostsFrom E (E.combine acc (E.motion a b)) (b :: r)
  | [_] => [acc]
  | [] => []

def cumCosts {γ : Type} (E : RopeEnv σ γ) (l : List σ) : List γ := cumCostsFrom E E.identity l

inductive JRes (σ : Type) where
  /-- `return result` (with the possibly changed path) -/
  | ret (st : List σ) (changed oob : Bool)
  /-- `break` without change, or the `j` loop ran out: go on with `i + 1` -/
  | next
  /-- shortcut made, `i = -1; break` -/
  | restart (st : List σ) (oob : Bool)
  /-- checked indexing failed (never on any input, see `rope_indices_partial`) -/
  | err

/-- the `for (j = size - 1; j > i + 1; --j)` loop for a fixed `i`; called with `j = size - 1`,
recursion on `j`.  `fixed = true` is the code in the tree (fix 695c3e72c: remember `j == size - 1` before the erase, read
`states[i + 1]`); `fixed = false` is the code before that fix (F9), see `ropeShortcutPathOld`. -/
def ropeInnerG {γ : Type} (E : RopeEnv σ γ) (fixed : Bool) (st : List σ) (i : Nat) : Nat → JRes σ
  | 0 => .next
  | j + 1 =>
    if j + 1 ≤ i + 1 then .next
    else
      match st[i]?, st[j + 1]? with
      | some si, some sj =>
        if E.cm si sj then
          let costs := cumCosts E st
          match costs[j + 1]?, costs[i]? with
          | some cj, some ci =>
            let shortcut := E.chord si sj
            let along := E.subtract cj ci
            if E.better (E.subtract along shortcut) E.eqCost then
              if j + 1 = st.length - 1 then .ret st false false else .next
            else if E.better shortcut along then
              match eraseChk st (i + 1) (j + 1) with
              | none => .err
              | some st1 =>
                -- `si->distance(states[i], states[j])` with the STALE `j` (F9): out of range when
                -- `j ≥ size`, where the slot past `end()` still holds the pointer that was at `j`
                let stale := if fixed then (sj, false) else
                  match st1[j + 1]? with
                  | some x => (x, false)
                  | none => (sj, true)
                match st1[i]?, st1[i + 1]? with
                | some a, some b =>
                  let n := E.nInter a stale.1
                  -- `interpolate(states[i], states[i+1+k], t*(k+1))` inserted at `i+1+k`: after `k`
                  -- insertions `states[i+1+k]` is the old `states[i+1]`
                  let st2 := st1.take (i + 1) ++ inters E a b n ++ st1.drop (i + 1)
                  -- `if (j == states.size() - 1) return` with the stale `j` and the new size
                  let last := if fixed then j + 1 = st.length - 1 else j + 1 = st2.length - 1
                  if last then .ret st2 true stale.2 else .restart st2 stale.2
                | _, _ => .err
            else ropeInnerG E fixed st i j
          | _, _ => .err
        else ropeInnerG E fixed st i j
      | _, _ => .err

/-- the outer `for (i = 0; i < size - 2; ++i)` loop; `fuel` bounds the number of `i` iterations
(the C++ loop restarts at `i = 0` after every shortcut).  Result: path, return value, whether the
stale read went past `end()`, whether `fuel` ran out. -/
def ropeOuterG {γ : Type} (E : RopeEnv σ γ) (fixed : Bool) : (fuel : Nat) → List σ → (i : Nat) → (res oob : Bool) →
    Option (List σ × Bool × Bool × Bool)
  | 0, st, _, res, oob => some (st, res, oob, true)
  | fuel + 1, st, i, res, oob =>
    if i + 2 < st.length then
      match ropeInnerG E fixed st i (st.length - 1) with
      | .ret st' changed o => some (st', res || changed, oob || o, false)
      | .next => ropeOuterG E fixed fuel st (i + 1) res oob
      | .restart st' o => ropeOuterG E fixed fuel st' 0 true (oob || o)
      | .err => none
    else some (st, res, oob, false)

/-- `PathSimplifier::ropeShortcutPath(path, delta, equivalenceTolerance)`, both variants (`fixed`) -/
def ropeShortcutPathG {γ : Type} (E : RopeEnv σ γ) (fixed : Bool) (fuel : Nat) (path : List σ) :
    Option (List σ × Bool × Bool × Bool) :=
  if path.length < 3 then some (path, false, false, false)
  else ropeOuterG E fixed fuel (ropeDensify E path) 0 false false

/-- `PathSimplifier::ropeShortcutPath` as it is in the tree (since fix 695c3e72c): the early-return
test is evaluated before the erase and the distance is read from `states[i + 1]` -/
def ropeShortcutPath {γ : Type} (E : RopeEnv σ γ) (fuel : Nat) (path : List σ) :
    Option (List σ × Bool × Bool × Bool) := ropeShortcutPathG E true fuel path

/-- the routine BEFORE that fix (F9): stale `states[j]` / stale `j == size - 1` after the erase.  Kept
for the witness theorems and for the driver's `old` field (lets the check name a regression). -/
def ropeShortcutPathOld {γ : Type} (E : RopeEnv σ γ) (fuel : Nat) (path : List σ) :
    Option (List σ × Bool × Bool × Bool) := ropeShortcutPathG E false fuel path

/-! ## the splice of partialShortcutPath

After the ordering step (`pos0 < pos1`): `idx = true` means the sampled point was snapped to the
vertex `states[pos]` (`index == pos` in the code), `idx = false` that it is the interpolated state
`s` strictly inside the segment `(pos, pos + 1)`. -/
def psSplice (st : List σ) (pos0 : Nat) (idx0 : Bool) (s0 : σ) (pos1 : Nat) (idx1 : Bool) (s1 : σ) :
    Option (List σ) :=
  match idx0, idx1 with
  | false, false =>
    if pos0 + 1 = pos1 then
      -- copyState(states[pos1], s0); states.insert(begin + pos1 + 1, clone(s1))
      (setChk st pos1 s0).bind fun st => insertChk st (pos1 + 1) s1
    else
      -- copyState(states[pos0+1], s0); copyState(states[pos1], s1); erase(pos0+2 .. pos1)
      (setChk st (pos0 + 1) s0).bind fun st => (setChk st pos1 s1).bind fun st =>
        eraseChk st (pos0 + 2) pos1
  | true, true => eraseChk st (pos0 + 1) pos1
  | false, true => (setChk st (pos0 + 1) s0).bind fun st => eraseChk st (pos0 + 2) pos1
  | true, false => (setChk st pos1 s1).bind fun st => eraseChk st (pos0 + 1) pos1

/-- the `continue` filter in front of the splice (evaluated before the ordering step; it is
symmetric in 0/1): `index = if idx then pos else -1`. -/
def psSkip (pos0 : Nat) (idx0 : Bool) (pos1 : Nat) (idx1 : Bool) : Bool :=
  pos0 == pos1 || (idx0 && pos0 == pos1) || (idx1 && pos1 == pos0) ||
  (idx1 && pos0 + 1 == pos1) || (idx0 && pos1 + 1 == pos0) ||
  (idx0 && idx1 && (pos0 + 1 == pos1 || pos1 + 1 == pos0 || pos0 == pos1))

/-! ### partialShortcutPath at `double` (selection logic + the splice), path-length objective

Executed by the driver in lock-step with the real routine under scripted `uniformReal` draws
(`u k` is the k-th draw in [0,1); `uniformReal(lo, hi) = (hi - lo) * u + lo`).  `dists`/`costs`
are recomputed from scratch after a splice (the C++ code keeps the unchanged prefix and recomputes
the rest with the same left-to-right sums, which gives the same doubles). -/

structure PsEnv (σ : Type) where
  cm : σ → σ → Bool
  dist : σ → σ → Float
  interp : σ → σ → Float → σ

/-- `dists[i]`: cumulative length up to state `i` -/
def cumDistsFrom (dist : σ → σ → Float) (acc : Float) : List σ → List Float
  | a :: b :: r => acc :: cumDistsFrom dist (acc + dist a b) (b :: r)
  | [_] => [acc]
  | [] => []

/-- `std::lower_bound(dists.begin(), dists.end(), x) - dists.begin()` (dists is non-decreasing) -/
def lowerBound (ds : List Float) (x : Float) : Nat :=
  (ds.takeWhile (fun d => d < x)).length

/-- `while (pos > 0 && distTo < dists[pos]) --pos;` -/
def walkDown (ds : Array Float) (distTo : Float) : Nat → Nat
  | 0 => 0
  | pos + 1 => if distTo < ds[pos + 1]! then walkDown ds distTo pos else pos + 1

/-- the snap logic shared by both sampled points: returns `(pos, index ≥ 0)`.  `fixed = true` is the
code in the tree (fix f9a435dd6, F55): the snap-to-next test uses `<=`, so a sample that hits a vertex
exactly (in particular the end of the path) is snapped even with `snapToVertex = 0`; `fixed = false`
is the `<` of the code before. -/
def psSelectG (fixed : Bool) (ds : Array Float) (distTo threshold : Float) : Nat × Bool :=
  let lb := lowerBound ds.toList distTo
  let pos := if lb = ds.size then ds.size - 1 else lb
  if pos = 0 || (if fixed then ds[pos]! - distTo <= threshold else ds[pos]! - distTo < threshold) then (pos, true)
  else
    let pos := walkDown ds distTo pos
    (pos, distTo - ds[pos]! < threshold)

def fmax (a b : Float) : Float := if a < b then b else a   -- std::max(a, b)
def fmin (a b : Float) : Float := if b < a then b else a   -- std::min(a, b)

/-- `alongPath` accumulation: `while (posTemp < pos1) alongPath += motionCost(states[posTemp], states[posTemp+1])` -/
def psAlong (dist : σ → σ → Float) (st : Array σ) (acc : Float) (posTemp : Nat) : Nat → Option Float
  | 0 => some acc
  | k + 1 =>
    match st[posTemp]?, st[posTemp + 1]? with
    | some a, some b => psAlong dist st (acc + dist a b) (posTemp + 1) k
    | _, _ => none

def psLoopG (E : PsEnv σ) (fixed : Bool) (u : Nat → Float) (rangeRatio snap : Float) (maxEmpty : Nat) :
    (fuel i nochange : Nat) → List σ → Bool → Option (List σ × Bool)
  | 0, _, _, st, res => some (st, res)
  | fuel + 1, i, nochange, st, res =>
    if nochange < maxEmpty then
      let ds := (cumDistsFrom E.dist 0.0 st).toArray
      let back := ds[ds.size - 1]!
      let threshold := back * snap
      let rd := rangeRatio * back
      let distTo0 := (back - 0.0) * u (2 * i) + 0.0
      let (pos0, idx0) := psSelectG fixed ds distTo0 threshold
      let lo1 := fmax 0.0 (distTo0 - rd)
      let hi1 := fmin (distTo0 + rd) back
      let distTo1 := (hi1 - lo1) * u (2 * i + 1) + lo1
      let (pos1, idx1) := psSelectG fixed ds distTo1 threshold
      if psSkip pos0 idx0 pos1 idx1 then psLoopG E fixed u rangeRatio snap maxEmpty fuel (i + 1) (nochange + 1) st res
      else
        let pt (pos : Nat) (idx : Bool) (distTo : Float) : Option σ :=
          if idx then st[pos]? else
            match st[pos]?, st[pos + 1]?, ds[pos]?, ds[pos + 1]? with
            | some a, some b, some da, some db => some (E.interp a b ((distTo - da) / (db - da)))
            | _, _, _, _ => none
        match pt pos0 idx0 distTo0, pt pos1 idx1 distTo1 with
        | some s0, some s1 =>
          if E.cm s0 s1 then
            -- ordering step
            let (pos0, idx0, s0, pos1, idx1, s1) :=
              if pos0 > pos1 then (pos1, idx1, s1, pos0, idx0, s0) else (pos0, idx0, s0, pos1, idx1, s1)
            let sta := st.toArray
            let p0 : Option Float := if idx0 then some 0.0 else (st[pos0 + 1]?).map fun x => E.dist s0 x
            let p1 : Option Float := if idx1 then some 0.0 else (st[pos1]?).map fun x => E.dist x s1
            match p0, p1 with
            | some c0, some c1 =>
              match psAlong E.dist sta c0 (pos0 + 1) (pos1 - (pos0 + 1)) with
              | some along =>
                let along := along + c1
                if along < E.dist s0 s1 then
                  psLoopG E fixed u rangeRatio snap maxEmpty fuel (i + 1) (nochange + 1) st res
                else
                  match psSplice st pos0 idx0 s0 pos1 idx1 s1 with
                  | some st' => psLoopG E fixed u rangeRatio snap maxEmpty fuel (i + 1) 1 st' true
                  | none => none
              | none => none
            | _, _ => none
          else psLoopG E fixed u rangeRatio snap maxEmpty fuel (i + 1) (nochange + 1) st res
        | _, _ => none
    else some (st, res)

/-- `PathSimplifier::partialShortcutPath(path, maxSteps, maxEmptySteps, rangeRatio, snapToVertex)`
with the default (path length) objective -/
def partialShortcutPathG (E : PsEnv σ) (fixed : Bool) (u : Nat → Float) (maxSteps maxEmpty : Nat) (rangeRatio snap : Float)
    (path : List σ) : Option (List σ × Bool) :=
  if path.length < 3 then some (path, false)
  else
    let maxSteps := if maxSteps = 0 then path.length else maxSteps
    let maxEmpty := if maxEmpty = 0 then path.length else maxEmpty
    psLoopG E fixed u rangeRatio snap maxEmpty maxSteps 0 0 path false

/-- the loop AS IT IS IN THE TREE (since fix 7afd3abe1, F170): the two sampled points are put in path order BEFORE
`checkMotion` is called, so the motion that is validated is the motion that is spliced in.  (`psLoopG` is the code
before that fix: it validated `(s0, s1)` in SAMPLING order and spliced `(earlier, later)`, so for a
direction-sensitive validator the spliced motion could be the reverse of the validated one.) -/
def psLoopOrd (E : PsEnv σ) (u : Nat → Float) (rangeRatio snap : Float) (maxEmpty : Nat) :
    (fuel i nochange : Nat) → List σ → Bool → Option (List σ × Bool)
  | 0, _, _, st, res => some (st, res)
  | fuel + 1, i, nochange, st, res =>
    if nochange < maxEmpty then
      let ds := (cumDistsFrom E.dist 0.0 st).toArray
      let back := ds[ds.size - 1]!
      let threshold := back * snap
      let rd := rangeRatio * back
      let distTo0 := (back - 0.0) * u (2 * i) + 0.0
      let (pos0, idx0) := psSelectG true ds distTo0 threshold
      let lo1 := fmax 0.0 (distTo0 - rd)
      let hi1 := fmin (distTo0 + rd) back
      let distTo1 := (hi1 - lo1) * u (2 * i + 1) + lo1
      let (pos1, idx1) := psSelectG true ds distTo1 threshold
      if psSkip pos0 idx0 pos1 idx1 then psLoopOrd E u rangeRatio snap maxEmpty fuel (i + 1) (nochange + 1) st res
      else
        let pt (pos : Nat) (idx : Bool) (distTo : Float) : Option σ :=
          if idx then st[pos]? else
            match st[pos]?, st[pos + 1]?, ds[pos]?, ds[pos + 1]? with
            | some a, some b, some da, some db => some (E.interp a b ((distTo - da) / (db - da)))
            | _, _, _, _ => none
        match pt pos0 idx0 distTo0, pt pos1 idx1 distTo1 with
        | some s0, some s1 =>
          -- ordering step FIRST, then `checkMotion` in path order (proposed fix F170)
          let (pos0, idx0, s0, pos1, idx1, s1) :=
            if pos0 > pos1 then (pos1, idx1, s1, pos0, idx0, s0) else (pos0, idx0, s0, pos1, idx1, s1)
          if E.cm s0 s1 then
            let sta := st.toArray
            let p0 : Option Float := if idx0 then some 0.0 else (st[pos0 + 1]?).map fun x => E.dist s0 x
            let p1 : Option Float := if idx1 then some 0.0 else (st[pos1]?).map fun x => E.dist x s1
            match p0, p1 with
            | some c0, some c1 =>
              match psAlong E.dist sta c0 (pos0 + 1) (pos1 - (pos0 + 1)) with
              | some along =>
                let along := along + c1
                if along < E.dist s0 s1 then
                  psLoopOrd E u rangeRatio snap maxEmpty fuel (i + 1) (nochange + 1) st res
                else
                  match psSplice st pos0 idx0 s0 pos1 idx1 s1 with
                  | some st' => psLoopOrd E u rangeRatio snap maxEmpty fuel (i + 1) 1 st' true
                  | none => none
              | none => none
            | _, _ => none
          else psLoopOrd E u rangeRatio snap maxEmpty fuel (i + 1) (nochange + 1) st res
        | _, _ => none
    else some (st, res)

def partialShortcutPathOrd (E : PsEnv σ) (u : Nat → Float) (maxSteps maxEmpty : Nat) (rangeRatio snap : Float)
    (path : List σ) : Option (List σ × Bool) :=
  if path.length < 3 then some (path, false)
  else
    let maxSteps := if maxSteps = 0 then path.length else maxSteps
    let maxEmpty := if maxEmpty = 0 then path.length else maxEmpty
    psLoopOrd E u rangeRatio snap maxEmpty maxSteps 0 0 path false

/-- `partialShortcutPath` BEFORE fix 7afd3abe1 (F170) and after fix f9a435dd6 (F55): snap tests use `<=`, `checkMotion`
in sampling order.  The tree's code is `partialShortcutPathOrd`. -/
def partialShortcutPath (E : PsEnv σ) (u : Nat → Float) (maxSteps maxEmpty : Nat) (rangeRatio snap : Float)
    (path : List σ) : Option (List σ × Bool) := partialShortcutPathG E true u maxSteps maxEmpty rangeRatio snap path

/-- before that fix (F55): snap tests with `<` -/
def partialShortcutPathOld (E : PsEnv σ) (u : Nat → Float) (maxSteps maxEmpty : Nat) (rangeRatio snap : Float)
    (path : List σ) : Option (List σ × Bool) := partialShortcutPathG E false u maxSteps maxEmpty rangeRatio snap path

/-! ## the return value of simplify

`simplify(path, ptc, atLeastOnce)`: `if (path.getStateCount() < 3) return true;` … the schedule …
`return path.check();` (since fix 3ab8608d2; before: `return valid || path.check();` with `valid`
initialised `true` and cleared only by a failed `checkAndRepair`).  `check` is `PathGeometric::check`,
`inp`/`out` the path before/after the schedule (not modelled). -/
def simplifyReturn (check : List σ → Bool) (inp out : List σ) : Bool :=
  if inp.length < 3 then true else check out

def simplifyReturnOld (valid : Bool) (check : List σ → Bool) (inp out : List σ) : Bool :=
  if inp.length < 3 then true else valid || check out

/-! ## densification (PathGeometric) -/

/-- `PathGeometric::subdivide()`; `mid a b = interpolate(a, b, 0.5)` -/
def subdivideGo (mid : σ → σ → σ) (prev : σ) : List σ → List σ
  | [] => []
  | b :: r => mid prev b :: b :: subdivideGo mid b r

def subdivide (mid : σ → σ → σ) : List σ → List σ
  | [] => []
  | a :: r => a :: subdivideGo mid a r

/-- `SpaceInformation::getMotionStates(s1, s2, block, cnt, false, true)`: `count = cnt + 1` in
`unsigned int`; fewer than two segments → nothing; otherwise the states at `j / count`,
`j = 1 .. count - 1`.  `frac a b j count = interpolate(a, b, (double)j / (double)count)`. -/
def motionStates (frac : σ → σ → Nat → Nat → σ) (a b : σ) (cnt : Nat) : List σ :=
  let count := (cnt + 1) % 4294967296
  if count < 2 then [] else (List.range (count - 1)).map fun j => frac a b (j + 1) count

/-- `PathGeometric::interpolate()`: `n = validSegmentCount(s1, s2)`, then
`getMotionStates(s1, s2, block, n - 1, false, true)` with `n - 1` in `unsigned int` (so `n = 0`,
a zero-length segment, wraps to `UINT_MAX` and then to `count = 0`). -/
def interpolateAll (vsc : σ → σ → Nat) (frac : σ → σ → Nat → Nat → σ) : List σ → List σ
  | a :: b :: r =>
    a :: (motionStates frac a b ((vsc a b + 4294967295) % 4294967296) ++ interpolateAll vsc frac (b :: r))
  | l => l

/-- loop of `PathGeometric::interpolate(unsigned int requestCount)`.  `size = states_.size()`,
`i` the segment index, `count` the remaining number of states, `rem` the remaining length;
`approx count seg rem = (int)floor(0.5 + (double)count * seg / rem)`. -/
def icLoop {α : Type} (segLen : σ → σ → α) (sub : α → α → α) (approx : Int → α → α → Int)
    (frac : σ → σ → Nat → Nat → σ) (size : Nat) : (i : Nat) → (count : Int) → (rem : α) → List σ → List σ
  | i, count, rem, s1 :: s2 :: rest =>
    let maxN : Int := count + i - size
    if maxN > 0 then
      let seg := segLen s1 s2
      let ns0 : Int := if rest.isEmpty then maxN + 2 else approx count seg rem + 1
      let ns : Int := if ns0 > 2 then (if ns0 - 2 > maxN then maxN else ns0 - 2) else 0
      let block := if ns0 > 2 then motionStates frac s1 s2 ns.toNat else []
      s1 :: (block ++ icLoop segLen sub approx frac size (i + 1) (count - (ns + 1)) (sub rem seg) (s2 :: rest))
    else s1 :: icLoop segLen sub approx frac size (i + 1) (count - 1) rem (s2 :: rest)
  | _, _, _, l => l

/-- `PathGeometric::interpolate(requestCount)`; `len = length()` -/
def interpolateCount {α : Type} (segLen : σ → σ → α) (sub : α → α → α) (approx : Int → α → α → Int)
    (frac : σ → σ → Nat → Nat → σ) (len : α) (requestCount : Nat) (path : List σ) : List σ :=
  if requestCount < path.length ∨ path.length < 2 then path
  else icLoop segLen sub approx frac path.length 0 requestCount len path

end OmplModel.PathOps
