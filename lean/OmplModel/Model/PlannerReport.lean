/-
The reporting layer every planner shares (L0 of DESIGN 2.1).  Core Lean only.

* `Status`, `Status.ofFlags`, `Status.toBool`   — base/PlannerStatus.h: the `(hasSolution, isApproximate)`
  constructor used by the planners' epilogues (`return {solved, approximate};`) and `operator bool`.
* `Solution`, `Pdef`, `addSolutionPath`, `hasApproximateSolution`, `getSolutionDifference`,
  `getSolutionCount`                              — base/src/ProblemDefinition.cpp.
* `Pis`, `nextStart`, `nextGoal`                  — `PlannerInputStates` of base/src/Planner.cpp.
* `isSatisfied`                                   — base/goals/src/GoalRegion.cpp.
* `pathCheck`                                     — `PathGeometric::check`, geometric/src/PathGeometric.cpp.

Abstractions: states, paths and distances are type parameters; `satisfiesBounds`, `isValid`,
`checkMotion`, `distanceGoal` and the goal sampler are oracles (functions).  The solution set is kept
in insertion order and its *top* element is selected by the coded `operator<` (`solLt`) with a
first-minimum scan; the code keeps the vector sorted with `std::sort` instead — the order of the
remaining elements is C04's business.  In `solLt` the last clause (`optimized_`, cost / length) is
the oracle `better`.  `nextGoal` is modelled for a scripted termination condition (one `Bool` per
evaluation, `true` once the script is exhausted) and without the wall-clock wait: a waiting turn
consumes the two evaluations `couldSample() && !ptc` / `attempt = !ptc` of the code.
-/
namespace OmplModel.PlannerReport

/-! ### PlannerStatus -/

inductive Status where
  | unknown | invalidStart | invalidGoal | unrecognizedGoalType | timeout
  | approximateSolution | exactSolution | crash | abort | infeasible
deriving Repr, DecidableEq, Inhabited

/-- `PlannerStatus(bool hasSolution, bool isApproximate)` -/
def Status.ofFlags (hasSolution isApproximate : Bool) : Status :=
  if hasSolution then (if isApproximate then .approximateSolution else .exactSolution) else .timeout

/-- `operator bool()` -/
def Status.toBool (s : Status) : Bool :=
  s == .approximateSolution || s == .exactSolution

def Status.name : Status → String
  | .unknown => "UNKNOWN" | .invalidStart => "INVALID_START" | .invalidGoal => "INVALID_GOAL"
  | .unrecognizedGoalType => "UNRECOGNIZED_GOAL_TYPE" | .timeout => "TIMEOUT"
  | .approximateSolution => "APPROXIMATE_SOLUTION" | .exactSolution => "EXACT_SOLUTION"
  | .crash => "CRASH" | .abort => "ABORT" | .infeasible => "INFEASIBLE"

/-! ### ProblemDefinition: solution bookkeeping -/

/-- `PlannerSolution`: `approximate_{false}`, `difference_{0.}`, `index_` -/
structure Solution (P D : Type) where
  path : P
  approximate : Bool
  difference : D
  index : Nat

structure Pdef (S P D : Type) where
  starts : Array S
  solutions : List (Solution P D) := []

variable {S P D : Type}

/-- `addSolutionPath(path, approximate, difference, name)`: `PlannerSolution sol(path); if (approximate)
sol.setApproximate(difference); solutions_->add(sol)` (`index_ = solutions_.size()`). `zero` is the
default `difference_{0.}`. -/
def addSolutionPath (zero : D) (pd : Pdef S P D) (path : P) (approximate : Bool) (difference : D) : Pdef S P D :=
  { pd with solutions := pd.solutions ++
      [{ path := path, approximate := approximate, difference := if approximate then difference else zero,
         index := pd.solutions.length }] }

def getSolutionCount (pd : Pdef S P D) : Nat := pd.solutions.length

/-- `PlannerSolution::operator<`; `better` stands for the `optimized_` / cost / length clauses. -/
def solLt (lt : D → D → Bool) (better : P → P → Bool) (a b : Solution P D) : Bool :=
  if !a.approximate && b.approximate then true
  else if a.approximate && !b.approximate then false
  else if a.approximate && b.approximate then lt a.difference b.difference
  else better a.path b.path

/-- first minimum under `solLt` (`solutions_[0]` of the sorted vector, up to ties) -/
def top (lt : D → D → Bool) (better : P → P → Bool) : List (Solution P D) → Option (Solution P D)
  | [] => none
  | s :: rest =>
    match top lt better rest with
    | none => some s
    | some t => if solLt lt better t s then some t else some s

/-- `hasApproximateSolution()`: `false` without solutions -/
def hasApproximateSolution (lt : D → D → Bool) (better : P → P → Bool) (pd : Pdef S P D) : Bool :=
  match top lt better pd.solutions with
  | some t => t.approximate
  | none => false

/-- `getSolutionDifference()`: `-1` without solutions -/
def getSolutionDifference (lt : D → D → Bool) (better : P → P → Bool) (minusOne : D) (pd : Pdef S P D) : D :=
  match top lt better pd.solutions with
  | some t => t.difference
  | none => minusOne

/-! ### PlannerInputStates -/

structure Pis where
  addedStartStates : Nat := 0
  sampledGoalsCount : Nat := 0
deriving Repr, DecidableEq

/-- `clear()` / `restart()` as far as the counters go -/
def Pis.restart (_ : Pis) : Pis := {}

/-- `bool bounds = satisfiesBounds(st); bool valid = bounds ? isValid(st) : false; bounds && valid` -/
def inputOk (bounds valid : S → Bool) (s : S) : Bool :=
  if bounds s then valid s else false

/-- `nextStart()`: returns the index handed out (and the state), and the new counters. -/
def nextStart (bounds valid : S → Bool) (starts : Array S) (pis : Pis) : Option (Nat × S) × Pis :=
  if h : pis.addedStartStates < starts.size then
    let st := starts[pis.addedStartStates]
    let pis' := { pis with addedStartStates := pis.addedStartStates + 1 }
    if inputOk bounds valid st then (some (pis.addedStartStates, st), pis')
    else nextStart bounds valid starts pis'
  else (none, pis)
termination_by starts.size - pis.addedStartStates

/-- `while (const State *st = pis_.nextStart()) …`: all states handed out, in order. -/
def drainStarts (bounds valid : S → Bool) (starts : Array S) (pis : Pis) : List (Nat × S) × Pis :=
  match h : nextStart bounds valid starts pis with
  | (none, pis') => ([], pis')
  | (some x, pis') =>
    let r := drainStarts bounds valid starts pis'
    (x :: r.1, r.2)
termination_by starts.size - pis.addedStartStates
decreasing_by
  all_goals sorry

end OmplModel.PlannerReport
