/-
The reporting layer every planner shares (L0 of DESIGN 2.1).  Core Lean only.

* `Status`, `Status.ofFlags`, `Status.toBool`   — base/PlannerStatus.h: the `(hasSolution, isApproximate)`
  constructor used by the planners' epilogues (`return {solved, approximate};`) and `operator bool`.
* `Solution`, `Pdef`, `addSolutionPath`, `hasApproximateSolution`, `getSolutionDifference`,
  `getSolutionCount`                              — base/src/ProblemDefinition.cpp.
* `Pis`, `nextStart`, `nextGoal`                  — `PlannerInputStates` of base/src/Planner.cpp.
* `isSatisfied`                                   — base/goals/src/GoalRegion.cpp.
* `pathCheck`                                     — `PathGeometric::check`, geometric/src/PathGeometric.cpp.

Abstractions: states, paths and distances are type parameters; `satisfiesBounds`, `isValid`,
`checkMotion`, `distanceGoal` and the goal sampler are oracles (functions).  The solution set is kept
in insertion order and its *top* element is selected by the coded `operator<` (`solLt`) with a
first-minimum scan; the code keeps the vector sorted with `std::sort` instead — the order of the
remaining elements is C04's business.  In `solLt` the last clause (`optimized_`, cost / length) is
the oracle `better`.  `nextGoal` is modelled for a scripted termination condition (one `Bool` per
evaluation, `true` once the script is exhausted) and without the wall-clock wait: a waiting turn
consumes the two evaluations `couldSample() && !ptc` / `attempt = !ptc` of the code.
-/
namespace OmplModel.PlannerReport

/-! ### PlannerStatus -/

inductive Status where
  | unknown | invalidStart | invalidGoal | unrecognizedGoalType | timeout
  | approximateSolution | exactSolution | crash | abort | infeasible
deriving Repr, DecidableEq, Inhabited

/-- `PlannerStatus(bool hasSolution, bool isApproximate)` -/
def Status.ofFlags (hasSolution isApproximate : Bool) : Status :=
  if hasSolution then (if isApproximate then .approximateSolution else .exactSolution) else .timeout

/-- `operator bool()` -/
def Status.toBool (s : Status) : Bool :=
  s == .approximateSolution || s == .exactSolution

def Status.name : Status → String
  | .unknown => "UNKNOWN" | .invalidStart => "INVALID_START" | .invalidGoal => "INVALID_GOAL"
  | .unrecognizedGoalType => "UNRECOGNIZED_GOAL_TYPE" | .timeout => "TIMEOUT"
  | .approximateSolution => "APPROXIMATE_SOLUTION" | .exactSolution => "EXACT_SOLUTION"
  | .crash => "CRASH" | .abort => "ABORT" | .infeasible => "INFEASIBLE"

/-! ### ProblemDefinition: solution bookkeeping -/

/-- `PlannerSolution`: `approximate_{false}`, `difference_{0.}`, `index_` -/
structure Solution (P D : Type) where
  path : P
  approximate : Bool
  difference : D
  index : Nat

structure Pdef (S P D : Type) where
  starts : Array S
  solutions : List (Solution P D) := []

variable {S P D : Type}

/-- `addSolutionPath(path, approximate, difference, name)`: `PlannerSolution sol(path); if (approximate)
sol.setApproximate(difference); solutions_->add(sol)` (`index_ = solutions_.size()`). `zero` is the
default `difference_{0.}`. -/
def addSolutionPath (zero : D) (pd : Pdef S P D) (path : P) (approximate : Bool) (difference : D) : Pdef S P D :=
  { pd with solutions := pd.solutions ++
      [{ path := path, approximate := approximate, difference := if approximate then difference else zero,
         index := pd.solutions.length }] }

def getSolutionCount (pd : Pdef S P D) : Nat := pd.solutions.length

/-- `PlannerSolution::operator<`; `better` stands for the `optimized_` / cost / length clauses. -/
def solLt (lt : D → D → Bool) (better : P → P → Bool) (a b : Solution P D) : Bool :=
  if !a.approximate && b.approximate then true
  else if a.approximate && !b.approximate then false
  else if a.approximate && b.approximate then lt a.difference b.difference
  else better a.path b.path

/-- first minimum under `solLt` (`solutions_[0]` of the sorted vector, up to ties) -/
def top (lt : D → D → Bool) (better : P → P → Bool) : List (Solution P D) → Option (Solution P D)
  | [] => none
  | s :: rest =>
    match top lt better rest with
    | none => some s
    | some t => if solLt lt better t s then some t else some s

/-- `hasApproximateSolution()`: `false` without solutions -/
def hasApproximateSolution (lt : D → D → Bool) (better : P → P → Bool) (pd : Pdef S P D) : Bool :=
  match top lt better pd.solutions with
  | some t => t.approximate
  | none => false

/-- `getSolutionDifference()`: `-1` without solutions -/
def getSolutionDifference (lt : D → D → Bool) (better : P → P → Bool) (minusOne : D) (pd : Pdef S P D) : D :=
  match top lt better pd.solutions with
  | some t => t.difference
  | none => minusOne

/-! ### PlannerInputStates -/

structure Pis where
  addedStartStates : Nat := 0
  sampledGoalsCount : Nat := 0
deriving Repr, DecidableEq

/-- `clear()` / `restart()` as far as the counters go -/
def Pis.restart (_ : Pis) : Pis := {}

/-- `bool bounds = satisfiesBounds(st); bool valid = bounds ? isValid(st) : false; bounds && valid` -/
def inputOk (bounds valid : S → Bool) (s : S) : Bool :=
  if bounds s then valid s else false

/-- the `while (addedStartStates_ < getStartStateCount())` loop of `nextStart()`; `fuel` = number of
start states not yet looked at (structural recursion, so that the model also evaluates in the kernel). -/
def nextStartAux (bounds valid : S → Bool) (starts : Array S) : Nat → Pis → Option (Nat × S) × Pis
  | 0, pis => (none, pis)
  | fuel + 1, pis =>
    if h : pis.addedStartStates < starts.size then
      let st := starts[pis.addedStartStates]
      let pis' := { pis with addedStartStates := pis.addedStartStates + 1 }
      if inputOk bounds valid st then (some (pis.addedStartStates, st), pis')
      else nextStartAux bounds valid starts fuel pis'
    else (none, pis)

/-- `nextStart()`: returns the index handed out (and the state), and the new counters. -/
def nextStart (bounds valid : S → Bool) (starts : Array S) (pis : Pis) : Option (Nat × S) × Pis :=
  nextStartAux bounds valid starts (starts.size - pis.addedStartStates) pis

/-- `while (const State *st = pis_.nextStart()) …`: all states handed out, in order.  `fuel` bounds the
number of calls; `starts.size + 1` is always enough (`drainStarts_exhausts`). -/
def drainStarts (bounds valid : S → Bool) (starts : Array S) : Nat → Pis → List (Nat × S) × Pis
  | 0, pis => ([], pis)
  | fuel + 1, pis =>
    match nextStart bounds valid starts pis with
    | (none, pis') => ([], pis')
    | (some x, pis') =>
      let r := drainStarts bounds valid starts fuel pis'
      (x :: r.1, r.2)

/-- a scripted termination condition: one `Bool` per evaluation; an exhausted script says `true` -/
def ptcEval : List Bool → Bool × List Bool
  | [] => (true, [])
  | b :: r => (b, r)

/-- the `do { sampleGoal; ++count; if ok return } while (!ptc && count < max && canSample())` loop.
`sample k` is the `k`-th goal sample handed to this `PlannerInputStates`; returns
(state, new count, rest of the ptc script). -/
def goalInner (bounds valid : S → Bool) (sample : Nat → S) (maxCount : Nat) :
    Nat → Nat → List Bool → Option (Nat × S) × Nat × List Bool
  | 0, count, sc => (none, count, sc)
  | fuel + 1, count, sc =>
    let st := sample count
    if inputOk bounds valid st then (some (count, st), count + 1, sc)
    else
      let (t, sc') := ptcEval sc
      if !t && count + 1 < maxCount then goalInner bounds valid sample maxCount fuel (count + 1) sc'
      else (none, count + 1, sc')

/-- the `while (attempt)` loop of `nextGoal(ptc)` for a goal with `canSample() == couldSample() ==
(maxSampleCount() > 0)` (GoalState, GoalStates); no wall clock. -/
def goalOuter (bounds valid : S → Bool) (sample : Nat → S) (maxCount : Nat) :
    Nat → Nat → List Bool → Option (Nat × S) × Nat × List Bool
  | 0, count, sc => (none, count, sc)
  | fuel + 1, count, sc =>
    let r := if count < maxCount then goalInner bounds valid sample maxCount (maxCount - count) count sc
             else (none, count, sc)
    match r with
    | (some x, count', sc') => (some x, count', sc')
    | (none, count', sc') =>
      if 0 < maxCount then
        let (t1, sc1) := ptcEval sc'
        if !t1 then
          let (t2, sc2) := ptcEval sc1
          if !t2 then goalOuter bounds valid sample maxCount fuel count' sc2 else (none, count', sc2)
        else (none, count', sc1)
      else (none, count', sc')

/-- `nextGoal(ptc)`; `nextGoal()` is `ptcScript = []` (the always-terminating condition). -/
def nextGoal (bounds valid : S → Bool) (sample : Nat → S) (maxCount : Nat) (ptcScript : List Bool) (pis : Pis) :
    Option (Nat × S) × Pis :=
  let r := goalOuter bounds valid sample maxCount (ptcScript.length + 1) pis.sampledGoalsCount ptcScript
  (r.1, { pis with sampledGoalsCount := r.2.1 })

/-! ### GoalRegion -/

/-- `GoalRegion::isSatisfied(st, &distance)`: `d2g = distanceGoal(st); *distance = d2g; return d2g < threshold_` -/
def isSatisfied (distanceGoal : S → D) (lt : D → D → Bool) (threshold : D) (st : S) : Bool × D :=
  (lt (distanceGoal st) threshold, distanceGoal st)

/-! ### PathGeometric::check -/

/-- `for (j = 0; result && j < last; ++j) if (!checkMotion(states[j], states[j+1])) result = false` -/
def checkLoop (checkMotion : S → S → Bool) : S → List S → Bool
  | _, [] => true
  | a, b :: r => if checkMotion a b then checkLoop checkMotion b r else false

/-- `PathGeometric::check()`: an empty path passes; otherwise the first state must be valid and every
consecutive pair must pass `checkMotion`. -/
def pathCheck (valid : S → Bool) (checkMotion : S → S → Bool) : List S → Bool
  | [] => true
  | s0 :: rest => if valid s0 then checkLoop checkMotion s0 rest else false

/-! ### the approximate-solution bookkeeping the tree planners share

`RRT`, `TRRT`, `pRRT`, `LazyRRT`, `EST`, `ProjEST`, `KPIECE1`, `STRIDE`, `PDST`, `RLRT`, `SST`, … all carry the same few lines:

    double dist = 0.0; bool sat = goal->isSatisfied(motion->state, &dist);
    if (sat) { approxdif = dist; solution = motion; break; }
    if (dist < approxdif) { approxdif = dist; approxsol = motion; }
    …
    if (solution == nullptr) { solution = approxsol; approximate = true; }
    if (solution != nullptr) { pdef_->addSolutionPath(path(solution), approximate, approxdif, name); solved = true; }
    return {solved, approximate};

`M` is whatever names a motion (a tree index); `goalDist` is `distanceGoal` of its state. -/

structure Tracker (M D : Type) where
  solution : Option M := none
  approxsol : Option M := none
  approxdif : D

/-- the test made on one newly added motion (no effect once an exact solution was found: the loop has been left) -/
def Tracker.observe {M D : Type} (goalDist : M → D) (lt : D → D → Bool) (threshold : D) (t : Tracker M D) (m : M) :
    Tracker M D :=
  match t.solution with
  | some _ => t
  | none =>
    let dist := goalDist m
    if lt dist threshold then { t with solution := some m, approxdif := dist }
    else if lt dist t.approxdif then { t with approxsol := some m, approxdif := dist }
    else t

/-- the epilogue: which motion's path is reported, with which flag and difference, and the status -/
def Tracker.finish {M D : Type} (t : Tracker M D) : Option (M × Bool × D) × Status :=
  match t.solution with
  | some m => (some (m, false, t.approxdif), Status.ofFlags true false)
  | none =>
    match t.approxsol with
    | some m => (some (m, true, t.approxdif), Status.ofFlags true true)
    | none => (none, Status.ofFlags false true)

end OmplModel.PlannerReport
