import OmplModel.Model.PathOps
import OmplModel.Model.PathOpsSplice2
/-
Whole-routine models of `PathSimplifier::smoothBSpline`, `findBetterGoal`, `perturbPath`
(src/ompl/geometric/src/PathSimplifier.cpp, tree after the fixes F9/F55/F56).  Core Lean only.

Written ONCE over an abstract state type `σ`, number type `α` and cost type `γ`: every arithmetic
operation and comparison the C++ performs on doubles is a field of `NumOps α` (no laws assumed), the
objective is `Obj σ γ`, `checkMotion`/`isValid`/`distance`/`interpolate` are oracles, and every random
choice is an INPUT stream (the harness substitutes scripted draws for the simplifier's private `rng_`,
a scripted `StateSampler` for `si->allocStateSampler()`, and `GoalStates` — whose `sampleGoal` cycles
through its states — for the goal region).  The driver instantiates `α := Float`, `γ := Float` and runs
the model in lock-step with the real routine; the theorems hold for every instantiation.

Checked indexing: `none` = the C++ would index a vector out of range.
The termination condition of `findBetterGoal` is not modelled (lock-step runs use one that never fires).
`dists` / `costs` / `distCostIndices` are recomputed from the current vector in every iteration; the C++
keeps an unchanged prefix and recomputes the rest with the same left-to-right formula (same values).
-/
namespace OmplModel.PathOps

variable {σ α γ : Type}

/-- the double operations the routines use, as coded (`lt a b` is `a < b`, `le a b` is `a <= b`) -/
structure NumOps (α : Type) where
  add : α → α → α
  sub : α → α → α
  mul : α → α → α
  div : α → α → α
  lt : α → α → Bool
  le : α → α → Bool
  zero : α
  two : α
  negOne : α
  /-- `std::numeric_limits<double>::epsilon()` -/
  eps : α

/-- the optimisation objective as the routines use it -/
structure Obj (σ γ : Type) where
  identity : γ
  combine : γ → γ → γ
  motion : σ → σ → γ
  /-- `isCostBetterThan` -/
  better : γ → γ → Bool

/-- `isCostEquivalentTo(a, b) = !better(a, b) && !better(b, a)` -/
def Obj.equiv (O : Obj σ γ) (a b : γ) : Bool := !O.better a b && !O.better b a

/-- `path.cost(obj)` without initial/terminal cost (identity for the shipped objectives): left fold of
`combineCosts` over the motion costs — also the last entry of the routines' `costs` table -/
def Obj.pathCost (O : Obj σ γ) : List σ → γ
  | [] => O.identity
  | a :: r => go O.identity a r
where go (acc : γ) (prev : σ) : List σ → γ
  | [] => acc
  | b :: r => go (O.combine acc (O.motion prev b)) b r

/-- `costs[i]`: cumulative cost up to and including state `i` -/
def Obj.cumCosts (O : Obj σ γ) : List σ → List γ
  | [] => []
  | a :: r => go O.identity a r
where go (acc : γ) (prev : σ) : List σ → List γ
  | [] => [acc]
  | b :: r => acc :: go (O.combine acc (O.motion prev b)) b r

/-- `dists[i]`: cumulative length up to state `i` (`dists[0] = 0.0`) -/
def cumDistsG (N : NumOps α) (dist : σ → σ → α) : List σ → List α
  | [] => []
  | a :: r => go N.zero a r
where go (acc : α) (prev : σ) : List σ → List α
  | [] => [acc]
  | b :: r => acc :: go (N.add acc (dist prev b)) b r

/-- `std::lower_bound(dists.begin(), dists.end(), x) - dists.begin()` (first index whose entry is not `< x`) -/
def lowerBoundG (N : NumOps α) (ds : List α) (x : α) : Nat := (ds.takeWhile fun d => N.lt d x).length

/-! ## smoothBSpline -/

structure BsEnv (σ : Type) where
  valid : σ → Bool
  cm : σ → σ → Bool
  /-- `interpolate(a, b, 0.5)` -/
  mid : σ → σ → σ
  /-- `si->distance(states[i], temp1) > minChange` -/
  moved : σ → σ → Bool

/-- `temp1`: the B-spline point for the vertex `c` between its two (odd-index) neighbours -/
def bsPoint (E : BsEnv σ) (p c n : σ) : σ := E.mid (E.mid p c) (E.mid c n)

/-- the test in front of `copyState(states[i], temp1)`, in the C++ short-circuit order -/
def bsAccept (E : BsEnv σ) (p c n : σ) : Bool :=
  E.valid p && (E.cm p (bsPoint E p c n) && E.cm (bsPoint E p c n) n) && E.moved c (bsPoint E p c n)

/-- `i = 2, 4, … while (i < n1)` over the list starting at `states[i - 1]`; returns the new tail and
the number `u` of replaced vertices (the loop reads only odd indices and writes only even ones) -/
def bsGo (E : BsEnv σ) : List σ → List σ × Nat
  | p :: c :: n :: rest =>
    let r := bsGo E (n :: rest)
    if bsAccept E p c n then (p :: bsPoint E p c n :: r.1, r.2 + 1) else (p :: c :: r.1, r.2)
  | l => (l, 0)

def bsPass (E : BsEnv σ) : List σ → List σ × Nat
  | s0 :: rest => let r := bsGo E rest; (s0 :: r.1, r.2)
  | [] => ([], 0)

/-- `for (s = 0; s < maxSteps; ++s) { subdivide(); …; if (u == 0) break; }` -/
def bsLoop (E : BsEnv σ) : Nat → List σ → List σ
  | 0, st => st
  | s + 1, st =>
    let r := bsPass E (subdivide E.mid st)
    if r.2 = 0 then r.1 else bsLoop E s r.1

/-- `PathSimplifier::smoothBSpline(path, maxSteps, minChange)` -/
def smoothBSpline (E : BsEnv σ) (maxSteps : Nat) (path : List σ) : List σ :=
  if path.length < 3 then path else bsLoop E maxSteps path

/-! ## findBetterGoal -/

structure BgEnv (σ α γ : Type) where
  N : NumOps α
  O : Obj σ γ
  cm : σ → σ → Bool
  dist : σ → σ → α
  interp : σ → σ → α → σ
  /-- k-th `gsr_->sampleGoal` -/
  goalAt : Nat → σ
  /-- `gsr_->isStartGoalPairValid(path.getState(0), goal)` -/
  pairValid : σ → σ → Bool
  /-- k-th `uniformReal` draw `u ∈ [0, 1)`: `uniformReal(lo, hi) = (hi - lo) * u + lo` -/
  u : Nat → α
  /-- `min(10, gsr_->maxSampleCount())` -/
  maxGoals : Nat
  samplingAttempts : Nat
  rangeRatio : α
  snap : α

/-- `while (start != begin && *start >= t) start -= 1`, from index `start` -/
def bgWalk (N : NumOps α) (ds : Array α) (t : α) : Nat → Option Nat
  | 0 => some 0
  | s + 1 => match ds[s + 1]? with
    | some d => if N.le t d then bgWalk N ds t s else some (s + 1)
    | none => none

/-- one sampling attempt: `some (some (path', true))` = improved, `some none` = no change -/
def bgAttempt (E : BgEnv σ α γ) (st : List σ) (goal : σ) (uk : α) : Option (Option (List σ)) :=
  let N := E.N
  let ds := (cumDistsG N E.dist st).toArray
  let costs := (E.O.cumCosts st).toArray
  match ds[ds.size - 1]?, costs[costs.size - 1]? with
  | some back, some cback =>
    let threshold := N.mul back E.snap
    let rd := N.mul E.rangeRatio back
    -- uniformReal(std::max(back - rd, 0.0), back)
    let lo := if N.lt (N.sub back rd) N.zero then N.zero else N.sub back rd
    let t := N.add (N.mul (N.sub back lo) uk) lo
    let endI := lowerBoundG N ds.toList t
    match bgWalk N ds t endI, ds[endI]? with
    | some startI, some dEnd =>
      match ds[startI]? with
      | none => none
      | some dStart =>
        -- snap to the starting / ending waypoint
        let endIndex := if N.lt (N.sub t dStart) threshold then startI else endI
        let startIndex := if N.lt (N.sub dEnd t) threshold then endIndex else startI
        match costs[startIndex]?, st[startIndex]?, st[endIndex]? with
        | some c0, some sS, some sE =>
          let tSeg := N.div (N.sub t dStart) (N.sub dEnd dStart)
          let state := if startIndex = endIndex then sS else E.interp sS sE tSeg
          let costToCome := if startIndex = endIndex then c0 else E.O.combine c0 (E.O.motion sS state)
          let candidate := E.O.combine costToCome (E.O.motion state goal)
          if E.O.better candidate cback && E.cm state goal then
            match bgSplice st startIndex endIndex state goal with
            | some st' => some (some st')
            | none => none
          else some none
        | _, _, _ => none
    | _, _ => none
  | _, _ => none

/-- the inner `while (numSamples++ < samplingAttempts && !betterGoal)`; `k` = index of the next draw -/
def bgInner (E : BgEnv σ α γ) (st : List σ) (goal : σ) : (todo k : Nat) → Option (Option (List σ) × Nat)
  | 0, k => some (none, k)
  | todo + 1, k =>
    match bgAttempt E st goal (E.u k) with
    | none => none
    | some (some st') => some (some st', k + 1)
    | some none => bgInner E st goal todo (k + 1)

/-- the outer `while (failedTries++ < maxGoals && !betterGoal)`; `g` = index of the next goal sample -/
def bgOuter (E : BgEnv σ α γ) (st : List σ) (first : σ) : (todo g k : Nat) → Option (List σ × Bool)
  | 0, _, _ => some (st, false)
  | todo + 1, g, k =>
    let goal := E.goalAt g
    if !E.pairValid first goal then bgOuter E st first todo (g + 1) k
    else match bgInner E st goal E.samplingAttempts k with
      | none => none
      | some (some st', _) => some (st', true)
      | some (none, k') => bgOuter E st first todo (g + 1) k'

/-- `PathSimplifier::findBetterGoal(path, ptc, samplingAttempts, rangeRatio, snapToVertex)` with a goal
region (`gsr_` set) and a termination condition that never fires -/
def findBetterGoal (E : BgEnv σ α γ) (path : List σ) : Option (List σ × Bool) :=
  match path with
  | [] => some (path, false)
  | [_] => some (path, false)
  | first :: _ =>
    -- `if (dists[i] < 0) return false`
    if (cumDistsG E.N E.dist path).any (fun d => E.N.lt d E.N.zero) then some (path, false)
    else bgOuter E path first E.maxGoals 0 0

/-! ## perturbPath -/

structure PpEnv (σ α γ : Type) where
  N : NumOps α
  O : Obj σ γ
  cm : σ → σ → Bool
  dist : σ → σ → α
  interp : σ → σ → α → σ
  /-- k-th scripted draw for `halfNormalReal(a, b, focus)`: the proxy returns `a + (b - a) * hn k` -/
  hn : Nat → α
  /-- k-th `sampler->sampleUniform` -/
  samp : Nat → σ
  stepSize : α
  snap : α

/-- `selectAlongPath(dists, states, distTo, threshold, select_state, pos)` → (pos, index >= 0, state) -/
def selectAlong (N : NumOps α) (interp : σ → σ → α → σ) (ds : Array α) (st : Array σ) (distTo threshold : α) :
    Option (Nat × Bool × σ) :=
  match ds[ds.size - 1]? with
  | none => none
  | some back =>
    let distTo := if N.lt distTo N.zero then N.zero else if N.lt back distTo then back else distTo
    let lb := lowerBoundG N ds.toList distTo
    let pos := if lb = ds.size then ds.size - 1 else lb
    match ds[pos]? with
    | none => none
    | some dp =>
      let walk : Nat × Bool :=
        if pos = 0 || N.le (N.sub dp distTo) threshold then (pos, true)
        else
          let pos' := walkDownG N ds distTo pos
          (pos', match ds[pos']? with
            | some d => N.lt (N.sub distTo d) threshold
            | none => false)
      if walk.2 then (st[walk.1]?).map fun s => (walk.1, true, s)
      else
        match ds[walk.1]?, ds[walk.1 + 1]?, st[walk.1]?, st[walk.1 + 1]? with
        | some d0, some d1, some a, some b =>
          some (walk.1, false, interp a b (N.div (N.sub distTo d0) (N.sub d1 d0)))
        | _, _, _, _ => none
where
  /-- `while (pos > 0 && distTo < dists[pos]) --pos;` -/
  walkDownG (N : NumOps α) (ds : Array α) (distTo : α) : Nat → Nat
    | 0 => 0
    | pos + 1 => match ds[pos + 1]? with
      | some d => if N.lt distTo d then walkDownG N ds distTo pos else pos + 1
      | none => pos + 1

/-- one step of libstdc++'s `__insertion_sort` (what `std::sort` is for at most 16 elements):
`comp(val, first)` → to the front, otherwise shift right while `comp(val, prev)` -/
def insertStd {β : Type} (comp : β → β → Bool) (sorted : List β) (val : β) : List β :=
  match sorted with
  | [] => [val]
  | first :: _ => if comp val first then val :: sorted else fromRight sorted.reverse []
where
  fromRight : List β → List β → List β
    | [], acc => val :: acc
    | e :: restRev, acc => if comp val e then fromRight restRev (e :: acc) else restRev.reverse ++ e :: val :: acc

def sortStd {β : Type} (comp : β → β → Bool) (l : List β) : List β := l.foldl (insertStd comp) []

/-- `distCostIndices`: (segment length, motion cost, index), highest cost first -/
def distCostIndices (E : PpEnv σ α γ) (st : List σ) : List (α × γ × Nat) :=
  let segs := ((adj st).zip (List.range (st.length - 1))).map fun (p, i) => (E.dist p.1 p.2, E.O.motion p.1 p.2, i)
  sortStd (fun a b => E.O.better b.2.1 a.2.1) segs

/-- `while (costBias - get<0>(dci[z]) > eps) { costBias -= get<0>(dci[z]); z++; }` -/
def ppPickSeg (N : NumOps α) (dci : Array (α × γ × Nat)) : (fuel : Nat) → (costBias : α) → (z : Nat) → Option (α × Nat)
  | 0, _, _ => none
  | fuel + 1, costBias, z =>
    match dci[z]? with
    | none => none
    | some e => if N.lt N.eps (N.sub costBias e.1) then ppPickSeg N dci fuel (N.sub costBias e.1) (z + 1) else some (costBias, z)

/-- `alongPath` accumulation `while (posTemp < pos_after)` -/
def ppAlong (O : Obj σ γ) (st : Array σ) : (n : Nat) → (acc : γ) → (posTemp : Nat) → Option γ
  | 0, acc, _ => some acc
  | n + 1, acc, posTemp =>
    match st[posTemp]?, st[posTemp + 1]? with
    | some a, some b => ppAlong O st n (O.combine acc (O.motion a b)) (posTemp + 1)
    | _, _ => none

inductive PpStep (σ : Type) where
  /-- `continue` / rejected: no change; `usedSample` = the sampler was asked -/
  | same (usedSample : Bool)
  | changed (st : List σ)

/-- the body of the `for` loop for the current vector; `hnk`/`smp` = this iteration's draws -/
def ppBody (E : PpEnv σ α γ) (st : List σ) (hnk : α) (smp : σ) : Option (PpStep σ) :=
  let N := E.N
  let ds := (cumDistsG N E.dist st).toArray
  let sta := st.toArray
  let dci := (distCostIndices E st).toArray
  match ds[ds.size - 1]? with
  | none => none
  | some back =>
    let threshold := N.mul back E.snap
    -- costBias = -1 * halfNormalReal(-back, 0.0, 20.0), proxy value a + (b - a) * u
    let a := N.mul N.negOne back
    let costBias := N.mul N.negOne (N.add a (N.mul (N.sub N.zero a) hnk))
    let pick : Option (α × Nat) :=
      if N.le back costBias then (dci[dci.size - 1]?).map fun e => (e.1, dci.size - 1)
      else ppPickSeg N dci (dci.size + 1) costBias 0
    match pick with
    | none => none
    | some (costBias, z) =>
      match dci[z]? with
      | none => none
      | some e =>
        match ds[e.2.2]? with
        | none => none
        | some dseg =>
          let distTo := N.add dseg costBias
          let half := N.div E.stepSize N.two
          match selectAlong N E.interp ds sta distTo threshold,
                selectAlong N E.interp ds sta (N.sub distTo half) threshold,
                selectAlong N E.interp ds sta (N.add distTo half) threshold with
          | some (_, _, perturb), some (posB, idxB, before), some (posA, idxA, after) =>
            if idxB && idxA && posB == posA then some (.same false)
            else
              let d := E.dist perturb smp
              let new := E.interp perturb smp (N.div E.stepSize d)
              if E.cm before new && E.cm new after then
                let along : Option γ :=
                  if posB = posA then some (E.O.motion before after)
                  else
                    let first : Option γ := if idxB then some E.O.identity else (sta[posB + 1]?).map fun x => E.O.motion before x
                    let start := if idxB then posB else posB + 1
                    let last : Option γ := if idxA then some E.O.identity else (sta[posA]?).map fun x => E.O.motion x after
                    match first, last with
                    | some f, some l => (ppAlong E.O sta (posA - start) f start).map fun acc => E.O.combine acc l
                    | _, _ => none
                match along with
                | none => none
                | some along =>
                  let newCost := E.O.combine (E.O.motion before new) (E.O.motion new after)
                  if E.O.better along newCost || E.O.equiv along newCost then some (.same true)
                  else match ppSplice st posB idxB posA idxA before new after with
                    | some st' => some (.changed st')
                    | none => none
              else some (.same true)
          | _, _, _ => none

/-- `for (i = 0; i < maxSteps && nochange < maxEmptySteps; i++, nochange++)`; `k` = next sampler draw -/
def ppLoop (E : PpEnv σ α γ) (maxEmpty : Nat) : (fuel i nochange k : Nat) → List σ → Bool → Option (List σ × Bool)
  | 0, _, _, _, st, res => some (st, res)
  | fuel + 1, i, nochange, k, st, res =>
    if nochange < maxEmpty then
      match ppBody E st (E.hn i) (E.samp k) with
      | none => none
      | some (.same used) => ppLoop E maxEmpty fuel (i + 1) (nochange + 1) (if used then k + 1 else k) st res
      | some (.changed st') => ppLoop E maxEmpty fuel (i + 1) 1 (k + 1) st' true
    else some (st, res)

/-- `PathSimplifier::perturbPath(path, stepSize, maxSteps, maxEmptySteps, snapToVertex)` -/
def perturbPath (E : PpEnv σ α γ) (maxSteps maxEmpty : Nat) (path : List σ) : Option (List σ × Bool) :=
  let maxSteps := if maxSteps = 0 then path.length else maxSteps
  let maxEmpty := if maxEmpty = 0 then path.length else maxEmpty
  ppLoop E maxEmpty maxSteps 0 0 0 path false

end OmplModel.PathOps
