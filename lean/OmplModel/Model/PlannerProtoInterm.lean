import OmplModel.Model.PlannerProto
/-!
C03, round 10: two more pieces of `geometric::RRT::solve` inside the model (core Lean only).

1. **The intermediate-states branch** (`addIntermediateStates_ == true`, RRT.cpp:154-174) as a fourth core
   `rrtiCore`: after a valid `checkMotion(nmotion->state, dstate)`

       segments = validSegmentCount(nmotion->state, dstate);  count = segments > 0 ? segments - 1 : 0;
       if (si_->getMotionStates(nmotion->state, dstate, states, count, true, true)) si_->freeState(states[0]);
       for (i = 1; i < states.size(); ++i) { motion->state = states[i]; motion->parent = nmotion; nmotion = motion; }

   `motionStates` mirrors `SpaceInformation::getMotionStates(…, endpoints = true, alloc = true)` (both branches:
   `count < 2` after the `count++`, and the general one with the interior states at `j / count`, `j = 1 … count-1`),
   every state it allocates is an event, `states[0]` is freed, the others are ADOPTED (no copy) by motions chained
   from the nearest motion; the goal is tested once, on the last motion.  `validSegmentCount` and `interpolate` are
   parameters (`Geom`); the driver instantiates them with the `RealVectorStateSpace` arithmetic, bit for bit.

2. **The goal test** (`GoalRegion::isSatisfied(st, &dist)` over `GoalState::distanceGoal`): `goalRegion`; `goalDraw`
   turns the part of an iteration that is still an oracle answer (nearest motion, motion valid?, new state) into the
   `Draw` the loop consumes, computing `sat` / `dist` in the model instead of replaying them from the trace.
-/
namespace OmplModel.PlannerProto

variable {σ δ : Type}

/-- what the intermediate-states branch needs from the state space -/
structure Geom (σ : Type) where
  /-- `si_->getStateSpace()->validSegmentCount(s1, s2)` -/
  segs : σ → σ → Nat
  /-- `stateSpace_->interpolate(s1, s2, (double)j / (double)count, ·)` as a function of `s1 s2 j count` -/
  interp : σ → σ → Nat → Nat → σ

/-- `SpaceInformation::getMotionStates(s1, s2, states, count, true, true)`: the states it allocates, in allocation
order (SpaceInformation.cpp:211-282; `count++` first). -/
def motionStates (G : Geom σ) (s1 s2 : σ) (countArg : Nat) : List σ :=
  let count := countArg + 1
  if count < 2 then [s1, s2]
  else s1 :: ((List.range (count - 1)).map (fun j => G.interp s1 s2 (j + 1) count) ++ [s2])

/-- `for (i = 1; i < states.size(); ++i)`: each state is adopted by a new motion whose parent is the previous one -/
def chain : Tree σ → Nat → List (Nat × σ) → Tree σ
  | t, _, [] => t
  | t, parent, (id, st) :: r => chain (t.push ⟨st, some parent, id⟩) t.size r

/-- geometric::RRT with `addIntermediateStates_` -/
def rrtiCore (G : Geom σ) : CoreSpec σ δ (Draw σ δ) (Tree σ) where
  init := #[]
  size := Array.size
  owned t := t.toList.map (·.sid)
  addRoot t i s := t.push ⟨s, none, i⟩
  iterate t i d :=
    if h : d.near < t.size then
      if d.valid then
        let nstate := t[d.near].state
        let segments := G.segs nstate d.st
        let count := if segments > 0 then segments - 1 else 0
        let states := motionStates G nstate d.st count
        let ids := freshIds i states.length
        let t' := chain t d.near ((ids.zip states).drop 1)
        ⟨t', i + states.length,
         ids.map Ev.alloc ++ (if states.length ≠ 0 then [Ev.free i] else []),
         -- `goal->isSatisfied(nmotion->state, &dist)`: `nmotion` is the last motion added (the nearest one if none was)
         [(if t'.size = t.size then d.near else t'.size - 1, d.sat, d.dist)]⟩
      else ⟨t, i, [], []⟩
    else ⟨t, i, [], []⟩
  pathTo t i := walk t i []
  xFirst := true

/-! ## The goal test -/

/-- the part of one iteration that stays an oracle answer -/
structure RawDraw (σ : Type) where
  /-- index of `nn_->nearest(rmotion)` -/
  near : Nat
  /-- `si_->checkMotion(nmotion->state, dstate)` -/
  valid : Bool
  /-- `dstate` -/
  st : σ

/-- `goal->isSatisfied(nmotion->state, &dist)` computed by the goal `g` on the new state -/
def goalDraw (g : σ → Bool × δ) (r : RawDraw σ) : Draw σ δ := ⟨r.near, r.valid, r.st, (g r.st).1, (g r.st).2⟩

/-- `GoalRegion::isSatisfied(st, &d)`: `d = distanceGoal(st)`; `return d < threshold_` with
`GoalState::distanceGoal(st) = si_->distance(st, state_)` -/
def goalRegion (dist : σ → σ → δ) (ltD : δ → δ → Bool) (goal : σ) (thr : δ) (st : σ) : Bool × δ :=
  let d2g := dist st goal
  (ltD d2g thr, d2g)

end OmplModel.PlannerProto
