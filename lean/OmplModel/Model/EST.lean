import OmplModel.Model.Pdf
import OmplModel.Model.PlannerReport
/-
Executable model of `ompl::geometric::EST::solve` / `addMotion`
(src/ompl/geometric/planners/est/src/EST.cpp), the main user of `ompl::PDF`, on top of the PDF model.
Core Lean only: linked into the native driver `drv_est`.

The tree is an array of `(state, parent index)` in insertion order (= `motions_` = the order of
`NearestNeighborsLinear::data_`, which the lock-step harness installs).  `pdf_` is the `Pdf` model;
the payload `Motion*` of a PDF element and `motion->element` are both the motion's index: elements
are created only by `addMotion`, one per motion, never removed, so the handle number (order of
creation) *is* the motion index (`est_pdf_sync` proves `pdf.next = tree.size`).

External answers are scripted (`Script`): the planner's own `rng_.uniform01()` stream (`us`: the value
handed to `pdf_.sample`, the goal-bias draw, the density-rejection draw — consumed in the order the code
calls them), the results of `sampler_->sampleNear(xstate, existing->state, maxDistance_)`
(`nears`: success flag and state; the valid-state sampler is an oracle) and of `goal_s->sampleGoal`
(`goals`).  The termination condition is the iteration budget: `while (!ptc)` is evaluated once per
iteration (also after `continue`), so "interrupted after k iterations" is "budget k".

Generic over the state type `S` and the number type `D` (distances, weights and draws are all
`double`); every space / environment operation is a field of `Cfg` (an oracle).  The weight formulas
are fields too: `wNew k` = `1. / (k + 1.)` (new motion with `k` neighbours), `wUpd w` = `w / (w + 1.)`
(a motion that gains a neighbour), `rejectP k` = `1.0 - (1.0 / k)`.

Abstractions (checked by the lock-step correspondence, not assumed silently):
* states are values, not pointers; `Motion*` is the array index;
* `nearestR` = filter of `data_` by `distFun_(d, query) <= radius` in insertion order, then a *stable*
  sort by distance (the code uses `std::sort`: the order of equidistant neighbours is unspecified there;
  it only influences the rounding of the PDF's inner sums, never a weight);
* `goal->isSatisfied(s, &dist)` is `GoalRegion::isSatisfied` (`distanceGoal(s) < threshold`);
* an exception out of `pdf_.sample` (empty / r outside [0,1]) or a dangling `existing`, and an exhausted
  script, end the loop (`Flow.halt`); `est_select_is_tree_motion` shows the first two never happen
  for draws in [0,1].
-/
namespace OmplModel.EST
open OmplModel.Pdf OmplModel.PlannerReport

structure Cfg (S D : Type) where
  dist : S → S → D
  lt : D → D → Bool
  le : D → D → Bool
  inf : D
  /-- `nbrhoodRadius_` -/
  radius : D
  goalBias : D
  /-- `goal_s->canSample()` -/
  canSample : Bool
  /-- `1.0 - (1.0 / neighbors.size())` -/
  rejectP : Nat → D
  /-- `1. / (neighbors.size() + 1.)` -/
  wNew : Nat → D
  /-- `w / (w + 1.)` -/
  wUpd : D → D
  bounds : S → Bool
  valid : S → Bool
  checkMotion : S → S → Bool
  goalDist : S → D
  threshold : D

structure Node (S : Type) where
  state : S
  parent : Option Nat

structure Script (S D : Type) where
  us : List D := []
  nears : List (Bool × S) := []
  goals : List S := []

structure St (S D : Type) where
  tree : Array (Node S)
  pdf : Pdf D
  solution : Option Nat
  approxsol : Option Nat
  approxdif : D
  sc : Script S D

inductive Flow where
  | cont | done | halt
deriving DecidableEq, Repr

variable {S D : Type}

/-- `distFun_(d, query) <= radius` (`d` the stored element, first argument) -/
def isNbr (cfg : Cfg S D) (e q : S) : Bool := cfg.le (cfg.dist e q) cfg.radius

def nbrAt (cfg : Cfg S D) (tree : Array (Node S)) (q : S) (i : Nat) : Bool :=
  match tree[i]? with
  | some nd => isNbr cfg nd.state q
  | none => false

/-- the key `ElemSort` compares: distance of stored element `i` to the query -/
def closer (cfg : Cfg S D) (tree : Array (Node S)) (q : S) (i j : Nat) : Bool :=
  match tree[i]?, tree[j]? with
  | some a, some b => !cfg.lt (cfg.dist b.state q) (cfg.dist a.state q)
  | _, _ => true

/-- stable merge (left element first when `le x y`), structurally recursive on the fuel so that the
model also evaluates in the kernel -/
def mergeF (le : Nat → Nat → Bool) : Nat → List Nat → List Nat → List Nat
  | 0, xs, ys => xs ++ ys
  | _ + 1, [], ys => ys
  | _ + 1, xs, [] => xs
  | f + 1, x :: xs, y :: ys =>
    if le x y then x :: mergeF le f xs (y :: ys) else y :: mergeF le f (x :: xs) ys

/-- stable top-down merge sort with fuel (`l.length` is enough) -/
def msortF (le : Nat → Nat → Bool) : Nat → List Nat → List Nat
  | 0, l => l
  | f + 1, l =>
    if l.length < 2 then l
    else mergeF le l.length (msortF le f (l.take (l.length / 2))) (msortF le f (l.drop (l.length / 2)))

/-- `NearestNeighborsLinear::nearestR(query, radius, nbh)` as motion indices -/
def nearestR (cfg : Cfg S D) (tree : Array (Node S)) (q : S) : List Nat :=
  msortF (closer cfg tree q) tree.size ((List.range tree.size).filter (nbrAt cfg tree q))

/-- `for (neighbor : neighbors) { w = pdf_.getWeight(elem); pdf_.update(elem, w / (w + 1.)); }` -/
def bumpNeighbors [WOps D] (cfg : Cfg S D) (pdf : Pdf D) (nbrs : List Nat) : Pdf D :=
  nbrs.foldl (fun p i => match p.getWeight i with
    | some w => p.update i (cfg.wUpd w)
    | none => p) pdf

/-- `EST::addMotion(motion, neighbors)` -/
def addMotion [WOps D] (cfg : Cfg S D) (st : St S D) (nd : Node S) (nbrs : List Nat) : St S D :=
  { st with tree := st.tree.push nd
            pdf := (bumpNeighbors cfg st.pdf nbrs).add (cfg.wNew nbrs.length) }

/-- `if (si_->checkMotion(existing->state, xstate)) { … addMotion …; goal test; approximate bookkeeping }` -/
def tryAdd [WOps D] (cfg : Cfg S D) (st : St S D) (ex : Nat) (exState x : S) (nbrs : List Nat) : St S D × Flow :=
  if cfg.checkMotion exState x then
    let st' := addMotion cfg st ⟨x, some ex⟩ nbrs
    let idx := st.tree.size
    let dist := cfg.goalDist x
    if cfg.lt dist cfg.threshold then ({ st' with solution := some idx, approxdif := dist }, .done)
    else if cfg.lt dist st.approxdif then ({ st' with approxdif := dist, approxsol := some idx }, .cont)
    else (st', .cont)
  else (st, .cont)

/-- one iteration of the `while (!ptc)` loop -/
def step [WScale D] (cfg : Cfg S D) (st : St S D) : St S D × Flow :=
  match st.sc.us with
  | [] => (st, .halt)
  | r :: us1 =>
    match st.pdf.sample r with
    | .ok ex =>
      match st.tree[ex]? with
      | none => (st, .halt)
      | some exn =>
        match us1 with
        | [] => (st, .halt)
        | u :: us2 =>
          if cfg.lt u cfg.goalBias && cfg.canSample then
            match st.sc.goals with
            | [] => (st, .halt)
            | x :: gs =>
              tryAdd cfg { st with sc := { st.sc with us := us2, goals := gs } } ex exn.state x (nearestR cfg st.tree x)
          else
            match st.sc.nears with
            | [] => (st, .halt)
            | (ok, x) :: ns =>
              if !ok then ({ st with sc := { st.sc with us := us2, nears := ns } }, .cont)
              else if (nearestR cfg st.tree x).isEmpty then
                tryAdd cfg { st with sc := { st.sc with us := us2, nears := ns } } ex exn.state x (nearestR cfg st.tree x)
              else
                match us2 with
                | [] => (st, .halt)
                | v :: us3 =>
                  if cfg.lt v (cfg.rejectP (nearestR cfg st.tree x).length) then
                    ({ st with sc := { st.sc with us := us3, nears := ns } }, .cont)
                  else
                    tryAdd cfg { st with sc := { st.sc with us := us3, nears := ns } } ex exn.state x
                      (nearestR cfg st.tree x)
    | _ => (st, .halt)

/-- the loop: at most `budget` iterations (the termination condition), stops at the first exact
solution (`break`) or when the script runs dry. -/
def loop [WScale D] (cfg : Cfg S D) : Nat → St S D → St S D
  | 0, st => st
  | n + 1, st =>
    match step cfg st with
    | (st', .cont) => loop cfg n st'
    | (st', _) => st'

/-- the states from the root to `i`, prepended to `acc` (`mpath` reversed) -/
def pathTo (tree : Array (Node S)) : Nat → Nat → List S → List S
  | 0, _, acc => acc
  | fuel + 1, i, acc =>
    match tree[i]? with
    | none => acc
    | some nd =>
      match nd.parent with
      | none => nd.state :: acc
      | some p => pathTo tree fuel p (nd.state :: acc)

/-- `while (st = pis_.nextStart()) { nearestR(motion, nbrhoodRadius_, neighbors); addMotion(motion, neighbors); }` -/
def addStarts [WOps D] (cfg : Cfg S D) (st : St S D) : List S → St S D
  | [] => st
  | s :: rest => addStarts cfg (addMotion cfg st ⟨s, none⟩ (nearestR cfg st.tree s)) rest

def initSt [WOps D] (cfg : Cfg S D) (starts : Array S) (sc : Script S D) : St S D × Pis :=
  let r := drainStarts cfg.bounds cfg.valid starts (starts.size + 1) {}
  (addStarts cfg ⟨#[], {}, none, none, cfg.inf, sc⟩ (r.1.map (·.2)), r.2)

structure Report (S D : Type) where
  status : Status
  /-- the arguments of `pdef_->addSolutionPath(path, approximate, approxdif, name)`, if called -/
  added : Option (List S × Bool × D)
  final : St S D
  pis : Pis
  lastGoalMotion : Option Nat

/-- `EST::solve` with a termination condition that fires after `budget` iterations -/
def solve [WScale D] (cfg : Cfg S D) (starts : Array S) (sc : Script S D) (budget : Nat) : Report S D :=
  let init := initSt cfg starts sc
  if init.1.tree.size = 0 then ⟨.invalidStart, none, init.1, init.2, none⟩
  else
    let st := loop cfg budget init.1
    let approximate := st.solution.isNone
    let sol := match st.solution with
      | some i => some i
      | none => st.approxsol
    match sol with
    | some i =>
      ⟨Status.ofFlags true approximate, some (pathTo st.tree (i + 1) i [], approximate, st.approxdif), st, init.2, some i⟩
    | none => ⟨Status.ofFlags false approximate, none, st, init.2, none⟩

end OmplModel.EST
