import OmplModel.Model.Pdf
/-
Checked twins of the editing operations of `ompl::PDF<_T>` (src/ompl/datastructures/PDF.h): `add`, `update`,
`remove` written once more with EVERY container access of the C++ made explicit.  Core Lean only (linked into
`drv_pdf`, which runs these twins, not the guarded originals).

`Model/Pdf.lean` indexes through total accessors (`Array.modify`, `Array.pop`, `modBack` are no-ops out of range)
and says "the guards follow from the shape".  Here an access outside a row, `back()` / `pop_back()` of an empty
row, `front()` of an empty `tree_` and `data_[index]` past the end yield `none` -- the model's rendering of
"reads or writes outside the structure's storage" (undefined behaviour of `std::vector::operator[]`, `back`,
`pop_back`, `front` in the code).  `Props/C12.lean` proves that `none` is never produced from the empty structure
(`edits_inbounds`) and that the twins compute exactly the guarded originals.

Access list mirrored (line numbers of PDF.h):
* add    :109 `tree_.front()`; :118 `tree_[i].back()`; :125 `tree_.back()[0]`, `tree_.back()[1]`
* update :163 `tree_.front()[index]`; :168 `tree_[row][index]`
* remove :192 `data_[index]`; :196/:208 `tree_.front().back()`; :199 `data_.back()`; :201/:211 `tree_.front()[index]`;
          :216 `tree_[row][parent]`; :224 `data_.pop_back()`; :225 `tree_.front().pop_back()`; :229 `tree_[i].pop_back()`;
          :234 `tree_[i].back()`; :241 `tree_.pop_back()`
A dead handle (`idx h = none`) is a use-after-free in the code, outside the contract: not executed on either side
(`some s`).  `update`'s own range test (`index >= data_.size()` throws) is kept as the no-op it is in `Pdf.update`.
-/
namespace OmplModel.Pdf
variable {α : Type}

/-- every row has a last cell (`row.back()` is defined) -/
def allNonempty (rs : List (Array α)) : Bool := rs.all (fun r => decide (0 < r.size))

/-- `tree_[row][index] += d` for the rows from `row` upwards, each access in range. -/
def bumpC [WOps α] (d : α) : List (Array α) → Nat → Option (List (Array α))
  | [], _ => some []
  | r :: rs, i =>
    if i < r.size then
      match bumpC d rs (i / 2) with
      | some t => some (r.modify i (fun a => WOps.add a d) :: t)
      | none => none
    else none

/-- the row loop of `add`, `back()` only of non-empty rows, the new head only from a two-cell row. -/
def addRowsC [WOps α] (w : α) (prev : Array α) : List (Array α) → Option (List (Array α))
  | [] =>
    match prev[0]?, prev[1]? with
    | some a, some b => some [#[WOps.add a b]]
    | _, _ => none
  | r :: rs =>
    if prev.size % 2 = 1 then
      match addRowsC w (r.push w) rs with
      | some t => some (r.push w :: t)
      | none => none
    else if allNonempty (r :: rs) then some ((r :: rs).map (modBack (fun a => WOps.add a w)))
    else none

def Pdf.addC [WOps α] (s : Pdf α) (w : α) : Option (Pdf α) :=
  if WOps.lt w WOps.zero then some s
  else if s.data.size = 0 then
    some { data := s.data.push s.next, idx := setIdx s.idx s.next (some s.data.size), next := s.next + 1,
           tree := s.tree ++ [#[w]] }
  else
    match s.tree with
    | [] => none
    | r0 :: rs =>
      match addRowsC w (r0.push w) rs with
      | some t =>
        some { data := s.data.push s.next, idx := setIdx s.idx s.next (some s.data.size), next := s.next + 1,
               tree := r0.push w :: t }
      | none => none

def Pdf.updateC [WOps α] (s : Pdf α) (h : Nat) (w : α) : Option (Pdf α) :=
  match s.idx h with
  | none => some s
  | some i =>
    if s.data.size ≤ i then some s
    else
      match s.tree with
      | [] => none
      | r0 :: rs =>
        if hi : i < r0.size then
          match bumpC (WOps.sub w r0[i]) rs (i / 2) with
          | some t => some { s with tree := r0.set i w hi :: t }
          | none => none
        else none

/-- the pop loop of `remove`: `pop_back()` / `back()` only of non-empty rows. -/
def popLoopC [WOps α] (weight : α) (prevSize : Nat) : List (Array α) → Option (List (Array α) × Bool)
  | [] => some ([], true)
  | r :: rs =>
    if 1 < prevSize then
      if prevSize % 2 = 0 then
        if 0 < r.size then
          match popLoopC weight r.pop.size rs with
          | some p => some (r.pop :: p.1, p.2)
          | none => none
        else none
      else if allNonempty (r :: rs) then some ((r :: rs).map (modBack (fun a => WOps.sub a weight)), false)
      else none
    else some (r :: rs, true)

def popPhaseC [WOps α] (weight : α) (r0 : Array α) (rs : List (Array α)) : Option (List (Array α)) :=
  if 0 < r0.size then
    match popLoopC weight r0.pop.size rs with
    | some p => some (if p.2 then (r0.pop :: p.1).dropLast else r0.pop :: p.1)
    | none => none
  else none

def Pdf.removeC [WOps α] (s : Pdf α) (h : Nat) : Option (Pdf α) :=
  match s.idx h with
  | none => some s
  | some i =>
    if hd : i < s.data.size then
      if s.data.size = 1 then
        some { s with data := #[], tree := [], idx := setIdx s.idx s.data[i] none }
      else
        match s.tree with
        | [] => none
        | r0 :: rs =>
          if hr : i < r0.size then
            let last := s.data.size - 1
            let lastr := r0.size - 1
            let idx1 := setIdx s.idx s.data[i] none
            if i + 1 = s.data.size then
              match popPhaseC r0[lastr] r0 rs with
              | some t => some { s with data := s.data.pop, idx := idx1, tree := t }
              | none => none
            else
              let data2 := s.data.swap i last hd (by omega)
              let idx2 := setIdx idx1 (s.data[last]'(by omega)) (some i)
              let r0' := r0.swap i lastr hr (by omega)
              if i + 2 = s.data.size ∧ i % 2 = 0 then
                match popPhaseC r0[i] r0' rs with
                | some t => some { s with data := data2.pop, idx := idx2, tree := t }
                | none => none
              else
                let weight := r0[lastr]
                let d := WOps.sub weight r0[i]
                match bumpC d rs (i / 2) with
                | some b =>
                  match popPhaseC weight r0' b with
                  | some t => some { s with data := data2.pop, idx := idx2, tree := t }
                  | none => none
                | none => none
          else none
    else none

def Pdf.stepC [WOps α] (s : Pdf α) : Op α → Option (Pdf α)
  | .add w => s.addC w
  | .update h w => s.updateC h w
  | .remove h => s.removeC h
  | .clear => some s.clear
  | .sample _ => some s

/-- a whole history through the checked twins; `none` = some access left the storage. -/
def Pdf.runC [WOps α] (s : Pdf α) : List (Op α) → Option (Pdf α)
  | [] => some s
  | op :: ops =>
    match s.stepC op with
    | some s' => s'.runC ops
    | none => none

end OmplModel.Pdf
