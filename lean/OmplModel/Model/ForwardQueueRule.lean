/-
The front-selection rule of `ompl::geometric::eitstar::ForwardQueue::getFrontIter(suboptimalityFactor)`
(src/ompl/geometric/planners/informedtrees/eitstar/src/ForwardQueue.cpp), as coded, over the container's iteration order.
Core Lean only (linked into `drv_heapaudit`).

`ForwardQueue` is NOT a `BinaryHeap` in this tree: an `unordered_map` scanned linearly by `peek`/`pop`.  Its iteration order
(hash order) is an input of the rule (`begin()` seeds the scan; `min_element`/`max_element` break ties by position); the
harness hands it over with each dump.  Costs are exact (integer-valued doubles in the harness world); `none` = infinite cost
(`suboptimalityFactor = inf` makes both inflated bounds infinite).
-/
namespace OmplModel.FwdQ

structure Row where
  lb : Nat      -- lowerBoundCost
  est : Nat     -- estimatedCost
  eff : Nat     -- estimatedEffort
deriving Repr

/-- `isCostBetterThan` on possibly infinite costs -/
def ltInf : Option Nat → Option Nat → Bool
  | some a, some b => decide (a < b)
  | some _, none => true
  | none, _ => false

/-- `std::max_element(begin, end, [](a, b){ return !better(a.lb, b.lb); })`: the LAST row of minimal lower bound -/
def lowerBoundEdge : List Row → Nat → Nat → Nat → Nat   -- rows, current index, best index, best lb
  | [], _, bi, _ => bi
  | r :: rest, i, bi, bl => if bl ≥ r.lb then lowerBoundEdge rest (i + 1) i r.lb else lowerBoundEdge rest (i + 1) bi bl

/-- `std::min_element(begin, end, [](a, b){ return better(a.est, b.est); })`: the FIRST row of minimal estimate -/
def bestCostEdge : List Row → Nat → Nat → Nat → Nat
  | [], _, bi, _ => bi
  | r :: rest, i, bi, be => if r.est < be then bestCostEdge rest (i + 1) i r.est else bestCostEdge rest (i + 1) bi be

structure Acc where
  idx : Nat             -- bestEffortEdge
  eff : Nat             -- its estimatedEffort
  cost : Option Nat     -- bestEffortEdgeCost (infinite until the first replacement)
  lb : Option Nat       -- bestEffortLowerBoundCost (infinite until the first replacement)

/-- one step of the scan: does row `r` replace the current best-effort edge? -/
def takes (bcC : Option Nat) (r : Row) (a : Acc) : Bool :=
  (decide (r.eff < a.eff) && !(ltInf bcC (some r.est))) ||
    (r.eff == a.eff && !(ltInf bcC (some r.est)) && ltInf (some r.lb) a.lb)

/-- the `for (it = cbegin; it != cend; ++it)` scan for the least-effort edge whose estimate is within the inflated best
estimate `bcC` -/
def effortScan (bcC : Option Nat) : List Row → Nat → Acc → Acc
  | [], _, a => a
  | r :: rest, i, a =>
    if takes bcC r a then effortScan bcC rest (i + 1) { idx := i, eff := r.eff, cost := some r.est, lb := some r.lb }
    else effortScan bcC rest (i + 1) a

def lbIdx (f : Option Nat) (r0 : Row) (rest : List Row) : Nat :=
  match f with | some _ => lowerBoundEdge rest 1 0 r0.lb | none => 0

def bcIdx (f : Option Nat) (r0 : Row) (rest : List Row) : Nat :=
  match f with | some _ => bestCostEdge rest 1 0 r0.est | none => 0

/-- `getFrontIter(f)` on a non-empty container `r0 :: rest` -/
def frontIdx (f : Option Nat) (r0 : Row) (rest : List Row) : Nat :=
  let l := r0 :: rest
  let lbC : Option Nat := f.map (fun k => (l.getD (lbIdx f r0 rest) r0).lb * k)
  let bcC : Option Nat := f.map (fun k => (l.getD (bcIdx f r0 rest) r0).est * k)
  let a := effortScan bcC l 0 { idx := 0, eff := r0.eff, cost := none, lb := none }
  if ltInf a.cost lbC then a.idx
  else if ltInf (some (l.getD (bcIdx f r0 rest) r0).est) lbC then bcIdx f r0 rest
  else lbIdx f r0 rest

/-- `getFrontIter(f)`: index (in iteration order) of the edge `peek`/`pop` returns; `f = none` is an infinite factor -/
def front (f : Option Nat) : List Row → Option Nat
  | [] => none
  | r0 :: rest => some (frontIdx f r0 rest)

end OmplModel.FwdQ
