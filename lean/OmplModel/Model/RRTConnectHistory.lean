import OmplModel.Model.RRTConnect
/-
Histories of ONE `geometric::RRTConnect` object and ONE `ProblemDefinition` (round 11 of C01; twin of
`Model/RRTHistory.lean`).  Core Lean only.

Between calls the object keeps: both trees (`tStart_`, `tGoal_`; only `clear()` empties them), `startTree_` (NOT reset by
`clear()`), `PlannerInputStates` (`addedStartStates_`, `sampledGoalsCount_`: a resumed call takes only start states added
since, and re-samples goals only while `sampledGoalsCount_ < tGoal_->size() / 2`; `Planner::clear()` resets both), and
`maxDistance_` (`setRange`).  `approxsol`, `approxdif`, `solved`, the status are locals of `solve()`.
The GOAL object keeps its own state too: `GoalStates::samplePosition_` is not touched by `planner.clear()`, so after a
`clear()` the planner's `k`-th goal sample is the goal's `(goalBase + k)`-th, `goalBase` = number of samples drawn before
the clear (`Cfg.shiftGoal`; found by the lock-step: 9 of 100 histories disagreed without it).
`connectionPoint_` / `distanceBetweenTrees_` only feed `getPlannerData` / a debug message: not modelled.

Not modelled: `setIntermediateStates` between calls (the flag is fixed over a history: the edge justification `Edge`
mentions it), replacing the problem definition or the goal.
-/
namespace OmplModel.RRTConnect
open OmplModel.PlannerReport

variable {S D : Type}

structure Planner (S : Type) where
  tStart : Array (Node S) := #[]
  tGoal : Array (Node S) := #[]
  startTree : Bool := true
  pis : Pis := {}

def Cfg.withRange (cfg : Cfg S D) (r : D) : Cfg S D := { cfg with maxDistance := r }

/-- the goal as the planner sees it after `b` samples were drawn from it in earlier epochs (before a `clear()`) -/
def Cfg.shiftGoal (cfg : Cfg S D) (b : Nat) : Cfg S D := { cfg with goalSample := fun k => cfg.goalSample (b + k) }

/-- `RRTConnect::solve` on an object that may already hold trees -/
def solveFrom (cfg : Cfg S D) (starts : Array S) (pl : Planner S) (ptc : Nat) (script : List S) : Report S D :=
  let r := drainStarts cfg.bounds cfg.valid starts (starts.size + 1) pl.pis
  let tS0 := pl.tStart ++ (r.1.map (fun x => (⟨x.2, none, x.2⟩ : Node S))).toArray
  if tS0.size = 0 then ⟨.invalidStart, none, tS0, pl.tGoal, r.2, pl.startTree, script.length, false, false⟩
  else if cfg.maxGoalSamples = 0 then ⟨.invalidGoal, none, tS0, pl.tGoal, r.2, pl.startTree, script.length, false, false⟩
  else
    let lp := loop cfg ⟨tS0, pl.tGoal, pl.startTree, r.2, ptc, none, cfg.inf, none, .timeout, false, false⟩ script
    let st := lp.1
    let res : Status × Option (List S × Bool × D) :=
      match st.exact with
      | some path => (.exactSolution, some (path, false, cfg.zero))
      | none =>
        match st.approxsol with
        | some i => (.approximateSolution, some (pathTo st.tStart (i + 1) i [], true, st.approxdif))
        | none => (st.status, none)
    ⟨res.1, res.2, st.tStart, st.tGoal, st.pis, st.startTree, lp.2.1.length, lp.2.2, st.fuelOut⟩

inductive Op (S D : Type) where
  /-- `solve(ptc)`: the termination condition answers false `ptc` times; scripted uniform draws -/
  | solve (ptc : Nat) (script : List S)
  | clear
  | addStart (s : S)
  | setRange (r : D)
  | clearSolutions

structure World (S D : Type) where
  planner : Planner S
  range : D
  pd : Pdef S (List S) D
  /-- goal samples drawn before the last `clear()` -/
  goalBase : Nat := 0

def applyOp (cfg : Cfg S D) (w : World S D) : Op S D → World S D × Option (Report S D)
  | .solve ptc script =>
    let r := solveFrom ((cfg.shiftGoal w.goalBase).withRange w.range) w.pd.starts w.planner ptc script
    let pd' := match r.added with
      | some (path, approximate, dif) => addSolutionPath cfg.zero w.pd path approximate dif
      | none => w.pd
    ({ w with planner := ⟨r.tStart, r.tGoal, r.startTree, r.pis⟩, pd := pd' }, some r)
  | .clear =>
    ({ w with planner := ({ startTree := w.planner.startTree } : Planner S),
              goalBase := w.goalBase + w.planner.pis.sampledGoalsCount }, none)
  | .addStart s => ({ w with pd := { w.pd with starts := w.pd.starts.push s } }, none)
  | .setRange r => ({ w with range := r }, none)
  | .clearSolutions => ({ w with pd := { w.pd with solutions := [] } }, none)

def runOps (cfg : Cfg S D) : World S D → List (Op S D) → World S D × List (Report S D)
  | w, [] => (w, [])
  | w, op :: rest =>
    let a := applyOp cfg w op
    let b := runOps cfg a.1 rest
    (b.1, (match a.2 with | some r => [r] | none => []) ++ b.2)

def World.fresh (starts : Array S) (range : D) : World S D := ⟨{}, range, { starts := starts }, 0⟩

end OmplModel.RRTConnect
