import OmplModel.Model.PlannerProto
/-!
C03, round 10 (second lap): a bidirectional core — `geometric::RRTConnect` (RRTConnect.cpp:203-390, default
`addIntermediateStates_ = false`) as a `CoreSpec` of the protocol machine.  Core Lean only.

State: the two trees `tStart_` / `tGoal_`, the member `startTree_` (which tree the NEXT iteration extends) and
`connectionPoint_` (as a pair of motion indices).  One loop body (`connectIterate`):

* `tgi.start = startTree_; startTree_ = !startTree_;`
* goal sampling: when `pis_.nextGoal…` hands out a state it becomes a root of the goal tree (one allocation);
* `growTree(tree, tgi, rmotion)`: TRAPPED, or a new motion below the nearest one (REACHED / ADVANCED);
* unless TRAPPED: `growTree(otherTree, …)` once and then `while (gsc == ADVANCED)`; if the FIRST of these calls is TRAPPED
  `tgi.start` is flipped back and `tgi.xmotion` is still the motion added to the first tree;
* `gsc == REACHED && isStartGoalPairValid`: step one motion back on the start side (on the goal side if the start motion
  is a root), set `connectionPoint_`, report the joined path as exact solution and `break`;
* otherwise, if `tgi.start`, `approxsol` / `approxdif` are updated with the goal distance of `tgi.xmotion`.

Oracle answers (`BDraw`): whether a goal state was handed out (and which), per `growTree` call the nearest index and
TRAPPED / new state + REACHED?, `isStartGoalPairValid`, the goal distance.  The solution "motion" of the generic epilogue
is an index: `i < tStart_.size` = the start-tree motion `i` (approximate paths), `i = tStart_.size` = the connection.

Not modelled: `PlannerInputStates::tempState_` (one state, allocated by the first `nextGoal`, freed by `pis_.clear()`; the
check removes it from the trace), `distanceBetweenTrees_`, the INVALID_GOAL exits (no goal state can be sampled), the
intermediate-states variant.  `RRTConnect::clear()` does NOT reset `startTree_` (finding F333): the generic `clear` resets
the core to `init` (`turn = true`), the lock-step driver re-injects the real flag with the op `turn`.
-/
namespace OmplModel.PlannerProto

variable {σ δ : Type}

structure BiTree (σ : Type) where
  ts : Tree σ := #[]
  tg : Tree σ := #[]
  /-- `startTree_` -/
  turn : Bool := true
  /-- `connectionPoint_`: (start-tree motion, goal-tree motion) -/
  conn : Option (Nat × Nat) := none

/-- outcome of one `growTree` call -/
inductive Grow (σ : Type) where
  | trapped
  | added (near : Nat) (st : σ) (reached : Bool)

structure BDraw (σ δ : Type) where
  /-- `pis_.nextGoal(…)` handed out a goal state in this iteration -/
  newGoal : Option σ
  /-- `growTree(tree, tgi, rmotion)` -/
  first : Grow σ
  /-- the `growTree(otherTree, tgi, rmotion)` calls, in order -/
  connect : List (Grow σ)
  /-- `goal->isStartGoalPairValid(startMotion->root, goalMotion->root)` -/
  pairValid : Bool
  /-- `goal->isSatisfied(tgi.xmotion->state, &dist)` -/
  dist : δ

def BiTree.side (c : BiTree σ) (start : Bool) : Tree σ := if start then c.ts else c.tg

def BiTree.push (c : BiTree σ) (start : Bool) (st : σ) (parent : Option Nat) (sid : Nat) : BiTree σ :=
  if start then { c with ts := c.ts.push ⟨st, parent, sid⟩ } else { c with tg := c.tg.push ⟨st, parent, sid⟩ }

def BiTree.connValid (c : BiTree σ) : Bool :=
  match c.conn with
  | some (a, b) => decide (a < c.ts.size) && decide (b < c.tg.size)
  | none => false

/-- `gsc = growTree(otherTree, …); while (gsc == ADVANCED) gsc = growTree(otherTree, …);` on the tree `start`:
result tree, next fresh id, index of the last motion added (none: the first call was TRAPPED), REACHED? -/
def connectLoop (start : Bool) : BiTree σ → Nat → List (Grow σ) → BiTree σ × Nat × Option Nat × Bool
  | c, i, [] => (c, i, none, false)
  | c, i, .trapped :: _ => (c, i, none, false)
  | c, i, .added near st reached :: r =>
    if near < (c.side start).size then
      let idx := (c.side start).size
      let c' := c.push start st (some near) i
      if reached then (c', i + 1, some idx, true)
      else
        let o := connectLoop start c' (i + 1) r
        (o.1, o.2.1, some (o.2.2.1.getD idx), o.2.2.2)
    else (c, i, none, false)

def biOut (c : BiTree σ) (i i' : Nat) (res : List (Nat × Bool × δ)) : IterOut δ (BiTree σ) :=
  ⟨c, i', (freshIds i (i' - i)).map Ev.alloc, res⟩

/-- goal sampling at the top of the loop body: a state handed out by `pis_.nextGoal…` becomes a root of the goal tree -/
def goalStep (c : BiTree σ) (i : Nat) : Option σ → BiTree σ × Nat
  | some s => (c.push false s none i, i + 1)
  | none => (c, i)

/-- the rest of the loop body: `i` is the fresh id at the start of the body, `(c1, i1)` the state after the goal sampling,
`startSide` the value `tgi.start` got from `startTree_` -/
def growStep (startSide : Bool) (i : Nat) (c1 : BiTree σ) (i1 : Nat) (d : BDraw σ δ) : IterOut δ (BiTree σ) :=
  match d.first with
  | .trapped => biOut c1 i i1 []
  | .added near st _ =>
    if near < (c1.side startSide).size then
      let addedIdx := (c1.side startSide).size
      let o := connectLoop (!startSide) (c1.push startSide st (some near) i1) (i1 + 1) d.connect
      -- the first growTree(otherTree) TRAPPED: tgi.start is restored, tgi.xmotion is still the motion just added
      let tgiStart := if o.2.2.1.isNone then startSide else !startSide
      let xIdx := o.2.2.1.getD addedIdx
      if o.2.2.2 && d.pairValid then
        let sM := if startSide then addedIdx else xIdx
        let gM := if startSide then xIdx else addedIdx
        -- go one step back to avoid a duplicate state: on the start side if that motion has a parent
        let sg : Nat × Nat := match (o.1.ts[sM]?).bind (·.parent) with
          | some p => (p, gM)
          | none => (sM, ((o.1.tg[gM]?).bind (·.parent)).getD gM)
        if ({ o.1 with conn := some sg } : BiTree σ).connValid then
          biOut ({ o.1 with conn := some sg } : BiTree σ) i o.2.1 [(o.1.ts.size, true, d.dist)]
        else biOut o.1 i o.2.1 []
      else if tgiStart && decide (xIdx < o.1.ts.size) then biOut o.1 i o.2.1 [(xIdx, false, d.dist)]
      else biOut o.1 i o.2.1 []
    else biOut c1 i i1 []

def connectIterate (c : BiTree σ) (i : Nat) (d : BDraw σ δ) : IterOut δ (BiTree σ) :=
  -- `tgi.start = startTree_; startTree_ = !startTree_;`
  let p := goalStep ({ c with turn := !c.turn } : BiTree σ) i d.newGoal
  growStep c.turn i p.1 p.2 d

/-- start-tree walk to the connection's start motion, then the goal-tree chain from its goal motion up to the goal root -/
def BiTree.joined (c : BiTree σ) : List σ :=
  match c.conn with
  | some (a, b) => walk c.ts a [] ++ (walk c.tg b []).reverse
  | none => []

def rrtConnectCore : CoreSpec σ δ (BDraw σ δ) (BiTree σ) where
  init := {}
  -- `tStart_->size()`, plus one "motion" for a valid connection (the index the exact solution is reported under)
  size c := c.ts.size + (if c.connValid then 1 else 0)
  owned c := c.ts.toList.map (·.sid) ++ c.tg.toList.map (·.sid)
  addRoot c i s := c.push true s none i
  iterate := connectIterate
  pathTo c i := if i < c.ts.size then walk c.ts i [] else c.joined
  -- the epilogue frees `tgi.xstate` (allocated FIRST) and then `rstate`: in the model's numbering the state allocated
  -- first is called `rmotion`
  xFirst := false

end OmplModel.PlannerProto
