import OmplModel.Model.Dubins
/-
Model of `ompl::base::OwenStateSpace` (src/ompl/base/spaces/src/OwenStateSpace.cpp): Dubins curves with an altitude
component — `turn`, `getPath` (low / high / medium altitude), `PathType::length`, `category`, `interpolate`.

Core Lean only, generic over `[DNum α]`, same operation order as the C++.

Oracle (DESIGN 1.3): `getPath` finds the turning radius of a high-altitude path and the initial turn angle of a
medium-altitude path with boost's TOMS748 `bracket_and_solve_root`, which is not modelled.  `getPathWith` takes
that root as a recorded answer (`root`) and recomputes everything else as coded: the category decision, the number
of full turns `k`, the acceptance tests `|radiusFun(radius)| > 1e-5 → no path` and `|phiFun(phi)| > 1e-5 → no path`, the Dubins word for that radius /
from the turned start pose, the length and the interpolation.  The correspondence run feeds the root the real code
printed and compares every other field bit for bit.
-/
namespace OmplModel.Owen
open OmplModel OmplModel.Dubins

structure St4 (α : Type) where
  x : α
  y : α
  z : α
  yaw : α

/-- `OwenStateSpace::PathType` -/
structure OPath (α : Type) where
  path : Path α
  r : α        -- turnRadius_
  dz : α       -- deltaZ_
  phi : α      -- phi_
  k : α        -- numTurns_ (an unsigned int in C++; kept as the floored double it was computed from)

section
variable {α : Type} [DNum α]

def St4.pose (s : St4 α) : Pose α := ⟨s.x, s.y, s.yaw⟩

/-- `turn(from, turnRadius, angle, state)` -/
def turn (frm : Pose α) (radius angle : α) : Pose α :=
  let theta := frm.th
  let phi := theta + angle
  let r := if 0 < angle then radius else -radius
  ⟨frm.x + r * (Num.sin phi - Num.sin theta), frm.y + r * (-Num.cos phi + Num.cos theta), phi⟩

def dlen (rho : α) (a b : Pose α) : Option (Path α) :=
  match dubinsStates rho a b with
  | .path P => some P
  | _ => none

/-- `1e-5` -/
def rootTol : α := Num.ofDec 1 5

/-- `getPath(state1, state2)` with the root of the bracketing search supplied -/
def getPathWith (rho tanp root : α) (s1 s2 : St4 α) : Option (OPath α) :=
  match dlen rho s1.pose s2.pose with
  | none => none
  | some P =>
    let dz := s2.z - s1.z
    let len := rho * P.len
    if Num.abs dz ≤ len * tanp then some ⟨P, rho, dz, 0, 0⟩
    else if (len + twopi * rho) * tanp < Num.abs dz then
      let k := Num.floor ((Num.abs dz / tanp - len) / (twopi * rho))
      let radius := root
      match dlen radius s1.pose s2.pose with
      | none => none
      | some Pr =>
        let f := (Pr.len + twopi * k) * radius * tanp - Num.abs dz
        if rootTol < Num.abs f then none else some ⟨Pr, radius, dz, 0, k⟩
    else
      -- phiFun(phi) = (|phi| + dubins(turn(s1, rho, phi), s2).length()) * rho * tanMaxPitch - |dz|; both bracketing
      -- attempts reject |phiFun(phi)| > 1e-5 (the second one since fix 0a31e23cc, finding F127)
      let zi := turn s1.pose rho root
      match dlen rho zi s2.pose with
      | none => none
      | some Pm =>
        let f := (Num.abs root + Pm.len) * rho * tanp - Num.abs dz
        if rootTol < Num.abs f then none else some ⟨Pm, rho, dz, root, 0⟩

/-- `PathType::length()` -/
def OPath.len (p : OPath α) : α :=
  let hlen := p.r * (p.path.len + twopi * p.k + p.phi)
  Num.sqrt (hlen * hlen + p.dz * p.dz)

/-- `PathType::length()` with the fix of finding F147 (`std::abs(phi_)`: the horizontal length the curve really has);
the check selects this one when the source under test has the fix -/
def OPath.lenAbs (p : OPath α) : α :=
  let hlen := p.r * (p.path.len + twopi * p.k + Num.abs p.phi)
  Num.sqrt (hlen * hlen + p.dz * p.dz)

/-- `PathType::category()` -/
def OPath.category (p : OPath α) : String :=
  if ¬ (p.phi < 0) ∧ ¬ (0 < p.phi) then (if ¬ (p.k < 0) ∧ ¬ (0 < p.k) then "L" else "H")
  else (if ¬ (p.k < 0) ∧ ¬ (0 < p.k) then "M" else "?")

/-- `interpolate(from, to, t, path, state)` -/
def interpWith (frm tgt : St4 α) (t : α) (p : OPath α) : St4 α :=
  if 1 ≤ t then tgt
  else if t ≤ 0 then frm
  else
    let z := frm.z + t * p.dz
    let fin (q : Pose α) : St4 α := ⟨q.x, q.y, z, so2Enforce q.th⟩
    if ¬ (p.phi < 0) ∧ ¬ (0 < p.phi) then
      if ¬ (p.k < 0) ∧ ¬ (0 < p.k) then
        fin (interpPath p.r frm.pose p.path t)
      else
        let lengthSpiral := twopi * p.r * p.k
        let lengthPath := p.r * p.path.len
        let length := lengthSpiral + lengthPath
        let dist := t * length
        if lengthSpiral < dist then fin (interpPath p.r frm.pose p.path ((dist - lengthSpiral) / lengthPath))
        else fin (turn frm.pose p.r (dist / p.r))
    else
      let lengthTurn := Num.abs p.phi * p.r
      let lengthPath := p.r * p.path.len
      let length := lengthTurn + lengthPath
      let dist := t * length
      if lengthTurn < dist then
        let s := turn frm.pose p.r p.phi
        fin (interpPath p.r s p.path ((dist - lengthTurn) / lengthPath))
      else
        let angle := dist / p.r
        let angle := if p.phi < 0 then -angle else angle
        fin (turn frm.pose p.r angle)

end
end OmplModel.Owen
