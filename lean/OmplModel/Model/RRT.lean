import OmplModel.Model.PlannerReport
/-
Executable model of `ompl::geometric::RRT::solve` (src/ompl/geometric/planners/rrt/src/RRT.cpp),
L2 of DESIGN 2.1.  Core Lean only: linked into the native driver `drv_rrt`.

The tree is an array of `(state, parent index)` in insertion order (= the order of
`NearestNeighborsLinear::data_`, which the lock-step harness installs).  ONE loop iteration
consumes one scripted `Draw`: the state that ended up in `rstate`, tagged with where it came from
(`goal_s->sampleGoal` when `rng_.uniform01() < goalBias_ && canSample()`, else
`sampler_->sampleUniform`) — the bias decision is the tag.  The termination condition is the length
of the script: `while (!ptc)` is evaluated once per iteration, so "interrupted after k
iterations" is "script of length k".

Generic over the state type `S` and the number type `D`; every space / environment operation is a
field of `Cfg` (an oracle): `distance`, `interpolate`, `<`, `/`, `(double)j/(double)count`,
`satisfiesBounds`, `isValid`, `checkMotion`, `validSegmentCount`, `distanceGoal`.
Instantiated at `Array Float` / `Float` in `Driver/RRT.lean`.

Abstractions (checked by the lock-step correspondence, not assumed silently):
* states are values, not pointers; `Motion*` is the array index;
* `goal->isSatisfied(s, &dist)` is `GoalRegion::isSatisfied` (`distanceGoal(s) < threshold`);
* `getMotionStates(a, b, states, count, true, true)` is reduced to the states RRT keeps
  (`states[1..]`): `count` interior points `interpolate(a, b, j/(count+1))`, then a copy of `b`;
  for `count + 1 < 2` just `b`.  Note the code passes `count = validSegmentCount(a, b)`, which
  `getMotionStates` increments: the intermediate states are the `(n+1)`-subdivision points, *not*
  the `n`-subdivision points `checkMotion` validated;
* the `nearest` totalisation for an empty tree (never reached: `solve` returns `INVALID_START`).
-/
namespace OmplModel.RRT
open OmplModel.PlannerReport

structure Cfg (S D : Type) where
  dist : S → S → D
  interp : S → S → D → S
  /-- `a < b` on `double` -/
  lt : D → D → Bool
  div : D → D → D
  /-- `(double)j / (double)count` -/
  frac : Nat → Nat → D
  inf : D
  zero : D
  maxDistance : D
  bounds : S → Bool
  valid : S → Bool
  checkMotion : S → S → Bool
  segCount : S → S → Nat
  goalDist : S → D
  threshold : D
  addIntermediate : Bool

structure Node (S : Type) where
  state : S
  parent : Option Nat

structure Draw (S : Type) where
  fromGoal : Bool
  state : S

variable {S D : Type}

/-- one turn of the scan in `NearestNeighborsLinear::nearest`:
`if (pos == sz || dmin > distance) { pos = i; dmin = distance; }` -/
def nearestStep (cfg : Cfg S D) (tree : Array (Node S)) (q : S) (acc : Nat × D) (i : Nat) : Nat × D :=
  match tree[i]? with
  | none => acc
  | some nd =>
    let d := cfg.dist nd.state q
    if acc.1 == tree.size || cfg.lt d acc.2 then (i, d) else acc

/-- `NearestNeighborsLinear::nearest`: the first minimum.  Returns `tree.size` for an empty tree. -/
def nearest (cfg : Cfg S D) (tree : Array (Node S)) (q : S) : Nat :=
  ((List.range tree.size).foldl (nearestStep cfg tree q) (tree.size, cfg.zero)).1

/-- the states RRT keeps from `getMotionStates(a, b, states, validSegmentCount(a,b), true, true)` -/
def motionStates (cfg : Cfg S D) (a b : S) : List S :=
  let count := cfg.segCount a b - 1
  if count + 1 < 2 then [b]
  else (List.range count).map (fun j => cfg.interp a b (cfg.frac (j + 1) (count + 1))) ++ [b]

/-- `for (i = 1; i < states.size(); ++i) { motion->parent = nmotion; nn_->add(motion); nmotion = motion; }`:
returns the new tree and the index of the last motion added (`nmotion`). -/
def addChain (tree : Array (Node S)) (parent : Nat) : List S → Array (Node S) × Nat
  | [] => (tree, parent)
  | s :: r => addChain (tree.push ⟨s, some parent⟩) tree.size r

structure St (S D : Type) where
  tree : Array (Node S)
  solution : Option Nat
  approxsol : Option Nat
  approxdif : D

/-- one iteration of the `while (!ptc)` loop -/
def step (cfg : Cfg S D) (st : St S D) (dr : Draw S) : St S D :=
  let rstate := dr.state
  let ni := nearest cfg st.tree rstate
  match st.tree[ni]? with
  | none => st
  | some nm =>
    let d := cfg.dist nm.state rstate
    let dstate := if cfg.lt cfg.maxDistance d then cfg.interp nm.state rstate (cfg.div cfg.maxDistance d) else rstate
    if cfg.checkMotion nm.state dstate then
      let added := addChain st.tree ni (if cfg.addIntermediate then motionStates cfg nm.state dstate else [dstate])
      match added.1[added.2]? with
      | none => st
      | some nl =>
        let dist := cfg.goalDist nl.state
        if cfg.lt dist cfg.threshold then
          { tree := added.1, solution := some added.2, approxsol := st.approxsol, approxdif := dist }
        else if cfg.lt dist st.approxdif then
          { tree := added.1, solution := none, approxsol := some added.2, approxdif := dist }
        else { st with tree := added.1 }
    else st

/-- the loop: stops at the first exact solution (`break`) or when the script (the termination
condition) runs out.  Returns the state and the draws left unused. -/
def loop (cfg : Cfg S D) : St S D → List (Draw S) → St S D × List (Draw S)
  | st, [] => (st, [])
  | st, dr :: rest =>
    let st' := step cfg st dr
    if st'.solution.isSome then (st', rest) else loop cfg st' rest

/-- `while (solution != nullptr) { mpath.push_back(solution); solution = solution->parent; }` then
reversed: the states from the root to `i`, prepended to `acc`. -/
def pathTo (tree : Array (Node S)) : Nat → Nat → List S → List S
  | 0, _, acc => acc
  | fuel + 1, i, acc =>
    match tree[i]? with
    | none => acc
    | some nd =>
      match nd.parent with
      | none => nd.state :: acc
      | some p => pathTo tree fuel p (nd.state :: acc)

structure Report (S D : Type) where
  status : Status
  /-- the arguments of `pdef_->addSolutionPath(path, approximate, approxdif, name)`, if called -/
  added : Option (List S × Bool × D)
  tree : Array (Node S)
  pis : Pis
  lastGoalMotion : Option Nat
  unusedDraws : Nat

def initTree (cfg : Cfg S D) (starts : Array S) : Array (Node S) × Pis :=
  let r := drainStarts cfg.bounds cfg.valid starts (starts.size + 1) {}
  ((r.1.map (fun x => (⟨x.2, none⟩ : Node S))).toArray, r.2)

/-- `RRT::solve` -/
def solve (cfg : Cfg S D) (starts : Array S) (script : List (Draw S)) : Report S D :=
  let init := initTree cfg starts
  if init.1.size = 0 then ⟨.invalidStart, none, init.1, init.2, none, script.length⟩
  else
    let r := loop cfg ⟨init.1, none, none, cfg.inf⟩ script
    let st := r.1
    let approximate := st.solution.isNone
    let sol := match st.solution with
      | some i => some i
      | none => st.approxsol
    match sol with
    | some i =>
      ⟨Status.ofFlags true approximate, some (pathTo st.tree (i + 1) i [], approximate, st.approxdif), st.tree,
        init.2, some i, r.2.length⟩
    | none => ⟨Status.ofFlags false approximate, none, st.tree, init.2, none, r.2.length⟩

/-- the problem definition after `solve` -/
def solveOn {P : Type} (cfg : Cfg S D) (mkPath : List S → P) (pd : Pdef S P D) (script : List (Draw S)) :
    Status × Pdef S P D :=
  let r := solve cfg pd.starts script
  match r.added with
  | some (path, approximate, dif) => (r.status, addSolutionPath cfg.zero pd (mkPath path) approximate dif)
  | none => (r.status, pd)

end OmplModel.RRT
