import OmplModel.Model.Space
/-
C06 model: `distance`, `getMaximumExtent`, `equalStates`, `satisfiesBounds` of every shipped state
space, by recursion on `Space α`, generic over `[Num α]`.  Core Lean only (linked into `drv_spacedist`).

Each clause is copied from the anchored C++ in the same operation order, so that the `Float`
instantiation reproduces the C++ result bit for bit:
  * RealVectorStateSpace.cpp   distance / equalStates / satisfiesBounds / getMaximumExtent
  * SO2StateSpace.cpp          (`fabs`, `(d > pi) ? 2.0*pi - d : d`)
  * SO3StateSpace.cpp          (`arcLength`: `fabs` of the dot product, the `1 - MAX_QUATERNION_NORM_ERROR`
                                clamp, `acos`; `norm`; `satisfiesBounds`)
  * TimeStateSpace.cpp, DiscreteStateSpace.cpp
  * StateSpace.cpp             CompoundStateSpace::{distance, getMaximumExtent, equalStates, satisfiesBounds}
                               (left folds starting at 0.0, in component order -> accumulator functions)
  * special/{Torus,Mobius,KleinBottle,Sphere}StateSpace.cpp
  * WrapperStateSpace.h        (inner space)

Abstractions:
  * `int` of DiscreteStateSpace is `Int` (no overflow modelled).
  * SphereStateSpace::distance computes in `float`; the operations it needs are not in `Num`, so it is a
    separate one-method class `SphereNum` (Float instance below: `Float32` arithmetic as coded;
    the ℝ instance in the proof file is the haversine formula).
  * ill-typed (space, state) pairs give `0` / `false`; the driver never evaluates them (`wellTyped`).
-/
namespace OmplModel.SpaceDist
open OmplModel

/-- `SphereStateSpace::distance(radius, θ₁, φ₁, θ₂, φ₂)` -/
class SphereNum (α : Type) where
  sphereDist : α → α → α → α → α → α

/-- the `float` haversine of SphereStateSpace.cpp, operation by operation:
`const float t1 = θ1; const float phi1 = φ1 - pi/2.0;` (double arithmetic, then narrowed),
`const float s = 0.5*(phi1-phi2)` (float subtraction, widened product, narrowed),
`sinf/cosf/sqrtf` on floats, then `2 * radius_ * asin((double)d)`. -/
def sphereDistFloat (r t1d p1d t2d p2d : Float) : Float :=
  let pi : Float := Num.pi
  let t1 : Float32 := t1d.toFloat32
  let phi1 : Float32 := (p1d - pi / 2.0).toFloat32
  let t2 : Float32 := t2d.toFloat32
  let phi2 : Float32 := (p2d - pi / 2.0).toFloat32
  let s : Float32 := (0.5 * (phi1 - phi2).toFloat).toFloat32
  let t : Float32 := (0.5 * (t1 - t2).toFloat).toFloat32
  let d : Float32 := Float32.sqrt (s.sin * s.sin + phi1.cos * phi2.cos * t.sin * t.sin)
  2.0 * r * Float.asin d.toFloat

instance : SphereNum Float := ⟨sphereDistFloat⟩

variable {α : Type} [Num α]

/-- `std::numeric_limits<double>::epsilon()` = 2⁻⁵² (exact in `Float` and in `ℝ`) -/
def eps : α := Num.ofNat 1 / Num.ofNat 4503599627370496
/-- `MAX_QUATERNION_NORM_ERROR = 1e-9` -/
def qErr : α := Num.ofDec 1 9
def two : α := Num.ofNat 2
def half : α := Num.ofNat 1 / Num.ofNat 2

/-! ### R^n -/
/-- `dist += diff*diff` in index order, starting from the accumulator -/
def rvSumSq : List α → List α → α → α
  | x :: xs, y :: ys, acc => rvSumSq xs ys (acc + (x - y) * (x - y))
  | _, _, acc => acc

def rvDist (xs ys : List α) : α := Num.sqrt (rvSumSq xs ys (Num.ofNat 0))

/-- `d = high - low; e += d*d`; `sqrt(e)` -/
def rvExtent (lo hi : List α) : α := Num.sqrt (rvSumSq hi lo (Num.ofNat 0))

def rvEqual : List α → List α → Bool
  | x :: xs, y :: ys => if eps * two < Num.abs (x - y) then false else rvEqual xs ys
  | _, _ => true

def rvInBounds : List α → List α → List α → Bool
  | x :: xs, l :: ls, h :: hs =>
    if h < x - eps || x + eps < l then false else rvInBounds xs ls hs
  | _, _, _ => true

/-! ### SO(2) -/
def so2Dist (a b : α) : α :=
  let d := Num.abs (a - b)
  if Num.pi < d then two * Num.pi - d else d

def so2Equal (a b : α) : Bool := Num.abs (a - b) < eps * two
def so2InBounds (v : α) : Bool := v < Num.pi && -Num.pi ≤ v

/-! ### SO(3) -/
def quatDot (x1 y1 z1 w1 x2 y2 z2 w2 : α) : α := x1 * x2 + y1 * y2 + z1 * z2 + w1 * w2

/-- `arcLength` as coded (with the clamp) -/
def so3Dist (x1 y1 z1 w1 x2 y2 z2 w2 : α) : α :=
  let dq := Num.abs (quatDot x1 y1 z1 w1 x2 y2 z2 w2)
  if Num.ofNat 1 - qErr < dq then Num.ofNat 0 else Num.acos dq

/-- the same without the clamp (what a metric on SO(3) would be) -/
def so3DistUnclamped (x1 y1 z1 w1 x2 y2 z2 w2 : α) : α :=
  Num.acos (Num.abs (quatDot x1 y1 z1 w1 x2 y2 z2 w2))

def so3Equal (x1 y1 z1 w1 x2 y2 z2 w2 : α) : Bool := so3Dist x1 y1 z1 w1 x2 y2 z2 w2 < eps

/-- `SO3StateSpace::norm` -/
def so3Norm (x y z w : α) : α :=
  let n2 := quatDot x y z w x y z w
  if eps < Num.abs (n2 - Num.ofNat 1) then Num.sqrt n2 else Num.ofNat 1

def so3InBounds (x y z w : α) : Bool := Num.abs (so3Norm x y z w - Num.ofNat 1) < qErr

/-! ### time, discrete -/
def timeDist (a b : α) : α := Num.abs (a - b)
def timeEqual (a b : α) : Bool := Num.abs (a - b) < eps * two
def timeInBounds (bounded : Bool) (lo hi p : α) : Bool := !bounded || (lo - eps ≤ p && p ≤ hi + eps)
def timeExtent (bounded : Bool) (lo hi : α) : α := if bounded then hi - lo else Num.ofNat 1

def discDist (a b : Int) : α := Num.ofInt (a - b).natAbs
def discExtent (lo hi : Int) : α := Num.ofInt (hi - lo)

/-! ### special spaces (compounds of two unit-weight components in the code) -/
/-- `CompoundStateSpace` left fold over two components of weight 1.0: `dist = 0.0; dist += 1.0*x; dist += 1.0*y` -/
def cmp2 (x y : α) : α := Num.ofNat 0 + Num.ofNat 1 * x + Num.ofNat 1 * y

def torusDist (u1 v1 u2 v2 : α) : α :=
  let x := so2Dist u1 u2
  let y := so2Dist v1 v2
  Num.sqrt (x * x + y * y)

/-- MobiusStateSpace::distance: `u` is the SO(2) component, `v` the R^1 component -/
def mobiusDist (u1 v1 u2 v2 : α) : α :=
  let diff := u2 - u1
  if Num.abs diff ≤ Num.pi then cmp2 (so2Dist u1 u2) (rvDist [v1] [v2])
  else
    let dist := Num.ofNat 0 + Num.ofNat 1 * so2Dist u1 u2
    let r2 := -v2
    dist + Num.sqrt ((r2 - v1) * (r2 - v1))

/-- KleinBottleStateSpace::distance: `u` is the R^1 component in [0, π], `v` the SO(2) component -/
def kleinDist (u1 v1 u2 v2 : α) : α :=
  let diffU := u2 - u1
  if Num.abs diffU ≤ half * Num.pi then cmp2 (rvDist [u1] [u2]) (so2Dist v1 v2)
  else
    let dU := Num.pi - Num.abs diffU
    let v2' := if Num.ofNat 0 < v2 then Num.pi - v2 else -Num.pi - v2
    let dV := Num.abs (v2' - v1)
    let dV := if Num.pi < dV then two * Num.pi - dV else dV
    dU + dV

/-! ### the four functions -/
mutual
/-- `distance` -/
def dist [SphereNum α] : Space α → St α → St α → α
  | .rv _ _, .rv xs, .rv ys => rvDist xs ys
  | .so2, .so2 a, .so2 b => so2Dist a b
  | .so3, .so3 x1 y1 z1 w1, .so3 x2 y2 z2 w2 => so3Dist x1 y1 z1 w1 x2 y2 z2 w2
  | .time .., .time a, .time b => timeDist a b
  | .disc .., .disc a, .disc b => discDist a b
  | .ccons w h t, .ccons a1 a2, .ccons b1 b2 => distAcc (Num.ofNat 0 + w * dist h a1 b1) t a2 b2
  | .torus _ _, .ccons (.so2 u1) (.ccons (.so2 v1) .cnil), .ccons (.so2 u2) (.ccons (.so2 v2) .cnil) =>
    torusDist u1 v1 u2 v2
  | .mobius _ _, .ccons (.so2 u1) (.ccons (.rv [v1]) .cnil), .ccons (.so2 u2) (.ccons (.rv [v2]) .cnil) =>
    mobiusDist u1 v1 u2 v2
  | .klein, .ccons (.rv [u1]) (.ccons (.so2 v1) .cnil), .ccons (.rv [u2]) (.ccons (.so2 v2) .cnil) =>
    kleinDist u1 v1 u2 v2
  | .sphere r, .ccons (.so2 t1) (.ccons (.rv [p1]) .cnil), .ccons (.so2 t2) (.ccons (.rv [p2]) .cnil) =>
    SphereNum.sphereDist r t1 p1 t2 p2
  | .wrap s, a, b => dist s a b
  | _, _, _ => Num.ofNat 0
/-- the rest of `CompoundStateSpace::distance`'s loop: `dist += weights_[i] * components_[i]->distance(..)` -/
def distAcc [SphereNum α] (acc : α) : Space α → St α → St α → α
  | .ccons w h t, .ccons a1 a2, .ccons b1 b2 => distAcc (acc + w * dist h a1 b1) t a2 b2
  | _, _, _ => acc
end

mutual
/-- `getMaximumExtent` (since bb83952a6, F360: the compound counts every POSITIVELY weighted component, as `distance`
does; the guard only avoids `0 · ∞`) -/
def maxExtent : Space α → α
  | .rv lo hi => rvExtent lo hi
  | .so2 => Num.pi
  | .so3 => half * Num.pi
  | .time b lo hi => timeExtent b lo hi
  | .disc lo hi => discExtent lo hi
  | .cnil => Num.ofNat 0
  | .ccons w h t => extentAcc (if Num.ofNat 0 < w then Num.ofNat 0 + w * maxExtent h else Num.ofNat 0) t
  | .torus _ _ => cmp2 Num.pi Num.pi
  | .mobius imax _ => cmp2 Num.pi (rvExtent [-imax] [imax])
  | .klein => cmp2 (rvExtent [Num.ofNat 0] [Num.pi]) Num.pi
  | .sphere r => Num.pi * r                         -- SphereStateSpace::getMaximumExtent (3ad69d0eb: `pi * radius_`)
  | .wrap s => maxExtent s
/-- `if (weights_[i] > 0.0) e += weights_[i] * components_[i]->getMaximumExtent()` -/
def extentAcc (acc : α) : Space α → α
  | .ccons w h t => extentAcc (if Num.ofNat 0 < w then acc + w * maxExtent h else acc) t
  | _ => acc
end

mutual
/-- the FORMER `getMaximumExtent` (before bb83952a6): `if (weights_[i] >= epsilon)` — a component with a weight in
`(0, 2⁻⁵²)` was dropped from the extent although `distance` counts it (F360).  Kept as the witness of the defect and for
trees under test that still have the old guard (the check selects the variant from the source text). -/
def maxExtentOld : Space α → α
  | .ccons w h t => extentAccOld (if eps ≤ w then Num.ofNat 0 + w * maxExtentOld h else Num.ofNat 0) t
  | .wrap s => maxExtentOld s
  | s => maxExtent s
def extentAccOld (acc : α) : Space α → α
  | .ccons w h t => extentAccOld (if eps ≤ w then acc + w * maxExtentOld h else acc) t
  | _ => acc
end

/-- `equalStates` -/
def equalStates : Space α → St α → St α → Bool
  | .rv _ _, .rv xs, .rv ys => rvEqual xs ys
  | .so2, .so2 a, .so2 b => so2Equal a b
  | .so3, .so3 x1 y1 z1 w1, .so3 x2 y2 z2 w2 => so3Equal x1 y1 z1 w1 x2 y2 z2 w2
  | .time .., .time a, .time b => timeEqual a b
  | .disc .., .disc a, .disc b => a == b
  | .cnil, .cnil, .cnil => true
  | .ccons _ h t, .ccons a1 a2, .ccons b1 b2 => equalStates h a1 b1 && equalStates t a2 b2
  | .torus _ _, .ccons (.so2 u1) (.ccons (.so2 v1) .cnil), .ccons (.so2 u2) (.ccons (.so2 v2) .cnil) =>
    so2Equal u1 u2 && so2Equal v1 v2
  | .mobius _ _, .ccons (.so2 u1) (.ccons (.rv [v1]) .cnil), .ccons (.so2 u2) (.ccons (.rv [v2]) .cnil) =>
    so2Equal u1 u2 && rvEqual [v1] [v2]
  | .klein, .ccons (.rv [u1]) (.ccons (.so2 v1) .cnil), .ccons (.rv [u2]) (.ccons (.so2 v2) .cnil) =>
    rvEqual [u1] [u2] && so2Equal v1 v2
  | .sphere _, .ccons (.so2 t1) (.ccons (.rv [p1]) .cnil), .ccons (.so2 t2) (.ccons (.rv [p2]) .cnil) =>
    so2Equal t1 t2 && rvEqual [p1] [p2]
  | .wrap s, a, b => equalStates s a b
  | _, _, _ => false

/-- `satisfiesBounds` -/
def satisfiesBounds : Space α → St α → Bool
  | .rv lo hi, .rv xs => rvInBounds xs lo hi
  | .so2, .so2 v => so2InBounds v
  | .so3, .so3 x y z w => so3InBounds x y z w
  | .time b lo hi, .time p => timeInBounds b lo hi p
  | .disc lo hi, .disc v => decide (lo ≤ v) && decide (v ≤ hi)
  | .cnil, .cnil => true
  | .ccons _ h t, .ccons a1 a2 => satisfiesBounds h a1 && satisfiesBounds t a2
  | .torus _ _, .ccons (.so2 u) (.ccons (.so2 v) .cnil) => so2InBounds u && so2InBounds v
  | .mobius imax _, .ccons (.so2 u) (.ccons (.rv [v]) .cnil) => so2InBounds u && rvInBounds [v] [-imax] [imax]
  | .klein, .ccons (.rv [u]) (.ccons (.so2 v) .cnil) => rvInBounds [u] [Num.ofNat 0] [Num.pi] && so2InBounds v
  | .sphere _, .ccons (.so2 t) (.ccons (.rv [p]) .cnil) => so2InBounds t && rvInBounds [p] [Num.ofNat 0] [Num.pi]
  | .wrap s, a => satisfiesBounds s a
  | _, _ => false

/-- `isMetricSpace()` as the code computes it: the shipped leaf spaces inherit `true`, Möbius and Klein
bottle override it to `false` (their distances violate the triangle inequality: `mobius_triangle_fails`,
`klein_triangle_fails`), compounds take the conjunction, wrappers forward.  (`hasSymmetricDistance()` is the
base-class `true` for every modelled space.) -/
def claimsMetric : Space α → Bool
  | .ccons _ h t => claimsMetric h && claimsMetric t
  | .wrap s => claimsMetric s
  | .mobius _ _ => false
  | .klein => false
  | _ => true

end OmplModel.SpaceDist
