import OmplModel.Model.Heap
/-
Model of `ompl::Grid<_T>`, `ompl::GridN<_T>` and `ompl::GridB<_T, LessThanExternal, LessThanInternal>`
(src/ompl/datastructures/Grid.h, GridN.h, GridB.h).

Core Lean only (no Mathlib): this file is linked into the native driver `drv_grid`.

What mirrors the code
* `neighborCoords` / `neighbors`: the loop `for i = dim-1 … 0 { coord[i]-1 ; coord[i]+1 }`, in that order.
* `bfs` / `componentsLoop` / `components`: the queue of `components()` with its index (`done` is `q[0..index)`,
  `todo` is `q[index..)`), the duplicate-erasing `else` branch, the `ch` map (only its key set matters), and
  the final sort by decreasing size.
* `touchCreate` / `touchRemove`: the bodies of the neighbour loops of `GridB::createCell` / `GridB::remove`
  (counter, border flip, update event, heap update or migration) statement by statement; `newCell` is
  `createCell` + "user sets data" + `add` (the protocol of `Discretization::addMotion`); `removeCell` is
  `remove` (+ `destroyCell`, which only frees memory); `update`, `updateAll`, `clear`, `topInternal`,
  `topExternal`, `countInternal`, `countExternal`.
* the two heaps are the heap model of C11 (`OmplModel.Heap`), with keys `(data, cell id)` compared on the data
  only; `Cell.helem` is the `heapElement` back-pointer (a handle of that heap model).

Abstractions (checked by the correspondence run, not assumed silently)
* `hash_` is an association list in insertion order.  The hash function is used through equality only; the
  iteration order of `unordered_map` shows in `components()` (order of equal-sized components, order inside
  a component) and nowhere else, and both sides print components canonically (plus the raw size sequence).
* the heaps of the code hold `CellX*` and compare `a->data`; the model heaps hold a *copy* of the data.
  The two agree as long as the data of a cell changes only (a) in the update event, (b) by the user right
  before `update(cell)`, (c) by the user right before `updateAll()` -- the protocol of the harness and of
  KPIECE's `Discretization` (whose compared field `importance` is written by the event only).
* `std::sort` (unstable) is a stable merge sort; only the size sequence and the canonical partition are printed.
* `unsigned int neighbors` is a `Nat`; the decrement wraps like the C++ one (`decr`), the increment does not
  (2^32 neighbours are not reachable).  Coordinates are unbounded `Int` (the code: `int`; the check keeps
  them within ±2^30 so that `coord ± 1` cannot overflow).
* `topInternal` / `topExternal` follow the code *with the F3 repair* (test `empty()` before dereferencing
  `top()`); on the unrepaired code the call on an empty side is a null dereference (notes/C13.md).
* `bfs` has a second, never-true disjunct in its duplicate test ("the coordinate is not in the grid"): queue
  entries always come out of `hash_`.  It makes the definition total without fuel (`bfs_guard_irrelevant`
  in Proofs/GridComponents shows it never fires).
-/
namespace OmplModel.Grid
open OmplModel.Heap

abbrev Coord := List Int

structure Cell where
  id : Nat
  coord : Coord
  data : Int
  /-- `GridN::Cell::neighbors` -/
  nbrs : Nat := 0
  /-- `GridN::Cell::border` -/
  border : Bool := true
  /-- `GridB::CellX::heapElement`, as a handle of the heap model -/
  helem : Nat := 0
deriving Repr, Inhabited

/-! ### `Grid` -/

/-- the coordinates `Grid::neighbors` probes, in the order it probes them. -/
def neighborCoords (dim : Nat) (x : Coord) : List Coord :=
  (List.range dim).reverse.flatMap fun i => [x.set i (x.getD i 0 - 1), x.set i (x.getD i 0 + 1)]

/-- `Grid::getCell` -/
def getCell (cells : List Cell) (x : Coord) : Option Cell := cells.find? (fun c => c.coord == x)

/-- `Grid::has` -/
def has (cells : List Cell) (x : Coord) : Bool := (getCell cells x).isSome

/-- `Grid::neighbors(coord, list)` -/
def neighbors (dim : Nat) (cells : List Cell) (x : Coord) : List Cell :=
  (neighborCoords dim x).filterMap (getCell cells)

/-- `Grid::add`: `unordered_map::insert` does nothing when the key is present. -/
def addCell (cells : List Cell) (c : Cell) : List Cell :=
  if has cells c.coord then cells else cells ++ [c]

/-- `hash_.erase(hash_.find(&coord))` -/
def eraseCoord (cells : List Cell) (x : Coord) : List Cell := cells.filter (fun c => !(c.coord == x))

/-- number of cells whose coordinate is not yet a key of `ch`. -/
def unvisited (cells : List Cell) (vis : List Coord) : Nat :=
  cells.countP (fun c => !vis.contains c.coord)

theorem countP_lt_of_imp {α} (p q : α → Bool) (l : List α) (himp : ∀ a ∈ l, q a = true → p a = true)
    (hex : ∃ a ∈ l, p a = true ∧ q a = false) : l.countP q < l.countP p := by
  induction l with
  | nil => obtain ⟨a, ha, _⟩ := hex; cases ha
  | cons c cs ih =>
    have hmono : cs.countP q ≤ cs.countP p :=
      List.countP_mono_left (fun a ha h => himp a (List.mem_cons_of_mem _ ha) h)
    simp only [List.countP_cons]
    obtain ⟨a, ha, hpa, hqa⟩ := hex
    rcases List.mem_cons.1 ha with rfl | ha'
    · simp [hpa, hqa]; omega
    · have := ih (fun a ha h => himp a (List.mem_cons_of_mem _ ha) h) ⟨a, ha', hpa, hqa⟩
      have h1 := himp c List.mem_cons_self
      by_cases hq : q c = true
      · simp [hq, h1 hq]; omega
      · by_cases hp : p c = true
        · simp [hq, hp]; omega
        · simp [hq, hp]; omega

theorem unvisited_cons_lt (cells : List Cell) (vis : List Coord) (x : Coord)
    (hx : vis.contains x = false) (hc : cells.any (fun c => c.coord == x) = true) :
    unvisited cells (x :: vis) < unvisited cells vis := by
  unfold unvisited
  apply countP_lt_of_imp
  · intro a _ h
    simp only [List.contains_cons, Bool.not_eq_true', Bool.or_eq_false_iff] at h
    simpa using h.2
  · obtain ⟨c, hcm, hcx⟩ := List.any_eq_true.1 hc
    have : c.coord = x := by simpa using hcx
    subst this
    refine ⟨c, hcm, ?_, by simp⟩
    simpa using hx

/-- the `while (index < q.size())` loop of `components()`.  `done = q[0..index)`, `todo = q[index..)`,
`vis` = keys of `ch`.  Returns the finished component and the new key set. -/
def bfs (dim : Nat) (cells : List Cell) (done todo : List Cell) (vis : List Coord) :
    List Cell × List Coord :=
  match todo with
  | [] => (done, vis)
  | c :: rest =>
    if h : (vis.contains c.coord || !(cells.any (fun d => d.coord == c.coord))) = true then
      -- `--index; q.erase(q.begin() + index)`
      bfs dim cells done rest vis
    else
      -- `ch.insert(c)`; push the neighbours that are not in `ch`
      bfs dim cells (done ++ [c])
        (rest ++ (neighbors dim cells c.coord).filter (fun n => !(c.coord :: vis).contains n.coord))
        (c.coord :: vis)
termination_by (unvisited cells vis, todo.length)
decreasing_by
  · exact Prod.Lex.right _ (by simp)
  · apply Prod.Lex.left
    simp only [Bool.or_eq_true, Bool.not_eq_true', not_or, Bool.not_eq_true, Bool.not_eq_false] at h
    exact unvisited_cons_lt cells vis c.coord h.1 h.2

/-- the outer `for (auto &i : hash_)` loop of `components()`. -/
def componentsLoop (dim : Nat) (cells : List Cell) :
    List Cell → List Coord → List (List Cell) → List (List Cell)
  | [], _, res => res
  | c0 :: rest, vis, res =>
    if vis.contains c0.coord then componentsLoop dim cells rest vis res
    else
      let r := bfs dim cells [] [c0] vis
      componentsLoop dim cells rest r.2 (res ++ [r.1])

/-- `Grid::components()` -/
def components (dim : Nat) (cells : List Cell) : List (List Cell) :=
  (componentsLoop dim cells cells [] []).mergeSort (fun a b => decide (a.length ≥ b.length))

/-! ### `GridN` / `GridB` -/

structure Cfg where
  dim : Nat
  /-- `setBounds(low, up)`; `none` = `hasBounds_ == false` -/
  bounds : Option (Coord × Coord) := none
  /-- `interiorCellNeighborsLimit_` (default `2 * dim`) -/
  limit : Nat
  /-- `LessThanExternal`, `LessThanInternal` -/
  ltE : Int → Int → Bool
  ltI : Int → Int → Bool
  /-- `eventCellUpdate_`: the new data of the cell (the event sees the whole cell) -/
  ev : Cell → Int

abbrev Key := Int × Nat

def Cfg.kltE (cfg : Cfg) : Key → Key → Bool := fun a b => cfg.ltE a.1 b.1
def Cfg.kltI (cfg : Cfg) : Key → Key → Bool := fun a b => cfg.ltI a.1 b.1

/-- `GridN::numberOfBoundaryDimensions` -/
def boundaryDims (cfg : Cfg) (x : Coord) : Nat :=
  match cfg.bounds with
  | none => 0
  | some (lo, up) =>
    (List.range cfg.dim).countP fun i => x.getD i 0 == lo.getD i 0 || x.getD i 0 == up.getD i 0

/-- `c->neighbors--` on an `unsigned int` -/
def decr (n : Nat) : Nat := if n = 0 then 4294967295 else n - 1

structure GridB where
  /-- `hash_` -/
  cells : List Cell := []
  internal : Heap Key := {}
  external : Heap Key := {}
  nextId : Nat := 0

/-- write through the cell pointer -/
def setCell (cells : List Cell) (c : Cell) : List Cell :=
  cells.map (fun d => if d.coord == c.coord then c else d)

def Cell.key (c : Cell) : Key := (c.data, c.id)

/-- body of the neighbour loop of `GridB::createCell`, for the neighbour at coordinate `x`. -/
def touchCreate (cfg : Cfg) (g : GridB) (x : Coord) : GridB :=
  match getCell g.cells x with
  | none => g
  | some c =>
    let wasBorder := c.border
    let n := c.nbrs + 1
    let c1 : Cell := { c with nbrs := n, border := if c.border && decide (n ≥ cfg.limit) then false else c.border }
    let c2 : Cell := { c1 with data := cfg.ev c1 }
    if c2.border then
      { g with cells := setCell g.cells c2, external := g.external.setKey cfg.kltE c2.helem c2.key }
    else if wasBorder then
      let c3 : Cell := { c2 with helem := g.internal.next }
      { g with cells := setCell g.cells c3
               external := g.external.remove cfg.kltE c2.helem
               internal := g.internal.insert cfg.kltI c3.key }
    else
      { g with cells := setCell g.cells c2, internal := g.internal.setKey cfg.kltI c2.helem c2.key }

/-- body of the neighbour loop of `GridB::remove`. -/
def touchRemove (cfg : Cfg) (g : GridB) (x : Coord) : GridB :=
  match getCell g.cells x with
  | none => g
  | some c =>
    let wasBorder := c.border
    let n := decr c.nbrs
    let c1 : Cell := { c with nbrs := n, border := if !c.border && decide (n < cfg.limit) then true else c.border }
    let c2 : Cell := { c1 with data := cfg.ev c1 }
    if c2.border then
      if wasBorder then
        { g with cells := setCell g.cells c2, external := g.external.setKey cfg.kltE c2.helem c2.key }
      else
        let c3 : Cell := { c2 with helem := g.external.next }
        { g with cells := setCell g.cells c3
                 internal := g.internal.remove cfg.kltI c2.helem
                 external := g.external.insert cfg.kltE c3.key }
    else
      { g with cells := setCell g.cells c2, internal := g.internal.setKey cfg.kltI c2.helem c2.key }

/-- `createCell(x)`, `cell->data = d`, `add(cell)`. -/
def newCell (cfg : Cfg) (g : GridB) (x : Coord) (d : Int) : GridB :=
  -- createCell
  let nb := neighbors cfg.dim g.cells x
  let g1 := (nb.map (·.coord)).foldl (touchCreate cfg) g
  let n := boundaryDims cfg x + nb.length
  let c0 : Cell := { id := g.nextId, coord := x, data := d, nbrs := n, border := !decide (n ≥ cfg.limit) }
  -- add: event, Grid::add, heap insert
  let c1 : Cell := { c0 with data := cfg.ev c0 }
  if c1.border then
    let c2 : Cell := { c1 with helem := g1.external.next }
    { g1 with cells := addCell g1.cells c2, external := g1.external.insert cfg.kltE c2.key, nextId := g.nextId + 1 }
  else
    let c2 : Cell := { c1 with helem := g1.internal.next }
    { g1 with cells := addCell g1.cells c2, internal := g1.internal.insert cfg.kltI c2.key, nextId := g.nextId + 1 }

/-- `remove(cell)` for the cell at `x` (then `destroyCell`).  Returns the code's `bool` as well. -/
def removeCell (cfg : Cfg) (g : GridB) (x : Coord) : GridB × Bool :=
  let nb := neighbors cfg.dim g.cells x
  let g1 := (nb.map (·.coord)).foldl (touchRemove cfg) g
  match getCell g1.cells x with
  | none => (g1, false)
  | some cx =>
    if cx.border then
      ({ g1 with cells := eraseCoord g1.cells x, external := g1.external.remove cfg.kltE cx.helem }, true)
    else
      ({ g1 with cells := eraseCoord g1.cells x, internal := g1.internal.remove cfg.kltI cx.helem }, true)

/-- the user writes `cell->data = d` and calls `update(cell)`. -/
def update (cfg : Cfg) (g : GridB) (x : Coord) (d : Int) : GridB :=
  match getCell g.cells x with
  | none => g
  | some c =>
    let c1 : Cell := { c with data := d }
    let c2 : Cell := { c1 with data := cfg.ev c1 }
    if c2.border then
      { g with cells := setCell g.cells c2, external := g.external.setKey cfg.kltE c2.helem c2.key }
    else
      { g with cells := setCell g.cells c2, internal := g.internal.setKey cfg.kltI c2.helem c2.key }

/-- the user writes the data of some cells (by coordinate), then calls `updateAll()`. -/
def pokeData (cells : List Cell) : List (Coord × Int) → List Cell
  | [] => cells
  | (x, d) :: rest =>
    match getCell cells x with
    | some c => pokeData (setCell cells { c with data := d }) rest
    | none => pokeData cells rest

def updateAll (cfg : Cfg) (g : GridB) (chg : List (Coord × Int)) : GridB :=
  let cells := (pokeData g.cells chg).map (fun c => { c with data := cfg.ev c })
  { g with cells := cells
           external := g.external.pokeRebuild cfg.kltE ((cells.filter (·.border)).map (fun c => (c.helem, c.key)))
           internal := g.internal.pokeRebuild cfg.kltI ((cells.filter (!·.border)).map (fun c => (c.helem, c.key))) }

def clear (g : GridB) : GridB :=
  { g with cells := [], internal := g.internal.clear, external := g.external.clear }

def countInternal (g : GridB) : Nat := g.internal.arr.size
def countExternal (g : GridB) : Nat := g.external.arr.size

/-- `topInternal()` with the F3 repair: the top of the internal heap, of the external one if the internal
heap is empty, `none` (`nullptr`) if both are. -/
def topInternal (g : GridB) : Option Nat :=
  match g.internal.top with
  | some e => some e.key.2
  | none => g.external.top.map (·.key.2)

def topExternal (g : GridB) : Option Nat :=
  match g.external.top with
  | some e => some e.key.2
  | none => g.internal.top.map (·.key.2)

/-! ### protocol histories -/

/-- the alphabet of "every history of cells created, added and removed": what a protocol-following user
(`Discretization`) does. -/
inductive Op where
  | new (x : Coord) (d : Int)
  | rm (x : Coord)
  | upd (x : Coord) (d : Int)
  | updAll (chg : List (Coord × Int))
  | clear

/-- one protocol step: `createCell`+`add` only for an absent coordinate, `remove` only for a present cell. -/
def step (cfg : Cfg) (g : GridB) : Op → GridB
  | .new x d => if has g.cells x then g else newCell cfg g x d
  | .rm x => if has g.cells x then (removeCell cfg g x).1 else g
  | .upd x d => update cfg g x d
  | .updAll chg => updateAll cfg g chg
  | .clear => clear g

def run (cfg : Cfg) (ops : List Op) : GridB := ops.foldl (step cfg) {}

end OmplModel.Grid
