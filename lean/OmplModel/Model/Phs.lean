import OmplModel.Model.Num
/-
Model of informed sampling (C15):
* `ompl::ProlateHyperspheroid` (src/ompl/util/src/ProlateHyperspheroid.cpp),
* `prolateHyperspheroidMeasure` / `unitNBallMeasure` (src/ompl/util/src/GeometricEquations.cpp),
* the decision logic of `PathLengthDirectInfSampler`, `RejectionInfSampler`, `OrderedInfSampler`
  (src/ompl/base/samplers/informed/src/*.cpp) as a function of their raw draws / oracle answers.

Core Lean only; generic over `[Num α]` (run at `Float` by `drv_phs`, proved at `ℝ`).

Abstractions (each is checked by the correspondence run or named in notes/C15.md):
* the rotation `R` (Eigen JacobiSVD solution of a Wahba problem) is a PARAMETER: a list of column
  vectors.  The check verifies `RᵀR ≈ I`, `R e₁ ≈ (f₂-f₁)/cmin` numerically per instance.
* Eigen's reductions (`norm()`, matrix*vector) are modelled as left-to-right sums; the comparison
  with the code is therefore at 1e-12 relative, not bit-exact (the bit-exact rate is logged).
* `std::tgamma(N/2+1)` is the half-integer recurrence `gammaHalf`; `std::pow(√π, N)` is a repeated
  product (`Num` has no `pow`/`tgamma`).
* `uniformInBall`: the radius scale `r·U^(1/n)` is treated as the raw draw (`ballPoint`).
* the samplers' loops consume one `Draw` record per iteration (fields a branch does not use are
  ignored); `satisfiesBounds` is an oracle `inB`; the uninformed (rotation) part is an opaque `ρ`.
* `Cost` is its `double`; `isCostBetterThan a b = a < b`, `betterCost a b = if a < b then a else b`,
  `infiniteCost` as the start of a running minimum is dropped (the minimum starts at the first
  candidate; equal unless a candidate is NaN).
-/
namespace OmplModel.Phs
open OmplModel

variable {α : Type} [Num α]

/-! ## vectors as lists -/
def vadd (a b : List α) : List α := List.zipWith (· + ·) a b
def vsub (a b : List α) : List α := List.zipWith (· - ·) a b
def vscale (k : α) (a : List α) : List α := a.map (k * ·)
def sumSq (a : List α) : α := a.foldl (fun s x => s + x * x) (Num.ofNat 0)
def vnorm (a : List α) : α := Num.sqrt (sumSq a)
def half : α := Num.ofDec 5 1
def zeros (n : Nat) : List α := List.replicate n (Num.ofNat 0)

def ceq (a b : α) : Bool := decide (a ≤ b) && decide (b ≤ a)     -- `==` on doubles (false for NaN)

/-! ## GeometricEquations.cpp -/

/-- `Γ(n/2 + 1)`: `Γ(1) = 1`, `Γ(3/2) = √π/2`, `Γ(x+1) = x Γ(x)`. -/
def gammaHalf : Nat → α
  | 0 => Num.ofNat 1
  | 1 => Num.sqrt Num.pi / Num.ofNat 2
  | n + 2 => (Num.ofNat (n + 2) / Num.ofNat 2) * gammaHalf n

def powNat (x : α) : Nat → α
  | 0 => Num.ofNat 1
  | n + 1 => powNat x n * x

/-- `unitNBallMeasure(N) = pow(sqrt(pi), N) / tgamma(N/2 + 1)` -/
def unitNBallMeasure (n : Nat) : α := powNat (Num.sqrt (Num.pi : α)) n / gammaHalf n

/-- `nBallMeasure(N, r) = pow(sqrt(pi) * r, N) / tgamma(N/2 + 1)` -/
def nBallMeasure (n : Nat) (r : α) : α := powNat (Num.sqrt (Num.pi : α) * r) n / gammaHalf n

/-- the loop `for i = 1 .. N-1: lmeas = lmeas * conjugateDiameter / 2.0` -/
def radiiLoop (conj : α) : Nat → α → α
  | 0, l => l
  | k + 1, l => radiiLoop conj k (l * conj / Num.ofNat 2)

/-- `prolateHyperspheroidMeasure(N, dFoci, dTransverse)`; `none` = the exception. -/
def phsMeasure (n : Nat) (dFoci dTrans : α) : Option α :=
  if dTrans < dFoci then none
  else
    let conj := Num.sqrt (dTrans * dTrans - dFoci * dFoci)
    some (radiiLoop conj (n - 1) (dTrans / Num.ofNat 2) * unitNBallMeasure n)

def phsMeasureD (n : Nat) (dFoci dTrans : α) : α := (phsMeasure n dFoci dTrans).getD (Num.ofNat 0)

/-! ## ProlateHyperspheroid -/

structure Phs (α : Type) where
  id : Nat
  dim : Nat
  f1 : List α
  f2 : List α
  cmin : α                 -- minTransverseDiameter_
  centre : List α
  rot : List (List α)      -- columns of rotationWorldFromEllipse_ (parameter)
  c : α                    -- transverseDiameter_
  upToDate : Bool
  measure : α              -- phsMeasure_

/-- constructor: `cmin = (f1 - f2).norm()`, `centre = 0.5 * (f1 + f2)`; the rotation is supplied. -/
def Phs.mk' (id : Nat) (f1 f2 : List α) (rot : List (List α)) : Phs α :=
  { id := id, dim := f1.length, f1 := f1, f2 := f2, cmin := vnorm (vsub f1 f2),
    centre := vscale half (vadd f1 f2), rot := rot, c := Num.ofNat 0, upToDate := false,
    measure := Num.ofNat 0 }

/-- The rotation in dimension 2, computed by the model itself: `updateRotation` solves a Wahba problem by SVD and
forces `det = +1`; in the plane the proper rotation whose first column is the unit focal axis `a = (f2 - f1)/cmin`
is unique: columns `(a₀, a₁)` and `(-a₁, a₀)`.  (For n ≥ 3 the remaining columns are not unique and `rot` stays a
parameter whose hypotheses are checked per instance.) -/
def rot2 (f1 f2 : List α) : List (List α) :=
  let cmin := vnorm (vsub f1 f2)
  match (vsub f2 f1).map (· / cmin) with
  | [a0, a1] => [[a0, a1], [-a1, a0]]
  | _ => []

/-- identity matrix as a list of unit columns -/
def identityRot (n : Nat) : List (List α) :=
  (List.range n).map (fun j => (List.range n).map (fun i => if i = j then Num.ofNat 1 else Num.ofNat 0))

/-- `circleTol = 1E-9` of `updateRotation` -/
def circleTol : α := Num.ofDec 1 9

/-- constructor incl. the branch structure of `updateRotation`: if the foci are closer than `circleTol` the PHS is
treated as a circle and the rotation is the identity; otherwise the (SVD) rotation is the supplied parameter — in
dimension 2 the model's own `rot2`. -/
def Phs.mkAuto (id : Nat) (f1 f2 : List α) (rot : List (List α)) : Phs α :=
  let cmin := vnorm (vsub f1 f2)
  if cmin < circleTol then Phs.mk' id f1 f2 (identityRot f1.length)
  else Phs.mk' id f1 f2 rot

/-- conjugate radius `sqrt(c² - cmin²) / 2` -/
def conjRadius (c cmin : α) : α := Num.sqrt (c * c - cmin * cmin) / Num.ofNat 2

/-- the diagonal: first entry the transverse radius `0.5 * c`, all others the conjugate radius -/
def diagOf (n : Nat) (c cmin : α) : List α :=
  match n with
  | 0 => []
  | k + 1 => (half * c) :: List.replicate k (conjRadius c cmin)

/-- `updateTransformation` after storing `c` (no check) -/
def Phs.setC (p : Phs α) (c : α) : Phs α :=
  { p with c := c, upToDate := true, measure := phsMeasureD p.dim p.cmin c }

/-- `setTransverseDiameter`: throws for `c < cmin` -/
def Phs.setTransverseDiameter (p : Phs α) (c : α) : Option (Phs α) :=
  if c < p.cmin then none else some (p.setC c)

/-- `Σ_j (col_j * d_j) * u_j`, accumulated left to right from `acc` -/
def linComb : List (List α) → List α → List α → List α → List α
  | col :: cols, d :: ds, u :: us, acc => linComb cols ds us (vadd acc (col.map (fun r => r * d * u)))
  | _, _, _, acc => acc

/-- `transform(sphere, phs)`: `T * u`, then `+= centre`; `none` when the transform is not up to date -/
def Phs.transform (p : Phs α) (u : List α) : Option (List α) :=
  if p.upToDate then
    some (vadd (linComb p.rot (diagOf p.dim p.c p.cmin) u (zeros p.dim)) p.centre)
  else none

/-- `getPathLength(point) = (f1 - x).norm() + (x - f2).norm()` -/
def Phs.pathLength (p : Phs α) (x : List α) : α := vnorm (vsub p.f1 x) + vnorm (vsub x p.f2)

/-- `isInPhs`: strict `<` -/
def Phs.isIn (p : Phs α) (x : List α) : Bool := decide (p.pathLength x < p.c)
/-- `isOnPhs`: `==` -/
def Phs.isOn (p : Phs α) (x : List α) : Bool := ceq (p.pathLength x) p.c

/-- `uniformInBall(1, v)` given the direction and the radius scale -/
def ballPoint (dir : List α) (radiusScale : α) : List α := dir.map (radiusScale * ·)

/-- `RNG::uniformInBall(r, v)` as coded: the ball's dimension is `v.size()`; `dir` is what `uniformNormalVector(v)` wrote
(a unit vector of that size), `u` the `uniformReal(0,1)` draw; `radiusScale = r * pow(u, 1.0 / v.size())`.  `root n u`
stands for `pow(u, 1.0/n)` (`Num` has no `pow`; the driver instantiates it with `Float.pow`). -/
def uniformInBall (root : Nat → α → α) (r : α) (dir : List α) (u : α) : List α :=
  ballPoint dir (r * root dir.length u)

/-- `RNG::uniformProlateHyperspheroid(phs, value)` as coded: a fresh vector of size `phs->getDimension()` is filled by
`uniformInBall(1.0, ·)` and transformed — the ball's dimension IS the PHS dimension, and nothing but this call's draws
enters the result.  `none`: the supplied direction does not have the PHS's dimension (or the transform is not set). -/
def uniformPhs (root : Nat → α → α) (p : Phs α) (dir : List α) (u : α) : Option (List α) :=
  if dir.length = p.dim then p.transform (uniformInBall root (Num.ofNat 1) dir u) else none

/-- a sequence of `uniformProlateHyperspheroid` calls on possibly DIFFERENT PHSs (different dimensions), each with its own
draws: the i-th result -/
def uniformPhsRun (root : Nat → α → α) : List (Phs α × List α × α) → List (Option (List α))
  | [] => []
  | (p, dir, u) :: rest => uniformPhs root p dir u :: uniformPhsRun root rest

/-! ## PathLengthDirectInfSampler -/

structure Sampler (α : Type) where
  phss : List (Phs α)          -- listPhsPtrs_
  summed : α                   -- summedMeasure_
  numIters : Nat               -- numIters_
  infMeasure : α               -- informedSubSpace_->getMeasure()
  unMeasure : Option α         -- uninformedSubSpace_->getMeasure() when the space is compound
  spaceMeasure : α             -- space_->getMeasure()
  all : List (Phs α) := []     -- allPhsPtrs_ (fix 09980379c, F36): every PHS built at construction

def better (a b : α) : α := if a < b then a else b       -- betterCost
def minOf : List α → Option α
  | [] => none
  | x :: xs => some (xs.foldl better x)

/-- `heuristicSolnCost` of the direct sampler: best focal sum over the PHSs still in the list -/
def Sampler.hcost (s : Sampler α) (x : List α) : Option α := minOf (s.phss.map (·.pathLength x))

def Sampler.numIn (s : Sampler α) (x : List α) : Nat := (s.phss.filter (·.isIn x)).length
def Sampler.isInAny (s : Sampler α) (x : List α) : Bool := s.phss.any (·.isIn x)

/-- the walk of `updatePhsDefinitions`: `sz` is the current `listPhsPtrs_.size()` -/
def updLoop (c : α) : List (Phs α) → List (Phs α) → Nat → α → List (Phs α) × α
  | [], done, _, sum => (done.reverse, sum)
  | p :: rest, done, sz, sum =>
    if p.cmin < c then
      let p' := p.setC c
      updLoop c rest (p' :: done) sz (sum + p'.measure)
    else if 1 < sz then updLoop c rest done (sz - 1) sum
    else updLoop c rest (p.setC p.cmin :: done) sz (Num.ofNat 0)

def Sampler.update (s : Sampler α) (c : α) : Sampler α :=
  let r := updLoop c s.phss [] s.phss.length (Num.ofNat 0)
  { s with phss := r.1, summed := r.2 }

/-- the repair proposed for F36 (notes/C15-fix-F36.diff): `updatePhsDefinitions` first restores the full list of PHSs
built at construction (`all`), then walks it as before — the result no longer depends on earlier bounds -/
def Sampler.updateRestoring (s : Sampler α) (all : List (Phs α)) (c : α) : Sampler α :=
  ({ s with phss := all }).update c

/-- `informedSubSpace_->getMeasure() < summedMeasure_ / listPhsPtrs_.size()` -/
def Sampler.useBoundsBranch (s : Sampler α) : Bool :=
  decide (s.infMeasure < s.summed / Num.ofNat s.phss.length)

/-- `randomPhsPtr`: `none` = the null pointer the C++ loop can fall through to -/
def pickLoop (summed r : α) : List (Phs α) → α → Option (Phs α)
  | [], _ => none
  | p :: rest, run =>
    let run' := run + p.measure / summed
    if r < run' then some p else pickLoop summed r rest run'

def Sampler.randomPhs (s : Sampler α) (r : α) : Option (Phs α) :=
  match s.phss with
  | [p] => some p
  | ps => pickLoop s.summed r ps (Num.ofNat 0)

/-- `keepSample`: with one PHS always keep; else `randDbl <= 1.0 / numIn` -/
def Sampler.keep (s : Sampler α) (x : List α) (r : α) : Bool :=
  if 1 < s.phss.length then decide (r ≤ Num.ofNat 1 / Num.ofNat (s.numIn x)) else true

/-- `getInformedMeasure(currentCost)` -/
def Sampler.informedMeasure (s : Sampler α) (c : α) : α :=
  let m := s.phss.foldl (fun acc p => if p.cmin < c then acc + phsMeasureD p.dim p.cmin c else acc) (Num.ofNat 0)
  let m := match s.unMeasure with
    | some u => m * u
    | none => m
  Num.min s.spaceMeasure m

/-- one loop iteration's worth of raw draws -/
structure Draw (α ρ : Type) where
  baseInf : List α      -- base sampler draw, informed part
  baseRest : ρ          -- base sampler draw, the rest
  r1 : α                -- randomPhsPtr's uniform01
  ball : List α         -- uniformInBall(1, ·)
  r2 : α                -- keepSample's uniform01
  rot : ρ               -- uninformed sub-sampler draw (createFullState)

structure Out (α ρ : Type) where
  found : Bool
  st : List α × ρ       -- content of *statePtr
  iters : Nat
  rest : List (Draw α ρ)
  starved : Bool        -- the draw list ran out while the loop still wanted to iterate
  nullPhs : Bool := false

variable {ρ : Type}

/-- `while (!found && *iters < numIters_) { base draw; found = test; ++*iters }` — the loop shared by
`sampleBoundsRejectPhs` (`test = isInAnyPhs`) and `RejectionInfSampler` (`test = h < maxCost`). -/
def rejectLoop (test : List α × ρ → Bool) (lim : Nat) :
    List (Draw α ρ) → List α × ρ → Nat → Out α ρ
  | [], cur, it => ⟨false, cur, it, [], decide (it < lim), false⟩
  | d :: ds, cur, it =>
    if it < lim then
      if test (d.baseInf, d.baseRest) then ⟨true, (d.baseInf, d.baseRest), it + 1, ds, false, false⟩
      else rejectLoop test lim ds (d.baseInf, d.baseRest) (it + 1)
    else ⟨false, cur, it, d :: ds, false, false⟩

/-- `samplePhsRejectBounds` (as fixed by 74ee9605c, finding F34): a kept sample must satisfy the bounds AND
(after the rounding of the transform) still lie in some PHS:
`foundSample = space_->satisfiesBounds(statePtr) && isInAnyPhs(informedVector)`. -/
def phsRejectBounds (s : Sampler α) (inB : List α × ρ → Bool) (lim : Nat) :
    List (Draw α ρ) → List α × ρ → Nat → Out α ρ
  | [], cur, it => ⟨false, cur, it, [], decide (it < lim), false⟩
  | d :: ds, cur, it =>
    if it < lim then
      match s.randomPhs d.r1 with
      | none => ⟨false, cur, it, ds, false, true⟩
      | some p =>
        match p.transform d.ball with
        | none => ⟨false, cur, it, ds, false, true⟩
        | some x =>
          if s.keep x d.r2 then
            if inB (x, d.rot) && s.isInAny x then ⟨true, (x, d.rot), it + 1, ds, false, false⟩
            else phsRejectBounds s inB lim ds (x, d.rot) (it + 1)
          else phsRejectBounds s inB lim ds cur (it + 1)
    else ⟨false, cur, it, d :: ds, false, false⟩

/-- `samplePhsRejectBounds` BEFORE the fix (F34): only `satisfiesBounds` was tested.  Kept for the witness
`direct_old_phs_branch_fails`; not used by the sampler model. -/
def phsRejectBoundsOld (s : Sampler α) (inB : List α × ρ → Bool) (lim : Nat) :
    List (Draw α ρ) → List α × ρ → Nat → Out α ρ
  | [], cur, it => ⟨false, cur, it, [], decide (it < lim), false⟩
  | d :: ds, cur, it =>
    if it < lim then
      match s.randomPhs d.r1 with
      | none => ⟨false, cur, it, ds, false, true⟩
      | some p =>
        match p.transform d.ball with
        | none => ⟨false, cur, it, ds, false, true⟩
        | some x =>
          if s.keep x d.r2 then
            if inB (x, d.rot) then ⟨true, (x, d.rot), it + 1, ds, false, false⟩
            else phsRejectBoundsOld s inB lim ds (x, d.rot) (it + 1)
          else phsRejectBoundsOld s inB lim ds cur (it + 1)
    else ⟨false, cur, it, d :: ds, false, false⟩

/-- private `sampleUniform(statePtr, maxCost, iters)`; `fin = isFinite(maxCost)`.  Returns the updated
sampler too (the PHS list is mutated by `updatePhsDefinitions`). -/
def Sampler.sampleInner (s : Sampler α) (inB : List α × ρ → Bool) (fin : Bool) (c : α)
    (ds : List (Draw α ρ)) (cur : List α × ρ) (it : Nat) : Sampler α × Out α ρ :=
  if !fin then
    match ds with
    | [] => (s, ⟨false, cur, it, [], true, false⟩)
    | d :: ds => (s, ⟨true, (d.baseInf, d.baseRest), it + 1, ds, false, false⟩)
  else
    let s' := s.update c
    if s'.useBoundsBranch then (s', rejectLoop (fun st => s'.isInAny st.1) s'.numIters ds cur it)
    else (s', phsRejectBounds s' inB s'.numIters ds cur it)

/-- after `updatePhsDefinitions`: exactly one PHS is left and its focal distance is not below the bound — no PHS can
improve on `c` (the degenerate branch set its diameter to its own focal distance) -/
def Sampler.cannotImprove (s' : Sampler α) (c : α) : Bool :=
  match s'.phss with
  | [p] => !(decide (p.cmin < c))
  | _ => false

/-- the repair proposed for F130 (notes/C15-fix-F130.diff): the private `sampleUniform` returns false right after
`updatePhsDefinitions` when no PHS can improve on `maxCost`, instead of sampling the focal segment -/
def Sampler.sampleInnerFixed (s : Sampler α) (inB : List α × ρ → Bool) (fin : Bool) (c : α)
    (ds : List (Draw α ρ)) (cur : List α × ρ) (it : Nat) : Sampler α × Out α ρ :=
  if fin && (s.update c).cannotImprove c then (s.update c, ⟨false, cur, it, ds, false, false⟩)
  else s.sampleInner inB fin c ds cur it

/-- public `sampleUniform(statePtr, maxCost)` (code before F36/F130: building block and `_old_` witness) -/
def Sampler.sample2 (s : Sampler α) (inB : List α × ρ → Bool) (fin : Bool) (c : α)
    (ds : List (Draw α ρ)) (cur : List α × ρ) : Sampler α × Out α ρ :=
  s.sampleInner inB fin c ds cur 0

/-- `isCostEquivalentTo(minCost, sc) || isCostBetterThan(minCost, sc)` -/
def lowerOk (minC sc : α) : Bool :=
  (!(decide (minC < sc)) && !(decide (sc < minC))) || decide (minC < sc)

/-- public `sampleUniform(statePtr, minCost, maxCost)`:
`for (i = 0; i < numIters_ && !found; ++i) { found = inner(&i); if (found) found = lowerOk(minCost, h(state)); }`
`inner` is any function that does not move the counter backwards (guarded by the `if`). -/
def outer3 (lim : Nat) (inner : List (Draw α ρ) → List α × ρ → Nat → Out α ρ)
    (hc : List α × ρ → Option α) (minC : α) (ds : List (Draw α ρ)) (cur : List α × ρ) (i : Nat) : Out α ρ :=
  if h : i < lim then
    let r := inner ds cur i
    let ok := r.found && (match hc r.st with
      | some sc => lowerOk minC sc
      | none => false)
    if ok || r.starved || r.nullPhs then { r with found := ok }
    else
      let i' := if r.iters < i then i else r.iters
      outer3 lim inner hc minC r.rest r.st (i' + 1)
  else ⟨false, cur, i, ds, false, false⟩
termination_by lim - i
decreasing_by
  all_goals simp_wf
  all_goals (split <;> omega)

def Sampler.sample3 (s : Sampler α) (inB : List α × ρ → Bool) (fin : Bool) (minC c : α)
    (ds : List (Draw α ρ)) (cur : List α × ρ) : Sampler α × Out α ρ :=
  -- the PHS definitions depend on `c` only, so the update is the same in every outer iteration
  let s' := if fin then s.update c else s
  (s', outer3 s.numIters (fun ds cur i => (s.sampleInner inB fin c ds cur i).2)
        (fun st => s'.hcost st.1) minC ds cur 0)

/-! ### The sampler as it is coded NOW (fixes 09980379c = F36 and 5852532a8 = F130)

`update`, `hcost`, `informedMeasure`, `sampleInner`, `sample2`, `sample3` above/below are the building blocks and at the
same time the code BEFORE those two fixes (kept for the `_old_` witnesses).  The `…G restore degfix` versions select, per
fix, whether it is present in the tree under test (the check detects this in the source); `…F = …G true true` is the
current code: `updatePhsDefinitions` first restores `listPhsPtrs_` from `allPhsPtrs_`; `heuristicSolnCost` and
`getInformedMeasure` run over `allPhsPtrs_`; the private `sampleUniform` returns false right after the update when the one
PHS left cannot improve on `maxCost`. -/

/-- `listPhsPtrs_ = allPhsPtrs_` -/
def Sampler.restored (s : Sampler α) : Sampler α := { s with phss := s.all }

def Sampler.pre (restore : Bool) (s : Sampler α) : Sampler α := if restore then s.restored else s

def Sampler.updateG (restore : Bool) (s : Sampler α) (c : α) : Sampler α := (s.pre restore).update c

def Sampler.hcostG (restore : Bool) (s : Sampler α) (x : List α) : Option α :=
  if restore then minOf (s.all.map (·.pathLength x)) else s.hcost x

def Sampler.informedMeasureG (restore : Bool) (s : Sampler α) (c : α) : α :=
  if restore then s.restored.informedMeasure c else s.informedMeasure c

def Sampler.sampleInnerG (restore degfix : Bool) (s : Sampler α) (inB : List α × ρ → Bool) (fin : Bool) (c : α)
    (ds : List (Draw α ρ)) (cur : List α × ρ) (it : Nat) : Sampler α × Out α ρ :=
  if degfix && fin && ((s.pre restore).update c).cannotImprove c then
    ((s.pre restore).update c, ⟨false, cur, it, ds, false, false⟩)
  else (s.pre restore).sampleInner inB fin c ds cur it

def Sampler.sample2G (restore degfix : Bool) (s : Sampler α) (inB : List α × ρ → Bool) (fin : Bool) (c : α)
    (ds : List (Draw α ρ)) (cur : List α × ρ) : Sampler α × Out α ρ :=
  s.sampleInnerG restore degfix inB fin c ds cur 0

def Sampler.sample3G (restore degfix : Bool) (s : Sampler α) (inB : List α × ρ → Bool) (fin : Bool) (minC c : α)
    (ds : List (Draw α ρ)) (cur : List α × ρ) : Sampler α × Out α ρ :=
  let s' := if fin then s.updateG restore c else s
  (s', outer3 s.numIters (fun ds cur i => (s.sampleInnerG restore degfix inB fin c ds cur i).2)
        (fun st => s'.hcostG restore st.1) minC ds cur 0)

/-- the current code -/
def Sampler.updateF (s : Sampler α) (c : α) : Sampler α := s.updateG true c
def Sampler.hcostF (s : Sampler α) (x : List α) : Option α := s.hcostG true x
def Sampler.informedMeasureF (s : Sampler α) (c : α) : α := s.informedMeasureG true c
def Sampler.sample2F (s : Sampler α) (inB : List α × ρ → Bool) (fin : Bool) (c : α)
    (ds : List (Draw α ρ)) (cur : List α × ρ) : Sampler α × Out α ρ := s.sample2G true true inB fin c ds cur
def Sampler.sample3F (s : Sampler α) (inB : List α × ρ → Bool) (fin : Bool) (minC c : α)
    (ds : List (Draw α ρ)) (cur : List α × ρ) : Sampler α × Out α ρ := s.sample3G true true inB fin minC c ds cur

/-! ## RejectionInfSampler -/

/-- private `sampleUniform(statePtr, maxCost, iterPtr)`: `h` is `InformedSampler::heuristicSolnCost` -/
def rejInner (h : List α × ρ → α) (lim : Nat) (c : α) (ds : List (Draw α ρ)) (cur : List α × ρ) (it : Nat) :
    Out α ρ :=
  rejectLoop (fun st => decide (h st < c)) lim ds cur it

def rejSample2 (h : List α × ρ → α) (lim : Nat) (c : α) (ds : List (Draw α ρ)) (cur : List α × ρ) : Out α ρ :=
  rejInner h lim c ds cur 0

def rejSample3 (h : List α × ρ → α) (lim : Nat) (minC c : α) (ds : List (Draw α ρ)) (cur : List α × ρ) : Out α ρ :=
  outer3 lim (rejInner h lim c) (fun st => some (h st)) minC ds cur 0

/-- `InformedSampler::heuristicSolnCost` for a path-length objective on Rⁿ with a `GoalStates` goal:
`min_i (‖s_i - x‖ + max(min_j ‖x - g_j‖ - threshold, 0))` -/
def baseHeuristic (starts goals : List (List α)) (thr : α) (x : List α) : Option α :=
  match minOf (goals.map (fun g => vnorm (vsub x g))) with
  | none => none
  | some dg =>
    let togo := Num.max (dg - thr) (Num.ofNat 0)
    minOf (starts.map (fun s => vnorm (vsub s x) + togo))

/-! ## InformedStateSampler (the `StateSampler` wrapper planners use) -/

/-- `InformedStateSampler::sampleUniform(statePtr)`: call the informed sampler with the current best cost; if it
reports failure, draw a regular sample from the base sampler instead.  `o` is the informed sampler's outcome on the
draw stream; the fallback consumes the base part of the next draw.  Result: `(state, draws left, informedSuccess)`;
`none` = the stream ran out. -/
def informedStateSample (o : Out α ρ) : Option ((List α × ρ) × List (Draw α ρ) × Bool) :=
  if o.found then some (o.st, o.rest, true)
  else
    match o.rest with
    | [] => none
    | d :: ds => some ((d.baseInf, d.baseRest), ds, false)

/-! ## OrderedInfSampler -/

/-- index of the first element with the smallest key (`top()` of the priority queue; ties are
implementation-defined in C++ and do not occur for continuous draws) -/
def argBest (h : σ → α) : List σ → Option σ
  | [] => none
  | x :: xs => some (xs.foldl (fun b y => if h y < h b then y else b) x)

/-- one wrapped call: `(returned flag, state left in the pointer)`. -/
abbrev Wrapped (σ : Type) := Bool × σ

/-- outcome of `OrderedInfSampler::sampleUniform(statePtr, maxCost)` -/
inductive OrdRes (σ : Type) where
  | found (t : σ) (q : List σ)   -- returned true with `t`; `q` = the queue `t` was the top of
  | failed                       -- returned false: a whole batch of wrapped calls failed
  | starved                      -- the `while (!found)` loop did not finish within the supplied batches

/-- `OrderedInfSampler::sampleUniform(statePtr, maxCost)` on an empty queue, as fixed by 4bc34ddf9 (F35) and
d1f394c05 (F144), given the batches the wrapped sampler would produce: `createBatch` keeps a sample only if the
wrapped `sampleUniform` returned true; an empty queue after `createBatch` returns false; a top that fails the cost test
clears the batch and — the batch being fresh, created by this very call for this `maxCost` — returns false (only the
first supplied batch is ever used). -/
def orderedSample (h : σ → α) (c : α) : List (List (Wrapped σ)) → OrdRes σ
  | [] => .starved
  | b :: _ =>
    let q := (b.filter (·.1)).map (·.2)
    match argBest h q with
    | none => .failed
    | some t => if h t < c then .found t q else .failed

/-- the same BEFORE d1f394c05 (F144): a top that fails the cost test cleared the batch and LOOPED to draw another one —
for ever when no sample can beat `maxCost`.  Kept for `ordered_old_loops`. -/
def orderedSampleLoop (h : σ → α) (c : α) : List (List (Wrapped σ)) → OrdRes σ
  | [] => .starved
  | b :: bs =>
    let q := (b.filter (·.1)).map (·.2)
    match argBest h q with
    | none => .failed
    | some t => if h t < c then .found t q else orderedSampleLoop h c bs

/-- `OrderedInfSampler::sampleUniform` BEFORE the fix (F35): `createBatch` IGNORED the wrapped flag and
there was no failure return.  `none`: the loop did not finish within the supplied batches.  Kept for
the witness `ordered_old_sound_fails`. -/
def orderedSampleOld (h : σ → α) (c : α) : List (List (Wrapped σ)) → Option (σ × List σ)
  | [] => none
  | b :: bs =>
    let q := b.map (·.2)
    match argBest h q with
    | none => orderedSampleOld h c bs
    | some t => if h t < c then some (t, q) else orderedSampleOld h c bs

/-! ### OrderedInfSampler with its persistent queue -/

/-- `top()` + `pop()` of the priority queue: the first element of smallest cost and the queue without it -/
def popBest (h : σ → α) : List σ → Option (σ × List σ)
  | [] => none
  | x :: xs =>
    match popBest h xs with
    | none => some (x, [])
    | some (b, rest) => if h b < h x then some (b, x :: rest) else some (x, xs)

inductive OrdOut (σ S : Type) where
  | found (t : σ) (q : List σ) (s : S)    -- returned true with `t`; `q` = the queue left; `s` = wrapped sampler state
  | failed (s : S)                        -- returned false: a whole batch of wrapped calls failed
  | starved                               -- fuel / draws ran out

/-- `createBatch(maxCost)` then the first pass of the loop with `freshBatch = true`: empty queue → false; best below the
bound → pop and true; else `clearBatch()` and, the batch being fresh, false. -/
def orderedFresh {S : Type} (h : σ → α) (c : α) (mk : S → Option (List (Wrapped σ) × S)) (s : S) : OrdOut σ S :=
  match mk s with
  | none => .starved
  | some (b, s') =>
    match popBest h ((b.filter (·.1)).map (·.2)) with
    | none => .failed s'
    | some (t, rest) => if h t < c then .found t rest s' else .failed s'

/-- `OrderedInfSampler::sampleUniform(statePtr, maxCost)` as fixed by 4bc34ddf9 (F35) and d1f394c05 (F144), a state
machine over its queue `q` and the wrapped sampler's state `s`; `mk s` is `createBatch`: `batchSize_` wrapped calls.
```
freshBatch = false;
while (!found) { if (empty) { createBatch; freshBatch = true; if (empty) return false; }
                 if (h(top) < maxCost) { pop; return true; } else { clearBatch; if (freshBatch) return false; } }
```
A queued (stale) batch whose best fails the bound is cleared and ONE fresh batch is drawn; the loop needs no fuel. -/
def orderedRun {S : Type} (h : σ → α) (c : α) (mk : S → Option (List (Wrapped σ) × S)) (q : List σ) (s : S) :
    OrdOut σ S :=
  match popBest h q with
  | none => orderedFresh h c mk s
  | some (t, rest) => if h t < c then .found t rest s else orderedFresh h c mk s

/-- the loop BEFORE d1f394c05 (F144): no `freshBatch`; a failing top clears the batch and loops.  `fuel` bounds the
number of loop passes the model follows; `.starved` = still looping after `fuel` passes. -/
def orderedRunOld {S : Type} (h : σ → α) (c : α) (mk : S → Option (List (Wrapped σ) × S)) :
    Nat → List σ → S → OrdOut σ S
  | 0, _, _ => .starved
  | fuel + 1, q, s =>
    match q with
    | [] =>
      match mk s with
      | none => .starved
      | some (b, s') =>
        match popBest h ((b.filter (·.1)).map (·.2)) with
        | none => .failed s'
        | some (t, rest) => if h t < c then .found t rest s' else orderedRunOld h c mk fuel [] s'
    | _ :: _ =>
      match popBest h q with
      | none => .starved
      | some (t, rest) => if h t < c then .found t rest s else orderedRunOld h c mk fuel [] s

end OmplModel.Phs
