/-
Executable model of `ompl::control::PDST::solve` / `propagateFrom` / `addMotion` / `findDurationAndAncestor` /
`Cell::subdivide` / `Cell::stab` (src/ompl/control/planners/pdst/src/PDST.cpp, PDST.h), with the priority queue
as the heap model of C11 (`Model/Heap.lean`, by import).

Core Lean only.  PDST's tree is *not* append-only: a motion is a segment (start state, end state, control,
number of steps, priority, parent, cell); `addMotion` cuts a segment at the first cell boundary it crosses —
the head becomes a new `isSplit_` motion that shares the control *object* and takes over the old parent, the
tail keeps its identity but gets a new start state, a shorter duration and the head as parent; new motions start
at a random point *inside* their parent's segment.  The reported path is reconstructed afterwards by
`findDurationAndAncestor`, which walks parents, re-propagates segments step by step and identifies states by
`si_->distance(a, b) < numeric_limits<float>::epsilon()` (`P.close`).  All of this is modelled as coded,
including two things a reader might not expect:
* the scan loop of `addMotion` is `for (i = 0; i < motion->controlDuration_ - 1; ++i)` and `controlDuration_`
  shrinks at a split, so at most ONE split happens per call (the loop ends early; the tail may still span
  several cells);
* `lastGoalMotion_` / `isApproximate` bookkeeping: an exact hit sets `isApproximate = false` and breaks; a closer
  motion only replaces `lastGoalMotion_` (the class of seeded change C02-s1), and — since fix fc68fdba5 (F160) — only
  while `isApproximate` still holds (`iterOld`/`runOld`/`resumeOld` keep the former, unguarded code for the witness).

Oracles / parameters: system (`step`, `valid`), `dist`/`close`, goal, projection, the planner's RNG as an abstract
machine (`rng01`, `rngInt1 g hi = uniformInt(1, hi)`); per iteration the script gives the sampled state and the
(control, step count) draws of `sampleTo`.  Control *identity* (`ctl` : the pointer) is a number: fresh per
`propagateFrom`, copied by splits, `none` for start motions.  Heap keys are copies of `score() = priority /
cell volume`; every score change in the code is followed by `priorityQueue_.update/insert` of that motion before
the next heap operation, so the copies are exact (as in the GridB model).
-/
import OmplModel.Model.CRRT
import OmplModel.Model.Heap
import OmplModel.Model.Num
namespace OmplModel.CPDST
open OmplModel OmplModel.Control OmplModel.CRRT OmplModel.Heap

structure Problem (S U α ρ : Type) where
  step : S → U → S
  valid : S → Bool
  dist : S → S → α
  /-- `si_->distance(a, b) < std::numeric_limits<float>::epsilon()` -/
  close : S → S → Bool
  inf : α
  goal : S → Bool × α
  goalSample : S
  goalSampleable : Bool
  canSample : Bool
  goalBias : α
  minSteps : Nat
  /-- `projectionEvaluator_->project` and its bounds -/
  project : S → Array α
  ndim : Nat
  lo : Array α
  hi : Array α
  rng01 : ρ → α × ρ
  rngInt1 : ρ → Nat → Nat × ρ

structure Draw (S U : Type) where
  sample : S
  ctl : List (U × Nat)

structure PMotion (S U α : Type) where
  start : S
  stop : S
  /-- `control_` (value) and its identity (`none` = nullptr) -/
  control : Option U
  ctl : Option Nat
  dur : Nat
  priority : α
  parent : Option Nat
  cell : Nat
  helem : Option Nat
  isSplit : Bool

structure Cell (α : Type) where
  volume : α
  splitDim : Nat
  splitValue : α
  kids : Option (Nat × Nat)
  lo : Array α
  hi : Array α
  motions : List Nat

abbrev Key (α : Type) := α × Nat

structure St (S U α ρ : Type) where
  motions : Array (PMotion S U α)
  cells : Array (Cell α)
  heap : Heap (Key α)
  rng : ρ
  /-- `iteration_` -/
  iteration : Nat
  nextCtl : Nat
  lastGoal : Option Nat
  closest : α
  isApprox : Bool

variable {S U α ρ : Type} [Num α]

def klt : Key α → Key α → Bool := fun a b => decide (a.1 < b.1)

def g0 (a : Array α) (i : Nat) : α := a.getD i (Num.ofNat 0)

/-- `Cell::stab`, from cell `c` (fuel = number of cells) -/
def stab (cells : Array (Cell α)) (proj : Array α) : Nat → Nat → Nat
  | 0, c => c
  | fuel + 1, c =>
    match cells[c]? with
    | none => c
    | some cl =>
      match cl.kids with
      | none => c
      | some (l, r) => if g0 proj cl.splitDim ≤ cl.splitValue then stab cells proj fuel l else stab cells proj fuel r

/-- `score() = priority_ / cell_->volume_` -/
def score (st : St S U α ρ) (m : PMotion S U α) : α :=
  match st.cells[m.cell]? with
  | some c => m.priority / c.volume
  | none => m.priority

/-- `cell->addMotion(motion); updateHeapElement(motion)` for motion `i` -/
def enter (st : St S U α ρ) (i : Nat) (c : Nat) : St S U α ρ :=
  match st.motions[i]? with
  | none => st
  | some m =>
    let cells := st.cells.modify c fun cl => { cl with motions := cl.motions ++ [i] }
    let m1 := { m with cell := c }
    let st1 := { st with cells := cells, motions := st.motions.setIfInBounds i m1 }
    match m.helem with
    | some h => { st1 with heap := st1.heap.setKey klt h (score st1 m1, i) }
    | none =>
      { st1 with motions := st1.motions.setIfInBounds i { m1 with helem := some st1.heap.next },
                 heap := st1.heap.insert klt (score st1 m1, i) }

/-- the scan loop of `PDST::addMotion` for motion `i` below cell `bsp`.  `cnt` is the loop counter `i` of the
code, `dn` its `duration`, `prev` = `prevState`, `prevCell` the cell of `prev`.  Fuel bounds the iterations. -/
def scan (P : Problem S U α ρ) (bsp : Nat) (i : Nat) :
    Nat → Nat → Nat → S → Option Nat → St S U α ρ → St S U α ρ × Option Nat
  | 0, _, _, _, prevCell, st => (st, prevCell)
  | fuel + 1, cnt, dn, prev, prevCell, st =>
    match st.motions[i]? with
    | none => (st, prevCell)
    | some m =>
      if cnt < m.dur - 1 then
        match m.control with
        | none => (st, prevCell)
        | some u =>
          let state := P.step prev u
          let cell := stab st.cells (P.project state) st.cells.size bsp
          let sp : St S U α ρ × Nat :=
            if dn > 0 && prevCell != some cell then
              -- head piece: (start, prev], shares the control object, takes the old parent; enters `prevCell`
              let ni := st.motions.size
              let head : PMotion S U α :=
                { start := m.start, stop := prev, control := m.control, ctl := m.ctl, dur := dn, priority := m.priority,
                  parent := m.parent, cell := prevCell.getD 0, helem := none, isSplit := true }
              let st1 := { st with motions := st.motions.push head }
              let st2 := enter st1 ni (prevCell.getD 0)
              let st3 := { st2 with motions := st2.motions.modify i fun mm =>
                            { mm with start := prev, dur := mm.dur - dn, parent := some ni } }
              (st3, 0)
            else (st, dn)
          scan P bsp i fuel (cnt + 1) (sp.2 + 1) state (some cell) sp.1
      else (st, prevCell)

/-- `PDST::addMotion(motion, bsp, …)` -/
def addMotion (P : Problem S U α ρ) (st : St S U α ρ) (i : Nat) (bsp : Nat) : St S U α ρ :=
  match st.motions[i]? with
  | none => st
  | some m =>
    if m.dur ≤ 1 then enter st i (stab st.cells (P.project m.stop) st.cells.size bsp)
    else
      let r := scan P bsp i m.dur 0 0 m.start none st
      enter r.1 i (r.2.getD bsp)

/-- `Cell::subdivide(ndim)` for cell `c`; its motion list is taken out (`motions.swap`) -/
def subdivide (P : Problem S U α ρ) (st : St S U α ρ) (c : Nat) : St S U α ρ × List Nat :=
  match st.cells[c]? with
  | none => (st, [])
  | some cl =>
    let child := Num.ofDec 5 1 * cl.volume
    let nd := (cl.splitDim + 1) % P.ndim
    let sv := Num.ofDec 5 1 * (g0 cl.lo cl.splitDim + g0 cl.hi cl.splitDim)
    let l := st.cells.size
    let left : Cell α := { volume := child, splitDim := nd, splitValue := Num.ofNat 0, kids := none, lo := cl.lo,
                           hi := cl.hi.setIfInBounds cl.splitDim sv, motions := [] }
    let right : Cell α := { left with lo := cl.lo.setIfInBounds cl.splitDim sv, hi := cl.hi }
    let cells := ((st.cells.setIfInBounds c { cl with splitValue := sv, kids := some (l, l + 1), motions := [] }).push left).push right
    ({ st with cells := cells }, cl.motions)

/-- `findDurationAndAncestor(motion, state, scratch, ancestor)`: number of steps from the start of the (split
chain) ancestor to `state`, and that ancestor.  Fuel bounds the parent walk. -/
def chainUp (ms : Array (PMotion S U α)) : Nat → Nat → Nat → Nat × Nat
  | 0, a, d => (d, a)
  | fuel + 1, a, d =>
    match ms[a]? with
    | none => (d, a)
    | some m =>
      match m.parent with
      | none => (d, a)
      | some p =>
        match ms[p]? with
        | none => (d, a)
        | some pm => if m.ctl == pm.ctl then chainUp ms fuel p (d + pm.dur) else (d, a)

def searchSteps (P : Problem S U α ρ) (u : U) (state : S) (dur : Nat) : Nat → Nat → S → Nat
  | 0, d, _ => d
  | fuel + 1, d, scratch =>
    if d ≤ dur then
      let s := P.step scratch u
      if P.close s state then d else searchSteps P u state dur fuel (d + 1) s
    else d

def findDA (P : Problem S U α ρ) (ms : Array (PMotion S U α)) (state : S) : Nat → Nat → Option (Nat × Nat)
  | 0, _ => none
  | fuel + 1, mi =>
    match ms[mi]? with
    | none => none
    | some m =>
      let d : Nat :=
        if m.dur == 0 || P.close m.stop state then m.dur
        else if m.dur > 0 && P.close m.start state then 0
        else match m.control with
          | some u => searchSteps P u state m.dur (m.dur + 1) 1 m.start
          | none => m.dur + 1
      if d ≤ m.dur then some (chainUp ms ms.size mi d)
      else
        match m.parent with
        | none => none          -- null dereference in the code
        | some p => findDA P ms state fuel p

/-- the path assembly of `solve`: `(states, controls, step counts)` -/
def assembleLoop (P : Problem S U α ρ) (ms : Array (PMotion S U α)) :
    Nat → Nat → List Nat → List Nat → Option (List Nat × List Nat)
  | 0, _, _, _ => none
  | fuel + 1, m, durs, mpath =>
    match ms[m]? with
    | none => none
    | some mm =>
      match mm.parent with
      | none => some (durs, mpath)
      | some p =>
        match findDA P ms mm.start ms.size p with
        | none => none
        | some (d, a) => assembleLoop P ms fuel a (durs ++ [d]) (mpath ++ [a])

def assemble (P : Problem S U α ρ) (ms : Array (PMotion S U α)) (last : Nat) : Option (Path S U) :=
  match ms[last]? with
  | none => none
  | some lm =>
    match findDA P ms lm.stop ms.size last with
    | none => none
    | some (d0, a0) =>
      match assembleLoop P ms ms.size a0 [d0] [a0] with
      | none => none
      | some (durs, mpath) =>
        let n := mpath.length
        match mpath.getLast? >>= (ms[·]?) with
        | none => none
        | some root =>
          -- for (i = n-2; i > 0; --i) append(mpath[i-1]->startState_, mpath[i]->control_, durations[i]*dt)
          let mids := ((List.range n).filter fun i => 0 < i && i + 1 < n).reverse
          let seg := mids.filterMap fun i =>
            match mpath[i - 1]? >>= (ms[·]?), mpath[i]? >>= (ms[·]?), durs[i]? with
            | some a, some b, some d => b.control.map fun u => (a.start, u, d)
            | _, _, _ => none
          -- append(lastGoalMotion_->endState_, mpath[0]->control_, durations[0]*dt)
          let lastSeg := match ms[a0]? >>= (·.control) with
            | some u => [(lm.stop, u, d0)]
            | none => []
          let all := seg ++ lastSeg
          some { states := root.stop :: all.map (·.1), controls := all.map (·.2.1), steps := all.map (·.2.2) }

inductive Flow where
  | cont | done | halt
deriving DecidableEq, Repr

/-- one iteration of `while (!ptc)` -/
def iter (P : Problem S U α ρ) (st0 : St S U α ρ) (d : Draw S U) : St S U α ρ × Flow :=
  match st0.heap.top with
  | none => (st0, .halt)
  | some e =>
    let sel := e.key.2
    match st0.motions[sel]? with
    | none => (st0, .halt)
    | some m0 =>
      -- motionSelected->updatePriority(); priorityQueue_.update(…)
      let m := { m0 with priority := m0.priority * Num.ofNat 2 + Num.ofNat 1 }
      let stA := { st0 with motions := st0.motions.setIfInBounds sel m }
      let st := match m.helem with
        | some h => { stA with heap := stA.heap.setKey klt h (score stA m, sel) }
        | none => stA
      -- propagateFrom
      let pd : Nat × ρ := if m.dur > 1 then P.rngInt1 st.rng m.dur else (m.dur, st.rng)
      let start : S :=
        if pd.1 == m.dur then m.stop
        else match m.control with
          | some u => propagate P.step m.start u pd.1
          | none => m.stop
      let gb : Bool × ρ :=
        if P.goalSampleable then
          let r := P.rng01 pd.2
          (decide (r.1 < P.goalBias) && P.canSample, r.2)
        else (false, pd.2)
      let st1 := { st with rng := gb.2 }
      let rnd := if gb.1 then P.goalSample else d.sample
      match sampleTo P.step P.valid P.dist (fun a b => decide (a < b)) start rnd d.ctl with
      | none => (st1, .cont)
      | some (u, dur, reached) =>
        if dur < P.minSteps then (st1, .cont)
        else
          let ni := st1.motions.size
          let it := st1.iteration + 1
          let nm : PMotion S U α :=
            { start := start, stop := reached, control := some u, ctl := some st1.nextCtl, dur := dur,
              priority := Num.ofNat it, parent := some sel, cell := 0, helem := none, isSplit := false }
          let st2 := { st1 with motions := st1.motions.push nm, iteration := it, nextCtl := st1.nextCtl + 1 }
          let st3 := addMotion P st2 ni 0
          let g := P.goal reached
          if g.1 then ({ st3 with closest := g.2, lastGoal := some ni, isApprox := false }, .done)
          else
            -- `else if (isApproximate && distanceToGoal < closestDistanceToGoal)` (guard added by fix fc68fdba5, F160)
            let st4 := if st3.isApprox && decide (g.2 < st3.closest) then { st3 with closest := g.2, lastGoal := some ni } else st3
            -- subdivide the selected motion's cell and re-insert its motions
            match st4.motions[sel]? with
            | none => (st4, .halt)
            | some ms =>
              let sd := subdivide P st4 ms.cell
              (sd.2.foldl (fun s i => addMotion P s i ms.cell) sd.1, .cont)

/-- one iteration of the loop **before fix fc68fdba5** (finding F160): the closest-motion branch is not guarded by
`isApproximate`.  Kept for the witness `pdst_resume_exact_goal_fails`. -/
def iterOld (P : Problem S U α ρ) (st0 : St S U α ρ) (d : Draw S U) : St S U α ρ × Flow :=
  match st0.heap.top with
  | none => (st0, .halt)
  | some e =>
    let sel := e.key.2
    match st0.motions[sel]? with
    | none => (st0, .halt)
    | some m0 =>
      -- motionSelected->updatePriority(); priorityQueue_.update(…)
      let m := { m0 with priority := m0.priority * Num.ofNat 2 + Num.ofNat 1 }
      let stA := { st0 with motions := st0.motions.setIfInBounds sel m }
      let st := match m.helem with
        | some h => { stA with heap := stA.heap.setKey klt h (score stA m, sel) }
        | none => stA
      -- propagateFrom
      let pd : Nat × ρ := if m.dur > 1 then P.rngInt1 st.rng m.dur else (m.dur, st.rng)
      let start : S :=
        if pd.1 == m.dur then m.stop
        else match m.control with
          | some u => propagate P.step m.start u pd.1
          | none => m.stop
      let gb : Bool × ρ :=
        if P.goalSampleable then
          let r := P.rng01 pd.2
          (decide (r.1 < P.goalBias) && P.canSample, r.2)
        else (false, pd.2)
      let st1 := { st with rng := gb.2 }
      let rnd := if gb.1 then P.goalSample else d.sample
      match sampleTo P.step P.valid P.dist (fun a b => decide (a < b)) start rnd d.ctl with
      | none => (st1, .cont)
      | some (u, dur, reached) =>
        if dur < P.minSteps then (st1, .cont)
        else
          let ni := st1.motions.size
          let it := st1.iteration + 1
          let nm : PMotion S U α :=
            { start := start, stop := reached, control := some u, ctl := some st1.nextCtl, dur := dur,
              priority := Num.ofNat it, parent := some sel, cell := 0, helem := none, isSplit := false }
          let st2 := { st1 with motions := st1.motions.push nm, iteration := it, nextCtl := st1.nextCtl + 1 }
          let st3 := addMotion P st2 ni 0
          let g := P.goal reached
          if g.1 then ({ st3 with closest := g.2, lastGoal := some ni, isApprox := false }, .done)
          else
            let st4 := if g.2 < st3.closest then { st3 with closest := g.2, lastGoal := some ni } else st3
            -- subdivide the selected motion's cell and re-insert its motions
            match st4.motions[sel]? with
            | none => (st4, .halt)
            | some ms =>
              let sd := subdivide P st4 ms.cell
              (sd.2.foldl (fun s i => addMotion P s i ms.cell) sd.1, .cont)

def run (P : Problem S U α ρ) : St S U α ρ → List (Draw S U) → St S U α ρ
  | st, [] => st
  | st, d :: ds =>
    match iter P st d with
    | (st', .cont) => run P st' ds
    | (st', _) => st'

structure Result (S U α ρ : Type) where
  status : Status
  dif : α
  path : Option (Path S U)
  final : St S U α ρ

def init (P : Problem S U α ρ) (g : ρ) (starts : List S) : St S U α ρ :=
  (starts.filter P.valid).foldl
    (fun st s =>
      let i := st.motions.size
      let m : PMotion S U α :=
        { start := s, stop := s, control := none, ctl := none, dur := 0, priority := Num.ofNat 0, parent := none,
          cell := 0, helem := some st.heap.next, isSplit := false }
      -- bsp_->addMotion(startMotion); heapElement_ = priorityQueue_.insert(startMotion)
      let st1 := { st with motions := st.motions.push m,
                           cells := st.cells.modify 0 fun cl => { cl with motions := cl.motions ++ [i] } }
      { st1 with heap := st1.heap.insert klt (score st1 m, i) })
    { motions := #[], cells := #[{ volume := Num.ofNat 1, splitDim := 0, splitValue := Num.ofNat 0, kids := none,
                                   lo := P.lo, hi := P.hi, motions := [] }],
      heap := {}, rng := g, iteration := 1, nextCtl := 0, lastGoal := none, closest := P.inf, isApprox := true }

/-- `control::PDST::solve` on a fresh planner whose `rng_` is in state `g` -/
def solve (P : Problem S U α ρ) (g : ρ) (starts : List S) (draws : List (Draw S U)) : Result S U α ρ :=
  let st0 := init P g starts
  if st0.motions.size = 0 then { status := .invalidStart, dif := P.inf, path := none, final := st0 }
  else
    let st := run P st0 draws
    match st.lastGoal with
    | none => { status := .timeout, dif := st.closest, path := none, final := st }
    | some l =>
      { status := if st.isApprox then .approximate else .exact, dif := st.closest, path := assemble P st.motions l,
        final := st }

/-! ### a later `solve()` on the same planner object

`solve` re-derives its flags from `lastGoalMotion_`: `hasSolution = lastGoalMotion_ != nullptr`,
`isApproximate = !hasSolution || !goal->isSatisfied(lastGoalMotion_->endState_, &closestDistanceToGoal)`, and — since
fix 2f8c24625 — returns `EXACT_SOLUTION` at once only if the *problem definition still holds an exact solution*
(`pdef_->hasExactSolution()`, the parameter `pdefHasExact`: an oracle about the caller's `ProblemDefinition`, which may have
been cleared or replaced).  Otherwise it falls through: start states handed out by `pis_.nextStart()` since the last call
(`newStarts`) enter the **leaf** cell that contains them (fix eb25d2355: `bsp_->stab(proj)->addMotion`), the loop runs,
and the path to `lastGoalMotion_` is published again with the recomputed flag. -/

/-- a start motion enters the leaf cell containing its projection and the queue -/
def addStart (P : Problem S U α ρ) (st : St S U α ρ) (s : S) : St S U α ρ :=
  let i := st.motions.size
  let c := stab st.cells (P.project s) st.cells.size 0
  let m : PMotion S U α :=
    { start := s, stop := s, control := none, ctl := none, dur := 0, priority := Num.ofNat 0, parent := none,
      cell := c, helem := some st.heap.next, isSplit := false }
  let st1 := { st with motions := st.motions.push m,
                       cells := st.cells.modify c fun cl => { cl with motions := cl.motions ++ [i] } }
  { st1 with heap := st1.heap.insert klt (score st1 m, i) }

/-- the flags `solve` derives from `lastGoalMotion_` at its head: `(isApproximate, closestDistanceToGoal)` -/
def headFlags (P : Problem S U α ρ) (st : St S U α ρ) : Bool × α :=
  match st.lastGoal with
  | none => (true, P.inf)
  | some l =>
    match st.motions[l]? with
    | none => (true, P.inf)
    | some m => (!(P.goal m.stop).1, (P.goal m.stop).2)

/-- `control::PDST::solve` called again on the planner state `st` -/
def resume (P : Problem S U α ρ) (st : St S U α ρ) (pdefHasExact : Bool) (newStarts : List S)
    (draws : List (Draw S U)) : Result S U α ρ :=
  let hf := headFlags P st
  if st.lastGoal.isSome && !hf.1 && pdefHasExact then
    -- nothing is added to the problem definition
    { status := .exact, dif := hf.2, path := none, final := st }
  else
    let st0 := (newStarts.filter P.valid).foldl (addStart P) { st with isApprox := hf.1, closest := hf.2 }
    if st0.motions.size = 0 then { status := .invalidStart, dif := P.inf, path := none, final := st0 }
    else
      let st1 := run P st0 draws
      match st1.lastGoal with
      | none => { status := .timeout, dif := st1.closest, path := none, final := st1 }
      | some l =>
        { status := if st1.isApprox then .approximate else .exact, dif := st1.closest,
          path := assemble P st1.motions l, final := st1 }

/-! ### the code before fix fc68fdba5 (F160), for the witness only -/

def runOld (P : Problem S U α ρ) : St S U α ρ → List (Draw S U) → St S U α ρ
  | st, [] => st
  | st, d :: ds =>
    match iterOld P st d with
    | (st', .cont) => runOld P st' ds
    | (st', _) => st'

/-- `resume` with the unguarded loop -/
def resumeOld (P : Problem S U α ρ) (st : St S U α ρ) (pdefHasExact : Bool) (newStarts : List S)
    (draws : List (Draw S U)) : Result S U α ρ :=
  let hf := headFlags P st
  if st.lastGoal.isSome && !hf.1 && pdefHasExact then
    { status := .exact, dif := hf.2, path := none, final := st }
  else
    let st0 := (newStarts.filter P.valid).foldl (addStart P) { st with isApprox := hf.1, closest := hf.2 }
    if st0.motions.size = 0 then { status := .invalidStart, dif := P.inf, path := none, final := st0 }
    else
      let st1 := runOld P st0 draws
      match st1.lastGoal with
      | none => { status := .timeout, dif := st1.closest, path := none, final := st1 }
      | some l =>
        { status := if st1.isApprox then .approximate else .exact, dif := st1.closest,
          path := assemble P st1.motions l, final := st1 }

end OmplModel.CPDST
