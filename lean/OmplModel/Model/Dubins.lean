import OmplModel.Model.Num
/-
Model of `ompl::base::DubinsStateSpace` (src/ompl/base/spaces/src/DubinsStateSpace.cpp):
`mod2pi`, the six word solvers, the float switching functions, `isLongPath`, the 16-class table,
`dubinsExhaustive`, `dubins(d, alpha, beta)`, `dubins(s1, s2, rho)`, `distance`,
`symmetricDistance`, and `interpolate` (segment-by-segment integration, forward and reversed).

Core Lean only (linked into `drv_dubins`).  Everything is generic over `[DNum α]` (`Num` plus the
three single-precision operations the switching functions use) and mirrors the C++ operation order,
so the `Float` instance reproduces the doubles bit for bit:

* `sqrtf(x)`, `atan2f(y,x)` with `double` arguments narrow to `float`, compute in `float`, and widen:
  `DNum.sqrtf`, `DNum.atan2f` (Lean `Float32`, which calls the same libm); `atan2f(..) - atan2f(..)`
  is a `float` subtraction: `DNum.fsub`.
* every solver takes the angle normalisation `m2p` as a parameter; the code's `mod2pi` (with its two
  `DUBINS_EPS` / `DUBINS_ZERO` fudges) is what the driver and `dubins` use, the fudge-free
  `mod2piExact` is what the `word_*_reaches` theorems quantify over (any `m2p` that changes its argument
  by a multiple of 2π).

Abstractions (checked by the correspondence run):
* a default-constructed `DubinsPath` (`p = DBL_MAX`) is `none`; `len < minLength` against it is
  `ltLen` (`none` = +∞).  Faithful unless a real length reaches `DBL_MAX`.
* the `assert`s of the C++ solvers are not part of the model (they are the `word_*_reaches` theorems
  and the oracle's end-pose check); an abort of the real code is reported by the check.
* `getDubinsClass` returning no row/column (C++: assertion failure) is `none`.
-/
namespace OmplModel.Dubins
open OmplModel

class DNum (α : Type) extends Num α where
  /-- `(double)sqrtf((float)x)` -/
  sqrtf : α → α
  /-- `(double)atan2f((float)y, (float)x)` -/
  atan2f : α → α → α
  /-- `(double)((float)a - (float)b)` -/
  fsub : α → α → α

instance : DNum Float where
  sqrtf x := x.toFloat32.sqrt.toFloat
  atan2f y x := (Float32.atan2 y.toFloat32 x.toFloat32).toFloat
  fsub a b := (a.toFloat32 - b.toFloat32).toFloat

inductive Seg where
  | L | S | R
deriving DecidableEq, Repr

/-- `dubinsPathType()[0..5]` -/
inductive Word where
  | LSL | RSR | RSL | LSR | RLR | LRL
deriving DecidableEq, Repr

def Word.segs : Word → List Seg
  | .LSL => [.L, .S, .L]
  | .RSR => [.R, .S, .R]
  | .RSL => [.R, .S, .L]
  | .LSR => [.L, .S, .R]
  | .RLR => [.R, .L, .R]
  | .LRL => [.L, .R, .L]

def Word.name : Word → String
  | .LSL => "LSL" | .RSR => "RSR" | .RSL => "RSL" | .LSR => "LSR" | .RLR => "RLR" | .LRL => "LRL"

structure Path (α : Type) where
  w : Word
  t : α
  p : α
  q : α
  rev : Bool := false

structure Pose (α : Type) where
  x : α
  y : α
  th : α

section
variable {α : Type} [DNum α]

def twopi : α := 2 * Num.pi
def halfpi : α := Num.pi / 2
def eps : α := Num.ofDec 1 6            -- DUBINS_EPS
def dzero : α := -(Num.ofDec 1 7)       -- DUBINS_ZERO
def half : α := Num.ofDec 5 1

/-- `mod2pi` of DubinsStateSpace.cpp, fudges included. -/
def mod2pi (x : α) : α :=
  if x < 0 ∧ dzero < x then 0
  else
    let xm := x - twopi * Num.floor (x / twopi)
    if twopi - xm < half * eps then 0 else xm

/-- the same without the two fudges. -/
def mod2piExact (x : α) : α := x - twopi * Num.floor (x / twopi)

/-- `DubinsPath::length()` -/
def Path.len (P : Path α) : α := P.t + P.p + P.q

def olen (P : Option (Path α)) : Option α := P.map Path.len

/-- `a < b` on lengths where `none` is the default path's `DBL_MAX`. -/
def ltLen : Option α → Option α → Bool
  | some a, some b => decide (a < b)
  | some _, none => true
  | none, _ => false

/-! ## the six word solvers -/

def dubinsLSL (m2p : α → α) (d alpha beta : α) : Option (Path α) :=
  let ca := Num.cos alpha; let sa := Num.sin alpha; let cb := Num.cos beta; let sb := Num.sin beta
  let tmp := 2 + d * d - 2 * (ca * cb + sa * sb - d * (sa - sb))
  if dzero ≤ tmp then
    let theta := Num.atan2 (cb - ca) (d + sa - sb)
    let t := m2p (-alpha + theta)
    let p := Num.sqrt (Num.max tmp 0)
    let q := m2p (beta - theta)
    some ⟨.LSL, t, p, q, false⟩
  else none

def dubinsRSR (m2p : α → α) (d alpha beta : α) : Option (Path α) :=
  let ca := Num.cos alpha; let sa := Num.sin alpha; let cb := Num.cos beta; let sb := Num.sin beta
  let tmp := 2 + d * d - 2 * (ca * cb + sa * sb - d * (sb - sa))
  if dzero ≤ tmp then
    let theta := Num.atan2 (ca - cb) (d - sa + sb)
    let t := m2p (alpha - theta)
    let p := Num.sqrt (Num.max tmp 0)
    let q := m2p (-beta + theta)
    some ⟨.RSR, t, p, q, false⟩
  else none

def dubinsRSL (m2p : α → α) (d alpha beta : α) : Option (Path α) :=
  let ca := Num.cos alpha; let sa := Num.sin alpha; let cb := Num.cos beta; let sb := Num.sin beta
  let tmp := d * d - 2 + 2 * (ca * cb + sa * sb - d * (sa + sb))
  if dzero ≤ tmp then
    let p := Num.sqrt (Num.max tmp 0)
    let theta := Num.atan2 (ca + cb) (d - sa - sb) - Num.atan2 2 p
    let t := m2p (alpha - theta)
    let q := m2p (beta - theta)
    some ⟨.RSL, t, p, q, false⟩
  else none

def dubinsLSR (m2p : α → α) (d alpha beta : α) : Option (Path α) :=
  let ca := Num.cos alpha; let sa := Num.sin alpha; let cb := Num.cos beta; let sb := Num.sin beta
  let tmp := -2 + d * d + 2 * (ca * cb + sa * sb + d * (sa + sb))
  if dzero ≤ tmp then
    let p := Num.sqrt (Num.max tmp 0)
    let theta := Num.atan2 (-ca - cb) (d + sa + sb) - Num.atan2 (-2) p
    let t := m2p (-alpha + theta)
    let q := m2p (-beta + theta)
    some ⟨.LSR, t, p, q, false⟩
  else none

def dubinsRLR (m2p : α → α) (d alpha beta : α) : Option (Path α) :=
  let ca := Num.cos alpha; let sa := Num.sin alpha; let cb := Num.cos beta; let sb := Num.sin beta
  let tmp := Num.ofDec 125 3 * (6 - d * d + 2 * (ca * cb + sa * sb + d * (sa - sb)))
  if Num.abs tmp < 1 then
    let p := twopi - Num.acos tmp
    let theta := Num.atan2 (ca - cb) (d - sa + sb)
    let t := m2p (alpha - theta + half * p)
    let q := m2p (alpha - beta - t + p)
    some ⟨.RLR, t, p, q, false⟩
  else none

def dubinsLRL (m2p : α → α) (d alpha beta : α) : Option (Path α) :=
  let ca := Num.cos alpha; let sa := Num.sin alpha; let cb := Num.cos beta; let sb := Num.sin beta
  let tmp := Num.ofDec 125 3 * (6 - d * d + 2 * (ca * cb + sa * sb - d * (sa - sb)))
  if Num.abs tmp < 1 then
    let p := twopi - Num.acos tmp
    let theta := Num.atan2 (-ca + cb) (d + sa - sb)
    let t := m2p (-alpha + theta + half * p)
    let q := m2p (beta - alpha - t + p)
    some ⟨.LRL, t, p, q, false⟩
  else none

def solve (m2p : α → α) (w : Word) (d alpha beta : α) : Option (Path α) :=
  match w with
  | .LSL => dubinsLSL m2p d alpha beta
  | .RSR => dubinsRSR m2p d alpha beta
  | .RSL => dubinsRSL m2p d alpha beta
  | .LSR => dubinsLSR m2p d alpha beta
  | .RLR => dubinsRLR m2p d alpha beta
  | .LRL => dubinsLRL m2p d alpha beta

/-! ## `dubinsExhaustive` -/

/-- `if ((len = tmp.length()) < minLength) path = tmp;` -/
def better (cur cand : Option (Path α)) : Option (Path α) :=
  if ltLen (olen cand) (olen cur) then cand else cur

/-- the degenerate early return shared by `dubins`, `dubinsExhaustive`, `dubinsClassification` -/
def degenerate (d alpha beta : α) : Bool :=
  decide (d < eps) && decide (Num.abs (alpha - beta) < eps)

def zeroPath (d : α) : Path α := ⟨.LSL, 0, d, 0, false⟩

/-- the candidates in the order the code tries them after LSL -/
def laterWords : List Word := [.RSR, .RSL, .LSR, .RLR, .LRL]

def exhaustiveCore (m2p : α → α) (d alpha beta : α) : Option (Path α) :=
  laterWords.foldl (fun cur w => better cur (solve m2p w d alpha beta)) (dubinsLSL m2p d alpha beta)

def dubinsExhaustive (m2p : α → α) (d alpha beta : α) : Option (Path α) :=
  if degenerate d alpha beta then some (zeroPath d) else exhaustiveCore m2p d alpha beta

/-! ## switching functions (single precision `sqrtf`/`atan2f`, as coded) -/

def cscTmpLSR (d alpha beta : α) : α :=
  let ca := Num.cos alpha; let sa := Num.sin alpha; let cb := Num.cos beta; let sb := Num.sin beta
  let tmp := -2 + d * d + 2 * (ca * cb + sa * sb + d * (sa + sb))
  tmp

def p_lsr (d alpha beta : α) : α := DNum.sqrtf (Num.max (cscTmpLSR d alpha beta) 0)

def thetaLSRf (d alpha beta : α) : α :=
  let ca := Num.cos alpha; let sa := Num.sin alpha; let cb := Num.cos beta; let sb := Num.sin beta
  DNum.fsub (DNum.atan2f (-ca - cb) (d + sa + sb)) (DNum.atan2f (-2) (p_lsr d alpha beta))

def t_lsr (d alpha beta : α) : α := mod2pi (-alpha + thetaLSRf d alpha beta)
def q_lsr (d alpha beta : α) : α := mod2pi (-beta + thetaLSRf d alpha beta)

def cscTmpRSL (d alpha beta : α) : α :=
  let ca := Num.cos alpha; let sa := Num.sin alpha; let cb := Num.cos beta; let sb := Num.sin beta
  d * d - 2 + 2 * (ca * cb + sa * sb - d * (sa + sb))

def p_rsl (d alpha beta : α) : α := DNum.sqrtf (Num.max (cscTmpRSL d alpha beta) 0)

def thetaRSLf (d alpha beta : α) : α :=
  let ca := Num.cos alpha; let sa := Num.sin alpha; let cb := Num.cos beta; let sb := Num.sin beta
  DNum.fsub (DNum.atan2f (ca + cb) (d - sa - sb)) (DNum.atan2f 2 (p_rsl d alpha beta))

def t_rsl (d alpha beta : α) : α := mod2pi (alpha - thetaRSLf d alpha beta)
def q_rsl (d alpha beta : α) : α := mod2pi (beta - thetaRSLf d alpha beta)

def thetaRSRf (d alpha beta : α) : α :=
  let ca := Num.cos alpha; let sa := Num.sin alpha; let cb := Num.cos beta; let sb := Num.sin beta
  DNum.atan2f (ca - cb) (d - sa + sb)

def t_rsr (d alpha beta : α) : α := mod2pi (alpha - thetaRSRf d alpha beta)
def q_rsr (d alpha beta : α) : α := mod2pi (-beta + thetaRSRf d alpha beta)

def p_rsr (d alpha beta : α) : α :=
  let ca := Num.cos alpha; let sa := Num.sin alpha; let cb := Num.cos beta; let sb := Num.sin beta
  DNum.sqrtf (Num.max (2 + d * d - 2 * (ca * cb + sa * sb - d * (sb - sa))) 0)

def thetaLSLf (d alpha beta : α) : α :=
  let ca := Num.cos alpha; let sa := Num.sin alpha; let cb := Num.cos beta; let sb := Num.sin beta
  DNum.atan2f (cb - ca) (d + sa - sb)

def t_lsl (d alpha beta : α) : α := mod2pi (-alpha + thetaLSLf d alpha beta)
def q_lsl (d alpha beta : α) : α := mod2pi (beta - thetaLSLf d alpha beta)

def p_lsl (d alpha beta : α) : α :=
  let ca := Num.cos alpha; let sa := Num.sin alpha; let cb := Num.cos beta; let sb := Num.sin beta
  DNum.sqrtf (Num.max (2 + d * d - 2 * (ca * cb + sa * sb - d * (sa - sb))) 0)

def s_12 (d a b : α) : α := p_rsr d a b - p_rsl d a b - 2 * (q_rsl d a b - Num.pi)
def s_13 (d a b : α) : α := t_rsr d a b - Num.pi
def s_14_1 (d a b : α) : α := t_rsr d a b - Num.pi
def s_21 (d a b : α) : α := p_lsl d a b - p_rsl d a b - 2 * (t_rsl d a b - Num.pi)
def s_22_1 (d a b : α) : α := p_lsl d a b - p_rsl d a b - 2 * (t_rsl d a b - Num.pi)
def s_22_2 (d a b : α) : α := p_rsr d a b - p_rsl d a b - 2 * (q_rsl d a b - Num.pi)
def s_24 (d a b : α) : α := q_rsr d a b - Num.pi
def s_31 (d a b : α) : α := q_lsl d a b - Num.pi
def s_33_1 (d a b : α) : α := p_rsr d a b - p_lsr d a b - 2 * (t_lsr d a b - Num.pi)
def s_33_2 (d a b : α) : α := p_lsl d a b - p_lsr d a b - 2 * (q_lsr d a b - Num.pi)
def s_34 (d a b : α) : α := p_rsr d a b - p_lsr d a b - 2 * (t_lsr d a b - Num.pi)
def s_41_1 (d a b : α) : α := t_lsl d a b - Num.pi
def s_41_2 (d a b : α) : α := q_lsl d a b - Num.pi
def s_42 (d a b : α) : α := t_lsl d a b - Num.pi
def s_43 (d a b : α) : α := p_lsl d a b - p_lsr d a b - 2 * (q_lsr d a b - Num.pi)

/-- `isLongPath` -/
def isLongPath (d alpha beta : α) : Bool :=
  let c := Num.cos alpha + Num.cos beta
  decide (Num.abs (Num.sin alpha) + Num.abs (Num.sin beta) + Num.sqrt (4 - c * c) - d < 0)

/-- row / column of `getDubinsClass` (1..4; 0 = none matched, a C++ assertion failure) -/
def quadrant (a : α) : Nat :=
  if 0 ≤ a ∧ a ≤ halfpi then 1
  else if halfpi < a ∧ a ≤ Num.pi then 2
  else if Num.pi < a ∧ a ≤ 3 * halfpi then 3
  else if 3 * halfpi < a ∧ a ≤ twopi then 4
  else 0

/-- which word a table cell selects: a single solver, or "the shorter of LSR and RSL" -/
inductive Pick where
  | one (w : Word)
  | lsrOrRsl
deriving DecidableEq, Repr

/-- the 16-class table of `dubinsClassification` (row = quadrant of alpha, column = of beta). -/
def classify (row col : Nat) (d a b : α) : Option Pick :=
  match row, col with
  | 1, 1 => some (.one .RSL)
  | 1, 2 =>
    if s_13 d a b < 0 then (if s_12 d a b < 0 then some (.one .RSR) else some (.one .RSL))
    else some .lsrOrRsl
  | 1, 3 => if s_13 d a b < 0 then some (.one .RSR) else some (.one .LSR)
  | 1, 4 =>
    if 0 < s_14_1 d a b then some (.one .LSR)
    else if 0 < s_24 d a b then some (.one .RSL)
    else some (.one .RSR)
  | 2, 1 =>
    if s_31 d a b < 0 then (if s_21 d a b < 0 then some (.one .LSL) else some (.one .RSL))
    else some .lsrOrRsl
  | 2, 2 =>
    if b < a then (if s_22_1 d a b < 0 then some (.one .LSL) else some (.one .RSL))
    else (if s_22_2 d a b < 0 then some (.one .RSR) else some (.one .RSL))
  | 2, 3 => some (.one .RSR)
  | 2, 4 => if s_24 d a b < 0 then some (.one .RSR) else some (.one .RSL)
  | 3, 1 => if s_31 d a b < 0 then some (.one .LSL) else some (.one .LSR)
  | 3, 2 => some (.one .LSL)
  | 3, 3 =>
    if a < b then (if s_33_1 d a b < 0 then some (.one .RSR) else some (.one .LSR))
    else (if s_33_2 d a b < 0 then some (.one .LSL) else some (.one .LSR))
  | 3, 4 =>
    if s_24 d a b < 0 then (if s_34 d a b < 0 then some (.one .RSR) else some (.one .LSR))
    else some .lsrOrRsl
  | 4, 1 =>
    if 0 < s_41_1 d a b then some (.one .RSL)
    else if 0 < s_41_2 d a b then some (.one .LSR)
    else some (.one .LSL)
  | 4, 2 => if s_42 d a b < 0 then some (.one .LSL) else some (.one .RSL)
  | 4, 3 =>
    if s_42 d a b < 0 then (if s_43 d a b < 0 then some (.one .LSL) else some (.one .LSR))
    else some .lsrOrRsl
  | 4, 4 => some (.one .LSR)
  | _, _ => none

inductive Res (α : Type) where
  | path (P : Path α)
  /-- the default-constructed path (`p = DBL_MAX`) -/
  | nopath
  /-- `getDubinsClass` found no row/column (assertion failure in C++) -/
  | unclassified

def Res.ofOpt : Option (Path α) → Res α
  | some P => .path P
  | none => .nopath

def dubinsClassification (d a b : α) : Res α :=
  if degenerate d a b then .path (zeroPath d)
  else
    match classify (quadrant a) (quadrant b) d a b with
    | none => .unclassified
    | some (.one w) => Res.ofOpt (solve mod2pi w d a b)
    | some .lsrOrRsl =>
      -- path = LSR; tmp = RSL; if (path.length() > tmp.length()) path = tmp;
      Res.ofOpt (better (dubinsLSR mod2pi d a b) (dubinsRSL mod2pi d a b))

/-- the free function `dubins(d, alpha, beta)` -/
def dubins (d alpha beta : α) : Res α :=
  if degenerate d alpha beta then .path (zeroPath d)
  else
    let a := mod2pi alpha
    let b := mod2pi beta
    if isLongPath d a b then dubinsClassification d a b
    else Res.ofOpt (dubinsExhaustive mod2pi d a b)

/-- `DubinsStateSpace::dubins(state1, state2, radius)` -/
def dubinsStates (rho : α) (s1 s2 : Pose α) : Res α :=
  let dx := s2.x - s1.x
  let dy := s2.y - s1.y
  let d := Num.sqrt (dx * dx + dy * dy) / rho
  let th := Num.atan2 dy dx
  let alpha := mod2pi (s1.th - th)
  let beta := mod2pi (s2.th - th)
  dubins d alpha beta

def Res.len : Res α → Option α
  | .path P => some P.len
  | _ => none

/-- `distance(s1, s2)`: `rho * length` (or `rho * min(l12, l21)` when symmetric). `none` when a default
path (`DBL_MAX`) or an assertion failure is involved. -/
def distance (rho : α) (sym : Bool) (s1 s2 : Pose α) : Option α :=
  match (dubinsStates rho s1 s2).len with
  | none => none
  | some l12 =>
    if sym then
      match (dubinsStates rho s2 s1).len with
      | none => none
      | some l21 => some (rho * Num.min l12 l21)
    else some (rho * l12)

/-! ## interpolation -/

/-- one segment of the forward loop -/
def stepFwd (s : Seg) (v : α) (P : Pose α) : Pose α :=
  let phi := P.th
  match s with
  | .L => ⟨P.x + Num.sin (phi + v) - Num.sin phi, P.y - Num.cos (phi + v) + Num.cos phi, phi + v⟩
  | .R => ⟨P.x - Num.sin (phi - v) + Num.sin phi, P.y + Num.cos (phi - v) - Num.cos phi, phi - v⟩
  | .S => ⟨P.x + v * Num.cos phi, P.y + v * Num.sin phi, phi⟩

/-- one segment of the `reverse_` loop (driving the word backwards) -/
def stepRev (s : Seg) (v : α) (P : Pose α) : Pose α :=
  let phi := P.th
  match s with
  | .L => ⟨P.x + Num.sin (phi - v) - Num.sin phi, P.y - Num.cos (phi - v) + Num.cos phi, phi - v⟩
  | .R => ⟨P.x - Num.sin (phi + v) + Num.sin phi, P.y + Num.cos (phi + v) - Num.cos phi, phi + v⟩
  | .S => ⟨P.x - v * Num.cos phi, P.y - v * Num.sin phi, phi⟩

/-- `for (i = 0; i < 3 && seg > 0; ++i) { v = min(seg, length_[i]); seg -= v; … }` -/
def integ (step : Seg → α → Pose α → Pose α) : List (Seg × α) → α → Pose α → Pose α
  | [], _, P => P
  | (s, l) :: rest, seg, P =>
    if 0 < seg then
      let v := Num.min seg l
      integ step rest (seg - v) (step s v P)
    else P

/-- the segments (type, length) in the order the loop visits them -/
def Path.segList (P : Path α) : List (Seg × α) :=
  let l := P.w.segs.zip [P.t, P.p, P.q]
  if P.rev then l.reverse else l

/-- the truncated word: what `integ` actually drives when `seg` of length is available -/
def truncate : List (Seg × α) → α → List (Seg × α)
  | [], _ => []
  | (s, l) :: rest, seg =>
    if 0 < seg then
      let v := Num.min seg l
      (s, v) :: truncate rest (seg - v)
    else []

/-- drive every segment fully (no truncation) -/
def integFull (step : Seg → α → Pose α → Pose α) : List (Seg × α) → Pose α → Pose α
  | [], P => P
  | (s, l) :: rest, P => integFull step rest (step s l P)

/-- `SO2StateSpace::enforceBounds` -/
def so2Enforce (v0 : α) : α :=
  let v := Num.fmod v0 (2 * Num.pi)
  if v < -Num.pi then v + 2 * Num.pi
  else if Num.pi ≤ v then v - 2 * Num.pi
  else v

/-- `interpolate(from, path, t, state, radius)`: unit-radius integration from `(0,0,yaw)`, then
scale and translate, yaw wrapped by SO(2) `enforceBounds`. -/
def interpPath (rho : α) (frm : Pose α) (P : Path α) (t : α) : Pose α :=
  let seg := t * P.len
  let e := integ (if P.rev then stepRev else stepFwd) P.segList seg ⟨0, 0, frm.th⟩
  ⟨e.x * rho + frm.x, e.y * rho + frm.y, so2Enforce e.th⟩

/-- the path `interpolate(from, to, t, firstTime = true, path, state)` stores -/
def choosePath (rho : α) (sym : Bool) (frm to : Pose α) : Res α :=
  match dubinsStates rho frm to with
  | .path P =>
    if sym then
      match dubinsStates rho to frm with
      | .path P2 => if P2.len < P.len then .path { P2 with rev := true } else .path P
      | .nopath => .path P
      | .unclassified => .unclassified
    else .path P
  | .nopath =>
    if sym then
      match dubinsStates rho to frm with
      | .path P2 => .path { P2 with rev := true }     -- finite < DBL_MAX
      | r => r
    else .nopath
  | .unclassified => .unclassified

/-- `interpolate(from, to, t, state)` -/
def interpolate (rho : α) (sym : Bool) (frm to : Pose α) (t : α) : Option (Pose α) :=
  if 1 ≤ t then some to
  else if t ≤ 0 then some frm
  else
    match choosePath rho sym frm to with
    | .path P => some (interpPath rho frm P t)
    | _ => none

/-- `::dubins(d, alpha, beta)` with the repair proposed for finding F66 (notes/C14-fix-F66.diff): the classification sees
the snapped angles, the exhaustive search the unsnapped ones.  Used only by the driver's `distfix` op, so that the check can
ask what the repaired code would return. -/
def dubinsFix66 (d alpha beta : α) : Res α :=
  if degenerate d alpha beta then .path (zeroPath d)
  else
    let a := mod2pi alpha
    let b := mod2pi beta
    if isLongPath d a b then dubinsClassification d a b
    else Res.ofOpt (dubinsExhaustive mod2pi d (mod2piExact alpha) (mod2piExact beta))

def dubinsStatesFix66 (rho : α) (s1 s2 : Pose α) : Res α :=
  let dx := s2.x - s1.x
  let dy := s2.y - s1.y
  let d := Num.sqrt (dx * dx + dy * dy) / rho
  let th := Num.atan2 dy dx
  dubinsFix66 d (s1.th - th) (s2.th - th)

def distanceFix66 (rho : α) (sym : Bool) (s1 s2 : Pose α) : Option α :=
  match (dubinsStatesFix66 rho s1 s2).len with
  | none => none
  | some l12 =>
    if sym then
      match (dubinsStatesFix66 rho s2 s1).len with
      | none => none
      | some l21 => some (rho * Num.min l12 l21)
    else some (rho * l12)

/-- the caching overload `interpolate(from, to, t, firstTime, path, state)` called repeatedly with the same `firstTime` /
`path` variables: while `firstTime` is still true an endpoint `t` returns the endpoint *without* touching the cache; the
first interior `t` computes and stores the path and clears `firstTime`; every later call (endpoint or not) goes through
`interpolate(from, path, t, state, rho)`.  Returns the states in call order; stops at a default path (`none`). -/
def interpCached (rho : α) (sym : Bool) (frm to : Pose α) : Option (Path α) → List α → List (Option (Pose α))
  | _, [] => []
  | some P, t :: ts => some (interpPath rho frm P t) :: interpCached rho sym frm to (some P) ts
  | none, t :: ts =>
    if 1 ≤ t then some to :: interpCached rho sym frm to none ts
    else if t ≤ 0 then some frm :: interpCached rho sym frm to none ts
    else
      match choosePath rho sym frm to with
      | .path P => some (interpPath rho frm P t) :: interpCached rho sym frm to (some P) ts
      | _ => [none]

end
end OmplModel.Dubins
