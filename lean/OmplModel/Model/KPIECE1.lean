import OmplModel.Model.Discretization
import OmplModel.Model.PlannerReport
/-
Executable model of `ompl::geometric::KPIECE1::solve` (src/ompl/geometric/planners/kpiece/src/KPIECE1.cpp) on top of
the `Discretization` model (Model/Discretization.lean) and the shared reporting layer (Model/PlannerReport.lean).
Core Lean only: linked into the native driver `drv_kpiece`.

The tree is an array of `(state, parent index)` in order of creation; `Motion*` is the array index, and it is the
motion id handed to `disc_.addMotion`.  ONE loop iteration consumes one scripted `Draw`: the two draws of
`disc_.selectMotion` (`u`, `pick`), the planner's `rng_.uniform01()` of the goal-bias test (`bias`), and the state
that ends up in `xstate` before `checkMotion` (`goalSample` if the bias branch is taken -- `goal_s->sampleGoal` --,
else `nearSample` -- `sampler_->sampleUniformNear(xstate, existing->state, maxDistance_)`).  The termination
condition is the length of the script: `while (!ptc)` is evaluated once per iteration, so "interrupted after k
iterations" is "script of length k".

Generic over the state type `S` and the number type `α` (`Num α`); every space / environment operation is a field of
`Cfg` (an oracle): `bounds`, `valid` (start states), `coord` (projection + `computeCoordinates`), `goalDist` /
`threshold` (`GoalRegion::isSatisfied`), and the three-argument `checkMotion(existing, xstate, lastValid)`, which
answers `(result, state left in xstate, lastValid.second)`.

What mirrors the code
* `std::pair<State*, double> fail(xstate, 0.0)`: `lastValid.first` IS `xstate`, so after a failed `checkMotion` the
  validator has overwritten `xstate` with the last valid state; `keep = result || fail.second > minValidPathFraction_`;
  the new motion copies `xstate` (the sampled state after a `true` answer of a validator that leaves `xstate` alone,
  the validator's last valid state after a `false` answer).
* `goal->isSatisfied(state, &dist)`, `disc_.addMotion(motion, coord(state), dist)`; on `solv`: `approxdif = dist`,
  `solution = motion`, `break` (no `updateCell`); else `dist < approxdif` bookkeeping; not kept:
  `ecell->data->score *= failedExpansionScoreFactor_`; then `disc_.updateCell(ecell)` in both non-solving cases.
* epilogue: approximate fallback, path by parent pointers reversed, `addSolutionPath(path, approximate, approxdif)`,
  `return {solved, approximate}`; `INVALID_START` when no start was handed out.
Abstractions (checked by the lock-step correspondence): states are values; `ecell` is the coordinate of the selected
cell; the goal is a `GoalSampleableRegion` (`goal_s != nullptr`), `canSample` a configuration flag.
-/
namespace OmplModel.KPIECE1
open OmplModel OmplModel.Grid OmplModel.Disc OmplModel.PlannerReport

structure Cfg (S α : Type) where
  P : Params α
  /-- `selectBorderFraction_` of the discretization -/
  borderFraction : α
  bounds : S → Bool
  valid : S → Bool
  /-- `projectionEvaluator_->computeCoordinates(state, xcoord)` -/
  coord : S → Coord
  goalDist : S → α
  threshold : α
  goalBias : α
  canSample : Bool
  /-- `failedExpansionScoreFactor_`, `minValidPathFraction_` -/
  failedFactor : α
  minValidFrac : α
  inf : α
  /-- `si_->checkMotion(a, xstate, fail)` with `fail.first == xstate`: (result, xstate afterwards, fail.second) -/
  checkMotion : S → S → Bool × S × α

structure Node (S : Type) where
  state : S
  parent : Option Nat

structure Draw (S α : Type) where
  /-- `disc_.rng_.uniform01()` and `disc_.rng_.halfNormalInt(0, n - 1)` of `selectMotion` -/
  u : α
  pick : Nat → Nat
  /-- the planner's `rng_.uniform01()` -/
  bias : α
  goalSample : S
  nearSample : S

structure St (S α : Type) where
  tree : Array (Node S)
  disc : Disc α
  solution : Option Nat
  approxsol : Option Nat
  approxdif : α

variable {S α : Type} [Num α] [HasLog α]

/-- does the iteration take the goal-bias branch? -/
def fromGoal (cfg : Cfg S α) (dr : Draw S α) : Bool := decide (dr.bias < cfg.goalBias) && cfg.canSample

/-- the state in `xstate` when `checkMotion` is called -/
def xstateOf (cfg : Cfg S α) (dr : Draw S α) : S := if fromGoal cfg dr then dr.goalSample else dr.nearSample

/-- `disc_.updateCell(ecell)` after `ecell->data->score` was multiplied by `f` (`1` = untouched) -/
def updateCell (cfg : Cfg S α) (d : Disc α) (x : Coord) (scale : Option α) : Disc α :=
  match lookup d.cdata x with
  | some cd => updScore cfg.P d x (match scale with | some f => cd.score * f | none => cd.score)
  | none => d

/-- one iteration of the `while (!ptc)` loop -/
def step (cfg : Cfg S α) (st : St S α) (dr : Draw S α) : St S α :=
  let d1 := countIteration st.disc
  let sel := select cfg.P d1 dr.u dr.pick
  let d2 := sel.1
  match sel.2 with
  | none => { st with disc := d2 }                 -- unreachable: `kpiece_select_nonempty`
  | some (m, ecell) =>
    match st.tree[m]? with
    | none => { st with disc := d2 }               -- unreachable: stored motions are tree indices
    | some existing =>
      let x := xstateOf cfg dr
      let r := cfg.checkMotion existing.state x
      let keep := r.1 || decide (cfg.minValidFrac < r.2.2)
      if keep then
        let xs := r.2.1
        let id := st.tree.size
        let dist := cfg.goalDist xs
        let tree := st.tree.push ⟨xs, some m⟩
        let d3 := (add cfg.P d2 id (cfg.coord xs) dist).1
        if dist < cfg.threshold then
          { tree := tree, disc := d3, solution := some id, approxsol := st.approxsol, approxdif := dist }
        else if dist < st.approxdif then
          { tree := tree, disc := updateCell cfg d3 ecell none, solution := none, approxsol := some id, approxdif := dist }
        else
          { st with tree := tree, disc := updateCell cfg d3 ecell none }
      else
        { st with disc := updateCell cfg d2 ecell (some cfg.failedFactor) }

/-- the loop: stops at the first exact solution (`break`) or when the script runs out -/
def loop (cfg : Cfg S α) : St S α → List (Draw S α) → St S α × List (Draw S α)
  | st, [] => (st, [])
  | st, dr :: rest =>
    let st' := step cfg st dr
    if st'.solution.isSome then (st', rest) else loop cfg st' rest

/-- path from the root to `i` (parents first), prepended to `acc` -/
def pathTo (tree : Array (Node S)) : Nat → Nat → List S → List S
  | 0, _, acc => acc
  | fuel + 1, i, acc =>
    match tree[i]? with
    | none => acc
    | some nd =>
      match nd.parent with
      | none => nd.state :: acc
      | some p => pathTo tree fuel p (nd.state :: acc)

/-- `while (const State *st = pis_.nextStart()) { …; disc_.addMotion(motion, coord, 1.0); }` -/
def addStarts (cfg : Cfg S α) : List S → Array (Node S) × Disc α → Array (Node S) × Disc α
  | [], acc => acc
  | s :: rest, (tree, d) =>
    addStarts cfg rest (tree.push ⟨s, none⟩, (add cfg.P d tree.size (cfg.coord s) (Num.ofNat 1)).1)

def initState (cfg : Cfg S α) (starts : Array S) : (Array (Node S) × Disc α) × Pis :=
  let r := drainStarts cfg.bounds cfg.valid starts (starts.size + 1) {}
  (addStarts cfg (r.1.map (·.2)) (#[], { bf := cfg.borderFraction }), r.2)

structure Report (S α : Type) where
  status : Status
  /-- the arguments of `pdef_->addSolutionPath(path, approximate, approxdif, name)`, if called -/
  added : Option (List S × Bool × α)
  tree : Array (Node S)
  disc : Disc α
  pis : Pis
  lastGoalMotion : Option Nat
  unusedDraws : Nat

/-- `KPIECE1::solve` -/
def solve (cfg : Cfg S α) (starts : Array S) (script : List (Draw S α)) : Report S α :=
  let init := initState cfg starts
  if init.1.1.size = 0 then ⟨.invalidStart, none, init.1.1, init.1.2, init.2, none, script.length⟩
  else
    let r := loop cfg ⟨init.1.1, init.1.2, none, none, cfg.inf⟩ script
    let st := r.1
    let approximate := st.solution.isNone
    let sol := match st.solution with
      | some i => some i
      | none => st.approxsol
    match sol with
    | some i =>
      ⟨Status.ofFlags true approximate, some (pathTo st.tree (i + 1) i [], approximate, st.approxdif), st.tree, st.disc,
        init.2, some i, r.2.length⟩
    | none => ⟨Status.ofFlags false approximate, none, st.tree, st.disc, init.2, none, r.2.length⟩

end OmplModel.KPIECE1
