import OmplModel.Model.Grid
/-
`GridB` with the SPLIT protocol its API documents (src/ompl/datastructures/GridB.h): `createCell(coord)` runs the whole
neighbour loop at once (counter, border flip, update event, heap update or migration of every adjacent cell of the grid)
and returns a cell that is in NEITHER the hash table NOR a heap; later `add(cell)` (update event on the new cell,
`Grid::add`, insert into the external or internal heap) -- or `remove(cell)` + `destroyCell(cell)` without `add`, the
documented way of giving a tentative cell back: `GridB::remove` runs its neighbour loop (decrement, border restore, event,
heap update or migration back) unconditionally and only then looks the cell up in `hash_`; for a cell that was never added
the lookup fails and the answer is `false`.  Core Lean only.

Model/Grid.lean has the fused form (`newCell` = createCell + data + add in one step); here the two halves are separate
definitions built from the SAME loop bodies (`touchCreate`, `touchRemove`), `newCell_eq` ties the two forms together by
`rfl`, and `abandon` is `Grid.removeCell` at the pending coordinate (the code path is the same function).

Window between `createCell` and `add`/`remove`: one pending cell at a time; `update(cell)` of a cell of the grid,
`updateAll()` and the observers are allowed inside the window (their events see the counter that already includes the
pending cell); `createCell` of a second cell, `remove` of a cell of the grid and `clear` are not (a second pending cell is
invisible to `Grid::neighbors`; removing a grid cell would leave the pending cell's own counter stale).
-/
namespace OmplModel.GridS
open OmplModel.Grid OmplModel.Heap

structure GridS where
  g : GridB := {}
  /-- the cell returned by `createCell`, not yet added / removed -/
  pending : Option Cell := none

/-- `GridB::createCell(x)` (+ the user writing `cell->data = d`): the grid after the neighbour loop, and the new cell. -/
def createCell (cfg : Cfg) (g : GridB) (x : Coord) (d : Int) : GridB × Cell :=
  let nb := neighbors cfg.dim g.cells x
  let g1 := (nb.map (·.coord)).foldl (touchCreate cfg) g
  let n := boundaryDims cfg x + nb.length
  (g1, { id := g.nextId, coord := x, data := d, nbrs := n, border := !decide (n ≥ cfg.limit) })

/-- `GridB::add(cell)`: event, `Grid::add`, heap insert by the border flag. -/
def addCellB (cfg : Cfg) (g1 : GridB) (c0 : Cell) : GridB :=
  let c1 : Cell := { c0 with data := cfg.ev c0 }
  if c1.border then
    let c2 : Cell := { c1 with helem := g1.external.next }
    { g1 with cells := addCell g1.cells c2, external := g1.external.insert cfg.kltE c2.key, nextId := c0.id + 1 }
  else
    let c2 : Cell := { c1 with helem := g1.internal.next }
    { g1 with cells := addCell g1.cells c2, internal := g1.internal.insert cfg.kltI c2.key, nextId := c0.id + 1 }

/-- the fused step of Model/Grid.lean is the two halves in sequence -/
theorem newCell_eq (cfg : Cfg) (g : GridB) (x : Coord) (d : Int) :
    newCell cfg g x d = addCellB cfg (createCell cfg g x d).1 (createCell cfg g x d).2 := rfl

/-- `remove(pending)` + `destroyCell(pending)`: `GridB::remove` as coded, at the pending cell's coordinate; the id is used up -/
def abandon (cfg : Cfg) (g : GridB) (p : Cell) : GridB × Bool :=
  let r := removeCell cfg g p.coord
  ({ r.1 with nextId := p.id + 1 }, r.2)

inductive Op where
  | create (x : Coord) (d : Int)
  | add
  | abandon
  | new (x : Coord) (d : Int)
  | rm (x : Coord)
  | upd (x : Coord) (d : Int)
  | updAll (chg : List (Coord × Int))
  | clear

/-- one protocol step.  With a cell pending only `add`, `abandon`, `upd`, `updAll` act (everything else is refused:
`busy`); without one, `add`/`abandon` do nothing (`nopending`) and the rest is the fused protocol of Model/Grid.lean. -/
def step (cfg : Cfg) (s : GridS) : Op → GridS
  | .create x d =>
    if s.pending.isSome || has s.g.cells x then s
    else let r := createCell cfg s.g x d; { g := r.1, pending := some r.2 }
  | .add =>
    match s.pending with
    | some p => { g := addCellB cfg s.g p, pending := none }
    | none => s
  | .abandon =>
    match s.pending with
    | some p => { g := (abandon cfg s.g p).1, pending := none }
    | none => s
  | .new x d => if s.pending.isSome then s else { s with g := Grid.step cfg s.g (.new x d) }
  | .rm x => if s.pending.isSome then s else { s with g := Grid.step cfg s.g (.rm x) }
  | .upd x d => { s with g := update cfg s.g x d }
  | .updAll chg => { s with g := updateAll cfg s.g chg }
  | .clear => if s.pending.isSome then s else { s with g := Grid.clear s.g }

def run (cfg : Cfg) (ops : List Op) : GridS := ops.foldl (step cfg) {}

/-- the fused alphabet inside the split one: `new` is `create` then `add` -/
def ofOp : Grid.Op → List Op
  | .new x d => [.create x d, .add]
  | .rm x => [.rm x]
  | .upd x d => [.upd x d]
  | .updAll chg => [.updAll chg]
  | .clear => [.clear]

/-- the abstract set of present coordinates after a history (in insertion order) and the pending coordinate:
what "the cells created, added and removed" leave behind, independently of any counter or queue. -/
def spec : List Coord × Option Coord → Op → List Coord × Option Coord
  | (P, none), .create x _ => if P.contains x then (P, none) else (P, some x)
  | (P, some y), .create _ _ => (P, some y)
  | (P, some y), .add => (P ++ [y], none)
  | (P, none), .add => (P, none)
  | (P, _), .abandon => (P, none)
  | (P, none), .new x _ => if P.contains x then (P, none) else (P ++ [x], none)
  | (P, none), .rm x => (P.filter (fun y => !(y == x)), none)
  | (_, none), .clear => ([], none)
  | (P, some y), .new _ _ => (P, some y)
  | (P, some y), .rm _ => (P, some y)
  | (P, some y), .clear => (P, some y)
  | s, .upd _ _ => s
  | s, .updAll _ => s

def specRun (ops : List Op) : List Coord × Option Coord := ops.foldl spec ([], none)

end OmplModel.GridS
