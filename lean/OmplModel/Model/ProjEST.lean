import OmplModel.Model.EST
import OmplModel.Model.Grid
/-
Executable model of `ompl::geometric::ProjEST::solve` / `selectMotion` / `addMotion`
(src/ompl/geometric/planners/est/src/ProjEST.cpp), the shipped user that combines `ompl::PDF` with
`ompl::Grid`, on top of the PDF model (`Model/Pdf.lean`) and the plain Grid model of the C13 engine
(`Model/Grid.lean`: `getCell`, `addCell` over the association list `hash_`).  Core Lean only: linked into
the native driver `drv_projest`.  `Node`, `Script`, `Flow`, `pathTo` are those of `Model/EST.lean`.

State: `tree` = all motions in creation order (`tree_.size` = `tree.size`; the code keeps motions only
inside the cells — the global array is the model's naming of `Motion*`); `grid` = `tree_.grid` as the Grid
model's cell list, whose `Cell.id` indexes `cells`; `cells[k]` = the `MotionInfo` of the `k`-th created
cell: its coordinate, `motions_` (motion indices in `push_back` order) and `elem_` (PDF handle);
`pdf` = `pdf_` (a PDF over cells).  The payload `GridCell*` of the PDF element with handle `h` is
`cells[h]`: the only place that creates a cell is also the only place that creates a PDF element, so the
`k`-th cell and the `k`-th element belong together (`projest_pdf_sync` proves `cells[k].elem = k`).

External answers are scripted as for EST: the planner's `rng_.uniform01()` stream (`us`) — consumed, in
the order the code draws, by `pdf_.sample(rng_.uniform01())`, by `rng_.uniformInt(0, size-1)` (which in
this OMPL is `(int)floor(uniformReal(0, size))` capped: ONE `uniform01` draw; `Cfg.pickIdx u n` is that
computation) and by the goal-bias test —, the `sampleNear` results (`nears`) and the goal samples
(`goals`).  The termination condition is the iteration budget.

Generic over the state type `S` and number type `D`; the projection coordinate is the oracle
`coord : S → Coord`; weights as coded: `wOne` = `1.0` (new cell), `wCell n` = `1.0 / n` (cell with `n`
motions after a `push_back`).

Abstractions (checked by the lock-step correspondence): states are values; `Motion*` / `GridCell*` are
indices; `hash_` iteration order is never used by ProjEST::solve; a null / empty cell from `selectMotion`
(`assert(existing)`, then a null dereference), an exception out of `pdf_.sample`, an index outside the
cell and an exhausted script end the loop (`Flow.halt`) — `projest_select_is_tree_motion` shows the
first three never happen.
-/
namespace OmplModel.ProjEST
open OmplModel.Pdf OmplModel.PlannerReport
open OmplModel.EST (Node Script Flow pathTo)
open OmplModel.Grid (Coord)

structure Cfg (S D : Type) where
  /-- `projectionEvaluator_->computeCoordinates(state, coord)` -/
  coord : S → Coord
  lt : D → D → Bool
  inf : D
  goalBias : D
  canSample : Bool
  /-- `1.0` -/
  wOne : D
  /-- `1.0 / cell->data.size()` -/
  wCell : Nat → D
  /-- `rng_.uniformInt(0, n - 1)` as a function of its one `uniform01` draw -/
  pickIdx : D → Nat → Nat
  bounds : S → Bool
  valid : S → Bool
  checkMotion : S → S → Bool
  goalDist : S → D
  threshold : D

/-- `MotionInfo` of one grid cell (plus the cell's coordinate) -/
structure CellInfo where
  coord : Coord
  motions : Array Nat
  elem : Nat
deriving Repr

structure St (S D : Type) where
  tree : Array (Node S)
  grid : List OmplModel.Grid.Cell
  cells : Array CellInfo
  pdf : Pdf D
  solution : Option Nat
  approxsol : Option Nat
  approxdif : D
  sc : Script S D

variable {S D : Type}

/-- `ProjEST::addMotion(motion)` -/
def addMotion [WOps D] (cfg : Cfg S D) (st : St S D) (nd : Node S) : St S D :=
  match OmplModel.Grid.getCell st.grid (cfg.coord nd.state) with
  | some gc =>
    match st.cells[gc.id]? with
    | some ci =>
      -- cell->data.push_back(motion); pdf_.update(cell->data.elem_, 1.0 / cell->data.size());
      { st with tree := st.tree.push nd
                cells := st.cells.setIfInBounds gc.id { ci with motions := ci.motions.push st.tree.size }
                pdf := st.pdf.update ci.elem (cfg.wCell (ci.motions.size + 1)) }
    | none => { st with tree := st.tree.push nd }   -- unreachable (`GInv.gcell`): a grid cell always has its `MotionInfo`
  | none =>
    -- cell = createCell(coord); cell->data.push_back(motion); grid.add(cell); cell->data.elem_ = pdf_.add(cell, 1.0);
    { st with tree := st.tree.push nd
              grid := OmplModel.Grid.addCell st.grid { id := st.cells.size, coord := cfg.coord nd.state, data := 0 }
              cells := st.cells.push ⟨cfg.coord nd.state, #[st.tree.size], st.pdf.next⟩
              pdf := st.pdf.add cfg.wOne }

/-- `if (si_->checkMotion(existing->state, xstate)) { … addMotion …; goal test; approximate bookkeeping }` -/
def tryAdd [WOps D] (cfg : Cfg S D) (st : St S D) (ex : Nat) (exState x : S) : St S D × Flow :=
  if cfg.checkMotion exState x then
    let st' := addMotion cfg st ⟨x, some ex⟩
    let idx := st.tree.size
    let dist := cfg.goalDist x
    if cfg.lt dist cfg.threshold then ({ st' with solution := some idx, approxdif := dist }, .done)
    else if cfg.lt dist st.approxdif then ({ st' with approxdif := dist, approxsol := some idx }, .cont)
    else (st', .cont)
  else (st, .cont)

/-- `selectMotion()` on the draws `r` (for `pdf_.sample`) and `u` (for `uniformInt`): the motion index, if any -/
def selectMotion [WScale D] (cfg : Cfg S D) (st : St S D) (r u : D) : Option Nat :=
  match st.pdf.sample r with
  | .ok h =>
    match st.cells[h]? with
    | some ci => if ci.motions.size = 0 then none else ci.motions[cfg.pickIdx u ci.motions.size]?
    | none => none
  | _ => none

/-- one iteration of the `while (!ptc)` loop -/
def step [WScale D] (cfg : Cfg S D) (st : St S D) : St S D × Flow :=
  match st.sc.us with
  | r :: u :: b :: us3 =>
    match selectMotion cfg st r u with
    | none => (st, .halt)
    | some ex =>
      match st.tree[ex]? with
      | none => (st, .halt)
      | some exn =>
        if cfg.lt b cfg.goalBias && cfg.canSample then
          match st.sc.goals with
          | [] => (st, .halt)
          | x :: gs => tryAdd cfg { st with sc := { st.sc with us := us3, goals := gs } } ex exn.state x
        else
          match st.sc.nears with
          | [] => (st, .halt)
          | (ok, x) :: ns =>
            if !ok then ({ st with sc := { st.sc with us := us3, nears := ns } }, .cont)
            else tryAdd cfg { st with sc := { st.sc with us := us3, nears := ns } } ex exn.state x
  | _ => (st, .halt)

def loop [WScale D] (cfg : Cfg S D) : Nat → St S D → St S D
  | 0, st => st
  | n + 1, st =>
    match step cfg st with
    | (st', .cont) => loop cfg n st'
    | (st', _) => st'

/-- `while (st = pis_.nextStart()) addMotion(motion)` -/
def addStarts [WOps D] (cfg : Cfg S D) (st : St S D) : List S → St S D
  | [] => st
  | s :: rest => addStarts cfg (addMotion cfg st ⟨s, none⟩) rest

def initSt [WOps D] (cfg : Cfg S D) (starts : Array S) (sc : Script S D) : St S D × Pis :=
  let r := drainStarts cfg.bounds cfg.valid starts (starts.size + 1) {}
  (addStarts cfg ⟨#[], [], #[], {}, none, none, cfg.inf, sc⟩ (r.1.map (·.2)), r.2)

structure Report (S D : Type) where
  status : Status
  added : Option (List S × Bool × D)
  final : St S D
  pis : Pis
  lastGoalMotion : Option Nat

/-- `ProjEST::solve` with a termination condition that fires after `budget` iterations
(`tree_.grid.empty()` ⇔ no motion was added) -/
def solve [WScale D] (cfg : Cfg S D) (starts : Array S) (sc : Script S D) (budget : Nat) : Report S D :=
  let init := initSt cfg starts sc
  if init.1.grid.length = 0 then ⟨.invalidStart, none, init.1, init.2, none⟩
  else
    let st := loop cfg budget init.1
    let approximate := st.solution.isNone
    let sol := match st.solution with
      | some i => some i
      | none => st.approxsol
    match sol with
    | some i =>
      ⟨Status.ofFlags true approximate, some (pathTo st.tree (i + 1) i [], approximate, st.approxdif), st, init.2, some i⟩
    | none => ⟨Status.ofFlags false approximate, none, st, init.2, none⟩

end OmplModel.ProjEST
