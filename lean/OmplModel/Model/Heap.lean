/-
Model of `ompl::BinaryHeap<_T, LessThan>` (src/ompl/datastructures/BinaryHeap.h).

Core Lean only (no Mathlib): this file is linked into the native driver `drv_heap`.

Abstractions (checked by the correspondence run, not assumed silently):
* the C++ code moves a *hole* up/down and writes the saved element at the end; the model swaps
  at every step.  Both produce the same array after each public operation.
* `Element::position` is not stored; the model finds an element by its handle.  A C++ change
  that forgets a `->position` write makes `remove(handle)`/`update(handle)` act on another slot
  and shows up as a content disagreement.
* handles are numbered by order of creation on both sides.
-/
namespace OmplModel.Heap

structure Elem (κ : Type) where
  h : Nat
  key : κ
deriving Repr

instance {κ} [Inhabited κ] : Inhabited (Elem κ) := ⟨⟨0, default⟩⟩

variable {κ : Type}

/-- `percolateUp(pos)`: `parent = (pos - 1) >> 1`. -/
def siftUp (lt : κ → κ → Bool) (a : Array (Elem κ)) (i : Nat) : Array (Elem κ) :=
  if h : 0 < i ∧ i < a.size then
    if lt a[i].key (a[(i - 1) / 2]'(by omega)).key then
      siftUp lt (a.swap i ((i - 1) / 2) h.2 (by omega)) ((i - 1) / 2)
    else a
  else a
termination_by i
decreasing_by omega

/-- `percolateDown(pos)`: `child = (pos + 1) << 1` is the *right* child; the left one is
preferred only when strictly smaller; the trailing `child == n` block handles a lone left
child. -/
def siftDown (lt : κ → κ → Bool) (a : Array (Elem κ)) (i : Nat) : Array (Elem κ) :=
  if h : 2 * i + 2 < a.size then
    if lt (a[2 * i + 1]'(by omega)).key a[2 * i + 2].key then
      if lt (a[2 * i + 1]'(by omega)).key (a[i]'(by omega)).key then
        siftDown lt (a.swap (2 * i + 1) i (by omega) (by omega)) (2 * i + 1)
      else a
    else
      if lt a[2 * i + 2].key (a[i]'(by omega)).key then
        siftDown lt (a.swap (2 * i + 2) i (by omega) (by omega)) (2 * i + 2)
      else a
  else if h2 : 2 * i + 1 < a.size then
    if lt a[2 * i + 1].key (a[i]'(by omega)).key then
      a.swap (2 * i + 1) i h2 (by omega)
    else a
  else a
termination_by a.size - i
decreasing_by all_goals (simp only [Array.size_swap]; omega)

/-- `build()`: Floyd, `i = n/2 - 1` down to `0`.  `buildFrom k` sifts `k-1, …, 0`. -/
def buildLoop (lt : κ → κ → Bool) (a : Array (Elem κ)) : Nat → Array (Elem κ)
  | 0 => a
  | k + 1 => buildLoop lt (siftDown lt a k) k

def build (lt : κ → κ → Bool) (a : Array (Elem κ)) : Array (Elem κ) :=
  buildLoop lt a (a.size / 2)

/-- `removePos(pos)` as repaired by the `fix:` commit (percolate up, then down, as `update()`
does).  `vector_[pos] = vector_.back(); pop_back()` is written as swap-with-last then pop (the
same array).  `removePosOld` is the code before the fix, kept for the `removePosOld_breaks`
witness. -/
def removePos (lt : κ → κ → Bool) (a : Array (Elem κ)) (p : Nat) : Array (Elem κ) :=
  if h : p + 1 < a.size then
    let a' := (a.swap p (a.size - 1) (by omega) (by omega)).pop
    siftDown lt (siftUp lt a' p) p
  else a.pop

def removePosOld (lt : κ → κ → Bool) (a : Array (Elem κ)) (p : Nat) : Array (Elem κ) :=
  if h : p + 1 < a.size then
    let a' := (a.swap p (a.size - 1) (by omega) (by omega)).pop
    siftDown lt a' p
  else a.pop

structure Heap (κ : Type) where
  arr : Array (Elem κ) := #[]
  next : Nat := 0

def Heap.empty : Heap κ := {}

def findIdx (a : Array (Elem κ)) (h : Nat) : Option Nat :=
  a.findIdx? (fun e => e.h == h)

def Heap.insert (lt : κ → κ → Bool) (s : Heap κ) (k : κ) : Heap κ :=
  let a := s.arr.push ⟨s.next, k⟩
  { arr := siftUp lt a (a.size - 1), next := s.next + 1 }

def Heap.insertMany (lt : κ → κ → Bool) (s : Heap κ) (ks : List κ) : Heap κ :=
  ks.foldl (Heap.insert lt) s

def Heap.pop (lt : κ → κ → Bool) (s : Heap κ) : Heap κ :=
  if s.arr.size = 0 then s else { s with arr := removePos lt s.arr 0 }

def Heap.remove (lt : κ → κ → Bool) (s : Heap κ) (h : Nat) : Heap κ :=
  match findIdx s.arr h with
  | some p => { s with arr := removePos lt s.arr p }
  | none => s

/-- the user changes `element->data` and calls `update(element)`. -/
def Heap.setKey (lt : κ → κ → Bool) (s : Heap κ) (h : Nat) (k : κ) : Heap κ :=
  match findIdx s.arr h with
  | some p =>
    if hp : p < s.arr.size then
      let a := s.arr.set p ⟨h, k⟩ hp
      { s with arr := siftDown lt (siftUp lt a p) p }
    else s
  | none => s

/-- the user changes several `element->data` without `update`, then calls `rebuild()`. -/
def pokeAll (a : Array (Elem κ)) : List (Nat × κ) → Array (Elem κ)
  | [] => a
  | (h, k) :: rest =>
    match findIdx a h with
    | some p => pokeAll (a.setIfInBounds p ⟨h, k⟩) rest
    | none => pokeAll a rest

def Heap.pokeRebuild (lt : κ → κ → Bool) (s : Heap κ) (chg : List (Nat × κ)) : Heap κ :=
  { s with arr := build lt (pokeAll s.arr chg) }

def freshElems (next : Nat) : List κ → List (Elem κ)
  | [] => []
  | k :: ks => ⟨next, k⟩ :: freshElems (next + 1) ks

def Heap.buildFrom (lt : κ → κ → Bool) (s : Heap κ) (ks : List κ) : Heap κ :=
  { arr := build lt (freshElems s.next ks).toArray, next := s.next + ks.length }

def Heap.clear (s : Heap κ) : Heap κ := { s with arr := #[] }

/-- drain: repeatedly record `top` and `pop`. -/
def drain (lt : κ → κ → Bool) : Nat → Array (Elem κ) → List (Elem κ)
  | 0, _ => []
  | n + 1, a =>
    if h : 0 < a.size then a[0] :: drain lt n (removePos lt a 0) else []

/-- `sort(list)`: fresh elements, `build`, drain; the heap itself is restored from the backup. -/
def Heap.sort (lt : κ → κ → Bool) (_s : Heap κ) (ks : List κ) : List κ :=
  let a := build lt (freshElems 0 ks).toArray
  (drain lt a.size a).map (·.key)

def Heap.top (s : Heap κ) : Option (Elem κ) := s.arr[0]?

def Heap.content (s : Heap κ) : List κ := s.arr.toList.map (·.key)

/-- operations of the public API, as one inductive type (the alphabet of "every finite
sequence of operations" in the property). -/
inductive Op (κ : Type) where
  | insert (k : κ)
  | insertMany (ks : List κ)
  | remove (h : Nat)
  | setKey (h : Nat) (k : κ)
  | pop
  | pokeRebuild (chg : List (Nat × κ))
  | buildFrom (ks : List κ)
  | sort (ks : List κ)
  | clear

def Heap.step (lt : κ → κ → Bool) (s : Heap κ) : Op κ → Heap κ
  | .insert k => s.insert lt k
  | .insertMany ks => s.insertMany lt ks
  | .remove h => s.remove lt h
  | .setKey h k => s.setKey lt h k
  | .pop => s.pop lt
  | .pokeRebuild chg => s.pokeRebuild lt chg
  | .buildFrom ks => s.buildFrom lt ks
  | .sort _ => s
  | .clear => s.clear

def Heap.run (lt : κ → κ → Bool) (s : Heap κ) (ops : List (Op κ)) : Heap κ :=
  ops.foldl (Heap.step lt) s

end OmplModel.Heap
