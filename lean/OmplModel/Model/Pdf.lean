/-
Model of `ompl::PDF<_T>` (src/ompl/datastructures/PDF.h).

Core Lean only (no Mathlib): this file is linked into the native driver `drv_pdf`.

State: `data` = `data_` (the handle stored at each position, in the structure's element order),
`idx h` = `Element::index_` of the element with handle `h` (`none` once deleted), `tree` = `tree_`
(row 0 = leaf weights, last row = the single total), `next` = number of elements ever created
(handles are numbered by order of creation on both sides).

Generic in the weight type through `WOps` (`+ - <` and `0`) and `WScale` (adds `*` and `1`, used
only by `sample` for `r *= total`): the driver runs it at `Float`, the theorems are proved for
ordered commutative groups / rings.

Abstractions (validated by the correspondence run, not assumed silently):
* the `for (row = 1; row < tree_.size(); ++row)` loops are written as structural recursions over
  the list of rows (`bump`, `addRows`, `popLoop`); `sample`'s top-down loop is the recursion
  `walk` over the bottom-up row list (the recursive call handles the rows above first), so the
  order of reads, comparisons and subtractions is that of the C++ loop;
* `sample` uses *checked* indexing: a read outside a row or outside `data_` yields `.oob`
  instead of a value.  The other operations index through guarded accesses whose guards are
  consequences of `ShapeInv`/`IdxSync` (proved in Props/C12); when a guard fails the model leaves
  the state unchanged (never reached from the empty structure);
* `sample` follows the code *with* the bound guard of fix F2 (`node + 1 < tree_[row].size() &&
  r > tree_[row][node]`); `sampleOld`/`walkOld` is the descent before the fix, kept for the
  `_fails` witness.
* `delete` is modelled by `idx h := none`; memory reuse is not modelled.
-/
namespace OmplModel.Pdf

/-- the operations of the weight type used by add/update/remove and by the descent. -/
class WOps (α : Type) where
  add : α → α → α
  sub : α → α → α
  lt : α → α → Bool
  zero : α

/-- `sample` additionally scales `r` by the total. -/
class WScale (α : Type) extends WOps α where
  mul : α → α → α
  one : α

instance : WScale Float where
  add := (· + ·)
  sub := (· - ·)
  lt := fun a b => decide (a < b)
  zero := 0.0
  mul := (· * ·)
  one := 1.0

structure Pdf (α : Type) where
  data : Array Nat := #[]
  idx : Nat → Option Nat := fun _ => none
  tree : List (Array α) := []
  next : Nat := 0

variable {α : Type}

def Pdf.empty : Pdf α := {}

def setIdx (f : Nat → Option Nat) (h : Nat) (v : Option Nat) : Nat → Option Nat :=
  fun k => if k = h then v else f k

/-- `row.back() = f(row.back())` -/
def modBack (f : α → α) (r : Array α) : Array α := r.modify (r.size - 1) f

/-- `for (row..) { tree_[row][index] += d; index >>= 1; }` over the rows from `row` upwards. -/
def bump [WOps α] (d : α) : List (Array α) → Nat → List (Array α)
  | [], _ => []
  | r :: rs, i => r.modify i (fun a => WOps.add a d) :: bump d rs (i / 2)

/-- the loop of `add` from row `i` upwards; `prev` is the (already extended) row `i-1`.
`[]`: the loop ran off the top, a new head `tree_.back()[0] + tree_.back()[1]` is appended. -/
def addRows [WOps α] (w : α) (prev : Array α) : List (Array α) → List (Array α)
  | [] =>
    match prev[0]?, prev[1]? with
    | some a, some b => [#[WOps.add a b]]
    | _, _ => []
  | r :: rs =>
    if prev.size % 2 = 1 then r.push w :: addRows w (r.push w) rs
    else (r :: rs).map (modBack (fun a => WOps.add a w))

def Pdf.add [WOps α] (s : Pdf α) (w : α) : Pdf α :=
  if WOps.lt w WOps.zero then s
  else
    { data := s.data.push s.next
      idx := setIdx s.idx s.next (some s.data.size)
      next := s.next + 1
      tree :=
        if s.data.size = 0 then s.tree ++ [#[w]]
        else
          match s.tree with
          | [] => []
          | r0 :: rs => r0.push w :: addRows w (r0.push w) rs }

def Pdf.update [WOps α] (s : Pdf α) (h : Nat) (w : α) : Pdf α :=
  match s.idx h with
  | none => s
  | some i =>
    if s.data.size ≤ i then s
    else
      match s.tree with
      | [] => s
      | r0 :: rs =>
        if hi : i < r0.size then
          { s with tree := r0.set i w hi :: bump (WOps.sub w r0[i]) rs (i / 2) }
        else s

/-- the pop loop of `remove` from row `i` upwards; `prevSize = tree_[i-1].size()` (already
popped).  The flag says whether the loop ended normally (then `tree_.pop_back()` follows). -/
def popLoop [WOps α] (weight : α) (prevSize : Nat) : List (Array α) → List (Array α) × Bool
  | [] => ([], true)
  | r :: rs =>
    if 1 < prevSize then
      if prevSize % 2 = 0 then
        (r.pop :: (popLoop weight r.pop.size rs).1, (popLoop weight r.pop.size rs).2)
      else ((r :: rs).map (modBack (fun a => WOps.sub a weight)), false)
    else (r :: rs, true)

/-- the tail of `remove`: pop the last leaf, run the pop loop, drop the head if it ended normally. -/
def popPhase [WOps α] (weight : α) (r0 : Array α) (rs : List (Array α)) : List (Array α) :=
  if (popLoop weight r0.pop.size rs).2 then (r0.pop :: (popLoop weight r0.pop.size rs).1).dropLast
  else r0.pop :: (popLoop weight r0.pop.size rs).1

def Pdf.remove [WOps α] (s : Pdf α) (h : Nat) : Pdf α :=
  match s.idx h with
  | none => s
  | some i =>
    if hd : i < s.data.size then
      if s.data.size = 1 then
        { s with data := #[], tree := [], idx := setIdx s.idx s.data[i] none }
      else
        match s.tree with
        | [] => s
        | r0 :: rs =>
          if hr : i < r0.size then
            let last := s.data.size - 1
            let lastr := r0.size - 1
            let idx1 := setIdx s.idx s.data[i] none
            if i + 1 = s.data.size then
              { s with data := s.data.pop, idx := idx1, tree := popPhase r0[lastr] r0 rs }
            else
              let data2 := s.data.swap i last hd (by omega)
              let idx2 := setIdx idx1 (s.data[last]'(by omega)) (some i)
              let r0' := r0.swap i lastr hr (by omega)
              if i + 2 = s.data.size ∧ i % 2 = 0 then
                -- siblings: weight = tree_.front().back() after the swap
                { s with data := data2.pop, idx := idx2, tree := popPhase r0[i] r0' rs }
              else
                -- weight = tree_.front()[index] after the swap (the moved element's weight)
                let weight := r0[lastr]
                let d := WOps.sub weight r0[i]
                { s with data := data2.pop, idx := idx2, tree := popPhase weight r0' (bump d rs (i / 2)) }
          else s
    else s

def Pdf.clear (s : Pdf α) : Pdf α := { s with data := #[], idx := fun _ => none, tree := [] }

def Pdf.size (s : Pdf α) : Nat := s.data.size

/-- `empty()` -/
def Pdf.isEmpty (s : Pdf α) : Bool := s.data.size == 0

/-- `operator[](i)`: the payload at position `i` (checked) -/
def Pdf.elemAt (s : Pdf α) (i : Nat) : Option Nat := s.data[i]?

/-- `PDF(d, weights)`: `add` in a loop on a fresh structure -/
def Pdf.ofWeights [WOps α] (ws : List α) : Pdf α := ws.foldl Pdf.add {}

/-- `getWeight(elem)`: `tree_.front()[elem->index_]` (checked). -/
def Pdf.getWeight (s : Pdf α) (h : Nat) : Option α :=
  match s.idx h with
  | none => none
  | some i =>
    match s.tree with
    | [] => none
    | r0 :: _ => r0[i]?

/-- one step of the fixed descent into row `c` from node `j` of the row above. -/
def stepDown [WOps α] (c : Array α) (j : Nat) (x : α) : Nat × α :=
  if h : 2 * j + 1 < c.size then
    if WOps.lt c[2 * j] x then (2 * j + 1, WOps.sub x c[2 * j]) else (2 * j, x)
  else (2 * j, x)

/-- the fixed descent: `walk rows x` = `(node, r)` at the level of the first row of `rows`. -/
def walk [WOps α] : List (Array α) → α → Nat × α
  | [], x => (0, x)
  | [_], x => (0, x)
  | c :: p :: rs, x => stepDown c (walk (p :: rs) x).1 (walk (p :: rs) x).2

/-- one step of the descent before fix F2: `if (r > tree_[row][node])` with a checked read. -/
def stepDownOld [WOps α] (c : Array α) (j : Nat) (x : α) : Option (Nat × α) :=
  match c[2 * j]? with
  | none => none
  | some v => if WOps.lt v x then some (2 * j + 1, WOps.sub x v) else some (2 * j, x)

def walkOld [WOps α] : List (Array α) → α → Option (Nat × α)
  | [], x => some (0, x)
  | [_], x => some (0, x)
  | c :: p :: rs, x =>
    match walkOld (p :: rs) x with
    | none => none
    | some (j, y) => stepDownOld c j y

inductive SampleRes where
  | ok (h : Nat)
  | errEmpty
  | errRange
  | oob
deriving Repr, DecidableEq

/-- `tree_[tree_.size()-1].front()` (checked). -/
def total? (t : List (Array α)) : Option α :=
  match t.getLast? with
  | none => none
  | some hd => hd[0]?

def Pdf.sample [WScale α] (s : Pdf α) (r : α) : SampleRes :=
  if s.data.size = 0 then .errEmpty
  else if WOps.lt r WOps.zero || WOps.lt WScale.one r then .errRange
  else
    match total? s.tree with
    | none => .oob
    | some tot =>
      match s.data[(walk s.tree (WScale.mul r tot)).1]? with
      | none => .oob
      | some h => .ok h

def Pdf.sampleOld [WScale α] (s : Pdf α) (r : α) : SampleRes :=
  if s.data.size = 0 then .errEmpty
  else if WOps.lt r WOps.zero || WOps.lt WScale.one r then .errRange
  else
    match total? s.tree with
    | none => .oob
    | some tot =>
      match walkOld s.tree (WScale.mul r tot) with
      | none => .oob
      | some (node, _) =>
        match s.data[node]? with
        | none => .oob
        | some h => .ok h

/-- the alphabet of "every finite sequence of add / update / remove / clear / sample". -/
inductive Op (α : Type) where
  | add (w : α)
  | update (h : Nat) (w : α)
  | remove (h : Nat)
  | clear
  | sample (r : α)

def Pdf.step [WOps α] (s : Pdf α) : Op α → Pdf α
  | .add w => s.add w
  | .update h w => s.update h w
  | .remove h => s.remove h
  | .clear => s.clear
  | .sample _ => s

def Pdf.run [WOps α] (s : Pdf α) (ops : List (Op α)) : Pdf α := ops.foldl Pdf.step s

end OmplModel.Pdf
