/-
`Num α`: the operations the numeric models use, so that every numeric definition is written once
and instantiated at `Float` (executed by the drivers; bit-identical to g++ `double` on this
toolchain) and at `ℝ`/`ℚ` (in the proof files, where the algebraic laws live).  Core Lean only.

Theorems that use no algebraic law of `α` ("arithmetic-free", [AF]) hold for the `Float`
instantiation too; theorems proved for `ℝ` ([EX]) leave exactly IEEE rounding unverified.
-/
namespace OmplModel

class Num (α : Type) extends Add α, Sub α, Mul α, Div α, Neg α, LT α, LE α where
  ofNat : Nat → α
  /-- `m * 10^(-e)` — decimal literals of the C++ source -/
  ofDec : Nat → Nat → α
  pi : α
  abs : α → α
  sqrt : α → α
  sin : α → α
  cos : α → α
  acos : α → α
  atan2 : α → α → α
  floor : α → α
  ceil : α → α
  /-- C `fmod` (sign of the dividend) -/
  fmod : α → α → α
  decLt : (a b : α) → Decidable (a < b)
  decLe : (a b : α) → Decidable (a ≤ b)
  /-- `(int)x` style conversions used for counts; `0` for non-finite input in the Float instance -/
  toInt : α → Int
  ofInt : Int → α

namespace Num
instance {α} [Num α] (a b : α) : Decidable (a < b) := Num.decLt a b
instance {α} [Num α] (a b : α) : Decidable (a ≤ b) := Num.decLe a b
instance {α} [Num α] (n : Nat) : OfNat α n := ⟨Num.ofNat n⟩
def two {α} [Num α] : α := Num.ofNat 2
def max {α} [Num α] (a b : α) : α := if a < b then b else a     -- std::max(a,b): (a < b) ? b : a
def min {α} [Num α] (a b : α) : α := if b < a then b else a     -- std::min(a,b): (b < a) ? b : a
end Num

/-- C `fmod` on doubles: `x - trunc(x/y)*y` is *not* how glibc computes it (it is exact); Lean has no
`Float.fmod`, so the driver instance computes the exact remainder through `Float.toRatParts`-free
arithmetic: for the magnitudes the models use (|x| ≤ 2^60·|y|) repeated exact subtraction of scaled
`y` is exact in binary floating point. -/
def floatFmod (x y : Float) : Float :=
  if y == 0 || x.isNaN || y.isNaN || x.isInf then (0.0 / 0.0)
  else if y.isInf then x
  else
    let ay := y.abs
    let rec go (r : Float) (fuel : Nat) : Float :=
      match fuel with
      | 0 => r
      | fuel + 1 =>
        if r < ay then r
        else
          -- largest ay*2^k ≤ r ; subtraction is exact (Sterbenz-like, r < 2*ay*2^k)
          let k := (r / ay).log2.floor
          let s0 := ay * Float.exp2 k
          let s := if s0 > r then s0 / 2 else s0
          go (r - s) fuel
    let r := go x.abs 2200
    if x.toBits >>> 63 == 1 then -r else r   -- sign of the dividend, also for a zero dividend (C: fmod(-0., y) = -0.)

instance : Num Float where
  ofNat := Float.ofNat
  ofDec m e := Float.ofScientific m true e
  pi := 3.14159265358979323846
  abs := Float.abs
  sqrt := Float.sqrt
  sin := Float.sin
  cos := Float.cos
  acos := Float.acos
  atan2 := Float.atan2
  floor := Float.floor
  ceil := Float.ceil
  fmod := floatFmod
  decLt a b := inferInstanceAs (Decidable (a < b))
  decLe a b := inferInstanceAs (Decidable (a ≤ b))
  toInt x := x.toInt64.toInt
  ofInt i := Float.ofInt i

end OmplModel
