/-
Model of state copying / cloning / (de)serialization / reals conversion / partial copies
(src/ompl/base/src/StateSpace.cpp, spaces/src/{RealVector,SO2,SO3,Time,Discrete}StateSpace.cpp,
spaces/WrapperStateSpace.h) and of the persisted archives (StateStorage.cpp, PlannerDataStorage.{h,cpp},
control/PlannerDataStorage.{h,cpp}, PlannerData.cpp start/goal bookkeeping).

Core Lean only (no Mathlib): linked into the native driver `drv_copy`.

What is modelled
* a space is a tree `Sp` (every node carries its name as a number: `N<nm>` in the harness);
  a state is a tree `St` of atoms (`f64 bits | i32`);
* `atoms`/`image` = `serialize` (component order = byte order), `deserialize` reads the byte image with the
  code's running offset (`l += components_[i]->getSerializationLength()`), `serLen`, `copyState`,
  `cloneState`, `addrAtIndex` = `getValueAddressAtIndex` (the compound double loop, literally),
  `valueLocations` = `computeLocationsHelper`, `copyToReals/copyFromReals`, `substateLocs`,
  `csd` / `csdNames` = the two `copyStateData` overloads, `signature`;
* archives at *record* granularity: header, one record per state / vertex / edge.

What is abstracted (and therefore only compared, or trusted)
* boost::archive byte framing (the harness enumerates byte-level truncations on the real code);
* addresses: `getValueAddressAtIndex` returns a path into the state tree instead of a `double*`;
* uninitialised memory of `allocState` is `0`;
* `WrapperStateSpace` around a *compound* space used as a component of another compound: the C++ code
  `static_cast`s the wrapper to `CompoundStateSpace` (undefined behaviour).  The model returns what the probe
  observed (no children, no value locations); theorems about locations / partial copies assume `Sp.ok`
  (no such node).  Recorded as finding F32.
-/
namespace OmplModel.Copy

inductive Atom where
  | f64 (bits : Nat)
  | i32 (v : Int)
deriving DecidableEq, Repr, Inhabited

inductive Sp where
  | real (nm : Nat) (n : Nat)
  | so2 (nm : Nat)
  | so3 (nm : Nat)
  | time (nm : Nat)
  | discrete (nm : Nat)
  | compound (nm : Nat) (cs : List Sp)
  | wrapper (nm : Nat) (s : Sp)
deriving Repr, Inhabited

inductive St where
  | leaf (as : List Atom)
  | comp (cs : List St)
  | wrap (s : St)
deriving Repr, Inhabited

/-- `StateSpace::getName()` through a base-class pointer (non-virtual: a wrapper has its own name). -/
def Sp.name : Sp → Nat
  | .real nm _ => nm | .so2 nm => nm | .so3 nm => nm | .time nm => nm | .discrete nm => nm
  | .compound nm _ => nm | .wrapper nm _ => nm

/-- the virtual `isCompound()`: a wrapper answers for the wrapped space. -/
def Sp.isComp : Sp → Bool
  | .compound _ _ => true
  | .wrapper _ s => s.isComp
  | _ => false

/-! ### bytes -/

def leBytes : Nat → Nat → List Nat
  | 0, _ => []
  | k + 1, n => n % 256 :: leBytes k (n / 256)

def leVal : List Nat → Nat
  | [] => 0
  | b :: bs => b + 256 * leVal bs

def toI32 (u : Nat) : Int := if u < 2147483648 then (u : Int) else (u : Int) - 4294967296

def Atom.bytes : Atom → List Nat
  | .f64 b => leBytes 8 b
  | .i32 v => leBytes 4 (v % 4294967296).toNat

def Atom.okF : Atom → Bool
  | .f64 b => decide (b < 18446744073709551616)
  | .i32 _ => false

def Atom.okI : Atom → Bool
  | .f64 _ => false
  | .i32 v => decide (-2147483648 ≤ v) && decide (v < 2147483648)

/-! ### sizes -/

mutual
/-- `getSerializationLength()` in bytes -/
def serLen : Sp → Nat
  | .real _ n => 8 * n
  | .so2 _ => 8
  | .so3 _ => 32
  | .time _ => 8
  | .discrete _ => 4
  | .compound _ cs => serLenL cs
  | .wrapper _ s => serLen s
def serLenL : List Sp → Nat
  | [] => 0
  | c :: cs => serLen c + serLenL cs
end

mutual
/-- `getDimension()` -/
def dim : Sp → Nat
  | .real _ n => n
  | .so2 _ => 1
  | .so3 _ => 3
  | .time _ => 1
  | .discrete _ => 1
  | .compound _ cs => dimL cs
  | .wrapper _ s => dim s
def dimL : List Sp → Nat
  | [] => 0
  | c :: cs => dim c + dimL cs
end

mutual
/-- number of `double`s reachable through `getValueAddressAtIndex` -/
def nReals : Sp → Nat
  | .real _ n => n
  | .so2 _ => 1
  | .so3 _ => 4
  | .time _ => 1
  | .discrete _ => 0
  | .compound _ cs => nRealsL cs
  | .wrapper _ s => nReals s
def nRealsL : List Sp → Nat
  | [] => 0
  | c :: cs => nReals c + nRealsL cs
end

/-! ### shape -/

mutual
/-- the state was allocated by this space and holds representable values -/
def fits : Sp → St → Bool
  | .real _ n, .leaf as => decide (as.length = n) && as.all Atom.okF
  | .so2 _, .leaf as => decide (as.length = 1) && as.all Atom.okF
  | .so3 _, .leaf as => decide (as.length = 4) && as.all Atom.okF
  | .time _, .leaf as => decide (as.length = 1) && as.all Atom.okF
  | .discrete _, .leaf as => decide (as.length = 1) && as.all Atom.okI
  | .compound _ cs, .comp sts => fitsL cs sts
  | .wrapper _ s, .wrap st => fits s st
  | _, _ => false
def fitsL : List Sp → List St → Bool
  | [], [] => true
  | c :: cs, s :: ss => fits c s && fitsL cs ss
  | _, _ => false
end

mutual
/-- `allocState()` (uninitialised memory read as zero) -/
def allocState : Sp → St
  | .real _ n => .leaf (List.replicate n (.f64 0))
  | .so2 _ => .leaf [.f64 0]
  | .so3 _ => .leaf [.f64 0, .f64 0, .f64 0, .f64 0]
  | .time _ => .leaf [.f64 0]
  | .discrete _ => .leaf [.i32 0]
  | .compound _ cs => .comp (allocStateL cs)
  | .wrapper _ s => .wrap (allocState s)
def allocStateL : List Sp → List St
  | [] => []
  | c :: cs => allocState c :: allocStateL cs
end

/-! ### serialize / deserialize -/

mutual
/-- `serialize`, as the list of atoms in the byte order of the image -/
def atoms : Sp → St → List Atom
  | .real _ _, .leaf as => as
  | .so2 _, .leaf as => as
  | .so3 _, .leaf as => as
  | .time _, .leaf as => as
  | .discrete _, .leaf as => as
  | .compound _ cs, .comp sts => atomsL cs sts
  | .wrapper _ s, .wrap st => atoms s st
  | _, _ => []
def atomsL : List Sp → List St → List Atom
  | c :: cs, s :: ss => atoms c s ++ atomsL cs ss
  | _, _ => []
end

def bytesOf (as : List Atom) : List Nat := as.flatMap Atom.bytes

/-- the serialized byte image -/
def image (sp : Sp) (st : St) : List Nat := bytesOf (atoms sp st)

def decF64s : Nat → List Nat → List Atom
  | 0, _ => []
  | n + 1, img => .f64 (leVal (img.take 8)) :: decF64s n (img.drop 8)

mutual
/-- `deserialize(state, serialization)`; the compound case advances by the component's
`getSerializationLength()` exactly as the code does. -/
def deserialize : Sp → List Nat → St
  | .real _ n, img => .leaf (decF64s n img)
  | .so2 _, img => .leaf (decF64s 1 img)
  | .so3 _, img => .leaf (decF64s 4 img)
  | .time _, img => .leaf (decF64s 1 img)
  | .discrete _, img => .leaf [.i32 (toI32 (leVal (img.take 4)))]
  | .compound _ cs, img => .comp (deserializeL cs img)
  | .wrapper _ s, img => .wrap (deserialize s img)
def deserializeL : List Sp → List Nat → List St
  | [], _ => []
  | c :: cs, img => deserialize c img :: deserializeL cs (img.drop (serLen c))
end

/-! ### copyState / cloneState -/

mutual
def copyState : Sp → St → St → St
  | .real _ _, .leaf _, .leaf s => .leaf s
  | .so2 _, .leaf _, .leaf s => .leaf s
  | .so3 _, .leaf _, .leaf s => .leaf s
  | .time _, .leaf _, .leaf s => .leaf s
  | .discrete _, .leaf _, .leaf s => .leaf s
  | .compound _ cs, .comp ds, .comp ss => .comp (copyStateL cs ds ss)
  | .wrapper _ s, .wrap d, .wrap x => .wrap (copyState s d x)
  | _, d, _ => d
def copyStateL : List Sp → List St → List St → List St
  | c :: cs, d :: ds, s :: ss => copyState c d s :: copyStateL cs ds ss
  | _, ds, _ => ds
end

def cloneState (sp : Sp) (src : St) : St := copyState sp (allocState sp) src

/-! ### addresses inside a state tree

An address is the list of child indices from the root (`0` through a wrapper) followed by the atom
index inside the leaf. -/

mutual
def St.get : St → List Nat → Option Atom
  | .leaf as, [k] => as[k]?
  | .comp cs, i :: rest => St.getL cs i rest
  | .wrap s, 0 :: rest => s.get rest
  | _, _ => none
def St.getL : List St → Nat → List Nat → Option Atom
  | [], _, _ => none
  | s :: _, 0, rest => s.get rest
  | _ :: ss, i + 1, rest => St.getL ss i rest
end

mutual
def St.set : St → List Nat → Atom → St
  | .leaf as, [k], a => .leaf (as.set k a)
  | .comp cs, i :: rest, a => .comp (St.setL cs i rest a)
  | .wrap s, 0 :: rest, a => .wrap (s.set rest a)
  | st, _, _ => st
def St.setL : List St → Nat → List Nat → Atom → List St
  | [], _, _, _ => []
  | s :: ss, 0, rest, a => s.set rest a :: ss
  | s :: ss, i + 1, rest, a => s :: St.setL ss i rest a
end

/-- `CompoundStateSpace::getValueAddressAtIndex`, inner loop `for (j = 0; j <= index; ++j)` over one
component (`f = components_[i]->getValueAddressAtIndex(·)`): either the address is found
(`idx == index`) or the running `idx` is returned. -/
def scanInner (f : Nat → Option (List Nat)) (index : Nat) : (fuel j idx : Nat) → Sum (List Nat) Nat
  | 0, _, idx => .inr idx
  | fuel + 1, j, idx =>
    if j ≤ index then
      match f j with
      | some a => if idx = index then .inl a else scanInner f index fuel (j + 1) (idx + 1)
      | none => .inr idx
    else .inr idx

mutual
/-- `getValueAddressAtIndex(state, index)` as an address -/
def addrAtIndex : Sp → Nat → Option (List Nat)
  | .real _ n, i => if i < n then some [i] else none
  | .so2 _, i => if i = 0 then some [0] else none
  | .so3 _, i => if i < 4 then some [i] else none
  | .time _, i => if i = 0 then some [0] else none
  | .discrete _, _ => none
  | .wrapper _ s, i => (addrAtIndex s i).map (0 :: ·)
  | .compound _ cs, index => scanComps cs 0 index 0
/-- outer loop `for (i = 0; i < componentCount_; ++i)` -/
def scanComps : List Sp → (i index idx : Nat) → Option (List Nat)
  | [], _, _, _ => none
  | c :: cs, i, index, idx =>
    match scanInner (addrAtIndex c) index (index + 1) 0 idx with
    | .inl a => some (i :: a)
    | .inr idx' => scanComps cs (i + 1) index idx'
end

/-! ### value locations (`computeLocationsHelper`) -/

structure Loc where
  chain : List Nat
  index : Nat
deriving DecidableEq, Repr

/-- `while (s->getValueAddressAtIndex(test, ++loc.index) != nullptr)`: how many consecutive indices
from `k` are non-null (fuel-bounded). -/
def countFrom (f : Nat → Option (List Nat)) : (fuel k : Nat) → Nat
  | 0, _ => 0
  | fuel + 1, k => match f k with
    | some _ => 1 + countFrom f fuel (k + 1)
    | none => 0

/-- locations contributed by a non-compound node -/
def leafLocs (sp : Sp) (chain : List Nat) : List Loc :=
  if (addrAtIndex sp 0).isSome && !sp.isComp then
    (List.range (countFrom (addrAtIndex sp) (nReals sp + 1) 0)).map (fun k => ⟨chain, k⟩)
  else []

mutual
def locs : Sp → List Nat → List Loc
  | .compound _ cs, chain => locsL cs chain 0
  | .real nm n, chain => leafLocs (.real nm n) chain
  | .so2 nm, chain => leafLocs (.so2 nm) chain
  | .so3 nm, chain => leafLocs (.so3 nm) chain
  | .time nm, chain => leafLocs (.time nm) chain
  | .discrete nm, chain => leafLocs (.discrete nm) chain
  | .wrapper nm s, chain => leafLocs (.wrapper nm s) chain
def locsL : List Sp → List Nat → Nat → List Loc
  | [], _, _ => []
  | c :: cs, chain, i => locs c (chain ++ [i]) ++ locsL cs chain (i + 1)
end

/-- `getValueLocations()`; `WrapperStateSpace::setup` copies the wrapped space's list. -/
def valueLocations : Sp → List Loc
  | .wrapper _ s => valueLocations s
  | sp => locs sp []

mutual
/-- the space node reached by a chain of compound component indices -/
def nodeAt : Sp → List Nat → Option Sp
  | sp, [] => some sp
  | .compound _ cs, i :: rest => nodeAtL cs i rest
  | _, _ :: _ => none
def nodeAtL : List Sp → Nat → List Nat → Option Sp
  | [], _, _ => none
  | c :: _, 0, rest => nodeAt c rest
  | _ :: cs, i + 1, rest => nodeAtL cs i rest
end

/-- `getValueAddressAtLocation` as an address (wrappers unwrap the state first) -/
def resolve : Sp → Loc → Option (List Nat)
  | .wrapper _ s, loc => (resolve s loc).map (0 :: ·)
  | sp, loc =>
    match nodeAt sp loc.chain with
    | some node => (addrAtIndex node loc.index).map (loc.chain ++ ·)
    | none => none

def readBits (st : St) (a : Option (List Nat)) : Nat :=
  match a with
  | some p => match st.get p with
    | some (.f64 b) => b
    | _ => 0
  | none => 0

/-- `copyToReals` (bit patterns) -/
def copyToReals (sp : Sp) (st : St) : List Nat :=
  (valueLocations sp).map (fun loc => readBits st (resolve sp loc))

def writeAll (sp : Sp) : St → List Loc → List Nat → St
  | st, loc :: ls, r :: rs =>
    match resolve sp loc with
    | some p => writeAll sp (st.set p (.f64 r)) ls rs
    | none => writeAll sp st ls rs
  | st, _, _ => st

/-- `copyFromReals` -/
def copyFromReals (sp : Sp) (st : St) (reals : List Nat) : St :=
  writeAll sp st (valueLocations sp) reals

/-! ### value locations with the proposed repair of F32

`notes/C09-fix-F32.diff` makes the helpers of StateSpace.cpp descend only into objects that really are
`CompoundStateSpace`s (`dynamic_cast`); a wrapper is then an opaque leaf whose doubles are enumerated through its own
`getValueAddressAtIndex`, whatever it wraps.  The driver uses these definitions when the check has observed the
repaired behaviour on the code under test (header `copy wc=fixed`), the ones above otherwise (`copy wc=ub`). -/

def leafLocsF (sp : Sp) (chain : List Nat) : List Loc :=
  if (addrAtIndex sp 0).isSome then
    (List.range (countFrom (addrAtIndex sp) (nReals sp + 1) 0)).map (fun k => ⟨chain, k⟩)
  else []

mutual
def locsF : Sp → List Nat → List Loc
  | .compound _ cs, chain => locsLF cs chain 0
  | .real nm n, chain => leafLocsF (.real nm n) chain
  | .so2 nm, chain => leafLocsF (.so2 nm) chain
  | .so3 nm, chain => leafLocsF (.so3 nm) chain
  | .time nm, chain => leafLocsF (.time nm) chain
  | .discrete nm, chain => leafLocsF (.discrete nm) chain
  | .wrapper nm s, chain => leafLocsF (.wrapper nm s) chain
def locsLF : List Sp → List Nat → Nat → List Loc
  | [], _, _ => []
  | c :: cs, chain, i => locsF c (chain ++ [i]) ++ locsLF cs chain (i + 1)
end

def valueLocationsF : Sp → List Loc
  | .wrapper _ s => valueLocationsF s
  | sp => locsF sp []

def copyToRealsF (sp : Sp) (st : St) : List Nat :=
  (valueLocationsF sp).map (fun loc => readBits st (resolve sp loc))

def copyFromRealsF (sp : Sp) (st : St) (reals : List Nat) : St :=
  writeAll sp st (valueLocationsF sp) reals

/-! ### ScopedState: `reals()` and `operator=(const std::vector<double>&)`

Both walk `getValueAddressAtIndex(state, 0), (…, 1), …` of the *top-level* space until it returns null (they do not use the
value-location table). -/

/-- `ScopedState::reals()` -/
def scopedReals (sp : Sp) (st : St) : List Nat :=
  (List.range (countFrom (addrAtIndex sp) (nReals sp + 1) 0)).map (fun i => readBits st (addrAtIndex sp i))

/-- `ScopedState::operator=(reals)`: sets the first `reals.size()` doubles, stops at the first null address -/
def scopedAssign (sp : Sp) : St → Nat → List Nat → St
  | st, i, r :: rs =>
    match addrAtIndex sp i with
    | some p => scopedAssign sp (st.set p (.f64 r)) (i + 1) rs
    | none => st
  | st, _, [] => st

/-! ### substate locations by name -/

mutual
/-- `substateMap[s->getName()] = loc.stateLocation` in visiting order (later entries overwrite) -/
def subLocs : Sp → List Nat → List (Nat × List Nat)
  | .compound nm cs, chain => (nm, chain) :: subLocsL cs chain 0
  | .real nm _, chain => [(nm, chain)]
  | .so2 nm, chain => [(nm, chain)]
  | .so3 nm, chain => [(nm, chain)]
  | .time nm, chain => [(nm, chain)]
  | .discrete nm, chain => [(nm, chain)]
  | .wrapper nm _, chain => [(nm, chain)]
def subLocsL : List Sp → List Nat → Nat → List (Nat × List Nat)
  | [], _, _ => []
  | c :: cs, chain, i => subLocs c (chain ++ [i]) ++ subLocsL cs chain (i + 1)
end

def substateLocs : Sp → List (Nat × List Nat)
  | .wrapper _ s => substateLocs s
  | sp => subLocs sp []

/-- `std::map::find` after the insertions above: the last entry with that name -/
def findSub (m : List (Nat × List Nat)) (nm : Nat) : Option (List Nat) :=
  m.foldl (fun acc e => if e.1 = nm then some e.2 else acc) none

/- the top-level state seen by `getSubstateAtLocation` (a top-level wrapper is *not* unwrapped by
`StateSpace::getSubstateAtLocation`; the harness only uses the names overload on unwrapped spaces) -/
mutual
def St.sub : St → List Nat → Option St
  | st, [] => some st
  | .comp cs, i :: rest => St.subL cs i rest
  | _, _ :: _ => none
def St.subL : List St → Nat → List Nat → Option St
  | [], _, _ => none
  | s :: _, 0, rest => s.sub rest
  | _ :: ss, i + 1, rest => St.subL ss i rest
end

mutual
def St.setSub : St → List Nat → St → St
  | _, [], x => x
  | .comp cs, i :: rest, x => .comp (St.setSubL cs i rest x)
  | st, _ :: _, _ => st
def St.setSubL : List St → Nat → List Nat → St → List St
  | [], _, _, _ => []
  | s :: ss, 0, rest, x => s.setSub rest x :: ss
  | s :: ss, i + 1, rest, x => s :: St.setSubL ss i rest x
end

/-! ### copyStateData -/

/-- `AdvancedStateCopyOperation` -/
inductive CopyRes where
  | none | some | all
deriving DecidableEq, Repr

def CopyRes.code : CopyRes → Nat
  | .none => 0 | .some => 1 | .all => 2

/-- the overload with an explicit list of subspace names -/
def csdNames (destS : Sp) (dest : St) (srcS : Sp) (src : St) (names : List Nat) : St × CopyRes :=
  let dl := substateLocs destS
  let sl := substateLocs srcS
  let step := fun (acc : St × Nat) (nm : Nat) =>
    match findSub dl nm, findSub sl nm with
    | some dc, some sc =>
      match nodeAt destS dc, acc.1.sub dc, src.sub sc with
      | some node, some dsub, some ssub => (acc.1.setSub dc (copyState node dsub ssub), acc.2 + 1)
      | _, _, _ => (acc.1, acc.2 + 1)
    | _, _ => acc
  let r := names.foldl step (dest, 0)
  (r.1, if r.2 = names.length then .all else if r.2 > 0 then .some else .none)

/-! #### the names overload on top-level wrappers (with the proposed repair of F105)

`WrapperStateSpace::setup` copies the wrapped space's name → location table, whose chains are relative to the *wrapped*
state.  With `getSubstateAtLocation` virtual and overridden by the wrapper (`notes/C09-fix-F105.diff`) the wrapper's state
is unwrapped first, so the copy happens between the wrapped states.  (Today the non-virtual function walks the wrapper's
state as a `CompoundState`: undefined behaviour, finding F105; the driver uses `csdNamesW` only for the dedicated probe.) -/

def Sp.unwrap : Sp → Sp
  | .wrapper _ s => s.unwrap
  | sp => sp

/-- the state inside the top-level wrappers of `sp` -/
def St.unwrapAs : Sp → St → St
  | .wrapper _ s, .wrap x => St.unwrapAs s x
  | _, st => st

/-- put a state of the wrapped space back inside the top-level wrappers of `sp` -/
def St.rewrapAs : Sp → St → St
  | .wrapper _ s, x => .wrap (St.rewrapAs s x)
  | _, x => x

def csdNamesW (destS : Sp) (dest : St) (srcS : Sp) (src : St) (names : List Nat) : St × CopyRes :=
  let r := csdNames destS.unwrap (St.unwrapAs destS dest) srcS.unwrap (St.unwrapAs srcS src) names
  (St.rewrapAs destS r.1, r.2)

/-- index of the first component with the given name -/
def findChild : List Sp → Nat → Nat → Option Nat
  | [], _, _ => none
  | c :: cs, nm, i => if c.name = nm then some i else findChild cs nm (i + 1)

/-- components of a *genuine* compound node (what `as<CompoundStateSpace>()` is valid for) -/
def Sp.children : Sp → Option (List Sp)
  | .compound _ cs => some cs
  | _ => none

def St.children : St → List St
  | .comp cs => cs
  | _ => []

/-- the common head of `copyStateData(destS, dest, sourceS, source)` for a destination space given by its
name `dn`, its `copyState` (`cp dest src`) and its "if destS is compound" block `blk` (which returns the new
dest, the running `result` and whether it returned `ALL_DATA_COPIED`); `k` is the "if sourceS is compound"
tail. -/
def csdHead (dn : Nat) (cp : St → St → St) (blk : Sp → St → St → St × CopyRes × Bool)
    (srcS : Sp) (src dest : St) (k : St → CopyRes → St × CopyRes) : St × CopyRes :=
  if dn = srcS.name then (cp dest src, .all)
  else
    let r1 := blk srcS src dest
    if r1.2.2 then (r1.1, .all) else k r1.1 r1.2.1

mutual
/-- `copyStateData` for a fixed destination space, by recursion over the source space
(`copyStateData(destS, dest, compoundSourceS->getSubspace(i), compoundSource->components[i])`). -/
def csdS (dn : Nat) (cp : St → St → St) (blk : Sp → St → St → St × CopyRes × Bool) :
    Sp → St → St → St × CopyRes
  | .compound nm scs, src, dest =>
    csdHead dn cp blk (.compound nm scs) src dest (fun d1 res1 =>
      let r := csdSL dn cp blk scs src.children d1
      (r.1, if r.2.1 = scs.length then .all else if r.2.2 then .some else res1))
  | .real nm n, src, dest => csdHead dn cp blk (.real nm n) src dest (fun d1 res1 => (d1, res1))
  | .so2 nm, src, dest => csdHead dn cp blk (.so2 nm) src dest (fun d1 res1 => (d1, res1))
  | .so3 nm, src, dest => csdHead dn cp blk (.so3 nm) src dest (fun d1 res1 => (d1, res1))
  | .time nm, src, dest => csdHead dn cp blk (.time nm) src dest (fun d1 res1 => (d1, res1))
  | .discrete nm, src, dest => csdHead dn cp blk (.discrete nm) src dest (fun d1 res1 => (d1, res1))
  | .wrapper nm s, src, dest => csdHead dn cp blk (.wrapper nm s) src dest (fun d1 res1 => (d1, res1))
/-- the loop over the source's components: new dest, `copiedComponents`, "some res != NO_DATA_COPIED" -/
def csdSL (dn : Nat) (cp : St → St → St) (blk : Sp → St → St → St × CopyRes × Bool) :
    List Sp → List St → St → St × Nat × Bool
  | c :: cs, s :: ss, dest =>
    let r := csdS dn cp blk c s dest
    let rest := csdSL dn cp blk cs ss r.1
    (rest.1, (if r.2 = .all then 1 else 0) + rest.2.1, (r.2 != .none) || rest.2.2)
  | _, _, dest => (dest, 0, false)
end

mutual
/-- the "if destS is compound" block of `copyStateData`, by recursion over the destination space -/
def csdBlk : Sp → Sp → St → St → St × CopyRes × Bool
  | .compound _ dcs => fun srcS src dest =>
    match findChild dcs srcS.name 0 with
    | some i =>
      let ds := dest.children
      (.comp (ds.set i (copyState (dcs.getD i default) (ds.getD i default) src)), .all, true)
    | none =>
      let r := csdDL dcs srcS src dest.children
      (.comp r.1, r.2.1, r.2.2)
  | _ => fun _ _ dest => (dest, .none, false)
/-- the loop over the destination's components with the whole source -/
def csdDL : List Sp → Sp → St → List St → List St × CopyRes × Bool
  | c :: cs, srcS, src, d :: ds =>
    let r := csdS c.name (copyState c) (csdBlk c) srcS src d
    if r.2 = .all then (r.1 :: ds, .all, true)
    else
      let rest := csdDL cs srcS src ds
      (r.1 :: rest.1, (if r.2 != .none then CopyRes.some else rest.2.1), rest.2.2)
  | _, _, _, ds => (ds, .none, false)
end

/-- the recursive `copyStateData(destS, dest, sourceS, source)` -/
def csd (destS : Sp) (dest : St) (srcS : Sp) (src : St) : St × CopyRes :=
  csdS destS.name (copyState destS) (csdBlk destS) srcS src dest

/-! ### getCommonSubspaces -/

mutual
/-- names of the nodes `StateSpaceIncludes`' breadth-first walk visits (genuine compound nodes are descended into) -/
def spNames : Sp → List Nat
  | .compound nm cs => nm :: spNamesL cs
  | .real nm _ => [nm]
  | .so2 nm => [nm]
  | .so3 nm => [nm]
  | .time nm => [nm]
  | .discrete nm => [nm]
  | .wrapper nm _ => [nm]
def spNamesL : List Sp → List Nat
  | [] => []
  | c :: cs => spNames c ++ spNamesL cs
end

/-- `StateSpaceIncludes(self, other)` -/
def includes (self other : Sp) : Bool := (spNames self).contains other.name

mutual
/-- `StateSpaceCovers(self, other)`: included, or a compound all of whose components are covered (an empty compound
is covered by anything) -/
def covers (self : Sp) : Sp → Bool
  | .compound nm cs => includes self (.compound nm cs) || coversL self cs
  | .real nm n => includes self (.real nm n)
  | .so2 nm => includes self (.so2 nm)
  | .so3 nm => includes self (.so3 nm)
  | .time nm => includes self (.time nm)
  | .discrete nm => includes self (.discrete nm)
  | .wrapper nm s => includes self (.wrapper nm s)
def coversL (self : Sp) : List Sp → Bool
  | [] => true
  | c :: cs => covers self c && coversL self cs
end

/-- `CompareSubstateLocation`: larger dimension first, then larger name (the code compares the name *strings*; the
model compares the numbers — only the order of the result depends on it, which the driver does not print) -/
def cslLess (a b : Sp) : Bool :=
  if dim a ≠ dim b then decide (dim a > dim b) else decide (a.name > b.name)

/-- `std::set::insert` under `CompareSubstateLocation`: an element equivalent to a present one is dropped -/
def cslInsert (x : Sp) : List Sp → List Sp
  | [] => [x]
  | y :: ys =>
    if cslLess x y then x :: y :: ys
    else if cslLess y x then y :: cslInsert x ys
    else y :: ys

/-- one pass of `for (it = begin …) for (jt = begin …) if (it != jt && Covers(it, jt)) { erase(jt); found = true;
break; }` — after an erase the outer loop goes on with the element after `it` (it does not restart).  `done` are the
elements already visited as `it` (still in the set, in set order), `it :: rest` those still to visit; the current set
is `done ++ it :: rest`.  Returns the set after the pass and `found`. -/
def erasePass : Nat → List Sp → List Sp → Bool → List Sp × Bool
  | 0, done, rest, found => (done ++ rest, found)
  | _ + 1, done, [], found => (done, found)
  | fuel + 1, done, it :: rest, found =>
    match (done ++ it :: rest).find? (fun jt => jt.name != it.name && covers it jt) with
    | some jt =>
      erasePass fuel (done.filter (fun x => x.name != jt.name) ++ [it]) (rest.filter (fun x => x.name != jt.name)) true
    | none => erasePass fuel (done ++ [it]) rest found

/-- the `while (found)` loop: passes until one erases nothing -/
def eraseCovered : Nat → List Sp → List Sp
  | 0, l => l
  | fuel + 1, l =>
    match erasePass (l.length + 1) [] l false with
    | (l', true) => eraseCovered fuel l'
    | (l', false) => l'

/-- `destS->getCommonSubspaces(srcS, subspaces)`: names present in both substate maps, minus those covered by
another one (the result as spaces of `destS`, in set order; the driver refuses top-level wrappers here) -/
def commonSubspaces (destS srcS : Sp) : List Sp :=
  let dm := substateLocs destS
  let sm := substateLocs srcS
  let inter := dm.foldl (fun acc e =>
    match findSub sm e.1, findSub dm e.1 with
    | some _, some chain =>
      match nodeAt destS chain with
      | some node => cslInsert node acc
      | none => acc
    | _, _ => acc) []
  eraseCovered inter.length inter

/-! ### signature -/

mutual
/-- `computeStateSpaceSignatureHelper` -/
def sigBody : Sp → List Int
  | .real _ n => [1, (n : Int)]
  | .so2 _ => [2, 1]
  | .so3 _ => [3, 3]
  | .time _ => [6, 1]
  | .discrete _ => [7, 1]
  | .compound _ cs => [0, (dimL cs : Int)] ++ sigBodyL cs
  | .wrapper _ s => [0, (dim s : Int)]
def sigBodyL : List Sp → List Int
  | [] => []
  | c :: cs => sigBody c ++ sigBodyL cs
end

/-- `computeSignature` (virtual: a top-level wrapper forwards to the wrapped space) -/
def signature : Sp → List Int
  | .wrapper _ s => signature s
  | sp => ((sigBody sp).length : Int) :: sigBody sp

/-! ### control spaces (only what the archive header needs: `ControlSpace::computeSignature`) -/

inductive Cs where
  | real (d : Nat)            -- RealVectorControlSpace(d): type CONTROL_SPACE_REAL_VECTOR = 1
  | discrete                  -- DiscreteControlSpace: type CONTROL_SPACE_DISCRETE = 2, dimension 1
  | compound (cs : List Cs)   -- CompoundControlSpace: type CONTROL_SPACE_UNKNOWN = 0
deriving Repr, Inhabited

mutual
def csDim : Cs → Nat
  | .real d => d
  | .discrete => 1
  | .compound cs => csDimL cs
def csDimL : List Cs → Nat
  | [] => 0
  | c :: cs => csDim c + csDimL cs
end

mutual
/-- `computeControlSpaceSignatureHelper` -/
def csSigBody : Cs → List Int
  | .real d => [1, (d : Int)]
  | .discrete => [2, 1]
  | .compound cs => [0, (csDimL cs : Int)] ++ csSigBodyL cs
def csSigBodyL : List Cs → List Int
  | [] => []
  | c :: cs => csSigBody c ++ csSigBodyL cs
end

/-- `ControlSpace::computeSignature` -/
def ctrlSignature (c : Cs) : List Int := ((csSigBody c).length : Int) :: csSigBody c

/-! ### archives (record granularity) -/

def markerStates : Nat := 0x4C504D4F     -- "OMPL"
def markerPD : Nat := 0x5044414D         -- "PDAM"
def markerPDC : Nat := 0x5044434D        -- "PDCM"

structure Header where
  marker : Nat
  vcount : Nat
  ecount : Nat
  signature : List Int
  ctrlSignature : List Int := []
deriving DecidableEq, Repr

/-- vertex type in the archive: 0 STANDARD, 1 START, 2 GOAL -/
structure VRec where
  tag : Int
  type : Nat
  img : List Nat
deriving DecidableEq, Repr

structure ERec where
  src : Nat
  dst : Nat
  weight : Nat
  /-- control edges: duration bits and the control's byte image -/
  ctrl : Option (Nat × List Nat) := none
deriving DecidableEq, Repr

inductive Rec where
  | header (h : Header)
  | state (img : List Nat)
  | vertex (v : VRec)
  | edge (e : ERec)
deriving DecidableEq, Repr

inductive LoadErr where
  | truncated
  | marker
  | signature
  | ctrlSignature
  | malformed
deriving DecidableEq, Repr

/-! #### StateStorage -/

def storeStates (sig : List Int) (imgs : List (List Nat)) : List Rec :=
  .header { marker := markerStates, vcount := imgs.length, ecount := 0, signature := sig } :: imgs.map .state

def readStates : Nat → List Rec → Except LoadErr (List (List Nat))
  | 0, _ => .ok []
  | _ + 1, [] => .error .truncated
  | n + 1, .state img :: rest =>
    match readStates n rest with
    | .ok xs => .ok (img :: xs)
    | .error e => .error e
  | _ + 1, _ :: _ => .error .malformed

/-- `StateStorage::load`: the error is what gets logged; on `.truncated` the real code keeps the states
read so far (see `readPrefix`). -/
def loadStates (sig : List Int) : List Rec → Except LoadErr (List (List Nat))
  | [] => .error .truncated
  | .header h :: rest =>
    if h.marker ≠ markerStates then .error .marker
    else if h.signature ≠ sig then .error .signature
    else readStates h.vcount rest
  | _ :: _ => .error .malformed

/-- the states the real `load` has added when the stream ends early -/
def readPrefix : List Rec → List (List Nat)
  | .state img :: rest => img :: readPrefix rest
  | _ => []

/-! #### PlannerData -/

structure Vertex where
  tag : Int
  img : List Nat
deriving DecidableEq, Repr

/-- the in-memory graph with the code's start/goal bookkeeping: `starts` and `goals` are kept sorted by
`markStartState` / `markGoalState` (the latter since fix 4a60b3f19, F29; `markGoalOld` is the code before it),
and both membership tests are `std::binary_search`. -/
structure Graph where
  verts : List Vertex := []
  edges : List ERec := []           -- in (source vertex, insertion) order, as `getEdges` enumerates them
  starts : List Nat := []
  goals : List Nat := []
deriving DecidableEq, Repr

/-- `std::lower_bound` over `a[first, first+len)` -/
def lowerBound (a : Array Nat) (x : Nat) : (fuel first len : Nat) → Nat
  | 0, first, _ => first
  | fuel + 1, first, len =>
    if len = 0 then first
    else
      let half := len / 2
      let mid := first + half
      if a.getD mid 0 < x then lowerBound a x fuel (mid + 1) (len - half - 1)
      else lowerBound a x fuel first half

/-- `std::binary_search` -/
def binSearch (l : List Nat) (x : Nat) : Bool :=
  let a := l.toArray
  let i := lowerBound a x (a.size + 1) 0 a.size
  decide (i < a.size) && !(decide (x < a.getD i 0))

def insertSorted (x : Nat) : List Nat → List Nat
  | [] => [x]
  | y :: ys => if x ≤ y then x :: y :: ys else y :: insertSorted x ys

def Graph.isStart (g : Graph) (i : Nat) : Bool := binSearch g.starts i
def Graph.isGoal (g : Graph) (i : Nat) : Bool := binSearch g.goals i

def Graph.addVertex (g : Graph) (v : Vertex) : Graph := { g with verts := g.verts ++ [v] }

/-- `markStartState`: push_back + sort (the list stays sorted) -/
def Graph.markStart (g : Graph) (i : Nat) : Graph :=
  if i < g.verts.length then
    if g.isStart i then g else { g with starts := insertSorted i g.starts }
  else g

/-- `markGoalState` (as fixed by 4a60b3f19): push_back + sort of the goal list (the list stays sorted) -/
def Graph.markGoal (g : Graph) (i : Nat) : Graph :=
  if i < g.verts.length then
    if g.isGoal i then g else { g with goals := insertSorted i g.goals }
  else g

/-- `markGoalState` before 4a60b3f19: push_back, and the *start* list was sorted again, so the goal list stayed in
marking order although `isGoalVertex` is a binary search.  Kept for the witness
`load_store_unsorted_goals_old_fails`; not used by the driver. -/
def Graph.markGoalOld (g : Graph) (i : Nat) : Graph :=
  if i < g.verts.length then
    if g.isGoal i then g else { g with goals := g.goals ++ [i] }
  else g

def Graph.edgeExists (g : Graph) (a b : Nat) : Bool := g.edges.any (fun e => e.src == a && e.dst == b)

/-- position at which an edge out of `a` is stored so that the list stays grouped by source vertex in
insertion order (`storeEdges` walks `fromVertex` ascending, `getEdges` in insertion order) -/
def insertEdge (e : ERec) : List ERec → List ERec
  | [] => [e]
  | x :: xs => if e.src < x.src then e :: x :: xs else x :: insertEdge e xs

/-- `addEdge(v1, v2, edge, weight)`; returns whether it was added -/
def Graph.addEdge (g : Graph) (e : ERec) : Graph × Bool :=
  if e.src ≥ g.verts.length || e.dst ≥ g.verts.length then (g, false)
  else if g.edgeExists e.src e.dst then (g, false)
  else ({ g with edges := insertEdge e g.edges }, true)

def shiftIdx (v : Nat) (i : Nat) : Nat := if i > v then i - 1 else i

/-- `removeVertex(vIndex)` -/
def Graph.removeVertex (g : Graph) (v : Nat) : Graph × Bool :=
  if v ≥ g.verts.length then (g, false)
  else
    ({ verts := g.verts.eraseIdx v
       edges := (g.edges.filter (fun e => e.src != v && e.dst != v)).map
                  (fun e => { e with src := shiftIdx v e.src, dst := shiftIdx v e.dst })
       starts := ((g.starts.erase v)).map (shiftIdx v)
       goals := ((g.goals.erase v)).map (shiftIdx v) }, true)

def Graph.removeEdge (g : Graph) (a b : Nat) : Graph × Bool :=
  if a ≥ g.verts.length || b ≥ g.verts.length then (g, false)
  else if g.edgeExists a b then ({ g with edges := g.edges.filter (fun e => !(e.src == a && e.dst == b)) }, true)
  else (g, false)

def Graph.setTag (g : Graph) (i : Nat) (t : Int) : Graph :=
  { g with verts := g.verts.modify i (fun v => { v with tag := t }) }

/-- `storeVertices`: `if isStartVertex … else if isGoalVertex … else STANDARD` -/
def vtype (g : Graph) (i : Nat) : Nat := if g.isStart i then 1 else if g.isGoal i then 2 else 0

def vrecs (g : Graph) : List VRec :=
  (List.range g.verts.length).zipWith (fun i v => { tag := v.tag, type := vtype g i, img := v.img }) g.verts

def storeGraph (marker : Nat) (sig csig : List Int) (g : Graph) : List Rec :=
  .header { marker := marker, vcount := g.verts.length, ecount := g.edges.length, signature := sig,
            ctrlSignature := csig }
    :: ((vrecs g).map .vertex ++ g.edges.map .edge)

def readVerts : Nat → List Rec → Except LoadErr (List VRec × List Rec)
  | 0, rs => .ok ([], rs)
  | _ + 1, [] => .error .truncated
  | n + 1, .vertex v :: rest =>
    match readVerts n rest with
    | .ok (vs, rs) => .ok (v :: vs, rs)
    | .error e => .error e
  | _ + 1, _ :: _ => .error .malformed

def readEdges : Nat → List Rec → Except LoadErr (List ERec)
  | 0, _ => .ok []
  | _ + 1, [] => .error .truncated
  | n + 1, .edge e :: rest =>
    match readEdges n rest with
    | .ok es => .ok (e :: es)
    | .error e => .error e
  | _ + 1, _ :: _ => .error .malformed

/-- `loadVertices`: addStartVertex / addGoalVertex / addVertex by the stored type -/
def addLoaded (g : Graph) (v : VRec) : Graph :=
  let i := g.verts.length
  let g1 := g.addVertex { tag := v.tag, img := v.img }
  if v.type = 1 then g1.markStart i else if v.type = 2 then g1.markGoal i else g1

def addLoadedEdges (g : Graph) (es : List ERec) : Graph := es.foldl (fun g e => (g.addEdge e).1) g

/-- `PlannerDataStorage::load` into a fresh `PlannerData` (`.error _` ⇔ returns `false`) -/
def loadGraph (marker : Nat) (sig csig : List Int) : List Rec → Except LoadErr Graph
  | [] => .error .truncated
  | .header h :: rest =>
    if h.marker ≠ marker then .error .marker
    else if h.signature ≠ sig then .error .signature
    else if h.ctrlSignature ≠ csig then .error .ctrlSignature
    else
      match readVerts h.vcount rest with
      | .error e => .error e
      | .ok (vs, rest') =>
        match readEdges h.ecount rest' with
        | .error e => .error e
        | .ok es => .ok (addLoadedEdges (vs.foldl addLoaded {}) es)
  | _ :: _ => .error .malformed

end OmplModel.Copy
