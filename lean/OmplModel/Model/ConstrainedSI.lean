import OmplModel.Model.ConstrainedAtlas
/-!
The glue between the constrained state spaces and the planners           src/ompl/base/ConstrainedSpaceInformation.h

  * `ConstrainedSpaceInformation::getMotionStates`          (Projected, Atlas)
  * `TangentBundleSpaceInformation::getMotionStates`        (every state of the lazy traversal is projected; prefix kept)
  * `TangentBundleSpaceInformation::checkMotion(s1, s2, lastValid)` (post-processing of `lastValid.first`)
  * `ConstrainedValidStateSampler::sample / sampleNear`     (rejection loop with `attempts_`)

Core Lean only.  As everywhere in this model: `discreteGeodesic` seen from outside is a `Geo σ S`, the
projection `TangentBundleStateSpace::project` is a stateful oracle `σ → S → Option (Bool × S × σ)`
(`none` = a null chart would be dereferenced; the state component is what the call left in the state
object, *whether or not it succeeded*), `isValid` / `isSatisfied` / the wrapped sampler are stateful oracles.
Branch order and short-circuit order are the source's.
-/
namespace OmplModel.Constrained

variable {σ S D : Type}

/-- `ConstrainedSpaceInformation::getMotionStates(s1, s2, states, count, endpoints, alloc)` called with an
empty `states` (count / alloc are ignored by the code):
```
bool success = discreteGeodesic(s1, s2, true, &states);
if (endpoints) { if (!success && states.empty()) states.push_back(clone(s1));
                 if (success) states.push_back(clone(s2)); }
```
(with `endpoints = false` the list still starts with the copy of `s1` the traversal itself stores). -/
def getMotionStates (geo : Geo σ S) (s : σ) (s1 s2 : S) (endpoints : Bool) : List S × σ :=
  let r := geo s s1 s2 true
  if endpoints then
    let a := if r.1 = false && r.2.1.isEmpty then r.2.1 ++ [s1] else r.2.1
    let b := if r.1 then a ++ [s2] else a
    (b, r.2.2)
  else (r.2.1, r.2.2)

/-- the loop `for (; it != temp.end(); ++it) { if (!atlas->project(*it)) break; states.push_back(*it); }`:
the projected prefix.  `none` = `project` dereferenced a null chart. -/
def projectPrefix (proj : σ → S → Option (Bool × S × σ)) : σ → List S → Option (List S × σ)
  | s, [] => some ([], s)
  | s, x :: xs =>
    match proj s x with
    | none => none
    | some p =>
      if p.1 then
        match projectPrefix proj p.2.2 xs with
        | none => none
        | some q => some (p.2.1 :: q.1, q.2)
      else some ([], p.2.2)

/-- `TangentBundleSpaceInformation::getMotionStates` (`endpoints` is ignored by the code). -/
def tbGetMotionStates (geo : Geo σ S) (proj : σ → S → Option (Bool × S × σ)) (s : σ) (s1 s2 : S) :
    Option (List S × σ) :=
  let r := geo s s1 s2 true
  let temp := if r.1 = false && r.2.1.isEmpty then [s1] else r.2.1
  projectPrefix proj r.2.2 temp

/-- `TangentBundleSpaceInformation::checkMotion(s1, s2, lastValid)`: `cm` is what
`motionValidator_->checkMotion(s1, s2, lastValid)` did (verdict, what it wrote to `lastValid`), `cur` is the content
of `*lastValid.first` before the call (`none` = null pointer).
```
if (!valid && lastValid.first != nullptr) { if (!atlas->project(lastValid.first)) valid = false; }
```
The state object is projected **in place**: whatever `project` leaves there is what the caller sees. -/
def tbSiCheckMotion (proj : σ → S → Option (Bool × S × σ)) (cur : Option S) (cm : CM2 σ S D) :
    Option (CM2 σ S D) :=
  if cm.verdict = false then
    match (match cm.first with | some x => some x | none => cur) with
    | none => some cm
    | some x =>
      match proj cm.st x with
      | none => none
      | some p => some { cm with first := some p.2.1, st := p.2.2 }
  else some cm

/-- the same with the repair proposed in notes/C16-fix-F460.diff: a copy of `s1` is taken before the validator runs
(`lastValid.first` may alias `s1`); when the projection fails, `*lastValid.first := s1` and `lastValid.second := 0`
("nothing beyond `s1` is known to be valid") instead of leaving the failed iterate there. -/
def tbSiCheckMotionFixed (proj : σ → S → Option (Bool × S × σ)) (zero : D) (cur : Option S) (s1 : S)
    (cm : CM2 σ S D) : Option (CM2 σ S D) :=
  if cm.verdict = false then
    match (match cm.first with | some x => some x | none => cur) with
    | none => some cm
    | some x =>
      match proj cm.st x with
      | none => none
      | some p =>
        if p.1 then some { cm with first := some p.2.1, st := p.2.2 }
        else some { cm with first := some s1, second := some zero, st := p.2.2 }
  else some cm

/-- one pass of the rejection loop's body: draw, then `si_->isValid(state) && constraint_->isSatisfied(state)`
(short-circuit). -/
def validAttempt (draw : σ → S × σ) (isValid isSat : σ → S → Bool × σ) (s : σ) : Bool × S × σ :=
  let d := draw s
  let v := isValid d.2 d.1
  if v.1 then
    let a := isSat v.2 d.1
    (a.1, d.1, a.2)
  else (false, d.1, v.2)

/-- `do draw; while (!(valid = …) && ++tries < attempts_);` — the argument is the number of *further* draws the
counter still allows.  Returns the verdict, the state left in `state`, the number of draws made. -/
def validSampleLoop (draw : σ → S × σ) (isValid isSat : σ → S → Bool × σ) : Nat → σ → Bool × S × Nat × σ
  | 0, s =>
    let a := validAttempt draw isValid isSat s
    (a.1, a.2.1, 1, a.2.2)
  | k + 1, s =>
    let a := validAttempt draw isValid isSat s
    if a.1 then (true, a.2.1, 1, a.2.2)
    else
      let r := validSampleLoop draw isValid isSat k a.2.2
      (r.1, r.2.1, r.2.2.1 + 1, r.2.2.2)

/-- `ConstrainedValidStateSampler::sample` / `sampleNear` (`draw` = the wrapped constrained sampler's
`sampleUniform` / `sampleUniformNear`); `tries` starts at 0 and is pre-incremented: `max 1 attempts` draws at most. -/
def validSample (draw : σ → S × σ) (isValid isSat : σ → S → Bool × σ) (attempts : Nat) (s : σ) :
    Bool × S × Nat × σ :=
  validSampleLoop draw isValid isSat (attempts - 1) s

end OmplModel.Constrained
