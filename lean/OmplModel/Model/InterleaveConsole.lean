import OmplModel.Model.Interleave
/-
C19 round 10b — the console (`src/ompl/util/src/Console.cpp`) in the interleaving model.  Core Lean only.

`msg::log()` holds the console mutex for the whole call — level test, formatting AND `output_handler_->log(...)` — so a
message is ONE guarded step (`logG`); `useOutputHandler`, `noOutputHandler`, `restorePreviousOutputHandler` are one guarded
step each.  The variant "snapshot the handler pointer under the lock, call it after releasing the lock" (seeded change
C19-s6) is `snap t · enter t · leave t`.  Handlers are natural numbers; the log level is left out (it only filters).

Observed quantities: `inside` (who is executing in which handler right now), `overlaps` (a handler was entered while
somebody was inside a handler: handlers carry no synchronisation of their own), `stale` (a replacement call returned
while a message was still being written by the handler it replaced: its owner may destroy it), `delivered`.
-/
namespace OmplModel.Interleave

inductive LStep where
  | logG (t : Nat)       -- whole `msg::log` under the lock: the current handler (if any) runs the message to completion
  | snap (t : Nat)       -- split form: under the lock, thread t copies the handler pointer
  | enter (t : Nat)      -- … and, outside the lock, enters that handler
  | leave (t : Nat)      -- … and leaves it (message delivered)
  | useH (h : Nat)       -- `useOutputHandler(h)`: previous := current; current := h
  | noH                  -- `noOutputHandler()`: previous := current; current := none
  | restore              -- `restorePreviousOutputHandler()`: swap
deriving DecidableEq, Repr

structure LStore where
  cur : Option Nat
  prev : Option Nat
  reg : Nat → Option Nat
  inside : List (Nat × Nat)        -- (thread, handler)
  overlaps : Nat
  stale : Nat
  delivered : List (Nat × Nat)     -- (handler, thread), in order of completion

def LStore.init (h : Option Nat) : LStore := ⟨h, none, fun _ => none, [], 0, 0, []⟩

/-- somebody is still executing inside the handler that is being replaced -/
def busyIn (s : LStore) : Nat :=
  match s.cur with
  | some h => if s.inside.any (fun p => p.2 == h) then 1 else 0
  | none => 0

def LStep.apply : LStep → LStore → LStore
  | .logG t, s =>
    match s.cur with
    | some h => { s with delivered := s.delivered ++ [(h, t)], overlaps := s.overlaps + (if s.inside.isEmpty then 0 else 1) }
    | none => s
  | .snap t, s => { s with reg := fun u => if u = t then s.cur else s.reg u }
  | .enter t, s =>
    match s.reg t with
    | some h => { s with inside := (t, h) :: s.inside, overlaps := s.overlaps + (if s.inside.isEmpty then 0 else 1) }
    | none => s
  | .leave t, s =>
    match s.reg t with
    | some h => { s with inside := s.inside.erase (t, h), delivered := s.delivered ++ [(h, t)] }
    | none => s
  | .useH h, s => { s with stale := s.stale + busyIn s, prev := s.cur, cur := some h }
  | .noH, s => { s with stale := s.stale + busyIn s, prev := s.cur, cur := none }
  | .restore, s => { s with stale := s.stale + busyIn s, prev := s.cur, cur := s.prev }

/-- the steps of the code as it is: every entry point is one guarded step -/
def LStep.guarded : LStep → Prop
  | .logG _ | .useH _ | .noH | .restore => True
  | _ => False

/-- number of messages in a step sequence -/
def logCount (l : List LStep) : Nat := (l.filter (fun a => match a with | .logG _ => true | _ => false)).length

/-- one message of thread `t` in the split form -/
def splitLog (t : Nat) : List LStep := [.snap t, .enter t, .leave t]

end OmplModel.Interleave
