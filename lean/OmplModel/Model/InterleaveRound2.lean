import OmplModel.Model.Interleave
/-
C19, second round of instances over the interleaving semantics of `Model/Interleave.lean`.  Core Lean only.

* `QStep` — `ProblemDefinition::PlannerSolutionSet` with `clear()`: guarded `add`/`clear` are one step each; the
  "optimistic" add (copy under the lock · sort outside · under the lock again: swap the copy in if the size is
  unchanged, else insert in place) is `readQ t` · `cswapQ t x`, i.e. a read-modify-write split over two critical
  sections.
* `RStep` — PRM's two-thread `solve` at lock granularity.  Roadmap thread: `lock; add vertex/edges; unlock` (`grow`,
  which may reallocate the storage behind `stateProperty_`: the generation counter).  Solution thread, as repaired
  (F38): `lock; sameComponent + read the two states; unlock` (`check`, one step); before the repair:
  `lock; sameComponent; unlock` (`checkComp`) · read the states without the lock (`readStates`).  What is logged is
  which storage each half read from.
* `TStep` — the periodic form of `PlannerTerminationCondition`: the evaluation thread calls the predicate
  (`callFn`: the answer, here always `false`, is in flight) and then stores it in the cache (`storeCache`);
  `terminate()` sets the flag (`setT`); `eval()` answers `terminate_ || cache` (`evalFixed`).  The cache-only
  variant: `terminate()` also writes the cache (`setTC`) and `eval()` answers from the cache alone (`evalCache`).
-/
namespace OmplModel.Interleave

/-! ## solution set with clear -/

inductive QStep where
  | add (x : Sol)               -- guarded add
  | clear                       -- guarded clear
  | readQ (t : Nat)             -- optimistic add, first critical section: thread t copies the list
  | cswapQ (t : Nat) (x : Sol)  -- second critical section: publish copy+x if the size is unchanged, else insert in place
deriving DecidableEq, Repr

def QStep.apply : QStep → SStore → SStore
  | .add x, s => { s with sols := insertSorted x s.sols }
  | .clear, s => { s with sols := [] }
  | .readQ t, s => { s with reg := fun u => if u = t then s.sols else s.reg u }
  | .cswapQ t x, s =>
    if s.sols.length = (s.reg t).length then { s with sols := insertSorted x (s.reg t) }
    else { s with sols := insertSorted x s.sols }

/-- the calls a thread makes on the shared solution set -/
inductive QOp where
  | add (x : Sol)
  | clear
deriving DecidableEq, Repr

def qSteps : Kind → Nat → QOp → List QStep
  | .plain, t, .add x => [.readQ t, .cswapQ t x]
  | _, _, .add x => [.add x]
  | _, _, .clear => [.clear]

def qThread (k : Kind) (t : Nat) (ops : List QOp) : List QStep := (ops.map (qSteps k t)).flatten

def qThreadsFrom (k : Kind) : Nat → List (List QOp) → List (List QStep)
  | _, [] => []
  | t, ops :: rest => qThread k t ops :: qThreadsFrom k (t + 1) rest

/-- thread family: thread `i` performs the calls `opss[i]` in order -/
def qThreads (k : Kind) (opss : List (List QOp)) : List (List QStep) := qThreadsFrom k 0 opss

/-- sequential meaning of a list of calls -/
def seqRun (l : List QOp) (init : List Sol) : List Sol :=
  l.foldl (fun acc o => match o with | .add x => insertSorted x acc | .clear => []) init

/-- the solutions added behind the last clear (newest first) -/
def live : List QOp → List Sol → List Sol
  | [], acc => acc
  | .add x :: r, acc => live r (x :: acc)
  | .clear :: r, _ => live r []

/-! ## PRM's two threads -/

structure RStore (S : Type) where
  verts : List S                                   -- storage behind `stateProperty_`
  gen : Nat                                        -- its generation: bumped when add_vertex reallocates
  pending : Option (Nat × List S)                  -- sameComponent was read from this storage, states not yet
  log : List ((Nat × List S) × (Nat × List S))     -- per solution check: storage of the component read, of the state read

inductive RStep (S : Type) where
  | grow (v : S) (realloc : Bool)   -- roadmap thread: lock; add_vertex (+ edges, components); unlock
  | check                           -- solution thread (repaired): lock; sameComponent; read states; unlock
  | checkComp                       -- solution thread (before F38): lock; sameComponent; unlock
  | readStates                      --   … then stateProperty_[goal], stateProperty_[start] without the lock

variable {S : Type}

def RStore.init : RStore S := ⟨[], 0, none, []⟩

def RStep.apply : RStep S → RStore S → RStore S
  | .grow v r, s => { s with verts := s.verts ++ [v], gen := if r then s.gen + 1 else s.gen }
  | .check, s => { s with log := s.log ++ [((s.gen, s.verts), (s.gen, s.verts))] }
  | .checkComp, s => { s with pending := some (s.gen, s.verts) }
  | .readStates, s =>
    match s.pending with
    | some p => { s with log := s.log ++ [(p, (s.gen, s.verts))], pending := none }
    | none => s

/-- roadmap thread adding the vertices `vs`; solution thread performing `n` checks -/
def prmThreads (repaired : Bool) (vs : List (S × Bool)) (n : Nat) : List (List (RStep S)) :=
  [vs.map (fun v => RStep.grow v.1 v.2),
   if repaired then List.replicate n .check else (List.replicate n [RStep.checkComp, RStep.readStates]).flatten]

/-! ## periodic termination condition -/

structure TStore where
  terminate : Bool
  cache : Bool
  reg : Bool            -- the predicate's answer in flight (between `fn_()` returning and `evalValue_ = …`)
  seen : List Bool

def TStore.init : TStore := ⟨false, false, false, []⟩

inductive TStep where
  | callFn        -- evaluation thread: reg := fn_()   (the predicate answers false)
  | storeCache    -- evaluation thread: evalValue_ := reg
  | setT          -- terminate(): terminate_ := true
  | setTC         -- cache-only variant: terminate_ := true; evalValue_ := true
  | evalFixed     -- eval(): terminate_ || evalValue_
  | evalCache     -- cache-only variant: evalValue_
deriving DecidableEq, Repr

def TStep.apply : TStep → TStore → TStore
  | .callFn, s => { s with reg := false }
  | .storeCache, s => { s with cache := s.reg }
  | .setT, s => { s with terminate := true }
  | .setTC, s => { s with terminate := true, cache := true }
  | .evalFixed, s => { s with seen := s.seen ++ [s.terminate || s.cache] }
  | .evalCache, s => { s with seen := s.seen ++ [s.cache] }

/-- thread 0: evaluation thread (`m` rounds), thread 1: `terminate()`, thread 2: a planner evaluating `n` times -/
def periodicThreads (cacheOnly : Bool) (m n : Nat) : List (List TStep) :=
  [(List.replicate m [TStep.callFn, TStep.storeCache]).flatten,
   [if cacheOnly then .setTC else .setT],
   List.replicate n (if cacheOnly then .evalCache else .evalFixed)]

/-- number of `eval`s behind the first termination request in a step sequence -/
def evalsAfterSet : List TStep → Nat
  | [] => 0
  | .setT :: rest => (rest.filter (fun a => a == .evalFixed || a == .evalCache)).length
  | .setTC :: rest => (rest.filter (fun a => a == .evalFixed || a == .evalCache)).length
  | _ :: rest => evalsAfterSet rest

/-! ## CForest's solution monitor: `CForest::newSolutionFound`

Every planner instance reports improved solutions from its own worker thread.  As written, the whole report —
compare with the best cost so far, and if better: count it, store the cost, collect the states — happens under
`newSolutionFoundMutex_`: one step (`report c`).  The check-then-act shape (compare without the mutex, update under it
without comparing again) is `cmp t c` · `act t c`.  Costs are naturals, `none` is the infinite initial cost;
`hist` records every value `bestCost_` takes. -/

structure MStore where
  best : Option Nat
  shared : Nat            -- numPathsShared_
  hist : List Nat         -- the successive values of bestCost_
  reg : Nat → Bool        -- per thread: outcome of its unlocked comparison

def MStore.init : MStore := ⟨none, 0, [], fun _ => false⟩

def betterThan (c : Nat) : Option Nat → Bool
  | none => true
  | some b => decide (c < b)

inductive MStep where
  | report (c : Nat)            -- lock; if better: count, store; unlock
  | cmp (t : Nat) (c : Nat)     -- unlocked comparison by thread t
  | act (t : Nat) (c : Nat)     -- lock; count, store (if the earlier comparison said "better"); unlock
deriving DecidableEq, Repr

def MStep.apply : MStep → MStore → MStore
  | .report c, s =>
    if betterThan c s.best then { s with best := some c, shared := s.shared + 1, hist := s.hist ++ [c] } else s
  | .cmp t c, s => { s with reg := fun u => if u = t then betterThan c s.best else s.reg u }
  | .act t c, s =>
    if s.reg t then { s with best := some c, shared := s.shared + 1, hist := s.hist ++ [c] } else s

/-- thread `i` reports the costs `css[i]` in order -/
def reportThreads (monitor : Bool) (css : List (List Nat)) : List (List MStep) :=
  let rec go : Nat → List (List Nat) → List (List MStep)
    | _, [] => []
    | t, cs :: rest =>
      (if monitor then cs.map MStep.report else (cs.map (fun c => [MStep.cmp t c, MStep.act t c])).flatten) :: go (t + 1) rest
  go 0 css

end OmplModel.Interleave
