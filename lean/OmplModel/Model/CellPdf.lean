import OmplModel.Model.PdfChecked
/-
The cell-PDF protocol shared by `geometric::SBL` (both trees), `control::EST` and `geometric::ProjEST`: a grid of
cells, each holding a vector of motions and the `elem_` handle of its PDF element; the PDF weight of a cell is
`1.0 / (number of motions in the cell)`.

  SBL::addMotion (SBL.cpp :332-352), control::EST::addMotion (:220-241), ProjEST::addMotion:
      cell = grid.getCell(coord)
      if (cell) { cell->data.push_back(motion); pdf.update(cell->data.elem_, 1.0 / cell->data.size()); }
      else      { cell = grid.createCell(coord); cell->data.push_back(motion); grid.add(cell);
                  cell->data.elem_ = pdf.add(cell, 1.0); }
  SBL::removeMotion (:276-304), per motion:
      cell = grid.getCell(coord)
      if (cell) { erase the motion from cell->data;
                  if (cell->data.empty()) { pdf.remove(cell->data.elem_); grid.remove(cell); grid.destroyCell(cell); }
                  else pdf.update(cell->data.elem_, 1.0 / cell->data.size()); }

Until round 10 the add / update / remove sequence these functions imply was derived by the Python check and only the
resulting PDF operations were replayed through the PDF model.  Here the protocol itself is the model: the state is the
grid as a lookup function `coord ↦ (motion count, elem_)` (`grid.getCell`; which motions sit in the vector does not
influence the PDF), the PDF element's payload `owner : handle ↦ coordinate` (`Element::data_` is the `GridCell*`), and
the PDF model.  `drv_pdf` runs it (header `cellpdf`) in lock-step with the real planners; the PDF edits go through the
CHECKED twins, an out-of-storage access prints `oob`.

Abstracted: the motion vector of a cell is its length; `1.0` / `1.0 / n` are the parameters `wOne` / `wCell n`
(`Float` in the driver).  Core Lean only.
-/
namespace OmplModel.CellPdf
open OmplModel.Pdf

abbrev Coord := List Int

structure Cfg (α : Type) where
  wOne : α
  wCell : Nat → α

structure St (α : Type) where
  /-- `grid.getCell(coord)`: `(cell->data.size(), cell->data.elem_)` -/
  cell : Coord → Option (Nat × Nat) := fun _ => none
  /-- the payload of the PDF element with this handle: the coordinate of its `GridCell` -/
  owner : Nat → Option Coord := fun _ => none
  pdf : Pdf α := {}

variable {α : Type}

def setAt {κ β : Type} [DecidableEq κ] (f : κ → β) (k : κ) (v : β) : κ → β := fun x => if x = k then v else f x

def addMotion [WOps α] (cfg : Cfg α) (st : St α) (c : Coord) : St α :=
  match st.cell c with
  | some (n, e) =>
    { st with cell := setAt st.cell c (some (n + 1, e)), pdf := st.pdf.update e (cfg.wCell (n + 1)) }
  | none =>
    { cell := setAt st.cell c (some (1, st.pdf.next)), owner := setAt st.owner st.pdf.next (some c),
      pdf := st.pdf.add cfg.wOne }

def removeMotion [WOps α] (cfg : Cfg α) (st : St α) (c : Coord) : St α :=
  match st.cell c with
  | none => st
  | some (n, e) =>
    if n ≤ 1 then
      { cell := setAt st.cell c none, owner := setAt st.owner e none, pdf := st.pdf.remove e }
    else
      { st with cell := setAt st.cell c (some (n - 1, e)), pdf := st.pdf.update e (cfg.wCell (n - 1)) }

/-- `clear()`: `grid.clear(); pdf.clear()` -/
def clear (st : St α) : St α := { cell := fun _ => none, owner := fun _ => none, pdf := st.pdf.clear }

inductive COp where
  | add (c : Coord)
  | remove (c : Coord)
  | clear

def step [WOps α] (cfg : Cfg α) (st : St α) : COp → St α
  | .add c => addMotion cfg st c
  | .remove c => removeMotion cfg st c
  | .clear => clear st

def run [WOps α] (cfg : Cfg α) (st : St α) (ops : List COp) : St α := ops.foldl (step cfg) st

/-- the specification side: how many motions a history leaves in the cell of coordinate `c` -/
def netStep (f : Coord → Nat) : COp → Coord → Nat
  | .add c => setAt f c (f c + 1)
  | .remove c => setAt f c (f c - 1)
  | .clear => fun _ => 0

def net (ops : List COp) : Coord → Nat := ops.foldl netStep (fun _ => 0)

/-- the same step through the checked twins of the PDF edits (what the driver runs): `none` = an access left the storage -/
def stepC [WOps α] (cfg : Cfg α) (st : St α) : COp → Option (St α)
  | .add c =>
    match st.cell c with
    | some (n, e) =>
      (st.pdf.updateC e (cfg.wCell (n + 1))).map fun p => { st with cell := setAt st.cell c (some (n + 1, e)), pdf := p }
    | none =>
      (st.pdf.addC cfg.wOne).map fun p =>
        { cell := setAt st.cell c (some (1, st.pdf.next)), owner := setAt st.owner st.pdf.next (some c), pdf := p }
  | .remove c =>
    match st.cell c with
    | none => some st
    | some (n, e) =>
      if n ≤ 1 then
        (st.pdf.removeC e).map fun p => { cell := setAt st.cell c none, owner := setAt st.owner e none, pdf := p }
      else
        (st.pdf.updateC e (cfg.wCell (n - 1))).map fun p =>
          { st with cell := setAt st.cell c (some (n - 1, e)), pdf := p }
  | .clear => some (clear st)

def runC [WOps α] (cfg : Cfg α) (st : St α) : List COp → Option (St α)
  | [] => some st
  | op :: ops =>
    match stepC cfg st op with
    | some s => runC cfg s ops
    | none => none

end OmplModel.CellPdf
