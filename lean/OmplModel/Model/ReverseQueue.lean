import OmplModel.Model.HeapAudit
/-
Model of ONE user of `BinaryHeap`, end to end: `ompl::geometric::eitstar::ReverseQueue`
(src/ompl/geometric/planners/informedtrees/eitstar/src/ReverseQueue.cpp), written over the heap model
`OmplModel.Heap` of C11.  Core Lean only (linked into `drv_revqueue`).

As coded:
* a heap element is the tuple (key0, key1, key2, key3, edge): here `RKey` = the 4-key `k` plus the edge's
  source/target state index.  The keys are COPIES computed from the vertex/state fields at the time of
  `insertOrUpdate` (`keyFn w s t`); changing a field later does not touch the stored key.
* every source vertex keeps the handles of its queued outgoing edges in `outgoingReverseQueueLookup_`
  (`lk[s]`, a vector: `emplace_back` on insert, swap-with-last + `pop_back` on pop, `clear()` on
  removeOutgoingEdges / clear).
* `updateIfExists`: `find_if` over the source's lookup for the first handle whose element's target is the edge's
  target; if found, overwrite the four stored keys in place and call `queue_.update(handle)` (= `Heap.setKey`:
  `setKey_eq_poke_update`).  `insertOrUpdate` inserts otherwise and records the handle.
* `pop`, `clear` (clears the lookups of the sources of all queued edges), `rebuild` (= getEdges in array order, clear,
  insertOrUpdate(edges): keys recomputed from the CURRENT fields), `removeOutgoingEdges` (heap `remove(handle)` for every
  handle of the vertex in lookup order), `setCostQueueOrder` (only on an empty queue; throws otherwise).
* the order is a parameter: `ltc` (cost order: key0, key1, key2) / `lte` (effort order: key2, key3, key0, key1), selected by
  `costOrd`.

Abstracted: handles are numbered by creation (as in the heap model); costs/efforts are exact (the driver uses `Nat`
fields, the harness integer-valued doubles far below 2^53 and efforts far below UINT_MAX: the saturation branches of
`computeAdmissibleSolutionEffort` are not modelled).
-/
namespace OmplModel.RevQ
open OmplModel.Heap

structure RKey (K : Type) where
  k : K
  s : Nat
  t : Nat
deriving Repr

structure RQ (K : Type) where
  heap : Heap (RKey K) := {}
  lk : Array (List Nat) := #[]      -- state index ↦ handles of its queued outgoing edges, in vector order
  costOrd : Bool := true

variable {K W : Type}

/-- the heap's comparison functor: compares the stored 4-keys only -/
def ltOf (ltc lte : K → K → Bool) (costOrd : Bool) : RKey K → RKey K → Bool :=
  fun a b => (if costOrd then ltc else lte) a.k b.k

def RQ.lt (ltc lte : K → K → Bool) (q : RQ K) : RKey K → RKey K → Bool := ltOf ltc lte q.costOrd

/-- target of the element behind a handle (reads through the handle, as `std::get<4>(p->data).target`) -/
def targetOf (a : Array (Elem (RKey K))) (h : Nat) : Option Nat :=
  match findIdx a h with
  | some p => a[p]?.map (·.key.t)
  | none => none

/-- `std::find_if` over the source's lookup: first handle whose element's target is `t` -/
def findHandle (a : Array (Elem (RKey K))) (lk : List Nat) (t : Nat) : Option Nat :=
  lk.find? (fun h => targetOf a h == some t)

/-- `insertOrUpdate(edge)` -/
def RQ.insertOrUpdate (ltc lte : K → K → Bool) (keyFn : W → Nat → Nat → K) (w : W) (q : RQ K) (s t : Nat) : RQ K :=
  match findHandle q.heap.arr (q.lk.getD s []) t with
  | some h =>
    -- updateIfExists: overwrite the stored keys in place, then queue_.update(handle)
    { q with heap := q.heap.setKey (q.lt ltc lte) h ⟨keyFn w s t, s, t⟩ }
  | none =>
    let h := q.heap.next
    { q with heap := q.heap.insert (q.lt ltc lte) ⟨keyFn w s t, s, t⟩,
             lk := q.lk.setIfInBounds s (q.lk.getD s [] ++ [h]) }

def RQ.insertMany (ltc lte : K → K → Bool) (keyFn : W → Nat → Nat → K) (w : W) (q : RQ K) (es : List (Nat × Nat)) : RQ K :=
  es.foldl (fun q e => q.insertOrUpdate ltc lte keyFn w e.1 e.2) q

/-- `std::iter_swap(it, lookup.rbegin()); lookup.pop_back()` for the first occurrence of `h` -/
def swapPop (l : List Nat) (h : Nat) : List Nat :=
  match l.idxOf? h with
  | some i =>
    match l.getLast? with
    | some last => (l.set i last).dropLast
    | none => l
  | none => l

/-- `pop()` -/
def RQ.pop (ltc lte : K → K → Bool) (q : RQ K) : RQ K :=
  match q.heap.top with
  | some e =>
    { q with heap := q.heap.pop (q.lt ltc lte),
             lk := q.lk.setIfInBounds e.key.s (swapPop (q.lk.getD e.key.s []) e.h) }
  | none => q

/-- `clear()` -/
def RQ.clear (q : RQ K) : RQ K :=
  { q with heap := q.heap.clear,
           lk := q.heap.arr.foldl (fun lk e => lk.setIfInBounds e.key.s []) q.lk }

/-- `rebuild()`: getEdges(), clear(), insertOrUpdate(edges) -/
def RQ.rebuild (ltc lte : K → K → Bool) (keyFn : W → Nat → Nat → K) (w : W) (q : RQ K) : RQ K :=
  q.clear.insertMany ltc lte keyFn w (q.heap.arr.toList.map (fun e => (e.key.s, e.key.t)))

/-- `removeOutgoingEdges(vertex)` -/
def RQ.removeOutgoing (ltc lte : K → K → Bool) (q : RQ K) (v : Nat) : RQ K :=
  { q with heap := (q.lk.getD v []).foldl (fun hp h => hp.remove (q.lt ltc lte) h) q.heap,
           lk := q.lk.setIfInBounds v [] }

/-- `setCostQueueOrder(b)`: refused (exception) unless the queue is empty -/
def RQ.setOrder (q : RQ K) (b : Bool) : RQ K :=
  if q.heap.arr.size = 0 then { q with costOrd := b } else q

/-- a new state (vertex) comes into existence: its lookup is empty -/
def RQ.addState (q : RQ K) : RQ K := { q with lk := q.lk.push [] }

/-- the public operations, plus "the world changes" (any change of the vertex/state fields the keys are computed from;
the queue is not told) -/
inductive ROp (W : Type) where
  | world (w : W)
  | addState
  | ins (s t : Nat)
  | insv (es : List (Nat × Nat))
  | pop
  | clear
  | rebuild
  | rmv (v : Nat)
  | order (costOrd : Bool)

structure Sys (K W : Type) where
  w : W
  q : RQ K

def Sys.step (ltc lte : K → K → Bool) (keyFn : W → Nat → Nat → K) (σ : Sys K W) : ROp W → Sys K W
  | .world w => { σ with w := w }
  | .addState => { σ with q := σ.q.addState }
  | .ins s t => { σ with q := σ.q.insertOrUpdate ltc lte keyFn σ.w s t }
  | .insv es => { σ with q := σ.q.insertMany ltc lte keyFn σ.w es }
  | .pop => { σ with q := σ.q.pop ltc lte }
  | .clear => { σ with q := σ.q.clear }
  | .rebuild => { σ with q := σ.q.rebuild ltc lte keyFn σ.w }
  | .rmv v => { σ with q := σ.q.removeOutgoing ltc lte v }
  | .order b => { σ with q := σ.q.setOrder b }

def Sys.run (ltc lte : K → K → Bool) (keyFn : W → Nat → Nat → K) (σ : Sys K W) (ops : List (ROp W)) : Sys K W :=
  ops.foldl (Sys.step ltc lte keyFn) σ

/-- the reviewers' change B as a model: `updateIfExists` re-sifts only when the first three keys changed
(`same3 old new` = "key0, key1, key2 unchanged"); key3 is written but not looked at -/
def RQ.insertOrUpdateB (ltc lte : K → K → Bool) (same3 : K → K → Bool) (keyFn : W → Nat → Nat → K) (w : W) (q : RQ K)
    (s t : Nat) : RQ K :=
  match findHandle q.heap.arr (q.lk.getD s []) t with
  | some h =>
    let old := (findIdx q.heap.arr h).bind (fun p => q.heap.arr[p]?.map (·.key.k))
    if old.any (fun o => same3 o (keyFn w s t)) then
      { q with heap := q.heap.poke h ⟨keyFn w s t, s, t⟩ }
    else
      { q with heap := q.heap.setKey (q.lt ltc lte) h ⟨keyFn w s t, s, t⟩ }
  | none => q.insertOrUpdate ltc lte keyFn w s t

/-! ### the concrete instance the driver runs (and the code uses): four keys, two lexicographic orders, keys as functions
of the State fields -/

structure K4 where
  k0 : Nat   -- admissible solution cost            g + c + h
  k1 : Nat   -- admissible cost-to-come to target   g + c
  k2 : Nat   -- admissible solution effort
  k3 : Nat   -- inadmissible solution effort
deriving Repr, BEq

/-- `getCostComparisonOperator()`: key0, then key1, then key2 -/
def ltCost (a b : K4) : Bool :=
  if a.k0 = b.k0 then (if a.k1 = b.k1 then decide (a.k2 < b.k2) else decide (a.k1 < b.k1)) else decide (a.k0 < b.k0)

/-- `getEffortComparisonOperator()`: key2, then key3, then key0, then key1 -/
def ltEffort (a b : K4) : Bool :=
  if a.k2 = b.k2 then
    (if a.k3 = b.k3 then (if a.k0 = b.k0 then decide (a.k1 < b.k1) else decide (a.k0 < b.k0)) else decide (a.k3 < b.k3))
  else decide (a.k2 < b.k2)

/-- the fields of an `eitstar::State` the reverse queue reads (1-D lattice world of the harness) -/
structure St where
  x : Nat := 0
  actg : Nat := 0       -- admissible cost-to-go
  eetg : Nat := 0       -- estimated effort-to-go
  lbctc : Nat := 0      -- lower-bound cost-to-come
  lbetc : Nat := 0      -- lower-bound effort-to-come
  inadm : Nat := 0      -- inadmissible effort-to-come
  wl : List Nat := []   -- whitelisted states
  cc : List (Nat × Nat) := []   -- incoming collision-check resolution: (source, checks), latest first

abbrev World := Array St

def dist (a b : Nat) : Nat := if a ≤ b then b - a else a - b

/-- the four `compute…` functions of ReverseQueue.cpp -/
def keyOf (w : World) (s t : Nat) : K4 :=
  let S := w.getD s {}
  let T := w.getD t {}
  let h := dist S.x T.x
  let checks := ((T.cc.find? (fun p => p.1 == s)).map (·.2)).getD 0
  let edgeEffort := if S.wl.contains t then 0 else h - checks
  { k0 := S.actg + h + T.lbctc, k1 := S.actg + h, k2 := S.eetg + edgeEffort + T.lbetc, k3 := S.eetg + edgeEffort + T.inadm }

end OmplModel.RevQ
