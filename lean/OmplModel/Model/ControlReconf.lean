/-
Control samplers under RECONFIGURATION (core Lean only).

A control sampler object outlives changes of what it samples from: `SyclopRRT` / `SyclopEST` allocate their
(directed) control sampler once in `setup()` and keep it across `clear()`; `LTLPlanner` keeps its sampler too; a
user may call `RealVectorControlSpace::setBounds`, `DiscreteControlSpace::setBounds`,
`SpaceInformation::setMinMaxControlDuration` or `setPropagationStepSize` between two queries.  As coded, every draw reads the
configuration AT DRAW TIME:

* `RealVectorControlUniformSampler::sample` (control/spaces/src/RealVectorControlSpace.cpp):
  `bounds = static_cast<const RealVectorControlSpace *>(space_)->getBounds()` inside `sample`, then one
  `rng_.uniformReal(bounds.low[i], bounds.high[i])` per dimension in index order;
* `DiscreteControlSampler::sample` (control/spaces/src/DiscreteControlSpace.cpp):
  `rng_.uniformInt(space_->getLowerBound(), space_->getUpperBound())`;
* `ControlSampler::sampleStepCount(a, b)` = `rng_.uniformInt(a, b)`; `sampleNext` = `sample`;
* `SimpleDirectedControlSampler::getBestControl` (control/src/SimpleDirectedControlSampler.cpp) reads
  `si_->getMinControlDuration()` / `getMaxControlDuration()` at the head of every call, draws
  (control, count) and then `numControlSamples_ - 1` times (count, control) from its inner sampler `cs_`, and
  propagates with the CURRENT step size (`SpaceInformation::propagateWhileValid` reads `stepSize_`).

The machine below is that sampler object as a state machine over a history of reconfigurations and draws.  The
variant `cached = true` is the *wrong* sampler that copies the bounds when it is allocated (kept as the witness of
what the theorem excludes).
-/
import OmplModel.Model.ControlExtra
namespace OmplModel.ControlReconf
open OmplModel OmplModel.Control

/-- a control of either control-space kind -/
inductive Ctl (α : Type) where
  | real (v : List α)
  | disc (v : Int)
deriving DecidableEq

/-- `RealVectorControlSpace::bounds_` / `DiscreteControlSpace::lowerBound_, upperBound_` -/
inductive CBounds (α : Type) where
  | real (lo hi : List α)
  | disc (lo hi : Int)

/-- what a draw reads: the control space's bounds and the space information's duration range and step size -/
structure Conf (α : Type) where
  cb : CBounds α
  minSteps : Nat
  maxSteps : Nat
  dt : α

/-- "the control lies within the control-space bounds" (`le` explicit so that the statement does not depend on an instance) -/
def InB {α : Type} (le : α → α → Prop) : CBounds α → Ctl α → Prop
  | .real lo hi, .real v =>
    v.length = lo.length ∧ ∀ (i : Nat) (l h x : α), lo[i]? = some l → hi[i]? = some h → v[i]? = some x → le l x ∧ le x h
  | .disc lo hi, .disc v => lo ≤ v ∧ v ≤ hi
  | _, _ => False

/-- bounds a setter accepts: `RealVectorBounds::check` (low ≤ high, same length); a discrete range is non-empty -/
def WFB {α : Type} (le : α → α → Prop) : CBounds α → Prop
  | .real lo hi => hi.length = lo.length ∧ ∀ (i : Nat) (l h : α), lo[i]? = some l → hi[i]? = some h → le l h
  | .disc lo hi => lo ≤ hi

section sampler
variable {α ρ : Type} [Num α]

/-- `RealVectorControlUniformSampler::sample`: one raw draw of the sampler's generator per dimension, in index order -/
def sampleReal (raw : ρ → α × ρ) : List α → List α → ρ → List α × ρ
  | lo :: los, hi :: his, g =>
    let d := raw g
    let r := sampleReal raw los his d.2
    (uniformReal lo hi d.1 :: r.1, r.2)
  | _, _, g => ([], g)

/-- `ControlSampler::sample` of either space, from the bounds handed in -/
def sampleCtl (raw : ρ → α × ρ) : CBounds α → ρ → Ctl α × ρ
  | .real lo hi, g => let r := sampleReal raw lo hi g; (.real r.1, r.2)
  | .disc lo hi, g => let d := raw g; (.disc (uniformInt lo hi d.1), d.2)

/-- `ControlSampler::sampleStepCount(a, b)` = `rng_.uniformInt(a, b)` (one raw draw) -/
def sampleSteps (raw : ρ → α × ρ) (a b : Nat) (g : ρ) : Nat × ρ :=
  let d := raw g
  ((uniformInt (Int.ofNat a) (Int.ofNat b) d.1).toNat, d.2)

end sampler

/-- the parts of the world the sampler object talks to -/
structure Params (α ρ S δ : Type) where
  /-- `cs_->sample` given the bounds it reads -/
  drawCtl : CBounds α → ρ → Ctl α × ρ
  /-- `cs_->sampleStepCount(a, b)` -/
  drawSteps : Nat → Nat → ρ → Nat × ρ
  /-- one propagator call with the given step size -/
  step : α → S → Ctl α → S
  valid : S → Bool
  dist : S → S → δ
  lt : δ → δ → Bool
  /-- `numControlSamples_` -/
  k : Nat
  /-- the user's `StatePropagator::steer(from, to, control, duration)` (`none` = it returned false) -/
  steer : S → S → Option (Ctl α × α) := fun _ _ => none
  /-- `std::floor(duration / getPropagationStepSize() + 0.5)` of `SteeredControlSampler::sampleTo`: (duration, step size) ↦ steps -/
  toSteps : α → α → Nat := fun _ _ => 0

structure St (α ρ : Type) where
  conf : Conf α
  gen : ρ
  /-- the bounds when the sampler was allocated — read only by the `cached` variant -/
  cache : CBounds α

inductive Op (α ρ S : Type) where
  | setBounds (b : CBounds α)
  | setMinMax (a b : Nat)
  | setStep (dt : α)
  /-- the owner drops the sampler and allocates a new one (new generator) -/
  | realloc (g : ρ)
  /-- `sample` / `sampleNext` -/
  | sample
  | stepCount (a b : Nat)
  /-- `SimpleDirectedControlSampler::sampleTo(control, previous, source, dest)` -/
  | sampleTo (src dest : S)
  /-- `SteeredControlSampler::sampleTo(control, previous, source, dest)` -/
  | steerTo (src dest : S)

inductive Out (α S : Type) where
  | unit
  | ctl (u : Ctl α)
  | steps (k : Nat)
  | to (r : Option (Ctl α × Nat × S))
deriving DecidableEq

variable {α ρ S δ : Type}

/-- the later draws of `getBestControl`: `sampleStepCount` first, then the control -/
def drawsLater (P : Params α ρ S δ) (cb : CBounds α) (mn mx : Nat) : Nat → ρ → List (Ctl α × Nat) × ρ
  | 0, g => ([], g)
  | n + 1, g =>
    let kk := P.drawSteps mn mx g
    let u := P.drawCtl cb kk.2
    let r := drawsLater P cb mn mx n u.2
    ((u.1, kk.1) :: r.1, r.2)

/-- all `numControlSamples_` draws of one `getBestControl` call, in the order the code consumes them -/
def drawsAll (P : Params α ρ S δ) (cb : CBounds α) (mn mx : Nat) (g : ρ) : List (Ctl α × Nat) × ρ :=
  let u := P.drawCtl cb g
  let kk := P.drawSteps mn mx u.2
  let r := drawsLater P cb mn mx (P.k - 1) kk.2
  ((u.1, kk.1) :: r.1, r.2)

/-- `SteeredControlSampler::sampleTo` (control/SteeredControlSampler.h): ask the propagator's steering function for a control and
a duration, convert the duration to a step count with the CURRENT step size, `propagateWhileValid`.  `none` = `steer` failed
(the code returns 0 and leaves `control` / `dest` alone). -/
def steeredTo (P : Params α ρ S δ) (dt : α) (src dest : S) : Option (Ctl α × Nat × S) :=
  match P.steer src dest with
  | none => none
  | some (u, d) =>
    let r := pwv (P.step dt) P.valid src u (P.toSteps d dt)
    some (u, r.1, r.2)

/-- the effect of the setters on the configuration, written independently of the machine: the "current" configuration
after a history is the fold of this function -/
def applyConf (c : Conf α) : Op α ρ S → Conf α
  | .setBounds b => { c with cb := b }
  | .setMinMax a b => { c with minSteps := a, maxSteps := b }
  | .setStep dt => { c with dt := dt }
  | _ => c

def confAfter (c : Conf α) (ops : List (Op α ρ S)) : Conf α := ops.foldl applyConf c

/-- one operation on the sampler object.  `cached = false` is the code: every draw reads `st.conf` (the space's current
state); `cached = true` reads the copy made at allocation. -/
def stepM (P : Params α ρ S δ) (cached : Bool) (st : St α ρ) : Op α ρ S → St α ρ × Out α S
  | .setBounds b => ({ st with conf := { st.conf with cb := b } }, .unit)
  | .setMinMax a b => ({ st with conf := { st.conf with minSteps := a, maxSteps := b } }, .unit)
  | .setStep dt => ({ st with conf := { st.conf with dt := dt } }, .unit)
  | .realloc g => ({ st with gen := g, cache := st.conf.cb }, .unit)
  | .sample =>
    let d := P.drawCtl (if cached then st.cache else st.conf.cb) st.gen
    ({ st with gen := d.2 }, .ctl d.1)
  | .stepCount a b =>
    let d := P.drawSteps a b st.gen
    ({ st with gen := d.2 }, .steps d.1)
  | .sampleTo src dest =>
    let ds := drawsAll P (if cached then st.cache else st.conf.cb) st.conf.minSteps st.conf.maxSteps st.gen
    ({ st with gen := ds.2 }, .to (sampleTo (P.step st.conf.dt) P.valid P.dist P.lt src dest ds.1))
  | .steerTo src dest => (st, .to (steeredTo P st.conf.dt src dest))

def run (P : Params α ρ S δ) (cached : Bool) : St α ρ → List (Op α ρ S) → List (Out α S)
  | _, [] => []
  | st, op :: ops =>
    let r := stepM P cached st op
    r.2 :: run P cached r.1 ops

def stAfter (P : Params α ρ S δ) (cached : Bool) (st : St α ρ) (ops : List (Op α ρ S)) : St α ρ :=
  ops.foldl (fun s op => (stepM P cached s op).1) st

/-- what the property demands of one output, given the configuration `c` in force when the operation ran -/
def OutOK (le : α → α → Prop) (P : Params α ρ S δ) (c : Conf α) : Op α ρ S → Out α S → Prop
  | .sample, .ctl u => InB le c.cb u
  | .stepCount a b, .steps k => a ≤ k ∧ k ≤ b
  | .sampleTo src _, .to r =>
    ∀ u n s', r = some (u, n, s') →
      InB le c.cb u ∧ n ≤ c.maxSteps ∧ s' = propagate (P.step c.dt) src u n ∧
      ∀ i, 1 ≤ i → i ≤ n → P.valid (propagate (P.step c.dt) src u i) = true
  | .steerTo src dest, .to r =>
    ∀ u n s', r = some (u, n, s') →
      (∃ d, P.steer src dest = some (u, d) ∧ n ≤ P.toSteps d c.dt ∧
        (n < P.toSteps d c.dt → P.valid (propagate (P.step c.dt) src u (n + 1)) = false)) ∧
      s' = propagate (P.step c.dt) src u n ∧
      ∀ i, 1 ≤ i → i ≤ n → P.valid (propagate (P.step c.dt) src u i) = true
  | .setBounds _, .unit => True
  | .setMinMax _ _, .unit => True
  | .setStep _, .unit => True
  | .realloc _, .unit => True
  | _, _ => False

/-- operations a caller may issue: setters with arguments the library accepts -/
def OpOK (le : α → α → Prop) : Op α ρ S → Prop
  | .setBounds b => WFB le b
  | .setMinMax a b => a ≤ b
  | .stepCount a b => a ≤ b
  | _ => True

/-! ## re-entrancy of `propagateWhileValid`

`control::SpaceInformation::propagateWhileValid` is a `const` member whose buffers are the caller's `result` and a
temporary it allocates and frees itself; the user's `isValid` runs between its steps and may do anything — in particular
run another complete propagation on the same `SpaceInformation` (a second planner sharing it, `tools::ParallelPlan`).
`pwvM` is `pwv` with such a callback: it owns a world `σ`, sees the state by value and returns its verdict.  `pwvShared`
is the variant that keeps ONE scratch state in the shared object (`getS` / `setS` on the world) and ping-pongs between
`result` and that scratch — the callback can overwrite it. -/
section reentrant
variable {S U σ : Type}

def pwvLoopM (step : S → U → S) (cb : σ → S → Bool × σ) (u : U) : Nat → Nat → S → σ → (Nat × S) × σ
  | 0, i, cur, w => ((i, cur), w)
  | fuel + 1, i, cur, w =>
    let nxt := step cur u
    let r := cb w nxt
    if r.1 then pwvLoopM step cb u fuel (i + 1) nxt r.2 else ((i, cur), r.2)

def pwvM (step : S → U → S) (cb : σ → S → Bool × σ) (s : S) (u : U) : Nat → σ → (Nat × S) × σ
  | 0, w => ((0, s), w)
  | n + 1, w =>
    let first := step s u
    let r := cb w first
    if r.1 then pwvLoopM step cb u n 1 first r.2 else ((0, s), r.2)

/-- `inScr`: `temp1` (the last valid state) currently IS the shared scratch; `loc` is the content of `result` -/
def pwvLoopShared (step : S → U → S) (cb : σ → S → Bool × σ) (getS : σ → S) (setS : σ → S → σ) (u : U) :
    Nat → Nat → Bool → S → σ → (Nat × S) × σ
  | 0, i, inScr, loc, w => ((i, if inScr then getS w else loc), w)
  | fuel + 1, i, inScr, loc, w =>
    if inScr then
      let nxt := step (getS w) u          -- propagate(temp1 = scratch, …, temp2 = result)
      let r := cb w nxt
      if r.1 then pwvLoopShared step cb getS setS u fuel (i + 1) false nxt r.2
      else ((i, getS r.2), r.2)           -- copyState(result, temp1 = scratch) after the callback ran
    else
      let nxt := step loc u               -- propagate(temp1 = result, …, temp2 = scratch)
      let r := cb (setS w nxt) nxt
      if r.1 then pwvLoopShared step cb getS setS u fuel (i + 1) true loc r.2
      else ((i, loc), r.2)

def pwvShared (step : S → U → S) (cb : σ → S → Bool × σ) (getS : σ → S) (setS : σ → S → σ) (s : S) (u : U) :
    Nat → σ → (Nat × S) × σ
  | 0, w => ((0, s), w)
  | n + 1, w =>
    let first := step s u
    let r := cb w first
    if r.1 then pwvLoopShared step cb getS setS u n 1 false first r.2 else ((0, s), r.2)

/-- the callback of the re-entrancy runs: judge the state, count the query, and at query number `k` run the complete
second call `(s2, u2, n2)` (its own nested queries are plain `valid`) and record its result -/
def nestCbX {β : Type} (valid : S → Bool) (k : Nat) (x : β) : Nat × Option β → S → Bool × (Nat × Option β)
  | (c, rec), s => (valid s, (c + 1, if c = k then some x else rec))

def nestCb (step : S → U → S) (valid : S → Bool) (k : Nat) (s2 : S) (u2 : U) (n2 : Nat) :
    Nat × Option (Nat × S) → S → Bool × (Nat × Option (Nat × S)) :=
  nestCbX valid k (pwv step valid s2 u2 n2)

end reentrant

end OmplModel.ControlReconf
