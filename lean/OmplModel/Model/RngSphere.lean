import OmplModel.Model.Rng
import OmplModel.Model.RngBoostTables
/-
The boost-based routines of `ompl::RNG` (src/ompl/util/src/RandomNumbers.cpp: `SphericalData`,
`uniformNormalVector`, `uniformInBall`, and the draw-consuming part of `uniformProlateHyperspheroid[Surface]`),
modelled as coded in boost 1.83 for the engine `std::mt19937` (reached through `variate_generator<std::mt19937*, …>`,
i.e. the RNG's *own* `generator_`):

* `boost::random::uniform_01<double>`: one 32-bit draw times `1/2^32` (the `result < 1` retry cannot fire);
* `detail::generate_int_float_pair<double, 8>` for a 32-bit engine: two draws — bucket = low 8 bits of the first,
  mantissa from its high 24 bits and the low 29 bits of the second;
* `detail::unit_exponential_distribution<double>` and `detail::unit_normal_distribution<double>` (ziggurat with 256/128
  layers, tables in `RngBoostTables.lean`, full check against `exp`, tail by shifted exponentials);
* `boost::random::uniform_on_sphere<double>`: dimension 1 (sign), 2 (rejection in the disc), 3 (Marsaglia), ≥ 4 (normals,
  normalised);
* `RNG::uniformInBall`: sphere point times `r * pow(uniformReal(0,1), 1/n)`.
`SphericalData` keeps one distribution + variate generator per dimension; none of them has state of its own in this boost
(the ziggurat keeps no cache), so the model is a function of `generator_` alone — the reseed/"fresh" comparison of
checks/c20.py would show a boost for which that is false.

Rejection loops are bounded by `loopFuel` rounds (`none` when exhausted), as in `Model/Rng.lean`.
`ProlateHyperspheroid::transform` (Eigen) is not modelled: the model yields the ball/sphere point that is handed to it.
Core Lean only.
-/
namespace OmplModel.Rng
open OmplModel.Rng.Boost

/-- `uniform_01<double>()(eng)` -/
def bu01 (g : MT) : Float × MT :=
  let d := g.next
  let factor := (1.0 : Float) / (4294967295.0 + 1.0)
  (d.1.toFloat * factor, d.2)

/-- `generate_int_float_pair<double, 8>(eng)`: `(r, bucket)` -/
def intFloatPair (g : MT) : (Float × Nat) × MT :=
  let d1 := g.next
  let bucket := (d1.1 &&& 255).toNat
  let r := (d1.1 >>> 8).toFloat * ((1.0 : Float) / 16777216.0)
  let d2 := d1.2.next
  let r := r + (d2.1 &&& 536870911).toFloat
  let r := r * ((0.5 : Float) / 268435456.0)
  ((r, bucket), d2.2)

def tab (t : Array Float) (i : Nat) : Float := t.getD i 0.0

/-- `unit_exponential_distribution<double>::operator()`; `shift` accumulates the tail restarts -/
def unitExp : Nat → Float → MT → Option (Float × MT)
  | 0, _, _ => none
  | fuel + 1, shift, g =>
    let p := intFloatPair g
    let i := p.1.2
    let x := p.1.1 * tab expX i
    if x < tab expX (i + 1) then some (shift + x, p.2)
    else if i = 0 then unitExp fuel (shift + tab expX 1) p.2
    else
      let u := bu01 p.2
      let y01 := u.1
      let y := tab expY i + y01 * (tab expY (i + 1) - tab expY i)
      let yAboveU := (tab expX i - tab expX (i + 1)) * y01 - (tab expX i - x)
      let yAboveL := y - (tab expY (i + 1) + (tab expX (i + 1) - x) * tab expY (i + 1))
      if yAboveU < 0.0 && (yAboveL < 0.0 || y < Float.exp (-x)) then some (x + shift, u.2)
      else unitExp fuel shift u.2

/-- `exponential_distribution<double>(lambda)(eng)` = `unit(eng) / lambda` -/
def expDist (lambda : Float) (g : MT) : Option (Float × MT) :=
  match unitExp loopFuel 0.0 g with
  | none => none
  | some (v, g') => some (v / lambda, g')

/-- `unit_normal_distribution::generate_tail` -/
def normalTail : Nat → MT → Option (Float × MT)
  | 0, _ => none
  | fuel + 1, g =>
    let tailStart := tab normalX 1
    match expDist tailStart g with
    | none => none
    | some (x, g1) =>
      match expDist 1.0 g1 with
      | none => none
      | some (y, g2) => if 2.0 * y > x * x then some (x + tailStart, g2) else normalTail fuel g2

/-- `unit_normal_distribution<double>::operator()` -/
def unitNormal : Nat → MT → Option (Float × MT)
  | 0, _ => none
  | fuel + 1, g =>
    let p := intFloatPair g
    let sign : Float := if p.1.2 % 2 = 1 then 1.0 else -1.0
    let i := p.1.2 / 2
    let x := p.1.1 * tab normalX i
    if x < tab normalX (i + 1) then some (x * sign, p.2)
    else if i = 0 then
      match normalTail loopFuel p.2 with
      | none => none
      | some (t, g') => some (t * sign, g')
    else
      let u := bu01 p.2
      let y01 := u.1
      let y := tab normalY i + y01 * (tab normalY (i + 1) - tab normalY i)
      let a := (tab normalX i - tab normalX (i + 1)) * y01 - (tab normalX i - x)
      let b := y - (tab normalY i + (tab normalX i - x) * tab normalY i * tab normalX i)
      let yAboveU := if tab normalX i ≥ 1.0 then a else b
      let yAboveL := if tab normalX i ≥ 1.0 then b else a
      if yAboveU < 0.0 && (yAboveL < 0.0 || y < Float.exp (-(x * x / 2.0))) then some (x * sign, u.2)
      else unitNormal fuel u.2

/-- `n` normals: the values in order, their running sum of squares (`sqsum += val * val`) -/
def normals : Nat → MT → List Float → Float → Option (List Float × Float × MT)
  | 0, g, acc, sq => some (acc.reverse, sq, g)
  | n + 1, g, acc, sq =>
    match unitNormal loopFuel g with
    | none => none
    | some (v, g') => normals n g' (v :: acc) (sq + v * v)

/-- the `do … while (sqsum == 0)` loop of the default case -/
def sphereN : Nat → Nat → MT → Option (List Float × MT)
  | 0, _, _ => none
  | fuel + 1, dim, g =>
    match normals dim g [] 0.0 with
    | none => none
    | some (vs, sq, g') =>
      if sq == 0.0 then sphereN fuel dim g'
      else
        let inv := 1.0 / Float.sqrt sq
        some (vs.map (· * inv), g')

/-- dimension 2: rejection in the disc -/
def sphere2 : Nat → MT → Option (List Float × MT)
  | 0, _ => none
  | fuel + 1, g =>
    let a := bu01 g
    let x := a.1 * 2.0 - 1.0
    let b := bu01 a.2
    let y := b.1 * 2.0 - 1.0
    let sq := x * x + y * y
    if sq == 0.0 || sq > 1.0 then sphere2 fuel b.2
    else
      let mult := 1.0 / Float.sqrt sq
      some ([x * mult, y * mult], b.2)

/-- dimension 3: Marsaglia -/
def sphere3 : Nat → MT → Option (List Float × MT)
  | 0, _ => none
  | fuel + 1, g =>
    let a := bu01 g
    let x := a.1 * 2.0 - 1.0
    let b := bu01 a.2
    let y := b.1 * 2.0 - 1.0
    let sq := x * x + y * y
    if sq > 1.0 then sphere3 fuel b.2
    else
      let mult := 2.0 * Float.sqrt (1.0 - sq)
      some ([x * mult, y * mult, 2.0 * sq - 1.0], b.2)

/-- `uniform_on_sphere<double>(dim)(eng)` -/
def onSphere (dim : Nat) (g : MT) : Option (List Float × MT) :=
  match dim with
  | 0 => some ([], g)
  | 1 => let u := bu01 g; some ([if u.1 < 0.5 then -1.0 else 1.0], u.2)
  | 2 => sphere2 loopFuel g
  | 3 => sphere3 loopFuel g
  | n => sphereN loopFuel n g

/-- `RNG::uniformNormalVector(v)` with `v.size() = dim` -/
def Rng.uniformNormalVector (r : Rng) (dim : Nat) : Option (List Float) × Rng :=
  match onSphere dim r.gen with
  | none => (none, r)
  | some (v, g) => (some v, { r with gen := g })

/-- `RNG::uniformInBall(radius, v)` -/
def Rng.uniformInBall (r : Rng) (radius : Float) (dim : Nat) : Option (List Float) × Rng :=
  let s := r.uniformNormalVector dim
  match s.1 with
  | none => (none, s.2)
  | some v =>
    let u := s.2.uniformReal 0.0 1.0
    let scale := radius * Float.pow u.1 (1.0 / Float.ofNat dim)
    (some (v.map (scale * ·)), u.2)

/-! ## `RNG::shuffle` = `std::shuffle(first, last, generator_)` (libstdc++ 12, for at most 65535 elements, where
`urngrange / n ≥ n` and two swap positions are taken from one draw) -/

/-- `uniform_int_distribution<unsigned long>(0, m-1)(mt19937)`: the URNG range is exactly 2^32-1, so libstdc++ takes
Lemire's nearly-divisionless branch `_S_nd<uint64_t>` -/
def lemire32 : Nat → Nat → MT → Option (Nat × MT)
  | 0, _, _ => none
  | fuel + 1, m, g =>
    let d := g.next
    let product := d.1.toNat * m
    let low := product % 4294967296
    if low < m ∧ low < (4294967296 - m) % m then lemire32 fuel m d.2
    else some (product / 4294967296, d.2)

def shufflePairs : Nat → Nat → Array Nat → MT → Option (Array Nat × MT)
  | 0, _, a, g => some (a, g)
  | fuel + 1, i, a, g =>
    if i < a.size then
      let sr := i + 1
      match lemire32 loopFuel (sr * (sr + 1)) g with
      | none => none
      | some (x, g') =>
        let a := a.swapIfInBounds i (x / (sr + 1))
        let a := a.swapIfInBounds (i + 1) (x % (sr + 1))
        shufflePairs fuel (i + 2) a g'
    else some (a, g)

/-- `std::shuffle(v.begin(), v.end(), g)` on `v = a` -/
def shuffleGen (a : Array Nat) (g : MT) : Option (Array Nat × MT) :=
  if a.size = 0 then some (a, g)
  else if a.size % 2 = 0 then
    match lemire32 loopFuel 2 g with
    | none => none
    | some (d, g') => shufflePairs a.size 2 (a.swapIfInBounds 1 d) g'
  else shufflePairs a.size 1 a g

/-- `rng.shuffle(v.begin(), v.end())` -/
def Rng.shuffle (r : Rng) (a : Array Nat) : Option (Array Nat) × Rng :=
  match shuffleGen a r.gen with
  | none => (none, r)
  | some (a', g) => (some a', { r with gen := g })

/-! ## all operations of one `RNG` object -/

inductive OpX where
  | base (op : Op)
  | sphere (dim : Nat)                       -- uniformNormalVector; also the draw part of uniformProlateHyperspheroidSurface
  | ball (radius : Float) (dim : Nat)        -- uniformInBall; with radius 1 the draw part of uniformProlateHyperspheroid
  | shuffle (n : Nat)                        -- shuffle of 0..n-1

inductive OutX where
  | out (o : Out)
  | perm (a : Array Nat)
  | diverged

def optReals : Option (List Float) → Out
  | some v => .reals v
  | none => .diverged

def Rng.stepX (r : Rng) : OpX → OutX × Rng
  | .base op => let d := r.step op; (.out d.1, d.2)
  | .sphere d => let x := r.uniformNormalVector d; (.out (optReals x.1), x.2)
  | .ball rad d => let x := r.uniformInBall rad d; (.out (optReals x.1), x.2)
  | .shuffle n =>
    let x := r.shuffle (Array.range n)
    (match x.1 with | some a => .perm a | none => .diverged, x.2)

def Rng.runX (r : Rng) : List OpX → List OutX
  | [] => []
  | op :: ops => let d := r.stepX op; d.1 :: Rng.runX d.2 ops

/-! ## copies

`ompl::RNG` has no user-written copy constructor: the implicit one copies `localSeed_`, `generator_`, the two
distributions — and the `shared_ptr<SphericalData>`, whose `generatorPtr_` keeps pointing at the `generator_` of the
object it was created in.  So the sphere-based routines of a copy draw from the *original's* engine.  `o` below is the
index of that owning object (`o = k` for an object that is not a copy). -/

/-- `uniformNormalVector` of an object whose `SphericalData` is bound to the generator of object `o` -/
def sphereAt (rngs : Array Rng) (o : Nat) (dim : Nat) : Option (List Float) × Array Rng :=
  match rngs[o]? with
  | none => (none, rngs)
  | some ro =>
    let x := ro.uniformNormalVector dim
    (x.1, rngs.setIfInBounds o x.2)

/-- `uniformInBall` of object `k`: the sphere point comes through `SphericalData` (generator of `o`), the radius from
`this->uniformReal(0,1)` (generator of `k`) -/
def ballAt (rngs : Array Rng) (k o : Nat) (radius : Float) (dim : Nat) : Option (List Float) × Array Rng :=
  let s := sphereAt rngs o dim
  match s.1, s.2[k]? with
  | some v, some rk =>
    let u := rk.uniformReal 0.0 1.0
    let scale := radius * Float.pow u.1 (1.0 / Float.ofNat dim)
    (some (v.map (scale * ·)), s.2.setIfInBounds k u.2)
  | _, _ => (none, s.2)

end OmplModel.Rng
