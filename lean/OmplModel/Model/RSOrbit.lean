import OmplModel.Model.ReedsShepp
/-!
The 64-image symmetry closure of the eight Reeds-Shepp base formulas: every formula under timeflip, reflect and "backwards"
(solve for `(xb, yb, phi)`, store the reversed word).  `ReedsSheppStateSpace.cpp` enumerates 44 of them (`candsCSC … candsCCSCC`):
it omits the backwards images of formulas 8.1, 8.2 (CSC), 8.7, 8.8 (CCCC) and 8.11 (CCSCC) — 5 x 4 = 20 images, here `missing`.
Core Lean only.
-/
namespace OmplModel.RS
open OmplModel OmplModel.Dubins

section
variable {α : Type} [RSNum α]

/-- the word type read backwards (`L S R` <-> `R S L`, `L R L R` <-> `R L R L`, `L R S L R` <-> `R L S R L`; palindromes fixed) -/
def revTy : Nat → Nat
  | 12 => 13 | 13 => 12 | 2 => 3 | 3 => 2 | 16 => 17 | 17 => 16 | n => n

/-- reversed three-segment word `(v, u, t)` of the reversed type -/
def bCSCback (ty : Nat) (f : Bool) (t u v : α) : RSPath α := ⟨revTy ty, sg f v, sg f u, sg f t, 0, 0⟩
/-- reversed `(t, u, -u, v)` -/
def bCCCCaBack (ty : Nat) (f : Bool) (t u v : α) : RSPath α := ⟨revTy ty, sg f v, sg f (-u), sg f u, sg f t, 0⟩
/-- reversed `(t, u, u, v)` -/
def bCCCCbBack (ty : Nat) (f : Bool) (t u v : α) : RSPath α := ⟨revTy ty, sg f v, sg f u, sg f u, sg f t, 0⟩
/-- reversed `(t, -pi/2, u, -pi/2, v)` -/
def bCCSCCback (ty : Nat) (f : Bool) (t u v : α) : RSPath α :=
  ⟨revTy ty, sg f v, sg f (-hpi), sg f u, sg f (-hpi), sg f t⟩

/-- the 20 images of the closure that the C++ does not enumerate -/
def missing (x y phi : α) : List (Cand α) :=
  let xb := backX x y phi
  let yb := backY x y phi
  four LpSpLp key3 bCSCback 14 15 xb yb phi ++ four LpSpRp key3 bCSCback 12 13 xb yb phi ++
  four LpRupLumRm key4 bCCCCaBack 2 3 xb yb phi ++ four LpRumLumRp key4 bCCCCbBack 2 3 xb yb phi ++
  four LpRmSLmRp key3 bCCSCCback 16 17 xb yb phi

/-- the 44 images as coded, in the code's order -/
def coded (x y phi : α) : List (Cand α) :=
  candsCSC x y phi ++ candsCCC x y phi ++ candsCCCC x y phi ++ candsCCSC x y phi ++ candsCCSCC x y phi

/-- 8 formulas x {plain, timeflip, reflect, both} x {forwards, backwards} -/
def closure64 (x y phi : α) : List (Cand α) := coded x y phi ++ missing x y phi

end
end OmplModel.RS
