/-
`ompl::base::GoalStates` (src/ompl/base/goals/src/GoalStates.cpp), round 10 of C01.  Core Lean only.

* `sampleGoal`: `samplePosition_ = samplePosition_ % states_.size(); copyState(st, states_[samplePosition_]);
  samplePosition_++` — the counter is NOT rolled over after the increment ("in case a new state is added before
  sampleGoal is called again"), so it ranges over `1 … size` between calls;
* `maxSampleCount() = states_.size()`;
* `distanceGoal`: `dist = inf; for (state : states_) { d = distance(st, state); if (d < dist) dist = d; }`.

A planner's `PlannerInputStates::nextGoal` asks `sampleGoal` at most `maxSampleCount()` times (`nextGoal_valid`), so the
`k`-th goal sample of the planner models is `kth states dflt k` (`kth_eq_iterate`).  `dflt` only totalises the empty
goal (where the C++ throws "There are no goals to sample"; never reached: `maxSampleCount() = 0` makes the planners
return INVALID_GOAL first).
-/
namespace OmplModel.GoalStates

variable {S D : Type}

/-- `GoalStates::sampleGoal`: the state handed out and the new `samplePosition_` -/
def sampleGoal (states : Array S) (dflt : S) (pos : Nat) : S × Nat :=
  let p := pos % states.size
  (states.getD p dflt, p + 1)

/-- `k` calls of `sampleGoal` starting at `samplePosition_ = pos`: the states handed out (in order) and the counter -/
def sampleMany (states : Array S) (dflt : S) : Nat → Nat → List S × Nat
  | 0, pos => ([], pos)
  | k + 1, pos =>
    let r := sampleGoal states dflt pos
    let q := sampleMany states dflt k r.2
    (r.1 :: q.1, q.2)

/-- closed form of the `k`-th sample (0-based) of a goal whose counter started at 0 -/
def kth (states : Array S) (dflt : S) (k : Nat) : S := states.getD (k % states.size) dflt

def maxSampleCount (states : Array S) : Nat := states.size

/-- `GoalStates::distanceGoal` -/
def distanceGoal (dist : S → S → D) (lt : D → D → Bool) (inf : D) (states : Array S) (st : S) : D :=
  states.foldl (fun acc s => let d := dist st s; if lt d acc then d else acc) inf

end OmplModel.GoalStates
