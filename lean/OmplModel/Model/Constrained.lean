/-
Model of the control flow of OMPL's constrained state spaces:

  * `Constraint::project` (Newton loop) and `Constraint::isSatisfied`      src/ompl/base/src/Constraint.cpp
  * `ProjectedStateSpace::discreteGeodesic`, `ProjectedStateSampler::sample*`
                                                  src/ompl/base/spaces/constraint/src/ProjectedStateSpace.cpp
  * `ConstrainedStateSpace::interpolate`, `::geodesicInterpolate`,
    `ConstrainedMotionValidator::checkMotion` (both forms)
                                                  src/ompl/base/spaces/constraint/src/ConstrainedStateSpace.cpp
  * `TangentBundleStateSpace::geodesicInterpolate` (the fix-up projection)

Core Lean only (no Mathlib): linked into the native driver `drv_constrained`.

What is abstract (DESIGN 1.3: external calls are oracles):
* states are an arbitrary type `S`, distances an arbitrary type `D`, residual vectors an arbitrary
  type `R`.  The arithmetic the code does on doubles is the record `Arith D` (no law is assumed of
  it: `lt`/`le` are just Boolean tests, so every theorem that does not name a law also holds of
  IEEE doubles with NaN); the ambient space (`WrapperStateSpace::distance/interpolate`,
  `enforceBounds`) is the record `Ambient S D`.
* `Constraint::function`, the Newton step (`jacobian` + Eigen SVD solve + `x -= …`) and
  `StateValidityChecker::isValid` are *stateful* oracles (`Oracle σ S R`): each call receives the
  oracle state `σ` and returns the next one, so an answer may depend on the whole call history.
  `σ := List answer` with "pop the head" is an arbitrary answer stream; `σ := Unit` is a pure
  function.  The driver instantiates `σ` with the calls recorded from the real code.
* the layer shared by all three spaces (`interpolate`, `geodesicInterpolate`, `checkMotion`) takes
  `discreteGeodesic` itself as an oracle `geo`, so its theorems also cover `AtlasStateSpace` and
  `TangentBundleStateSpace`, whose chart logic is *not* modelled.
* C++ reads past the end of an array are undefined behaviour; the model indexes with `[i]?` and
  returns `none` (checked indexing), so "never `none`" is index safety.
* the only loop without a bound in the source is the `do … while` of `discreteGeodesic`; the model
  gives it fuel and reports `Exit.fuel` if it runs out (never with the fuel the driver passes).
-/
namespace OmplModel.Constrained

/-- the `double` operations the anchored code uses; `a > b` is `lt b a`, `a >= b` is `le b a`. -/
structure Arith (D : Type) where
  zero : D
  one : D
  /-- `std::numeric_limits<double>::epsilon()` -/
  eps : D
  add : D → D → D
  sub : D → D → D
  mul : D → D → D
  div : D → D → D
  abs : D → D
  lt : D → D → Bool
  le : D → D → Bool

/-- the wrapped (ambient) space: `WrapperStateSpace::distance`, `::interpolate`, `enforceBounds`. -/
structure Ambient (S D : Type) where
  dist : S → S → D
  interp : S → S → D → S
  clamp : S → S

/-- what the code does with a residual vector `f`: `f.squaredNorm()`, `f.allFinite()`. -/
structure Resid (R D : Type) where
  nsq : R → D
  finite : R → Bool

/-- the stateful oracles. -/
structure Oracle (σ S R : Type) where
  /-- `Constraint::function(x, f)` -/
  fn : σ → S → R × σ
  /-- `jacobian(x, j); x -= j.jacobiSvd(…).solve(f)` -/
  newton : σ → S → R → S × σ
  /-- `StateValidityChecker::isValid` -/
  valid : σ → S → Bool × σ

variable {σ S D R : Type}

/-! ### `Constraint::project`, `Constraint::isSatisfied` -/

/-- the `while ((norm = f.squaredNorm()) > squaredTolerance && iter++ < maxIterations_)` loop; the
first argument is `maxIterations_ - iter`.  `f` is the residual of the current `x`.  Every way out
of the loop returns `norm < squaredTolerance` for the `norm` of the *current* iterate. -/
def projectLoop (A : Arith D) (Rs : Resid R D) (O : Oracle σ S R) (tolSq : D) :
    Nat → σ → S → R → Bool × S × σ
  | 0, s, x, f => (A.lt (Rs.nsq f) tolSq, x, s)
  | k + 1, s, x, f =>
    if A.lt tolSq (Rs.nsq f) then
      projectLoop A Rs O tolSq k (O.fn (O.newton s x f).2 (O.newton s x f).1).2 (O.newton s x f).1
        (O.fn (O.newton s x f).2 (O.newton s x f).1).1
    else (A.lt (Rs.nsq f) tolSq, x, s)

/-- `Constraint::project(x)`: returns the verdict and the (in-place modified) state. -/
def project (A : Arith D) (Rs : Resid R D) (O : Oracle σ S R) (tolSq : D) (maxIter : Nat)
    (s : σ) (x : S) : Bool × S × σ :=
  projectLoop A Rs O tolSq maxIter (O.fn s x).2 x (O.fn s x).1

/-- `Constraint::isSatisfied(x)`: `f.allFinite() && f.squaredNorm() <= tolerance_ * tolerance_`. -/
def isSatisfied (A : Arith D) (Rs : Resid R D) (O : Oracle σ S R) (tolSq : D) (s : σ) (x : S) :
    Bool × σ :=
  (Rs.finite (O.fn s x).1 && A.le (Rs.nsq (O.fn s x).1) tolSq, (O.fn s x).2)

/-! ### `ProjectedStateSpace::discreteGeodesic` -/

/-- why the traversal stopped -/
inductive Exit where
  | already      -- `distance(from, to) <= delta`
  | projFail     -- `!constraint_->project(scratch)`
  | invalid      -- `!(interpolate || svc->isValid(scratch))`
  | deviated     -- `step > lambda * delta`
  | wandered     -- `total > max`
  | noProgress   -- `newDist >= dist`
  | reached      -- `while (dist >= tolerance)` became false
  | fuel         -- model only
deriving DecidableEq, Repr, Inhabited

def Exit.name : Exit → String
  | .already => "already" | .projFail => "projFail" | .invalid => "invalid" | .deviated => "deviated"
  | .wandered => "wandered" | .noProgress => "noProgress" | .reached => "reached" | .fuel => "fuel"

structure GeoParams (D : Type) where
  delta : D
  lambda : D
  tolSq : D
  maxIter : Nat

structure GeoOut (σ S D : Type) where
  exit : Exit
  /-- the returned flag, `dist <= tolerance` at the `return` -/
  ok : Bool
  /-- the states pushed onto `*geodesic`, in order -/
  states : List S
  /-- the final value of the variable `dist` -/
  dist : D
  st : σ

/-- one pass through the body of the `do { … } while` loop, up to the point where the new state is
accepted: `error (why, σ)` for the five `break`s, `ok (scratch, σ, newDist, total)` otherwise.
`prev` is `previous`, `dist`/`total` the loop variables, `mx` is `max = dist₀ * lambda_`. -/
def geoStep (A : Arith D) (Am : Ambient S D) (Rs : Resid R D) (O : Oracle σ S R) (P : GeoParams D)
    (interpolate : Bool) (to : S) (mx : D) (s : σ) (prev : S) (dist total : D) :
    Except (Exit × σ) (S × σ × D × D) :=
  -- WrapperStateSpace::interpolate(previous, to, delta_ / dist, scratch); project(scratch)
  let pr := project A Rs O P.tolSq P.maxIter s (Am.interp prev to (A.div P.delta dist))
  if pr.1 = false then .error (.projFail, pr.2.2) else
  -- `interpolate || svc->isValid(scratch)`
  let vr := if interpolate then (true, pr.2.2) else O.valid pr.2.2 pr.2.1
  if vr.1 = false then .error (.invalid, vr.2) else
  -- `(step = distance(previous, scratch)) > lambda_ * delta_`
  if A.lt (A.mul P.lambda P.delta) (Am.dist prev pr.2.1) then .error (.deviated, vr.2) else
  -- `total += step; if (total > max) break;`
  if A.lt mx (A.add total (Am.dist prev pr.2.1)) then .error (.wandered, vr.2) else
  -- `newDist = distance(scratch, to); if (newDist >= dist) break;`
  if A.le dist (Am.dist pr.2.1 to) then .error (.noProgress, vr.2) else
  .ok (pr.2.1, vr.2, Am.dist pr.2.1 to, A.add total (Am.dist prev pr.2.1))

/-- the `do { … } while (dist >= tolerance)` loop.  Returns the states pushed from this iteration
on.  Every way out returns `dist <= tolerance` for the current value of `dist`. -/
def geoLoop (A : Arith D) (Am : Ambient S D) (Rs : Resid R D) (O : Oracle σ S R) (P : GeoParams D)
    (interpolate : Bool) (to : S) (mx : D) : Nat → σ → S → D → D → GeoOut σ S D
  | 0, s, _, dist, _ => ⟨.fuel, false, [], dist, s⟩
  | k + 1, s, prev, dist, total =>
    match geoStep A Am Rs O P interpolate to mx s prev dist total with
    | .error (why, s') => ⟨why, A.le dist P.delta, [], dist, s'⟩
    | .ok (scratch, s', newDist, total') =>
      -- `dist = newDist; copyState(previous, scratch); geodesic->push_back(scratch)`
      if A.le P.delta newDist then            -- `while (dist >= tolerance)`
        let r := geoLoop A Am Rs O P interpolate to mx k s' scratch newDist total'
        { r with states := scratch :: r.states }
      else ⟨.reached, A.le newDist P.delta, [scratch], newDist, s'⟩

/-- `ProjectedStateSpace::discreteGeodesic(from, to, interpolate, &geodesic)`. -/
def discreteGeodesic (A : Arith D) (Am : Ambient S D) (Rs : Resid R D) (O : Oracle σ S R)
    (P : GeoParams D) (fuel : Nat) (s : σ) (frm to : S) (interpolate : Bool) : GeoOut σ S D :=
  let d := Am.dist frm to
  if A.le d P.delta then ⟨.already, true, [frm], d, s⟩
  else
    let r := geoLoop A Am Rs O P interpolate to (A.mul d P.lambda) fuel s frm d A.zero
    { r with states := frm :: r.states }

/-! ### the layer shared by all constrained spaces (geodesic = oracle) -/

/-- `discreteGeodesic` seen from outside: `(returned flag, *geodesic, next oracle state)`. -/
abbrev Geo (σ S : Type) := σ → S → S → Bool → Bool × List S × σ

/-- the projected geodesic as a `Geo` -/
def projectedGeo (A : Arith D) (Am : Ambient S D) (Rs : Resid R D) (O : Oracle σ S R)
    (P : GeoParams D) (fuel : Nat) : Geo σ S :=
  fun s a b i =>
    let r := discreteGeodesic A Am Rs O P fuel s a b i
    (r.ok, r.states, r.st)

/-- `d[i] = d[i-1] + distance(geodesic[i-1], geodesic[i])` for `i ≥ 1` -/
def partialSums (A : Arith D) (Am : Ambient S D) : S → List S → D → List D
  | _, [], _ => []
  | p, x :: xs, acc => A.add acc (Am.dist p x) :: partialSums A Am x xs (A.add acc (Am.dist p x))

/-- the array `d` (same length as the geodesic) -/
def sumsOf (A : Arith D) (Am : Ambient S D) : List S → List D
  | [] => []
  | x :: xs => A.zero :: partialSums A Am x xs A.zero

/-- `while (i < (n - 1) && (d[i] / last) <= t) i++;` — structural on a fuel argument that is
passed `d.size` (the loop makes at most `n - 1` increments, so the fuel never runs out). -/
def searchIdx (A : Arith D) (d : Array D) (last t : D) : Nat → Nat → Nat
  | 0, i => i
  | fuel + 1, i =>
    if h : i + 1 < d.size then
      if A.le (A.div d[i] last) t then searchIdx A d last t fuel (i + 1) else i
    else i

/-- index returned by `ConstrainedStateSpace::geodesicInterpolate`; `none` = the C++ code would
read or write outside `d`/`geodesic`. -/
def geodesicInterpolateIdx (A : Arith D) (Am : Ambient S D) (g : List S) (t : D) : Option Nat :=
  let d := (sumsOf A Am g).toArray
  let n := g.length
  if n = 0 then none else            -- `d[0] = 0.` writes into `new double[0]`
  match d[n - 1]? with
  | none => none
  | some last =>
    if A.le last A.eps then some 0
    else
      let i := searchIdx A d last t d.size 0
      match d[i]? with
      | none => none
      | some di =>
        let t1 := A.sub (A.div di last) t
        -- `(i <= n - 2) ? d[i + 1] / last - t : 1`
        let t2? : Option D :=
          if i ≤ n - 2 then (d[i + 1]?).map (fun x => A.sub (A.div x last) t) else some A.one
        match t2? with
        | none => none
        | some t2 =>
          if A.lt t1 t2 || A.lt (A.abs (A.sub t1 t2)) A.eps then some i else some (i + 1)

/-- `ConstrainedStateSpace::geodesicInterpolate(geodesic, t)` -/
def geodesicInterpolate (A : Arith D) (Am : Ambient S D) (g : List S) (t : D) : Option S :=
  (geodesicInterpolateIdx A Am g t).bind (fun i => g[i]?)

/-- `ConstrainedStateSpace::interpolate(from, to, t, state)`: the value copied into `state`. -/
def interpolate (A : Arith D) (Am : Ambient S D) (geo : Geo σ S) (s : σ) (frm to : S) (t : D) :
    Option S × σ :=
  let r := geo s frm to true
  if r.1 then (geodesicInterpolate A Am r.2.1 t, r.2.2) else (some frm, r.2.2)

/-- `TangentBundleStateSpace::geodesicInterpolate`: the picked state is re-projected
(`TangentBundleStateSpace::project`: chart `psi` and `isValid`, an oracle here); on failure
`geodesic[0]` is returned. -/
def tbGeodesicInterpolate (A : Arith D) (Am : Ambient S D) (tbProject : σ → S → Bool × S × σ)
    (s : σ) (g : List S) (t : D) : Option S × σ :=
  match geodesicInterpolate A Am g t with
  | none => (none, s)
  | some x =>
    let r := tbProject s x
    if r.1 then (some r.2.1, r.2.2) else (g.head?, r.2.2)

/-- `ConstrainedMotionValidator::checkMotion(s1, s2)` (after the fix a7ee00eca):
`si_->isValid(s2) && isSatisfied(s2) && discreteGeodesic(s1, s2, false)` (short-circuit).
The `valid_`/`invalid_` counters (894715569) are not modelled. -/
def checkMotion1 (isValid isSat : σ → S → Bool × σ) (geo : Geo σ S) (s : σ) (s1 s2 : S) : Bool × σ :=
  let v := isValid s s2
  if v.1 then
    let a := isSat v.2 s2
    if a.1 then
      let r := geo a.2 s1 s2 false
      (r.1, r.2.2)
    else (false, a.2)
  else (false, v.2)

/-- the two-argument form **before** a7ee00eca: `isSatisfied(s2) && discreteGeodesic(s1, s2, false)` —
the end state itself was never validated.  Kept for `checkMotion_old_accepts_invalid_end`. -/
def checkMotion1Old (isSat : σ → S → Bool × σ) (geo : Geo σ S) (s : σ) (s1 s2 : S) : Bool × σ :=
  let a := isSat s s2
  if a.1 then
    let r := geo a.2 s1 s2 false
    (r.1, r.2.2)
  else (false, a.2)

/-- `distanceTraveled`: `0 + d(g0,g1) + d(g1,g2) + …` (left to right) -/
def traveled (A : Arith D) (Am : Ambient S D) : S → List S → D → D
  | _, [], acc => acc
  | p, x :: xs, acc => traveled A Am x xs (A.add acc (Am.dist p x))

structure CM2 (σ S D : Type) where
  verdict : Bool
  /-- what was copied into `lastValid.first` (if anything) -/
  first : Option S
  /-- what was stored into `lastValid.second` (if anything) -/
  second : Option D
  st : σ

/-- `reached && isSatisfied(s2) && si_->isValid(s2)` (short-circuit) -/
def endStateOk (isSat isValid : σ → S → Bool × σ) (reached : Bool) (s : σ) (s2 : S) : Bool × σ :=
  if reached then
    let a := isSat s s2
    if a.1 then isValid a.2 s2 else (false, a.2)
  else (false, s)

/-- `ConstrainedMotionValidator::checkMotion(s1, s2, lastValid)` (after a7ee00eca); `hasFirst` is
`lastValid.first != nullptr`.  `result` is computed *before* the distance loop; on every failure
`lastValid.second` is written (`total > 0 ? traveled / total : 0`) — also when `lastValid.first` is
null — and `stateList.back()` is copied into `lastValid.first` when there is one. -/
def checkMotion2 (A : Arith D) (Am : Ambient S D) (isSat isValid : σ → S → Bool × σ) (geo : Geo σ S)
    (hasFirst : Bool) (s : σ) (s1 s2 : S) : CM2 σ S D :=
  let r := geo s s1 s2 false
  match r.2.1 with
  | [] => ⟨false, if hasFirst then some s1 else none, some A.zero, r.2.2⟩
  | g0 :: rest =>
    let back := (g0 :: rest).getLast (by simp)
    let e := endStateOk isSat isValid r.1 r.2.2 s2
    if e.1 = false then
      let dt := traveled A Am g0 rest A.zero
      let total := A.add dt (Am.dist back s2)
      ⟨false, if hasFirst then some back else none,
        some (if A.lt A.zero total then A.div dt total else A.zero), e.2⟩
    else ⟨true, none, none, e.2⟩

/-! ### `ProjectedStateSampler` -/

/-- `sampleUniform / sampleUniformNear / sampleGaussian`: all three are
`<draw from the wrapped sampler>; constraint_->project(state); space_->enforceBounds(state);`
— the result of `project` is discarded.  `raw` is the draw.  Returns the state handed back to the
caller and (for the theorems and the driver only) the discarded verdict. -/
def sampleProjected (A : Arith D) (Am : Ambient S D) (Rs : Resid R D) (O : Oracle σ S R)
    (tolSq : D) (maxIter : Nat) (s : σ) (raw : S) : S × Bool × σ :=
  let pr := project A Rs O tolSq maxIter s raw
  (Am.clamp pr.2.1, pr.1, pr.2.2)

abbrev sampleUniform := @sampleProjected
abbrev sampleUniformNear := @sampleProjected
abbrev sampleGaussian := @sampleProjected

end OmplModel.Constrained
