import OmplModel.Model.Owen
import OmplModel.Model.Vana
/-
Model of `ompl::base::VanaOwenStateSpace::interpolate` / `PathType::length` / `category`
(src/ompl/base/spaces/src/VanaOwenStateSpace.cpp): the decoupled 3D Dubins path of `VanaStateSpace` extended with
Owen's helical turns (high altitude) and initial turn (medium altitude).

Oracle (DESIGN 1.3): `getPath` runs boost root searches *inside* its radius search; it is not modelled.  The whole
`PathType` the real code returns is a recorded answer; `voInterp` recomputes `interpolate(from, to, t, path, state)` from it
as coded (vertical profile first: altitude and pitch from `pathSZ_` at `t`; then the horizontal part by category).
Core Lean only, generic over `[DNum α]`.
-/
namespace OmplModel.VanaOwen
open OmplModel OmplModel.Dubins OmplModel.Owen OmplModel.Vana

structure VOPath (α : Type) where
  xy : Path α
  sz : Path α
  rh : α
  rv : α
  dz : α
  phi : α
  k : α
  startSZ : Pose α

section
variable {α : Type} [DNum α]

/-- `PathType::length()` -/
def VOPath.len (p : VOPath α) : α := p.rv * p.sz.len

def isZero (x : α) : Bool := !(decide (x < 0)) && !(decide (0 < x))

/-- `PathType::category()` -/
def VOPath.category (p : VOPath α) : String :=
  if isZero p.phi then (if isZero p.k then "L" else "H") else (if isZero p.k then "M" else "?")

/-- `interpolate(from, to, t, path, state)` -/
def voInterp (frm tgt : St5 α) (t : α) (p : VOPath α) : St5 α :=
  if 1 ≤ t then tgt
  else if t ≤ 0 then frm
  else
    let i := interpPath p.rv p.startSZ p.sz t
    let fp : Pose α := ⟨frm.x, frm.y, frm.yaw⟩
    let fin (q : Pose α) : St5 α := ⟨q.x, q.y, i.y, i.th, so2Enforce q.th⟩
    if isZero p.phi then
      if isZero p.k then fin (interpPath p.rh fp p.xy t)
      else
        let lengthSpiral := twopi * p.rh * p.k
        let lengthPath := p.rh * p.xy.len
        let length := lengthSpiral + lengthPath
        let dist := t * length
        if lengthSpiral < dist then fin (interpPath p.rh fp p.xy ((dist - lengthSpiral) / lengthPath))
        else fin (turn fp p.rh (dist / p.rh))
    else
      let lengthTurn := Num.abs p.phi * p.rh
      let lengthPath := p.rh * p.xy.len
      let length := lengthTurn + lengthPath
      let dist := t * length
      if lengthTurn < dist then
        let s := turn fp p.rh p.phi
        fin (interpPath p.rh s p.xy ((dist - lengthTurn) / lengthPath))
      else
        let angle := dist / p.rh
        let angle := if p.phi < 0 then -angle else angle
        fin (turn fp p.rh angle)

end
end OmplModel.VanaOwen
