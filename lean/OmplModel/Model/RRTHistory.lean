import OmplModel.Model.RRT
/-
Histories of ONE `geometric::RRT` object and ONE `ProblemDefinition` (round 10 of C01).  Core Lean only.

`Model/RRT.lean` models a single `solve()` on a freshly set-up planner.  The C++ object keeps state between calls:

* the tree (`nn_`) — `solve()` does not clear it, only `clear()` does;
* `PlannerInputStates pis_` — `addedStartStates_` survives, so a second `solve()` only looks at the start states the
  problem definition gained since (`pdef_->addStartState` between calls), `Planner::clear()` resets it
  (`pis_.clear(); pis_.update()`);
* `lastGoalMotion_` — written only when a solution is reported, reset by `clear()`;
* the parameters `maxDistance_` (`setRange`; `setup()` replaces a value `< epsilon` by
  `0.2 * getMaximumExtent()`, and `setRange` after `setup()` is taken literally — range 0 included),
  `addIntermediateStates_`, and the goal's threshold (`GoalRegion::setThreshold`);
* the problem definition's solution list (`addSolutionPath` appends; `clearSolutionPaths()` empties it).

`solveFrom` is `RRT::solve` statement by statement on such an object (`solve_eq_solveFrom`: on a fresh object it IS
`RRT.solve`).  `Op` / `applyOp` / `runOps` are the calls a user can interleave; `Proofs/RRTHistory.lean` shows that
EVERY interleaving keeps every solution in the problem definition real.

Not modelled: replacing the problem definition or its goal object, `clearStartStates()` (documented as requiring
`clear()`), `setNearestNeighbors` (clears the tree).
-/
namespace OmplModel.RRT
open OmplModel.PlannerReport

variable {S D : Type}

/-- what an RRT object carries from one call to the next -/
structure Planner (S : Type) where
  tree : Array (Node S) := #[]
  pis : Pis := {}
  lastGoalMotion : Option Nat := none

/-- the settings that can be changed between calls -/
structure Params (D : Type) where
  maxDistance : D
  threshold : D
  addIntermediate : Bool

def Cfg.withParams (cfg : Cfg S D) (p : Params D) : Cfg S D :=
  { cfg with maxDistance := p.maxDistance, threshold := p.threshold, addIntermediate := p.addIntermediate }

/-- `RRT::solve` on an object that may already hold a tree: the `while (pis_.nextStart())` loop continues from
`addedStartStates_` and appends roots to `nn_`; `solution`, `approxsol`, `approxdif` are locals and start afresh;
`lastGoalMotion_` is overwritten only when a path is reported. -/
def solveFrom (cfg : Cfg S D) (starts : Array S) (pl : Planner S) (script : List (Draw S)) :
    Report S D :=
  let r := drainStarts cfg.bounds cfg.valid starts (starts.size + 1) pl.pis
  let tree0 := pl.tree ++ (r.1.map (fun x => (⟨x.2, none⟩ : Node S))).toArray
  if tree0.size = 0 then ⟨.invalidStart, none, tree0, r.2, pl.lastGoalMotion, script.length⟩
  else
    let lp := loop cfg ⟨tree0, none, none, cfg.inf⟩ script
    let st := lp.1
    let approximate := st.solution.isNone
    let sol := match st.solution with
      | some i => some i
      | none => st.approxsol
    match sol with
    | some i =>
      ⟨Status.ofFlags true approximate, some (pathTo st.tree (i + 1) i [], approximate, st.approxdif), st.tree,
        r.2, some i, lp.2.length⟩
    | none => ⟨Status.ofFlags false approximate, none, st.tree, r.2, pl.lastGoalMotion, lp.2.length⟩

/-- the calls a user can interleave on one planner / problem definition pair -/
inductive Op (S D : Type) where
  /-- `planner.solve(ptc)`: one scripted draw per loop iteration, the script's end is the termination condition -/
  | solve (script : List (Draw S))
  /-- `planner.clear()` -/
  | clear
  /-- `pdef->addStartState(s)` -/
  | addStart (s : S)
  /-- `planner.setRange(r)` -/
  | setRange (r : D)
  /-- `goal->setThreshold(t)` -/
  | setThreshold (t : D)
  /-- `planner.setIntermediateStates(b)` -/
  | setIntermediate (b : Bool)
  /-- `planner.setup()` (again): `SelfConfig::configurePlannerRange` -/
  | setup
  /-- `pdef->clearSolutionPaths()` -/
  | clearSolutions

structure World (S D : Type) where
  planner : Planner S
  params : Params D
  pd : Pdef S (List S) D

/-- `configurePlannerRange(maxDistance_)`: `if (range < epsilon) range = 0.2 * extent` -/
def configureRange (lt : D → D → Bool) (eps autoRange r : D) : D :=
  if lt r eps then autoRange else r

/-- one call; a `solve` also returns its report -/
def applyOp (cfg : Cfg S D) (eps autoRange : D) (w : World S D) : Op S D → World S D × Option (Report S D)
  | .solve script =>
    let r := solveFrom (cfg.withParams w.params) w.pd.starts w.planner script
    let pd' := match r.added with
      | some (path, approximate, dif) => addSolutionPath cfg.zero w.pd path approximate dif
      | none => w.pd
    ({ w with planner := ⟨r.tree, r.pis, r.lastGoalMotion⟩, pd := pd' }, some r)
  | .clear => ({ w with planner := {} }, none)
  | .addStart s => ({ w with pd := { w.pd with starts := w.pd.starts.push s } }, none)
  | .setRange r => ({ w with params := { w.params with maxDistance := r } }, none)
  | .setThreshold t => ({ w with params := { w.params with threshold := t } }, none)
  | .setIntermediate b => ({ w with params := { w.params with addIntermediate := b } }, none)
  | .setup =>
    ({ w with params := { w.params with maxDistance := configureRange cfg.lt eps autoRange w.params.maxDistance } }, none)
  | .clearSolutions => ({ w with pd := { w.pd with solutions := [] } }, none)

/-- a whole history; the reports of its `solve` calls in order -/
def runOps (cfg : Cfg S D) (eps autoRange : D) : World S D → List (Op S D) → World S D × List (Report S D)
  | w, [] => (w, [])
  | w, op :: rest =>
    let a := applyOp cfg eps autoRange w op
    let b := runOps cfg eps autoRange a.1 rest
    (b.1, (match a.2 with | some r => [r] | none => []) ++ b.2)

/-- a freshly constructed and set-up planner on a problem definition without solutions -/
def World.fresh (starts : Array S) (p : Params D) : World S D :=
  ⟨{}, p, { starts := starts }⟩

end OmplModel.RRT
