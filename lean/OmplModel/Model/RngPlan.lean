import OmplModel.Model.Rng
import OmplModel.Proofs.RngOracle
/-!
C20, the "consequently" clause made concrete for one planner: `ompl::geometric::RRT` (src/ompl/geometric/planners/rrt/src/RRT.cpp)
on a `RealVectorStateSpace`, written as an *oracle computation* (`Oracle.Comp`): everything the planner learns about its
world it learns by asking

* `alloc`      — a default-constructed `ompl::RNG` (member `rng_` of the planner, member `rng_` of the state sampler
                 it allocates, the generators `StateSpace::setup()` uses for the default projection);
* `draw k op`  — a draw on the `k`-th generator created;
* `eval x`     — `StateValidityChecker::isValid(x)` (user callback);
* `poll`       — `PlannerTerminationCondition::operator()`;
* `arm b`      — the caller builds a fresh termination condition before a `solve` (not asked by the planner);
* `mark`       — the caller notes the counters and the transcript hash after a `solve` (what the harness prints).

and the environment `envStep` answers from the bit-exact model of `RNGSeedGenerator` / `ompl::RNG` (`Model/Rng.lean`),
from the user's validity callback, and from the termination condition (an evaluation counter, or
`ompl::base::IterationTerminationCondition` as coded: `++timesCalled_ > maxCalls_`).

Mirrored, branch for branch (core Lean only, executable; `drv_rngplan` runs it in lock-step with the real planner):
`RRT::solve` (start states through `PlannerInputStates::nextStart`, lazy `allocStateSampler`, goal bias draw *before* the
sample, `GoalState`/`GoalStates::sampleGoal` with its persistent `samplePosition_`, `RealVectorStateSampler::sampleUniform`,
`NearestNeighborsLinear::nearest` (first minimum wins), `RealVectorStateSpace::distance/interpolate`, the `maxDistance_`
truncation, `DiscreteMotionValidator::checkMotion` (end point first, then breadth-first bisection), `validSegmentCount`,
the `addIntermediateStates_` branch through `SpaceInformation::getMotionStates`, `GoalRegion::isSatisfied` (strict `<`),
exact/approximate solution bookkeeping, path extraction), `RRT::clear` (drops the sampler: the next `solve` allocates a
new generator), `RRT::setup` (`SelfConfig::configurePlannerRange`), `StateSpace::setup` (`longestValidSegment_`,
two generators for the random default projection when the dimension exceeds 2).

Spaces: `RealVectorStateSpace(dim)` and `SE2StateSpace` (compound of a 2-D real vector, weight 1, and `SO2StateSpace`, weight
0.5: `CompoundStateSpace::distance / interpolate / satisfiesBounds / validSegmentCount / getMaximumExtent`,
`SO2StateSpace::distance / interpolate` with the seam at ±pi, `CompoundStateSampler` = three generators created in the order
own / real-vector part / SO(2) part, `SO2StateSampler::sampleUniform`).

Abstractions: the planning loop is bounded by `fuel` iterations and the bisection queue by `nd` steps — limits that are
never reached (`Props.C20.rrt_never_out_of_fuel`: a run ends without a result only if a seed draw's own rejection loop gave up,
ghost flag `EnvSt.allocFailed`); 32/64-bit counters do not wrap; `Float → unsigned` casts are taken in range.
-/
namespace OmplModel.RngPlan
open OmplModel.Rng OmplModel.Rng.Oracle

abbrev Vec := Array Float

inductive Q where
  | alloc
  | draw (k : Nat) (op : Op)
  | eval (x : Vec)
  | poll
  | arm (budget : Nat)
  | mark

inductive A where
  | handle (k : Nat) (seed : UInt64)
  | drew (o : Out)
  | val (b : Bool)
  | stop (b : Bool)
  | ok
  | fail

/-! ## `Comp` as a monad -/

def cbind {Q A R S : Type} : Comp Q A R → (R → Comp Q A S) → Comp Q A S
  | .done r, f => f r
  | .ask q k, f => .ask q fun a => cbind (k a) f

instance {Q A : Type} : Monad (Comp Q A) where
  pure := .done
  bind := cbind

/-- computations that may stop on a protocol error / exhausted fuel -/
abbrev M := OptionT (Comp Q A)

def ask (q : Q) : M A := OptionT.mk (.ask q fun a => .done (some a))

def askAlloc : M (Nat × UInt64) := do
  match ← ask .alloc with
  | .handle k s => pure (k, s)
  | _ => failure

def askReal (k : Nat) (op : Op) : M Float := do
  match ← ask (.draw k op) with
  | .drew (.real x) => pure x
  | _ => failure

def askValid (x : Vec) : M Bool := do
  match ← ask (.eval x) with
  | .val b => pure b
  | _ => failure

def askPoll : M Bool := do
  match ← ask .poll with
  | .stop b => pure b
  | _ => failure

def askArm (b : Nat) : M Unit := do
  match ← ask (.arm b) with
  | .ok => pure ()
  | _ => failure

def askMark : M Unit := do
  match ← ask .mark with
  | .ok => pure ()
  | _ => failure

/-! ## the problem and the state space

Two spaces: `RealVectorStateSpace(dim)` (state = `dim` reals) and, with `se2`, `SE2StateSpace` = compound of
`RealVectorStateSpace(dim = 2)` (weight 1) and `SO2StateSpace` (weight 0.5) (state = x, y, yaw). -/

structure Problem where
  dim : Nat
  /-- `SE2StateSpace` instead of `RealVectorStateSpace` -/
  se2 : Bool := false
  lo : Vec
  hi : Vec
  starts : List Vec
  goals : Array Vec
  /-- `GoalRegion::threshold_` -/
  thr : Float
  /-- `StateSpace::longestValidSegmentFraction_` (`setStateValidityCheckingResolution`) -/
  res : Float
  /-- `RRT::setRange` (`< epsilon`: detected by `setup()`) -/
  range : Float
  /-- `RRT::setGoalBias` -/
  bias : Float
  /-- `addIntermediateStates_` -/
  inter : Bool

/-- `0.0` (as a bit pattern: a decimal literal would be re-parsed at every use in compiled code) -/
def f0 : Float := Float.ofBits 0
def f1 : Float := Float.ofBits 0x3FF0000000000000
def f2 : Float := Float.ofBits 0x4000000000000000
def fHalf : Float := Float.ofBits 0x3FE0000000000000
def epsD : Float := Float.ofBits 0x3CB0000000000000
def infD : Float := Float.ofBits 0x7FF0000000000000
def negPi : Float := Float.ofBits 0xC00921FB54442D18

/-- `RealVectorStateSpace::getMaximumExtent` -/
def rvExtent (P : Problem) : Float :=
  Float.sqrt ((List.range P.dim).foldl (fun e i => let d := P.hi.getD i f0 - P.lo.getD i f0; e + d * d) f0)

/-- `getMaximumExtent` of the whole space; `CompoundStateSpace`: `e = 0; e += weights_[i] * components_[i]->getMaximumExtent()` -/
def maxExtent (P : Problem) : Float :=
  if P.se2 then f0 + f1 * rvExtent P + fHalf * piD else rvExtent P

/-- `magic::MAX_MOTION_LENGTH_AS_SPACE_EXTENT_FRACTION` = 0.2 -/
def rangeFraction : Float := Float.ofBits 0x3FC999999999999A

/-- `SelfConfig::configurePlannerRange` -/
def maxDistance (P : Problem) : Float := if P.range < epsD then maxExtent P * rangeFraction else P.range

/-- `for (i = 0; i < dimension_; ++i) { diff = s1[i] - s2[i]; dist += diff * diff; }` -/
def sqSum (n : Nat) (a b : Vec) (i : Nat) (s : Float) : Float :=
  if i < n then
    let d := a.getD i f0 - b.getD i f0
    sqSum n a b (i + 1) (s + d * d)
  else s
termination_by n - i

/-- `RealVectorStateSpace::distance` -/
def rvDistance (P : Problem) (a b : Vec) : Float := Float.sqrt (sqSum P.dim a b 0 f0)

/-- `SO2StateSpace::distance` -/
def so2Distance (v1 v2 : Float) : Float :=
  let d := Float.abs (v1 - v2)
  if d > piD then f2 * piD - d else d

/-- `StateSpace::distance`; `CompoundStateSpace`: `dist = 0; dist += weights_[i] * components_[i]->distance(…)` -/
def distance (P : Problem) (a b : Vec) : Float :=
  if P.se2 then f0 + f1 * rvDistance P a b + fHalf * so2Distance (a.getD P.dim f0) (b.getD P.dim f0)
  else rvDistance P a b

/-- `SO2StateSpace::interpolate` (with the wrap applied to both branches, `>= pi` maps to `-pi`) -/
def so2Interpolate (fr to t : Float) : Float :=
  let diff := to - fr
  let v :=
    if Float.abs diff ≤ piD then fr + diff * t
    else
      let diff := if diff > f0 then f2 * piD - diff else (-f2) * piD - diff
      fr - diff * t
  if v ≥ piD then v - f2 * piD else if v < negPi then v + f2 * piD else v

/-- `RealVectorStateSpace::interpolate`, and per component for the compound -/
def interpolate (P : Problem) (a b : Vec) (t : Float) : Vec :=
  let rv := (Array.range P.dim).map fun i => a.getD i f0 + (b.getD i f0 - a.getD i f0) * t
  if P.se2 then rv.push (so2Interpolate (a.getD P.dim f0) (b.getD P.dim f0) t) else rv

/-- `RealVectorStateSpace::satisfiesBounds` (∧ `SO2StateSpace::satisfiesBounds`: `v < pi && v >= -pi`) -/
def satisfiesBounds (P : Problem) (x : Vec) : Bool :=
  ((List.range P.dim).all fun i => !(x.getD i f0 - epsD > P.hi.getD i f0 || x.getD i f0 + epsD < P.lo.getD i f0)) &&
    (!P.se2 || (x.getD P.dim f0 < piD && x.getD P.dim f0 ≥ negPi))

/-- `(unsigned int)ceil(distance / longestValidSegment_)` with `longestValidSegment_ = maxExtent_ * fraction` of the
(sub)space -/
def segCount (d ext res : Float) : Nat := (Float.ceil (d / (ext * res))).toUInt32.toNat

/-- `StateSpace::validSegmentCount` (count factor 1); `CompoundStateSpace`: the maximum over the components -/
def validSegmentCount (P : Problem) (a b : Vec) : Nat :=
  let rv := segCount (rvDistance P a b) (rvExtent P) P.res
  if P.se2 then
    let so := segCount (so2Distance (a.getD P.dim f0) (b.getD P.dim f0)) piD P.res
    let sc := if rv > 0 then rv else 0
    if so > sc then so else sc
  else rv

/-- the harness' validity callback: inside the bounds and outside every closed box (over the first `dim` reals) -/
def boxOracle (P : Problem) (boxes : List (Vec × Vec)) (x : Vec) : Bool :=
  satisfiesBounds P x &&
    boxes.all fun b => !((List.range P.dim).all fun i => !(x.getD i f0 < b.1.getD i f0 || x.getD i f0 > b.2.getD i f0))

/-! ## planner state that outlives a `solve` -/

structure Motion where
  state : Vec
  parent : Option Nat

structure PSt where
  /-- `nn_` (`NearestNeighborsLinear::data_`, insertion order) -/
  tree : Array Motion := #[]
  /-- `rng_` -/
  rng : Nat
  rngSeed : UInt64
  /-- `sampler_` (the first of its generators and its local seed), `none` = not allocated -/
  sampler : Option (Nat × UInt64) := none
  /-- `pis_.addedStartStates_` -/
  addedStarts : Nat := 0
  /-- `GoalStates::samplePosition_` (belongs to the goal: survives `clear()`) -/
  goalPos : Nat := 0

structure Report where
  status : Nat
  /-- `approxdif` and the path handed to `addSolutionPath`, with its `approximate` flag -/
  solution : Option (Bool × Float × List Vec)

/-- `ProblemDefinition::addSolutionPath(path, approximate, difference, …)` followed by `getSolutionDifference()`: the
difference is stored only for an approximate solution (`PlannerSolution::difference_` stays `0.` otherwise) -/
def Report.solutionDifference (r : Report) : Option Float :=
  r.solution.map fun s => if s.1 then s.2.1 else f0

/-- `NearestNeighborsLinear::nearest`: `if (pos == sz || dmin > distance)` -/
def nearestGo (P : Problem) (tree : Array Motion) (r : Vec) (i pos : Nat) (dmin : Float) : Nat :=
  if h : i < tree.size then
    let d := distance P tree[i].state r
    if pos == tree.size || dmin > d then nearestGo P tree r (i + 1) i d else nearestGo P tree r (i + 1) pos dmin
  else pos
termination_by tree.size - i

def nearest (P : Problem) (tree : Array Motion) (r : Vec) : Nat := nearestGo P tree r 0 tree.size f0

/-- number of generators a state sampler of the space owns: `RealVectorStateSampler` one (`StateSampler::rng_`);
`CompoundStateSampler` its own (never drawn from by `sampleUniform`) plus those of the component samplers, created in
that order by `CompoundStateSpace::allocDefaultStateSampler` -/
def samplerWidth (P : Problem) : Nat := if P.se2 then 3 else 1

/-- `RealVectorStateSampler::sampleUniform` on generator `k` -/
def sampleRV (P : Problem) (k : Nat) : Nat → Vec → M Vec
  | 0, acc => pure acc
  | n + 1, acc => do
    let i := acc.size
    let x ← askReal k (.uniformReal (P.lo.getD i f0) (P.hi.getD i f0))
    sampleRV P k n (acc.push x)

/-- `StateSampler::sampleUniform` of the space's default sampler whose first generator is `sk`;
`CompoundStateSampler::sampleUniform`: the component samplers in order (`SO2StateSampler`: `uniformReal(-pi, pi)`) -/
def sampleUniform (P : Problem) (sk : Nat) : M Vec :=
  if P.se2 then do
    let rv ← sampleRV P (sk + 1) P.dim #[]
    let yaw ← askReal (sk + 2) (.uniformReal negPi piD)
    pure (rv.push yaw)
  else sampleRV P sk P.dim #[]

/-- the bisection queue of `DiscreteMotionValidator::checkMotion(s1, s2)`; the fuel equals the number of interior
points and always suffices (`Proofs/RngPlanFuel.lean`) -/
def checkQueue (P : Problem) (s1 s2 : Vec) (nd : Nat) : Nat → List (Nat × Nat) → M Bool
  | _, [] => pure true
  | 0, _ :: _ => failure
  | fuel + 1, (a, b) :: rest => do
    let mid := (a + b) / 2
    let ok ← askValid (interpolate P s1 s2 (mid.toFloat / nd.toFloat))
    if !ok then pure false
    else
      checkQueue P s1 s2 nd fuel
        (rest ++ (if a < mid then [(a, mid - 1)] else []) ++ (if b > mid then [(mid + 1, b)] else []))

/-- `DiscreteMotionValidator::checkMotion(s1, s2)` -/
def checkMotion (P : Problem) (s1 s2 : Vec) : M Bool := do
  if !(← askValid s2) then pure false
  else
    let nd := validSegmentCount P s1 s2
    if nd ≥ 2 then checkQueue P s1 s2 nd nd [(1, nd - 1)] else pure true

/-- `SpaceInformation::getMotionStates(s1, s2, states, count, true, true)` without `states[0]` -/
def motionStatesTail (P : Problem) (s1 s2 : Vec) (count : Nat) : List Vec :=
  let c := count + 1
  if c < 2 then [s2]
  else ((List.range (c - 1)).map fun j => interpolate P s1 s2 ((j + 1).toFloat / c.toFloat)) ++ [s2]

/-- `GoalState::distanceGoal` / `GoalStates::distanceGoal` -/
def distanceGoal (P : Problem) (x : Vec) : Float :=
  if P.goals.size == 1 then distance P x (P.goals.getD 0 #[])
  else P.goals.foldl (fun dist g => let d := distance P x g; if d < dist then d else dist) infD

structure LoopSt where
  ps : PSt
  solution : Option Nat := none
  approxsol : Option Nat := none
  approxdif : Float := infD

/-- `while (solution != nullptr) { mpath.push_back(solution); solution = solution->parent; }`, reversed -/
def pathTo (tree : Array Motion) : Nat → Option Nat → List Vec → List Vec
  | _, none, acc => acc
  | 0, some _, acc => acc
  | fuel + 1, some i, acc =>
    match tree[i]? with
    | none => acc
    | some m => pathTo tree fuel m.parent (m.state :: acc)

def finish (st : LoopSt) : PSt × Report :=
  let (sol, approximate) :=
    match st.solution with
    | some s => (some s, false)
    | none => (st.approxsol, true)
  match sol with
  | some s =>
    (st.ps, { status := if approximate then 5 else 6,
              solution := some (approximate, st.approxdif, pathTo st.ps.tree (st.ps.tree.size + 1) (some s) []) })
  | none => (st.ps, { status := 4, solution := none })

/-- the target of one iteration: `goal_s != nullptr && rng_.uniform01() < goalBias_ && goal_s->canSample()` →
`sampleGoal`, else `sampler_->sampleUniform` -/
def sampleTarget (P : Problem) (sk : Nat) (ps : PSt) (u : Float) : M (Vec × PSt) :=
  if u < P.bias && P.goals.size > 0 then
    let pos := ps.goalPos % P.goals.size
    pure (P.goals.getD pos #[], { ps with goalPos := pos + 1 })
  else do
    let r ← sampleUniform P sk
    pure (r, ps)

/-- nearest tree node and the state to steer to: `(ni, nstate, dstate)` -/
def steer (P : Problem) (ps : PSt) (rstate : Vec) : Nat × Vec × Vec :=
  let ni := nearest P ps.tree rstate
  let nstate := (ps.tree.getD ni ⟨#[], none⟩).state
  let d := distance P nstate rstate
  (ni, nstate, if d > maxDistance P then interpolate P nstate rstate (maxDistance P / d) else rstate)

inductive IterOut where
  | done (r : PSt × Report)
  | next (st : LoopSt)

/-- `sat = goal->isSatisfied(nmotion->state, &dist)`: exact solution, better approximate solution, or neither -/
def judge (P : Problem) (st : LoopSt) (ps' : PSt) (nm : Nat) (dist : Float) : IterOut :=
  if dist < P.thr then .done (finish { st with ps := ps', solution := some nm, approxdif := dist })
  else if dist < st.approxdif then .next { st with ps := ps', approxdif := dist, approxsol := some nm }
  else .next { st with ps := ps' }

/-- what `RRT::solve` does with the answer of `checkMotion` -/
def afterMotion (P : Problem) (st : LoopSt) (ps : PSt) (ni : Nat) (nstate dstate : Vec) (ok : Bool) : IterOut :=
  if ok then
    let added : List Vec :=
      if P.inter then
        let segments := validSegmentCount P nstate dstate
        motionStatesTail P nstate dstate (if segments > 0 then segments - 1 else 0)
      else [dstate]
    let tree := added.foldl (fun (t : Array Motion) s =>
      t.push ⟨s, some (if t.size == ps.tree.size then ni else t.size - 1)⟩) ps.tree
    let nm := if added.isEmpty then ni else tree.size - 1
    judge P st { ps with tree := tree } nm (distanceGoal P (tree.getD nm ⟨#[], none⟩).state)
  else .next { st with ps := ps }

/-- one pass through the body of `while (!ptc)` after the poll -/
def iter1 (P : Problem) (sk : Nat) (st : LoopSt) : M IterOut := do
  let u ← askReal st.ps.rng .uniform01
  let tgt ← sampleTarget P sk st.ps u
  let sd := steer P tgt.2 tgt.1
  let ok ← checkMotion P sd.2.1 sd.2.2
  pure (afterMotion P st tgt.2 sd.1 sd.2.1 sd.2.2 ok)

/-- the `while (!ptc)` loop of `RRT::solve`; the fuel `budget + 2` always suffices (`Props.C20.rrt_never_out_of_fuel`) -/
def rrtLoop (P : Problem) (sk : Nat) : Nat → LoopSt → M (PSt × Report)
  | 0, _ => failure
  | fuel + 1, st => do
    if ← askPoll then pure (finish st)
    else
      match ← iter1 P sk st with
      | .done r => pure r
      | .next st' => rrtLoop P sk fuel st'

/-- `while (const base::State *st = pis_.nextStart()) { … nn_->add(motion); }` -/
def addStarts (P : Problem) : List Vec → PSt → M PSt
  | [], ps => pure ps
  | s :: rest, ps => do
    let ps := { ps with addedStarts := ps.addedStarts + 1 }
    if satisfiesBounds P s then
      if ← askValid s then addStarts P rest { ps with tree := ps.tree.push ⟨s, none⟩ }
      else addStarts P rest ps
    else addStarts P rest ps

def allocN : Nat → M Unit
  | 0 => pure ()
  | n + 1 => do let _ ← askAlloc; allocN n

/-- `si_->allocStateSampler()`: the sampler's own generator first, then those of the component samplers -/
def allocSampler (P : Problem) : M (Nat × UInt64) := do
  let h ← askAlloc
  allocN (samplerWidth P - 1)
  pure h

/-- `if (!sampler_) sampler_ = si_->allocStateSampler();` -/
def ensureSampler (P : Problem) (ps : PSt) : M (PSt × Nat) :=
  match ps.sampler with
  | some h => pure (ps, h.1)
  | none => do
    let h ← allocSampler P
    pure ({ ps with sampler := some h }, h.1)

/-- `RRT::solve` -/
def solve (P : Problem) (fuel : Nat) (ps : PSt) : M (PSt × Report) := do
  let ps ← addStarts P (P.starts.drop ps.addedStarts) ps
  if ps.tree.size == 0 then pure (ps, { status := 1, solution := none })
  else
    let r ← ensureSampler P ps
    rrtLoop P r.2 fuel { ps := r.1 }

/-- `RRT::clear` -/
def clear (ps : PSt) : PSt := { ps with tree := #[], sampler := none, addedStarts := 0 }

inductive Phase where
  | solve
  | clear

structure Section where
  report : Option Report     -- `none`: the "cleared" section
  ps : PSt

def phases (P : Problem) (budget : Nat) : List Phase → PSt → List Section → M (List Section)
  | [], _, acc => pure acc.reverse
  | .clear :: rest, ps, acc => phases P budget rest (clear ps) (⟨none, clear ps⟩ :: acc)
  | .solve :: rest, ps, acc => do
    askArm budget
    let r ← solve P (budget + 2) ps
    askMark
    phases P budget rest r.1 (⟨some r.2, r.1⟩ :: acc)

/-- number of generators `StateSpace::setup()` creates: for a `RealVectorStateSpace` of dimension above 2 the default
projection is a `RealVectorRandomLinearProjectionEvaluator` (one `RNG` in `ProjectionMatrix::ComputeRandom`, one in the
state sampler that infers its cell sizes); `SE2StateSpace` and its components use fixed projections -/
def spaceSetupRngs (P : Problem) : Nat := if !P.se2 && P.dim > 2 then 2 else 0

/-- the harness' program: space set-up, planner construction, then the history of `solve` / `clear()` calls, each `solve`
under a fresh termination condition with the same budget -/
def programM (P : Problem) (budget : Nat) (hist : List Phase) : M (List Section) := do
  allocN (spaceSetupRngs P)
  let h ← askAlloc
  phases P budget hist { rng := h.1, rngSeed := h.2 } []

def program (P : Problem) (budget : Nat) (hist : List Phase) : Comp Q A (Option (List Section)) :=
  (programM P budget hist).run

/-! ## the environment -/

inductive Ptc where
  /-- the harness' counting condition: `++polls; evals >= budgetAbs || polls >= capAbs` -/
  | evals (budgetAbs capAbs : Nat)
  /-- `IterationTerminationCondition`: `++timesCalled_; return timesCalled_ > maxCalls_;` -/
  | iter (maxCalls timesCalled : Nat)
deriving DecidableEq

/-- `IterationTerminationCondition::eval` -/
def Ptc.eval (p : Ptc) (evals polls : Nat) : Bool × Ptc :=
  match p with
  | .evals b c => (decide (evals ≥ b) || decide (polls ≥ c), p)
  | .iter m t => (decide (t + 1 > m), .iter m (t + 1))

def fnvByte (h : UInt64) (b : UInt64) : UInt64 := (h ^^^ b) * 1099511628211

def fnvU64 (h : UInt64) (v : UInt64) : UInt64 :=
  (List.range 8).foldl (fun h i => fnvByte h ((v >>> (8 * i).toUInt64) &&& 0xff)) h

def fnvVec (h : UInt64) (x : Vec) : UInt64 := x.foldl (fun h d => fnvU64 h d.toBits) h

def fnvInit : UInt64 := 1469598103934665603

structure EnvSt where
  /-- `RNGSeedGenerator::sGen_` (the only part of the seed generator `nextSeed` reads) -/
  sgen : Swc
  rngs : Array Rng := #[]
  evals : Nat := 0
  polls : Nat := 0
  ptc : Ptc := .evals 0 0
  /-- which condition `arm` builds -/
  iterKind : Bool := false
  qhash : UInt64 := fnvInit
  trace : Bool := false
  /-- the query transcript (newest first), kept when `trace` -/
  log : List (Vec × Bool) := []
  /-- `(evals, polls, qhash)` at every `mark` (newest first) -/
  marks : List (Nat × Nat × UInt64) := []
  /-- ghost: some `alloc` could not be answered because the rejection loop of the seed draw (`uniform_int_distribution`
  over `ranlux24_base`, rejection probability 1e-6 per round) used up its 4096 rounds — the only way a run of `program`
  can end without a result (`Props.C20.rrt_never_out_of_fuel`) -/
  allocFailed : Bool := false

def envStep (orc : Vec → Bool) (e : EnvSt) : Q → A × EnvSt
  | .alloc =>
    match drawSeed e.sgen with
    | none => (.fail, { e with allocFailed := true })
    | some (v, sg) =>
      (.handle e.rngs.size (UInt64.ofNat v), { e with sgen := sg, rngs := e.rngs.push (Rng.create (UInt64.ofNat v)) })
  | .draw k op =>
    match e.rngs[k]? with
    | none => (.fail, e)
    | some r => let d := r.step op; (.drew d.1, { e with rngs := e.rngs.setIfInBounds k d.2 })
  | .eval x =>
    let b := orc x
    (.val b, { e with evals := e.evals + 1, qhash := fnvByte (fnvVec e.qhash x) (if b then 1 else 0),
                      log := if e.trace then (x, b) :: e.log else e.log })
  | .poll =>
    let d := e.ptc.eval e.evals (e.polls + 1)
    (.stop d.1, { e with polls := e.polls + 1, ptc := d.2 })
  | .mark => (.ok, { e with marks := (e.evals, e.polls, e.qhash) :: e.marks })
  | .arm b =>
    (.ok, { e with ptc := if e.iterKind then .iter b 0 else .evals (e.evals + b) (e.polls + 2 * b + 2000) })

/-- a process whose clock read `clock` when the seed generator was constructed and which then called
`RNG::setSeed(seed)` before creating any generator -/
def envInit (clock seed : UInt64) (iterKind trace : Bool) : EnvSt :=
  { sgen := ((SeedGen.init clock).setSeed seed).1.sGen, iterKind := iterKind, trace := trace }

/-- run a computation against a state machine -/
def runS {σ Q A R : Type} (step : σ → Q → A × σ) : Comp Q A R → σ → R × σ
  | .done r, s => (r, s)
  | .ask q k, s => runS step (k (step s q).1) (step s q).2

end OmplModel.RngPlan
