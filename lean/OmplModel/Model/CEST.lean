/-
Executable model of `ompl::control::EST::solve` / `selectMotion` / `addMotion`
(src/ompl/control/planners/est/src/EST.cpp, EST.h), on top of the PDF model `Model/Pdf.lean`.

Core Lean only.  Unlike geometric EST (Model/EST.lean: neighbourhood weights, one PDF element per motion),
the control planner keeps a **grid of cells** (`Grid<MotionInfo>`, keyed by the projection coordinates of a
motion's state), each cell a list of motions and **one PDF element per cell** whose weight is `1.0` when
the cell is created and `1.0 / cell.size()` after every later insertion.

Oracles / parameters: the system (`step`, `valid`, `dist`), the goal, the projection
(`coordOf = projectionEvaluator_->computeCoordinates`), and the planner's own random number generator as an
abstract state machine (`ρ`, `rng01 = RNG::uniform01`, `rngInt g hi = RNG::uniformInt(0, hi)`): a theorem for
every `ρ`/`rng01`/`rngInt` is a theorem for every stream of draws; the driver instantiates them with the
bit-exact `Model/Rng.lean`.  Scripted per iteration (`Draw`): the outcome of
`sampler_->sampleNear(rmotion->state, existing->state, maxDistance_)` (the valid-state sampler; `none` =
failure → `continue`) and the `numControlSamples` (control, step count) draws consumed by `sampleTo`
(which come from the *control sampler's* generator).  One termination-condition evaluation per iteration,
also after `continue`.

Cells are numbered by creation order; cells are never removed and PDF elements are created only with
cells, so the PDF handle of cell `c` is `c` (`cest_pdf_sync`).  The tree is `CRRT.Motion` in creation order.
Abstractions: pointers → indices; the hash order of `Grid` is not modelled (nothing in `solve` depends on
it); an exception out of `pdf_.sample` or an empty cell (`assert(existing)`) stops the loop (`halt`).
-/
import OmplModel.Model.CRRT
import OmplModel.Model.Pdf
namespace OmplModel.CEST
open OmplModel.Control OmplModel.CRRT OmplModel.Pdf

structure Problem (S U δ κ ρ : Type) where
  step : S → U → S
  valid : S → Bool
  dist : S → S → δ
  lt : δ → δ → Bool
  inf : δ
  goal : S → Bool × δ
  goalSample : S
  /-- `goal_s != nullptr` (the goal-bias draw is made only then) and `goal_s->canSample()` -/
  goalSampleable : Bool
  canSample : Bool
  goalBias : δ
  nullControl : U
  minSteps : Nat
  /-- `projectionEvaluator_->computeCoordinates(state, coord)` -/
  coordOf : S → κ
  /-- the weight `1.0` of a new cell and `1.0 / size` of a cell that grew to `size` motions -/
  wOne : δ
  wInv : Nat → δ
  /-- `rng_.uniform01()` and `rng_.uniformInt(0, hi)` -/
  rng01 : ρ → δ × ρ
  rngInt : ρ → Nat → Nat × ρ

structure Draw (S U : Type) where
  near : Option S
  ctl : List (U × Nat)

structure Cell (κ : Type) where
  coord : κ
  /-- `data.motions_` (motion indices, insertion order) -/
  motions : List Nat
  /-- `data.elem_` (PDF handle) -/
  elem : Nat

structure St (S U δ κ ρ : Type) where
  tree : Array (Motion S U)
  cells : Array (Cell κ)
  pdf : Pdf δ
  rng : ρ
  solution : Option Nat
  approxsol : Option Nat
  approxdif : δ

variable {S U δ κ ρ : Type} [DecidableEq κ] [WScale δ]

/-- `tree_.grid.getCell(coord)` -/
def findCell (cells : Array (Cell κ)) (c : κ) : Option Nat :=
  cells.findIdx? fun x => x.coord = c

/-- `EST::addMotion`: the motion (already pushed, index `idx`, state `s`) enters its cell -/
def enterCell (P : Problem S U δ κ ρ) (st : St S U δ κ ρ) (idx : Nat) (s : S) : St S U δ κ ρ :=
  let c := P.coordOf s
  match findCell st.cells c with
  | some ci =>
    match st.cells[ci]? with
    | none => st
    | some cell =>
      let cell' : Cell κ := { cell with motions := cell.motions ++ [idx] }
      { st with cells := st.cells.setIfInBounds ci cell',
                pdf := st.pdf.update cell.elem (P.wInv cell'.motions.length) }
  | none =>
    { st with cells := st.cells.push { coord := c, motions := [idx], elem := st.pdf.next },
              pdf := st.pdf.add P.wOne }

def addMotion (P : Problem S U δ κ ρ) (st : St S U δ κ ρ) (m : Motion S U) : St S U δ κ ρ :=
  enterCell P { st with tree := st.tree.push m } st.tree.size m.state

inductive Flow where
  | cont | done | halt
deriving DecidableEq, Repr

/-- `selectMotion()`: `cell = pdf_.sample(rng_.uniform01()); cell->data[rng_.uniformInt(0, size - 1)]` -/
def selectMotion (P : Problem S U δ κ ρ) (st : St S U δ κ ρ) : Option Nat × ρ :=
  let r1 := P.rng01 st.rng
  match st.pdf.sample r1.1 with
  | .ok h =>
    match st.cells[h]? with
    | none => (none, r1.2)
    | some cell =>
      if cell.motions.isEmpty then (none, r1.2)
      else
        let r2 := P.rngInt r1.2 (cell.motions.length - 1)
        (cell.motions[r2.1]?, r2.2)
  | _ => (none, r1.2)

/-- one iteration of `while (!ptc)` -/
def iter (P : Problem S U δ κ ρ) (st : St S U δ κ ρ) (d : Draw S U) : St S U δ κ ρ × Flow :=
  let sel := selectMotion P st
  match sel.1 with
  | none => ({ st with rng := sel.2 }, .halt)
  | some ex =>
    match st.tree[ex]? with
    | none => ({ st with rng := sel.2 }, .halt)
    | some em =>
      -- `goal_s && rng_.uniform01() < goalBias_ && goal_s->canSample()`
      let gb : Bool × ρ :=
        if P.goalSampleable then
          let r3 := P.rng01 sel.2
          (P.lt r3.1 P.goalBias && P.canSample, r3.2)
        else (false, sel.2)
      let st1 := { st with rng := gb.2 }
      let target : Option S := if gb.1 then some P.goalSample else d.near
      match target with
      | none => (st1, .cont)                       -- sampleNear failed: `continue`
      | some rstate =>
        match sampleTo P.step P.valid P.dist P.lt em.state rstate d.ctl with
        | none => (st1, .cont)
        | some (rctrl, dur, reached) =>
          if P.minSteps ≤ dur then
            let idx := st1.tree.size
            let st2 := addMotion P st1 { state := reached, control := rctrl, steps := dur, parent := some ex }
            let g := P.goal reached
            if g.1 then ({ st2 with approxdif := g.2, solution := some idx }, .done)
            else if P.lt g.2 st2.approxdif then ({ st2 with approxdif := g.2, approxsol := some idx }, .cont)
            else (st2, .cont)
          else (st1, .cont)

def run (P : Problem S U δ κ ρ) : St S U δ κ ρ → List (Draw S U) → St S U δ κ ρ
  | st, [] => st
  | st, d :: ds =>
    match iter P st d with
    | (st', .cont) => run P st' ds
    | (st', _) => st'

structure Result (S U δ κ ρ : Type) where
  status : Status
  dif : δ
  path : Option (Path S U)
  final : St S U δ κ ρ

def init (P : Problem S U δ κ ρ) (g : ρ) (starts : List S) : St S U δ κ ρ :=
  (starts.filter P.valid).foldl
    (fun st s => addMotion P st { state := s, control := P.nullControl, steps := 0, parent := none })
    { tree := #[], cells := #[], pdf := {}, rng := g, solution := none, approxsol := none, approxdif := P.inf }

/-- `control::EST::solve` on a fresh planner whose `rng_` is in state `g` -/
def solve (P : Problem S U δ κ ρ) (g : ρ) (starts : List S) (draws : List (Draw S U)) : Result S U δ κ ρ :=
  let st0 := init P g starts
  if st0.cells.size = 0 then { status := .invalidStart, dif := P.inf, path := none, final := st0 }
  else
    let st := run P st0 draws
    match st.solution with
    | some i => { status := .exact, dif := st.approxdif, path := some (reported st.tree i), final := st }
    | none =>
      match st.approxsol with
      | some i => { status := .approximate, dif := st.approxdif, path := some (reported st.tree i), final := st }
      | none => { status := .timeout, dif := st.approxdif, path := none, final := st }

end OmplModel.CEST
