import OmplModel.Model.PlannerProto
/-
Third core of the C03 protocol machine: PRM's QUERY bookkeeping (src/ompl/geometric/planners/prm/src/PRM.cpp).

Only what decides which query a `solve()` works on is modelled: the start/goal milestone lists `startM_`/`goalM_`,
the `PlannerInputStates` counters, the number of roadmap vertices, and the planner's view of its problem definition.
* `solve` (PRM.cpp:457-496): every new valid start state becomes a milestone in `startM_`; no start milestone ⇒
  `INVALID_START`; if `goalM_` is empty (or smaller than `maxSampleCount()`, 1 for a `GoalState`) one goal sample is
  taken through `pis_.nextGoal` and, if valid, becomes a milestone in `goalM_`; no goal milestone ⇒ `INVALID_GOAL`;
  then the roadmap grows (by an oracle number of vertices).
* `clearQuery()` (PRM.cpp:238): `startM_.clear(); goalM_.clear(); pis_.restart();` — the roadmap stays.
* `setProblemDefinition(pd)` (PRM.cpp:232): `Planner::setProblemDefinition(pd); clearQuery();` — UNCONDITIONALLY, also
  when `pd` is the pointer the planner already holds (a new query may have been written into the same object).
* `clear()` (PRM.cpp:245): `Planner::clear()`, `freeMemory()`, `clearQuery()`.
The problem definition is an object outside the planner: `mutate` rewrites its content without telling the planner.
Core Lean only.
-/
namespace OmplModel.PlannerProto.Prm
open OmplModel.PlannerProto

structure PrmPdef where
  id : Nat
  /-- `satisfiesBounds && isValid` of every start state -/
  starts : List Bool
  /-- validity of the single state of the `GoalState` goal -/
  goalValid : Bool
deriving DecidableEq, Repr

structure Prm where
  /-- `boost::num_vertices(g_)` -/
  vertices : Nat := 0
  startM : List Nat := []
  goalM : List Nat := []
  pis : Pis := {}
  pdef : Option PrmPdef := none
deriving DecidableEq, Repr

inductive PStatus where
  | noPdef | invalidStart | invalidGoal | ran
deriving DecidableEq, Repr

/-- `while (st = pis_.nextStart()) startM_.push_back(addMilestone(...))` over the not yet consumed starts -/
def consume : List Bool → Nat → List Nat → Nat × List Nat
  | [], v, acc => (v, acc)
  | true :: r, v, acc => consume r (v + 1) (acc ++ [v])
  | false :: r, v, acc => consume r v acc

def solve (p : Prm) (grow : Nat) : Prm × PStatus :=
  match p.pdef with
  | none => (p, .noPdef)
  | some pd =>
    let c := consume (pd.starts.drop p.pis.added) p.vertices p.startM
    let pis1 : Pis := { p.pis with added := max p.pis.added pd.starts.length }
    let p1 : Prm := { p with vertices := c.1, startM := c.2, pis := pis1 }
    if p1.startM.isEmpty then (p1, .invalidStart)
    else if p1.goalM.isEmpty then
      -- one goal sample through pis_.nextGoal (GoalState: maxSampleCount() = 1)
      if p1.pis.sampledGoals = 0 then
        let p2 : Prm := { p1 with pis := { p1.pis with sampledGoals := 1 } }
        if pd.goalValid then
          ({ p2 with vertices := p2.vertices + 1 + grow, goalM := [p2.vertices] }, .ran)
        else (p2, .invalidGoal)
      else (p1, .invalidGoal)
    else ({ p1 with vertices := p1.vertices + grow }, .ran)

/-- `PRM::clearQuery` -/
def clearQuery (p : Prm) : Prm :=
  { p with startM := [], goalM := [], pis := { p.pis with added := 0, sampledGoals := 0 } }

/-- `PRM::setProblemDefinition` -/
def setProblemDefinition (p : Prm) (pd : PrmPdef) : Prm :=
  clearQuery { p with pdef := some pd, pis := p.pis.use (some pd.id) }

/-- `PRM::clear` -/
def clear (p : Prm) : Prm :=
  clearQuery { p with vertices := 0, pis := Pis.plannerClear (p.pdef.map (·.id)) }

inductive Op where
  | solve (grow : Nat)
  | clearQuery
  | clear
  | setProblemDefinition (pd : PrmPdef)
  /-- the content of the problem definition object the planner holds is rewritten (same pointer) -/
  | mutate (starts : List Bool) (goalValid : Bool)
  | addStart (valid : Bool)
  | getPlannerData

def step (p : Prm) : Op → Prm
  | .solve g => (solve p g).1
  | .clearQuery => clearQuery p
  | .clear => clear p
  | .setProblemDefinition pd => setProblemDefinition p pd
  | .mutate ss g => { p with pdef := p.pdef.map (fun pd => { pd with starts := ss, goalValid := g }) }
  | .addStart v => { p with pdef := p.pdef.map (fun pd => { pd with starts := pd.starts ++ [v] }) }
  | .getPlannerData => p

def run (p : Prm) (ops : List Op) : Prm := ops.foldl step p

end OmplModel.PlannerProto.Prm
