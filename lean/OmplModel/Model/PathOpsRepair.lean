import OmplModel.Model.PathOps
/-
Model of `PathGeometric::checkAndRepair(attempts)` (src/ompl/geometric/src/PathGeometric.cpp) with a
SCRIPTED valid-sampler.  Core Lean only.

* `valid` = `si_->isValid`, `cm` = `si_->checkMotion` (oracles);
* `samp k` = the k-th raw state produced by the state sampler behind the `UniformValidStateSampler`
  that `checkAndRepair` allocates (the harness installs a scripted sampler through the space's
  sampler allocator); `UniformValidStateSampler::sampleNear(state, near, r)` is
  `do { sampleUniformNear(state, near, r); valid = isValid(state); ++n; } while (!valid && n < attempts_)`
  and writes every raw sample INTO `states_[i]`, so after a failed repair `states_[i]` holds the last
  (invalid) sample — modelled as coded;
* NOT modelled: the centre `temp` and the `radius` around which is sampled (they are computed from
  `isValid(states_[i])`, the next valid state and distances; with a scripted sampler they do not
  influence the control flow).
Result: (path, originalValid, result) as in the returned `std::pair<bool, bool>`.
-/
namespace OmplModel.PathOps

variable {σ : Type}

structure RepairEnv (σ : Type) where
  valid : σ → Bool
  cm : σ → σ → Bool
  samp : Nat → σ
  attempts : Nat

/-- `sampleNear`: `more` = further iterations allowed after this one; returns (last raw sample, its
validity, index of the next unused raw sample) -/
def sampleNearGo (E : RepairEnv σ) : (more k : Nat) → σ × Bool × Nat
  | 0, k => (E.samp k, E.valid (E.samp k), k + 1)
  | more + 1, k => if E.valid (E.samp k) then (E.samp k, true, k + 1) else sampleNearGo E more (k + 1)

def sampleNear (E : RepairEnv σ) (k : Nat) : σ × Bool × Nat := sampleNearGo E (E.attempts - 1) k

/-- the test that a repaired `states_[i]` must pass:
`checkMotion(states_[i-1], states_[i]) && (i < n1 - 1 || checkMotion(states_[i], states_[i+1]))` -/
def repairedOk (E : RepairEnv σ) (st : List σ) (i : Nat) : Option Bool :=
  match st[i - 1]?, st[i]? with
  | some p, some c =>
    if E.cm p c then
      if i + 2 < st.length then some true
      else match st[i + 1]? with
        | some n => some (E.cm c n)
        | none => none
    else some false
  | _, _ => none

/-- `for (a = 0; a < attempts; ++a) if (sampleNear(states_[i], ..)) { if (ok) {success; break;} } else break;`
returns (path, success, next raw-sample index); `none` = index error -/
def tryRepair (E : RepairEnv σ) (i : Nat) : (a k : Nat) → List σ → Option (List σ × Bool × Nat)
  | 0, k, st => some (st, false, k)
  | a + 1, k, st =>
    let (s, ok, k') := sampleNear E k
    match setChk st i s with
    | none => none
    | some st' =>
      if ok then
        match repairedOk E st' i with
        | some true => some (st', true, k')
        | some false => tryRepair E i a k' st'
        | none => none
      else some (st', false, k')

/-- the loop `for (i = 1; i < n1; ++i)`; `todo` = number of remaining iterations -/
def repairLoop (E : RepairEnv σ) : (todo i k : Nat) → List σ → (used : Bool) → Option (List σ × Bool × Bool)
  | 0, _, _, st, used => some (st, !used, true)
  | todo + 1, i, k, st, used =>
    match st[i - 1]?, st[i]? with
    | some p, some c =>
      -- `!checkMotion(i-1, i) || (i == n1 - 1 && !checkMotion(i, i+1))` (short-circuit as in C++)
      let bad : Option Bool :=
        if E.cm p c then
          if i + 2 < st.length then some false
          else match st[i + 1]? with
            | some n => some (!E.cm c n)
            | none => none
        else some true
      match bad with
      | none => none
      | some false => repairLoop E todo (i + 1) k st used
      | some true =>
        match tryRepair E i E.attempts k st with
        | none => none
        | some (st', true, k') => repairLoop E todo (i + 1) k' st' true
        | some (st', false, _) => some (st', false, false)
    | _, _ => none

/-- `PathGeometric::checkAndRepair(attempts)` → (path, originalValid, result) -/
def checkAndRepair (E : RepairEnv σ) (path : List σ) : Option (List σ × Bool × Bool) :=
  match path with
  | [] => some (path, true, true)
  | [s] => some (path, E.valid s, E.valid s)
  | [a, b] => some (path, E.cm a b, E.cm a b)
  | _ =>
    match path.head?, path.getLast? with
    | some f, some l =>
      if !E.valid f || !E.valid l then some (path, false, false)
      else repairLoop E (path.length - 2) 1 0 path false
    | _, _ => none

/-- `PathGeometric::check()`: first state valid and every motion answered true -/
def checkPath (valid : σ → Bool) (cm : σ → σ → Bool) (path : List σ) : Bool :=
  match path with
  | [] => true
  | f :: _ => valid f && (adj path).all fun p => cm p.1 p.2

end OmplModel.PathOps
