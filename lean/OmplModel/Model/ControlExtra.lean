/-
Two small additions to the control propagation core (core Lean only):

* `RealVectorControlUniformSampler::sample` (src/ompl/control/spaces/src/RealVectorControlSpace.cpp):
  `values[i] = rng_.uniformReal(bounds.low[i], bounds.high[i])` with
  `RNG::uniformReal(lo, hi) = (hi - lo) * uniDist_(generator_) + lo` (util/RandomNumbers.h); the raw draws
  `uniDist_(generator_) ∈ [0, 1)` are the script.
* `PathControl::asGeometric()` (src/ompl/control/src/PathControl.cpp): copy, `interpolate()`, and the states
  move into a `PathGeometric`.

and `sampleStepCount` = `RNG::uniformInt(min, max)` = `min(floor(uniformReal(min, max + 1)), max)`.
-/
import OmplModel.Model.Control
namespace OmplModel.Control

/-- `RNG::uniformReal(lower, upper)` as a function of the raw draw `r ∈ [0,1)` -/
def uniformReal {α : Type} [Num α] (lo hi r : α) : α := (hi - lo) * r + lo

/-- `RealVectorControlUniformSampler::sample`: one raw draw per dimension, in index order -/
def ctlSample {α : Type} [Num α] : List α → List α → List α → List α
  | lo :: los, hi :: his, r :: rs => uniformReal lo hi r :: ctlSample los his rs
  | _, _, _ => []

/-- `RNG::uniformInt(lower, upper)` (used by `ControlSampler::sampleStepCount`):
`r = (int)floor(uniformReal(lower, upper + 1.0)); return r > upper ? upper : r` -/
def uniformInt {α : Type} [Num α] (lo hi : Int) (r : α) : Int :=
  let v := Num.toInt (Num.floor (uniformReal (Num.ofInt lo : α) (Num.ofInt hi + Num.ofNat 1) r))
  if v > hi then hi else v

variable {S U : Type}

/-- `PathControl::asGeometric()`: the states of the interpolated copy -/
def Path.asGeometric (step : S → U → S) (p : Path S U) : List S := (p.interpolate step).states

end OmplModel.Control
