import OmplModel.Model.Dubins
/-
Model of `ompl::base::VanaStateSpace` (src/ompl/base/spaces/src/VanaStateSpace.cpp): 3D Dubins paths by decoupling
into a horizontal Dubins problem (radius `rh`) and a vertical one in the (arc length, altitude) plane (radius `rv`,
`1/rho² = 1/rh² + 1/rv²`): `decoupled`, `getPath` (doubling search for a first feasible radius, then the
±step local optimisation until `|step| ≤ tolerance`), `PathType::length`, `interpolate`.

Core Lean only, generic over `[DNum α]`, same operation order as the C++.  Everything is deterministic (no external
root finder): the model recomputes the whole search.  Loops carry fuel (`MAX_ITER = 32` as coded for the doubling loop;
`optFuel` for the optimisation loop, which the C++ bounds only by `|step| > tolerance_`).
`lastArc` selects the validity test of `decoupled`: `false` = the code before the fix of finding F129 (first arc only),
`true` = with the symmetric test on the last arc; the check passes the flag according to the source under test.
A default-constructed Dubins path (no word found) makes `decoupled` fail in the model (the C++ would go on with `DBL_MAX`).
-/
namespace OmplModel.Vana
open OmplModel OmplModel.Dubins

structure St5 (α : Type) where
  x : α
  y : α
  z : α
  pitch : α
  yaw : α

structure VPath (α : Type) where
  rh : α            -- horizontalRadius_
  rv : α            -- verticalRadius_
  xy : Path α       -- pathXY_
  sz : Path α       -- pathSZ_
  startSZ : Pose α  -- startSZ_

section
variable {α : Type} [DNum α]

/-- `std::isfinite(x)`: `x - x` is `0` exactly for finite `x` and NaN otherwise -/
def isFinite (x : α) : Bool := decide (x - x ≤ 0) && decide (0 ≤ x - x)

def dub (rho : α) (a b : Pose α) : Option (Path α) :=
  match dubinsStates rho a b with
  | .path P => some P
  | _ => none

/-- `decoupled(state1, state2, radius, result, endSZ)`; `none` = `false` -/
def decoupled (lastArc : Bool) (rho minPitch maxPitch : α) (s1 s2 : St5 α) (radius : α) : Option (VPath α) :=
  let rv := 1 / Num.sqrt (1 / (rho * rho) - 1 / (radius * radius))
  if ¬ isFinite rv then none
  else
    match dub radius ⟨s1.x, s1.y, s1.yaw⟩ ⟨s2.x, s2.y, s2.yaw⟩ with
    | none => none
    | some xy =>
      let startSZ : Pose α := ⟨0, s1.z, s1.pitch⟩
      let endSZ : Pose α := ⟨radius * xy.len, s2.z, s2.pitch⟩
      match dub rv startSZ endSZ with
      | none => none
      | some sz =>
        let segs := sz.w.segs
        let bad :=
          match segs with
          | [a, b, c] =>
            (b != Seg.S) || (a == Seg.R && decide (s1.pitch - sz.t < minPitch)) ||
              (a == Seg.L && decide (maxPitch < s1.pitch + sz.t)) ||
              -- fix for finding F129 (`lastArc`): the last arc is tested symmetrically, walking it back from the goal pitch
              (lastArc && ((c == Seg.R && decide (maxPitch < s2.pitch + sz.q)) ||
                (c == Seg.L && decide (s2.pitch - sz.q < minPitch))))
          | _ => true
        if bad then none else some ⟨radius, rv, xy, sz, startSZ⟩

/-- `PathType::length()` -/
def VPath.len (p : VPath α) : α := p.rv * p.sz.len

/-- `while (!decoupled(.., rho*mult, ..) && iter++ < MAX_ITER) mult *= 2;` then `if (iter >= MAX_ITER) fail`.
Returns the multiplier and the path. `iter` counts failed attempts. -/
def firstFeasible (lastArc : Bool) (rho minPitch maxPitch : α) (s1 s2 : St5 α) : Nat → Nat → α → Option (α × VPath α)
  | 0, _, _ => none
  | fuel + 1, iter, mult =>
    match decoupled lastArc rho minPitch maxPitch s1 s2 (rho * mult) with
    | some p => if iter ≥ 32 then none else some (mult, p)
    | none =>
      -- `iter++ < MAX_ITER`: compare the old value, then increment
      if iter < 32 then firstFeasible lastArc rho minPitch maxPitch s1 s2 fuel (iter + 1) (mult * 2)
      else none   -- loop exits with iter = 33 ≥ MAX_ITER

/-- the local optimisation loop -/
def optimise (lastArc : Bool) (rho minPitch maxPitch tol : α) (s1 s2 : St5 α) : Nat → α → α → VPath α → VPath α
  | 0, _, _, p => p
  | fuel + 1, step, mult, p =>
    if tol < Num.abs step then
      let mult2 := Num.max 1 (mult + step)
      match decoupled lastArc rho minPitch maxPitch s1 s2 (rho * mult2) with
      | some p2 =>
        if p2.len < p.len then optimise lastArc rho minPitch maxPitch tol s1 s2 fuel (step * 2) mult2 p2
        else optimise lastArc rho minPitch maxPitch tol s1 s2 fuel (step * (-(Num.ofDec 1 1))) mult p
      | none => optimise lastArc rho minPitch maxPitch tol s1 s2 fuel (step * (-(Num.ofDec 1 1))) mult p
    else p

def optFuel : Nat := 100000

/-- `getPath(state1, state2)` -/
def getPath (lastArc : Bool) (rho minPitch maxPitch tol : α) (s1 s2 : St5 α) : Option (VPath α) :=
  match firstFeasible lastArc rho minPitch maxPitch s1 s2 40 0 2 with
  | none => none
  | some (mult, p) => some (optimise lastArc rho minPitch maxPitch tol s1 s2 optFuel (Num.ofDec 1 1) mult p)

/-- `interpolate(from, path, t, state)` -/
def interpPathV (frm : St5 α) (p : VPath α) (t : α) : St5 α :=
  let i := interpPath p.rv p.startSZ p.sz t
  let h := interpPath p.rh ⟨frm.x, frm.y, frm.yaw⟩ p.xy t
  ⟨h.x, h.y, i.y, i.th, h.th⟩

/-- `interpolate(from, to, t, state)` -/
def interpolateV (lastArc : Bool) (rho minPitch maxPitch tol : α) (frm tgt : St5 α) (t : α) : St5 α :=
  match getPath lastArc rho minPitch maxPitch tol frm tgt with
  | none => frm
  | some p => if 1 ≤ t then tgt else if t ≤ 0 then frm else interpPathV frm p t

end
end OmplModel.Vana
