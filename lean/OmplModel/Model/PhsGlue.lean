import OmplModel.Model.Phs
/-
Glue around the modelled core of `PathLengthDirectInfSampler` (C15, round 10):

* the CONSTRUCTOR's checks, in the order they are coded (`InformedSampler` base first: optimization objective, at least one
  start; then: goal castable to a sampleable region, at least one start and goal, the state-space classification that
  yields `informedIdx_` / `uninformedIdx_`, or one of seven exceptions);
* the order of the PHS list (`listPhsPtrs_`: start-major over all start/goal pairs);
* `getInformedSubstate` and `createFullState`: how the vector the sampler TESTED (`informedVector`: in a PHS, kept by 1/k)
  is written into the state it RETURNS, and how the state's informed part is read back by `heuristicSolnCost`;
* which factor `getInformedMeasure` multiplies the PHS measures with.

A state is either flat (non-compound space: the reals of the whole state) or a list of components (compound space:
`CompoundState::components[i]`, each as its reals — an SO(2)/SO(3) component is opaque, it is only ever copied).

Before /repo fix 1d61cd7e5 (finding F450) the case "compound state space with exactly one subspace, which is R^n" sets
`informedIdx_ = uninformedIdx_ = 0` and still treats the space as having an uninformed part: `createFullState` writes the
informed vector into component 0 and then OVERWRITES it with a uniform sample of the same subspace; `getInformedMeasure`
multiplied by that subspace's measure.  `…G fix` selects the glue of the tree under test (`fix = true`: the current code,
no uninformed part when both indices coincide; `fix = false`: the code before 1d61cd7e5, kept as `…Old` for the witness).
`classifyG strict`: `strict = true` is the repair proposed for F451 (an SE-typed compound must have one R^n AND one SO(n)
subspace); the unchanged code is `strict = false`.
-/
namespace OmplModel.Phs

/-- `space_->getType()` as far as the constructor distinguishes it -/
inductive SpType where
  | realVector | unknown | se2 | se3 | dubins | reedsShepp | other
  deriving DecidableEq, Repr

/-- `getSubspace(idx)->getType()` as far as the constructor distinguishes it -/
inductive SubType where
  | rv | so2 | so3 | other
  deriving DecidableEq, Repr

/-- what the constructor looks at in the state space -/
structure SpaceDesc where
  compound : Bool          -- `space_->isCompound()` (a WrapperStateSpace forwards it)
  castOk : Bool            -- `dynamic_cast<const CompoundStateSpace *>` succeeds (false for a wrapper)
  ty : SpType
  subs : List SubType      -- subspace types in order (compound only)
  deriving DecidableEq, Repr

/-- what the constructors look at in the problem definition -/
structure CtorIn where
  hasObjective : Bool
  numStarts : Nat          -- `getStartStateCount()`
  goalSampleable : Bool    -- `getGoal()->hasType(GOAL_SAMPLEABLE_REGION)`
  numGoals : Nat           -- `maxSampleCount()`
  space : SpaceDesc

/-- the exceptions, in the order of the `throw` statements -/
inductive CtorErr where
  | noObjective            -- InformedSampler: "An optimization objective must be specified at construction."
  | noStart                -- InformedSampler: "At least one start state must be specified at construction."
  | goalNotSampleable      -- "currently only supports goals that can be cast to a sampleable goal region"
  | noStartOrGoal          -- "There must be at least 1 start and and 1 goal state"
  | unsupportedSpace       -- non-compound, neither RealVector nor Unknown
  | wrapper                -- compound but not a CompoundStateSpace object (fix df80b7671)
  | notTwoSubspaces        -- SE2/SE3/Dubins/ReedsShepp type without exactly 2 subspaces
  | badSubspace (idx : Nat) -- "contains a subspace (idx) that is not R^N, SO(2), or SO(3)"
  | unsupportedCompound    -- any other compound space that is not exactly one R^n subspace
  | notOneOfEach           -- (repair of F451 only) SE-typed compound without one R^n and one SO(n) subspace
  deriving DecidableEq, Repr

def CtorErr.code : CtorErr → Nat
  | .noObjective => 1 | .noStart => 2 | .goalNotSampleable => 3 | .noStartOrGoal => 4 | .unsupportedSpace => 5
  | .wrapper => 6 | .notTwoSubspaces => 7 | .badSubspace _ => 8 | .unsupportedCompound => 9 | .notOneOfEach => 10

/-- the result of the classification: `isCompound()`, `informedIdx_`, `uninformedIdx_` -/
structure Layout where
  compound : Bool
  inf : Nat
  un : Nat
  deriving DecidableEq, Repr

def SpType.isSE : SpType → Bool
  | .se2 | .se3 | .dubins | .reedsShepp => true
  | _ => false

/-- `for (idx = 0; idx < getSubspaceCount(); ++idx)`: a real-vector subspace sets `informedIdx_`, an SO(2)/SO(3) one sets
`uninformedIdx_` (a later one of the same kind overwrites), anything else throws -/
def scanSubs : List SubType → Nat → Nat → Nat → Except CtorErr (Nat × Nat)
  | [], _, inf, un => .ok (inf, un)
  | t :: ts, idx, inf, un =>
    match t with
    | .rv => scanSubs ts (idx + 1) idx un
    | .so2 => scanSubs ts (idx + 1) inf idx
    | .so3 => scanSubs ts (idx + 1) inf idx
    | .other => .error (.badSubspace idx)

/-- does the subspace list hold a real-vector AND a rotation subspace? -/
def oneOfEach (subs : List SubType) : Bool :=
  subs.any (fun t => t == .rv) && subs.any (fun t => t == .so2 || t == .so3)

/-- the state-space part of the constructor (both indices start at 0).  `strict`: the repair proposed for F451 — after the
scan an SE-typed compound must have produced both an informed (R^n) and an uninformed (SO(n)) subspace. -/
def classifyG (strict : Bool) (d : SpaceDesc) : Except CtorErr Layout :=
  if !d.compound then
    if d.ty = .realVector then .ok ⟨false, 0, 0⟩
    else if d.ty = .unknown then .ok ⟨false, 0, 0⟩
    else .error .unsupportedSpace
  else if !d.castOk then .error .wrapper
  else if d.ty.isSE then
    if d.subs.length ≠ 2 then .error .notTwoSubspaces
    else
      match scanSubs d.subs 0 0 0 with
      | .ok (i, u) => if strict && !oneOfEach d.subs then .error .notOneOfEach else .ok ⟨true, i, u⟩
      | .error e => .error e
  else if d.subs.length = 1 ∧ d.subs.head? = some .rv then .ok ⟨true, 0, 0⟩
  else .error .unsupportedCompound

/-- the unchanged code -/
def classify (d : SpaceDesc) : Except CtorErr Layout := classifyG false d

/-- `InformedSampler::InformedSampler` followed by `PathLengthDirectInfSampler::PathLengthDirectInfSampler` up to the
classification -/
def ctorCheckG (strict : Bool) (i : CtorIn) : Except CtorErr Layout :=
  if !i.hasObjective then .error .noObjective
  else if i.numStarts = 0 then .error .noStart
  else if !i.goalSampleable then .error .goalNotSampleable
  else if i.numStarts < 1 ∨ i.numGoals < 1 then .error .noStartOrGoal
  else classifyG strict i.space

def ctorCheck (i : CtorIn) : Except CtorErr Layout := ctorCheckG false i

/-- `listPhsPtrs_` order: `for each start i { for each goal j { push_back(PHS(start_i, goal_j)) } }` -/
def phsPairs {β : Type} (starts goals : List β) : List (β × β) :=
  starts.flatMap (fun s => goals.map (fun g => (s, g)))

variable {α : Type}

/-- a state of the sampler's space: flat reals, or the components of a `CompoundState` (each as its reals) -/
inductive FullState (α : Type) where
  | flat (v : List α)
  | comp (cs : List (List α))

/-- `StateSpace::copyToReals` order -/
def FullState.flatten : FullState α → List α
  | .flat v => v
  | .comp cs => cs.flatten

/-- does the glue of the tree under test treat the space as having an uninformed part?  As coded: every compound space;
current code (fix of F450): only when the uninformed index differs from the informed one. -/
def Layout.hasUninformedG (fix : Bool) (L : Layout) : Bool :=
  if fix then L.compound && !(L.inf == L.un) else L.compound

/-- `getInformedSubstate(statePtr)`: the whole state, or `components[informedIdx_]` -/
def Layout.informedSubstate (L : Layout) : FullState α → List α
  | .flat v => if L.compound then [] else v
  | .comp cs => if L.compound then cs.getD L.inf [] else []

/-- `createFullState(statePtr, informedVector)`; `r` is what `uninformedSubSampler_->sampleUniform` draws.
Non-compound: `copyFromReals(statePtr, informedVector)`.  Compound: `components[informedIdx_] := informedVector`, THEN
`components[uninformedIdx_] := r` (when the glue has an uninformed part). -/
def Layout.createFullStateG (fix : Bool) (L : Layout) (st : FullState α) (v r : List α) : FullState α :=
  if !L.compound then .flat v
  else
    match st with
    | .comp cs =>
      let cs1 := cs.set L.inf v
      .comp (if L.hasUninformedG fix then cs1.set L.un r else cs1)
    | .flat _ => st

/-- the current code (fix 1d61cd7e5, F450) -/
def Layout.createFullState (L : Layout) (st : FullState α) (v r : List α) : FullState α :=
  L.createFullStateG true st v r

/-- the code BEFORE 1d61cd7e5 (F450): every compound space has an "uninformed" part.  Kept for the witness. -/
def Layout.createFullStateOld (L : Layout) (st : FullState α) (v r : List α) : FullState α :=
  L.createFullStateG false st v r

/-- the factor of `getInformedMeasure`: `uninformedSubSpace_->getMeasure()` when the glue has an uninformed part;
`subMeasure i` is the measure of subspace `i` -/
def Layout.unMeasureG (fix : Bool) (L : Layout) (subMeasure : Nat → α) : Option α :=
  if L.hasUninformedG fix then some (subMeasure L.un) else none

/-- which informed sampler `InformedStateSampler(probDefn, maxNumberCalls, costFunc)` wraps: the OBJECTIVE's
`allocInformedStateSampler` — `PathLengthOptimizationObjective` overrides it with the direct sampler, the base-class default is
the rejection sampler; `maxNumberCalls` is forwarded as `numIters_` -/
inductive ObjKind where
  | pathLength | other
  deriving DecidableEq, Repr

inductive InfKind where
  | direct | rejection
  deriving DecidableEq, Repr

def allocInformed (o : ObjKind) (maxCalls : Nat) : InfKind × Nat :=
  match o with
  | .pathLength => (.direct, maxCalls)
  | .other => (.rejection, maxCalls)

/-- the public three-argument `sampleUniform` with the glue made explicit: the lower-bound test calls `heuristicSolnCost(statePtr)`,
which reads `getInformedSubstate` of the state `createFullState` wrote — `view st` is that informed substate of the returned
state (`fun st => st.1` when the glue is sound: then this is `Sampler.sample3G`, theorem `sample3GV_id`) -/
def Sampler.sample3GV [Num α] {ρ : Type} (view : List α × ρ → List α) (restore degfix : Bool) (s : Sampler α)
    (inB : List α × ρ → Bool) (fin : Bool) (minC c : α) (ds : List (Draw α ρ)) (cur : List α × ρ) : Sampler α × Out α ρ :=
  let s' := if fin then s.updateG restore c else s
  (s', outer3 s.numIters (fun ds cur i => (s.sampleInnerG restore degfix inB fin c ds cur i).2)
        (fun st => s'.hcostG restore (view st)) minC ds cur 0)

end OmplModel.Phs
