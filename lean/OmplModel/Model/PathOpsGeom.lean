import OmplModel.Model.PathOpsWhole
/-
`PathGeometric::getClosestIndex`, `keepAfter`, `keepBefore`, `reverse`, `append(state)`, `prepend`
(src/ompl/geometric/src/PathGeometric.cpp) and the size guard proposed for `perturbPath` (F172).  Core Lean only.
`dist` and `<` are parameters (no laws).  `none` of `closestIndex` is the C++ `-1` (empty path).
-/
namespace OmplModel.PathOps

variable {σ α : Type}

/-- the scan `for (i = 1; i < size; ++i) if (d < min_d) { min_d = d; index = i; }`; `i` = index of the head of the rest -/
def closestGo (lt : α → α → Bool) (dist : σ → σ → α) (q : σ) : List σ → (i best : Nat) → (minD : α) → Nat
  | [], _, best, _ => best
  | s :: r, i, best, minD =>
    if lt (dist s q) minD then closestGo lt dist q r (i + 1) i (dist s q) else closestGo lt dist q r (i + 1) best minD

/-- `getClosestIndex(state)`; `none` = -1 -/
def closestIndex (lt : α → α → Bool) (dist : σ → σ → α) (q : σ) : List σ → Option Nat
  | [] => none
  | s :: r => some (closestGo lt dist q r 1 0 (dist s q))

/-- `keepAfter(state)`: `b = distance(state, states[index-1])`, `a = distance(state, states[index+1])`, `if (b > a) ++index` -/
def keepAfter (lt : α → α → Bool) (dist : σ → σ → α) (q : σ) (l : List σ) : List σ :=
  match closestIndex lt dist q l with
  | none => l
  | some i =>
    if 0 < i then
      let i' := match l[i - 1]?, l[i + 1]? with
        | some p, some n => if lt (dist q n) (dist q p) then i + 1 else i
        | _, _ => i
      l.drop i'
    else l

/-- `keepBefore(state)`: `if (index > 0 && index + 1 < size) { if (b < a) --index; }`, then `resize(index + 1)` -/
def keepBefore (lt : α → α → Bool) (dist : σ → σ → α) (q : σ) (l : List σ) : List σ :=
  match closestIndex lt dist q l with
  | none => l
  | some i =>
    let i' := if 0 < i then
        match l[i - 1]?, l[i + 1]? with
        | some p, some n => if lt (dist q p) (dist q n) then i - 1 else i
        | _, _ => i
      else i
    l.take (i' + 1)

/-- `perturbPath` with the size guard proposed in notes/C17-fix-F172.diff -/
def perturbPathGuarded {γ : Type} (E : PpEnv σ α γ) (maxSteps maxEmpty : Nat) (path : List σ) : Option (List σ × Bool) :=
  if path.length < 2 then some (path, false) else perturbPath E maxSteps maxEmpty path

end OmplModel.PathOps
