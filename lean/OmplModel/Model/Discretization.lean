import OmplModel.Model.Grid
import OmplModel.Model.Num
/-
Model of `ompl::geometric::Discretization<Motion>` (src/ompl/geometric/planners/kpiece/Discretization.h), the
user of `GridB` inside KPIECE1 / BKPIECE1 / LBKPIECE1 (and, in a copy, control KPIECE1).

Core Lean only.  Built on the grid model `OmplModel.Grid` (C13): every access to `grid_` is a `Grid.step` of
the C13 protocol alphabet (`new` only for an absent coordinate, `rm` only for a present cell, `upd`, `updAll`,
`clear`) -- `discretization_obeys_grid_protocol` in Props/C13.lean.

What mirrors the code
* `CellData` {motions, coverage, selections, score, iteration}; the `importance` field lives in the grid cell
  (see below).  `Motion*` = a motion id (`Nat`); the harness numbers the motions it creates.
* `importance` = `computeImportance` exactly as coded, over `Num`:
  `score / ((neighbors + 1) * coverage * selections)`, unsigned `neighbors + 1` converted to double, then two
  double multiplications left to right.
* `add` = `addMotion(motion, coord, dist)` (present cell: `push_back`, `coverage += 1.0`, `grid_.update`; absent:
  `createCell`, fresh `CellData` {coverage 1, selections 1, iteration = iteration_,
  score = (1 + log(iteration_)) / (1 + dist)}, `grid_.add`; `++size_`);
  `select` = `selectMotion` (`uniform01() < max(selectBorderFraction_, fracExternal()) ? topExternal() :
  topInternal()`; the `score < epsilon` repair: every cell's `score += 1 + log(cell iteration)` and
  `grid_.updateAll()`; `++selections` (no `update`: the importance of the selected cell is stale until the planner
  calls `updateCell`); `motions[halfNormalInt(0, size-1)]`); `updScore` = the planner writes `cell->data->score` and
  calls `updateCell`; `remove` = `removeMotion` (first occurrence erased, `--size_`; an emptied cell is removed
  from the grid and destroyed); `countIteration`; `setBorderFraction` (range check as coded); `clear`;
  `plannerData` = what `getPlannerData` reports, as counts.
* the random draws are *scripted*: `select` takes the `uniform01()` value `u` and a function `pick` giving the
  `halfNormalInt(0, n-1)` value for a cell of `n` motions (the driver computes both from the RNG model of C20
  after `setLocalSeed(seed)`; the theorems quantify over all draws).

Abstractions (checked by the correspondence run)
* `cell->data` is a table `coordinate ↦ CellData` next to the grid (the grid cell's `data` pointer); the compared
  field `CellData::importance` is the grid cell's `data : Int`, as `enc importance` (for `Float`: the IEEE bit
  pattern), and the ordering functor decodes it: `a->importance > b->importance` is `dec a > dec b`.  The event
  `computeImportance` is the only writer of `importance` in the code, so the C13 heap-key-copy abstraction is exact.
* `freeMotion_`/memory: not modelled (ASan/LSan observe it in the harness).  `recentCell_` is written but never
  read in the code; not modelled.
* `selectMotion` on an empty discretization dereferences `nullptr` in the code; the model returns `none`.
-/
namespace OmplModel.Disc
open OmplModel OmplModel.Grid

class HasLog (α : Type) where
  log : α → α

instance : HasLog Float := ⟨Float.log⟩

structure CellData (α : Type) where
  motions : List Nat
  coverage : α
  selections : Nat
  score : α
  iteration : Nat

/-- fixed parameters of one `Discretization` object -/
structure Params (α : Type) where
  dim : Nat
  /-- representation of the `importance` field inside the grid cell (`Float`: IEEE bits) -/
  enc : α → Int
  dec : Int → α
  /-- `std::numeric_limits<double>::epsilon()` -/
  eps : α

structure Disc (α : Type) where
  grid : GridB := {}
  /-- `cell->data` for the cell at each coordinate -/
  cdata : List (Coord × CellData α) := []
  /-- `size_` -/
  size : Nat := 0
  /-- `iteration_` -/
  iteration : Nat := 1
  /-- `selectBorderFraction_` -/
  bf : α

variable {α : Type}

def lookup (tbl : List (Coord × CellData α)) (x : Coord) : Option (CellData α) :=
  (tbl.find? (fun e => e.1 == x)).map (·.2)

def setData (tbl : List (Coord × CellData α)) (x : Coord) (cd : CellData α) : List (Coord × CellData α) :=
  tbl.map (fun e => if e.1 == x then (x, cd) else e)

def eraseData (tbl : List (Coord × CellData α)) (x : Coord) : List (Coord × CellData α) :=
  tbl.filter (fun e => !(e.1 == x))

/-- `computeImportance` -/
def importance [Num α] (cd : CellData α) (nbrs : Nat) : α :=
  cd.score / ((Num.ofNat (nbrs + 1) * cd.coverage) * Num.ofNat cd.selections)

/-- the `GridB<CellData*, OrderCellsByImportance>` configuration while the cell data are `tbl`:
no bounds, default interior limit `2 * dim`, both functors `a->importance > b->importance`, update event
`computeImportance`. -/
def gcfg [Num α] (P : Params α) (tbl : List (Coord × CellData α)) : Grid.Cfg :=
  { dim := P.dim, bounds := none, limit := 2 * P.dim,
    ltE := fun a b => decide (P.dec b < P.dec a),
    ltI := fun a b => decide (P.dec b < P.dec a),
    ev := fun c => match lookup tbl c.coord with
      | some cd => P.enc (importance cd c.nbrs)
      | none => c.data }

/-- `addMotion(motion, coord, dist)`; returns the number of cells created as well.  `w` is what a motion adds to the
cell's coverage and `off` the offset in the initial score: `1.0` and `1.0` in `Discretization<Motion>`; `motion->steps`
and `DISTANCE_TO_GOAL_OFFSET = 1e-3` in the copy of this code inside `control::KPIECE1` (`KPIECE1::addMotion`). -/
def add [Num α] [HasLog α] (P : Params α) (d : Disc α) (m : Nat) (x : Coord) (dist : α)
    (w : α := Num.ofNat 1) (off : α := Num.ofNat 1) : Disc α × Nat :=
  match lookup d.cdata x with
  | some cd =>
    if has d.grid.cells x then
      let tbl := setData d.cdata x { cd with motions := cd.motions ++ [m], coverage := cd.coverage + w }
      ({ d with cdata := tbl, grid := Grid.step (gcfg P tbl) d.grid (.upd x 0), size := d.size + 1 }, 0)
    else (d, 0)   -- table and grid out of sync: unreachable (`DInv`)
  | none =>
    if has d.grid.cells x then (d, 0)   -- unreachable (`DInv`)
    else
      let cd : CellData α :=
        { motions := [m], coverage := w, selections := 1,
          score := (Num.ofNat 1 + HasLog.log (Num.ofNat d.iteration)) / (off + dist),
          iteration := d.iteration }
      let tbl := d.cdata ++ [(x, cd)]
      ({ d with cdata := tbl, grid := Grid.step (gcfg P tbl) d.grid (.new x 0), size := d.size + 1 }, 1)

/-- `grid_.fracExternal()` -/
def fracExternal [Num α] (g : GridB) : α :=
  if countExternal g = 0 then Num.ofNat 0
  else Num.ofNat (countExternal g) / Num.ofNat (countExternal g + countInternal g)

/-- does `selectMotion` ask for `topExternal()` (else `topInternal()`)? -/
def wantsExternal [Num α] (d : Disc α) (u : α) : Bool :=
  decide (u < Num.max d.bf (fracExternal d.grid))

/-- the finite-precision repair inside `selectMotion` -/
def bumpScores [Num α] [HasLog α] (tbl : List (Coord × CellData α)) : List (Coord × CellData α) :=
  tbl.map (fun e => (e.1, { e.2 with score := e.2.score + (Num.ofNat 1 + HasLog.log (Num.ofNat e.2.iteration)) }))

/-- `selectMotion(smotion, scell)` with scripted draws: `u` = `rng_.uniform01()`, `pick n` =
`rng_.halfNormalInt(0, n - 1)`.  Returns the selected motion and the coordinate of the selected cell. -/
def select [Num α] [HasLog α] (P : Params α) (d : Disc α) (u : α) (pick : Nat → Nat) :
    Disc α × Option (Nat × Coord) :=
  let top := if wantsExternal d u then topExternal d.grid else topInternal d.grid
  match top with
  | none => (d, none)
  | some i =>
    match d.grid.cells.find? (fun c => c.id == i) with
    | none => (d, none)     -- unreachable (`DInv`): a top is a present cell
    | some c =>
      match lookup d.cdata c.coord with
      | none => (d, none)   -- unreachable (`DInv`)
      | some cd0 =>
        let d1 : Disc α :=
          if cd0.score < P.eps then
            let tbl := bumpScores d.cdata
            { d with cdata := tbl, grid := Grid.step (gcfg P tbl) d.grid (.updAll []) }
          else d
        match lookup d1.cdata c.coord with
        | none => (d1, none)
        | some cd =>
          let d2 := { d1 with cdata := setData d1.cdata c.coord { cd with selections := cd.selections + 1 } }
          match cd.motions[pick cd.motions.length]? with
          | some m => (d2, some (m, c.coord))
          | none => (d2, none)   -- index out of range: excluded by the contract of halfNormalInt

/-- the planner writes `cell->data->score = s` and calls `updateCell(cell)` -/
def updScore [Num α] (P : Params α) (d : Disc α) (x : Coord) (s : α) : Disc α :=
  match lookup d.cdata x with
  | some cd =>
    let tbl := setData d.cdata x { cd with score := s }
    { d with cdata := tbl, grid := Grid.step (gcfg P tbl) d.grid (.upd x 0) }
  | none => d

/-- `removeMotion(motion, coord)`; returns `found` as well -/
def remove [Num α] (P : Params α) (d : Disc α) (m : Nat) (x : Coord) : Disc α × Bool :=
  match lookup d.cdata x with
  | none => (d, false)
  | some cd =>
    let found := cd.motions.contains m
    let ms := cd.motions.erase m
    let size := if found then d.size - 1 else d.size
    if ms.isEmpty then
      ({ d with cdata := eraseData d.cdata x, grid := Grid.step (gcfg P d.cdata) d.grid (.rm x), size := size }, found)
    else
      ({ d with cdata := setData d.cdata x { cd with motions := ms }, size := size }, found)

/-- `setBorderFraction(bp)`: throws unless `epsilon <= bp <= 1` -/
def setBorderFraction [Num α] (P : Params α) (d : Disc α) (bp : α) : Disc α × Bool :=
  if bp < P.eps ∨ Num.ofNat 1 < bp then (d, false) else ({ d with bf := bp }, true)

/-- `clear()` -/
def clear [Num α] (P : Params α) (d : Disc α) : Disc α :=
  { d with grid := Grid.step (gcfg P d.cdata) d.grid .clear, cdata := [], size := 0, iteration := 1 }

/-- `countIteration()` -/
def countIteration (d : Disc α) : Disc α := { d with iteration := d.iteration + 1 }

/-- all motions stored, cell by cell -/
def allMotions (d : Disc α) : List Nat := d.cdata.flatMap (fun e => e.2.motions)

/-- `getPlannerData(data, tag, start, nullptr)` as counts: (vertices, edges, start-or-goal roots), given the
parent of each motion (the `Motion` objects belong to the planner). -/
def plannerData (d : Disc α) (parent : Nat → Option Nat) : Nat × Nat × Nat :=
  let ms := allMotions d
  let verts := (ms ++ ms.filterMap parent).eraseDups
  (verts.length, (ms.filter (fun m => (parent m).isSome)).length, (ms.filter (fun m => (parent m).isNone)).length)

/-! ### histories -/

inductive DOp (α : Type) where
  | add (m : Nat) (x : Coord) (dist : α)
  /-- `control::KPIECE1::addMotion`: coverage weight `motion->steps`, score offset `DISTANCE_TO_GOAL_OFFSET` -/
  | addW (m : Nat) (x : Coord) (dist : α) (w off : α)
  | select (u : α) (pick : Nat → Nat)
  | updScore (x : Coord) (s : α)
  | remove (m : Nat) (x : Coord)
  | countIteration
  | setBorderFraction (bp : α)
  | clear

def dstep [Num α] [HasLog α] (P : Params α) (d : Disc α) : DOp α → Disc α
  | .add m x dist => (add P d m x dist).1
  | .addW m x dist w off => (add P d m x dist w off).1
  | .select u pick => (select P d u pick).1
  | .updScore x s => updScore P d x s
  | .remove m x => (remove P d m x).1
  | .countIteration => countIteration d
  | .setBorderFraction bp => (setBorderFraction P d bp).1
  | .clear => clear P d

def drun [Num α] [HasLog α] (P : Params α) (bf : α) (ops : List (DOp α)) : Disc α :=
  ops.foldl (dstep P) { bf := bf }

end OmplModel.Disc
