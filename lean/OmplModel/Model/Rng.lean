/-
Model of OMPL's random-number machinery (src/ompl/util/RandomNumbers.h, src/ompl/util/src/RandomNumbers.cpp)
on this toolchain (g++ 12 / libstdc++ <bits/random.h|random.tcc|uniform_int_dist.h>, x86-64 glibc where
`std::uint_fast32_t` is a 64-bit `unsigned long`).

Core Lean only (no Mathlib): linked into the native driver `drv_rng`.

Modelled bit for bit
* the anonymous `RNGSeedGenerator` {firstSeed_, someSeedsGenerated_, sGen_ (std::ranlux24_base), sDist_ (1..10^9)}
  started from an ARBITRARY clock value `c`: constructor, `setSeed` (all four branches as coded), `nextSeed`,
  `firstSeed`;
* `std::ranlux24_base` = `subtract_with_carry_engine<uint_fast32_t,24,10,24>` incl. libstdc++'s `seed(value)`
  through `linear_congruential_engine<_,40014,0,2147483563>` (words over `Nat`, every value < 2^24);
* `std::uniform_int_distribution<int>(1,1000000000)` driven by a 24-bit URNG: libstdc++'s *upscaling* branch
  (`high*2^24 + low`, rejected when `> urange`) whose `high` comes from the recursive call with range `[0,59]`
  that takes the *downscaling fallback* branch (`scaling = 16777215/60`, rejection `>= past`);
* `std::mt19937` (`seed(value)`, in-place twist `_M_gen_rand`, tempering) over `UInt32`;
* `generate_canonical<double,53>` as libstdc++ does it for a 32-bit URNG: two draws, `(u1 + u2*2^32) / 2^64`
  in `double`, clamped to `nextafter(1,0)`;
* `uniform_real_distribution<>(0,1)`, `RNG::uniform01/uniformReal/uniformInt/uniformBool`,
  `normal_distribution<>(0,1)` (Marsaglia polar method with `_M_saved/_M_saved_available`),
  `RNG::gaussian01/gaussian/halfNormalReal/halfNormalInt/quaternion/eulerRPY`, `RNG::setLocalSeed`
  (reseeds `generator_`, clears `_M_saved_available`; `_M_saved` itself keeps its stale value, as in the code).

Abstractions (stated, and exercised by the correspondence run)
* the three rejection loops (`do … while`) are bounded by a fuel of `loopFuel` iterations; running out of fuel
  yields `none` / `Out.diverged` (never a made-up value).  With rejection probabilities 1e-6, 7e-3 and 0.22 per
  round this is unobservable in practice; the driver would print `diverged`.
* 64-bit wrap-around control of `uniform_int_distribution` (`__ret < __tmp`) cannot fire for these constants
  (`59*2^24 + 2^24 < 2^64`) and is kept only as the (always false) test over `Nat`.
* `boost::uniform_on_sphere` (`uniformNormalVector`, `uniformInBall`, PHS sampling) is not modelled; its reseed
  behaviour is compared on the implementation only (checks/c20.py).
* the mutex is not modelled: this is the single-threaded protocol (concurrent creation order is C19's business).
-/
namespace OmplModel.Rng

/-- iterations granted to each rejection loop -/
def loopFuel : Nat := 4096

/-! ## seeding LCG of `subtract_with_carry_engine::seed` -/

def lcgA : Nat := 40014
def lcgM : Nat := 2147483563

/-- `linear_congruential_engine::seed(s)` with `c = 0`: `s mod m`, and `1` if that is `0`. -/
def lcgInit (s : Nat) : Nat := if s % lcgM = 0 then 1 else s % lcgM

/-- `operator()`: `x ← a·x mod m`, returns the new `x`. -/
def lcgNext (x : Nat) : Nat := (lcgA * x) % lcgM

/-! ## `std::ranlux24_base` -/

structure Swc where
  x : Array Nat
  carry : Nat
  p : Nat
deriving Repr, DecidableEq

def swcDefaultSeed : Nat := 19780503
def swcWord : Nat := 16777216        -- 2^24
def swcMax : Nat := 16777215         -- max() - min()

/-- the `for (i < long_lag)` loop of `seed`: `n = (24+31)/32 = 1` LCG draw per word,
`_M_x[i] = (lcg() mod 2^32) mod 2^24`. -/
def swcFill : Nat → Nat → Array Nat → Array Nat
  | 0, _, acc => acc
  | n + 1, l, acc =>
    let l' := lcgNext l
    swcFill n l' (acc.push ((l' % 4294967296) % swcWord))

def Swc.seed (value : UInt64) : Swc :=
  let v := if value.toNat = 0 then swcDefaultSeed else value.toNat
  let xs := swcFill 24 (lcgInit v) #[]
  { x := xs, carry := if xs.getD 23 0 = 0 then 1 else 0, p := 0 }

def Swc.next (g : Swc) : Nat × Swc :=
  let ps := if g.p < 10 then g.p + 24 - 10 else g.p - 10
  let xps := g.x.getD ps 0
  let xp := g.x.getD g.p 0
  let r : Nat × Nat :=
    if xps ≥ xp + g.carry then (xps - xp - g.carry, 0)
    else (swcWord - xp - g.carry + xps, 1)
  let p' := if g.p + 1 ≥ 24 then 0 else g.p + 1
  (r.1, { x := g.x.setIfInBounds g.p r.1, carry := r.2, p := p' })

/-! ## `uniform_int_distribution<int>` over a URNG with range `[0, 2^24-1]`

`uidRaw fuel urange g` is `operator()(urng, param_type(0, urange))` (the caller adds `a`). -/
def uidRaw : Nat → Nat → Swc → Option (Nat × Swc)
  | 0, _, _ => none
  | fuel + 1, urange, g =>
    if swcMax > urange then
      -- downscaling; `__urngrange` is neither 2^64-1 nor 2^32-1: "fallback case (2 divisions)"
      let uerange := urange + 1
      let scaling := swcMax / uerange
      let past := uerange * scaling
      let d := g.next
      if d.1 ≥ past then uidRaw fuel urange d.2 else some (d.1 / scaling, d.2)
    else if swcMax < urange then
      -- upscaling
      match uidRaw fuel (urange / (swcMax + 1)) g with
      | none => none
      | some (hi, g1) =>
        let tmp := (swcMax + 1) * hi
        let d := g1.next
        let ret := tmp + d.1
        if ret > urange ∨ ret < tmp then uidRaw fuel urange d.2 else some (ret, d.2)
    else
      let d := g.next
      some (d.1, d.2)

def seedLo : Nat := 1
def seedHi : Nat := 1000000000

/-- `sDist_(sGen_)` with `sDist_(1, 1000000000)` -/
def drawSeed (g : Swc) : Option (Nat × Swc) :=
  match uidRaw loopFuel (seedHi - seedLo) g with
  | none => none
  | some (r, g') => some (r + seedLo, g')

/-! ## the seed generator -/

structure SeedGen where
  firstSeed : UInt64
  someSeedsGenerated : Bool
  sGen : Swc
deriving Repr, DecidableEq

inductive SeedMsg where
  | silent            -- nothing logged
  | errorStarted      -- OMPL_ERROR "Random number generation already started. …"
  | warnZeroIgnored   -- OMPL_WARN "Random generator seed cannot be 0. Ignoring seed."
  | warnZeroUsingOne  -- OMPL_WARN "Random generator seed cannot be 0. Using 1 instead."
deriving Repr, DecidableEq

/-- the constructor, with the microsecond clock reading `c` as an arbitrary 64-bit value -/
def SeedGen.init (c : UInt64) : SeedGen :=
  { firstSeed := c, someSeedsGenerated := false, sGen := Swc.seed c }

/-- `RNGSeedGenerator::setSeed`, branch for branch.  Note (as coded): the error branch still reseeds `sGen_`;
the `seed == 0` branch before any seed was generated seeds `sGen_` with 1 but leaves `firstSeed_` alone. -/
def SeedGen.setSeed (g : SeedGen) (seed : UInt64) : SeedGen × SeedMsg :=
  if seed > 0 then
    if g.someSeedsGenerated then
      ({ g with sGen := Swc.seed seed }, .errorStarted)
    else
      ({ g with firstSeed := seed, sGen := Swc.seed seed }, .silent)
  else
    if g.someSeedsGenerated then (g, .warnZeroIgnored)
    else ({ g with sGen := Swc.seed 1 }, .warnZeroUsingOne)

/-- `RNGSeedGenerator::nextSeed`; `none` only if a rejection loop ran out of fuel. -/
def SeedGen.nextSeed (g : SeedGen) : Option UInt64 × SeedGen :=
  match drawSeed g.sGen with
  | none => (none, { g with someSeedsGenerated := true })
  | some (v, sg) => (some (UInt64.ofNat v), { g with someSeedsGenerated := true, sGen := sg })

/-- the first `n` local seeds handed out from `g` (the seeds of the first `n` `RNG()` objects) -/
def SeedGen.seeds : Nat → SeedGen → List (Option UInt64)
  | 0, _ => []
  | n + 1, g => let r := g.nextSeed; r.1 :: SeedGen.seeds n r.2

/-- local seed of the `i`-th generator (0-based) created after `setSeed s` in a fresh process; the clock value
used here is irrelevant (`Props.C20.ithSeed_clock_free`). -/
def ithSeed (s : UInt64) (i : Nat) : Option UInt64 :=
  ((SeedGen.seeds (i + 1) ((SeedGen.init 0).setSeed s).1).getD i none)

/-! ## `std::mt19937` -/

structure MT where
  x : Array UInt32
  p : Nat
deriving Repr, DecidableEq

/-- `x[i] = (x[i-1] ^ (x[i-1] >> 30)) * 1812433253 + i  (mod 2^32)`, `i = 1..623` -/
def mtInitLoop : Nat → Nat → UInt32 → Array UInt32 → Array UInt32
  | 0, _, _, acc => acc
  | n + 1, i, prev, acc =>
    let v := (prev ^^^ (prev >>> 30)) * 1812433253 + UInt32.ofNat (i % 624)
    mtInitLoop n (i + 1) v (acc.push v)

def MT.seed (sd : UInt64) : MT :=
  let x0 := sd.toUInt32
  { x := mtInitLoop 623 1 x0 #[x0], p := 624 }

/-- `_M_gen_rand`: the three in-place loops are one loop with indices mod 624 -/
def mtTwistLoop : Nat → Nat → Array UInt32 → Array UInt32
  | 0, _, x => x
  | n + 1, k, x =>
    let y := (x.getD k 0 &&& 0x80000000) ||| (x.getD ((k + 1) % 624) 0 &&& 0x7fffffff)
    let v := x.getD ((k + 397) % 624) 0 ^^^ (y >>> 1) ^^^ (if y &&& 1 = 0 then 0 else 0x9908b0df)
    mtTwistLoop n (k + 1) (x.setIfInBounds k v)

def MT.next (g : MT) : UInt32 × MT :=
  let g := if g.p ≥ 624 then { x := mtTwistLoop 624 0 g.x, p := 0 } else g
  let z := g.x.getD g.p 0
  let z := z ^^^ ((z >>> 11) &&& 0xffffffff)
  let z := z ^^^ ((z <<< 7) &&& 0x9d2c5680)
  let z := z ^^^ ((z <<< 15) &&& 0xefc60000)
  let z := z ^^^ (z >>> 18)
  (z, { g with p := g.p + 1 })

/-! ## real-valued distributions -/

def two32 : Float := 4294967296.0

/-- `std::generate_canonical<double,53>(mt19937)`: `m = 2` draws. -/
def canonical (g : MT) : Float × MT :=
  let d1 := g.next
  let d2 := d1.2.next
  let sum := (0.0 : Float) + d1.1.toFloat * 1.0
  let tmp := (1.0 : Float) * two32
  let sum := sum + d2.1.toFloat * tmp
  let tmp := tmp * two32
  let ret := sum / tmp
  -- `nextafter(1.0, 0.0)`
  (if ret ≥ 1.0 then Float.ofBits 0x3FEFFFFFFFFFFFFF else ret, d2.2)

/-- `uniDist_(generator_)` with `uniform_real_distribution<>(0,1)`: `canonical * (b - a) + a` -/
def uni01 (g : MT) : Float × MT :=
  let d := canonical g
  (d.1 * (1.0 - 0.0) + 0.0, d.2)

/-- the rejection loop of the polar method; returns `(x, y, r2, g)` -/
def polar : Nat → MT → Option (Float × Float × Float × MT)
  | 0, _ => none
  | fuel + 1, g =>
    let a := canonical g
    let x := 2.0 * a.1 - 1.0
    let b := canonical a.2
    let y := 2.0 * b.1 - 1.0
    let r2 := x * x + y * y
    if r2 > 1.0 || r2 == 0.0 then polar fuel b.2 else some (x, y, r2, b.2)

structure Rng where
  localSeed : UInt64
  gen : MT
  /-- `normalDist_._M_saved_available` -/
  savedAvail : Bool
  /-- `normalDist_._M_saved` (stale when `savedAvail = false`) -/
  saved : Float

/-- `RNG::RNG(localSeed)` -/
def Rng.create (s : UInt64) : Rng :=
  { localSeed := s, gen := MT.seed s, savedAvail := false, saved := 0.0 }

/-- `RNG::setLocalSeed`: `generator_.seed`, `uniDist_.reset()` (no state), `normalDist_.reset()`
(`_M_saved_available = false`; `_M_saved` untouched). -/
def Rng.setLocalSeed (r : Rng) (s : UInt64) : Rng :=
  { r with localSeed := s, gen := MT.seed s, savedAvail := false }

/-- `normalDist_(generator_)` with `normal_distribution<>(0,1)` -/
def Rng.normal (r : Rng) : Option Float × Rng :=
  if r.savedAvail then
    (some (r.saved * 1.0 + 0.0), { r with savedAvail := false })
  else
    match polar loopFuel r.gen with
    | none => (none, r)
    | some (x, y, r2, g) =>
      let mult := Float.sqrt (-2.0 * Float.log r2 / r2)
      (some (y * mult * 1.0 + 0.0), { r with gen := g, savedAvail := true, saved := x * mult })

def Rng.uniform01 (r : Rng) : Float × Rng :=
  let d := uni01 r.gen
  (d.1, { r with gen := d.2 })

def Rng.uniformReal (r : Rng) (lo hi : Float) : Float × Rng :=
  let d := uni01 r.gen
  ((hi - lo) * d.1 + lo, { r with gen := d.2 })

/-- `RNG::uniformInt` as fixed by /repo ebb35683a: `r = floor(uniformReal((double)lo, (double)hi + 1.0))`,
`return r > (double)hi ? hi : (int)r` — the clamp happens in `double`, *before* the cast, so `hi = INT_MAX`
(where the sum can round up to 2^31, not an `int`) is covered.  For `r ≤ hi` the cast is exact. -/
def Rng.uniformInt (r : Rng) (lo hi : Int) : Int × Rng :=
  let d := r.uniformReal (Float.ofInt lo) (Float.ofInt hi + 1.0)
  let v := Float.floor d.1
  (if v > Float.ofInt hi then hi else v.toInt64.toInt, d.2)

/-- the pre-fix form (`(int)floor(…)`, clamp after the cast; the cast of 2^31 is `INT_MIN` on x86-64), kept for the
record: it differs from `uniformInt` only when the real value reaches `hi + 1 = 2^31`. -/
def Rng.uniformIntOld (r : Rng) (lo hi : Int) : Int × Rng :=
  let d := r.uniformReal (Float.ofInt lo) (Float.ofInt hi + 1.0)
  let v := (Float.floor d.1).toInt32.toInt
  (if v > hi then hi else v, d.2)

def Rng.uniformBool (r : Rng) : Bool × Rng :=
  let d := uni01 r.gen
  (d.1 ≤ 0.5, { r with gen := d.2 })

def Rng.gaussian (r : Rng) (mean stddev : Float) : Option Float × Rng :=
  let d := r.normal
  (d.1.map (fun v => v * stddev + mean), d.2)

def Rng.halfNormalReal (r : Rng) (rmin rmax focus : Float) : Option Float × Rng :=
  let mean := rmax - rmin
  let d := r.gaussian mean (mean / focus)
  (d.1.map (fun v =>
      let v := if v > mean then 2.0 * mean - v else v
      let q := if v ≥ 0.0 then v + rmin else rmin
      if q > rmax then rmax else q), d.2)

/-- `(int)x` of a `double` as x86-64 executes it (`cvttsd2si`): exact for values in the `int` range, and the
"integer indefinite" value `INT_MIN` for anything else (formally undefined behaviour in C++). -/
def castIntX86 (x : Float) : Int :=
  if x ≥ -2147483648.0 && x < 2147483648.0 then x.toInt64.toInt else -2147483648

/-- `RNG::halfNormalInt` as coded: `r = (int)floor(halfNormalReal((double)rmin, (double)rmax + 1.0, focus))`,
`return r > rmax ? rmax : r` — the cast comes *before* the clamp, so for `rmax = INT_MAX` a real value that reaches
`rmax + 1 = 2^31` is cast out of range (finding F204: the result is `INT_MIN`). -/
def Rng.halfNormalInt (r : Rng) (rmin rmax : Int) (focus : Float) : Option Int × Rng :=
  let d := r.halfNormalReal (Float.ofInt rmin) (Float.ofInt rmax + 1.0) focus
  (d.1.map (fun x => let v := castIntX86 (Float.floor x); if v > rmax then rmax else v), d.2)

/-- the repaired form (clamp in `double` before the cast, as `uniformInt` since ebb35683a) -/
def Rng.halfNormalIntFixed (r : Rng) (rmin rmax : Int) (focus : Float) : Option Int × Rng :=
  let d := r.halfNormalReal (Float.ofInt rmin) (Float.ofInt rmax + 1.0) focus
  (d.1.map (fun x => let v := Float.floor x; if v > Float.ofInt rmax then rmax else v.toInt64.toInt), d.2)

/-- `boost::math::constants::pi<double>()` -/
def piD : Float := Float.ofBits 0x400921FB54442D18

def Rng.quaternion (r : Rng) : List Float × Rng :=
  let a := uni01 r.gen
  let x0 := a.1
  let r1 := Float.sqrt (1.0 - x0)
  let r2 := Float.sqrt x0
  let b := uni01 a.2
  let t1 := 2.0 * piD * b.1
  let c := uni01 b.2
  let t2 := 2.0 * piD * c.1
  ([Float.sin t1 * r1, Float.cos t1 * r1, Float.sin t2 * r2, Float.cos t2 * r2], { r with gen := c.2 })

def Rng.eulerRPY (r : Rng) : List Float × Rng :=
  let a := uni01 r.gen
  let b := uni01 a.2
  let c := uni01 b.2
  ([piD * (-2.0 * a.1 + 1.0), Float.acos (1.0 - 2.0 * b.1) - piD / 2.0, piD * (-2.0 * c.1 + 1.0)],
   { r with gen := c.2 })

/-! ## operations on one `RNG` object, as data (the alphabet of "every history of draws") -/

inductive Op where
  | uniform01
  | uniformReal (lo hi : Float)
  | uniformInt (lo hi : Int)
  | uniformBool
  | gaussian01
  | gaussian (mean stddev : Float)
  | halfNormalReal (rmin rmax focus : Float)
  | halfNormalInt (rmin rmax : Int) (focus : Float)
  | quaternion
  | eulerRPY
  | getLocalSeed
  | setLocalSeed (s : UInt64)

inductive Out where
  | real (x : Float)
  | int (i : Int)
  | bool (b : Bool)
  | reals (xs : List Float)
  | seed (s : UInt64)
  | unit
  | diverged

def optReal : Option Float → Out
  | some x => .real x
  | none => .diverged

def optInt : Option Int → Out
  | some x => .int x
  | none => .diverged

def Rng.step (r : Rng) : Op → Out × Rng
  | .uniform01 => let d := r.uniform01; (.real d.1, d.2)
  | .uniformReal lo hi => let d := r.uniformReal lo hi; (.real d.1, d.2)
  | .uniformInt lo hi => let d := r.uniformInt lo hi; (.int d.1, d.2)
  | .uniformBool => let d := r.uniformBool; (.bool d.1, d.2)
  | .gaussian01 => let d := r.normal; (optReal d.1, d.2)
  | .gaussian m s => let d := r.gaussian m s; (optReal d.1, d.2)
  | .halfNormalReal a b f => let d := r.halfNormalReal a b f; (optReal d.1, d.2)
  | .halfNormalInt a b f => let d := r.halfNormalInt a b f; (optInt d.1, d.2)
  | .quaternion => let d := r.quaternion; (.reals d.1, d.2)
  | .eulerRPY => let d := r.eulerRPY; (.reals d.1, d.2)
  | .getLocalSeed => (.seed r.localSeed, r)
  | .setLocalSeed s => (.unit, r.setLocalSeed s)

/-- outputs of a sequence of operations -/
def Rng.run (r : Rng) : List Op → List Out
  | [] => []
  | op :: ops => let d := r.step op; d.1 :: Rng.run d.2 ops

/-- state after a sequence of operations -/
def Rng.after (r : Rng) : List Op → Rng
  | [] => r
  | op :: ops => Rng.after (r.step op).2 ops

/-! ## the process-wide picture: one seed generator, generators created in order -/

structure World where
  sg : SeedGen
  rngs : Array Rng

def World.start (clock : UInt64) : World := { sg := SeedGen.init clock, rngs := #[] }

/-- `RNG::RNG()`: `localSeed_(nextSeed())`, `generator_(localSeed_)` -/
def World.newRng (w : World) : Option UInt64 × World :=
  let d := w.sg.nextSeed
  match d.1 with
  | none => (none, { w with sg := d.2 })
  | some s => (some s, { sg := d.2, rngs := w.rngs.push (Rng.create s) })

/-- `RNG::RNG(localSeed)`: does not touch the seed generator -/
def World.newLocal (w : World) (s : UInt64) : World := { w with rngs := w.rngs.push (Rng.create s) }

end OmplModel.Rng
