/-
Executable model of `ompl::control::KPIECE1::solve` / `selectMotion` / `addMotion` / `findNextMotion` /
`CloseSamples` (src/ompl/control/planners/kpiece/src/KPIECE1.cpp, KPIECE1.h) on top of the grid model
`Model/Grid.lean` (GridB, C13) and the pieces of `Model/Discretization.lean` that the control planner's own
copy of that logic shares with `geometric::Discretization`.

Core Lean only.  The control planner does not use `Discretization<Motion>`; it carries its own `TreeData`
{`GridB<CellData*, OrderCellsByImportance> grid`, `size`, `iteration`} and its own `selectMotion`/`addMotion`.
Re-used from the Discretization model because the code is the same statement for statement: the `Disc` record
(grid, `cell->data` table, `size`, `iteration`, border fraction), `CellData`, `importance` (= `computeImportance`),
`gcfg` (functors, update event), `Disc.select` (= `KPIECE1::selectMotion`: border/interior choice by
`uniform01() < max(selectBorderFraction_, fracExternal())`, the `score < epsilon` repair with `updateAll`,
`selections++`, `motions[halfNormalInt(0, n-1)]`) and `Disc.updScore` (`score = …; grid.update(cell)`).
**How the control copy differs** (modelled here as coded):
* `addMotion`: coverage counts propagation *steps* (`coverage += motion->steps`, new cell `coverage = steps`) where
  the geometric one counts motions (`+= 1`); a new cell's score is `(1 + log(iteration)) / (1e-3 + dist)`
  (`DISTANCE_TO_GOAL_OFFSET`) where the geometric one divides by `1 + dist`;
* `tree_.iteration` is incremented at the head of every loop iteration (`countIteration`);
* goal biasing goes through `CloseSamples` (a `std::set` of the ≤ `nCloseSamples_` motions closest to the goal,
  ordered by distance; equal distances collide, as in a set), not through a goal sampler;
* a propagated motion is **split at cell boundaries** (`findNextMotion`): one tree motion per maximal run of
  states with equal grid coordinates, all with the same control, step counts adding up to the propagated count —
  which is why reported durations are not confined to `[minSteps, maxSteps]`;
* the selected cell's score is multiplied by `goodScoreFactor_` / `badScoreFactor_` and `grid.update(ecell)` is
  called at the end of every iteration that does not `break`.

Oracles / parameters: system (`step`, `valid`), goal, projection (`coordOf`), the planner's RNG as an abstract
state machine (`rng01`, `rngHalf g hi = halfNormalInt(0, hi)`); per iteration the script supplies the control
sampler's `sampleNext` control and `sampleStepCount`.  One termination-condition evaluation per iteration.
Abstractions: pointers → tree indices / cell coordinates; the pre-sized `states` vector (`maxSteps + 1` slots,
re-used across iterations) enters `propagateWhileValid(…, states, false)` as placeholders — only the `cd`
written slots are read; `assert(existing)` → the loop stops (`halt`).
-/
import OmplModel.Model.CRRT
import OmplModel.Model.Discretization
namespace OmplModel.CKPIECE
open OmplModel OmplModel.Control OmplModel.CRRT OmplModel.Grid OmplModel.Disc

structure Problem (S U α ρ : Type) where
  P : Params α
  step : S → U → S
  valid : S → Bool
  inf : α
  goal : S → Bool × α
  nullControl : U
  minSteps : Nat
  maxSteps : Nat
  coordOf : S → Coord
  goalBias : α
  borderFraction : α
  goodScoreFactor : α
  badScoreFactor : α
  /-- `nCloseSamples_` -/
  nClose : Nat
  rng01 : ρ → α × ρ
  /-- `rng_.halfNormalInt(0, hi)` -/
  rngHalf : ρ → Nat → Nat × ρ

structure Draw (U : Type) where
  control : U
  steps : Nat

/-- `CloseSample` {cell, motion, distance}; the set is kept sorted by distance -/
structure Close (α : Type) where
  cell : Coord
  motion : Nat
  distance : α

structure St (S U α ρ : Type) where
  tree : Array (Motion S U)
  disc : Disc α
  close : List (Close α)
  rng : ρ
  solution : Option Nat
  approxsol : Option Nat
  approxdif : α

variable {S U α ρ : Type} [Num α] [HasLog α]

/-- `std::set<CloseSample>::insert` with `operator<` on the distance: no insertion when an element with an
equivalent (neither smaller nor larger) distance is present -/
def closeInsert (l : List (Close α)) (c : Close α) : List (Close α) :=
  match l with
  | [] => [c]
  | x :: xs =>
    if c.distance < x.distance then c :: x :: xs
    else if x.distance < c.distance then x :: closeInsert xs c
    else x :: xs

/-- `CloseSamples::consider(cell, motion, distance)` -/
def closeConsider (maxSize : Nat) (l : List (Close α)) (c : Close α) : List (Close α) :=
  match l.getLast? with
  | none => [c]
  | some last =>
    if c.distance < last.distance then
      closeInsert (if l.length ≥ maxSize then l.dropLast else l) c
    else l

/-- `CloseSamples::selectMotion`: the closest sample is taken and re-inserted with the inflated distance
`(closest + farthest) * (1.1 / 2.0)` -/
def closeSelect (maxSize : Nat) (l : List (Close α)) : Option (Nat × Coord × List (Close α)) :=
  match l, l.getLast? with
  | first :: rest, some last =>
    let d := (first.distance + last.distance) * (Num.ofDec 11 1 / Num.ofNat 2)
    some (first.motion, first.cell, closeConsider maxSize rest { first with distance := d })
  | _, _ => none

/-- `KPIECE1::addMotion(motion, dist)` for the motion with index `m`, `steps` steps, at coordinate `x` -/
def addCell (P : Params α) (d : Disc α) (m : Nat) (steps : Nat) (x : Coord) (dist : α) : Disc α :=
  match lookup d.cdata x with
  | some cd =>
    if has d.grid.cells x then
      let tbl := setData d.cdata x { cd with motions := cd.motions ++ [m], coverage := cd.coverage + Num.ofNat steps }
      { d with cdata := tbl, grid := Grid.step (gcfg P tbl) d.grid (.upd x 0), size := d.size + 1 }
    else d
  | none =>
    if has d.grid.cells x then d
    else
      let cd : CellData α :=
        { motions := [m], coverage := Num.ofNat steps, selections := 1,
          score := (Num.ofNat 1 + HasLog.log (Num.ofNat d.iteration)) / (Num.ofDec 1 3 + dist),
          iteration := d.iteration }
      let tbl := d.cdata ++ [(x, cd)]
      { d with cdata := tbl, grid := Grid.step (gcfg P tbl) d.grid (.new x 0), size := d.size + 1 }

/-- `findNextMotion(coords, index, count)` -/
def findNext (coords : List Coord) (index count : Nat) : Nat :=
  match ((List.range count).drop (index + 1)).find? (fun i => coords[i]? != coords[index]?) with
  | some i => i - 1
  | none => count - 1

/-- the `for (i < cd)` scan: is the propagated motion "interesting" (enters a new cell, or a cell with at most
`avgCov_two_thirds` motions)? -/
def interesting (d : Disc α) (coords : List Coord) (avg : Nat) : Bool :=
  coords.any fun x =>
    match lookup d.cdata x with
    | none => true
    | some cd => decide (cd.motions.length ≤ avg)

inductive Flow where
  | cont | done | halt
deriving DecidableEq, Repr

/-- the `while (index < cd)` loop: one motion per run of equal coordinates.  `fuel = cd`. -/
def splitLoop (Pb : Problem S U α ρ) (states : List S) (coords : List Coord) (u : U) (cd : Nat) :
    Nat → Nat → Nat → St S U α ρ → St S U α ρ × Bool
  | 0, _, _, st => (st, false)
  | fuel + 1, index, existing, st =>
    if index < cd then
      let nextIndex := findNext coords index cd
      match states[nextIndex]? with
      | none => (st, false)
      | some s =>
        let idx := st.tree.size
        let steps := nextIndex - index + 1
        let g := Pb.goal s
        let st1 : St S U α ρ :=
          { st with tree := st.tree.push { state := s, control := u, steps := steps, parent := some existing },
                    disc := addCell Pb.P st.disc idx steps (Pb.coordOf s) g.2 }
        if g.1 then ({ st1 with approxdif := g.2, solution := some idx }, true)
        else
          let st2 : St S U α ρ :=
            if g.2 < st1.approxdif then { st1 with approxdif := g.2, approxsol := some idx } else st1
          let st3 := { st2 with close := closeConsider Pb.nClose st2.close { cell := Pb.coordOf s, motion := idx, distance := g.2 } }
          splitLoop Pb states coords u cd fuel (nextIndex + 1) idx st3
    else (st, false)

/-- `cell->data->score *= factor; tree_.grid.update(cell)` -/
def scaleScore (Pb : Problem S U α ρ) (d : Disc α) (x : Coord) (factor : α) : Disc α :=
  match lookup d.cdata x with
  | some cd => updScore Pb.P d x (cd.score * factor)
  | none => d

/-- `Discretization`-style `selectMotion` with the two draws taken from the planner's RNG -/
def selectGrid (Pb : Problem S U α ρ) (st : St S U α ρ) : St S U α ρ × Option (Nat × Coord) :=
  let r1 := Pb.rng01 st.rng
  -- the pick is drawn only when a non-empty cell was selected; `Disc.select` asks for it through `pick`
  let sel0 := Disc.select Pb.P st.disc r1.1 (fun _ => 0)
  match sel0.2 with
  | none => ({ st with disc := sel0.1, rng := r1.2 }, none)
  | some (_, x) =>
    match lookup sel0.1.cdata x with
    | none => ({ st with disc := sel0.1, rng := r1.2 }, none)
    | some cd =>
      let r2 := Pb.rngHalf r1.2 (cd.motions.length - 1)
      ({ st with disc := sel0.1, rng := r2.2 }, (cd.motions[r2.1]?).map (fun m => (m, x)))

/-- one iteration of `while (!ptc)` -/
def iter (Pb : Problem S U α ρ) (st0 : St S U α ρ) (dr : Draw U) : St S U α ρ × Flow :=
  -- tree_.iteration++
  let st : St S U α ρ := { st0 with disc := countIteration st0.disc }
  -- `closeSamples.canSample() && rng_.uniform01() < goalBias_`
  let viaClose : St S U α ρ × Option (Nat × Coord) :=
    if st.close.isEmpty then selectGrid Pb st
    else
      let r := Pb.rng01 st.rng
      let st' := { st with rng := r.2 }
      if r.1 < Pb.goalBias then
        match closeSelect Pb.nClose st'.close with
        | some (m, x, l) => ({ st' with close := l }, some (m, x))
        | none => selectGrid Pb st'
      else selectGrid Pb st'
  let st1 := viaClose.1
  match viaClose.2 with
  | none => (st1, .halt)
  | some (ex, ecell) =>
    match st1.tree[ex]? with
    | none => (st1, .halt)
    | some em =>
      let r := pwvVec Pb.step Pb.valid em.state dr.control dr.steps (List.replicate (Pb.maxSteps + 1) none) false
      let cd := r.1
      if Pb.minSteps ≤ cd then
        let states := someStates (r.2.take cd)
        let coords := states.map Pb.coordOf
        let avg := (2 * st1.disc.size) / (3 * st1.disc.grid.cells.length)
        let intr := interesting st1.disc coords avg
        -- `interestingMotion || rng_.uniform01() < 0.05`
        let go : Bool × ρ :=
          if intr then (true, st1.rng)
          else
            let r5 := Pb.rng01 st1.rng
            (decide (r5.1 < Num.ofDec 5 2), r5.2)
        let st2 := { st1 with rng := go.2 }
        let sp : St S U α ρ × Bool :=
          if go.1 then splitLoop Pb states coords dr.control cd cd 0 ex st2 else (st2, false)
        if sp.2 then (sp.1, .done)
        else
          ({ sp.1 with disc := scaleScore Pb sp.1.disc ecell Pb.goodScoreFactor }, .cont)
      else
        ({ st1 with disc := scaleScore Pb st1.disc ecell Pb.badScoreFactor }, .cont)

def run (Pb : Problem S U α ρ) : St S U α ρ → List (Draw U) → St S U α ρ
  | st, [] => st
  | st, d :: ds =>
    match iter Pb st d with
    | (st', .cont) => run Pb st' ds
    | (st', _) => st'

structure Result (S U α ρ : Type) where
  status : Status
  dif : α
  path : Option (Path S U)
  final : St S U α ρ

/-- start motions: `addMotion(motion, 1.0)` -/
def init (Pb : Problem S U α ρ) (g : ρ) (starts : List S) : St S U α ρ :=
  (starts.filter Pb.valid).foldl
    (fun st s =>
      { st with tree := st.tree.push { state := s, control := Pb.nullControl, steps := 0, parent := none },
                disc := addCell Pb.P st.disc st.tree.size 0 (Pb.coordOf s) (Num.ofNat 1) })
    { tree := #[], disc := { bf := Pb.borderFraction }, close := [], rng := g, solution := none, approxsol := none,
      approxdif := Pb.inf }

/-- `control::KPIECE1::solve` on a fresh planner whose `rng_` is in state `g` -/
def solve (Pb : Problem S U α ρ) (g : ρ) (starts : List S) (draws : List (Draw U)) : Result S U α ρ :=
  let st0 := init Pb g starts
  if st0.disc.grid.cells.length = 0 then { status := .invalidStart, dif := Pb.inf, path := none, final := st0 }
  else
    let st := run Pb st0 draws
    match st.solution with
    | some i => { status := .exact, dif := st.approxdif, path := some (reported st.tree i), final := st }
    | none =>
      match st.approxsol with
      | some i => { status := .approximate, dif := st.approxdif, path := some (reported st.tree i), final := st }
      | none => { status := .timeout, dif := st.approxdif, path := none, final := st }

end OmplModel.CKPIECE
