import OmplModel.Model.Heap
/-
`Element::position` made explicit.  `Model/Heap.lean` finds an element by searching for its handle;
BinaryHeap.h instead reads `element->position`, which it keeps up to date by writing
`vector_[i]->position = i` next to every store into `vector_[i]`.  Here every array store also stores the
position (`pos : Array Nat`, indexed by handle), `remove`/`update` go through `pos`, and
`Proofs/HeapPos.lean` shows that (1) `pos[arr[i].h] = i` after every operation sequence and (2) the
position-driven operations compute exactly what the search-driven ones compute.  Core Lean only.
-/
namespace OmplModel.Heap
variable {κ : Type}

structure PHeap (κ : Type) where
  arr : Array (Elem κ) := #[]
  pos : Array Nat := #[]          -- handle ↦ position (meaningless for dead handles)
  next : Nat := 0

/-- `vector_[i] = e; e->position = i` -/
def wr (a : Array (Elem κ)) (pos : Array Nat) (i : Nat) (e : Elem κ) : Array (Elem κ) × Array Nat :=
  (a.setIfInBounds i e, pos.setIfInBounds e.h i)

/-- a swap is two stores, each with its position write -/
def swapP (a : Array (Elem κ)) (pos : Array Nat) (i j : Nat) (hi : i < a.size) (hj : j < a.size) :
    Array (Elem κ) × Array Nat :=
  (a.swap i j hi hj, (pos.setIfInBounds a[j].h i).setIfInBounds a[i].h j)

def siftUpP (lt : κ → κ → Bool) (a : Array (Elem κ)) (pos : Array Nat) (i : Nat) : Array (Elem κ) × Array Nat :=
  if h : 0 < i ∧ i < a.size then
    if lt a[i].key (a[(i - 1) / 2]'(by omega)).key then
      let r := swapP a pos i ((i - 1) / 2) h.2 (by omega)
      have : r.1.size = a.size := by simp [r, swapP]
      siftUpP lt r.1 r.2 ((i - 1) / 2)
    else (a, pos)
  else (a, pos)
termination_by i
decreasing_by omega

def siftDownP (lt : κ → κ → Bool) (a : Array (Elem κ)) (pos : Array Nat) (i : Nat) : Array (Elem κ) × Array Nat :=
  if h : 2 * i + 2 < a.size then
    if lt (a[2 * i + 1]'(by omega)).key a[2 * i + 2].key then
      if lt (a[2 * i + 1]'(by omega)).key (a[i]'(by omega)).key then
        let r := swapP a pos (2 * i + 1) i (by omega) (by omega)
        siftDownP lt r.1 r.2 (2 * i + 1)
      else (a, pos)
    else
      if lt a[2 * i + 2].key (a[i]'(by omega)).key then
        let r := swapP a pos (2 * i + 2) i (by omega) (by omega)
        siftDownP lt r.1 r.2 (2 * i + 2)
      else (a, pos)
  else if h2 : 2 * i + 1 < a.size then
    if lt a[2 * i + 1].key (a[i]'(by omega)).key then
      swapP a pos (2 * i + 1) i h2 (by omega)
    else (a, pos)
  else (a, pos)
termination_by a.size - i
decreasing_by all_goals (simp only [swapP, Array.size_swap]; omega)

/-- `removePos(pos)`: move the last element into the hole (with its position write), pop, sift up, sift down -/
def removePosP (lt : κ → κ → Bool) (a : Array (Elem κ)) (pos : Array Nat) (p : Nat) : Array (Elem κ) × Array Nat :=
  if h : p + 1 < a.size then
    let r := swapP a pos p (a.size - 1) (by omega) (by omega)
    let u := siftUpP lt r.1.pop r.2 p
    siftDownP lt u.1 u.2 p
  else (a.pop, pos)

def PHeap.insert (lt : κ → κ → Bool) (s : PHeap κ) (k : κ) : PHeap κ :=
  let a := s.arr.push ⟨s.next, k⟩
  let pos := (if s.pos.size ≤ s.next then s.pos ++ Array.replicate (s.next + 1 - s.pos.size) 0 else s.pos).setIfInBounds s.next (a.size - 1)
  let r := siftUpP lt a pos (a.size - 1)
  { arr := r.1, pos := r.2, next := s.next + 1 }

/-- `remove(element)`: `removePos(element->position)` -/
def PHeap.remove (lt : κ → κ → Bool) (s : PHeap κ) (h : Nat) : PHeap κ :=
  let r := removePosP lt s.arr s.pos (s.pos.getD h 0)
  { s with arr := r.1, pos := r.2 }

def PHeap.pop (lt : κ → κ → Bool) (s : PHeap κ) : PHeap κ :=
  if s.arr.size = 0 then s else
    let r := removePosP lt s.arr s.pos 0
    { s with arr := r.1, pos := r.2 }

/-- the user changes `element->data` and calls `update(element)`: `percolateUp(position); percolateDown(position)` -/
def PHeap.setKey (lt : κ → κ → Bool) (s : PHeap κ) (h : Nat) (k : κ) : PHeap κ :=
  let p := s.pos.getD h 0
  if hp : p < s.arr.size then
    let a := s.arr.set p ⟨h, k⟩ hp
    let u := siftUpP lt a s.pos p
    let d := siftDownP lt u.1 u.2 p
    { s with arr := d.1, pos := d.2 }
  else s

/-- positions in sync: the element at index `i` records position `i` -/
def PosSync (a : Array (Elem κ)) (pos : Array Nat) : Prop :=
  ∀ i, (hi : i < a.size) → a[i].h < pos.size ∧ pos.getD a[i].h 0 = i

end OmplModel.Heap
