/-
C19 — interleaving semantics for the documented thread-safe surface of OMPL.

Core Lean only (no Mathlib).

A *thread* is a list of atomic steps; a *thread family* is a list of threads; the *scheduler* is a
list of thread indices (`List Nat`): choice `i` executes the next step of thread `i` (a choice that
names a finished or non-existent thread is a no-op, so every list of naturals is a scheduler).
`trace ts is` is the interleaved step sequence, `remain ts is` what is left of the threads, and a
scheduler is `Complete` when nothing is left.  "Every interleaving" = every `is : List Nat`
(theorems about invariants hold at *every prefix*, i.e. for incomplete schedulers too; theorems about
final values assume `Complete`).

Granularity (the modelling assumption, corroborated by TSan runs, not proved):
* a `plain` read-modify-write is TWO steps (`read t` into the thread's register, `write t` from it);
* an `atomic` read-modify-write (`std::atomic<T>::operator++`) is ONE step;
* a `mutexGuarded` region (`std::lock_guard` scope) is ONE step.
Mutexes therefore never block in the model (a region is indivisible), so the remaining threads do not
depend on the store and `trace`/`remain` are store-independent.

Instances (what of the C++ they stand for):
* `CStep`   — `MotionValidator::valid_/invalid_` (`valid_++` in `checkMotion`), GNAT `offset_++`:
              N threads × m increments, by access kind;
* `SStep`   — `ProblemDefinition::PlannerSolutionSet::add` (push_back + sort under `lock_`): guarded
              add is one step; the unguarded variant (lock_guard removed) is read-then-write;
* `GStep`   — `RNGSeedGenerator::nextSeed` (`sDist_(sGen_)` under `rngMutex_`): the generator state is
              abstracted to the stream *position*; the caller receives the position;
* `FStep`   — `PlannerTerminationConditionImpl::terminate_`: a writer (`terminate()`), a polling reader
              (`eval()`); the `plain` reader is the compiler-hoisted form (load once, test the register);
* `PStep`   — pRRT's `threadSolve` loop at lock granularity over an abstract tree:
              `lock; nearest; unlock` · `checkMotion` · `lock; add; unlock` · `lock; update solution; unlock`.
              States, the nearest-neighbour selection, steering, the validity oracle, the goal predicate
              and the goal distance are parameters (`PEnv`); nothing is assumed about them except where a
              theorem says so.
-/
namespace OmplModel.Interleave

/-! ## Generic semantics -/

variable {α σ : Type}

/-- what is left of every thread after the scheduler's choices -/
def remain : List (List α) → List Nat → List (List α)
  | ts, [] => ts
  | ts, i :: is =>
    match ts[i]? with
    | some (_ :: rest) => remain (ts.set i rest) is
    | _ => remain ts is

/-- the interleaved sequence of steps the scheduler's choices execute -/
def trace : List (List α) → List Nat → List α
  | _, [] => []
  | ts, i :: is =>
    match ts[i]? with
    | some (a :: rest) => a :: trace (ts.set i rest) is
    | _ => trace ts is

/-- every thread ran to its end -/
def Complete (ts : List (List α)) (is : List Nat) : Prop := ∀ t ∈ remain ts is, t = []

def completeB (ts : List (List α)) (is : List Nat) : Bool := (remain ts is).all List.isEmpty

theorem complete_iff_completeB (ts : List (List α)) (is : List Nat) :
    Complete ts is ↔ completeB ts is = true := by
  simp [Complete, completeB, List.all_eq_true, List.isEmpty_iff]

instance (ts : List (List α)) (is : List Nat) : Decidable (Complete ts is) :=
  decidable_of_iff _ (complete_iff_completeB ts is).symm

def runSteps (apply : α → σ → σ) (l : List α) (s : σ) : σ := l.foldl (fun s a => apply a s) s

/-- the store after the scheduler's choices -/
def exec (apply : α → σ → σ) (ts : List (List α)) (s : σ) (is : List Nat) : σ :=
  runSteps apply (trace ts is) s

def totalLen (ts : List (List α)) : Nat := (ts.map List.length).sum

/-- all complete, stutter-free schedulers of a thread family (`fuel` = number of steps left) -/
def schedulesFuel : Nat → List (List α) → List (List Nat)
  | 0, _ => [[]]
  | fuel + 1, ts =>
    if ts.all List.isEmpty then [[]]
    else
      (List.range ts.length).flatMap fun i =>
        match ts[i]? with
        | some (_ :: rest) => (schedulesFuel fuel (ts.set i rest)).map (i :: ·)
        | _ => []

/-- `schedules ts`: every interleaving of the thread family, as scheduler choice lists -/
def schedules (ts : List (List α)) : List (List Nat) := schedulesFuel (totalLen ts) ts

/-- thread family `f start, f (start+1), …, f (start+n-1)` -/
def mkThreads (f : Nat → List α) : Nat → Nat → List (List α)
  | _, 0 => []
  | start, n + 1 => f start :: mkThreads f (start + 1) n

/-- access kind of a shared member (the categories of `Generated/SharedAccess.lean`) -/
inductive Kind where
  | plain
  | atomic
  | mutexGuarded
deriving DecidableEq, Repr

/-! ## Counter: N threads × m increments (`valid_++`, `invalid_++`, `offset_++`) -/

inductive CStep where
  | inc                 -- atomic / guarded increment: one step
  | read (t : Nat)      -- plain increment, first half: register of thread t := counter
  | write (t : Nat)     -- plain increment, second half: counter := register of thread t + 1
deriving DecidableEq, Repr

structure CStore where
  c : Nat
  reg : Nat → Nat

def CStore.init : CStore := ⟨0, fun _ => 0⟩

def CStep.apply : CStep → CStore → CStore
  | .inc, s => { s with c := s.c + 1 }
  | .read t, s => { s with reg := fun u => if u = t then s.c else s.reg u }
  | .write t, s => { s with c := s.reg t + 1 }

/-- one increment by thread `t` of a member with access kind `k` -/
def incr : Kind → Nat → List CStep
  | .plain, t => [.read t, .write t]
  | _, _ => [.inc]

def counterThread (k : Kind) (t m : Nat) : List CStep := (List.replicate m (incr k t)).flatten

def counterThreads (k : Kind) (N m : Nat) : List (List CStep) :=
  mkThreads (fun t => counterThread k t m) 0 N

/-- final counter value of `N` threads × `m` increments under scheduler `is` -/
def counterFinal (k : Kind) (N m : Nat) (is : List Nat) : Nat :=
  (exec CStep.apply (counterThreads k N m) CStore.init is).c

/-- number of steps in the remaining threads that store to the counter -/
def CStep.isStore : CStep → Bool
  | .read _ => false
  | _ => true

def storesLeft (ts : List (List CStep)) : Nat := (ts.map (fun t => (t.filter CStep.isStore).length)).sum

/-! ## Solution list: `PlannerSolutionSet::add` -/

structure Sol where
  key : Nat     -- rank under `PlannerSolution::operator<` (smaller = better)
  id : Nat      -- which path
deriving DecidableEq, Repr

/-- `push_back` + `sort`: the new element goes behind the elements that are not worse -/
def insertSorted (x : Sol) : List Sol → List Sol
  | [] => [x]
  | y :: ys => if x.key < y.key then x :: y :: ys else y :: insertSorted x ys

inductive SStep where
  | add (x : Sol)                 -- guarded add: one step
  | readL (t : Nat)               -- unguarded add, first half: thread t copies the list
  | writeL (t : Nat) (x : Sol)    -- unguarded add, second half: list := insertSorted x (copy of thread t)
deriving DecidableEq, Repr

structure SStore where
  sols : List Sol
  reg : Nat → List Sol

def SStore.init : SStore := ⟨[], fun _ => []⟩

def SStep.apply : SStep → SStore → SStore
  | .add x, s => { s with sols := insertSorted x s.sols }
  | .readL t, s => { s with reg := fun u => if u = t then s.sols else s.reg u }
  | .writeL t x, s => { s with sols := insertSorted x (s.reg t) }

def addOp : Kind → Nat → Sol → List SStep
  | .plain, t, x => [.readL t, .writeL t x]
  | _, _, x => [.add x]

/-- thread `t` adds the solutions `xs` in order -/
def addThread (k : Kind) (t : Nat) (xs : List Sol) : List SStep := (xs.map (addOp k t)).flatten

/-- thread family: thread `i` adds `xss[i]` -/
def addThreadsFrom (k : Kind) : Nat → List (List Sol) → List (List SStep)
  | _, [] => []
  | t, xs :: rest => addThread k t xs :: addThreadsFrom k (t + 1) rest

def addThreads (k : Kind) (xss : List (List Sol)) : List (List SStep) := addThreadsFrom k 0 xss

/-- the sequential meaning of a list of adds -/
def addAll (l : List Sol) (init : List Sol) : List Sol := l.foldl (fun acc x => insertSorted x acc) init

def Sorted : List Sol → Prop
  | [] => True
  | [_] => True
  | x :: y :: rest => x.key ≤ y.key ∧ Sorted (y :: rest)

/-! ## Seed generator: `RNGSeedGenerator::nextSeed` -/

inductive GStep where
  | next (t : Nat)      -- guarded nextSeed: hand the current stream position to thread t, advance
  | readP (t : Nat)     -- unguarded, first half: thread t reads the generator state
  | writeP (t : Nat)    -- unguarded, second half: thread t receives its copy's position, state := copy + 1
deriving DecidableEq, Repr

structure GStore where
  pos : Nat
  handed : List (Nat × Nat)      -- (thread, stream position), in order of hand-out
  reg : Nat → Nat

def GStore.init : GStore := ⟨0, [], fun _ => 0⟩

def GStep.apply : GStep → GStore → GStore
  | .next t, s => { s with pos := s.pos + 1, handed := s.handed ++ [(t, s.pos)] }
  | .readP t, s => { s with reg := fun u => if u = t then s.pos else s.reg u }
  | .writeP t, s => { s with pos := s.reg t + 1, handed := s.handed ++ [(t, s.reg t)] }

def seedOp : Kind → Nat → List GStep
  | .plain, t => [.readP t, .writeP t]
  | _, t => [.next t]

/-- `N` threads, each constructing `m` random generators -/
def seedThreads (k : Kind) (N m : Nat) : List (List GStep) :=
  mkThreads (fun t => (List.replicate m (seedOp k t)).flatten) 0 N

/-! ## Termination flag: `terminate()` from another thread, `eval()` polling -/

inductive FStep where
  | set       -- terminate(): flag := true (one store)
  | poll      -- eval() on an atomic flag: observe the flag itself
  | load      -- plain flag, loop-hoisted: load the flag into a register once …
  | test      -- … and test the register on every iteration
deriving DecidableEq, Repr

structure FStore where
  flag : Bool
  reg : Bool
  seen : List Bool        -- what the reader observed, oldest first

def FStore.init : FStore := ⟨false, false, []⟩

def FStep.apply : FStep → FStore → FStore
  | .set, s => { s with flag := true }
  | .poll, s => { s with seen := s.seen ++ [s.flag] }
  | .load, s => { s with reg := s.flag }
  | .test, s => { s with seen := s.seen ++ [s.reg] }

/-- thread 0: the writer; thread 1: a reader evaluating the condition `k` times -/
def flagThreads (kind : Kind) (k : Nat) : List (List FStep) :=
  match kind with
  | .plain => [[.set], .load :: List.replicate k .test]
  | _ => [[.set], List.replicate k .poll]

/-- number of `poll`s behind the first `set` in a step sequence -/
def pollsAfterSet : List FStep → Nat
  | [] => 0
  | .set :: rest => (rest.filter (· == .poll)).length
  | _ :: rest => pollsAfterSet rest

/-! ## pRRT worker loop at lock granularity -/

structure PEnv (S D : Type) where
  root : S
  valid : S → S → Bool          -- si_->checkMotion(from, to): the validity oracle
  sel : List S → S → S          -- nn_->nearest(sample) over the current tree nodes
  steer : S → S → S             -- the state actually tried (interpolate towards the sample)
  goal : S → Bool               -- goal->isSatisfied
  dist : S → D                  -- the goal distance it reports
  lt : D → D → Bool

structure PLocal (S : Type) where
  near : S
  cand : S
  ok : Bool         -- checkMotion(near, cand) answered true in this iteration
  added : Bool      -- cand was added to the tree in this iteration

structure PStore (S D : Type) where
  tree : List (S × Option S)        -- (state, parent); nodes are only ever appended
  asked : List (S × S × Bool)       -- transcript of checkMotion: (from, to, answer)
  loc : Nat → PLocal S              -- thread-local variables of every worker
  sol : Option S                    -- SolutionInfo::solution
  approx : Option S                 -- SolutionInfo::approxsol
  approxdif : Option D              -- SolutionInfo::approxdif (`none` = +infinity)

inductive PStep (S : Type) where
  | nearest (t : Nat) (x : S)   -- sample x; lock; nmotion = nn_->nearest; unlock; compute dstate
  | check (t : Nat)             -- si_->checkMotion(nmotion->state, dstate)   (no lock held)
  | add (t : Nat)               -- lock; nn_->add(motion); unlock             (only if the check passed)
  | upd (t : Nat)               -- sol->lock; update solution / approximate solution; unlock

variable {S D : Type}

def nodes (tree : List (S × Option S)) : List S := tree.map Prod.fst

def PStore.init (e : PEnv S D) : PStore S D :=
  { tree := [(e.root, none)], asked := [], loc := fun _ => ⟨e.root, e.root, false, false⟩,
    sol := none, approx := none, approxdif := none }

def setLoc (loc : Nat → PLocal S) (t : Nat) (l : PLocal S) : Nat → PLocal S :=
  fun u => if u = t then l else loc u

def PStep.apply (e : PEnv S D) : PStep S → PStore S D → PStore S D
  | .nearest t x, s =>
    let n := e.sel (nodes s.tree) x
    { s with loc := setLoc s.loc t ⟨n, e.steer n x, false, false⟩ }
  | .check t, s =>
    let l := s.loc t
    let a := e.valid l.near l.cand
    { s with asked := s.asked ++ [(l.near, l.cand, a)], loc := setLoc s.loc t { l with ok := a } }
  | .add t, s =>
    let l := s.loc t
    if l.ok then
      { s with tree := s.tree ++ [(l.cand, some l.near)], loc := setLoc s.loc t { l with added := true } }
    else s
  | .upd t, s =>
    let l := s.loc t
    if l.added then
      if e.goal l.cand then
        { s with sol := some l.cand, approxdif := some (e.dist l.cand) }
      else
        match s.approxdif with
        | none => { s with approx := some l.cand, approxdif := some (e.dist l.cand) }
        | some d =>
          if e.lt (e.dist l.cand) d then
            { s with approx := some l.cand, approxdif := some (e.dist l.cand) }
          else s
    else s

/-- one loop iteration of worker `t` with sample `x` -/
def iteration (t : Nat) (x : S) : List (PStep S) := [.nearest t x, .check t, .add t, .upd t]

/-- worker `t` running over its samples -/
def worker (t : Nat) (xs : List S) : List (PStep S) := (xs.map (iteration t)).flatten

def workersFrom : Nat → List (List S) → List (List (PStep S))
  | _, [] => []
  | t, xs :: rest => worker t xs :: workersFrom (t + 1) rest

/-- thread family of pRRT: worker `i` draws the samples `xss[i]` -/
def workers (xss : List (List S)) : List (List (PStep S)) := workersFrom 0 xss

/-- the store of a pRRT run under scheduler `is` -/
def prrtRun (e : PEnv S D) (xss : List (List S)) (is : List Nat) : PStore S D :=
  exec (PStep.apply e) (workers xss) (PStore.init e) is

/-- "every tree edge was answered valid" + the bookkeeping that makes it inductive -/
structure PInv (e : PEnv S D) (s : PStore S D) : Prop where
  edge_valid : ∀ c p, (c, some p) ∈ s.tree → (p, c, true) ∈ s.asked
  answers_true : ∀ a b r, (a, b, r) ∈ s.asked → r = e.valid a b
  parent_in : ∀ c p, (c, some p) ∈ s.tree → p ∈ nodes s.tree
  root_in : e.root ∈ nodes s.tree
  near_in : ∀ t, (s.loc t).near ∈ nodes s.tree
  ok_asked : ∀ t, (s.loc t).ok = true → ((s.loc t).near, (s.loc t).cand, true) ∈ s.asked
  added_in : ∀ t, (s.loc t).added = true → (s.loc t).cand ∈ nodes s.tree
  sol_in : ∀ c, s.sol = some c → c ∈ nodes s.tree ∧ e.goal c = true
  approx_in : ∀ c, s.approx = some c → c ∈ nodes s.tree

end OmplModel.Interleave
