import OmplModel.Model.SpaceDist
/-
C06 model, part 2: the shipped state spaces that are not constructors of the shared `Space` type
(top level only; core Lean).

  * `EmptyStateSpace`              (EmptyStateSpace.h): `RealVectorStateSpace(0)` whose `getMaximumExtent()` is `0`
  * `SpaceTimeStateSpace`          (SpaceTimeStateSpace.cpp): a compound of two components with the CURRENT weights
        `w0`, `w1` (the constructor `mkSpacetime?` refuses `timeWeight` outside [0, 1] and adds the space with weight
        `1 - timeWeight`, the time with weight `timeWeight`; `setSubspaceWeight` may change either afterwards);
        `distance` = `+∞` when `deltaSpace / vMax_ > deltaTime + eps_` (`eps_` = float ε unless a planner calls
        `updateEpsilon`), else `weights_[0]*deltaSpace + weights_[1]*deltaTime` (NOT the compound's fold from 0.0, and
        with NO lower cut-off on the weights); `getMaximumExtent()` = `+∞`; `isMetricSpace()` = false.  `+∞` is `none`.
  * `ProjectedStateSpace` / `AtlasStateSpace` / `TangentBundleStateSpace` (ConstrainedStateSpace.h, a
        `WrapperStateSpace`): distance, equalStates, satisfiesBounds, extent are the AMBIENT space's;
        `isMetricSpace()` = false.
  * `CForestStateSpaceWrapper`     (CForestStateSpaceWrapper.h): forwards everything, claims included.
-/
namespace OmplModel.SpaceDist
open OmplModel

inductive SpaceX (α : Type) where
  | base (s : Space α)
  | empty
  | spacetime (vmax w0 w1 : α) (bounded : Bool) (lo hi : α) (inner : Space α)
  | constrained (amb : Space α)
  | cforest (s : SpaceX α)

variable {α : Type} [Num α]

/-- `std::numeric_limits<float>::epsilon()` = 2⁻²³ -/
def fltEps : α := Num.ofNat 1 / Num.ofNat 8388608

/-- `SpaceTimeStateSpace(spaceComponent, vMax, timeWeight)`: `if (timeWeight < 0 || timeWeight > 1) throw`, then
`addSubspace(spaceComponent, 1 - timeWeight); addSubspace(TimeStateSpace, timeWeight)` -/
def SpaceX.mkSpacetime? (vmax tw : α) (bounded : Bool) (lo hi : α) (inner : Space α) : Option (SpaceX α) :=
  if tw < Num.ofNat 0 || Num.ofNat 1 < tw then none
  else some (.spacetime vmax (Num.ofNat 1 - tw) tw bounded lo hi inner)

/-- the `Space` whose state layout (and `equalStates` / `satisfiesBounds`) the space uses -/
def SpaceX.layout : SpaceX α → Space α
  | .base s => s
  | .empty => .rv [] []
  | .spacetime _ w0 w1 b lo hi inner => .ccons w0 inner (.ccons w1 (.time b lo hi) .cnil)
  | .constrained amb => amb
  | .cforest s => s.layout

/-- `distance`; `none` is `+∞` -/
def distX [SphereNum α] : SpaceX α → St α → St α → Option α
  | .base s, a, b => some (dist s a b)
  | .empty, _, _ => some (rvDist ([] : List α) [])
  | .spacetime vmax w0 w1 _ _ _ inner, .ccons a1 (.ccons (.time t1) .cnil), .ccons b1 (.ccons (.time t2) .cnil) =>
    let dS := dist inner a1 b1
    let dT := timeDist t1 t2
    if dT + fltEps < dS / vmax then none else some (w0 * dS + w1 * dT)
  | .spacetime .., _, _ => some (Num.ofNat 0)
  | .constrained amb, a, b => some (dist amb a b)
  | .cforest s, a, b => distX s a b

/-- `getMaximumExtent`; `none` is `+∞` -/
def extentX : SpaceX α → Option α
  | .base s => some (maxExtent s)
  | .empty => some (Num.ofNat 0)
  | .spacetime .. => none
  | .constrained amb => some (maxExtent amb)
  | .cforest s => extentX s

def equalX (sx : SpaceX α) (a b : St α) : Bool := equalStates sx.layout a b
def inBoundsX (sx : SpaceX α) (a : St α) : Bool := satisfiesBounds sx.layout a

/-- `isMetricSpace()` -/
def claimsMetricX : SpaceX α → Bool
  | .base s => claimsMetric s
  | .empty => true
  | .spacetime .. => false
  | .constrained _ => false
  | .cforest s => claimsMetricX s

end OmplModel.SpaceDist
