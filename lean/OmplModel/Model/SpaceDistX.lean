import OmplModel.Model.SpaceDist
/-
C06 model, part 2: the shipped state spaces that are not constructors of the shared `Space` type
(top level only; core Lean).

  * `EmptyStateSpace`              (EmptyStateSpace.h): `RealVectorStateSpace(0)` whose `getMaximumExtent()` is `0`
  * `SpaceTimeStateSpace`          (SpaceTimeStateSpace.cpp): a compound of two components with the CURRENT weights
        `w0`, `w1` (the constructor `mkSpacetime?` refuses `timeWeight` outside [0, 1] and adds the space with weight
        `1 - timeWeight`, the time with weight `timeWeight`; `setSubspaceWeight` may change either afterwards);
        `distance` = `+∞` when `deltaSpace / vMax_ > deltaTime + eps_` (`eps_` = float ε unless a planner calls
        `updateEpsilon`), else `weights_[0]*deltaSpace + weights_[1]*deltaTime` (NOT the compound's fold from 0.0, and
        with NO lower cut-off on the weights); `getMaximumExtent()` = `+∞`; `isMetricSpace()` = false.  `+∞` is `none`.
  * `ProjectedStateSpace` / `AtlasStateSpace` / `TangentBundleStateSpace` (ConstrainedStateSpace.h, a
        `WrapperStateSpace`): distance, equalStates, satisfiesBounds, extent are the AMBIENT space's;
        `isMetricSpace()` = false.
  * `CForestStateSpaceWrapper`     (CForestStateSpaceWrapper.h): forwards everything, claims included.
-/
namespace OmplModel.SpaceDist
open OmplModel

inductive SpaceX (α : Type) where
  | base (s : Space α)
  | empty
  | spacetime (vmax w0 w1 : α) (bounded : Bool) (lo hi : α) (inner : Space α)
  | constrained (amb : Space α)
  | cforest (s : SpaceX α)
  /-- a Torus / Möbius / Klein-bottle / Sphere space (`s`) whose two subspace weights were changed by
  `setSubspaceWeight` (they are CompoundStateSpaces of two components built with weights 1, 1; `lock()` only blocks
  `addSubspace`) -/
  | weighted (s : Space α) (w0 w1 : α)

variable {α : Type} [Num α]

/-- `std::numeric_limits<float>::epsilon()` = 2⁻²³ -/
def fltEps : α := Num.ofNat 1 / Num.ofNat 8388608

/-- `SpaceTimeStateSpace(spaceComponent, vMax, timeWeight)`: `if (timeWeight < 0 || timeWeight > 1) throw`, then
`addSubspace(spaceComponent, 1 - timeWeight); addSubspace(TimeStateSpace, timeWeight)` -/
def SpaceX.mkSpacetime? (vmax tw : α) (bounded : Bool) (lo hi : α) (inner : Space α) : Option (SpaceX α) :=
  if tw < Num.ofNat 0 || Num.ofNat 1 < tw then none
  else some (.spacetime vmax (Num.ofNat 1 - tw) tw bounded lo hi inner)

/-- the `Space` whose state layout (and `equalStates` / `satisfiesBounds`) the space uses -/
def SpaceX.layout : SpaceX α → Space α
  | .base s => s
  | .empty => .rv [] []
  | .spacetime _ w0 w1 b lo hi inner => .ccons w0 inner (.ccons w1 (.time b lo hi) .cnil)
  | .constrained amb => amb
  | .cforest s => s.layout
  | .weighted s _ _ => s

/-- `MobiusStateSpace::distance` with the current weights: away from the gluing the inherited compound sum
`0 + w0·dS + w1·dR`; across it `0 + w0·dS`, then `+ sqrt((−v₂ − v₁)²)` — the second weight is NOT applied (F361) -/
def mobiusDistW (w0 w1 u1 v1 u2 v2 : α) : α :=
  let diff := u2 - u1
  if Num.abs diff ≤ Num.pi then Num.ofNat 0 + w0 * so2Dist u1 u2 + w1 * rvDist [v1] [v2]
  else
    let dist := Num.ofNat 0 + w0 * so2Dist u1 u2
    let r2 := -v2
    dist + Num.sqrt ((r2 - v1) * (r2 - v1))

/-- `KleinBottleStateSpace::distance` with the current weights: `|Δu| ≤ π/2`: the compound sum; otherwise `d_u + d_v`
with NO weight at all (F361) -/
def kleinDistW (w0 w1 u1 v1 u2 v2 : α) : α :=
  let diffU := u2 - u1
  if Num.abs diffU ≤ half * Num.pi then Num.ofNat 0 + w0 * rvDist [u1] [u2] + w1 * so2Dist v1 v2
  else kleinDist u1 v1 u2 v2

/-- `CompoundStateSpace::getMaximumExtent` over two components (guard `> 0`, or the former `>= epsilon`) -/
def extent2 (old : Bool) (w0 w1 e0 e1 : α) : α :=
  let keep (w : α) : Bool := if old then eps ≤ w else Num.ofNat 0 < w
  let a : α := if keep w0 then Num.ofNat 0 + w0 * e0 else Num.ofNat 0
  if keep w1 then a + w1 * e1 else a

/-- `getMaximumExtent` of a special space with changed weights: the inherited compound extent (Sphere overrides it) -/
def extentW (old : Bool) (w0 w1 : α) : Space α → α
  | .torus _ _ => extent2 old w0 w1 Num.pi Num.pi
  | .mobius imax _ => extent2 old w0 w1 Num.pi (rvExtent [-imax] [imax])
  | .klein => extent2 old w0 w1 (rvExtent [Num.ofNat 0] [Num.pi]) Num.pi
  | s => maxExtent s

/-- `distance`; `none` is `+∞` -/
def distX [SphereNum α] : SpaceX α → St α → St α → Option α
  | .base s, a, b => some (dist s a b)
  | .empty, _, _ => some (rvDist ([] : List α) [])
  | .spacetime vmax w0 w1 _ _ _ inner, .ccons a1 (.ccons (.time t1) .cnil), .ccons b1 (.ccons (.time t2) .cnil) =>
    let dS := dist inner a1 b1
    let dT := timeDist t1 t2
    if dT + fltEps < dS / vmax then none else some (w0 * dS + w1 * dT)
  | .spacetime .., _, _ => some (Num.ofNat 0)
  | .constrained amb, a, b => some (dist amb a b)
  | .cforest s, a, b => distX s a b
  | .weighted (.mobius _ _) w0 w1, .ccons (.so2 u1) (.ccons (.rv [v1]) .cnil), .ccons (.so2 u2) (.ccons (.rv [v2]) .cnil) =>
    some (mobiusDistW w0 w1 u1 v1 u2 v2)
  | .weighted .klein w0 w1, .ccons (.rv [u1]) (.ccons (.so2 v1) .cnil), .ccons (.rv [u2]) (.ccons (.so2 v2) .cnil) =>
    some (kleinDistW w0 w1 u1 v1 u2 v2)
  | .weighted s _ _, a, b => some (dist s a b)      -- Torus / Sphere: `distance` never looks at the weights

/-- `getMaximumExtent`; `none` is `+∞` -/
def extentX : SpaceX α → Option α
  | .base s => some (maxExtent s)
  | .empty => some (Num.ofNat 0)
  | .spacetime .. => none
  | .constrained amb => some (maxExtent amb)
  | .cforest s => extentX s
  | .weighted s w0 w1 => some (extentW false w0 w1 s)

/-- the same with the former compound guard (`maxExtentOld`) -/
def extentXOld : SpaceX α → Option α
  | .base s => some (maxExtentOld s)
  | .empty => some (Num.ofNat 0)
  | .spacetime .. => none
  | .constrained amb => some (maxExtentOld amb)
  | .cforest s => extentXOld s
  | .weighted s w0 w1 => some (extentW true w0 w1 s)

def equalX (sx : SpaceX α) (a b : St α) : Bool := equalStates sx.layout a b
def inBoundsX (sx : SpaceX α) (a : St α) : Bool := satisfiesBounds sx.layout a

/-- `isMetricSpace()` -/
def claimsMetricX : SpaceX α → Bool
  | .base s => claimsMetric s
  | .empty => true
  | .spacetime .. => false
  | .constrained _ => false
  | .cforest s => claimsMetricX s
  | .weighted s _ _ => claimsMetric s

end OmplModel.SpaceDist
