import OmplModel.Model.PathOps
import OmplModel.Model.PathOpsWhole
/-
`PathSimplifier::partialShortcutPath` as a WHOLE routine under an ARBITRARY optimisation objective
(src/ompl/geometric/src/PathSimplifier.cpp :319-519, tree after the fixes F55 / F170).  Core Lean only.

`psLoopOrd` (Model/PathOps.lean) hard-wires the default path-length objective: its cost test is
`along < dist s0 s1` over doubles.  Here the cost test is the one the C++ performs,

    s0PartialCost = index0 >= 0 ? identityCost() : motionCost(s0, states[pos0 + 1]);
    s1PartialCost = index1 >= 0 ? identityCost() : motionCost(states[pos1], s1);
    alongPath = s0PartialCost;  posTemp = pos0 + 1;
    while (posTemp < pos1) { alongPath = combineCosts(alongPath, motionCost(states[posTemp], states[posTemp+1])); posTemp++; }
    alongPath = combineCosts(alongPath, s1PartialCost);
    if (isCostBetterThan(alongPath, motionCost(s0, s1))) continue;

over an abstract cost type `γ` and objective `Obj σ γ` (identity / combine / motion / better).  The sampling logic
(`dists`, `lower_bound`, snap tests, `uniformReal` draws) stays at `Float` — it uses `si->distance`, not the
objective.  `costs[]` is maintained by the C++ but never read by this routine: not modelled.

`start` selects where the loop over whole segments begins:
* `.afterPos0` — the tree: `posTemp = pos0 + 1` (when the first sample is snapped the motion
  `states[pos0] → states[pos0+1]` is left out: conservative, see `pshort_obj_never_worse_path_cost`);
* `.atPos0`    — the "obvious repair" of that omission, `posTemp = pos0` unconditionally.  It is WRONG when the first
  sample is not snapped: the partial cost `motionCost(s0, states[pos0+1])` is already in `alongPath` and the whole
  segment is added on top, so shortcuts costlier than the piece they replace are accepted
  (`pshort_along_from_pos0_accepts_worse_fails`).  The driver prints this variant next to the tree's so that the
  check can NAME it.
-/
namespace OmplModel.PathOps

variable {σ γ : Type}

structure PsEnvO (σ γ : Type) where
  cm : σ → σ → Bool
  dist : σ → σ → Float
  interp : σ → σ → Float → σ
  O : Obj σ γ

inductive AlongStart where
  | afterPos0
  | atPos0
  deriving DecidableEq, Repr

/-- `while (posTemp < pos1) alongPath = combineCosts(alongPath, motionCost(states[posTemp], states[posTemp+1]))`,
`k` iterations from `posTemp` -/
def psAlongO (O : Obj σ γ) (st : Array σ) (acc : γ) (posTemp : Nat) : Nat → Option γ
  | 0 => some acc
  | k + 1 =>
    match st[posTemp]?, st[posTemp + 1]? with
    | some a, some b => psAlongO O st (O.combine acc (O.motion a b)) (posTemp + 1) k
    | _, _ => none

/-- the routine's `alongPath` for the ORDERED pair of samples (`pos0 < pos1`; `idx = true`: snapped to `states[pos]`) -/
def psAlongPath (O : Obj σ γ) (start : AlongStart) (st : List σ) (pos0 : Nat) (idx0 : Bool) (s0 : σ)
    (pos1 : Nat) (idx1 : Bool) (s1 : σ) : Option γ :=
  let p0 : Option γ := if idx0 then some O.identity else (st[pos0 + 1]?).map fun x => O.motion s0 x
  let p1 : Option γ := if idx1 then some O.identity else (st[pos1]?).map fun x => O.motion x s1
  match p0, p1 with
  | some c0, some c1 =>
    let from_ := match start with | .afterPos0 => pos0 + 1 | .atPos0 => pos0
    (psAlongO O st.toArray c0 from_ (pos1 - from_)).map fun along => O.combine along c1
  | _, _ => none

/-- the interpolated / snapped state of one sampled point -/
def psPoint (E : PsEnvO σ γ) (st : List σ) (ds : Array Float) (pos : Nat) (idx : Bool) (distTo : Float) : Option σ :=
  if idx then st[pos]? else
    match st[pos]?, st[pos + 1]?, ds[pos]?, ds[pos + 1]? with
    | some a, some b, some da, some db => some (E.interp a b ((distTo - da) / (db - da)))
    | _, _, _, _ => none

def psLoopObj (E : PsEnvO σ γ) (start : AlongStart) (u : Nat → Float) (rangeRatio snap : Float) (maxEmpty : Nat) :
    (fuel i nochange : Nat) → List σ → Bool → Option (List σ × Bool)
  | 0, _, _, st, res => some (st, res)
  | fuel + 1, i, nochange, st, res =>
    if nochange < maxEmpty then
      let ds := (cumDistsFrom E.dist 0.0 st).toArray
      let back := ds[ds.size - 1]!
      let threshold := back * snap
      let rd := rangeRatio * back
      let distTo0 := (back - 0.0) * u (2 * i) + 0.0
      let (pos0, idx0) := psSelectG true ds distTo0 threshold
      let lo1 := fmax 0.0 (distTo0 - rd)
      let hi1 := fmin (distTo0 + rd) back
      let distTo1 := (hi1 - lo1) * u (2 * i + 1) + lo1
      let (pos1, idx1) := psSelectG true ds distTo1 threshold
      if psSkip pos0 idx0 pos1 idx1 then psLoopObj E start u rangeRatio snap maxEmpty fuel (i + 1) (nochange + 1) st res
      else
        match psPoint E st ds pos0 idx0 distTo0, psPoint E st ds pos1 idx1 distTo1 with
        | some s0, some s1 =>
          -- ordering step first, then `checkMotion` in path order (fix F170)
          let (pos0, idx0, s0, pos1, idx1, s1) :=
            if pos0 > pos1 then (pos1, idx1, s1, pos0, idx0, s0) else (pos0, idx0, s0, pos1, idx1, s1)
          if E.cm s0 s1 then
            match psAlongPath E.O start st pos0 idx0 s0 pos1 idx1 s1 with
            | some along =>
              if E.O.better along (E.O.motion s0 s1) then
                psLoopObj E start u rangeRatio snap maxEmpty fuel (i + 1) (nochange + 1) st res
              else
                match psSplice st pos0 idx0 s0 pos1 idx1 s1 with
                | some st' => psLoopObj E start u rangeRatio snap maxEmpty fuel (i + 1) 1 st' true
                | none => none
            | none => none
          else psLoopObj E start u rangeRatio snap maxEmpty fuel (i + 1) (nochange + 1) st res
        | _, _ => none
    else some (st, res)

/-- `PathSimplifier::partialShortcutPath(path, maxSteps, maxEmptySteps, rangeRatio, snapToVertex)` of a simplifier
constructed with the objective `E.O` -/
def partialShortcutPathObj (E : PsEnvO σ γ) (start : AlongStart) (u : Nat → Float) (maxSteps maxEmpty : Nat)
    (rangeRatio snap : Float) (path : List σ) : Option (List σ × Bool) :=
  if path.length < 3 then some (path, false)
  else
    let maxSteps := if maxSteps = 0 then path.length else maxSteps
    let maxEmpty := if maxEmpty = 0 then path.length else maxEmpty
    psLoopObj E start u rangeRatio snap maxEmpty maxSteps 0 0 path false

/-- the path-length objective at `double` (`PathLengthOptimizationObjective`: cost = distance, `+`, `<`) -/
def lenObjF (dist : σ → σ → Float) : Obj σ Float :=
  { identity := 0.0, combine := fun a b => a + b, motion := dist, better := fun a b => a < b }

/-- `PsEnv` (default objective) as a `PsEnvO` -/
def PsEnv.toO (E : PsEnv σ) : PsEnvO σ Float :=
  { cm := E.cm, dist := E.dist, interp := E.interp, O := lenObjF E.dist }

end OmplModel.PathOps
