import OmplModel.Model.Copy
/-!
The part of `PlannerData` that addresses vertices **by state** (`stateIndexMap_`), and `GraphStateStorage`
(`StateStorageWithMetadata<std::vector<std::size_t>>`) with `PlannerData::extractStateStorage`.

Core Lean only.  Mirrors /repo/src/ompl/base/src/PlannerData.cpp (`vertexIndex`, `addVertex`, `addStartVertex`,
`addGoalVertex`, `addEdge(v1, v2, …)`, `removeVertex(const PlannerDataVertex&)`, `removeVertex(unsigned)` (the shifting of
`stateIndexMap_`), `removeEdge(v1, v2)`, `tagState`, `markStartState`, `markGoalState`, `clear`, `decoupleFromPlanner`,
`extractStateStorage`) and /repo/src/ompl/base/StateStorage.h (`StateStorageWithMetadata::addState/clear/loadMetadata/
storeMetadata`) + StateStorage.cpp (`load`, `loadStates`).

Abstractions
* a state *object* is identified by a number (the harness' state id); `keys[i] = some sid` says that vertex `i` points to the
  caller's state object `sid` (the graph is *coupled*: it shows whatever that object holds now), `keys[i] = none` that it
  owns a clone made by `decoupleFromPlanner` (nobody outside can name that pointer);
* `stateIndexMap_` (a `std::map` from pointer to index) is the position of `some sid` in `keys`; its iteration order (pointer
  order) is an arbitrary permutation `order` of the vertex indices, an explicit argument of `extractStorage`;
* the control twins `control::PlannerData::removeVertex/removeEdge/clear/decoupleFromPlanner` add bookkeeping of cloned
  controls (who frees what) and then call the functions modelled here; a control is a byte image inside `ERec`.
-/
namespace OmplModel.Copy

structure KGraph where
  g : Graph := {}
  keys : List (Option Nat) := []
deriving Repr

/-- `stateIndexMap_.find(state)`: index of the vertex that points to state object `sid` -/
def findKey (sid : Nat) : List (Option Nat) → Nat → Option Nat
  | [], _ => none
  | k :: ks, i => if k = some sid then some i else findKey sid ks (i + 1)

/-- `vertexIndex(v)` (`none` = `INVALID_INDEX`) -/
def KGraph.vertexIndex (kg : KGraph) (sid : Nat) : Option Nat := findKey sid kg.keys 0

/-- `addVertex(const PlannerDataVertex&)`: a state object that is already a vertex is **not** added again (and its tag is
not touched); otherwise the clone is appended and `stateIndexMap_[state] = numVertices() - 1`. -/
def KGraph.addVertex (kg : KGraph) (sid : Nat) (v : Vertex) : KGraph × Nat :=
  match kg.vertexIndex sid with
  | some i => (kg, i)
  | none => ({ g := kg.g.addVertex v, keys := kg.keys ++ [some sid] }, kg.g.verts.length)

/-- `markStartState(const State*)` -/
def KGraph.markStart (kg : KGraph) (sid : Nat) : KGraph × Bool :=
  match kg.vertexIndex sid with
  | some i => ({ kg with g := kg.g.markStart i }, true)
  | none => (kg, false)

/-- `markGoalState(const State*)` -/
def KGraph.markGoal (kg : KGraph) (sid : Nat) : KGraph × Bool :=
  match kg.vertexIndex sid with
  | some i => ({ kg with g := kg.g.markGoal i }, true)
  | none => (kg, false)

/-- `addStartVertex(v)`: `addVertex`, then `markStartState(v.getState())` -/
def KGraph.addStartVertex (kg : KGraph) (sid : Nat) (v : Vertex) : KGraph × Nat :=
  let r := kg.addVertex sid v
  ((r.1.markStart sid).1, r.2)

/-- `addGoalVertex(v)` -/
def KGraph.addGoalVertex (kg : KGraph) (sid : Nat) (v : Vertex) : KGraph × Nat :=
  let r := kg.addVertex sid v
  ((r.1.markGoal sid).1, r.2)

/-- `tagState(const State*, int)` -/
def KGraph.tagState (kg : KGraph) (sid : Nat) (t : Int) : KGraph × Bool :=
  match kg.vertexIndex sid with
  | some i => ({ kg with g := kg.g.setTag i t }, true)
  | none => (kg, false)

/-- `addEdge(const PlannerDataVertex &v1, const PlannerDataVertex &v2, edge, weight)`: both vertices are added first (in this
order; also when the edge is then refused), then `addEdge(index1, index2, …)`. -/
def KGraph.addEdgeV (kg : KGraph) (sid1 : Nat) (v1 : Vertex) (sid2 : Nat) (v2 : Vertex) (w : Nat)
    (ctrl : Option (Nat × List Nat)) : KGraph × Bool :=
  let r1 := kg.addVertex sid1 v1
  let r2 := r1.1.addVertex sid2 v2
  let r := r2.1.g.addEdge { src := r1.2, dst := r2.2, weight := w, ctrl := ctrl }
  ({ r2.1 with g := r.1 }, r.2)

/-- `addEdge(unsigned, unsigned, edge, weight)` -/
def KGraph.addEdgeI (kg : KGraph) (e : ERec) : KGraph × Bool :=
  let r := kg.g.addEdge e
  ({ kg with g := r.1 }, r.2)

/-- `removeVertex(unsigned)`: the key of the vertex is erased, the indices of all later keys drop by one -/
def KGraph.removeVertexI (kg : KGraph) (i : Nat) : KGraph × Bool :=
  let r := kg.g.removeVertex i
  ({ g := r.1, keys := if r.2 then kg.keys.eraseIdx i else kg.keys }, r.2)

/-- `removeVertex(const PlannerDataVertex&)` -/
def KGraph.removeVertexV (kg : KGraph) (sid : Nat) : KGraph × Bool :=
  match kg.vertexIndex sid with
  | some i => kg.removeVertexI i
  | none => (kg, false)

/-- `removeEdge(unsigned, unsigned)` (the caller keeps both indices in range) -/
def KGraph.removeEdgeI (kg : KGraph) (a b : Nat) : KGraph × Bool :=
  let r := kg.g.removeEdge a b
  ({ kg with g := r.1 }, r.2)

/-- `removeEdge(const PlannerDataVertex&, const PlannerDataVertex&)` -/
def KGraph.removeEdgeV (kg : KGraph) (sid1 sid2 : Nat) : KGraph × Bool :=
  match kg.vertexIndex sid1, kg.vertexIndex sid2 with
  | some a, some b => kg.removeEdgeI a b
  | _, _ => (kg, false)

/-- `clear()` (since fix 727cf88f7 also `stateIndexMap_` and both index lists) -/
def KGraph.clear (_ : KGraph) : KGraph := {}

/-- `decoupleFromPlanner()`: every vertex whose state is not yet a clone gets one; the map is re-keyed to the clones -/
def KGraph.decouple (kg : KGraph) : KGraph := { kg with keys := kg.keys.map (fun _ => none) }

/-- what the vertices show when the caller's state objects hold `tbl`: a coupled vertex follows its object, a decoupled
one keeps the image it was cloned with -/
def refreshVerts (tbl : Nat → Option (List Nat)) : List Vertex → List (Option Nat) → List Vertex
  | v :: vs, some sid :: ks =>
    (match tbl sid with
     | some img => { v with img := img }
     | none => v) :: refreshVerts tbl vs ks
  | v :: vs, none :: ks => v :: refreshVerts tbl vs ks
  | vs, [] => vs
  | [], _ :: _ => []

def KGraph.refresh (kg : KGraph) (tbl : Nat → Option (List Nat)) : KGraph :=
  { kg with g := { kg.g with verts := refreshVerts tbl kg.g.verts kg.keys } }

/-- a graph produced by `PlannerDataStorage::load` (`loadVertices` ends with `decoupleFromPlanner`) -/
def KGraph.ofLoaded (g : Graph) : KGraph := { g := g, keys := g.verts.map (fun _ => none) }

/-! ### GraphStateStorage -/

/-- `StateStorageWithMetadata<std::vector<std::size_t>>`: `states_` (byte images) and `metadata_` -/
structure MStore where
  states : List (List Nat) := []
  md : List (List Nat) := []
deriving DecidableEq, Repr

/-- `addState(state, metadata)` -/
def MStore.addState (s : MStore) (img : List Nat) (m : List Nat := []) : MStore :=
  { states := s.states ++ [img], md := s.md ++ [m] }

/-- `getEdges(v, edgeList)`: targets of the out-edges in insertion order -/
def outNbrs (g : Graph) (v : Nat) : List Nat := (g.edges.filter (fun e => e.src == v)).map (fun e => e.dst)

/-- `indexMap[x]` of `extractStateStorage`: position of vertex `x` in the iteration order of `stateIndexMap_`
(`std::map::operator[]` of an absent key yields 0; every vertex is a key) -/
def posIn : List Nat → Nat → Nat → Nat
  | [], _, _ => 0
  | o :: os, x, i => if o = x then i else posIn os x (i + 1)

/-- `PlannerData::extractStateStorage()`: the states in the order `order` in which `stateIndexMap_` enumerates the
vertices, each with its out-neighbours renumbered to storage indices -/
def extractStorage (g : Graph) (order : List Nat) : MStore :=
  { states := order.map (fun v => match g.verts[v]? with
      | some x => x.img
      | none => [])
    md := order.map (fun v => (outNbrs g v).map (fun x => posIn order x 0)) }

/-- reading a `GraphStateStorage` back as a graph over the vertex numbering: the neighbours of storage entry `j`,
as vertex indices -/
def MStore.nbrsOf (s : MStore) (order : List Nat) (j : Nat) : List Nat :=
  match s.md[j]? with
  | some m => m.filterMap (fun k => order[k]?)
  | none => []

/-- records of a `GraphStateStorage` archive: those of `StateStorage`, then the metadata block -/
inductive MRec where
  | base (r : Rec)
  | mdata (md : List (List Nat))
deriving DecidableEq, Repr

/-- `store`: header, `storeStates`, `storeMetadata` (`oa << metadata_`) -/
def storeStatesM (sig : List Int) (s : MStore) : List MRec :=
  (storeStates sig s.states).map .base ++ [.mdata s.md]

/-- `loadStates`: every completely read state is added through the virtual `addState(state)`, i.e. with a default
metadata entry `M()`; when the stream ends the states read so far stay.  Returns the object, the error and the rest. -/
def readStatesM : Nat → List MRec → MStore → MStore × Option LoadErr × List MRec
  | 0, rs, st => (st, none, rs)
  | _ + 1, [], st => (st, some .truncated, [])
  | n + 1, .base (.state img) :: rest, st => readStatesM n rest (st.addState img)
  | _ + 1, _ :: _, st => (st, some .malformed, [])

/-- `loadMetadata`: `reads` says what `ia >> stored` yields -/
def loadMetadataM (st : MStore) : List MRec → MStore × Option LoadErr
  | .mdata md :: _ => ({ st with md := md }, none)      -- `metadata_.swap(stored)` after the complete read
  | [] => (st, some .truncated)                        -- archive_exception before the swap: the defaults stay
  | _ :: _ => (st, some .malformed)

/-- `StateStorage::load` on a `GraphStateStorage`: the object afterwards and the error that was logged (`none` = clean) -/
def loadStatesM (sig : List Int) : List MRec → MStore × Option LoadErr
  | [] => ({}, some .truncated)
  | .base (.header h) :: rest =>
    if h.marker ≠ markerStates then ({}, some .marker)
    else if h.signature ≠ sig then ({}, some .signature)
    else
      match readStatesM h.vcount rest {} with
      | (st, some e, _) => (st, some e)
      | (st, none, rest') => loadMetadataM st rest'
  | _ :: _ => ({}, some .malformed)

/-- `loadMetadata` before fix 2eed54bf6 (F108): `metadata_.clear(); ia >> metadata_;` — kept for the witness -/
def loadMetadataMOld (st : MStore) : List MRec → MStore × Option LoadErr
  | .mdata md :: _ => ({ st with md := md }, none)
  | [] => ({ st with md := [] }, some .truncated)
  | _ :: _ => ({ st with md := [] }, some .malformed)

def loadStatesMOld (sig : List Int) : List MRec → MStore × Option LoadErr
  | [] => ({}, some .truncated)
  | .base (.header h) :: rest =>
    if h.marker ≠ markerStates then ({}, some .marker)
    else if h.signature ≠ sig then ({}, some .signature)
    else
      match readStatesM h.vcount rest {} with
      | (st, some e, _) => (st, some e)
      | (st, none, rest') => loadMetadataMOld st rest'
  | _ :: _ => ({}, some .malformed)

end OmplModel.Copy
