import OmplModel.Model.Space
/-
C08 model: `enforceBounds` / `satisfiesBounds` of every shipped state space, the default state
samplers as pure functions of their raw RNG draws, and the six valid-state samplers as bounded
loops over an oracle.  Generic over `[Num α]`, core Lean only (linked into `drv_spacebounds`).

Each clause is copied from the anchored C++ in the same operation order and with the same
comparison operators:
  * RealVectorStateSpace.cpp  enforceBounds (`> high` first, `else < low`), satisfiesBounds
                              (`v - eps > high || v + eps < low`), sampleUniform / sampleUniformNear
                              (`[max(lo,c-d), min(hi,c+d)]`) / sampleGaussian (`< low` first, `else > high`)
  * SO2StateSpace.cpp         enforceBounds (`fmod(v, 2.0*pi)`, `v < -pi`, `else v >= pi`), satisfiesBounds
                              (`v < pi && v >= -pi`), samplers (draw, then enforceBounds)
  * SO3StateSpace.cpp         enforceBounds (first-order branch `|1-n²| < 2.107342e-08`, `n² < 1e-6` -> identity,
                              else `1/sqrt(n²)`), norm, satisfiesBounds, computeAxisAngle, quaternionProduct,
                              sampleUniformNear / sampleGaussian
  * TimeStateSpace.cpp, DiscreteStateSpace.cpp
  * StateSpace.cpp / StateSampler.cpp  CompoundStateSpace::{enforceBounds, satisfiesBounds,
                              allocDefaultStateSampler}, CompoundStateSampler (weight-scaled distance, the
                              `weightImportance_ > eps` test of sampleUniformNear, none in sampleGaussian)
  * special/{Torus,KleinBottle,Sphere}StateSpace.cpp samplers (Mobius uses the compound default)
  * WrapperStateSpace.{h,cpp}
  * util/RandomNumbers.{h,cpp} uniformReal `(b-a)*u + a`, uniformInt, gaussian `g*sd + mean`, quaternion
  * samplers/{Uniform,Gaussian,ObstacleBased,BridgeTest,MaximizeClearance,MinimumClearance}ValidStateSampler.cpp
    and DiscreteMotionValidator::checkMotion(s1, s2, lastValid) (used by ObstacleBased)
  * base/src/SpaceInformation.cpp searchValidNearby (both overloads)
  * spaces/constraint/src/ProjectedStateSpace.cpp ProjectedStateSampler, AtlasStateSpace.cpp AtlasStateSampler: the order
    "project, then enforceBounds" (`projectedSample`; the projection itself is a parameter)

Abstractions:
  * the RNG is a parameter: `Rng.u k` is the k-th `uniform01()` result, `Rng.g k` the k-th `gaussian01()`
    result (OMPL gives every sampler object its own generator; the model draws all of them from one
    pair of streams in call order — the theorems quantify over all streams, so this loses nothing).
  * `pow(d, 1/3)` in SO3StateSampler::sampleUniformNear is taken as the raw draw (cube root of a
    number in [0,1) is in [0,1)); the rejection loops of the Torus/KleinBottle uniform samplers are
    abstracted to their accepted pair of draws.
  * `int` of DiscreteStateSpace is `Int` (no overflow modelled; `(int)floor(x)` is `Num.toInt (Num.floor x)`).
  * states are read through total accessors (`St.vals`, `St.ang`, …): on an ill-typed (space, state) pair the
    functions act on default values; the driver only evaluates well-typed pairs (`Space.wellTyped`).
  * valid-state samplers: the inner `StateSampler` and the `StateValidityChecker` are the oracle
    (`Orc.samp k c` = state produced by the k-th sampler call when it is the call `c` — method, near/mean state,
    distance/sigma —, `Orc.ans k` = (validity, clearance) returned by the k-th `isValid` call); `interpolate` and
    `validSegmentCount` are parameters.  No arithmetic on states.  SpaceInformation::searchValidNearby (both
    overloads) on top of them, with `satisfiesBounds` / `enforceBounds` as parameters.
-/
namespace OmplModel.SpaceBounds
open OmplModel

/-! ### total accessors -/
namespace St
variable {α : Type} [Num α]
def vals : OmplModel.St α → List α | .rv xs => xs | _ => []
def ang : OmplModel.St α → α | .so2 v => v | _ => Num.ofNat 0
def qx : OmplModel.St α → α | .so3 x _ _ _ => x | _ => Num.ofNat 0
def qy : OmplModel.St α → α | .so3 _ y _ _ => y | _ => Num.ofNat 0
def qz : OmplModel.St α → α | .so3 _ _ z _ => z | _ => Num.ofNat 0
def qw : OmplModel.St α → α | .so3 _ _ _ w => w | _ => Num.ofNat 1
def tm : OmplModel.St α → α | .time t => t | _ => Num.ofNat 0
def dv : OmplModel.St α → Int | .disc v => v | _ => 0
def hd : OmplModel.St α → OmplModel.St α | .ccons h _ => h | _ => .cnil
def tl : OmplModel.St α → OmplModel.St α | .ccons _ t => t | _ => .cnil
end St

variable {α : Type} [Num α]

/-- `std::numeric_limits<double>::epsilon()` = 2⁻⁵² (exact in `Float` and in `ℝ`) -/
def eps : α := Num.ofNat 1 / Num.ofNat 4503599627370496
/-- `MAX_QUATERNION_NORM_ERROR = 1e-9` -/
def qErr : α := Num.ofDec 1 9
/-- `const double epsilon = 2.107342e-08` of SO3StateSpace::enforceBounds -/
def so3Eps : α := Num.ofDec 2107342 14
/-- `nrmsq < 1e-6` of SO3StateSpace::enforceBounds -/
def so3Tiny : α := Num.ofDec 1 6
/-- `2.0 * pi` -/
def twoPi : α := Num.ofNat 2 * Num.pi

/-! ### bound enforcement, leaf by leaf -/

/-- `if (v > high) v = high; else if (v < low) v = low;` (RealVector, Time enforceBounds) -/
def clampHL (lo hi v : α) : α := if hi < v then hi else if v < lo then lo else v

/-- `if (v < low) v = low; else if (v > high) v = high;` (RealVectorStateSampler::sampleGaussian) -/
def clampLH (lo hi v : α) : α := if v < lo then lo else if hi < v then hi else v

def rvEnforce : List α → List α → List α → List α
  | l :: lo, h :: hi, x :: xs => clampHL l h x :: rvEnforce lo hi xs
  | _, _, xs => xs

/-- `if (v - eps > high || v + eps < low) return false;` -/
def rvSat1 (l h x : α) : Bool := !(decide (h < x - eps) || decide (x + eps < l))

def rvSat : List α → List α → List α → Bool
  | l :: lo, h :: hi, x :: xs => rvSat1 l h x && rvSat lo hi xs
  | _, _, _ => true

/-- SO2StateSpace::enforceBounds -/
def so2Enforce (x : α) : α :=
  let v := Num.fmod x twoPi
  if v < -Num.pi then v + twoPi
  else if Num.pi ≤ v then v - twoPi
  else v

/-- SO2StateSpace::satisfiesBounds: `(v < pi) && (v >= -pi)` -/
def so2Sat (v : α) : Bool := decide (v < Num.pi) && decide (-Num.pi ≤ v)

def nrmSq (x y z w : α) : α := x * x + y * y + z * z + w * w

/-- SO3StateSpace::enforceBounds -/
def so3Enforce (x y z w : α) : OmplModel.St α :=
  let n := nrmSq x y z w
  let err := Num.abs (Num.ofNat 1 - n)
  if err < so3Eps then
    let s := Num.ofNat 2 / (Num.ofNat 1 + n)
    .so3 (x * s) (y * s) (z * s) (w * s)
  else if n < so3Tiny then
    .so3 (Num.ofNat 0) (Num.ofNat 0) (Num.ofNat 0) (Num.ofNat 1)
  else
    let s := Num.ofNat 1 / Num.sqrt n
    .so3 (x * s) (y * s) (z * s) (w * s)

/-- SO3StateSpace::norm: `(fabs(nrmSqr - 1.0) > eps) ? sqrt(nrmSqr) : 1.0` -/
def so3Norm (x y z w : α) : α :=
  let n := nrmSq x y z w
  if eps < Num.abs (n - Num.ofNat 1) then Num.sqrt n else Num.ofNat 1

/-- SO3StateSpace::satisfiesBounds -/
def so3Sat (x y z w : α) : Bool := decide (Num.abs (so3Norm x y z w - Num.ofNat 1) < qErr)

/-- TimeStateSpace::satisfiesBounds (bounded case): `pos >= min - eps && pos <= max + eps` -/
def timeSat (lo hi t : α) : Bool := decide (lo - eps ≤ t) && decide (t ≤ hi + eps)

/-- DiscreteStateSpace::enforceBounds: `if (v < lower) v = lower; else if (v > upper) v = upper;` -/
def discEnforce (lo hi v : Int) : Int := if v < lo then lo else if hi < v then hi else v

def discSat (lo hi v : Int) : Bool := decide (lo ≤ v) && decide (v ≤ hi)

/-! leaf helpers on states (used for the leaf spaces and for the special spaces' components) -/
def enfRv (lo hi : List α) (s : OmplModel.St α) : OmplModel.St α := .rv (rvEnforce lo hi (St.vals s))
def enfSo2 (s : OmplModel.St α) : OmplModel.St α := .so2 (so2Enforce (St.ang s))
def pair (a b : OmplModel.St α) : OmplModel.St α := .ccons a (.ccons b .cnil)

/-- `StateSpace::enforceBounds` -/
def enforceBounds : Space α → OmplModel.St α → OmplModel.St α
  | .rv lo hi, s => enfRv lo hi s
  | .so2, s => enfSo2 s
  | .so3, s => so3Enforce (St.qx s) (St.qy s) (St.qz s) (St.qw s)
  | .time b lo hi, s => .time (if b then clampHL lo hi (St.tm s) else St.tm s)
  | .disc lo hi, s => .disc (discEnforce lo hi (St.dv s))
  | .cnil, _ => .cnil
  | .ccons _ h t, s => .ccons (enforceBounds h (St.hd s)) (enforceBounds t (St.tl s))
  | .torus _ _, s => pair (enfSo2 (St.hd s)) (enfSo2 (St.hd (St.tl s)))
  | .mobius imax _, s => pair (enfSo2 (St.hd s)) (enfRv [-imax] [imax] (St.hd (St.tl s)))
  | .klein, s => pair (enfRv [Num.ofNat 0] [Num.pi] (St.hd s)) (enfSo2 (St.hd (St.tl s)))
  | .sphere _, s => pair (enfSo2 (St.hd s)) (enfRv [Num.ofNat 0] [Num.pi] (St.hd (St.tl s)))
  | .wrap sp, s => enforceBounds sp s

/-- `StateSpace::satisfiesBounds` -/
def satisfiesBounds : Space α → OmplModel.St α → Bool
  | .rv lo hi, s => rvSat lo hi (St.vals s)
  | .so2, s => so2Sat (St.ang s)
  | .so3, s => so3Sat (St.qx s) (St.qy s) (St.qz s) (St.qw s)
  | .time b lo hi, s => !b || timeSat lo hi (St.tm s)
  | .disc lo hi, s => discSat lo hi (St.dv s)
  | .cnil, _ => true
  | .ccons _ h t, s => satisfiesBounds h (St.hd s) && satisfiesBounds t (St.tl s)
  | .torus _ _, s => so2Sat (St.ang (St.hd s)) && so2Sat (St.ang (St.hd (St.tl s)))
  | .mobius imax _, s => so2Sat (St.ang (St.hd s)) && rvSat [-imax] [imax] (St.vals (St.hd (St.tl s)))
  | .klein, s => rvSat [Num.ofNat 0] [Num.pi] (St.vals (St.hd s)) && so2Sat (St.ang (St.hd (St.tl s)))
  | .sphere _, s => so2Sat (St.ang (St.hd s)) && rvSat [Num.ofNat 0] [Num.pi] (St.vals (St.hd (St.tl s)))
  | .wrap sp, s => satisfiesBounds sp s

/-! ### samplers of the constrained spaces (spaces/constraint/src/ProjectedStateSpace.cpp, AtlasStateSpace.cpp)

`ProjectedStateSampler::sampleUniform / sampleUniformNear / sampleGaussian`:
`WrapperStateSampler::sample*(state); constraint_->project(state); space_->enforceBounds(state);` — and
`AtlasStateSampler` (AtlasStateSpace, TangentBundleStateSpace) ends every method with `space_->enforceBounds(state)` after
the chart projection `psi`.  The projection (Newton iterations on the user's constraint) is NOT modelled: it is an arbitrary
function, a recorded answer in the lock-step.  What is modelled is the ORDER: the clamp has the last word. -/

/-- as coded: project, then `enforceBounds` (of the constrained space = of the ambient space) -/
def projectedSample (sp : Space α) (project : OmplModel.St α → OmplModel.St α) (ambient : OmplModel.St α) :
    OmplModel.St α := enforceBounds sp (project ambient)

/-- seeded change s6 (not the code): clamp first, project last (kept for the witness
`projected_sampler_clamp_first_fails`) -/
def projectedSampleClampFirst (sp : Space α) (project : OmplModel.St α → OmplModel.St α) (ambient : OmplModel.St α) :
    OmplModel.St α := project (enforceBounds sp ambient)

/-! ### the RNG as a parameter -/

/-- raw draws: `u k` is the k-th `uniform01()` result (documented range `[0,1)`), `g k` the k-th
`gaussian01()` result (any finite number) -/
structure Rng (α : Type) where
  u : Nat → α
  g : Nat → α

/-- how many draws of each kind have been consumed -/
structure Pos where
  ui : Nat := 0
  gi : Nat := 0
deriving Repr, BEq, DecidableEq

/-- `RNG::uniformReal(a, b)`: `(b - a) * uniform01() + a` -/
def uniformReal (a b u : α) : α := (b - a) * u + a

/-- `RNG::gaussian(mean, stddev)`: `gaussian01() * stddev + mean` -/
def gaussian (mean sd g : α) : α := g * sd + mean

/-- `RNG::uniformInt(lo, hi)` as fixed by ebb35683a (finding F165):
`const double r = floor(uniformReal(lo, hi + 1.0)); return (r > (double)hi) ? hi : (int)r;` — the clamp is taken in
`double`, BEFORE the cast.  (Before the fix the cast came first: `(int)floor(2147483648.0)` is undefined for
`hi = INT_MAX`.  With the model's unbounded `Int` both forms give the same value; the order is kept as coded.) -/
def uniformInt (lo hi : Int) (u : α) : Int :=
  let r := Num.floor (uniformReal (Num.ofInt lo) (Num.ofInt hi + Num.ofNat 1) u)
  if Num.ofInt hi < r then hi else Num.toInt r

/-- seeded change s4 (not the code): `uniformInt` without its final clamp, kept for the witness
`uniformInt_without_clamp_exceeds` and for the driver's executed witness at `Float` -/
def uniformIntNoClamp (lo hi : Int) (u : α) : Int :=
  Num.toInt (Num.floor (uniformReal (Num.ofInt lo) (Num.ofInt hi + Num.ofNat 1) u))

/-! ### R^n samplers -/
def rvUniform (R : Rng α) : List α → List α → Nat → List α
  | l :: lo, h :: hi, k => uniformReal l h (R.u k) :: rvUniform R lo hi (k + 1)
  | _, _, _ => []

def rvNear (R : Rng α) (d : α) : List α → List α → List α → Nat → List α
  | l :: lo, h :: hi, c :: cs, k =>
    uniformReal (Num.max l (c - d)) (Num.min h (c + d)) (R.u k) :: rvNear R d lo hi cs (k + 1)
  | _, _, _, _ => []

def rvGauss (R : Rng α) (sd : α) : List α → List α → List α → Nat → List α
  | l :: lo, h :: hi, c :: cs, k =>
    clampLH l h (gaussian c sd (R.g k)) :: rvGauss R sd lo hi cs (k + 1)
  | _, _, _, _ => []

/-! ### SO(3) helpers -/

/-- `RNG::quaternion` from its three `uniform01()` draws -/
def rngQuaternion (x0 u1 u2 : α) : OmplModel.St α :=
  let r1 := Num.sqrt (Num.ofNat 1 - x0)
  let r2 := Num.sqrt x0
  let t1 := Num.ofNat 2 * Num.pi * u1
  let t2 := Num.ofNat 2 * Num.pi * u2
  let c1 := Num.cos t1
  let s1 := Num.sin t1
  let c2 := Num.cos t2
  let s2 := Num.sin t2
  .so3 (s1 * r1) (c1 * r1) (s2 * r2) (c2 * r2)

/-- `computeAxisAngle(q, ax, ay, az, angle)` -/
def axisAngle (ax ay az angle : α) : OmplModel.St α :=
  let norm := Num.sqrt (ax * ax + ay * ay + az * az)
  if norm < qErr then .so3 (Num.ofNat 0) (Num.ofNat 0) (Num.ofNat 0) (Num.ofNat 1)
  else
    let half := angle / Num.ofNat 2
    let s := Num.sin half / norm
    .so3 (s * ax) (s * ay) (s * az) (Num.cos half)

/-- `quaternionProduct(q, q0, q1)`: `q = q0 * q1` -/
def quatMul (a b : OmplModel.St α) : OmplModel.St α :=
  let (x0, y0, z0, w0) := (St.qx a, St.qy a, St.qz a, St.qw a)
  let (x1, y1, z1, w1) := (St.qx b, St.qy b, St.qz b, St.qw b)
  .so3 (w0 * x1 + x0 * w1 + y0 * z1 - z0 * y1)
       (w0 * y1 + y0 * w1 + z0 * x1 - x0 * z1)
       (w0 * z1 + z0 * w1 + x0 * y1 - y0 * x1)
       (w0 * w1 - x0 * x1 - y0 * y1 - z0 * z1)

/-- `quaternionProduct(q, q0, q1)` when `q` ALIASES `q0` (SO3StateSampler::sampleUniformNear / sampleGaussian called with
`state == near`): the four assignments run in order and each later one reads the components already overwritten
(finding F77; kept for the witness `so3_sampler_aliased_not_unit`) -/
def quatMulAliased (a b : OmplModel.St α) : OmplModel.St α :=
  let (x0, y0, z0, w0) := (St.qx a, St.qy a, St.qz a, St.qw a)
  let (x1, y1, z1, w1) := (St.qx b, St.qy b, St.qz b, St.qw b)
  let x := w0 * x1 + x0 * w1 + y0 * z1 - z0 * y1        -- q.x (= q0.x from now on)
  let y := w0 * y1 + y0 * w1 + z0 * x1 - x * z1         -- reads the new q0.x
  let z := w0 * z1 + z0 * w1 + x * y1 - y * x1          -- reads the new q0.x, q0.y
  let w := w0 * w1 - x * x1 - y * y1 - z * z1           -- reads the new q0.x, q0.y, q0.z
  .so3 x y z w

def so3Uniform (R : Rng α) (p : Pos) : OmplModel.St α × Pos :=
  (rngQuaternion (R.u p.ui) (R.u (p.ui + 1)) (R.u (p.ui + 2)), { p with ui := p.ui + 3 })

/-- SO3StateSampler::sampleUniformNear; `R.u p.ui` stands for `pow(uniform01(), 1/3)` -/
def so3Near (R : Rng α) (near : OmplModel.St α) (d : α) (p : Pos) : OmplModel.St α × Pos :=
  if Num.ofDec 25 2 * Num.pi ≤ d then so3Uniform R p
  else
    let c := R.u p.ui
    -- `computeAxisAngle(q, gaussian01(), gaussian01(), gaussian01(), …)`: the order in which the three argument
    -- expressions are evaluated is unspecified in C++; g++ evaluates them right to left (seen in the raw-draw
    -- lock-step), so `ax` is the THIRD draw.  Irrelevant for the bounds theorems (they hold for all draws).
    let q := axisAngle (R.g (p.gi + 2)) (R.g (p.gi + 1)) (R.g p.gi) (Num.ofNat 2 * c * d)
    (quatMul near q, { ui := p.ui + 1, gi := p.gi + 3 })

/-- `root_three` -/
def rootThree : α := Num.sqrt (Num.ofNat 3)

/-- SO3StateSampler::sampleGaussian -/
def so3Gauss (R : Rng α) (mean : OmplModel.St α) (sd : α) (p : Pos) : OmplModel.St α × Pos :=
  let rotDev := (Num.ofNat 2 * sd) / rootThree
  if Num.ofDec 117 2 < rotDev then so3Uniform R p
  else
    let x := gaussian (Num.ofNat 0) rotDev (R.g p.gi)
    let y := gaussian (Num.ofNat 0) rotDev (R.g (p.gi + 1))
    let z := gaussian (Num.ofNat 0) rotDev (R.g (p.gi + 2))
    let theta := Num.sqrt (x * x + y * y + z * z)
    let p' : Pos := { p with gi := p.gi + 3 }
    if theta < eps then (.so3 (St.qx mean) (St.qy mean) (St.qz mean) (St.qw mean), p')
    else
      let half := theta / Num.ofNat 2
      let s := Num.sin half / theta
      (quatMul mean (.so3 (s * x) (s * y) (s * z) (Num.cos half)), p')

/-! ### CompoundStateSpace::allocDefaultStateSampler weights -/

/-- `weightSum_ += weight` in `addSubspace` order, starting from the accumulator -/
def weightSum : Space α → α → α
  | .ccons w _ t, acc => weightSum t (acc + w)
  | _, acc => acc

/-- `weightSum_ < eps ? 1.0 : weights_[i] / weightSum_` -/
def importance (ws w : α) : α := if ws < eps then Num.ofNat 1 else w / ws

/-! ### default samplers of every space.
`ctx = none`: the space is sampled in its own right; `ctx = some ws`: it is the remaining component list
of a compound whose weight sum is `ws`. -/

/-- `sampleUniform` -/
def sampleUniform (R : Rng α) : Space α → Pos → OmplModel.St α × Pos
  | .rv lo hi, p => (.rv (rvUniform R lo hi p.ui), { p with ui := p.ui + lo.length })
  | .so2, p => (.so2 (uniformReal (-Num.pi) Num.pi (R.u p.ui)), { p with ui := p.ui + 1 })
  | .so3, p => so3Uniform R p
  | .time b lo hi, p =>
    if b then (.time (uniformReal lo hi (R.u p.ui)), { p with ui := p.ui + 1 }) else (.time (Num.ofNat 0), p)
  | .disc lo hi, p => (.disc (uniformInt lo hi (R.u p.ui)), { p with ui := p.ui + 1 })
  | .cnil, p => (.cnil, p)
  | .ccons _ h t, p =>
    let r1 := sampleUniform R h p
    let r2 := sampleUniform R t r1.2
    (.ccons r1.1 r2.1, r2.2)
  | .torus _ _, p =>   -- the accepted (u, v) of the rejection loop
    (pair (.so2 (uniformReal (-Num.pi) Num.pi (R.u p.ui))) (.so2 (uniformReal (-Num.pi) Num.pi (R.u (p.ui + 1)))),
      { p with ui := p.ui + 2 })
  | .mobius imax _, p =>
    (pair (.so2 (uniformReal (-Num.pi) Num.pi (R.u p.ui))) (.rv [uniformReal (-imax) imax (R.u (p.ui + 1))]),
      { p with ui := p.ui + 2 })
  | .klein, p =>
    (pair (.rv [uniformReal (Num.ofNat 0) Num.pi (R.u p.ui)]) (.so2 (uniformReal (-Num.pi) Num.pi (R.u (p.ui + 1)))),
      { p with ui := p.ui + 2 })
  | .sphere _, p =>
    -- theta = 2.0*pi*uniformReal(0,1) - pi;  phi = acos(1.0 - 2.0*uniformReal(0,1))
    (pair (.so2 (Num.ofNat 2 * Num.pi * uniformReal (Num.ofNat 0) (Num.ofNat 1) (R.u p.ui) - Num.pi))
          (.rv [Num.acos (Num.ofNat 1 - Num.ofNat 2 * uniformReal (Num.ofNat 0) (Num.ofNat 1) (R.u (p.ui + 1)))]),
      { p with ui := p.ui + 2 })
  | .wrap sp, p => sampleUniform R sp p

/-- SO(2)-style component of the special samplers: `uniformReal(c - d, c + d)` (enforced later) -/
def rawNear (R : Rng α) (c d : α) (k : Nat) : α := uniformReal (c - d) (c + d) (R.u k)

/-- the decision CompoundStateSampler::sampleUniformNear takes for one component:
`weightImportance_[i] > eps ? sampleUniformNear(…, distance * weightImportance_[i]) : sampleUniform(…)`
(`some d'` = near with radius `d'`, `none` = uniform) -/
def nearBranch (ws w d : α) : Option α :=
  if eps < importance ws w then some (d * importance ws w) else none

/-- `sampleUniformNear` -/
def sampleNear (R : Rng α) : Option α → Space α → OmplModel.St α → α → Pos → OmplModel.St α × Pos
  | _, .rv lo hi, c, d, p => (.rv (rvNear R d lo hi (St.vals c) p.ui), { p with ui := p.ui + lo.length })
  | _, .so2, c, d, p => (.so2 (so2Enforce (rawNear R (St.ang c) d p.ui)), { p with ui := p.ui + 1 })
  | _, .so3, c, d, p => so3Near R c d p
  | _, .time b lo hi, c, d, p =>
    let v := rawNear R (St.tm c) d p.ui
    (.time (if b then clampHL lo hi v else v), { p with ui := p.ui + 1 })
  | _, .disc lo hi, c, d, p =>
    let di := Num.toInt (Num.floor (d + Num.ofDec 5 1))
    (.disc (discEnforce lo hi (uniformInt (St.dv c - di) (St.dv c + di) (R.u p.ui))), { p with ui := p.ui + 1 })
  | _, .cnil, _, _, p => (.cnil, p)
  | ctx, .ccons w h t, c, d, p =>
    let ws := ctx.getD (weightSum (.ccons w h t) (Num.ofNat 0))
    let r1 := match nearBranch ws w d with
      | some d' => sampleNear R none h (St.hd c) d' p
      | none => sampleUniform R h p
    let r2 := sampleNear R (some ws) t (St.tl c) d r1.2
    (.ccons r1.1 r2.1, r2.2)
  | _, .torus _ _, c, d, p =>
    (pair (.so2 (so2Enforce (rawNear R (St.ang (St.hd c)) d p.ui)))
          (.so2 (so2Enforce (rawNear R (St.ang (St.hd (St.tl c))) d (p.ui + 1)))), { p with ui := p.ui + 2 })
  | _, .mobius imax _, c, d, p =>
    -- compound default sampler: weights 1, 1 -> importance 1/2 each
    let ws : α := Num.ofNat 0 + Num.ofNat 1 + Num.ofNat 1
    let imp := importance ws (Num.ofNat 1)
    if eps < imp then
      (pair (.so2 (so2Enforce (rawNear R (St.ang (St.hd c)) (d * imp) p.ui)))
            (.rv (rvNear R (d * imp) [-imax] [imax] (St.vals (St.hd (St.tl c))) (p.ui + 1))), { p with ui := p.ui + 2 })
    else
      (pair (.so2 (uniformReal (-Num.pi) Num.pi (R.u p.ui))) (.rv [uniformReal (-imax) imax (R.u (p.ui + 1))]),
        { p with ui := p.ui + 2 })
  | _, .klein, c, d, p =>
    (pair (enfRv [Num.ofNat 0] [Num.pi] (.rv [rawNear R ((St.vals (St.hd c)).headD (Num.ofNat 0)) d p.ui]))
          (.so2 (so2Enforce (rawNear R (St.ang (St.hd (St.tl c))) d (p.ui + 1)))), { p with ui := p.ui + 2 })
  | _, .sphere _, c, d, p =>
    (pair (.so2 (so2Enforce (rawNear R (St.ang (St.hd c)) d p.ui)))
          (enfRv [Num.ofNat 0] [Num.pi] (.rv [rawNear R ((St.vals (St.hd (St.tl c))).headD (Num.ofNat 0)) d (p.ui + 1)])),
      { p with ui := p.ui + 2 })
  | _, .wrap sp, c, d, p => sampleNear R none sp c d p

/-- `sampleGaussian` -/
def sampleGauss (R : Rng α) : Option α → Space α → OmplModel.St α → α → Pos → OmplModel.St α × Pos
  | _, .rv lo hi, c, sd, p => (.rv (rvGauss R sd lo hi (St.vals c) p.gi), { p with gi := p.gi + lo.length })
  | _, .so2, c, sd, p => (.so2 (so2Enforce (gaussian (St.ang c) sd (R.g p.gi))), { p with gi := p.gi + 1 })
  | _, .so3, c, sd, p => so3Gauss R c sd p
  | _, .time b lo hi, c, sd, p =>
    let v := gaussian (St.tm c) sd (R.g p.gi)
    (.time (if b then clampHL lo hi v else v), { p with gi := p.gi + 1 })
  | _, .disc lo hi, c, sd, p =>
    let v := Num.toInt (Num.floor (gaussian (Num.ofInt (St.dv c)) sd (R.g p.gi) + Num.ofDec 5 1))
    (.disc (discEnforce lo hi v), { p with gi := p.gi + 1 })
  | _, .cnil, _, _, p => (.cnil, p)
  | ctx, .ccons w h t, c, sd, p =>
    let ws := ctx.getD (weightSum (.ccons w h t) (Num.ofNat 0))
    let imp := importance ws w
    let r1 := sampleGauss R none h (St.hd c) (sd * imp) p
    let r2 := sampleGauss R (some ws) t (St.tl c) sd r1.2
    (.ccons r1.1 r2.1, r2.2)
  | _, .torus _ _, c, sd, p =>
    (pair (.so2 (so2Enforce (gaussian (St.ang (St.hd c)) sd (R.g p.gi))))
          (.so2 (so2Enforce (gaussian (St.ang (St.hd (St.tl c))) sd (R.g (p.gi + 1))))), { p with gi := p.gi + 2 })
  | _, .mobius imax _, c, sd, p =>
    let ws : α := Num.ofNat 0 + Num.ofNat 1 + Num.ofNat 1
    let imp := importance ws (Num.ofNat 1)
    (pair (.so2 (so2Enforce (gaussian (St.ang (St.hd c)) (sd * imp) (R.g p.gi))))
          (.rv (rvGauss R (sd * imp) [-imax] [imax] (St.vals (St.hd (St.tl c))) (p.gi + 1))), { p with gi := p.gi + 2 })
  | _, .klein, c, sd, p =>
    (pair (enfRv [Num.ofNat 0] [Num.pi] (.rv [gaussian ((St.vals (St.hd c)).headD (Num.ofNat 0)) sd (R.g p.gi)]))
          (.so2 (so2Enforce (gaussian (St.ang (St.hd (St.tl c))) sd (R.g (p.gi + 1))))), { p with gi := p.gi + 2 })
  | _, .sphere _, c, sd, p =>
    (pair (.so2 (so2Enforce (gaussian (St.ang (St.hd c)) sd (R.g p.gi))))
          (enfRv [Num.ofNat 0] [Num.pi] (.rv [gaussian ((St.vals (St.hd (St.tl c))).headD (Num.ofNat 0)) sd (R.g (p.gi + 1))])),
      { p with gi := p.gi + 2 })
  | _, .wrap sp, c, sd, p => sampleGauss R none sp c sd p

/-! ### SubspaceStateSampler (StateSampler.cpp) and CompoundStateSpace::allocSubspaceStateSampler

The sampled subspace is addressed by a component path through nested compounds (`[k]` = the k-th component,
`[k, j]` = the j-th component of that, …).  What OMPL does by substate NAMES (`getCommonSubspaces` +
`copyStateData`; the general mechanism is C09's) reduces, for a subspace that is a (nested) component of the
space, to "the substate at that path": the common names are the subspace and its descendants, `StateSpaceCovers`
removes the descendants, and the one remaining name is copied as a whole.  Paths through `wrap` nodes and into
the special spaces are not modelled (a wrapper component has no common names with its parent: OMPL warns
"Sampling will have no effect"; observed and counted by the check). -/

/-- k-th component of a compound (`cnil` if there is none) -/
def comp : Space α → Nat → Space α
  | .ccons _ h _, 0 => h
  | .ccons _ _ t, k + 1 => comp t k
  | _, _ => .cnil

def compWeight : Space α → Nat → α
  | .ccons w _ _, 0 => w
  | .ccons _ _ t, k + 1 => compWeight t k
  | _, _ => Num.ofNat 0

def hasComp : Space α → Nat → Bool
  | .ccons _ _ _, 0 => true
  | .ccons _ _ t, k + 1 => hasComp t k
  | _, _ => false

def subAt : Space α → List Nat → Space α
  | sp, [] => sp
  | sp, k :: ks => subAt (comp sp k) ks

def validPath : Space α → List Nat → Bool
  | _, [] => true
  | sp, k :: ks => hasComp sp k && validPath (comp sp k) ks

def stGet : OmplModel.St α → Nat → OmplModel.St α
  | s, 0 => St.hd s
  | s, k + 1 => stGet (St.tl s) k

def stSet : OmplModel.St α → Nat → OmplModel.St α → OmplModel.St α
  | s, 0, w => .ccons w (St.tl s)
  | s, k + 1, w => .ccons (St.hd s) (stSet (St.tl s) k w)

/-- `copyStateData(subspace_, work, space_, full)`: read the substate at the path -/
def getAt : OmplModel.St α → List Nat → OmplModel.St α
  | s, [] => s
  | s, k :: ks => getAt (stGet s k) ks

/-- `copyStateData(space_, state, subspace_, work_, subspaces_)`: overwrite the substate at the path, nothing else -/
def setAt : OmplModel.St α → List Nat → OmplModel.St α → OmplModel.St α
  | _, [], w => w
  | s, k :: ks, w => stSet s k (setAt (stGet s k) ks w)

/-- the `weight` a SubspaceStateSampler is built with: CompoundStateSpace::allocSubspaceStateSampler gives a DIRECT
component `weightSum_ < eps ? 1.0 : weight/weightSum_` (fix c8007d40e, finding F78); any other subspace goes through
StateSpace::allocSubspaceStateSampler with weight 1.0 -/
def subWeight (sp : Space α) : List Nat → α
  | [k] => importance (weightSum sp (Num.ofNat 0)) (compWeight sp k)
  | _ => Num.ofNat 1

/-- SubspaceStateSampler::sampleUniform: `subspaceSampler_->sampleUniform(work_); copy work_ back` -/
def subspaceUniform (R : Rng α) (sp : Space α) (path : List Nat) (st : OmplModel.St α) (p : Pos) :
    OmplModel.St α × Pos :=
  let r := sampleUniform R (subAt sp path) p
  (setAt st path r.1, r.2)

/-- SubspaceStateSampler::sampleUniformNear: `work2_ := near's substate; sampleUniformNear(work_, work2_,
distance * weight_); copy work_ back` -/
def subspaceNear (R : Rng α) (sp : Space α) (path : List Nat) (st near : OmplModel.St α) (d : α) (p : Pos) :
    OmplModel.St α × Pos :=
  let r := sampleNear R none (subAt sp path) (getAt near path) (d * subWeight sp path) p
  (setAt st path r.1, r.2)

/-- SubspaceStateSampler::sampleGaussian -/
def subspaceGauss (R : Rng α) (sp : Space α) (path : List Nat) (st mean : OmplModel.St α) (sd : α) (p : Pos) :
    OmplModel.St α × Pos :=
  let r := sampleGauss R none (subAt sp path) (getAt mean path) (sd * subWeight sp path) p
  (setAt st path r.1, r.2)

/-! the same three calls as a little program over named state slots, to speak about ALIASING (the functional
definitions above cannot): `state`/`near` are the caller's, `work`/`work2` the sampler's scratch states; the inner
sampler is told whether its output slot is its input slot (finding F77 was an inner sampler that misbehaves then) -/
inductive Slot where
  | state | near | work | work2
deriving DecidableEq, Repr

inductive Instr where
  | toSub (dst src : Slot)      -- copyStateData(subspace_, dst, space_, src)
  | inner (out inp : Slot)      -- subspaceSampler_->sampleUniformNear / sampleGaussian (out, inp, …)
  | back (dst src : Slot)       -- copyStateData(space_, dst, subspace_, src, subspaces_)

def Mem (α : Type) := Slot → OmplModel.St α

def Mem.set (m : Mem α) (k : Slot) (v : OmplModel.St α) : Mem α := fun j => if j = k then v else m j

def exec (inner : Bool → OmplModel.St α → OmplModel.St α) (path : List Nat) (m : Mem α) : Instr → Mem α
  | .toSub d s => m.set d (getAt (m s) path)
  | .inner o i => m.set o (inner (decide (o = i)) (m i))
  | .back d s => m.set d (setAt (m d) path (m s))

def run (inner : Bool → OmplModel.St α → OmplModel.St α) (path : List Nat) (m : Mem α) (prog : List Instr) : Mem α :=
  prog.foldl (exec inner path) m

/-- sampleUniformNear / sampleGaussian of SubspaceStateSampler as coded; `nearSlot` is where the caller's `near` lives
(`Slot.state` when the caller passes `state == near`) -/
def subNearProg (nearSlot : Slot) : List Instr :=
  [.toSub .work2 nearSlot, .inner .work .work2, .back .state .work]

/-- seeded change s1 (not the code): one scratch state, the inner sampler called in place -/
def subNearProgInPlace (nearSlot : Slot) : List Instr :=
  [.toSub .work nearSlot, .inner .work .work, .back .state .work]

/-! ### rejection loops of the Torus and Klein-bottle uniform samplers -/

/-- integer powers as `std::pow(x, n)` computes them (the Klein-bottle sampler uses `std::pow`) -/
class NumPow (α : Type) where
  powN : α → Nat → α

instance : NumPow Float := ⟨fun x n => Float.pow x (Float.ofNat n)⟩

/-- outcome of `while (!acceptedSampleFound)` within `fuel` iterations -/
inductive RejRes where
  | found (i : Nat)      -- accepted at iteration i (the first accepted one)
  | threw (i : Nat)      -- iteration i threw (Klein bottle: `s > gMax_`)
  | exhausted            -- no decision within the fuel (the code has no bound; acceptance has positive probability)
deriving DecidableEq, Repr

/-- `step i = some b`: iteration i accepts (b) or rejects; `none`: it throws -/
def rejFirst (step : Nat → Option Bool) : Nat → Nat → RejRes
  | 0, _ => .exhausted
  | f + 1, i =>
    match step i with
    | some true => .found i
    | some false => rejFirst step f (i + 1)
    | none => .threw i

/-- Torus: `vprime = (R + r*cos(v)) / (R + r); mu = uniformReal(0, 1); if (mu <= vprime) accept`;
iteration draws sit at stream positions k (u), k+1 (v), k+2 (mu) -/
def torusAccept (R : Rng α) (Rr r : α) (k : Nat) : Bool :=
  let v := uniformReal (-Num.pi) Num.pi (R.u (k + 1))
  let vprime := (Rr + r * Num.cos v) / (Rr + r)
  let mu := uniformReal (Num.ofNat 0) (Num.ofNat 1) (R.u (k + 2))
  decide (mu ≤ vprime)

/-- `gMax_ = 4.1455` -/
def kleinGMax : α := Num.ofDec 41455 4

/-- the gradient norm of KleinBottleStateSampler::sampleUniform, expression by expression -/
def kleinNorm [NumPow α] (u v : α) : α :=
  let n (k : Nat) : α := Num.ofNat k
  let dec (m e : Nat) : α := Num.ofDec m e
  let cu := Num.cos u
  let cv := Num.cos v
  let su := Num.sin u
  let sv := Num.sin v
  let cu3 := NumPow.powN cu 3
  let cu5 := NumPow.powN cu 5
  let cu6 := NumPow.powN cu 6
  let cu7 := NumPow.powN cu 7
  let cu8 := NumPow.powN cu 8
  let su2 := NumPow.powN su 2
  let su3 := NumPow.powN su 3
  let su4 := NumPow.powN su 4
  let su5 := NumPow.powN su 5
  let su6 := NumPow.powN su 6
  let su7 := NumPow.powN su 7
  let su8 := NumPow.powN su 8
  let third : α := n 1 / n 3
  let twoThirds : α := n 2 / n 3
  let s2u := Num.sin (n 2 * u)
  let c2u := Num.cos (n 2 * u)
  let aprime := n 64 * su8 - n 128 * su6 + n 60 * su4 + dec 4 1 * su * cv - (n 1 / n 6) * cu * cv -
    dec 5 1 * Num.cos (n 3 * u) * cv
  let a := -aprime * cv + twoThirds * sv * sv * cu * c2u
  let bprime := (n 26 + twoThirds) * su7 * cv - n 55 * su5 * cv - (n 37 + third) * su3 * cu6 * cv + n 28 * su3 * cv +
    (n 10 + twoThirds) * su * cu8 * cv - (n 10 + twoThirds) * su * cu6 * cv - n 4 * s2u +
    dec 224 1 * cu7 * cv - dec 352 1 * cu5 * cv + dec 122 1 * cu3 * cv + dec 6 1 * cu * cv
  let cprime := (n 5 + third) * su5 * cu + dec 32 1 * su4 - (n 10 + twoThirds) * su3 * cu - dec 64 1 * su2 +
    dec 25 1 * s2u + n 3
  let b := (third * s2u + dec 4 1) * bprime * cu - cprime * aprime * su3
  let c := (n 5 / n 6) * s2u + n 1
  let d := -(third * s2u + dec 4 1) * bprime * cv + twoThirds * cprime * su3 * sv * sv * c2u
  Num.sqrt (a * a * (dec 16 2 * c * c) + b * b * sv * sv + d * d)

/-- one Klein-bottle iteration: `if (s > gMax_) throw; s = s / gMax_; mu = uniformReal(0,1); if (mu <= s) accept` -/
def kleinStep [NumPow α] (R : Rng α) (k : Nat) : Option Bool :=
  let u := uniformReal (Num.ofNat 0) Num.pi (R.u k)
  let v := uniformReal (-Num.pi) Num.pi (R.u (k + 1))
  let s := kleinNorm u v
  if kleinGMax < s then none
  else
    let mu := uniformReal (Num.ofNat 0) (Num.ofNat 1) (R.u (k + 2))
    some (decide (mu ≤ s / kleinGMax))

/-- TorusStateSampler::sampleUniform with its rejection loop: the state of the first accepted iteration (the
`sampleUniform` clause of `torus` evaluated at that iteration's stream position) and the position after its `mu` -/
def torusUniformRej (R : Rng α) (Rr r : α) (fuel : Nat) (p : Pos) : RejRes × Option (OmplModel.St α × Pos) :=
  match rejFirst (fun i => some (torusAccept R Rr r (p.ui + 3 * i))) fuel 0 with
  | .found j =>
    (.found j, some ((sampleUniform R (.torus Rr r) { p with ui := p.ui + 3 * j }).1, { p with ui := p.ui + 3 * j + 3 }))
  | .threw j => (.threw j, none)
  | .exhausted => (.exhausted, none)

/-- KleinBottleStateSampler::sampleUniform with its rejection loop -/
def kleinUniformRej [NumPow α] (R : Rng α) (fuel : Nat) (p : Pos) : RejRes × Option (OmplModel.St α × Pos) :=
  match rejFirst (fun i => kleinStep R (p.ui + 3 * i)) fuel 0 with
  | .found j =>
    (.found j, some ((sampleUniform R .klein { p with ui := p.ui + 3 * j }).1, { p with ui := p.ui + 3 * j + 3 }))
  | .threw j => (.threw j, none)
  | .exhausted => (.exhausted, none)

/-! ### deterministic samplers (samplers/DeterministicStateSampler.cpp, deterministic/HaltonSequence.cpp) -/

/-- `HaltonSequence1D::sample()`: `f = 1, r = 0; while (i > 0) { f /= base; r += f * (i % base); i = floor(i / base); }`
(`i` is an `unsigned int`: at most 32 iterations for `base ≥ 2`; the fuel is 33) -/
def haltonLoop (b : Nat) : Nat → Nat → α → α → α
  | 0, _, _, r => r
  | fuel + 1, i, f, r =>
    if i = 0 then r
    else
      let f' := f / Num.ofNat b
      haltonLoop b fuel (i / b) f' (r + f' * Num.ofNat (i % b))

def halton1D (b i : Nat) : α := haltonLoop b 33 i (Num.ofNat 1) (Num.ofNat 0)

/-- `boost::math::prime(k)`, first entries (`HaltonSequence::setBasesToPrimes`) -/
def primeTable : List Nat := [2, 3, 5, 7, 11, 13, 17, 19, 23, 29, 31, 37, 41, 43, 47, 53]

/-- the `n`-th point (0-based) of `HaltonSequence(dim)`: every 1-D sequence starts at `i_ = 1` -/
def haltonPoint (dim n : Nat) : List α :=
  (List.range dim).map (fun k => halton1D (primeTable.getD k 2) (n + 1))

/-- SO2DeterministicStateSampler::sampleUniform: `-pi + sample[0] * 2 * pi` -/
def detSO2 (s : α) : α := -Num.pi + s * Num.ofNat 2 * Num.pi

/-- RealVectorDeterministicStateSampler::sampleUniform (stretch): `low[i] + sample[i] * (high[i] - low[i])` -/
def detRv : List α → List α → List α → List α
  | l :: lo, h :: hi, x :: xs => (l + x * (h - l)) :: detRv lo hi xs
  | _, _, _ => []

/-! ### PrecomputedStateSampler (PrecomputedStateSampler.cpp) on R^n -/

/-- `RealVectorStateSpace::distance`: `sqrt(Σ diff²)`, accumulated in index order -/
def rvDistSq : List α → List α → α → α
  | a :: as, b :: bs, acc => rvDistSq as bs (acc + (a - b) * (a - b))
  | _, _, acc => acc

/-- `RealVectorStateSpace::interpolate`: `from + (to - from) * t` -/
def rvInterp (t : α) : List α → List α → List α
  | a :: as, b :: bs => (a + (b - a) * t) :: rvInterp t as bs
  | _, _ => []

/-- `sampleUniformNear(state, near, distance)` once the index draw picked the stored state `s`:
`dist = distance(near, s); if (dist > distance) interpolate(near, s, distance / dist, state) else copy s` -/
def preNearRv (near s : List α) (distance : α) : List α :=
  let dist := Num.sqrt (rvDistSq near s (Num.ofNat 0))
  if distance < dist then rvInterp (distance / dist) near s else s

/-- `sampleGaussian(state, mean, stdDev)` as fixed by cf0cbdaed (finding F166):
`sampleUniformNear(state, mean, std::abs(rng_.gaussian(0.0, stdDev)))` -/
def preGaussRv (mean s : List α) (sd g : α) : List α :=
  preNearRv mean s (Num.abs (gaussian (Num.ofNat 0) sd g))

/-- the code BEFORE the fix: the "distance" was the SIGNED Gaussian draw (kept for the witness
`precomputed_gaussian_old_negative_fails`) -/
def preGaussRvOld (mean s : List α) (sd g : α) : List α := preNearRv mean s (gaussian (Num.ofNat 0) sd g)

/-- RealVectorStateSpace::getMaximumExtent: `e += d * d` in index order, then `sqrt(e)` -/
def rvExtentSq : List α → List α → α → α
  | l :: lo, h :: hi, acc => rvExtentSq lo hi (acc + (h - l) * (h - l))
  | _, _, acc => acc

def rvMaxExtent (lo hi : List α) : α := Num.sqrt (rvExtentSq lo hi (Num.ofNat 0))

/-- constructor of GaussianValidStateSampler / BridgeTestValidStateSampler:
`stddev_(si->getMaximumExtent() * magic::STD_DEV_AS_SPACE_EXTENT_FRACTION)` (= 0.1), on R^n -/
def defaultStdDev (lo hi : List α) : α := rvMaxExtent lo hi * Num.ofDec 1 1

/-! ### RNG::halfNormalReal / halfNormalInt (RandomNumbers.cpp) -/

/-- `mean = r_max - r_min; v = gaussian(mean, mean / focus); if (v > mean) v = 2.0 * mean - v;
r = v >= 0.0 ? v + r_min : r_min; return r > r_max ? r_max : r;` -/
def halfNormalReal (rmin rmax focus g : α) : α :=
  let mean := rmax - rmin
  let v := gaussian mean (mean / focus) g
  let v := if mean < v then Num.ofNat 2 * mean - v else v
  let r := if Num.ofNat 0 ≤ v then v + rmin else rmin
  if rmax < r then rmax else r

/-- as fixed by b4cb23619 (findings F167 / F204): `const double r = floor(halfNormalReal(r_min, r_max + 1.0, focus));
return (r > (double)r_max) ? r_max : (int)r;` — the clamp in `double`, then the cast (before the fix the cast came first:
undefined for `r_max = INT_MAX`; with the model's unbounded `Int` both forms give the same value) -/
def halfNormalInt (rmin rmax : Int) (focus g : α) : Int :=
  let r := Num.floor (halfNormalReal (Num.ofInt rmin) (Num.ofInt rmax + Num.ofNat 1) focus g)
  if Num.ofInt rmax < r then rmax else Num.toInt r

/-! ### valid-state samplers over an oracle (no arithmetic on states) -/
section Valid
variable {σ δ κ : Type}

/-- what the inner `StateSampler` was asked to do: the method AND its arguments (round 10: the `near` / `mean` state and
the distance / standard deviation the valid-state sampler hands over are part of the model and of the lock-step) -/
inductive Call (σ δ : Type) where
  | uniform                      -- sampleUniform(out)
  | near (c : σ) (d : δ)         -- sampleUniformNear(out, c, d)
  | gauss (m : σ) (sd : δ)       -- sampleGaussian(out, m, sd)
deriving Repr, BEq, DecidableEq

/-- the oracle: `samp k c` = state written by the k-th call of the inner `StateSampler` when that call is `c`,
`ans k` = (`isValid` result, clearance) of the k-th validity query -/
structure Orc (σ δ κ : Type) where
  samp : Nat → Call σ δ → σ
  ans : Nat → Bool × κ

/-- oracle state: calls consumed so far, the recorded queries (newest first), the recorded sampler
calls with their arguments (newest first) -/
structure OS (σ δ κ : Type) where
  si : Nat := 0
  ai : Nat := 0
  log : List (σ × Bool × κ) := []
  calls : List (Call σ δ) := []

def draw (o : Orc σ δ κ) (c : Call σ δ) (s : OS σ δ κ) : σ × OS σ δ κ :=
  (o.samp s.si c, { s with si := s.si + 1, calls := c :: s.calls })

def ask (o : Orc σ δ κ) (x : σ) (s : OS σ δ κ) : (Bool × κ) × OS σ δ κ :=
  let a := o.ans s.ai
  (a, { s with ai := s.ai + 1, log := (x, a.1, a.2) :: s.log })

/-- result of a valid-state sampler: return value, content of `state` on return, oracle state -/
structure VRes (σ δ κ : Type) where
  ok : Bool
  st : σ
  os : OS σ δ κ

/-- Uniform: `do { sample(state); valid = isValid(state); ++attempts; } while (!valid && attempts < attempts_)`.
`n` = iterations still allowed after this one (`attempts_ - 1` at entry, truncated at 0: a do-while runs once).
`c` = `.uniform` for `sample`, `.near near distance` for `sampleNear`. -/
def uniformV (o : Orc σ δ κ) (c : Call σ δ) : Nat → OS σ δ κ → VRes σ δ κ
  | 0, s =>
    let (x, s) := draw o c s
    let (a, s) := ask o x s
    ⟨a.1, x, s⟩
  | n + 1, s =>
    let (x, s) := draw o c s
    let (a, s) := ask o x s
    if a.1 then ⟨true, x, s⟩ else uniformV o c n s

/-- Gaussian: `v1 = isValid(state); sampleGaussian(temp, state, sd); v2 = isValid(temp);
if (v1 != v2) { if (v2) copyState(state, temp); result = true; }`; the mean of the Gaussian draw is the state just
sampled, `sd` is `stddev_` in `sample` and the caller's `distance` in `sampleNear` -/
def gaussV (o : Orc σ δ κ) (c : Call σ δ) (sd : δ) : Nat → OS σ δ κ → VRes σ δ κ
  | 0, s =>
    let (x, s) := draw o c s
    let (v1, s) := ask o x s
    let (t, s) := draw o (.gauss x sd) s
    let (v2, s) := ask o t s
    if v1.1 != v2.1 then ⟨true, if v2.1 then t else x, s⟩ else ⟨false, x, s⟩
  | n + 1, s =>
    let (x, s) := draw o c s
    let (v1, s) := ask o x s
    let (t, s) := draw o (.gauss x sd) s
    let (v2, s) := ask o t s
    if v1.1 != v2.1 then ⟨true, if v2.1 then t else x, s⟩ else gaussV o c sd n s

/-- first loop of ObstacleBased: `do { sample(state); valid = isValid(state); } while (valid && attempts < attempts_)`;
returns the final `valid` flag -/
def findInvalid (o : Orc σ δ κ) (c : Call σ δ) : Nat → OS σ δ κ → VRes σ δ κ
  | 0, s =>
    let (x, s) := draw o c s
    let (a, s) := ask o x s
    ⟨a.1, x, s⟩
  | n + 1, s =>
    let (x, s) := draw o c s
    let (a, s) := ask o x s
    if a.1 then findInvalid o c n s else ⟨false, x, s⟩

/-- the `for (j = 1; j < nd; ++j)` loop of DiscreteMotionValidator::checkMotion(s1, s2, lastValid):
`k` = iterations left, `j` = current index.  Returns `ok = false` and the last valid state if a test
state is invalid. -/
def motionLoop (o : Orc σ δ κ) (interp : σ → σ → Nat → Nat → σ) (s1 s2 : σ) (nd : Nat) :
    Nat → Nat → OS σ δ κ → VRes σ δ κ
  | 0, _, s => ⟨true, s2, s⟩
  | k + 1, j, s =>
    let test := interp s1 s2 j nd
    let (a, s) := ask o test s
    if a.1 then motionLoop o interp s1 s2 nd k (j + 1) s
    else ⟨false, interp s1 s2 (j - 1) nd, s⟩

/-- `checkMotion(s1, s2, lastValid)` with `lastValid.first == s2`'s storage: returns what `state` holds
afterwards -/
def checkMotionLV (o : Orc σ δ κ) (segs : σ → σ → Nat) (interp : σ → σ → Nat → Nat → σ) (s1 s2 : σ)
    (s : OS σ δ κ) : VRes σ δ κ :=
  let nd := segs s1 s2
  let r := motionLoop o interp s1 s2 nd (nd - 1) 1 s
  if r.ok then
    let (a, s) := ask o s2 r.os
    if a.1 then ⟨true, s2, s⟩ else ⟨false, interp s1 s2 (nd - 1) nd, s⟩
  else r

/-- ObstacleBased BEFORE fix 96c4da7bb (kept for the witness `obstacleBased_old_returns_unvalidated`): find an invalid
`state`, then a valid `temp` (always `sampleUniform`), then keep `lastValid` of the motion temp -> state whatever it is;
returns `valid` of the second loop whatever checkMotion says -/
def obstacleVOld (o : Orc σ δ κ) (segs : σ → σ → Nat) (interp : σ → σ → Nat → Nat → σ) (c : Call σ δ) (n : Nat)
    (s : OS σ δ κ) : VRes σ δ κ :=
  let r1 := findInvalid o c n s
  if r1.ok then ⟨false, r1.st, r1.os⟩
  else
    let r2 := uniformV o .uniform n r1.os
    if r2.ok then
      let r3 := checkMotionLV o segs interp r2.st r1.st r2.os
      ⟨true, r3.st, r3.os⟩
    else ⟨false, r1.st, r2.os⟩

/-- the `for` loop of checkMotion(s1, s2, lastValid) again, now also returning the numerator of `lastValid.second`
(`(double)(j - 1) / (double)nd` at the failing index; `0` = the caller's initial `fail.second = 0.0` if untouched) -/
def motionLoopF (o : Orc σ δ κ) (interp : σ → σ → Nat → Nat → σ) (s1 s2 : σ) (nd : Nat) :
    Nat → Nat → OS σ δ κ → VRes σ δ κ × Int
  | 0, _, s => (⟨true, s2, s⟩, 0)
  | k + 1, j, s =>
    let test := interp s1 s2 j nd
    let a := ask o test s
    if a.1.1 then motionLoopF o interp s1 s2 nd k (j + 1) a.2
    else (⟨false, interp s1 s2 (j - 1) nd, a.2⟩, (j : Int) - 1)

/-- `checkMotion(s1, s2, lastValid)` with `lastValid = (state, 0.0)`: what `state` holds afterwards and the numerator of
`lastValid.second` (`(nd - 1)` as an `int`, so `-1` for `nd = 0`, where the code divides by zero and interpolates at
`-inf`; the model's interpolation index is truncated at 0 there, which is why the theorem assumes `nd ≥ 1`) -/
def checkMotionF (o : Orc σ δ κ) (segs : σ → σ → Nat) (interp : σ → σ → Nat → Nat → σ) (s1 s2 : σ)
    (s : OS σ δ κ) : VRes σ δ κ × Int :=
  let nd := segs s1 s2
  let r := motionLoopF o interp s1 s2 nd (nd - 1) 1 s
  if r.1.ok then
    let a := ask o s2 r.1.os
    if a.1.1 then (⟨true, s2, a.2⟩, 0) else (⟨false, interp s1 s2 (nd - 1) nd, a.2⟩, (nd : Int) - 1)
  else r

/-- ObstacleBased as fixed by 96c4da7bb: after `checkMotion(temp, state, fail)`,
`if (fail.second == 0.0) copyState(state, temp);` (the zero test is on the numerator: `0/nd == 0.0` for `nd ≥ 1`).
The second loop (`temp`) is `sampleUniform` in `sample` AND in `sampleNear`, as coded. -/
def obstacleV (o : Orc σ δ κ) (segs : σ → σ → Nat) (interp : σ → σ → Nat → Nat → σ) (c : Call σ δ) (n : Nat)
    (s : OS σ δ κ) : VRes σ δ κ :=
  let r1 := findInvalid o c n s
  if r1.ok then ⟨false, r1.st, r1.os⟩
  else
    let r2 := uniformV o .uniform n r1.os
    if r2.ok then
      let r3 := checkMotionF o segs interp r2.st r1.st r2.os
      ⟨true, if r3.2 = 0 then r2.st else r3.1.st, r3.1.os⟩
    else ⟨false, r1.st, r2.os⟩

/-- BridgeTest: `mid e x` = `interpolate(endpoint, state, 0.5, state)`; the endpoint is a Gaussian draw around the state
just sampled with `sd` = `stddev_` (`sample`) or the caller's `distance` (`sampleNear`) -/
def bridgeV (o : Orc σ δ κ) (mid : σ → σ → σ) (c : Call σ δ) (sd : δ) : Nat → OS σ δ κ → VRes σ δ κ
  | 0, s =>
    let (x, s) := draw o c s
    let (v1, s) := ask o x s
    if !v1.1 then
      let (e, s) := draw o (.gauss x sd) s
      let (v2, s) := ask o e s
      if !v2.1 then
        let m := mid e x
        let (v, s) := ask o m s
        ⟨v.1, m, s⟩
      else ⟨false, x, s⟩
    else ⟨false, x, s⟩
  | n + 1, s =>
    let (x, s) := draw o c s
    let (v1, s) := ask o x s
    if !v1.1 then
      let (e, s) := draw o (.gauss x sd) s
      let (v2, s) := ask o e s
      if !v2.1 then
        let m := mid e x
        let (v, s) := ask o m s
        if v.1 then ⟨true, m, s⟩ else bridgeV o mid c sd n s
      else bridgeV o mid c sd n s
    else bridgeV o mid c sd n s

/-- MinimumClearance: `valid = isValid(state, dist); if (dist < clearance_) valid = false;` -/
def minClearV (o : Orc σ δ κ) (lt : κ → κ → Bool) (clearance : κ) (c : Call σ δ) : Nat → OS σ δ κ → VRes σ δ κ
  | 0, s =>
    let (x, s) := draw o c s
    let (a, s) := ask o x s
    ⟨if lt a.2 clearance then false else a.1, x, s⟩
  | n + 1, s =>
    let (x, s) := draw o c s
    let (a, s) := ask o x s
    if (if lt a.2 clearance then false else a.1) then ⟨true, x, s⟩ else minClearV o lt clearance c n s

/-- first loop of MaximizeClearance (as Uniform, but keeps the clearance of the accepted state) -/
def maxClearFirst (o : Orc σ δ κ) (c : Call σ δ) : Nat → OS σ δ κ → VRes σ δ κ × κ
  | 0, s =>
    let (x, s) := draw o c s
    let (a, s) := ask o x s
    (⟨a.1, x, s⟩, a.2)
  | n + 1, s =>
    let (x, s) := draw o c s
    let (a, s) := ask o x s
    if a.1 then (⟨true, x, s⟩, a.2) else maxClearFirst o c n s

/-- `while (attempts < improveAttempts_) { sample(work); validW = isValid(work, distW);
if (validW && distW > dist) { dist = distW; copyState(state, work); } }` (the same call `c` as the first loop:
`sampleUniformNear(work_, near, distance)` in `sampleNear`) -/
def maxClearImprove (o : Orc σ δ κ) (lt : κ → κ → Bool) (c : Call σ δ) : Nat → σ → κ → OS σ δ κ → σ × OS σ δ κ
  | 0, st, _, s => (st, s)
  | k + 1, st, dist, s =>
    let (w, s) := draw o c s
    let (a, s) := ask o w s
    if a.1 && lt dist a.2 then maxClearImprove o lt c k w a.2 s
    else maxClearImprove o lt c k st dist s

def maxClearV (o : Orc σ δ κ) (lt : κ → κ → Bool) (c : Call σ δ) (n improve : Nat) (s : OS σ δ κ) : VRes σ δ κ :=
  let (r, dist) := maxClearFirst o c n s
  if r.ok then
    let (st, s) := maxClearImprove o lt c improve r.st dist r.os
    ⟨true, st, s⟩
  else ⟨false, r.st, r.os⟩

/-! #### SpaceInformation::searchValidNearby (both overloads): the glue that puts `satisfiesBounds`, `enforceBounds`,
`isValid` and a valid-state sampler's `sampleNear` together.  `sat` / `enforce` are the space's `satisfiesBounds` /
`enforceBounds` (the driver passes the model's own, at `Float`); `vss near distance` is the sampler's `sampleNear`. -/

/-- `searchValidNearby(sampler, state, near, distance)`:
`if (state != near) copyState(state, near); if (!satisfiesBounds(state)) enforceBounds(state); result = isValid(state);
if (!result) { temp = cloneState(state); result = sampler->sampleNear(state, temp, distance); }` -/
def searchNearbyV (o : Orc σ δ κ) (sat : σ → Bool) (enforce : σ → σ) (vss : σ → δ → OS σ δ κ → VRes σ δ κ)
    (near : σ) (d : δ) (s : OS σ δ κ) : VRes σ δ κ :=
  let st := if sat near then near else enforce near
  let a := ask o st s
  if a.1.1 then ⟨true, st, a.2⟩ else vss st d a.2

/-- `searchValidNearby(state, near, distance, attempts)`: `if (satisfiesBounds(near) && isValid(near)) { copy; return true; }`
(short-circuit: `isValid` is asked only about an in-bounds `near`), `else` a fresh `UniformValidStateSampler` with
`setNrAttempts(attempts)` goes through the first overload — which asks about the same state AGAIN -/
def searchNearbyAttempts (o : Orc σ δ κ) (sat : σ → Bool) (enforce : σ → σ) (near : σ) (d : δ) (attempts : Nat)
    (s : OS σ δ κ) : VRes σ δ κ :=
  let vss := fun (c : σ) (d : δ) (s : OS σ δ κ) => uniformV o (.near c d) (attempts - 1) s
  if sat near then
    let a := ask o near s
    if a.1.1 then ⟨true, near, a.2⟩ else searchNearbyV o sat enforce vss near d a.2
  else searchNearbyV o sat enforce vss near d s

end Valid

end OmplModel.SpaceBounds
