import OmplModel.Model.PathOps
/-
The SCHEDULE of `PathSimplifier::simplify(path, ptc, atLeastOnce)` and `simplifyMax(path)`
(src/ompl/geometric/src/PathSimplifier.cpp, the tree after fix aef53466f: `return path.check();`),
statement by statement, over ABSTRACT routines.  Core Lean only.

What is abstracted
* the six routines the schedule calls (`partialShortcutPath`, `findBetterGoal`, `smoothBSpline`,
  `PathGeometric::checkAndRepair`, `reduceVertices`, `collapseCloseVertices`) and `PathGeometric::check`
  are FIELDS of `Routines σ`: arbitrary functions of the current path.  Their other arguments are the
  defaults of the call sites and are hidden inside them (`partialShortcutPath(path)` and
  `reduceVertices(path)` / `collapseCloseVertices(path)` with their default `maxSteps`, `maxEmptySteps`,
  `rangeRatio`, `snapToVertex`; `smoothBSpline(path, 3, path.length() / 100.0)`;
  `checkAndRepair(magic::MAX_VALID_SAMPLE_ATTEMPTS)`; `findBetterGoal(path, ptc)`).
* every real call consumes random draws.  To keep the routines pure, each takes the INDEX OF THE CALL
  IN THE RUN (`calls`, the number of routine calls made before it, counted over all six routines): two
  calls of the same routine on the same path may answer differently — each is "some run of that
  routine".  The theorems quantify over all such families.  (`check` draws nothing: no index.)
* the termination condition is a scripted stream `ptc : Nat → Bool`: `ptc k` is what the k-th
  EVALUATION of `ptc` BY `simplify` ITSELF yields.  Every `(ptc == false || atLeastOnce)` in the code is
  exactly one evaluation (C++ evaluates the left operand of `||` first and always), in program order.
  The evaluations `findBetterGoal` makes on the same object are inside that abstract routine (the
  stream is arbitrary, so every interleaving with a real, time-driven condition is covered).
* `si_->getStateSpace()->isMetricSpace()` and `gsr_ != nullptr` are constant during a run: the fields
  `metric`, `hasGoal`.
* `OMPL_WARN` / `OMPL_DEBUG` logging is dropped (so `p.first` of `checkAndRepair`, which only selects a
  log line, is returned by the routine but not used).
* the outer `while` need not terminate (a `reduceVertices` that keeps answering `true` under a
  condition that never fires): it takes explicit `fuel` = the number of iterations it may START; the
  result says whether it was stopped for lack of fuel.  The two inner loops are bounded by the code
  itself (`++times <= 5`): they recurse on `left = 5 - times`, i.e. `++times <= 5` is `left ≠ 0` followed
  by `left - 1`.  As in C++ (`&&` short-circuits) `times` is stepped only when the conjuncts in front of
  it are true; `times` is dead after either loop, so nothing else depends on it.
-/
namespace OmplModel.PathOps

variable {σ : Type}

/-- the routines `simplify` schedules; the leading `Nat` is the index of the call in the run -/
structure Routines (σ : Type) where
  /-- `partialShortcutPath(path)` with its defaults; `Bool` = return value -/
  partialShortcut : Nat → List σ → List σ × Bool
  /-- `findBetterGoal(path, ptc)` (only called when `hasGoal`) -/
  findBetterGoal : Nat → List σ → List σ × Bool
  /-- `smoothBSpline(path, 3, path.length() / 100.0)` -/
  smoothBSpline : Nat → List σ → List σ
  /-- `path.checkAndRepair(MAX_VALID_SAMPLE_ATTEMPTS)`: (path, `p.first` = originalValid, `p.second` = result) -/
  checkAndRepair : Nat → List σ → List σ × Bool × Bool
  /-- `reduceVertices(path)` -/
  reduceVertices : Nat → List σ → List σ × Bool
  /-- `collapseCloseVertices(path)` -/
  collapseClose : Nat → List σ → List σ × Bool
  /-- `path.check()` -/
  check : List σ → Bool
  /-- `gsr_ != nullptr` -/
  hasGoal : Bool
  /-- `si_->getStateSpace()->isMetricSpace()` -/
  metric : Bool

/-- the variables of `simplify` that live across statements, plus the two counters -/
structure SchedSt (σ : Type) where
  path : List σ
  /-- `bool valid` -/
  valid : Bool
  /-- `bool tryMore` -/
  tryMore : Bool
  /-- evaluations of `ptc` made so far -/
  evals : Nat
  /-- routine calls made so far -/
  calls : Nat
deriving DecidableEq, Repr

/-- the value of `(ptc == false || atLeastOnce)` in state `s` … -/
def SchedSt.test (ptc : Nat → Bool) (atLeastOnce : Bool) (s : SchedSt σ) : Bool :=
  !ptc s.evals || atLeastOnce

/-- … and the state after evaluating it (one more evaluation of `ptc`) -/
def SchedSt.tick (s : SchedSt σ) : SchedSt σ := { s with evals := s.evals + 1 }

/-- the path after a routine call -/
def SchedSt.called (s : SchedSt σ) (p : List σ) : SchedSt σ := { s with path := p, calls := s.calls + 1 }

/-- `bool shortcut = partialShortcutPath(path);` -/
def doShortcut (R : Routines σ) (s : SchedSt σ) : SchedSt σ × Bool :=
  let r := R.partialShortcut s.calls s.path
  (s.called r.1, r.2)

/-- `bool better_goal = gsr_ ? findBetterGoal(path, ptc) : false;` -/
def doGoal (R : Routines σ) (s : SchedSt σ) : SchedSt σ × Bool :=
  if R.hasGoal then
    let r := R.findBetterGoal s.calls s.path
    (s.called r.1, r.2)
  else (s, false)

/-- `smoothBSpline(path, 3, path.length() / 100.0);` -/
def doSmooth (R : Routines σ) (s : SchedSt σ) : SchedSt σ :=
  s.called (R.smoothBSpline s.calls s.path)

/-- `p = path.checkAndRepair(..); if (!p.second) valid = false; [else if (!p.first) log]` -/
def doRepair (R : Routines σ) (s : SchedSt σ) : SchedSt σ :=
  let r := R.checkAndRepair s.calls s.path
  { s.called r.1 with valid := if !r.2.2 then false else s.valid }

/-- `tryMore = reduceVertices(path);` -/
def doReduce (R : Routines σ) (s : SchedSt σ) : SchedSt σ :=
  let r := R.reduceVertices s.calls s.path
  { s.called r.1 with tryMore := r.2 }

/-- `collapseCloseVertices(path);` (return value unused) -/
def doCollapse (R : Routines σ) (s : SchedSt σ) : SchedSt σ :=
  s.called (R.collapseClose s.calls s.path).1

/-- `do { shortcut = …; better_goal = …; metricTryMore = shortcut || better_goal; }
     while ((ptc == false || atLeastOnce) && ++times <= 5 && metricTryMore);`
entered with `left = 5` (`times = 0`).  The body runs at most 6 times. -/
def metricLoop (R : Routines σ) (ptc : Nat → Bool) (atLeastOnce : Bool) : (left : Nat) → SchedSt σ → SchedSt σ
  | left, s =>
    let a := doShortcut R s
    let b := doGoal R a.1
    let metricTryMore := a.2 || b.2
    let s := b.1
    let g := s.test ptc atLeastOnce
    let s := s.tick
    if g then
      match left with
      | 0 => s                                                    -- `++times <= 5` is false
      | left + 1 => if metricTryMore then metricLoop R ptc atLeastOnce left s else s
    else s

/-- the body of `if ((ptc == false || atLeastOnce) && isMetricSpace()) { … }` at the top of an iteration -/
def metricBlock (R : Routines σ) (ptc : Nat → Bool) (atLeastOnce : Bool) (s : SchedSt σ) : SchedSt σ :=
  -- bool metricTryMore = true; unsigned int times = 0; do … while (…);
  let s := metricLoop R ptc atLeastOnce 5 s
  -- if (ptc == false || atLeastOnce) smoothBSpline(…);
  let g := s.test ptc atLeastOnce
  let s := s.tick
  let s := if g then doSmooth R s else s
  -- if (ptc == false || atLeastOnce) { checkAndRepair … }
  let g := s.test ptc atLeastOnce
  let s := s.tick
  if g then doRepair R s else s

/-- `while ((ptc == false || atLeastOnce) && tryMore && ++times <= 5) tryMore = reduceVertices(path);`
entered with `left = 5` (`times = 0`): at most 5 calls. -/
def reduceLoop (R : Routines σ) (ptc : Nat → Bool) (atLeastOnce : Bool) : (left : Nat) → SchedSt σ → SchedSt σ
  | left, s =>
    let g := s.test ptc atLeastOnce
    let s := s.tick
    if g && s.tryMore then
      match left with
      | 0 => s                                                    -- `++times <= 5` is false
      | left + 1 => reduceLoop R ptc atLeastOnce left (doReduce R s)
    else s

/-- one iteration of the outer `while`, up to (not including) `atLeastOnce = false;` -/
def iteration (R : Routines σ) (ptc : Nat → Bool) (atLeastOnce : Bool) (s : SchedSt σ) : SchedSt σ :=
  -- if ((ptc == false || atLeastOnce) && isMetricSpace()) { … }
  let g := s.test ptc atLeastOnce
  let s := s.tick
  let s := if g && R.metric then metricBlock R ptc atLeastOnce s else s
  -- if (ptc == false || atLeastOnce) tryMore = reduceVertices(path);
  let g := s.test ptc atLeastOnce
  let s := s.tick
  let s := if g then doReduce R s else s
  -- if (ptc == false || atLeastOnce) collapseCloseVertices(path);
  let g := s.test ptc atLeastOnce
  let s := s.tick
  let s := if g then doCollapse R s else s
  -- unsigned int times = 0; while (… && tryMore && ++times <= 5) tryMore = reduceVertices(path);
  let s := reduceLoop R ptc atLeastOnce 5 s
  -- if ((ptc == false || atLeastOnce) && isMetricSpace()) { checkAndRepair … }
  let g := s.test ptc atLeastOnce
  let s := s.tick
  if g && R.metric then doRepair R s else s

/-- `while ((ptc == false || atLeastOnce) && tryMore) { …; atLeastOnce = false; }`.
`fuel` = number of iterations that may be started; the `Bool` says that the loop condition held with
no fuel left (the model stops there, the code would go on). -/
def outerLoop (R : Routines σ) (ptc : Nat → Bool) : (fuel : Nat) → (atLeastOnce : Bool) → SchedSt σ → SchedSt σ × Bool
  | fuel, atLeastOnce, s =>
    let g := s.test ptc atLeastOnce
    let s := s.tick
    if g && s.tryMore then
      match fuel with
      | 0 => (s, true)
      | fuel + 1 => outerLoop R ptc fuel false (iteration R ptc atLeastOnce s)
    else (s, false)

/-- what a run of `simplify` yields -/
structure SimplifyResult (σ : Type) where
  /-- the path afterwards -/
  path : List σ
  /-- the return value -/
  ret : Bool
  /-- the local `valid` at the `return` (`true` on the early return: no `checkAndRepair` failed) -/
  valid : Bool
  /-- evaluations of `ptc` made by `simplify` -/
  evals : Nat
  /-- routine calls made (`check` not counted) -/
  calls : Nat
  /-- the outer loop was cut off by `fuel` (then `path`/`ret`/`valid` are those of the cut-off point) -/
  outOfFuel : Bool
deriving DecidableEq, Repr

/-- `PathSimplifier::simplify(path, ptc, atLeastOnce)` -/
def simplify (R : Routines σ) (ptc : Nat → Bool) (atLeastOnce : Bool) (fuel : Nat) (path : List σ) :
    SimplifyResult σ :=
  -- if (path.getStateCount() < 3) return true;
  if path.length < 3 then
    { path := path, ret := true, valid := true, evals := 0, calls := 0, outOfFuel := false }
  else
    -- bool tryMore = true, valid = true;
    let r := outerLoop R ptc fuel atLeastOnce
      { path := path, valid := true, tryMore := true, evals := 0, calls := 0 }
    -- return path.check();
    { path := r.1.path, ret := R.check r.1.path, valid := r.1.valid, evals := r.1.evals, calls := r.1.calls,
      outOfFuel := r.2 }

/-- `PathSimplifier::simplifyMax(path)`: `simplify(path, plannerNonTerminatingCondition())` with the
default `atLeastOnce = true` -/
def simplifyMax (R : Routines σ) (fuel : Nat) (path : List σ) : SimplifyResult σ :=
  simplify R (fun _ => false) true fuel path

end OmplModel.PathOps
