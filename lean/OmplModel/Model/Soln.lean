/-
Model of the solution bookkeeping of `ompl::base::ProblemDefinition` and of the cost algebra of the
shipped optimization objectives (C04).

Core Lean only (no Mathlib): this file is linked into the native driver `drv_soln`.

Part A  `PlannerSolution::operator<`, `PlannerSolutionSet::{add,isApproximate,isOptimized,
        getDifference,getTopSolution}`, `ProblemDefinition::hasExactSolution`
        (src/ompl/base/ProblemDefinition.h, src/ompl/base/src/ProblemDefinition.cpp).
Part B  `PathGeometric::cost/length` (src/ompl/geometric/src/PathGeometric.cpp) and
        `identityCost/combineCosts/isCostBetterThan/motionCost/isSatisfied` of
        OptimizationObjective, PathLength, StateCostIntegral (with and without interpolation),
        Minimax, MaximizeMinClearance, MechanicalWork, MultiOptimization, MinimizeArrivalTime.

Everything is generic in the number type: the driver runs it at `Float` (bit-identical to g++
`double` on this image), the theorems are proved for any type with the order/algebra laws they name.

Abstractions (checked by the correspondence run, not assumed silently):
* `std::sort` is unstable; the model sorts with a stable insertion sort.  Any two results of sorting
  with a strict weak order differ only by permuting equivalent elements, so the comparison made by
  the check is "same multiset of records, and the implementation's order has no inversion under the
  model's `lt`", not equality of sequences.
* a solution's path is represented by its `length_` only; the objective pointer by `hasOpt` (all
  solutions that carry an objective carry the *same* one, whose `isCostBetterThan` is `Cmp.better`).
* state costs of objectives with user callbacks come from three fixed cost fields (`field`).
* states are points of a `RealVectorStateSpace` (lists of coordinates).
-/
namespace OmplModel.Soln

/-! ## Part A: ranking of solutions -/

/-- the two comparisons `operator<` uses: `<` on `double` and `opt_->isCostBetterThan`. -/
structure Cmp (α : Type) where
  lt : α → α → Bool
  better : α → α → Bool

/-- `PlannerSolution` without the path: `index_, approximate_, difference_, optimized_, opt_ != null,
cost_, length_`. -/
structure Soln (α : Type) where
  idx : Int
  approx : Bool
  diff : α
  optimized : Bool
  hasOpt : Bool
  cost : α
  length : α
deriving Repr

variable {α : Type}

/-- `PlannerSolution::operator<`, clause by clause:
```
if (!approximate_ && b.approximate_) return true;
if (approximate_ && !b.approximate_) return false;
if (approximate_ && b.approximate_)  return difference_ < b.difference_;
if (optimized_ && !b.optimized_)     return true;
if (!optimized_ && b.optimized_)     return false;
return opt_ ? opt_->isCostBetterThan(cost_, b.cost_) : length_ < b.length_;
```
Only `this->opt_` is consulted in the last clause (the source of F11). -/
def Soln.lt (o : Cmp α) (a b : Soln α) : Bool :=
  if !a.approx && b.approx then true
  else if a.approx && !b.approx then false
  else if a.approx && b.approx then o.lt a.diff b.diff
  else if a.optimized && !b.optimized then true
  else if !a.optimized && b.optimized then false
  else if a.hasOpt then o.better a.cost b.cost
  else o.lt a.length b.length

/-- `PlannerSolution(path)` + `setApproximate(diff)` (only when approximate; `difference_` is `0.`
otherwise) + `setOptimized(opt, cost, meets)`; `index_ = -1` until added. -/
def Soln.make (zero : α) (approx : Bool) (diff : α) (hasOpt : Bool) (cost : α) (optimized : Bool)
    (length : α) : Soln α :=
  { idx := -1, approx := approx, diff := if approx then diff else zero, optimized := optimized,
    hasOpt := hasOpt, cost := cost, length := length }

/-- insert before the first element that `x` is smaller than (stable). -/
def insertSorted (o : Cmp α) (x : Soln α) : List (Soln α) → List (Soln α)
  | [] => [x]
  | y :: ys => if Soln.lt o x y then x :: y :: ys else y :: insertSorted o x ys

/-- the model of `std::sort(solutions_.begin(), solutions_.end())`. -/
def sort (o : Cmp α) (l : List (Soln α)) : List (Soln α) :=
  l.foldl (fun acc x => insertSorted o x acc) []

/-- `solutions_` -/
abbrev SolnSet (α : Type) := List (Soln α)

/-- `PlannerSolutionSet::add`: `index = size(); push_back(s); back().index_ = index; sort`. -/
def SolnSet.add (o : Cmp α) (s : SolnSet α) (x : Soln α) : SolnSet α :=
  sort o (s ++ [{ x with idx := s.length }])

def SolnSet.addAll (o : Cmp α) (s : SolnSet α) (xs : List (Soln α)) : SolnSet α :=
  xs.foldl (SolnSet.add o) s

/-- `getTopSolution` -/
def SolnSet.top (s : SolnSet α) : Option (Soln α) := s.head?

/-- `isApproximate()` = `hasApproximateSolution()` -/
def SolnSet.isApproximate (s : SolnSet α) : Bool :=
  match s with
  | [] => false
  | t :: _ => t.approx

/-- `isOptimized()` = `hasOptimizedSolution()` -/
def SolnSet.isOptimized (s : SolnSet α) : Bool :=
  match s with
  | [] => false
  | t :: _ => t.optimized

/-- `getDifference()` = `getSolutionDifference()`; `-1` when there is no solution. -/
def SolnSet.getDifference (minusOne : α) (s : SolnSet α) : α :=
  match s with
  | [] => minusOne
  | t :: _ => t.diff

/-- `hasSolution()` -/
def SolnSet.hasSolution (s : SolnSet α) : Bool := !s.isEmpty

/-- `hasExactSolution()` = `hasSolution() && !hasApproximateSolution()` -/
def SolnSet.hasExactSolution (s : SolnSet α) : Bool := s.hasSolution && !s.isApproximate

/-- first inversion `(i, j)`, `i < j`, `lt l[j] l[i]` (lexicographically first), if any. -/
def firstInversion (o : Cmp α) (l : List (Soln α)) : Option (Nat × Nat) :=
  let rec inner (x : Soln α) (i j : Nat) : List (Soln α) → Option Nat
    | [] => none
    | y :: ys => if Soln.lt o y x then some j else inner x i (j + 1) ys
  let rec outer (i : Nat) : List (Soln α) → Option (Nat × Nat)
    | [] => none
    | x :: xs =>
      match inner x i (i + 1) xs with
      | some j => some (i, j)
      | none => outer (i + 1) xs
  outer 0 l

/-! ## Part B: cost algebra -/

/-- `(identityCost, combineCosts, isCostBetterThan)` of an objective. -/
structure CostAlg (α : Type) where
  identity : α
  combine : α → α → α
  better : α → α → Bool

/-- `OptimizationObjective::isSatisfied(c)` = `isCostBetterThan(c, threshold_)`. -/
def CostAlg.isSatisfied (A : CostAlg α) (threshold c : α) : Bool := A.better c threshold

/-- `isCostEquivalentTo` -/
def CostAlg.equiv (A : CostAlg α) (a b : α) : Bool := !A.better a b && !A.better b a

/-- `betterCost` -/
def CostAlg.betterCost (A : CostAlg α) (a b : α) : α := if A.better a b then a else b

/-- the default `OptimizationObjective` algebra over given operations. -/
def mkAdditive (zero : α) (add : α → α → α) (lt : α → α → Bool) : CostAlg α := ⟨zero, add, lt⟩

/-- `MinimaxObjective::combineCosts(c1,c2) = isCostBetterThan(c1,c2) ? c2 : c1` (the worse one). -/
def mkMinimax (ident : α) (better : α → α → Bool) : CostAlg α :=
  ⟨ident, fun a b => if better a b then b else a, better⟩

/-- `MinimizeArrivalTime::combineCosts(c1,c2) = c1 > c2 ? c1 : c2`. -/
def mkArrival (ident : α) (lt : α → α → Bool) : CostAlg α :=
  ⟨ident, fun a b => if lt b a then a else b, lt⟩

section PathCost
variable {σ : Type}

/-- the loop `for i = 1 .. n-1: cost = combine(cost, motionCost(s[i-1], s[i]))`. -/
def costLoop (A : CostAlg α) (mc : σ → σ → α) (c : α) : List σ → α
  | a :: b :: rest => costLoop A mc (A.combine c (mc a b)) (b :: rest)
  | _ => c

/-- `PathGeometric::cost(opt)`: identity for the empty path, else
`combine(loop(initialCost(front)), terminalCost(back))`. -/
def pathCost (A : CostAlg α) (mc : σ → σ → α) (initial terminal : σ → α) : List σ → α
  | [] => A.identity
  | s :: rest =>
    A.combine (costLoop A mc (initial s) (s :: rest)) (terminal ((s :: rest).getLast (by simp)))

/-- `PathGeometric::length()`: `L = 0; L += distance(s[i-1], s[i])`. -/
def lengthLoop (add : α → α → α) (d : σ → σ → α) (c : α) : List σ → α
  | a :: b :: rest => lengthLoop add d (add c (d a b)) (b :: rest)
  | _ => c

def pathLength (zero : α) (add : α → α → α) (d : σ → σ → α) (p : List σ) : α :=
  lengthLoop add d zero p

end PathCost

/-- the arithmetic the shipped objectives use. -/
class Num (α : Type) extends Add α, Sub α, Mul α, Div α where
  zero : α
  one : α
  half : α
  inf : α
  negInf : α
  lt : α → α → Bool
  sqrt : α → α
  ofNat : Nat → α
  /-- `(unsigned int)ceil(x)` for `0 ≤ x < 2^32` -/
  ceilNat : α → Nat

instance : Num Float where
  zero := 0.0
  one := 1.0
  half := 0.5
  inf := 1.0 / 0.0
  negInf := -1.0 / 0.0
  lt a b := a < b
  sqrt := Float.sqrt
  ofNat := Float.ofNat
  ceilNat x := (Float.ceil x).toUInt32.toNat

section Objectives
variable [Num α]

abbrev Pt (α : Type) := List α

/-- `RealVectorStateSpace::distance`: `dist += diff*diff; sqrt(dist)`. -/
def rvDist (a b : Pt α) : α :=
  Num.sqrt ((a.zip b).foldl (fun acc p => acc + (p.1 - p.2) * (p.1 - p.2)) Num.zero)

/-- `RealVectorStateSpace::interpolate`: `from + (to - from) * t`. -/
def rvInterp (a b : Pt α) (t : α) : Pt α :=
  (a.zip b).map (fun p => p.1 + (p.2 - p.1) * t)

/-- the space's resolution data: `longestValidSegment_ = maxExtent * fraction`, count factor. -/
structure Space (α : Type) where
  lvs : α
  factor : Nat

/-- `RealVectorStateSpace::getMaximumExtent() * longestValidSegmentFraction_` for the box
`[lo, hi]^dim`. -/
def Space.box (dim : Nat) (lo hi frac : α) (factor : Nat) : Space α :=
  let e := (List.range dim).foldl (fun (e : α) _ => e + (hi - lo) * (hi - lo)) Num.zero
  { lvs := Num.sqrt e * frac, factor := factor }

/-- `StateSpace::validSegmentCount`: `factor * (unsigned)ceil(distance / longestValidSegment_)`. -/
def Space.segCount (sp : Space α) (a b : Pt α) : Nat :=
  sp.factor * Num.ceilNat (rvDist a b / sp.lvs)

/-- the harness's cost fields (state costs of objectives with a user callback). -/
def field (k : Nat) (s : Pt α) : α :=
  match k with
  | 0 => Num.one
  | 1 =>
    let x := s.headD Num.zero
    Num.one + x * x
  | _ =>
    let y := s.getLastD Num.zero
    Num.half + (if Num.lt y Num.zero then Num.zero - y else y)

/-- default algebra: `identity 0`, `combine +`, `better <`. -/
def algAdditive : CostAlg α := mkAdditive Num.zero (· + ·) Num.lt

/-- `MinimaxObjective`: `combineCosts(c1,c2) = isCostBetterThan(c1,c2) ? c2 : c1`. -/
def algMinimax : CostAlg α := mkMinimax Num.zero Num.lt

/-- `MaximizeMinClearanceObjective`: better is `>`, identity `+inf`, Minimax's combine. -/
def algClearance : CostAlg α := mkMinimax Num.inf (fun a b => Num.lt b a)

/-- `MinimizeArrivalTime`: `combineCosts(c1,c2) = c1 > c2 ? c1 : c2`, identity `-inf`. -/
def algArrival : CostAlg α := mkArrival Num.negInf Num.lt

/-- `StateCostIntegralObjective::trapezoid`: `0.5 * dist * (c1 + c2)`. -/
def trapezoid (c1 c2 d : α) : α := Num.half * d * (c1 + c2)

/-- `PathLengthOptimizationObjective::motionCost` -/
def mcLength (a b : Pt α) : α := rvDist a b

/-- `StateCostIntegralObjective::motionCost` without interpolation. -/
def mcIntegral (sc : Pt α → α) (a b : Pt α) : α := trapezoid (sc a) (sc b) (rvDist a b)

/-- the `for j = 1 .. nd-1` loop of the interpolating `StateCostIntegralObjective::motionCost`;
state: `(totalCost, test1, prevStateCost)`. -/
def integralLoop (sc : Pt α → α) (a b : Pt α) (nd : Nat) : Nat → Nat → (α × Pt α × α) → (α × Pt α × α)
  | 0, _, st => st
  | fuel + 1, j, (total, t1, prev) =>
    if j < nd then
      let t2 := rvInterp a b (Num.ofNat j / Num.ofNat nd)
      let next := sc t2
      integralLoop sc a b nd fuel (j + 1) (total + trapezoid prev next (rvDist t1 t2), t2, next)
    else (total, t1, prev)

/-- `StateCostIntegralObjective::motionCost` with `interpolateMotionCost_`. -/
def mcIntegralInterp (sp : Space α) (sc : Pt α → α) (a b : Pt α) : α :=
  let nd := sp.segCount a b
  let (total, t1, prev) := integralLoop sc a b nd nd 1 (Num.zero, a, sc a)
  total + trapezoid prev (sc b) (rvDist t1 b)

/-- the `for j = 1 .. nd-1` loop of `MinimaxObjective::motionCost`. -/
def minimaxLoop (A : CostAlg α) (sc : Pt α → α) (a b : Pt α) (nd : Nat) : Nat → Nat → α → α
  | 0, _, w => w
  | fuel + 1, j, w =>
    if j < nd then
      let c := sc (rvInterp a b (Num.ofNat j / Num.ofNat nd))
      minimaxLoop A sc a b nd fuel (j + 1) (if A.better w c then c else w)
    else w

/-- `MinimaxObjective::motionCost` (the cost of `s1` itself is *not* looked at). -/
def mcMinimax (A : CostAlg α) (sp : Space α) (sc : Pt α → α) (a b : Pt α) : α :=
  let nd := sp.segCount a b
  let w := minimaxLoop A sc a b nd nd 1 A.identity
  let last := sc b
  if A.better w last then last else w

/-- `MechanicalWorkOptimizationObjective::motionCost`:
`std::max(c(s2) - c(s1), 0.0) + w * distance`. -/
def mcWork (w : α) (sc : Pt α → α) (a b : Pt α) : α :=
  let x := sc b - sc a
  (if Num.lt x Num.zero then Num.zero else x) + w * rvDist a b

/-- `MultiOptimizationObjective::motionCost`: `c = 0; c = c + weight * component.motionCost`. -/
def mcMulti (comps : List (α × (Pt α → Pt α → α))) (a b : Pt α) : α :=
  comps.foldl (fun c p => c + p.1 * p.2 a b) Num.zero

/-- `MinimizeArrivalTime::motionCost` = `combineCosts(stateCost(s1), stateCost(s2))`, the state
cost being the time coordinate (last coordinate of the point). -/
def mcArrival (a b : Pt α) : α :=
  (algArrival (α := α)).combine (a.getLastD Num.zero) (b.getLastD Num.zero)

inductive ObjKind where
  | len | sci | scii | minimax | clear | work | multi | time | lenit
deriving Repr, BEq, DecidableEq

def ObjKind.alg : ObjKind → CostAlg α
  | .minimax => algMinimax
  | .clear => algClearance
  | .time => algArrival
  | _ => algAdditive

def ObjKind.motionCost (k : ObjKind) (sp : Space α) (fld : Nat) (w : α) : Pt α → Pt α → α :=
  match k with
  | .len => mcLength
  | .sci => mcIntegral (field fld)
  | .scii => mcIntegralInterp sp (field fld)
  | .minimax => mcMinimax algMinimax sp (field fld)
  | .clear => mcMinimax algClearance sp (field fld)
  | .work => mcWork w (field fld)
  | .multi => mcMulti [(Num.one, mcLength), (w, mcIntegral (field fld))]
  | .time => mcArrival
  | .lenit => mcLength

/-- `path->cost(opt)`; every shipped objective keeps the default `initialCost = terminalCost =
identityCost()`.  `lenit` is the harness's own subclass of the path-length objective whose
`initialCost` and `terminalCost` are the cost field (so that these two calls are observable). -/
def ObjKind.pathCost (k : ObjKind) (sp : Space α) (fld : Nat) (w : α) (p : List (Pt α)) : α :=
  let A : CostAlg α := k.alg
  match k with
  | .lenit => Soln.pathCost A (k.motionCost sp fld w) (field fld) (field fld) p
  | _ => Soln.pathCost A (k.motionCost sp fld w) (fun _ => A.identity) (fun _ => A.identity) p

/-- `path->length()` -/
def rvPathLength (p : List (Pt α)) : α := pathLength Num.zero (· + ·) rvDist p

end Objectives

end OmplModel.Soln
