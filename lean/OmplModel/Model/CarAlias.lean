import OmplModel.Model.Dubins
import OmplModel.Model.ReedsShepp
import OmplModel.Model.Owen
import OmplModel.Model.Vana
import OmplModel.Model.VanaOwen
/-!
# Store semantics of the car-like spaces' `interpolate` overloads: the OUTPUT state may be the `from` or the `to` state

`StateSpace::interpolate(from, to, t, state)` explicitly allows "overlapping memory" (`sanityChecks` itself calls
`interpolate(s3, s2, 0.5, s3)`; BiTRRT and PathSimplifier interpolate in place).  The pure functions of
`Model/Dubins.lean`, `ReedsShepp.lean`, `Owen.lean`, `Vana.lean`, `VanaOwen.lean` take VALUES and cannot see whether the C++
reads `from` after it has started to write `state`.  This file mirrors the C++ *statement by statement over a store* of four
state objects (`from`, `to`, a separate output object, one scratch object for `allocState()`), with the `state` argument a
POINTER into that store, so that every read of `from` / `to` happens at the point of the program where the C++ does it:

* `dubinsPathOverload`      `DubinsStateSpace::interpolate(from, path, t, state, radius)` (scratch `s`, then three writes)
* `rsPathOverload`          `ReedsSheppStateSpace::interpolate(from, path, t, state)`
* `dubinsCachedOverload`    `DubinsStateSpace::interpolate(from, to, t, firstTime, path, state)` incl. `if (to != state)`
* `rsCachedOverload`        the Reeds-Shepp twin
* `turnInto`                `OwenStateSpace::turn(from, r, angle, state)`
* `owenInterpOverload`      `OwenStateSpace::interpolate(from, to, t, path, state)` incl. `(state == to) ? allocState() : state`
* `vanaPathOverload`, `vanaInterpOverload`   `VanaStateSpace::interpolate(from, path, t, state)` incl.
                            `(from == state) ? allocState() : state`, and the `(from, to, t, path, state)` overload
* `voInterpOverload`        `VanaOwenStateSpace::interpolate(from, to, t, path, state)`
* `…Seq`                    a call sequence on one `firstTime` / `path` pair as the harness drives it (`from` / `to` restored
                            before every call, the output object kept)

`Props/C14A.lean` proves that for EVERY aliasing mode the state object the caller gets back equals the pure function's
value (so the driver may answer `interp@f` from either; it runs these), and that the variants which integrate directly in
the output state (`…InPlace`: the shape of two seeded changes) do not.  Core Lean only, generic over `[DNum α]`.
-/
namespace OmplModel.CarAlias
open OmplModel OmplModel.Dubins

/-- which object the caller passes as the output `state` -/
inductive Alias where
  | sep   -- a separate state
  | frm   -- `state == from`
  | to    -- `state == to`
deriving DecidableEq, Repr

/-- the state objects a call can touch: the caller's `from`, `to`, a separate output object, one scratch `allocState()` -/
inductive Ptr where
  | frm | to | out | tmp
deriving DecidableEq, Repr

def Alias.ptr : Alias → Ptr
  | .sep => .out
  | .frm => .frm
  | .to => .to

structure Mem (σ : Type) where
  frm : σ
  to : σ
  out : σ
  tmp : σ

def Mem.get {σ : Type} (m : Mem σ) : Ptr → σ
  | .frm => m.frm
  | .to => m.to
  | .out => m.out
  | .tmp => m.tmp

def Mem.set {σ : Type} (m : Mem σ) (p : Ptr) (v : σ) : Mem σ :=
  match p with
  | .frm => { m with frm := v }
  | .to => { m with to := v }
  | .out => { m with out := v }
  | .tmp => { m with tmp := v }

/-- what `->as<SE2StateSpace::StateType>()` reads and writes of a state object (the 3D spaces "exploit internal properties of
compound state spaces": their states are accessed as SE(2) states) -/
structure SE2View (σ α : Type) where
  getX : σ → α
  getY : σ → α
  getYaw : σ → α
  setX : σ → α → σ
  setY : σ → α → σ
  setYaw : σ → α → σ

section
variable {α : Type} [DNum α]

def poseView : SE2View (Pose α) α :=
  ⟨(·.x), (·.y), (·.th), fun s v => { s with x := v }, fun s v => { s with y := v }, fun s v => { s with th := v }⟩

def st4View : SE2View (Owen.St4 α) α :=
  ⟨(·.x), (·.y), (·.yaw), fun s v => { s with x := v }, fun s v => { s with y := v }, fun s v => { s with yaw := v }⟩

def st5View : SE2View (Vana.St5 α) α :=
  ⟨(·.x), (·.y), (·.yaw), fun s v => { s with x := v }, fun s v => { s with y := v }, fun s v => { s with yaw := v }⟩

/-- a `const State *from` argument: an object of the store, or an object outside it (a path's own `startSZ_`) -/
inductive Src (α : Type) where
  | ptr (p : Ptr)
  | ext (s : Pose α)

def Src.read {σ : Type} (V : SE2View σ α) (m : Mem σ) : Src α → Pose α
  | .ptr p => ⟨V.getX (m.get p), V.getY (m.get p), V.getYaw (m.get p)⟩
  | .ext s => s

/-- the last three statements of both path overloads, with `s` the scratch state after the loop:
```
state->setX(s->getX() * radius + from->getX());
state->setY(s->getY() * radius + from->getY());      // `from` is read again AFTER the first write to `state`
getSubspace(1)->enforceBounds(s->yaw);  state->setYaw(s->getYaw());
``` -/
def writeBack {σ : Type} (V : SE2View σ α) (radius : α) (s : Pose α) (frm : Src α) (state : Ptr) (m : Mem σ) : Mem σ :=
  let m := m.set state (V.setX (m.get state) (s.x * radius + (frm.read V m).x))
  let m := m.set state (V.setY (m.get state) (s.y * radius + (frm.read V m).y))
  m.set state (V.setYaw (m.get state) (so2Enforce s.th))

/-- `DubinsStateSpace::interpolate(from, path, t, state, radius)`: `s = allocState()` is a fresh scratch object (no aliasing
with anything), `s->setXY(0, 0); s->setYaw(from->getYaw())`, the segment loop on `s`, then `writeBack`. -/
def dubinsPathOverload {σ : Type} (V : SE2View σ α) (radius : α) (P : Path α) (t : α) (frm : Src α) (state : Ptr) (m : Mem σ) : Mem σ :=
  let seg := t * P.len
  let s : Pose α := ⟨0, 0, (frm.read V m).th⟩
  let s := integ (if P.rev then stepRev else stepFwd) P.segList seg s
  writeBack V radius s frm state m

/-- the shape of the seeded changes C07-s7 / C14-s6 ("do not allocate a scratch state"): `s = state`, i.e. the loop runs in
the output object and the final translation reads `from` after `state` has been zeroed. -/
def dubinsPathOverloadInPlace (radius : α) (P : Path α) (t : α) (state : Ptr) (m : Mem (Pose α)) : Mem (Pose α) :=
  let seg := t * P.len
  let m := m.set state { m.get state with x := 0, y := 0 }
  let m := m.set state { m.get state with th := m.frm.th }
  let m := m.set state (integ (if P.rev then stepRev else stepFwd) P.segList seg (m.get state))
  let s := m.get state
  let m := m.set state { s with x := s.x * radius + m.frm.x, y := s.y * radius + m.frm.y }
  m.set state { m.get state with th := so2Enforce (m.get state).th }

/-- `if (to != state) copyState(state, to);` -/
def copyUnlessSame {σ : Type} (src state : Ptr) (m : Mem σ) : Mem σ :=
  if state = src then m else m.set state (m.get src)

/-- `DubinsStateSpace::interpolate(from, to, t, firstTime, path, state)`; `cache = none` is `firstTime == true`.
`none` = a default (`DBL_MAX`) path was stored. -/
def dubinsCachedOverload (rho : α) (sym : Bool) (t : α) (cache : Option (Path α)) (state : Ptr) (m : Mem (Pose α)) :
    Option (Mem (Pose α) × Option (Path α)) :=
  match cache with
  | some P => some (dubinsPathOverload poseView rho P t (.ptr .frm) state m, some P)
  | none =>
    if 1 ≤ t then some (copyUnlessSame .to state m, none)
    else if t ≤ 0 then some (copyUnlessSame .frm state m, none)
    else
      match choosePath rho sym m.frm m.to with
      | .path P => some (dubinsPathOverload poseView rho P t (.ptr .frm) state m, some P)
      | _ => none

/-- a call sequence on one `firstTime` / `path` pair, `from` / `to` re-set to `s1` / `s2` before every call (the output may
have overwritten one of them), the separate output object kept: what `icache[@f|@t]` of harness/dubins.cpp does -/
def dubinsCachedSeq (rho : α) (sym : Bool) (s1 s2 : Pose α) (al : Alias) : Option (Path α) → Pose α → List α → List (Option (Pose α))
  | _, _, [] => []
  | cache, o, t :: ts =>
    match dubinsCachedOverload rho sym t cache al.ptr ⟨s1, s2, o, o⟩ with
    | some (m, cache') => some (m.get al.ptr) :: dubinsCachedSeq rho sym s1 s2 al cache' m.out ts
    | none => [none]

/-- `OwenStateSpace::turn(from, turnRadius, angle, state)`:
```
double theta = s0->getYaw(), phi = theta + angle, r = (angle > 0 ? turnRadius : -turnRadius);
s1->setXY(s0->getX() + r * (sin(phi) - sin(theta)), s0->getY() + r * (-cos(phi) + cos(theta)));   // both arguments before the call
s1->setYaw(phi);
``` -/
def turnInto {σ : Type} (V : SE2View σ α) (src : Ptr) (radius angle : α) (state : Ptr) (m : Mem σ) : Mem σ :=
  let theta := V.getYaw (m.get src)
  let phi := theta + angle
  let r := if 0 < angle then radius else -radius
  let nx := V.getX (m.get src) + r * (Num.sin phi - Num.sin theta)
  let ny := V.getY (m.get src) + r * (-Num.cos phi + Num.cos theta)
  let m := m.set state (V.setY (V.setX (m.get state) nx) ny)
  m.set state (V.setYaw (m.get state) phi)

/-- a mutant of `turn` that writes the yaw first and reads `s0->getYaw()` again for the position (wrong when `state == from`) -/
def turnIntoYawFirst {σ : Type} (V : SE2View σ α) (src : Ptr) (radius angle : α) (state : Ptr) (m : Mem σ) : Mem σ :=
  let phi := V.getYaw (m.get src) + angle
  let r := if 0 < angle then radius else -radius
  let m := m.set state (V.setYaw (m.get state) phi)
  let theta := V.getYaw (m.get src)
  let nx := V.getX (m.get src) + r * (Num.sin phi - Num.sin theta)
  let ny := V.getY (m.get src) + r * (-Num.cos phi + Num.cos theta)
  m.set state (V.setY (V.setX (m.get state) nx) ny)

/-- `OwenStateSpace::interpolate(from, to, t, path, state)` -/
def owenInterpOverload (t : α) (p : Owen.OPath α) (state : Ptr) (m : Mem (Owen.St4 α)) : Mem (Owen.St4 α) :=
  if 1 ≤ t then copyUnlessSame .to state m
  else if t ≤ 0 then copyUnlessSame .frm state m
  else
    -- (*s)[2] = (*f)[2] + t * path.deltaZ_;
    let m := m.set state { m.get state with z := m.frm.z + t * p.dz }
    let m :=
      if ¬ (p.phi < 0) ∧ ¬ (0 < p.phi) then
        if ¬ (p.k < 0) ∧ ¬ (0 < p.k) then
          dubinsPathOverload st4View p.r p.path t (.ptr .frm) state m
        else
          let lengthSpiral := twopi * p.r * p.k
          let lengthPath := p.r * p.path.len
          let length := lengthSpiral + lengthPath
          let dist := t * length
          if lengthSpiral < dist then dubinsPathOverload st4View p.r p.path ((dist - lengthSpiral) / lengthPath) (.ptr .frm) state m
          else turnInto st4View .frm p.r (dist / p.r) state m
      else
        let lengthTurn := Num.abs p.phi * p.r
        let lengthPath := p.r * p.path.len
        let length := lengthTurn + lengthPath
        let dist := t * length
        if lengthTurn < dist then
          -- State *s = (state == to) ? dubinsSpace_.allocState() : state;
          let s : Ptr := if state = .to then .tmp else state
          let m := turnInto st4View .frm p.r p.phi s m
          dubinsPathOverload st4View p.r p.path ((dist - lengthTurn) / lengthPath) (.ptr s) state m
        else
          let angle := dist / p.r
          let angle := if p.phi < 0 then -angle else angle
          turnInto st4View .frm p.r angle state m
    -- getSubspace(1)->enforceBounds(state->yaw)
    m.set state { m.get state with yaw := so2Enforce (m.get state).yaw }

/-- `VanaStateSpace::interpolate(from, path, t, state)`:
```
auto intermediate = (from == state) ? dubinsSpace_.allocState() : state;
dubinsSpace_.interpolate(path.startSZ_, path.pathSZ_, t, intermediate, path.verticalRadius_);
(*s)[2] = i->getY();  s->pitch() = i->getYaw();
dubinsSpace_.interpolate(from, path.pathXY_, t, state, path.horizontalRadius_);
``` -/
def vanaPathOverload (p : Vana.VPath α) (t : α) (state : Ptr) (m : Mem (Vana.St5 α)) : Mem (Vana.St5 α) :=
  let inter : Ptr := if state = .frm then .tmp else state
  let m := dubinsPathOverload st5View p.rv p.sz t (.ext p.startSZ) inter m
  let m := m.set state { m.get state with z := (m.get inter).y }
  let m := m.set state { m.get state with pitch := (m.get inter).yaw }
  dubinsPathOverload st5View p.rh p.xy t (.ptr .frm) state m

/-- a mutant: `intermediate = state` unconditionally (the vertical profile overwrites `from` before the horizontal word reads it) -/
def vanaPathOverloadNoScratch (p : Vana.VPath α) (t : α) (state : Ptr) (m : Mem (Vana.St5 α)) : Mem (Vana.St5 α) :=
  let m := dubinsPathOverload st5View p.rv p.sz t (.ext p.startSZ) state m
  let m := m.set state { m.get state with z := (m.get state).y }
  let m := m.set state { m.get state with pitch := (m.get state).yaw }
  dubinsPathOverload st5View p.rh p.xy t (.ptr .frm) state m

/-- `VanaStateSpace::interpolate(from, to, t, path, state)` -/
def vanaInterpOverload (t : α) (p : Vana.VPath α) (state : Ptr) (m : Mem (Vana.St5 α)) : Mem (Vana.St5 α) :=
  if 1 ≤ t then copyUnlessSame .to state m
  else if t ≤ 0 then copyUnlessSame .frm state m
  else vanaPathOverload p t state m

/-- `VanaOwenStateSpace::interpolate(from, to, t, path, state)` -/
def voInterpOverload (t : α) (p : VanaOwen.VOPath α) (state : Ptr) (m : Mem (Vana.St5 α)) : Mem (Vana.St5 α) :=
  if 1 ≤ t then copyUnlessSame .to state m
  else if t ≤ 0 then copyUnlessSame .frm state m
  else
    let inter : Ptr := if state = .frm then .tmp else state
    let m := dubinsPathOverload st5View p.rv p.sz t (.ext p.startSZ) inter m
    let m := m.set state { m.get state with z := (m.get inter).y }
    let m := m.set state { m.get state with pitch := (m.get inter).yaw }
    let m :=
      if VanaOwen.isZero p.phi then
        if VanaOwen.isZero p.k then dubinsPathOverload st5View p.rh p.xy t (.ptr .frm) state m
        else
          let lengthSpiral := twopi * p.rh * p.k
          let lengthPath := p.rh * p.xy.len
          let length := lengthSpiral + lengthPath
          let dist := t * length
          if lengthSpiral < dist then dubinsPathOverload st5View p.rh p.xy ((dist - lengthSpiral) / lengthPath) (.ptr .frm) state m
          else turnInto st5View .frm p.rh (dist / p.rh) state m
      else
        let lengthTurn := Num.abs p.phi * p.rh
        let lengthPath := p.rh * p.xy.len
        let length := lengthTurn + lengthPath
        let dist := t * length
        if lengthTurn < dist then
          let s : Ptr := if state = .to then .tmp else state
          let m := turnInto st5View .frm p.rh p.phi s m
          dubinsPathOverload st5View p.rh p.xy ((dist - lengthTurn) / lengthPath) (.ptr s) state m
        else
          let angle := dist / p.rh
          let angle := if p.phi < 0 then -angle else angle
          turnInto st5View .frm p.rh angle state m
    m.set state { m.get state with yaw := so2Enforce (m.get state).yaw }

/-- the caller's view of one call: `from`, `to`, a separate output object `o` (also the initial content of the scratch) -/
def callMem {σ : Type} (frm to o : σ) : Mem σ := ⟨frm, to, o, o⟩

end

section
variable {α : Type} [RS.RSNum α]

/-- `ReedsSheppStateSpace::interpolate(from, path, t, state)` -/
def rsPathOverload (rho : α) (p : RS.RSPath α) (t : α) (frm : Src α) (state : Ptr) (m : Mem (Pose α)) : Mem (Pose α) :=
  let seg := t * p.len
  let s : Pose α := ⟨0, 0, (frm.read poseView m).th⟩
  let s := RS.rsInteg p.segList seg s
  writeBack poseView rho s frm state m

/-- `ReedsSheppStateSpace::interpolate(from, to, t, firstTime, path, state)` -/
def rsCachedOverload (rho : α) (t : α) (cache : Option (RS.RSPath α)) (state : Ptr) (m : Mem (Pose α)) :
    Option (Mem (Pose α) × Option (RS.RSPath α)) :=
  match cache with
  | some P => some (rsPathOverload rho P t (.ptr .frm) state m, some P)
  | none =>
    if 1 ≤ t then some (copyUnlessSame .to state m, none)
    else if t ≤ 0 then some (copyUnlessSame .frm state m, none)
    else
      match RS.reedsSheppStates rho m.frm m.to with
      | some P => some (rsPathOverload rho P t (.ptr .frm) state m, some P)
      | none => none

def rsCachedSeq (rho : α) (s1 s2 : Pose α) (al : Alias) : Option (RS.RSPath α) → Pose α → List α → List (Option (Pose α))
  | _, _, [] => []
  | cache, o, t :: ts =>
    match rsCachedOverload rho t cache al.ptr ⟨s1, s2, o, o⟩ with
    | some (m, cache') => some (m.get al.ptr) :: rsCachedSeq rho s1 s2 al cache' m.out ts
    | none => [none]

end
end OmplModel.CarAlias
